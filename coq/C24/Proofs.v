(* C24 — the round-trip proof: json::load (model) applied to json::dump (model) of a well-formed
   value returns `reparsed v`, by induction over the tree with explicit fuel; `reparsed v` equals v
   under json::operator== (model) and, for integers that fit, mathematically. *)
From Coq Require Import List NArith ZArith Bool Lia Permutation.
From OV.C24 Require Import Model Spec PBytes PNum PLoad.
Import ListNotations.
Local Open Scope Z_scope.

Ltac Zify.zify_post_hook ::= Z.div_mod_to_equations.

(* ------------------------------------------------------------------ induction over nested trees *)
Section JsonInd.
  Variables F32 F64 : Type.
  Notation json := (json F32 F64).
  Variable P : json -> Prop.
  Hypothesis HNone : P JNone.
  Hypothesis HNull : P JNull.
  Hypothesis HNum : forall p src, P (JNum p src).
  Hypothesis HStr : forall s, P (JStr s).
  Hypothesis HArr : forall l, Forall P l -> P (JArr l).
  Hypothesis HObj : forall m, Forall (fun kv => P (snd kv)) m -> P (JObj m).

  Fixpoint json_ind' (v : json) : P v :=
    match v with
    | JNone => HNone
    | JNull => HNull
    | JNum p src => HNum p src
    | JStr s => HStr s
    | JArr l => HArr l ((fix go (l : list json) : Forall P l :=
                           match l with
                           | [] => Forall_nil _
                           | x :: t => Forall_cons _ (json_ind' x) (go t)
                           end) l)
    | JObj m => HObj m ((fix go (m : list (bytes * json)) : Forall (fun kv => P (snd kv)) m :=
                           match m with
                           | [] => Forall_nil _
                           | kv :: t => Forall_cons _ (json_ind' (snd kv)) (go t)
                           end) m)
    end.
End JsonInd.

(* number of nodes *)
Fixpoint jsize {F32 F64 : Type} (v : json F32 F64) : nat :=
  match v with
  | JArr l => S (list_sum (map jsize l))
  | JObj m => S (list_sum (map (fun kv => jsize (snd kv)) m))
  | _ => 1
  end.

Lemma stopr_ws : forall w c r, all_ws w -> stop c = true -> stopr (w ++ c :: r).
Proof.
  intros [|x w] c r Hw Hc; cbn [app].
  - now exists c, r.
  - exists x, (w ++ c :: r); split; [reflexivity|].
    unfold all_ws in Hw; cbn [forallb] in Hw; apply andb_true_iff in Hw as [Hx _].
    unfold stop; rewrite Hx; now rewrite orb_true_r.
Qed.

Lemma list_sum_in_le : forall (l : list nat) x, In x l -> (x <= list_sum l)%nat.
Proof.
  induction l as [|y l IH]; intros x H; [destruct H|].
  simpl; destruct H as [->|H]; [lia|]. specialize (IH x H); lia.
Qed.

Lemma list_sum_ge_length : forall (A : Type) (f : A -> nat) l, (forall x, In x l -> 1 <= f x)%nat ->
  (length l <= list_sum (map f l))%nat.
Proof.
  induction l as [|y l IH]; intros H; simpl; [lia|].
  pose proof (H y (or_introl eq_refl)). specialize (IH (fun x Hx => H x (or_intror Hx))). lia.
Qed.

Section Main.
  Variables F32 F64 : Type.
  Variable print32 : F32 -> bytes.
  Variable print64 : F64 -> bytes.
  Variable parse32 : bytes -> F32.
  Variable parse64 : bytes -> F64.
  Variable eq32 : F32 -> F32 -> bool.
  Variable eq64 : F64 -> F64 -> bool.
  Variable fin32 : F32 -> bool.
  Variable fin64 : F64 -> bool.
  (* the variant of primitive::load (Model.lit_by_value, Model.fmt_by_value): any *)
  Variables lv fv : bool.

  (* the float interface: what the theorems assume of printing and reading *)
  Hypothesis print32_shape : forall x, fin32 x = true -> sci_shape (print32 x) = true.
  Hypothesis print64_shape : forall x, fin64 x = true -> sci_shape (print64 x) = true.
  Hypothesis parse32_print32 : forall x, fin32 x = true -> parse32 (print32 x ++ [102%N]) = x.
  Hypothesis parse64_print64 : forall x, fin64 x = true -> parse64 (print64 x) = x.
  Hypothesis eq32_refl : forall x, eq32 x x = true.
  Hypothesis eq64_refl : forall x, eq64 x x = true.

  Notation prim := (prim F32 F64).
  Notation json := (json F32 F64).
  Notation prim_load := (prim_load F32 F64 parse32 parse64 lv fv).
  Notation load := (load F32 F64 parse32 parse64 lv fv).
  Notation prim_toString := (prim_toString F32 F64 print32 print64).
  Notation D := (dump F32 F64 print32 print64 true).
  Notation R := (reparsed F32 F64 print32 print64 lv).
  Notation WF := (wf F32 F64 fin32 fin64).

  Lemma load_S : forall f s,
    load (S f) s =
      match skip_ws s with
      | [] => Oob
      | (c :: t) as s1 =>
          if is_digit c || (c =? 45)%N then
            match prim_load (length s1) true s1 with
            | Ok (p, src) r => Ok (JNum p src) r
            | Err => Err | Oob => Oob | NoFuel => NoFuel
            end
          else if (c =? 123)%N then obj_loop F32 F64 (load f) f true t []
          else if (c =? 91)%N then arr_loop F32 F64 (load f) f t []
          else if ((c =? 39) || (c =? 34))%N then
            match load_string c t [] with
            | Ok str r => Ok (JStr str) r
            | Err => Err | Oob => Oob | NoFuel => NoFuel
            end
          else if (c =? 116)%N then
            (if starts_with [116; 114; 117; 101]%N s1 then Ok (JNum (PInt KBool 1) []) (skipn 4 s1) else Err)
          else if (c =? 102)%N then
            (if starts_with [102; 97; 108; 115; 101]%N s1 then Ok (JNum (PInt KBool 0) []) (skipn 5 s1) else Err)
          else if (c =? 110)%N then
            (if starts_with [110; 117; 108; 108]%N s1 then Ok JNull (skipn 4 s1) else Err)
          else if (c =? 47)%N then
            (if starts_with [47; 47]%N s1 then Ok JNone (snd (span_to_esc 10%N 92%N s1)) else Err)
          else Err
      end.
  Proof. reflexivity. Qed.

  (* ---------------------------------------------------------------- leaves *)
  (* the text of a defined number starts with a digit or '-' and is followed by nothing it could absorb *)
  Lemma load_number_text : forall f Wp text c rest p src r,
    all_ws Wp -> text = c :: rest -> (is_digit c || (c =? 45)%N) = true ->
    (forall n, prim_load (S (S n)) true (text ++ r) = Ok (p, src) r) ->
    r <> [] ->
    load (S f) (Wp ++ text ++ r) = Ok (JNum p src) r.
  Proof.
    intros f Wp text c rest p src r HW -> Hc Hpl Hne.
    rewrite load_S, skip_ws_app by exact HW.
    assert (Hws : is_ws c = false).
    { apply orb_true_iff in Hc as [Hc|Hc]; [now apply is_digit_not_ws|].
      apply N.eqb_eq in Hc; now subst. }
    cbn [app] in *. rewrite (skip_ws_stop c _ Hws). rewrite Hc.
    destruct r as [|x y]; [congruence|].
    assert (El : exists n, length (c :: rest ++ x :: y) = S (S n)).
    { cbn [length]. rewrite app_length. cbn [length]. exists (length rest + length y)%nat. lia. }
    destruct El as [n ->]. now rewrite Hpl.
  Qed.

  Lemma stopr_nonempty : forall r, stopr r -> r <> [].
  Proof. intros r (c & t & -> & _); discriminate. Qed.

  Lemma int_text_head : forall k v, k <> KBool ->
    exists c rest, prim_toString (PInt k v) = c :: rest /\ (is_digit c || (c =? 45)%N) = true.
  Proof.
    intros k v Hk.
    assert (Htxt : prim_toString (PInt k v) = dec_of_Z v ++ (if is_long k then [76%N] else []))
      by (destruct k; try reflexivity; congruence).
    destruct (dec_of_Z_spec v) as (sg & ds & E & Hd & _ & Hsg & _ & (d & t & -> & _)).
    assert (Hdd : is_digit d = true).
    { unfold digits in Hd; cbn [forallb] in Hd; now apply andb_true_iff in Hd as [? _]. }
    rewrite Htxt, E.
    destruct Hsg as [[_ ->]|[_ ->]]; cbn [app]; eexists _, _; (split; [reflexivity|]).
    - now rewrite Hdd.
    - reflexivity.
  Qed.

  Lemma load_int : forall f Wp k v r, all_ws Wp -> k <> KBool -> in_kind k v = true -> stopr r ->
    load (S f) (Wp ++ prim_toString (PInt k v) ++ r) =
      Ok (JNum (reparsed_prim F32 F64 lv (PInt k v)) (prim_toString (PInt k v))) r.
  Proof.
    intros f Wp k v r HW Hk Hin Hr.
    destruct (int_text_head k v Hk) as (c & rest & E & Hc).
    eapply load_number_text; try eassumption.
    - intros n. now apply prim_load_int.
    - now apply stopr_nonempty.
  Qed.

  Lemma sci_head : forall t, sci_text t -> exists c rest, t = c :: rest /\ (is_digit c || (c =? 45)%N) = true.
  Proof.
    intros t (sg & d & frac & es & ex & -> & Hsg & Hd & _).
    destruct Hsg as [->| ->]; cbn [app]; eexists _, _; (split; [reflexivity|]).
    - now rewrite Hd.
    - reflexivity.
  Qed.

  Lemma load_f64 : forall f Wp x r, all_ws Wp -> fin64 x = true -> stopr r ->
    load (S f) (Wp ++ print64 x ++ r) = Ok (JNum (PF64 x) (print64 x)) r.
  Proof.
    intros f Wp x r HW Hfin Hr.
    pose proof (sci_shape_text _ (print64_shape x Hfin)) as Hsci.
    destruct (sci_head _ Hsci) as (c & rest & E & Hc).
    eapply load_number_text; try eassumption.
    - intros n.
      pose proof (prim_load_sci F32 F64 parse32 parse64 lv fv n (print64 x) [] r Hsci (or_introl eq_refl) Hr) as Hpl.
      cbn [app] in Hpl. now rewrite parse64_print64 in Hpl by exact Hfin.
    - now apply stopr_nonempty.
  Qed.

  Lemma load_f32 : forall f Wp x r, all_ws Wp -> fin32 x = true -> stopr r ->
    load (S f) (Wp ++ (print32 x ++ [102%N]) ++ r) = Ok (JNum (PF32 x) (print32 x ++ [102%N])) r.
  Proof.
    intros f Wp x r HW Hfin Hr.
    pose proof (sci_shape_text _ (print32_shape x Hfin)) as Hsci.
    destruct (sci_head _ Hsci) as (c & rest & E & Hc).
    eapply (load_number_text f Wp (print32 x ++ [102%N]) c (rest ++ [102%N])); try eassumption.
    - now rewrite E.
    - intros n.
      pose proof (prim_load_sci F32 F64 parse32 parse64 lv fv n (print32 x) [102%N] r Hsci (or_intror eq_refl) Hr) as Hpl.
      cbv iota in Hpl. rewrite parse32_print32 in Hpl by exact Hfin.
      now rewrite <- app_assoc.
    - now apply stopr_nonempty.
  Qed.

  (* ---------------------------------------------------------------- what a dump starts with *)
  Definition vhead (X : bytes) : Prop :=
    exists h t, X = h :: t /\ h <> 0%N /\ is_ws h = false /\ (h =? 93)%N = false.

  Lemma digit_or_minus_vhead : forall c t, (is_digit c || (c =? 45)%N) = true -> vhead (c :: t).
  Proof.
    intros c t H. exists c, t; split; [reflexivity|].
    apply orb_true_iff in H as [H|H].
    - destruct (is_digit_facts c H) as (_ & _ & Hz & _).
      split; [now apply N.eqb_neq|]. split; [now apply is_digit_not_ws|].
      unfold is_digit in H; apply andb_true_iff in H as [H1 H2]; apply N.leb_le in H1, H2.
      apply N.eqb_neq; lia.
    - apply N.eqb_eq in H; subst; repeat split; discriminate.
  Qed.

  Lemma prim_text_head : forall p, prim_defined F32 F64 fin32 fin64 p = true ->
    exists c t, prim_toString p = c :: t /\
      ((is_digit c || (c =? 45)%N) = true \/ c = 116%N \/ c = 102%N).
  Proof.
    intros [|k v|x|x] H; cbn [prim_defined] in H; try discriminate.
    - destruct k; try (cbn [prim_toString];
        destruct (dec_of_Z_spec v) as (sg & ds & E & Hd & _ & Hsg & _ & (d & t & -> & _));
        rewrite E;
        assert (Hdd : is_digit d = true)
          by (unfold digits in Hd; cbn [forallb] in Hd; now apply andb_true_iff in Hd as [? _]);
        destruct Hsg as [[_ ->]|[_ ->]]; cbn [app]; eexists _, _; (split; [reflexivity|]); left;
        [now rewrite Hdd | reflexivity]).
      cbn [prim_toString]. destruct (v =? 0); eexists _, _; (split; [reflexivity|]); auto.
    - destruct (sci_head _ (sci_shape_text _ (print32_shape x H))) as (c & rest & E & Hc).
      cbn [prim_toString]; rewrite E; cbn [app]; eexists _, _; split; [reflexivity | now left].
    - destruct (sci_head _ (sci_shape_text _ (print64_shape x H))) as (c & rest & E & Hc).
      cbn [prim_toString]; rewrite E; eexists _, _; split; [reflexivity | now left].
  Qed.

  Lemma dump_vhead : forall ind cur v, WF v = true -> vhead (D ind cur v).
  Proof.
    intros ind cur v H. destruct v as [| |p src|s|l|m]; cbn [wf] in H; try discriminate.
    - exists 110%N, [117; 108; 108]%N; repeat split; discriminate.
    - apply andb_true_iff in H as [Hp Hs]. destruct src; [|discriminate].
      cbn [dump]. destruct (prim_text_head p Hp) as (c & t & -> & [Hc|[->| ->]]).
      + now apply digit_or_minus_vhead.
      + eexists _, _; repeat split; discriminate.
      + eexists _, _; repeat split; discriminate.
    - cbn [dump]. eexists _, _; repeat split; discriminate.
    - cbn [dump]. destruct l; eexists _, _; repeat split; discriminate.
    - cbn [dump]. destruct m; eexists _, _; repeat split; discriminate.
  Qed.

  (* ---------------------------------------------------------------- arrays *)
  Lemma sep_shape : forall ind, exists w, sep ind = 44%N :: w /\ all_ws w.
  Proof. intros [|x ind]; eexists; split; reflexivity. Qed.

  Lemma nl_ws : forall ind, all_ws (nl ind).
  Proof. intros [|x ind]; reflexivity. Qed.

  Lemma arr_loop_S : forall ld f c t acc, c <> 0%N ->
    arr_loop F32 F64 ld (S f) (c :: t) acc =
      match skip_ws (c :: t) with
      | [] => Oob
      | (c1 :: t1) as s1 =>
          if (c1 =? 93)%N then Ok (JArr acc) t1
          else
            match ld s1 with
            | Ok v s2 =>
                match skip_ws s2 with
                | [] => Oob
                | c3 :: t3 =>
                    if (c3 =? 44)%N then arr_loop F32 F64 ld f t3 (acc ++ [v])
                    else if (c3 =? 93)%N then Ok (JArr (acc ++ [v])) t3
                    else Err
                end
            | Err => Err | Oob => Oob | NoFuel => NoFuel
            end
      end.
  Proof. intros. cbn [arr_loop]. apply N.eqb_neq in H. now rewrite H. Qed.

  Lemma arr_loop_items : forall (ld : bytes -> res json) ind ni cur r l acc fuel Wp,
    (length l <= fuel)%nat -> l <> [] -> all_ws Wp -> all_ws ni -> all_ws cur ->
    (forall x, In x l -> vhead (D ind ni x) /\
                         forall r', stopr r' -> ld (D ind ni x ++ r') = Ok (R x) r') ->
    arr_loop F32 F64 ld fuel (Wp ++ join_items ni ind (map (D ind ni) l) ++ cur ++ 93%N :: r) acc
      = Ok (JArr (acc ++ map R l)) r.
  Proof.
    intros ld ind ni cur r l. induction l as [|x t IH]; intros acc fuel Wp Hf Hne HW Hni Hcur Hld; [congruence|].
    destruct fuel as [|f]; [cbn [length] in Hf; lia|].
    destruct (Hld x (or_introl eq_refl)) as [(h & X' & EX & Hh0 & Hhws & Hh93) HldX].
    cbn [map join_items]. rewrite EX.
    set (tail := (match map (D ind ni) t with [] => nl ind | _ :: _ => sep ind end)
                   ++ join_items ni ind (map (D ind ni) t)).
    assert (Hshape : Wp ++ (ni ++ (h :: X') ++ tail) ++ cur ++ 93%N :: r
                     = (Wp ++ ni) ++ h :: X' ++ tail ++ cur ++ 93%N :: r).
    { subst tail. rewrite <- !app_assoc. cbn [app]. rewrite <- ?app_assoc. reflexivity. }
    fold tail. rewrite Hshape.
    assert (HWn : all_ws (Wp ++ ni)) by now apply all_ws_app.
    destruct (ws_head_nonzero (Wp ++ ni) h (X' ++ tail ++ cur ++ 93%N :: r) HWn Hh0) as (c' & t' & Ec & Hc').
    rewrite Ec, arr_loop_S by exact Hc'. rewrite <- Ec.
    rewrite skip_ws_app by exact HWn. rewrite (skip_ws_stop h _ Hhws). rewrite Hh93.
    change (h :: X' ++ tail ++ cur ++ 93%N :: r) with ((h :: X') ++ tail ++ cur ++ 93%N :: r).
    rewrite <- EX.
    destruct t as [|y t].
    - (* last element *)
      subst tail. cbn [map join_items]. rewrite app_nil_r.
      rewrite HldX.
      2:{ destruct ind as [|i ind]; cbn [nl app].
          - apply stopr_ws; [exact Hcur | reflexivity].
          - eexists _, _; split; reflexivity. }
      rewrite app_assoc, skip_ws_app by (apply all_ws_app; [apply nl_ws | exact Hcur]).
      cbn [skip_ws is_ws N.eqb Pos.eqb orb]. cbn [map]. reflexivity.
    - (* an element followed by another *)
      subst tail. cbn [map]. destruct (sep_shape ind) as (w & Es & Hw). rewrite Es.
      rewrite HldX by (eexists _, _; split; reflexivity).
      cbn [app skip_ws is_ws N.eqb Pos.eqb orb].
      specialize (IH (acc ++ [R x]) f w).
      cbn [map] in IH. rewrite <- app_assoc in IH. cbn [app] in IH.
      rewrite <- app_assoc.
      rewrite IH; try assumption.
      + reflexivity.
      + cbn [length] in Hf |- *; lia.
      + discriminate.
      + intros z Hz; apply Hld; now right.
  Qed.

  (* ---------------------------------------------------------------- objects *)
  Definition lt_all (ks : list bytes) (k : bytes) : Prop := forall k', In k' ks -> bytes_ltb k' k = true.

  Lemma obj_set_append : forall k (v : json) acc, lt_all (map fst acc) k ->
    obj_set F32 F64 k v acc = acc ++ [(k, v)].
  Proof.
    induction acc as [|[k' v'] acc IH]; intros H; [reflexivity|].
    cbn [obj_set app].
    assert (Hk : bytes_ltb k' k = true) by (apply H; now left).
    rewrite (bytes_ltb_asym _ _ Hk), (bytes_ltb_neq _ _ Hk).
    f_equal. apply IH. intros k'' Hin; apply H; now right.
  Qed.

  Lemma keys_sorted_tail : forall k (x : json) m, keys_sorted F32 F64 ((k, x) :: m) = true ->
    keys_sorted F32 F64 m = true.
  Proof.
    intros k x m H. cbn [keys_sorted] in H. destruct m as [|[k2 x2] m]; [reflexivity|].
    now apply andb_true_iff in H as [_ H2].
  Qed.

  Lemma keys_sorted_all : forall k (x : json) m, keys_sorted F32 F64 ((k, x) :: m) = true ->
    forall k', In k' (map fst m) -> bytes_ltb k k' = true.
  Proof.
    intros k x m. revert k x. induction m as [|[k2 x2] m IH]; intros k x H k' Hin; [destruct Hin|].
    cbn [keys_sorted] in H. apply andb_true_iff in H as [H1 H2].
    destruct Hin as [<-|Hin]; [exact H1|].
    eapply bytes_ltb_trans; [exact H1|]. apply (IH k2 x2); [exact H2 | exact Hin].
  Qed.

  Definition item (ind ni : bytes) (kv : bytes * json) : bytes :=
    let '(k, x) := kv in
    34%N :: dump_key true k ++ [34; 58; 32]%N
      ++ match x with JNone => [123; 125]%N | _ => D ind ni x end.

  Lemma obj_loop_S : forall ld f c t acc, c <> 0%N ->
    obj_loop F32 F64 ld (S f) true (c :: t) acc =
      match skip_ws (c :: t) with
      | [] => Oob
      | (c1 :: _) as s1 =>
          if ((c1 =? 125) || (c1 =? 0))%N then
            match s1 with [] => Oob | _ :: t1 => Ok (JObj acc) t1 end
          else
            match load_field F32 F64 ld s1 acc with
            | Ok acc' s2 =>
                match skip_ws s2 with
                | [] => Oob
                | (c3 :: t3) as s3 =>
                    if (c3 =? 44)%N then obj_loop F32 F64 ld f true t3 acc'
                    else if (c3 =? 125)%N then Ok (JObj acc') t3
                    else if (c3 =? 0)%N then Err
                    else Err
                end
            | Err => Err | Oob => Oob | NoFuel => NoFuel
            end
      end.
  Proof. intros. cbn [obj_loop]. apply N.eqb_neq in H. now rewrite H. Qed.

  Lemma load_field_item : forall (ld : bytes -> res json) ind ni k x rest acc,
    k <> [] -> bytes_ok k = true -> x <> JNone ->
    lt_all (map fst acc) k ->
    ld (32%N :: D ind ni x ++ rest) = Ok (R x) rest ->
    load_field F32 F64 ld (item ind ni (k, x) ++ rest) acc = Ok (acc ++ [(k, R x)]) rest.
  Proof.
    intros ld ind ni k x rest acc Hk Hok Hx Hlt Hld.
    unfold item, dump_key. cbn [app]. unfold load_field. cbn [N.eqb Pos.eqb].
    rewrite <- app_assoc. cbn [app].
    rewrite load_string_esc by exact Hok. cbn [app].
    destruct k as [|a k]; [congruence|].
    cbn [skip_ws is_ws N.eqb Pos.eqb orb].
    assert (Ev : match x with JNone => [123; 125]%N | _ => D ind ni x end = D ind ni x) by (destruct x; congruence).
    rewrite Ev, Hld. now rewrite obj_set_append.
  Qed.

  Lemma obj_loop_items : forall (ld : bytes -> res json) ind ni cur' r m acc fuel Wp,
    (length m <= fuel)%nat -> m <> [] -> all_ws Wp -> all_ws ni -> all_ws cur' ->
    keys_sorted F32 F64 m = true ->
    (forall k, In k (map fst m) -> lt_all (map fst acc) k) ->
    (forall k x, In (k, x) m -> k <> [] /\ bytes_ok k = true /\ x <> JNone /\
                                forall r', stopr r' -> ld (32%N :: D ind ni x ++ r') = Ok (R x) r') ->
    obj_loop F32 F64 ld fuel true (Wp ++ join_items ni ind (map (item ind ni) m) ++ cur' ++ 125%N :: r) acc
      = Ok (JObj (acc ++ map (fun kv => let '(k, x) := kv in (k, R x)) m)) r.
  Proof.
    intros ld ind ni cur' r m. induction m as [|[k x] t IH]; intros acc fuel Wp Hf Hne HW Hni Hcur Hsort Hacc Hld; [congruence|].
    destruct fuel as [|f]; [cbn [length] in Hf; lia|].
    destruct (Hld k x (or_introl eq_refl)) as (Hk & Hok & Hx & HldX).
    cbn [map join_items].
    set (tail := (match map (item ind ni) t with [] => nl ind | _ :: _ => sep ind end)
                   ++ join_items ni ind (map (item ind ni) t)).
    assert (Hitem : exists X', item ind ni (k, x) = 34%N :: X') by (unfold item; eexists; reflexivity).
    destruct Hitem as [X' EX].
    assert (Hshape : Wp ++ (ni ++ item ind ni (k, x) ++ tail) ++ cur' ++ 125%N :: r
                     = (Wp ++ ni) ++ 34%N :: X' ++ tail ++ cur' ++ 125%N :: r).
    { rewrite EX. rewrite <- !app_assoc. cbn [app]. rewrite <- ?app_assoc. reflexivity. }
    fold tail. rewrite Hshape.
    assert (HWn : all_ws (Wp ++ ni)) by now apply all_ws_app.
    destruct (ws_head_nonzero (Wp ++ ni) 34%N (X' ++ tail ++ cur' ++ 125%N :: r) HWn ltac:(discriminate)) as (c' & t' & Ec & Hc').
    rewrite Ec, obj_loop_S by exact Hc'. rewrite <- Ec.
    rewrite skip_ws_app by exact HWn. cbn [skip_ws is_ws N.eqb Pos.eqb orb].
    change (34%N :: X' ++ tail ++ cur' ++ 125%N :: r) with ((34%N :: X') ++ tail ++ cur' ++ 125%N :: r).
    rewrite <- EX.
    assert (Hltk : lt_all (map fst acc) k) by (apply Hacc; now left).
    destruct t as [|[k2 x2] t].
    - subst tail. cbn [map join_items]. rewrite app_nil_r.
      rewrite (load_field_item ld ind ni k x _ acc Hk Hok Hx Hltk).
      2:{ apply HldX. destruct ind as [|i ind]; cbn [nl app].
          - apply stopr_ws; [exact Hcur | reflexivity].
          - eexists _, _; split; reflexivity. }
      rewrite app_assoc, skip_ws_app by (apply all_ws_app; [apply nl_ws | exact Hcur]).
      cbn [skip_ws is_ws N.eqb Pos.eqb orb]. reflexivity.
    - subst tail. cbn [map]. destruct (sep_shape ind) as (w & Es & Hw). rewrite Es.
      rewrite (load_field_item ld ind ni k x _ acc Hk Hok Hx Hltk).
      2:{ apply HldX. eexists _, _; split; reflexivity. }
      cbn [app skip_ws is_ws N.eqb Pos.eqb orb].
      specialize (IH (acc ++ [(k, R x)]) f w).
      cbn [map] in IH. rewrite <- app_assoc in IH. cbn [app] in IH.
      rewrite <- app_assoc.
      apply IH; try assumption.
      + cbn [length] in Hf |- *; lia.
      + discriminate.
      + exact (keys_sorted_tail k x _ Hsort).
      + intros k' Hk' k'' Hin. rewrite map_app in Hin. apply in_app_or in Hin as [Hin|[<-|[]]].
        * apply (Hacc k'); [now right | exact Hin].
        * eapply keys_sorted_all; eassumption.
      + intros k' x' Hin; apply Hld; now right.
  Qed.

  (* ---------------------------------------------------------------- the induction *)
  Definition good (ind : bytes) (f : nat) (v : json) : Prop :=
    forall Wp cur r, all_ws Wp -> all_ws cur -> stopr r ->
      load f (Wp ++ D ind cur v ++ r) = Ok (R v) r.

  Lemma in_kind_bool : forall v, in_kind KBool v = true -> v = 0 \/ v = 1.
  Proof.
    unfold in_kind; cbn; intros v H; apply andb_true_iff in H as [H1 H2];
      apply Z.leb_le in H1, H2; lia.
  Qed.

  Theorem load_dump : forall ind, all_ws ind ->
    forall v, WF v = true -> forall f, (2 * jsize v <= f)%nat -> good ind f v.
  Proof.
    intros ind Hind v. induction v as [| |p src|s|l IHl|m IHm] using json_ind';
      intros Hwf f Hf Wp cur r HW Hcur Hr; cbn [wf] in Hwf; try discriminate.
    - (* null *)
      destruct f as [|f]; [cbn in Hf; lia|].
      cbn [dump reparsed]. rewrite load_S, skip_ws_app by exact HW. reflexivity.
    - (* number *)
      destruct f as [|f]; [cbn in Hf; lia|].
      apply andb_true_iff in Hwf as [Hp Hs]. destruct src; [|discriminate]. cbn [dump].
      destruct p as [|k v|x|x]; cbn [prim_defined] in Hp; try discriminate.
      + destruct (ikind_eqb k KBool) eqn:Ek.
        * assert (k = KBool) by (destruct k; try reflexivity; discriminate). subst k.
          cbn [reparsed prim_toString].
          destruct (in_kind_bool v Hp) as [->| ->]; cbn [Z.eqb];
            rewrite load_S, skip_ws_app by exact HW; reflexivity.
        * assert (Hk : k <> KBool) by (intros ->; discriminate).
          rewrite load_int by assumption.
          destruct k; try congruence; reflexivity.
      + cbn [prim_toString reparsed reparsed_prim]. now apply load_f32.
      + cbn [prim_toString reparsed reparsed_prim]. now apply load_f64.
    - (* string *)
      destruct f as [|f]; [cbn in Hf; lia|].
      cbn [dump reparsed]. rewrite load_S, skip_ws_app by exact HW.
      cbn [skip_ws is_ws N.eqb Pos.eqb orb is_digit N.leb N.compare Pos.compare Pos.compare_cont andb app].
      rewrite <- app_assoc. cbn [app].
      now rewrite load_string_esc.
    - (* array *)
      destruct f as [|f]; [cbn in Hf; lia|].
      cbn [jsize] in Hf. cbn [reparsed].
      destruct l as [|x t].
      + cbn [dump map]. rewrite load_S, skip_ws_app by exact HW.
        cbn [skip_ws is_ws N.eqb Pos.eqb orb is_digit N.leb N.compare Pos.compare Pos.compare_cont andb app].
        destruct f as [|f]; [cbn in Hf; lia|]. reflexivity.
      + set (l := x :: t) in *.
        assert (El : D ind cur (JArr l) =
                     91%N :: nl ind ++ join_items (cur ++ ind) ind (map (D ind (cur ++ ind)) l) ++ cur ++ [93%N])
          by reflexivity.
        rewrite El. rewrite load_S, skip_ws_app by exact HW.
        cbn [skip_ws is_ws N.eqb Pos.eqb orb is_digit N.leb N.compare Pos.compare Pos.compare_cont andb app].
        rewrite <- !app_assoc. cbn [app].
        assert (Hlen : (length l <= list_sum (map jsize l))%nat).
        { apply list_sum_ge_length. intros y _. destruct y; cbn [jsize]; lia. }
        apply (arr_loop_items (load f) ind (cur ++ ind) cur r l [] f (nl ind)).
        * lia.
        * discriminate.
        * apply nl_ws.
        * now apply all_ws_app.
        * exact Hcur.
        * intros y Hy.
          assert (Hwy : WF y = true) by (rewrite forallb_forall in Hwf; now apply Hwf).
          split; [now apply dump_vhead|].
          intros r' Hr'. rewrite Forall_forall in IHl.
          assert (Hsz : (jsize y <= list_sum (map jsize l))%nat) by (apply list_sum_in_le, in_map, Hy).
          pose proof (IHl y Hy Hwy f ltac:(lia) [] (cur ++ ind) r' all_ws_nil (all_ws_app _ _ Hcur Hind) Hr') as H.
          exact H.
    - (* object *)
      destruct f as [|f]; [cbn in Hf; lia|].
      cbn [jsize] in Hf. cbn [reparsed].
      apply andb_true_iff in Hwf as [Hsort Hwf].
      destruct m as [|kv t].
      + cbn [dump map]. rewrite load_S, skip_ws_app by exact HW.
        cbn [skip_ws is_ws N.eqb Pos.eqb orb is_digit N.leb N.compare Pos.compare Pos.compare_cont andb app].
        destruct f as [|f]; [cbn in Hf; lia|]. reflexivity.
      + set (m := kv :: t) in *.
        set (cur' := match ind with [] => [] | _ :: _ => cur end).
        assert (Em : D ind cur (JObj m) =
                     123%N :: nl ind ++ join_items (cur ++ ind) ind (map (item ind (cur ++ ind)) m) ++ cur' ++ [125%N]).
        { reflexivity. }
        rewrite Em. rewrite load_S, skip_ws_app by exact HW.
        cbn [skip_ws is_ws N.eqb Pos.eqb orb is_digit N.leb N.compare Pos.compare Pos.compare_cont andb app].
        rewrite <- !app_assoc. cbn [app].
        assert (Hlen : (length m <= list_sum (map (fun kv => jsize (snd kv)) m))%nat).
        { apply list_sum_ge_length. intros [k y] _. destruct y; cbn [jsize snd]; lia. }
        assert (Hcur' : all_ws cur') by (subst cur'; destruct ind; [reflexivity | exact Hcur]).
        apply (obj_loop_items (load f) ind (cur ++ ind) cur' r m [] f (nl ind)).
        * lia.
        * discriminate.
        * apply nl_ws.
        * now apply all_ws_app.
        * exact Hcur'.
        * exact Hsort.
        * intros k _ k' [].
        * intros k y Hy.
          rewrite forallb_forall in Hwf. specialize (Hwf (k, y) Hy). cbn beta iota in Hwf.
          apply andb_true_iff in Hwf as [Hwf Hwy]. apply andb_true_iff in Hwf as [Hk Hok].
          split; [destruct k; [discriminate | discriminate]|].
          split; [exact Hok|].
          split; [intros ->; discriminate|].
          intros r' Hr'. rewrite Forall_forall in IHm.
          assert (Hsz : (jsize y <= list_sum (map (fun kv => jsize (snd kv)) m))%nat).
          { apply list_sum_in_le. change (jsize y) with ((fun kv : bytes * json => jsize (snd kv)) (k, y)).
            now apply in_map. }
          assert (Hfy : (2 * jsize y <= f)%nat) by lia.
          exact (IHm (k, y) Hy Hwy f Hfy [32%N] (cur ++ ind) r' eq_refl (all_ws_app _ _ Hcur Hind) Hr').
  Qed.

  (* ---------------------------------------------------------------- fuel: a dump is at least as long as its tree *)
  Lemma join_items_length : forall ni ind items,
    (list_sum (map (@length N) items) <= length (join_items ni ind items))%nat.
  Proof.
    induction items as [|x t IH]; [cbn; lia|].
    cbn [join_items map]. simpl list_sum. rewrite !app_length. lia.
  Qed.

  Lemma list_sum_map_le : forall (A : Type) (f g : A -> nat) l,
    (forall x, In x l -> f x <= g x)%nat -> (list_sum (map f l) <= list_sum (map g l))%nat.
  Proof.
    induction l as [|y l IH]; intros H; simpl; [lia|].
    pose proof (H y (or_introl eq_refl)). specialize (IH (fun x Hx => H x (or_intror Hx))). lia.
  Qed.

  Lemma dump_length : forall ind cur v, WF v = true -> (jsize v <= length (D ind cur v))%nat.
  Proof.
    intros ind cur v. revert cur.
    induction v as [| |p src|s|l IHl|m IHm] using json_ind'; intros cur Hwf; cbn [wf] in Hwf; try discriminate.
    - cbn; lia.
    - apply andb_true_iff in Hwf as [Hp Hs]. destruct src; [|discriminate]. cbn [dump jsize].
      destruct (prim_text_head p Hp) as (c & t & -> & _). cbn [length]; lia.
    - cbn [dump jsize length]; lia.
    - cbn [jsize]. destruct l as [|x t]; [cbn; lia|].
      set (l := x :: t) in *.
      assert (El : D ind cur (JArr l) =
                   91%N :: nl ind ++ join_items (cur ++ ind) ind (map (D ind (cur ++ ind)) l) ++ cur ++ [93%N])
        by reflexivity.
      rewrite El. cbn [length]. rewrite !app_length.
      pose proof (join_items_length (cur ++ ind) ind (map (D ind (cur ++ ind)) l)) as Hj.
      rewrite map_map in Hj.
      assert (Hle : (list_sum (map jsize l) <= list_sum (map (fun x => length (D ind (cur ++ ind) x)) l))%nat).
      { apply list_sum_map_le. intros y Hy. rewrite Forall_forall in IHl. apply IHl; [exact Hy|].
        rewrite forallb_forall in Hwf; now apply Hwf. }
      lia.
    - cbn [jsize]. apply andb_true_iff in Hwf as [_ Hwf].
      destruct m as [|kv t]; [cbn; lia|].
      set (m := kv :: t) in *.
      set (cur' := match ind with [] => [] | _ :: _ => cur end).
      assert (Em : D ind cur (JObj m) =
                   123%N :: nl ind ++ join_items (cur ++ ind) ind (map (item ind (cur ++ ind)) m) ++ cur' ++ [125%N])
        by reflexivity.
      rewrite Em. cbn [length]. rewrite !app_length.
      pose proof (join_items_length (cur ++ ind) ind (map (item ind (cur ++ ind)) m)) as Hj.
      rewrite map_map in Hj.
      assert (Hle : (list_sum (map (fun kv => jsize (snd kv)) m)
                     <= list_sum (map (fun x => length (item ind (cur ++ ind) x)) m))%nat).
      { apply list_sum_map_le. intros [k y] Hy. rewrite Forall_forall in IHm.
        rewrite forallb_forall in Hwf. specialize (Hwf (k, y) Hy). cbn beta iota in Hwf.
        apply andb_true_iff in Hwf as [_ Hwy].
        specialize (IHm (k, y) Hy (cur ++ ind) Hwy). cbn [snd] in *.
        unfold item. cbn [length]. rewrite !app_length.
        assert (Ev : match y with JNone => [123; 125]%N | _ => D ind (cur ++ ind) y end = D ind (cur ++ ind) y)
          by (destruct y; try reflexivity; discriminate).
        rewrite Ev. lia. }
      lia.
  Qed.

  (* ---------------------------------------------------------------- parse (dump v) *)
  Theorem parse_dump_exact : forall indent v, WF v = true ->
    parse_at F32 F64 parse32 parse64 lv fv (dump_top F32 F64 print32 print64 true indent v) = Ok (R v) [0%N].
  Proof.
    intros indent v Hwf. unfold parse_at, dump_top.
    set (ind := repeat 32%N (Z.to_nat (if 0 <=? indent then indent else 2))).
    pose proof (load_dump ind (all_ws_repeat _) v Hwf) as H.
    pose proof (dump_length ind [] v Hwf) as Hlen.
    specialize (H (2 * length (D ind [] v) + 2)%nat ltac:(lia) [] [] [0%N] all_ws_nil all_ws_nil).
    cbn [app] in H. apply H. eexists _, _; split; reflexivity.
  Qed.

  (* ---------------------------------------------------------------- reparsed v is equal to v *)
  Lemma prim_equal_reparsed : forall p, prim_defined F32 F64 fin32 fin64 p = true ->
    prim_equal F32 F64 eq32 eq64 (reparsed_prim F32 F64 lv p) p = Some true.
  Proof.
    intros [|k v|x|x] H; cbn [prim_defined] in H; try discriminate.
    - unfold in_kind in H. apply andb_true_iff in H as [H1 H2]. apply Z.leb_le in H1, H2.
      destruct k; cbn [reparsed_prim is_long]; cbn in H1, H2;
        try (destruct (lv && negb (Z.abs v <=? 2147483647)));
        cbn [prim_equal rank N.ltb N.compare Pos.compare Pos.compare_cont];
        f_equal; apply Z.eqb_eq;
        unfold cast, wrap_s, wrap_u;
        try (destruct (Z.eqb_spec v 0); lia);
        change (2 ^ 64) with 18446744073709551616; change (2 ^ (64 - 1)) with 9223372036854775808;
        change (2 ^ 32) with 4294967296; change (2 ^ (32 - 1)) with 2147483648;
        change (2 ^ 16) with 65536; change (2 ^ (16 - 1)) with 32768;
        change (2 ^ 8) with 256; change (2 ^ (8 - 1)) with 128; lia.
    - cbn. now rewrite eq32_refl.
    - cbn. now rewrite eq64_refl.
  Qed.

  Theorem reparsed_eq : forall v, WF v = true -> json_eq F32 F64 eq32 eq64 (R v) v = Some true.
  Proof.
    induction v as [| |p src|s|l IHl|m IHm] using json_ind'; intros Hwf; cbn [wf] in Hwf; try discriminate.
    - reflexivity.
    - apply andb_true_iff in Hwf as [Hp _].
      pose proof (prim_equal_reparsed p Hp) as He.
      destruct p as [|k v|x|x]; try discriminate; try exact He.
      destruct k; exact He.
    - cbn [reparsed json_eq]. now rewrite bytes_eqb_refl.
    - cbn [reparsed json_eq]. rewrite map_length, Nat.eqb_refl.
      induction l as [|x t IHt]; [reflexivity|].
      cbn [map]. cbn [forallb] in Hwf. apply andb_true_iff in Hwf as [Hx Ht].
      inversion IHl as [|? ? Px Pt]; subst. rewrite (Px Hx). now apply IHt.
    - cbn [reparsed json_eq]. rewrite map_length, Nat.eqb_refl.
      apply andb_true_iff in Hwf as [_ Hwf].
      induction m as [|[k x] t IHt]; [reflexivity|].
      cbn [map]. cbn [forallb] in Hwf. apply andb_true_iff in Hwf as [Hx Ht].
      apply andb_true_iff in Hx as [_ Hx].
      inversion IHm as [|? ? Px Pt]; subst. cbn [snd] in Px.
      rewrite bytes_eqb_refl, (Px Hx). now apply IHt.
  Qed.

  Lemma prim_same_reparsed : forall p, prim_defined F32 F64 fin32 fin64 p = true ->
    prim_fits F32 F64 lv p = true ->
    prim_same F32 F64 eq32 eq64 (reparsed_prim F32 F64 lv p) p = true.
  Proof.
    intros [|k v|x|x] H Hfit; cbn [prim_defined] in H; try discriminate.
    - unfold in_kind in H. apply andb_true_iff in H as [H1 H2]. apply Z.leb_le in H1, H2.
      destruct k; cbn [reparsed_prim is_long]; cbn in H1, H2; cbn [prim_fits] in Hfit;
        try (apply Z.leb_le in Hfit; cbn in Hfit);
        try (destruct lv; cbn [andb orb] in *;
             [destruct (Z.leb_spec (Z.abs v) 2147483647); cbn [negb] | try (apply Z.leb_le in Hfit; cbn in Hfit)]);
        cbn [prim_same is_boolk Bool.eqb];
        rewrite andb_true_r; apply Z.eqb_eq;
        unfold cast, wrap_s, wrap_u;
        change (2 ^ 64) with 18446744073709551616; change (2 ^ (64 - 1)) with 9223372036854775808;
        change (2 ^ 32) with 4294967296; change (2 ^ (32 - 1)) with 2147483648; lia.
    - cbn. now rewrite eq32_refl.
    - cbn. now rewrite eq64_refl.
  Qed.

  Theorem reparsed_same : forall v, WF v = true -> ints_fit F32 F64 lv v = true ->
    json_same F32 F64 eq32 eq64 (R v) v = true.
  Proof.
    induction v as [| |p src|s|l IHl|m IHm] using json_ind'; intros Hwf Hfit; cbn [wf] in Hwf; try discriminate.
    - reflexivity.
    - apply andb_true_iff in Hwf as [Hp _]. cbn [ints_fit] in Hfit.
      pose proof (prim_same_reparsed p Hp Hfit) as He.
      destruct p as [|k v|x|x]; try discriminate; try exact He.
      destruct k; exact He.
    - cbn [reparsed json_same]. now rewrite bytes_eqb_refl.
    - cbn [reparsed json_same]. cbn [ints_fit] in Hfit.
      induction l as [|x t IHt]; [reflexivity|].
      cbn [map]. cbn [forallb] in Hwf, Hfit.
      apply andb_true_iff in Hwf as [Hx Ht]. apply andb_true_iff in Hfit as [Fx Ft].
      inversion IHl as [|? ? Px Pt]; subst. rewrite (Px Hx Fx). now apply IHt.
    - cbn [reparsed json_same]. cbn [ints_fit] in Hfit.
      apply andb_true_iff in Hwf as [_ Hwf].
      induction m as [|[k x] t IHt]; [reflexivity|].
      cbn [map]. cbn [forallb] in Hwf, Hfit.
      apply andb_true_iff in Hwf as [Hx Ht]. apply andb_true_iff in Hfit as [Fx Ft].
      apply andb_true_iff in Hx as [_ Hx]. cbn [snd] in Fx.
      inversion IHm as [|? ? Px Pt]; subst. cbn [snd] in Px.
      rewrite bytes_eqb_refl, (Px Hx Fx). now apply IHt.
  Qed.

End Main.
