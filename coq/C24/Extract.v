(* Extraction of the executable model and specification (ExtrOcamlBasic only; N and Z stay the
   extracted inductives, floats are a type parameter instantiated by the driver).  coqc is run
   from /verif/coq by the Makefile, so the path is relative to that directory. *)
From Coq Require Import Extraction ExtrOcamlBasic NArith ZArith.
From OV.C24 Require Import Model Spec.
Extraction Language OCaml.
Extraction "../_work/extract/C24/model.ml"
  Z.add Z.mul Z.opp Z.of_N N.add N.mul Z.eqb Z.leb Z.ltb
  dump dump_top parse_at parse load json_eq json_hash obj_set obj_of_list json_assign_scalar
  prim_toString prim_load prim_equal
  json_same wf in_domain ints_fit reparsed sci_shape.
