(* C24 — JSON dump and parse round-trip every value.  Statements only; proofs are in Proofs.v /
   PDet.v.  Vocabulary: Model.v (dump, parse, json_eq = json::operator==, json_hash) and Spec.v
   (wf, json_same, ints_fit, reparsed, sci_shape).

   Floats are abstract: every theorem below holds for every type F32/F64 and every printer/reader
   pair that satisfies the four hypotheses spelled out in the statements (printed text has the
   shape [-]d.ddd…e[+-]dd…, reading a printed finite value gives it back, bit equality is reflexive).

   The model's `ke` flag is `true` for the repaired json::dumpToString (object keys escaped like
   string values: fixes/C24-1.patch); `false` is the pinned source and is refuted below.
   `lv` / `fv` name the variant of primitive::load in the tree (pinned, or with fixes/C14-1 / C14-2, which
   type literals by value); every theorem holds for all four combinations. *)
From Coq Require Import List NArith ZArith Bool.
From OV.C24 Require Import Model Spec PBytes PNum PLoad Proofs PDet.
Import ListNotations.
Local Open Scope Z_scope.

Section Statements.
  Variables F32 F64 : Type.
  Variable print32 : F32 -> bytes.
  Variable print64 : F64 -> bytes.
  Variable parse32 : bytes -> F32.
  Variable parse64 : bytes -> F64.
  Variable eq32 : F32 -> F32 -> bool.
  Variable eq64 : F64 -> F64 -> bool.
  Variable fin32 : F32 -> bool.
  Variable fin64 : F64 -> bool.
  Variables lv fv : bool.
  Hypothesis print32_shape : forall x, fin32 x = true -> sci_shape (print32 x) = true.
  Hypothesis print64_shape : forall x, fin64 x = true -> sci_shape (print64 x) = true.
  Hypothesis parse32_print32 : forall x, fin32 x = true -> parse32 (print32 x ++ [102%N]) = x.
  Hypothesis parse64_print64 : forall x, fin64 x = true -> parse64 (print64 x) = x.
  Hypothesis eq32_refl : forall x, eq32 x x = true.
  Hypothesis eq64_refl : forall x, eq64 x x = true.

  Notation json := (json F32 F64).
  Notation dump_top := (dump_top F32 F64 print32 print64).
  Notation dump := (dump F32 F64 print32 print64).
  Notation parse := (parse F32 F64 parse32 parse64 lv fv).
  Notation load := (load F32 F64 parse32 parse64 lv fv).
  Notation json_eq := (json_eq F32 F64 eq32 eq64).
  Notation json_same := (json_same F32 F64 eq32 eq64).
  Notation wf := (wf F32 F64 fin32 fin64).
  Notation reparsed := (reparsed F32 F64 print32 print64 lv).

  (* MAIN: for every well-formed value (no `none` node, numbers built through the API, finite and in
     range, no NUL byte, non-empty keys, std::map order) and every indentation, parsing the dump
     succeeds and yields a value equal to the original under json::operator==. *)
  Theorem parse_dump_roundtrip : forall (indent : Z) (v : json), wf v = true ->
    exists v', parse (dump_top true indent v) = Some v' /\ json_eq v' v = Some true.
  Proof.
    intros indent v H. exists (reparsed v). split.
    - unfold Model.parse.
      now rewrite (parse_dump_exact F32 F64 print32 print64 parse32 parse64 fin32 fin64 lv fv
                     print32_shape print64_shape parse32_print32 parse64_print64 indent v H).
    - exact (reparsed_eq F32 F64 print32 print64 eq32 eq64 fin32 fin64 lv eq32_refl eq64_refl v H).
  Qed.

  (* the value obtained is exactly `reparsed v` (same tree; numbers carry their printed text as
     source, small integer types come back as int32, 64-bit ones as int64) and the whole text up to
     the terminating NUL is consumed *)
  Theorem parse_dump_exact : forall (indent : Z) (v : json), wf v = true ->
    parse_at F32 F64 parse32 parse64 lv fv (dump_top true indent v) = Ok (reparsed v) [0%N].
  Proof.
    exact (parse_dump_exact F32 F64 print32 print64 parse32 parse64 fin32 fin64 lv fv
             print32_shape print64_shape parse32_print32 parse64_print64).
  Qed.

  (* the fuel argument: twice the number of nodes suffices, wherever the dump stands (any white
     space before it, any indentation strings made of white space, any text after it that starts
     with NUL , ] } or white space) *)
  Theorem load_dump_fuel : forall ind, all_ws ind -> forall v, wf v = true ->
    forall fuel, (2 * jsize v <= fuel)%nat ->
    forall before cur after, all_ws before -> all_ws cur -> stopr after ->
      load fuel (before ++ dump true ind cur v ++ after) = Ok (reparsed v) after.
  Proof.
    exact (load_dump F32 F64 print32 print64 parse32 parse64 fin32 fin64 lv fv
             print32_shape print64_shape parse32_print32 parse64_print64).
  Qed.

  (* Mathematical equality (same integers as elements of Z, not only up to the conversion that
     operator== performs).  FULL STATEMENT (false, see same_refuted below):
        forall indent v, wf v = true -> exists v', parse (dump_top true indent v) = Some v' /\ json_same v' v = true
     What is missing: uint64 values above INT64_MAX and, with the pinned primitive::load (lv = false), uint32
     values above INT32_MAX are printed as decimal literals that primitive::load types as int64 / int32
     (known finding unsigned_above_signed_max).  Proved under the exact guard `ints_fit lv`: *)
  Theorem parse_dump_same_partial : forall (indent : Z) (v : json), wf v = true -> ints_fit F32 F64 lv v = true ->
    exists v', parse (dump_top true indent v) = Some v' /\ json_same v' v = true.
  Proof.
    intros indent v H Hfit. exists (reparsed v). split.
    - unfold Model.parse.
      now rewrite (Proofs.parse_dump_exact F32 F64 print32 print64 parse32 parse64 fin32 fin64 lv fv
                     print32_shape print64_shape parse32_print32 parse64_print64 indent v H).
    - exact (reparsed_same F32 F64 print32 print64 eq32 eq64 fin32 fin64 lv eq32_refl eq64_refl v H Hfit).
  Qed.

  (* Determinism: an object is determined by the finite map its insertions denote (last binding of
     each key), so two insertion histories with the same bindings give the same dump for every
     indentation, and the same hash for every hash function (json::hash = hash of the compact dump). *)
  Theorem dump_deterministic : forall (l1 l2 : list (bytes * json)),
    (forall k, assoc_last F32 F64 k l1 = assoc_last F32 F64 k l2) ->
    forall ke ind cur,
      dump ke ind cur (JObj (obj_of_list F32 F64 l1)) = dump ke ind cur (JObj (obj_of_list F32 F64 l2)) /\
      forall (H : Type) (hash : bytes -> H),
        json_hash F32 F64 print32 print64 hash ke (JObj (obj_of_list F32 F64 l1))
        = json_hash F32 F64 print32 print64 hash ke (JObj (obj_of_list F32 F64 l2)).
  Proof.
    intros l1 l2 H ke ind cur. rewrite (obj_of_list_canonical F32 F64 l1 l2 H). split; reflexivity.
  Qed.

  (* whatever the insertions, the object is in std::map order (the `keys_sorted` part of wf) *)
  Theorem obj_of_list_sorted : forall (l : list (bytes * json)), keys_sorted F32 F64 (obj_of_list F32 F64 l) = true.
  Proof. exact (obj_of_list_sorted F32 F64). Qed.

End Statements.

Print Assumptions parse_dump_roundtrip.
Print Assumptions parse_dump_exact.
Print Assumptions load_dump_fuel.
Print Assumptions parse_dump_same_partial.
Print Assumptions dump_deterministic.
Print Assumptions obj_of_list_sorted.

(* ================================================================== witnesses and non-vacuity *)
(* A toy float interface (two values per type) that satisfies the hypotheses: they are consistent. *)
Definition tprint (b : bool) : bytes :=
  if b then [49; 46; 53; 101; 43; 48; 48]%N (* 1.5e+00 *) else [45; 50; 46; 48; 101; 45; 48; 51]%N (* -2.0e-03 *).
Definition tparse (t : bytes) : bool := match t with 49%N :: _ => true | _ => false end.
Definition tfin (b : bool) : bool := true.

Example float_interface_inhabited :
  (forall x, tfin x = true -> sci_shape (tprint x) = true) /\
  (forall x, tfin x = true -> tparse (tprint x ++ [102%N]) = x) /\
  (forall x, tfin x = true -> tparse (tprint x) = x) /\
  (forall x, Bool.eqb x x = true).
Proof. repeat split; intros []; vm_compute; reflexivity. Qed.

Notation tjson := (json bool bool).
Definition tdump := dump_top bool bool tprint tprint.
Definition tparse_json := parse bool bool tparse tparse false false.
Definition twf := wf bool bool tfin tfin.
Definition teq := json_eq bool bool Bool.eqb Bool.eqb.
Definition tsame := json_same bool bool Bool.eqb Bool.eqb.

(* a value that exercises every case of the proof: nesting, escapes in a key and in a string, every
   integer width, both float widths, booleans, null, empty containers *)
Definition sample : tjson :=
  JObj [ ([34; 92]%N (* key: quote backslash *), JArr [JNum (PInt KU64 18446744073709551615) []; JNum (PInt KI64 (-9223372036854775808)) [];
                                   JNum (PInt KI8 (-128)) []; JNum (PInt KU8 200) []; JNum (PInt KI32 0) []]);
         ([97]%N, JStr [10; 34; 92; 9; 255; 1]%N);
         ([98]%N, JArr [JNum (PF32 true) []; JNum (PF64 false) []; JNum (PInt KBool 1) []; JNull; JArr []; JObj []]) ].

Example sample_wf : twf sample = true.
Proof. vm_compute; reflexivity. Qed.

Example sample_roundtrip :
  exists v', tparse_json (tdump true 2 sample) = Some v' /\ teq v' sample = Some true.
Proof. eexists; split; [vm_compute; reflexivity | vm_compute; reflexivity]. Qed.

(* ---- the pinned source (keys not escaped) violates the property: DESIGN section 8 #27 *)
Definition key_quote : tjson := JObj [ ([97; 34; 98]%N, JNum (PInt KI32 1) []) ].      (* key: a, double quote, b *)
Definition key_backslash : tjson := JObj [ ([97; 92; 98]%N, JNum (PInt KI32 1) []) ].  (* key: a, backslash, b *)

Theorem key_escape_refuted :
  twf key_quote = true /\ tparse_json (tdump false 2 key_quote) = None /\
  twf key_backslash = true /\
  exists v', tparse_json (tdump false 2 key_backslash) = Some v' /\ teq v' key_backslash = Some false.
Proof. split; [vm_compute; reflexivity|]. split; [vm_compute; reflexivity|]. split; [vm_compute; reflexivity|]. eexists; split; [vm_compute; reflexivity | vm_compute; reflexivity]. Qed.

(* with the repair the same values round-trip (instances of parse_dump_roundtrip) *)
Example key_escape_repaired :
  (exists v', tparse_json (tdump true 2 key_quote) = Some v' /\ teq v' key_quote = Some true) /\
  (exists v', tparse_json (tdump true 2 key_backslash) = Some v' /\ teq v' key_backslash = Some true).
Proof. split; (eexists; split; [vm_compute; reflexivity | vm_compute; reflexivity]). Qed.

(* ---- a number that was parsed and then assigned a scalar: the pinned primitive::operator=(T) keeps
   the old source text, so the dump shows the old number (fixes/C24-2.patch clears it) *)
Definition parsed_5L : tjson := JNum (PInt KI64 5) [53; 76]%N.
Theorem stale_source_refuted :
  let v := json_assign_scalar bool bool true parsed_5L (PInt KI32 7) in
  tdump true 2 v = [53; 76]%N /\
  exists v', tparse_json (tdump true 2 v) = Some v' /\ teq v' v = Some false.
Proof. split; [vm_compute; reflexivity|]. eexists; split; [vm_compute; reflexivity | vm_compute; reflexivity]. Qed.

Example assign_scalar_repaired :
  let v := json_assign_scalar bool bool false parsed_5L (PInt KI32 7) in
  twf v = true /\ tdump true 2 v = [55]%N.
Proof. split; vm_compute; reflexivity. Qed.

(* ---- outside wf, recorded as known findings *)
(* a NUL byte in a string: the dump contains it raw, the C-string parser stops there *)
Theorem nul_byte_refuted : tparse_json (tdump true 0 (JStr [97; 0; 98]%N)) = None.
Proof. vm_compute; reflexivity. Qed.

(* the empty key *)
Theorem empty_key_refuted : tparse_json (tdump true 0 (JObj [ ([], JNull) ])) = None.
Proof. vm_compute; reflexivity. Qed.

(* unsigned above the signed maximum: operator== says equal, the integers differ *)
Theorem same_refuted :
  let v : tjson := JNum (PInt KU32 4000000000) [] in
  twf v = true /\
  exists v', tparse_json (tdump true 0 v) = Some v' /\ teq v' v = Some true /\ tsame v' v = false /\
             v' = JNum (PInt KI32 (-294967296)) [52; 48; 48; 48; 48; 48; 48; 48; 48; 48]%N.
Proof. split; [vm_compute; reflexivity|]. eexists; split; [vm_compute; reflexivity|]; split; [vm_compute; reflexivity|]; split; vm_compute; reflexivity. Qed.

(* with fixes/C14-1 (literals typed by value) the same uint32 comes back as the int64 4000000000 ... *)
Example same_u32_with_c14 :
  let v : tjson := JNum (PInt KU32 4000000000) [] in
  exists v', parse bool bool tparse tparse true true (tdump true 0 v) = Some v' /\ tsame v' v = true /\
             v' = JNum (PInt KI64 4000000000) [52; 48; 48; 48; 48; 48; 48; 48; 48; 48]%N.
Proof. eexists; split; [vm_compute; reflexivity|]; split; vm_compute; reflexivity. Qed.

(* ... while a uint64 above INT64_MAX still does not, in either variant *)
Theorem same_u64_refuted : forall lv fv,
  let v : tjson := JNum (PInt KU64 18446744073709551615) [] in
  twf v = true /\
  exists v', parse bool bool tparse tparse lv fv (tdump true 0 v) = Some v' /\ teq v' v = Some true /\ tsame v' v = false.
Proof. intros [] []; (split; [vm_compute; reflexivity|]); eexists; (split; [vm_compute; reflexivity|]); split; vm_compute; reflexivity. Qed.

(* an uninitialised (none) entry is printed as {} and comes back as an empty object *)
Example none_not_in_domain :
  tparse_json (tdump true 0 (JObj [ ([107]%N, JNone) ])) = Some (JObj [ ([107]%N, JObj []) ]).
Proof. vm_compute; reflexivity. Qed.

Print Assumptions key_escape_refuted.
Print Assumptions stale_source_refuted.
Print Assumptions same_refuted.
Print Assumptions same_u64_refuted.
