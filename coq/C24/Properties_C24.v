From OV.C24 Require Import Model Spec.
From Coq Require Import List NArith.
Import ListNotations.
Example placeholder : is_ws 32%N = true.
Proof. reflexivity. Qed.
Print Assumptions placeholder.
