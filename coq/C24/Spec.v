(* C24 — reference semantics of "the re-parsed value equals the original", written without
   reference to the dump / load algorithms.

   Two notions of equality are stated:
   * `json_same`  : the mathematical one — same shape, same strings and keys, the same integer
                    (as an element of Z, whatever C++ type carries it), the same boolean, the same
                    floating-point datum.  This is what a reader of the property expects.
   * `Model.json_eq` (in Model.v) : the library's own `json::operator==`, which converts both numbers
                    to the wider of their two types before comparing (so uint32 4000000000 ==
                    int32 -294967296).
   `wf` is the domain of the round-trip theorems; `in_domain` is the domain on which the property's
   oracle is evaluated against the implementation (it is larger: strings with NUL bytes and empty
   keys are inside, they are findings). *)
From Coq Require Import List NArith ZArith Bool.
From OV.C24 Require Import Model.
Import ListNotations.

(* ------------------------------------------------------------------ the shape of printed floats *)
(* `std::scientific` with a positive precision prints  [-]d.ddd…e[+-]dd…  for a finite value.  The
   round-trip theorems assume exactly this of the abstract printers (hypotheses print32_shape /
   print64_shape in Properties_C24.v); the check's model driver asserts it on every float it prints. *)
Fixpoint take_digits (s : bytes) : bytes * bytes :=
  match s with
  | c :: t => if is_digit c then let '(a, b) := take_digits t in (c :: a, b) else ([], s)
  | [] => ([], [])
  end.

Definition sci_shape (t : bytes) : bool :=
  let t1 := match t with c :: t' => if (c =? 45)%N then t' else t | [] => t end in
  match t1 with
  | d :: dot :: rest =>
      is_digit d && (dot =? 46)%N &&
      (let '(_, rest2) := take_digits rest in
       match rest2 with
       | e :: sg :: ex =>
           (e =? 101)%N && ((sg =? 43) || (sg =? 45))%N
           && match ex with [] => false | _ => forallb is_digit ex end
       | _ => false
       end)
  | _ => false
  end.

Section WithFloats.
  Variables F32 F64 : Type.
  Variable eq32 : F32 -> F32 -> bool.
  Variable eq64 : F64 -> F64 -> bool.
  (* finite (neither infinity nor NaN) *)
  Variable fin32 : F32 -> bool.
  Variable fin64 : F64 -> bool.
  Variable print32 : F32 -> bytes.
  Variable print64 : F64 -> bytes.
  (* the variant of primitive::load in the tree (Model.lit_by_value) *)
  Variable lv : bool.

  Notation prim := (prim F32 F64).
  Notation json := (json F32 F64).

  Definition is_boolk (k : ikind) : bool := match k with KBool => true | _ => false end.

  Definition prim_same (a b : prim) : bool :=
    match a, b with
    | PInt ka va, PInt kb vb => (va =? vb)%Z && Bool.eqb (is_boolk ka) (is_boolk kb)
    | PF32 x, PF32 y => eq32 x y
    | PF64 x, PF64 y => eq64 x y
    | _, _ => false
    end.

  Fixpoint json_same (a b : json) {struct a} : bool :=
    match a, b with
    | JNull, JNull => true
    | JNum p _, JNum q _ => prim_same p q
    | JStr s, JStr t => bytes_eqb s t
    | JArr l1, JArr l2 =>
        (fix go (l1 l2 : list json) {struct l1} : bool :=
           match l1, l2 with
           | [], [] => true
           | x :: t1, y :: t2 => json_same x y && go t1 t2
           | _, _ => false
           end) l1 l2
    | JObj m1, JObj m2 =>
        (fix go (m1 m2 : list (bytes * json)) {struct m1} : bool :=
           match m1, m2 with
           | [], [] => true
           | (k1, x) :: t1, (k2, y) :: t2 => bytes_eqb k1 k2 && json_same x y && go t1 t2
           | _, _ => false
           end) m1 m2
    | _, _ => false
    end.

  (* ---------------------------------------------------------------- domains *)
  Definition byte_ok (b : N) : bool := (0 <? b)%N && (b <? 256)%N.
  Definition bytes_ok (s : bytes) : bool := forallb byte_ok s.

  Definition prim_defined (p : prim) : bool :=
    match p with
    | PNone => false
    | PInt k v => in_kind k v
    | PF32 x => fin32 x
    | PF64 x => fin64 x
    end.

  Fixpoint keys_sorted (m : list (bytes * json)) : bool :=
    match m with
    | [] => true
    | (k1, _) :: t => match t with
                      | [] => true
                      | (k2, _) :: _ => bytes_ltb k1 k2 && keys_sorted t
                      end
    end.

  (* well-formed values: every node is initialised (no `none`), numbers were built through the
     API (no source text) and are finite and in the range of their type, strings and keys have no
     NUL byte, keys are non-empty, and objects are in std::map order *)
  Fixpoint wf (v : json) : bool :=
    match v with
    | JNone => false
    | JNull => true
    | JNum p src => prim_defined p && match src with [] => true | _ => false end
    | JStr s => bytes_ok s
    | JArr l => forallb wf l
    | JObj m => keys_sorted m
                && forallb (fun kv => let '(k, x) := kv in
                                      match k with [] => false | _ => true end && bytes_ok k && wf x) m
    end.

  (* the oracle's domain: initialised nodes, defined numbers *)
  Fixpoint in_domain (v : json) : bool :=
    match v with
    | JNone => false
    | JNull => true
    | JNum p _ => prim_defined p
    | JStr _ => true
    | JArr l => forallb in_domain l
    | JObj m => forallb (fun kv => in_domain (snd kv)) m
    end.

  (* unsigned values that still fit the signed type they are read back as: the guard of the mathematical
     round trip.  Pinned source: every unsuffixed literal is read as int32, every L literal as int64.
     With fixes/C14-1 (lv) an unsuffixed literal too large for int32 becomes int64, so only uint64 values
     above INT64_MAX remain. *)
  Definition prim_fits (p : prim) : bool :=
    match p with
    | PInt KU32 v => lv || (v <=? kind_max KI32)%Z
    | PInt KU64 v => (v <=? kind_max KI64)%Z
    | _ => true
    end.

  Fixpoint ints_fit (v : json) : bool :=
    match v with
    | JNum p _ => prim_fits p
    | JArr l => forallb ints_fit l
    | JObj m => forallb (fun kv => ints_fit (snd kv)) m
    | _ => true
    end.

  (* ---------------------------------------------------------------- what re-parsing yields *)
  (* the type and value a number has after it was printed and read back *)
  Definition reparsed_prim (p : prim) : prim :=
    match p with
    | PInt KBool v => PInt KBool v
    | PInt k v =>
        if is_long k then PInt KI64 (cast KI64 v)
        else if lv && negb (Z.abs v <=? 2147483647)%Z then PInt KI64 (cast KI64 v)
        else PInt KI32 (cast KI32 v)
    | p => p
    end.

  (* numbers keep the text they were read from (booleans are read by json::loadTrue/loadFalse,
     which record no text) *)
  Fixpoint reparsed (v : json) : json :=
    match v with
    | JNum (PInt KBool b) _ => JNum (PInt KBool b) []
    | JNum p _ => JNum (reparsed_prim p) (prim_toString F32 F64 print32 print64 p)
    | JArr l => JArr (map reparsed l)
    | JObj m => JObj (map (fun kv => let '(k, x) := kv in (k, reparsed x)) m)
    | v => v
    end.

End WithFloats.
