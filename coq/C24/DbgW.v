From Coq Require Import List NArith ZArith Bool.
From OV.C24 Require Import Model Spec PBytes PNum PLoad Proofs PDet.
Import ListNotations.
Local Open Scope Z_scope.

(* A toy float interface (two values per type) that satisfies the hypotheses: they are consistent. *)
Definition tprint (b : bool) : bytes :=
  if b then [49; 46; 53; 101; 43; 48; 48]%N (* 1.5e+00 *) else [45; 50; 46; 48; 101; 45; 48; 51]%N (* -2.0e-03 *).
Definition tparse (t : bytes) : bool := match t with 49%N :: _ => true | _ => false end.
Definition tfin (b : bool) : bool := true.

Goal True. idtac "START float_interface_inhabited". exact I. Qed.
Example float_interface_inhabited :
  (forall x, tfin x = true -> sci_shape (tprint x) = true) /\
  (forall x, tfin x = true -> tparse (tprint x ++ [102%N]) = x) /\
  (forall x, tfin x = true -> tparse (tprint x) = x) /\
  (forall x, Bool.eqb x x = true).
Proof. repeat split; intros []; vm_compute; reflexivity. Qed.

Notation tjson := (json bool bool).
Definition tdump := dump_top bool bool tprint tprint.
Definition tparse_json := parse bool bool tparse tparse.
Definition twf := wf bool bool tfin tfin.
Definition teq := json_eq bool bool Bool.eqb Bool.eqb.
Definition tsame := json_same bool bool Bool.eqb Bool.eqb.

(* a value that exercises every case of the proof: nesting, escapes in a key and in a string, every
   integer width, both float widths, booleans, null, empty containers *)
Definition sample : tjson :=
  JObj [ ([34; 92]%N (* key: quote backslash *), JArr [JNum (PInt KU64 18446744073709551615) []; JNum (PInt KI64 (-9223372036854775808)) [];
                                   JNum (PInt KI8 (-128)) []; JNum (PInt KU8 200) []; JNum (PInt KI32 0) []]);
         ([97]%N, JStr [10; 34; 92; 9; 255; 1]%N);
         ([98]%N, JArr [JNum (PF32 true) []; JNum (PF64 false) []; JNum (PInt KBool 1) []; JNull; JArr []; JObj []]) ].

Goal True. idtac "START sample_wf". exact I. Qed.
Example sample_wf : twf sample = true.
Proof. vm_compute; reflexivity. Qed.

Goal True. idtac "START sample_roundtrip". exact I. Qed.
Example sample_roundtrip :
  exists v', tparse_json (tdump true 2 sample) = Some v' /\ teq v' sample = Some true.
Proof. eexists; split; vm_compute; reflexivity. Qed.

(* ---- the pinned source (keys not escaped) violates the property: DESIGN section 8 #27 *)
Definition key_quote : tjson := JObj [ ([97; 34; 98]%N, JNum (PInt KI32 1) []) ].      (* key a"b *)
Definition key_backslash : tjson := JObj [ ([97; 92; 98]%N, JNum (PInt KI32 1) []) ].  (* key a\b *)

Goal True. idtac "START key_escape_refuted". exact I. Qed.
Theorem key_escape_refuted :
  twf key_quote = true /\ tparse_json (tdump false 2 key_quote) = None /\
  twf key_backslash = true /\
  exists v', tparse_json (tdump false 2 key_backslash) = Some v' /\ teq v' key_backslash = Some false.
Proof. split; [vm_compute; reflexivity|]. split; [vm_compute; reflexivity|]. split; [vm_compute; reflexivity|]. eexists; split; vm_compute; reflexivity. Qed.

(* with the repair the same values round-trip (instances of parse_dump_roundtrip) *)
Goal True. idtac "START key_escape_repaired". exact I. Qed.
Example key_escape_repaired :
  (exists v', tparse_json (tdump true 2 key_quote) = Some v' /\ teq v' key_quote = Some true) /\
  (exists v', tparse_json (tdump true 2 key_backslash) = Some v' /\ teq v' key_backslash = Some true).
Proof. split; eexists; split; vm_compute; reflexivity. Qed.

(* ---- a number that was parsed and then assigned a scalar: the pinned primitive::operator=(T) keeps
   the old source text, so the dump shows the old number (fixes/C24-2.patch clears it) *)
Definition parsed_5L : tjson := JNum (PInt KI64 5) [53; 76]%N.
Goal True. idtac "START stale_source_refuted". exact I. Qed.
Theorem stale_source_refuted :
  let v := json_assign_scalar bool bool true parsed_5L (PInt KI32 7) in
  tdump true 2 v = [53; 76]%N /\
  exists v', tparse_json (tdump true 2 v) = Some v' /\ teq v' v = Some false.
Proof. split; [vm_compute; reflexivity|]. eexists; split; vm_compute; reflexivity. Qed.

Goal True. idtac "START assign_scalar_repaired". exact I. Qed.
Example assign_scalar_repaired :
  let v := json_assign_scalar bool bool false parsed_5L (PInt KI32 7) in
  twf v = true /\ tdump true 2 v = [55]%N.
Proof. split; vm_compute; reflexivity. Qed.

(* ---- outside wf, recorded as known findings *)
(* a NUL byte in a string: the dump contains it raw, the C-string parser stops there *)
Goal True. idtac "START nul_byte_refuted". exact I. Qed.
Theorem nul_byte_refuted : tparse_json (tdump true 0 (JStr [97; 0; 98]%N)) = None.
Proof. vm_compute; reflexivity. Qed.

(* the empty key *)
Goal True. idtac "START empty_key_refuted". exact I. Qed.
Theorem empty_key_refuted : tparse_json (tdump true 0 (JObj [ ([], JNull) ])) = None.
Proof. vm_compute; reflexivity. Qed.

(* unsigned above the signed maximum: operator== says equal, the integers differ *)
Goal True. idtac "START same_refuted". exact I. Qed.
Theorem same_refuted :
  let v : tjson := JNum (PInt KU32 4000000000) [] in
  twf v = true /\
  exists v', tparse_json (tdump true 0 v) = Some v' /\ teq v' v = Some true /\ tsame v' v = false /\
             v' = JNum (PInt KI32 (-294967296)) [52; 48; 48; 48; 48; 48; 48; 48; 48; 48]%N.
Proof. split; [vm_compute; reflexivity|]. eexists; repeat split; vm_compute; reflexivity. Qed.

(* an uninitialised (none) entry is printed as {} and comes back as an empty object *)
Goal True. idtac "START none_not_in_domain". exact I. Qed.
Example none_not_in_domain :
  tparse_json (tdump true 0 (JObj [ ([107]%N, JNone) ])) = Some (JObj [ ([107]%N, JObj []) ]).
Proof. vm_compute; reflexivity. Qed.

Print Assumptions key_escape_refuted.
Print Assumptions stale_source_refuted.
Print Assumptions same_refuted.
