(* C24 — lemmas on numbers: decimal printing, parseInt, primitive::load on printed numbers. *)
From Coq Require Import List NArith ZArith Bool Lia.
From OV.C24 Require Import Model Spec PBytes.
Import ListNotations.
Local Open Scope Z_scope.

Ltac Zify.zify_post_hook ::= Z.div_mod_to_equations.

(* ------------------------------------------------------------------ stop bytes *)
(* what follows a value in a dump: NUL, ',', ']', '}' or white space *)
Definition stop (c : N) : bool :=
  ((c =? 0) || (c =? 44) || (c =? 93) || (c =? 125))%N || is_ws c.
Definition stopr (r : bytes) : Prop := exists c t, r = c :: t /\ stop c = true.

Lemma stop_cases : forall c, stop c = true ->
  c = 0%N \/ c = 44%N \/ c = 93%N \/ c = 125%N \/ c = 32%N \/ c = 9%N \/ c = 13%N \/ c = 10%N \/ c = 11%N \/ c = 12%N.
Proof.
  intros c H; unfold stop, is_ws in H.
  repeat (apply orb_true_iff in H as [H|H]); apply N.eqb_eq in H; subst; tauto.
Qed.

Ltac stop_split H :=
  apply stop_cases in H;
  repeat (destruct H as [H|H]); subst.

Lemma stop_not_digit : forall c, stop c = true -> is_digit c = false.
Proof. intros c H; stop_split H; reflexivity. Qed.
Lemma stop_not_dot : forall c, stop c = true -> (c =? 46)%N = false.
Proof. intros c H; stop_split H; reflexivity. Qed.
Lemma stop_upper : forall c, stop c = true -> upper c = c.
Proof. intros c H; stop_split H; reflexivity. Qed.

(* ------------------------------------------------------------------ digits *)
Definition dval (ds : bytes) (a : Z) : Z := fold_left (fun a c => a * 10 + digit_val c) ds a.
Definition digits (ds : bytes) : Prop := forallb is_digit ds = true.

Lemma is_digit_val : forall c, is_digit c = true -> 0 <= digit_val c <= 9.
Proof.
  unfold is_digit, digit_val; intros c H; apply andb_true_iff in H as [H1 H2].
  apply N.leb_le in H1, H2; lia.
Qed.

Lemma is_digit_not_ws : forall c, is_digit c = true -> is_ws c = false.
Proof.
  unfold is_digit, is_ws; intros c H; apply andb_true_iff in H as [H1 H2].
  apply N.leb_le in H1, H2.
  repeat (apply orb_false_iff; split); apply N.eqb_neq; lia.
Qed.

Lemma is_digit_facts : forall c, is_digit c = true ->
  (c =? 43)%N = false /\ (c =? 45)%N = false /\ (c =? 0)%N = false /\ (c =? 46)%N = false /\
  upper c = c /\ (c =? 116)%N = false /\ (c =? 102)%N = false.
Proof.
  unfold is_digit, upper; intros c H; apply andb_true_iff in H as [H1 H2].
  apply N.leb_le in H1, H2.
  repeat split; try (apply N.eqb_neq; lia).
  destruct (N.leb_spec 97 c); [lia | reflexivity].
Qed.

Lemma dval_app : forall a b v, dval (a ++ b) v = dval b (dval a v).
Proof. intros; unfold dval; now rewrite fold_left_app. Qed.

Lemma dval_ge : forall ds v, digits ds -> 0 <= v -> v <= dval ds v.
Proof.
  induction ds as [|c ds IH]; intros v H Hv; simpl; [lia|].
  unfold digits in H; simpl in H; apply andb_true_iff in H as [Hc Hd].
  apply is_digit_val in Hc.
  specialize (IH (v * 10 + digit_val c) Hd ltac:(lia)). unfold dval in *; simpl. lia.
Qed.

Lemma pow64 : 2 ^ 64 = 18446744073709551616.
Proof. reflexivity. Qed.

Lemma wrap64_small : forall z, 0 <= z < 2 ^ 64 -> wrap64 z = z.
Proof. intros; unfold wrap64, wrap_u; now apply Z.mod_small. Qed.

(* dec_loop computes the value, without wrapping when it fits 64 bits *)
Lemma dec_loop_app : forall ds r v, digits ds ->
  (match r with [] => True | c :: _ => is_digit c = false end) ->
  0 <= v -> dval ds v < 2 ^ 64 ->
  dec_loop (ds ++ r) v = (dval ds v, r).
Proof.
  induction ds as [|c ds IH]; intros r v Hd Hr Hv Hlt; cbn [app dec_loop].
  - destruct r as [|c r]; [reflexivity|]. cbn [dec_loop]. now rewrite Hr.
  - unfold digits in Hd; simpl in Hd; apply andb_true_iff in Hd as [Hc Hd].
    rewrite Hc. pose proof (is_digit_val c Hc) as Hcv.
    assert (Hle : v * 10 + digit_val c <= dval ds (v * 10 + digit_val c)) by (apply dval_ge; [exact Hd | lia]).
    unfold dval in Hlt; simpl in Hlt; fold (dval ds (v * 10 + digit_val c)) in Hlt.
    rewrite (wrap64_small (v * 10)) by lia.
    rewrite wrap64_small by lia.
    unfold dval; simpl. now apply IH; try lia.
Qed.

(* ------------------------------------------------------------------ printing an integer *)
Lemma dec_digits_spec : forall f n acc, (1 <= f)%nat -> (n < 2 ^ N.of_nat f)%N ->
  exists ds, dec_digits f n acc = ds ++ acc /\ digits ds /\ dval ds 0 = Z.of_N n /\
             (n = 0%N -> ds = [48%N]) /\
             (exists d t, ds = d :: t /\ (n <> 0%N -> d <> 48%N)).
Proof.
  induction f as [|f IH]; intros n acc Hf Hn; [lia|].
  cbn [dec_digits].
  assert (Hdig : is_digit (48 + n mod 10)%N = true).
  { unfold is_digit. apply andb_true_iff; split; apply N.leb_le; [apply N.le_add_r|].
    assert (Hm : (n mod 10 < 10)%N) by (apply N.mod_upper_bound; discriminate). clear - Hm. lia. }
  assert (Hdv : digit_val (48 + n mod 10)%N = Z.of_N (n mod 10)%N) by (unfold digit_val; clear; lia).
  destruct (N.eqb_spec (n / 10) 0) as [Hq|Hq].
  - exists [(48 + n mod 10)%N]; repeat split.
    + unfold digits; cbn [forallb]; now rewrite Hdig.
    + unfold dval; cbn [fold_left]; rewrite Hdv.
      assert (n = n mod 10)%N by (rewrite (N.div_mod n 10) at 1 by lia; rewrite Hq; lia). lia.
    + intros ->; reflexivity.
    + exists (48 + n mod 10)%N, []; split; [reflexivity|].
      intros Hn0 Heq.
      assert (n mod 10 = 0)%N by lia.
      assert (n = n mod 10)%N by (rewrite (N.div_mod n 10) at 1 by lia; rewrite Hq; lia). lia.
  - assert (Hf1 : (1 <= f)%nat).
    { destruct f; [|lia]. simpl in Hn.
      assert (n / 10 = 0)%N by (apply N.div_small; lia). lia. }
    assert (Hn' : (n / 10 < 2 ^ N.of_nat f)%N).
    { replace (N.of_nat (S f)) with (N.succ (N.of_nat f)) in Hn by lia.
      rewrite N.pow_succ_r' in Hn.
      apply N.div_lt_upper_bound; lia. }
    destruct (IH (n / 10)%N ((48 + n mod 10)%N :: acc) Hf1 Hn') as (ds & E & Hd & Hv & _ & (d & t & Edt & Hnz)).
    exists (ds ++ [(48 + n mod 10)%N]); repeat split.
    + now rewrite E, <- app_assoc.
    + unfold digits in *; rewrite forallb_app, Hd; cbn [forallb]; now rewrite Hdig.
    + rewrite dval_app, Hv; unfold dval; cbn [fold_left]; rewrite Hdv.
      rewrite (N.div_mod n 10) at 3 by lia. lia.
    + intros ->; vm_compute in Hq; congruence.
    + exists d, (t ++ [(48 + n mod 10)%N]); split; [now rewrite Edt|].
      intros _; now apply Hnz.
Qed.

Lemma dec_of_N_spec : forall n,
  exists ds, dec_of_N n = ds /\ digits ds /\ dval ds 0 = Z.of_N n /\
             (n = 0%N -> ds = [48%N]) /\
             (exists d t, ds = d :: t /\ (n <> 0%N -> d <> 48%N)).
Proof.
  intros n; unfold dec_of_N.
  destruct (dec_digits_spec (S (N.to_nat (N.log2 n))) n []) as (ds & E & H).
  - lia.
  - replace (N.of_nat (S (N.to_nat (N.log2 n)))) with (N.succ (N.log2 n)) by lia.
    destruct n as [|p]; [reflexivity|].
    apply N.log2_spec; lia.
  - exists ds; split; [now rewrite E, app_nil_r | exact H].
Qed.

(* sign and digits of a printed integer *)
Lemma dec_of_Z_spec : forall v,
  exists sg ds, dec_of_Z v = sg ++ ds /\ digits ds /\ dval ds 0 = Z.abs v /\
                ((0 <= v /\ sg = []) \/ (v < 0 /\ sg = [45%N])) /\
                (v = 0 -> ds = [48%N]) /\
                (exists d t, ds = d :: t /\ (v <> 0 -> d <> 48%N)).
Proof.
  intros v; destruct v as [|p|p]; unfold dec_of_Z.
  - destruct (dec_of_N_spec 0) as (ds & E & Hd & Hv & H0 & Hnz).
    exists [], ds. split; [exact E|]. split; [exact Hd|]. split; [exact Hv|].
    split; [left; split; [lia | reflexivity]|]. split; [intros _; now apply H0|].
    destruct Hnz as (d & t & -> & _); exists d, t; split; [reflexivity | congruence].
  - destruct (dec_of_N_spec (Z.to_N (Z.pos p))) as (ds & E & Hd & Hv & H0 & Hnz).
    exists [], ds. split; [exact E|]. split; [exact Hd|]. split; [rewrite Hv; lia|].
    split; [left; split; [lia | reflexivity]|]. split; [discriminate|].
    destruct Hnz as (d & t & -> & Hn); exists d, t; split; [reflexivity|]. intros _; apply Hn; lia.
  - destruct (dec_of_N_spec (N.pos p)) as (ds & E & Hd & Hv & H0 & Hnz).
    exists [45%N], ds. split; [cbn [app]; now rewrite E|]. split; [exact Hd|]. split; [rewrite Hv; lia|].
    split; [right; split; [lia | reflexivity]|]. split; [discriminate|].
    destruct Hnz as (d & t & -> & Hn); exists d, t; split; [reflexivity|]. intros _; apply Hn; lia.
Qed.

(* ------------------------------------------------------------------ casts *)
Lemma cast_i32_wrap64 : forall a b, wrap64 a = wrap64 b -> cast KI32 (wrap64 (cast KI32 a)) = cast KI32 b.
Proof.
  unfold cast, wrap64, wrap_s, wrap_u; intros a b H.
  change (32 - 1) with 31. change (2 ^ 64) with 18446744073709551616 in *.
  change (2 ^ 32) with 4294967296. change (2 ^ 31) with 2147483648. lia.
Qed.

Lemma cast_i64_wrap64 : forall a b, wrap64 a = wrap64 b -> cast KI64 (wrap64 (cast KI64 a)) = cast KI64 b.
Proof.
  unfold cast, wrap64, wrap_s, wrap_u; intros a b H.
  change (64 - 1) with 63. change (2 ^ 64) with 18446744073709551616 in *.
  change (2 ^ 63) with 9223372036854775808. lia.
Qed.

Lemma wrap64_neg_abs : forall v, v < 0 -> wrap64 (wrap64 (- Z.abs v)) = wrap64 v.
Proof.
  unfold wrap64, wrap_u; intros. change (2 ^ 64) with 18446744073709551616.
  rewrite Z.mod_mod by lia. f_equal; lia.
Qed.

(* ------------------------------------------------------------------ small scanners *)
Lemma consumed_app : forall a r, consumed (a ++ r) r = a.
Proof.
  intros; unfold consumed. rewrite app_length.
  replace (length a + length r - length r)%nat with (length a) by lia.
  rewrite firstn_app, firstn_all, Nat.sub_diag; simpl. now rewrite app_nil_r.
Qed.

Section Num.
  Lemma scan_digits_app : forall ds rest n dec, digits ds ->
    (match rest with [] => True | c :: _ => is_digit c = false /\ (c =? 46)%N = false end) ->
    scan_digits (ds ++ rest) n dec = (n + length ds, dec, rest)%nat.
  Proof.
    induction ds as [|c ds IH]; intros rest n dec Hd Hr; cbn [app scan_digits length].
    - destruct rest as [|c rest]; [now rewrite Nat.add_0_r|].
      destruct Hr as [H1 H2]; cbn [scan_digits]; now rewrite H1, H2, Nat.add_0_r.
    - unfold digits in Hd; simpl in Hd; apply andb_true_iff in Hd as [Hc Hd].
      rewrite Hc, IH by assumption. f_equal; f_equal; lia.
  Qed.

  (* digits, a dot, digits *)
  Lemma scan_digits_mantissa : forall d frac rest, is_digit d = true -> digits frac ->
    (match rest with [] => True | c :: _ => is_digit c = false /\ (c =? 46)%N = false end) ->
    exists n, scan_digits (d :: 46%N :: frac ++ rest) O false = (S n, true, rest).
  Proof.
    intros d frac rest Hd Hf Hr. cbn [scan_digits]. rewrite Hd. cbn [scan_digits].
    change (is_digit 46) with false. change (46 =? 46)%N with true. cbv iota.
    rewrite scan_digits_app by assumption. eexists; reflexivity.
  Qed.

  Lemma sfx_loop_stop : forall (F32 F64 : Type) rec fm r st, stopr r -> sfx_loop F32 F64 rec fm r st = Ok st r.
  Proof.
    intros F32 F64 rec fm r st (c & t & -> & Hc). cbn [sfx_loop].
    destruct (N.eqb_spec c 0); [reflexivity|].
    rewrite (stop_upper c Hc).
    stop_split Hc; try reflexivity; try congruence; destruct fm; reflexivity.
  Qed.

  Lemma starts_with_first : forall p c a s, (c =? a)%N = false -> starts_with (a :: p) (c :: s) = false.
  Proof. intros; simpl. rewrite N.eqb_sym, H. reflexivity. Qed.

  (* parse_int on [-]digits[L] *)
  Lemma parse_int_dec : forall full sg ds sfx v,
    digits ds -> dval ds 0 = Z.abs v -> Z.abs v < 2 ^ 64 ->
    ((0 <= v /\ sg = []) \/ (v < 0 /\ sg = [45%N])) ->
    (v = 0 -> ds = [48%N]) ->
    (exists d t, ds = d :: t /\ (v <> 0 -> d <> 48%N)) ->
    (sfx = [] \/ sfx = [76%N]) ->
    exists value_, parse_int full (sg ++ ds ++ sfx) = Some value_ /\
      (full = false -> (sfx = [] -> cast KI32 value_ = cast KI32 v) /\
                       (sfx = [76%N] -> cast KI64 value_ = cast KI64 v)) /\
      (full = true -> value_ = wrap64 v).
  Proof.
    intros full sg ds sfx v Hd Hv Hlt Hsg H0 (d & t & -> & Hnz) Hsfx.
    assert (Hdd : is_digit d = true).
    { unfold digits in Hd; simpl in Hd; now apply andb_true_iff in Hd as [? _]. }
    destruct (is_digit_facts d Hdd) as (Hp & Hm & Hz & Hdot & Hup & _).
    pose proof (is_digit_not_ws d Hdd) as Hws.
    destruct (Z.eq_dec v 0) as [->|Hv0].
    - (* the text is "0" or "0L": parseInt hands it to parseBinary *)
      specialize (H0 eq_refl). injection H0 as -> ->.
      destruct Hsg as [[_ ->]|[? _]]; [|lia].
      destruct full; destruct Hsfx as [->| ->]; (eexists; split; [vm_compute; reflexivity|]);
        (split; [intros E; try discriminate; split; intros E'; try discriminate; reflexivity
                | intros E; try discriminate; reflexivity]).
    - specialize (Hnz Hv0). apply N.eqb_neq in Hnz.
      assert (Hloop : forall rest, (rest = [] \/ rest = [76%N]) ->
                 dec_loop ((d :: t) ++ rest) 0 = (Z.abs v, rest)).
      { intros rest Hrest. rewrite dec_loop_app.
        - now rewrite Hv.
        - exact Hd.
        - destruct Hrest as [->| ->]; [exact I | reflexivity].
        - lia.
        - rewrite Hv; exact Hlt. }
      destruct Hsg as [[Hpos ->]|[Hneg ->]].
      + unfold parse_int. simpl app. rewrite (skip_ws_stop d _ Hws).
        unfold strip_sign. rewrite Hp, Hm. simpl orb. cbv iota. rewrite Hnz.
        change (d :: t ++ sfx) with ((d :: t) ++ sfx). rewrite (Hloop sfx Hsfx).
        destruct full.
        * eexists; split; [reflexivity|]. split; [discriminate|]. intros _.
          rewrite wrap64_small by lia. lia.
        * destruct Hsfx as [->| ->]; simpl int_sfx; cbv iota beta.
          -- eexists; split; [reflexivity|]. split; [|discriminate]. intros _. split; intros E; try discriminate.
             apply cast_i32_wrap64. f_equal; lia.
          -- eexists; split; [reflexivity|]. split; [|discriminate]. intros _. split; intros E; try discriminate.
             apply cast_i64_wrap64. f_equal; lia.
      + unfold parse_int. simpl app. simpl skip_ws. unfold strip_sign. simpl N.eqb. simpl orb. cbv iota.
        rewrite Hnz.
        change (d :: t ++ sfx) with ((d :: t) ++ sfx). rewrite (Hloop sfx Hsfx).
        destruct full.
        * eexists; split; [reflexivity|]. split; [discriminate|]. intros _.
          f_equal; lia.
        * destruct Hsfx as [->| ->]; simpl int_sfx; cbv iota beta.
          -- eexists; split; [reflexivity|]. split; [|discriminate]. intros _. split; intros E; try discriminate.
             apply cast_i32_wrap64. now apply wrap64_neg_abs.
          -- eexists; split; [reflexivity|]. split; [|discriminate]. intros _. split; intros E; try discriminate.
             apply cast_i64_wrap64. now apply wrap64_neg_abs.
  Qed.

  (* parse_int never throws on a sign followed by digits (the exponent of a printed double) *)
  Lemma pb_loop_digits : forall ds ret, digits ds -> exists z, pb_loop 3 10 ds ret = Some z.
  Proof.
    induction ds as [|c ds IH]; intros ret Hd; simpl; [eexists; reflexivity|].
    unfold digits in Hd; simpl in Hd; apply andb_true_iff in Hd as [Hc Hd].
    rewrite Hc. pose proof (is_digit_val c Hc).
    destruct (Z.ltb_spec (digit_val c) 10); [|lia]. now apply IH.
  Qed.

  Lemma parse_int_exponent : forall full es ex, (es = 43%N \/ es = 45%N) -> digits ex -> ex <> [] ->
    exists z, parse_int full (es :: ex) = Some z.
  Proof.
    intros full es ex Hes Hd Hne. destruct ex as [|d t]; [congruence|].
    assert (Hdd : is_digit d = true).
    { unfold digits in Hd; simpl in Hd; now apply andb_true_iff in Hd as [? _]. }
    assert (Hdt : digits t).
    { unfold digits in *; simpl in Hd; now apply andb_true_iff in Hd as [_ ?]. }
    unfold parse_int.
    assert (Hsk : skip_ws (es :: d :: t) = es :: d :: t) by (destruct Hes as [->| ->]; reflexivity).
    rewrite Hsk.
    assert (Hst : strip_sign (es :: d :: t) = ((es =? 45)%N, d :: t)) by (destruct Hes as [->| ->]; reflexivity).
    rewrite Hst.
    destruct (N.eqb_spec d 48) as [->|Hd48].
    - unfold parse_binary. rewrite Hsk, Hst. rewrite N.eqb_refl.
      assert (exists z, pb_loop 3 10 t 0 = Some z) as [z Hz] by now apply pb_loop_digits.
      destruct t as [|c t'].
      + simpl. eexists; reflexivity.
      + assert (Hc : is_digit c = true).
        { unfold digits in Hdt; simpl in Hdt; now apply andb_true_iff in Hdt as [? _]. }
        destruct (is_digit_facts c Hc) as (_ & _ & _ & _ & Hup & _).
        rewrite Hup.
        assert ((c =? 88)%N = false /\ (c =? 66)%N = false) as [-> ->].
        { unfold is_digit in Hc; apply andb_true_iff in Hc as [H1 H2]; apply N.leb_le in H1, H2.
          split; apply N.eqb_neq; lia. }
        rewrite Hz. eexists; reflexivity.
    - destruct (dec_loop (d :: t) 0) as [ret s2] eqn:E1.
      destruct full; [eexists; reflexivity|].
      destruct (int_sfx s2 0 false) as [longs uns] eqn:E2.
      eexists; reflexivity.
  Qed.

End Num.
