(* C24 — executable model of occa::json dump / load and of primitive::toString / primitive::load
   (src/types/json.cpp, include/occa/types/json.hpp, src/types/primitive.cpp,
   src/occa/internal/utils/{lex,string}.cpp), transcribed branch for branch.

   Bytes are N (below 256 for well-formed values).  A C string is the list of its bytes
   *including the terminating NUL*: the cursor `const char *c` is the remaining list, `*c` its
   head, and the empty list is a cursor that has been moved past the terminator (reading it is an
   out-of-bounds read: `Oob`).  Strings held in a json value (std::string) have no terminator and
   may contain NUL bytes.

   Floats are not computed in Coq: F32/F64 are abstract, with the printer (`std::scientific`,
   precision 8 / 16) and the reader (`(float) atof`, `sscanf "%lf"`) as parameters.

   No proofs in this file (so that it still extracts when a proof breaks). *)
From Coq Require Import List NArith ZArith Bool.
Import ListNotations.
Local Open Scope N_scope.

Definition byte := N.
Definition bytes := list N.

(* ------------------------------------------------------------------ characters *)
(* 0 NUL  8 \b  9 \t  10 \n  11 \v  12 \f  13 \r  32 space  34 double-quote  39 single-quote  43 '+'  44 ','  45 '-'
   46 '.'  47 '/'  48..57 '0'..'9'  58 ':'  66 'B'  69 'E'  70 'F'  76 'L'  85 'U'  88 'X'
   91 '['  92 '\\'  93 ']'  98 'b' 102 'f' 110 'n' 114 'r' 116 't' 117 'u'  123 '{'  125 '}' *)

(* lex::whitespaceCharset = " \t\r\n\v\f" *)
Definition is_ws (c : N) : bool :=
  (c =? 32) || (c =? 9) || (c =? 13) || (c =? 10) || (c =? 11) || (c =? 12).

Definition is_digit (c : N) : bool := (48 <=? c) && (c <=? 57).

(* occa::uppercase(char) *)
Definition upper (c : N) : N := if (97 <=? c) && (c <=? 122) then c - 32 else c.

Definition is_hex (c : N) : bool :=
  is_digit c || ((97 <=? c) && (c <=? 102)) || ((65 <=? c) && (c <=? 70)).

(* lex::skipWhitespace = skipFrom(c, whitespaceCharset): stops at NUL (not in the charset) *)
Fixpoint skip_ws (s : bytes) : bytes :=
  match s with
  | c :: t => if is_ws c then skip_ws t else s
  | [] => []
  end.

(* lex::skipTo(c, delimiters): returns (skipped prefix, cursor) *)
Fixpoint span_to (p : N -> bool) (s : bytes) : bytes * bytes :=
  match s with
  | c :: t => if (c =? 0) || p c then ([], s)
              else let '(k, r) := span_to p t in (c :: k, r)
  | [] => ([], [])
  end.

(* lex::skipTo(c, delimiter, escapeChar) with escapeChar != 0: returns (skipped prefix, cursor).
   `c += 1 + (c[1] != '\0')` *)
Fixpoint span_to_esc (d esc : N) (s : bytes) : bytes * bytes :=
  match s with
  | c :: t =>
      if c =? 0 then ([], s)
      else if c =? esc then
        match t with
        | c1 :: t1 => if c1 =? 0 then ([c], t)
                      else let '(k, r) := span_to_esc d esc t1 in (c :: c1 :: k, r)
        | [] => ([c], [])
        end
      else if c =? d then ([], s)
      else let '(k, r) := span_to_esc d esc t in (c :: k, r)
  | [] => ([], [])
  end.

(* strncmp(c, lit, |lit|) == 0 for a literal without NUL *)
Fixpoint starts_with (p s : bytes) : bool :=
  match p with
  | [] => true
  | a :: p' => match s with
               | b :: s' => (a =? b) && starts_with p' s'
               | [] => false
               end
  end.

Fixpoint bytes_eqb (a b : bytes) : bool :=
  match a, b with
  | [], [] => true
  | x :: a', y :: b' => (x =? y) && bytes_eqb a' b'
  | _, _ => false
  end.

(* std::string operator< : lexicographic on unsigned bytes, a proper prefix is smaller *)
Fixpoint bytes_ltb (a b : bytes) : bool :=
  match a, b with
  | _, [] => false
  | [], _ :: _ => true
  | x :: a', y :: b' => if x <? y then true else if y <? x then false else bytes_ltb a' b'
  end.

(* the text std::string(c0, c - c0) between two cursors of the same buffer *)
Definition consumed (s rest : bytes) : bytes := firstn (length s - length rest) s.

(* ------------------------------------------------------------------ integer kinds *)
Inductive ikind := KBool | KI8 | KU8 | KI16 | KU16 | KI32 | KU32 | KI64 | KU64.

(* position of the primitiveType bit: the order `primitive::equal` uses to pick the type *)
Definition rank (k : ikind) : N :=
  match k with
  | KBool => 1 | KI8 => 2 | KU8 => 3 | KI16 => 4 | KU16 => 5
  | KI32 => 6 | KU32 => 7 | KI64 => 8 | KU64 => 9
  end.

Definition ikind_eqb (a b : ikind) : bool := rank a =? rank b.

Local Open Scope Z_scope.

Definition wrap_u (bits z : Z) : Z := z mod 2 ^ bits.
Definition wrap_s (bits z : Z) : Z := (z + 2 ^ (bits - 1)) mod 2 ^ bits - 2 ^ (bits - 1).
Definition wrap64 (z : Z) : Z := wrap_u 64 z.

(* (T) x for an integral T *)
Definition cast (k : ikind) (z : Z) : Z :=
  match k with
  | KBool => if z =? 0 then 0 else 1
  | KI8 => wrap_s 8 z   | KU8 => wrap_u 8 z
  | KI16 => wrap_s 16 z | KU16 => wrap_u 16 z
  | KI32 => wrap_s 32 z | KU32 => wrap_u 32 z
  | KI64 => wrap_s 64 z | KU64 => wrap_u 64 z
  end.

Definition kind_min (k : ikind) : Z :=
  match k with
  | KI8 => - 2 ^ 7 | KI16 => - 2 ^ 15 | KI32 => - 2 ^ 31 | KI64 => - 2 ^ 63
  | _ => 0
  end.
Definition kind_max (k : ikind) : Z :=
  match k with
  | KBool => 1
  | KI8 => 2 ^ 7 - 1 | KU8 => 2 ^ 8 - 1 | KI16 => 2 ^ 15 - 1 | KU16 => 2 ^ 16 - 1
  | KI32 => 2 ^ 31 - 1 | KU32 => 2 ^ 32 - 1 | KI64 => 2 ^ 63 - 1 | KU64 => 2 ^ 64 - 1
  end.
Definition in_kind (k : ikind) (z : Z) : bool := (kind_min k <=? z) && (z <=? kind_max k).

(* ------------------------------------------------------------------ decimal text *)
(* std::ostream << uint64_t / int64_t *)
Fixpoint dec_digits (fuel : nat) (n : N) (acc : bytes) : bytes :=
  match fuel with
  | O => acc
  | S f => let acc' := (48 + n mod 10)%N :: acc in
           if (n / 10 =? 0)%N then acc' else dec_digits f (n / 10)%N acc'
  end.
Definition dec_of_N (n : N) : bytes := dec_digits (S (N.to_nat (N.log2 n))) n [].
Definition dec_of_Z (z : Z) : bytes :=
  match z with
  | Zneg p => 45%N :: dec_of_N (Npos p)
  | _ => dec_of_N (Z.to_N z)
  end.

Definition digit_val (c : N) : Z := Z.of_N c - 48.

(* ------------------------------------------------------------------ occa::parseInt / parseBinary *)
(* These get the NUL-terminated copy std::string(c0, c - c0).c_str(); the text passed here is
   that copy without its terminator, so the end of the list is the NUL. *)

(* parseBinary's digit loop.  Returns None when OCCA_ERROR fires. *)
Fixpoint pb_loop (bits maxd : Z) (s : bytes) (ret : Z) : option Z :=
  match s with
  | c :: t =>
      if is_digit c then
        let dv := digit_val c in
        if dv <? maxd then pb_loop bits maxd t (wrap64 (wrap64 (ret * 2 ^ bits) + dv)) else None
      else
        let C := upper c in
        if ((65 <=? C) && (C <=? 70))%N then
          let dv := 10 + (Z.of_N C - 65) in
          if dv <? maxd then pb_loop bits maxd t (wrap64 (wrap64 (ret * 2 ^ bits) + dv)) else None
        else Some ret
  | [] => Some ret
  end.

Definition strip_sign (s : bytes) : bool * bytes :=
  match s with
  | c :: t => if ((c =? 43) || (c =? 45))%N then ((c =? 45)%N, t) else (false, s)
  | [] => (false, [])
  end.

Definition parse_binary (text : bytes) : option Z :=
  let s := skip_ws text in
  let '(negative, s1) := strip_sign s in
  let '(bits, maxd, s2) :=
    match s1 with
    | c0 :: t =>
        if (c0 =? 48)%N then
          match t with
          | c :: t' => let C := upper c in
                       if (C =? 88)%N then (4, 16, t')
                       else if (C =? 66)%N then (1, 2, t')
                       else (3, 10, t)
          | [] => (3, 10, t)
          end
        else (3, 10, s1)
    | [] => (3, 10, s1)
    end in
  match pb_loop bits maxd s2 0 with
  | Some ret => Some (if negative then wrap64 (- ret) else ret)
  | None => None
  end.

Fixpoint dec_loop (s : bytes) (ret : Z) : Z * bytes :=
  match s with
  | c :: t => if is_digit c then dec_loop t (wrap64 (wrap64 (ret * 10) + digit_val c)) else (ret, s)
  | [] => (ret, [])
  end.

(* the [LlUu]* loops of parseInt and primitive::load *)
Fixpoint int_sfx (s : bytes) (longs : nat) (uns : bool) : nat * bool :=
  match s with
  | c :: t => let C := upper c in
              if (C =? 76)%N then int_sfx t (S longs) uns
              else if (C =? 85)%N then int_sfx t longs true
              else (longs, uns)
  | [] => (longs, uns)
  end.

(* occa::parseInt.  full = the version of fixes/C14-1.patch: the U/L suffix is neither read nor used to
   narrow the value (the caller chooses the type); full = false is the pinned source. *)
Definition parse_int (full : bool) (text : bytes) : option Z :=
  let s := skip_ws text in
  let '(negative, s1) := strip_sign s in
  if match s1 with c :: _ => (c =? 48)%N | [] => false end then parse_binary text
  else
      let '(ret, s2) := dec_loop s1 0 in
      let ret := if negative then wrap64 (- ret) else ret in
      if full then Some ret
      else
        let '(longs, uns) := int_sfx s2 O false in
        Some (match longs with
              | O => if uns then wrap64 (cast KU32 ret) else wrap64 (cast KI32 ret)
              | S O => if uns then wrap64 (cast KU64 ret) else wrap64 (cast KI64 ret)
              | _ => ret
              end).

(* ------------------------------------------------------------------ result of a parsing step *)
Inductive res (A : Type) : Type :=
| Ok (a : A) (rest : bytes)     (* value and the new cursor *)
| Err                           (* occa::exception (OCCA_ERROR / OCCA_FORCE_ERROR) *)
| Oob                           (* read through a cursor that is past the terminating NUL *)
| NoFuel.                       (* model artefact; excluded by the theorems *)
Arguments Ok {A} a rest.
Arguments Err {A}.
Arguments Oob {A}.
Arguments NoFuel {A}.

(* ================================================================== values *)
Section WithFloats.
  Variables F32 F64 : Type.
  (* std::stringstream << std::scientific << std::setprecision(8 | 16) << x *)
  Variable print32 : F32 -> bytes.
  Variable print64 : F64 -> bytes.
  (* (float) ::atof(text)   and   sscanf(text, "%lf", &ret) *)
  Variable parse32 : bytes -> F32.
  Variable parse64 : bytes -> F64.
  (* areBitwiseEqual *)
  Variable eq32 : F32 -> F32 -> bool.
  Variable eq64 : F64 -> F64 -> bool.
  (* Which primitive::load is in the tree (both false = the pinned source):
     lit_by_value : fixes/C14-1.patch — a decimal/octal literal gets the first type that holds its value
                    and parseInt returns the full 64-bit value;
     fmt_by_value : fixes/C14-2.patch — the same for hex and binary literals.
     The check detects the variant of the library under test; the theorems hold for every combination. *)
  Variable lit_by_value : bool.
  Variable fmt_by_value : bool.

  (* occa::primitive: type + value (the `source` text is kept next to it in JNum) *)
  Inductive prim :=
  | PNone
  | PInt (k : ikind) (v : Z)
  | PF32 (x : F32)
  | PF64 (x : F64).

  (* occa::json: `type` + the member of value_ that the type selects.  Objects are
     std::map<std::string, json>: association lists in ascending key order. *)
  Inductive json :=
  | JNone
  | JNull
  | JNum (p : prim) (src : bytes)
  | JStr (s : bytes)
  | JArr (l : list json)
  | JObj (m : list (bytes * json)).

  Definition jobj := list (bytes * json).

  (* std::map::find / operator[]= / erase *)
  Fixpoint obj_find (k : bytes) (m : jobj) : option json :=
    match m with
    | [] => None
    | (k', v) :: m' => if bytes_eqb k k' then Some v else obj_find k m'
    end.

  Fixpoint obj_set (k : bytes) (v : json) (m : jobj) : jobj :=
    match m with
    | [] => [(k, v)]
    | (k', v') :: m' =>
        if bytes_ltb k k' then (k, v) :: m
        else if bytes_eqb k k' then (k, v) :: m'
        else (k', v') :: obj_set k v m'
    end.

  Fixpoint obj_erase (k : bytes) (m : jobj) : jobj :=
    match m with
    | [] => []
    | (k', v') :: m' => if bytes_eqb k k' then m' else (k', v') :: obj_erase k m'
    end.

  Definition obj_of_list (l : list (bytes * json)) : jobj :=
    fold_left (fun m kv => obj_set (fst kv) (snd kv) m) l [].

  (* ---------------------------------------------------------------- primitive::toString *)
  Definition is_long (k : ikind) : bool := match k with KI64 | KU64 => true | _ => false end.

  Definition prim_toString (p : prim) : bytes :=
    match p with
    | PNone => []
    | PInt KBool v => if v =? 0 then [102; 97; 108; 115; 101]%N else [116; 114; 117; 101]%N
    | PInt k v => dec_of_Z v ++ (if is_long k then [76%N] else [])
    | PF32 x => print32 x ++ [102%N]
    | PF64 x => print64 x
    end.

  (* ---------------------------------------------------------------- primitive::load *)
  (* loadBinary / loadHex digit loops: (value, number of digits, cursor) *)
  Fixpoint bin_digits (s : bytes) (v : Z) (n : Z) : Z * Z * bytes :=
    match s with
    | c :: t => if ((c =? 48) || (c =? 49))%N
                then bin_digits t (wrap64 (wrap64 (v * 2) + digit_val c)) (n + 1)
                else (v, n, s)
    | [] => (v, n, [])
    end.

  Fixpoint hex_digits (s : bytes) (v : Z) (n : Z) : Z * Z * bytes :=
    match s with
    | c :: t =>
        let C := upper c in
        if is_digit C then hex_digits t (wrap64 (wrap64 (v * 16) + digit_val C)) (n + 1)
        else if ((65 <=? C) && (C <=? 70))%N
             then hex_digits t (wrap64 (wrap64 (v * 16) + (10 + (Z.of_N C - 65)))) (n + 1)
             else (v, n, s)
    | [] => (v, n, [])
    end.

  (* the tail of loadBinary / loadHex: type chosen by the bit count *)
  Definition typed_by_bits (bits : Z) (neg : bool) (v : Z) : ikind * Z :=
    if bits <? 8 then (if neg then (KI8, cast KI8 (- v)) else (KU8, cast KU8 v))
    else if bits <? 16 then (if neg then (KI16, cast KI16 (- v)) else (KU16, cast KU16 v))
    else if bits <? 32 then (if neg then (KI32, cast KI32 (- v)) else (KU32, cast KU32 v))
    else (if neg then (KI64, cast KI64 (- v)) else (KU64, cast KU64 v)).

  (* the digits / '.' loop: (digits seen, decimal, cursor) *)
  Fixpoint scan_digits (s : bytes) (digits : nat) (decimal : bool) : nat * bool * bytes :=
    match s with
    | c :: t => if is_digit c then scan_digits t (S digits) decimal
                else if (c =? 46)%N then scan_digits t digits true
                else (digits, decimal, s)
    | [] => (digits, decimal, [])
    end.

  Definition prim_is_float (p : prim) : bool :=
    match p with PF32 _ | PF64 _ => true | _ => false end.

  Record sfx := Sfx { sx_longs : nat; sx_uns : bool; sx_dec : bool; sx_flt : bool }.

  (* the suffix loop `while ( *c != '\0')` of primitive::load; `rec` is primitive::load itself
     (used for the exponent).  Returns the flags and the cursor. *)
  Fixpoint sfx_loop (rec : bytes -> res (prim * bytes)) (formatted : bool) (s : bytes) (st : sfx)
    : res sfx :=
    match s with
    | [] => Oob
    | c :: t =>
        if (c =? 0)%N then Ok st s
        else
          let C := upper c in
          if (C =? 76)%N then sfx_loop rec formatted t (Sfx (S (sx_longs st)) (sx_uns st) (sx_dec st) (sx_flt st))
          else if (C =? 85)%N then sfx_loop rec formatted t (Sfx (sx_longs st) true (sx_dec st) (sx_flt st))
          else if negb formatted then
            if (C =? 69)%N then
              match rec t with
              | Ok (e, _) r => Ok (Sfx (sx_longs st) (sx_uns st) true (prim_is_float e)) r
              | Err => Err | Oob => Oob | NoFuel => NoFuel
              end
            else if (C =? 70)%N then sfx_loop rec formatted t (Sfx (sx_longs st) (sx_uns st) (sx_dec st) true)
            else Ok st s
          else Ok st s
    end.

  (* the type the U / L suffixes select *)
  Definition suffix_kind (st : sfx) : ikind :=
    match sx_longs st with
    | O => if sx_uns st then KU32 else KI32
    | _ => if sx_uns st then KU64 else KI64
    end.

  (* `if ( *c == '0')` followed by B or X: None = not a formatted literal (back up and read digits),
     Some None = loadBinary/loadHex found no digit, Some (Some (type, value, cursor)) otherwise *)
  Definition pl_fmt (negative : bool) (s1 : bytes) : option (option (ikind * Z * bytes)) :=
    match s1 with
    | c1 :: t1 =>
        if (c1 =? 48)%N then
          match t1 with
          | c2 :: t2 =>
              let C := upper c2 in
              if (C =? 66)%N then
                let '(v, n, r) := bin_digits t2 0 0 in
                if n =? 0 then Some None
                else let '(k, x) := typed_by_bits (n + (if negative then 1 else 0)) negative v in
                     Some (Some (k, x, r))
              else if (C =? 88)%N then
                let '(v, n, r) := hex_digits t2 0 0 in
                if n =? 0 then Some None
                else let '(k, x) := typed_by_bits (4 * n + (if negative then 1 else 0)) negative v in
                     Some (Some (k, x, r))
              else None
          | [] => None
          end
        else None
    | [] => None
    end.

  (* fixes/C14-1.patch: int32, int64 for decimal literals (uint32, uint64 with U); octal also the unsigned types *)
  Definition value_kind (negative octal : bool) (st : sfx) (value_ : Z) : ikind :=
    let magnitude := if negative then wrap64 (- value_) else value_ in
    let l0 := match sx_longs st with O => true | _ => false end in
    if l0 && negb (sx_uns st) && (magnitude <=? 2147483647) then KI32
    else if l0 && (magnitude <=? 4294967295) && (sx_uns st || octal) then KU32
    else if negb (sx_uns st) && (magnitude <=? 9223372036854775807) then KI64
    else if sx_uns st || octal then KU64
    else KI64.

  (* fixes/C14-2.patch: the first of int32, uint32, int64, uint64 that holds the value (unsigned only with U) *)
  Definition fmt_kind (negative : bool) (st : sfx) (value_ : Z) : ikind :=
    let wide := match sx_longs st with O => false | _ => true end
                || (negb negative && (4294967295 <? value_)) in
    if negb wide then
      (if sx_uns st || (negb negative && (2147483647 <? value_)) then KU32 else KI32)
    else
      (if sx_uns st || (negb negative && (9223372036854775807 <? value_)) then KU64 else KI64).

  (* the value of a literal made of ordinary digits, from the text between c0 and c; `negative` is the
     sign seen by primitive::load, `octal` = the first digit is 0 *)
  Definition pl_value (negative octal : bool) (s : bytes) (st : sfx) (r' : bytes) : res (prim * bytes) :=
    let text := consumed s r' in
    if sx_dec st || sx_flt st then
      if sx_flt st then Ok (PF32 (parse32 text), text) r'
      else Ok (PF64 (parse64 text), text) r'
    else
      match parse_int lit_by_value text with
      | None => Err
      | Some value_ =>
          let k' := if lit_by_value then value_kind negative octal st value_ else suffix_kind st in
          Ok (PInt k' (cast k' value_), text) r'
      end.

  (* primitive::load(c, includeSign): Ok (p, source) cursor *)
  Fixpoint prim_load (fuel : nat) (includeSign : bool) (s : bytes) : res (prim * bytes) :=
    match fuel with
    | O => NoFuel
    | S f =>
      if starts_with [116; 114; 117; 101]%N s then Ok (PInt KBool 1, [116; 114; 117; 101]%N) (skipn 4 s)
      else if starts_with [102; 97; 108; 115; 101]%N s then Ok (PInt KBool 0, [102; 97; 108; 115; 101]%N) (skipn 5 s)
      else
        match s with
        | [] => Oob
        | c0 :: t0 =>
          let is_sign := ((c0 =? 43) || (c0 =? 45))%N in
          if is_sign && negb includeSign then Ok (PNone, []) s
          else
            let negative := (c0 =? 45)%N in
            let s1 := if is_sign then skip_ws t0 else s in
            match pl_fmt negative s1 with
            | Some None => Ok (PNone, []) s             (* c = c0; return primitive() *)
            | Some (Some (k, x, r)) =>
                match sfx_loop (prim_load f true) true r (Sfx O false false false) with
                | Ok st r' =>
                    let k' := if fmt_by_value then fmt_kind negative st (cast KU64 x) else suffix_kind st in
                    Ok (PInt k' (cast k' x), consumed s r') r'
                | Err => Err | Oob => Oob | NoFuel => NoFuel
                end
            | None =>
                let '(digits, decimal, r) := scan_digits s1 O false in
                match digits with
                | O => Ok (PNone, []) s                 (* c = c0; source = "" *)
                | _ =>
                    match sfx_loop (prim_load f true) false r (Sfx O false decimal false) with
                    | Ok st r' =>
                        pl_value negative (match s1 with c1 :: _ => (c1 =? 48)%N | [] => false end) s st r'
                    | Err => Err | Oob => Oob | NoFuel => NoFuel
                    end
                end
            end
        end
    end.

  (* ---------------------------------------------------------------- primitive::equal *)
  (* None: the call throws ("Type not set") or reads a union member of another type, which the
     model does not describe.  Integral operands: both are converted to the wider type. *)
  Definition prim_equal (a b : prim) : option bool :=
    match a, b with
    | PInt ka va, PInt kb vb =>
        let k := if (rank kb <? rank ka)%N then ka else kb in
        Some (cast k va =? cast k vb)
    | PF32 x, PF32 y => Some (eq32 x y)
    | PF64 x, PF64 y => Some (eq64 x y)
    | _, _ => None
    end.

  (* ---------------------------------------------------------------- json::dumpToString *)
  Definition esc_byte (c : N) : bytes :=
    if (c =? 34)%N then [92; 34]%N
    else if (c =? 92)%N then [92; 92]%N
    else if (c =? 8)%N then [92; 98]%N
    else if (c =? 12)%N then [92; 102]%N
    else if (c =? 10)%N then [92; 110]%N
    else if (c =? 13)%N then [92; 114]%N
    else if (c =? 9)%N then [92; 116]%N
    else [c].

  Definition esc_bytes (s : bytes) : bytes := flat_map esc_byte s.

  (* `ke` = object keys go through the same escaping as string values (the repaired source);
     ke = false is the pinned source: `out += key` *)
  Definition dump_key (ke : bool) (k : bytes) : bytes := if ke then esc_bytes k else k.

  Definition nl (ind : bytes) : bytes := match ind with [] => [] | _ => [10%N] end.
  Definition sep (ind : bytes) : bytes := match ind with [] => [44; 32]%N | _ => [44; 10]%N end.

  (* the element loop shared by arrays and objects *)
  Fixpoint join_items (ni ind : bytes) (items : list bytes) : bytes :=
    match items with
    | [] => []
    | x :: t => ni ++ x ++ (match t with [] => nl ind | _ => sep ind end) ++ join_items ni ind t
    end.

  Fixpoint dump (ke : bool) (ind cur : bytes) (v : json) {struct v} : bytes :=
    match v with
    | JNone => []
    | JNull => [110; 117; 108; 108]%N
    | JNum p src => match src with [] => prim_toString p | _ => src end
    | JStr s => 34%N :: esc_bytes s ++ [34%N]
    | JArr l =>
        match l with
        | [] => [91; 93]%N
        | _ => let ni := cur ++ ind in
               91%N :: nl ind ++ join_items ni ind (map (dump ke ind ni) l) ++ cur ++ [93%N]
        end
    | JObj m =>
        match m with
        | [] => [123; 125]%N
        | _ => let ni := cur ++ ind in
               123%N :: nl ind
                 ++ join_items ni ind
                      (map (fun kv => let '(k, x) := kv in
                                      34%N :: dump_key ke k ++ [34; 58; 32]%N
                                        ++ match x with
                                           | JNone => [123; 125]%N
                                           | _ => dump ke ind ni x
                                           end) m)
                 ++ (match ind with [] => [] | _ => cur end) ++ [125%N]
        end
    end.

  (* json::dump(indent) *)
  Definition dump_top (ke : bool) (indent : Z) (v : json) : bytes :=
    let n := if 0 <=? indent then indent else 2 in
    dump ke (repeat 32%N (Z.to_nat n)) [] v.

  (* ---------------------------------------------------------------- json::load *)
  (* json::loadString after the opening quote; acc = value_.string so far *)
  Fixpoint load_string (q : N) (s : bytes) (acc : bytes) : res bytes :=
    match s with
    | [] => Oob
    | c :: t =>
        if (c =? 0)%N then Err                                   (* "Unclosed string" *)
        else if (c =? 92)%N then
          match t with
          | [] => Oob
          | e :: t' =>
              if (e =? 0)%N then Err
              else if (e =? 10)%N then load_string q t' acc
              else if (e =? 98)%N then load_string q t' (acc ++ [8%N])
              else if (e =? 102)%N then load_string q t' (acc ++ [12%N])
              else if (e =? 110)%N then load_string q t' (acc ++ [10%N])
              else if (e =? 114)%N then load_string q t' (acc ++ [13%N])
              else if (e =? 116)%N then load_string q t' (acc ++ [9%N])
              else if (e =? 117)%N then
                match t' with
                | h1 :: t1 =>
                    if negb (is_hex h1) then Err else
                    match t1 with
                    | h2 :: t2 =>
                        if negb (is_hex h2) then Err else
                        match t2 with
                        | h3 :: t3 =>
                            if negb (is_hex h3) then Err else
                            match t3 with
                            | h4 :: t4 =>
                                if negb (is_hex h4) then Err
                                else load_string q t4 (acc ++ [92; 117; h1; h2; h3; h4]%N)
                            | [] => Oob
                            end
                        | [] => Oob
                        end
                    | [] => Oob
                    end
                | [] => Oob
                end
              else load_string q t' (acc ++ [e])
          end
        else if (c =? q)%N then Ok acc t
        else load_string q t (acc ++ [c])
    end.

  (* json::objectKeyEndChars = " \t\r\n\v\f:" *)
  Definition key_end (c : N) : bool := is_ws c || (c =? 58)%N.

  (* json::loadObjectField; `ld` is json::load *)
  Definition load_field (ld : bytes -> res json) (s : bytes) (acc : jobj) : res jobj :=
    match s with
    | [] => Oob
    | c :: t =>
        let rk : res bytes :=
          if (c =? 34)%N then load_string 34%N t []
          else let '(k, r) := span_to key_end s in Ok k r in
        match rk with
        | Ok key s1 =>
            match key with
            | [] => Err                                          (* "Key cannot be of size 0" *)
            | _ =>
                match skip_ws s1 with
                | [] => Oob
                | c2 :: t2 =>
                    if (c2 =? 58)%N then
                      match ld t2 with
                      | Ok v r => Ok (obj_set key v acc) r
                      | Err => Err | Oob => Oob | NoFuel => NoFuel
                      end
                    else Err                                     (* "Key must be followed by ':'" *)
                end
            end
        | Err => Err | Oob => Oob | NoFuel => NoFuel
        end
    end.

  (* the loop of json::loadObject (after the optional '{') *)
  Fixpoint obj_loop (ld : bytes -> res json) (fuel : nat) (hasBrace : bool) (s : bytes) (acc : jobj)
    : res json :=
    let finish (s : bytes) : res json :=
      if hasBrace then match s with [] => Oob | _ :: t => Ok (JObj acc) t end
      else Ok (JObj acc) s in
    match fuel with
    | O => NoFuel
    | S f =>
        match s with
        | [] => Oob
        | c :: _ =>
            if (c =? 0)%N then finish s
            else
              match skip_ws s with
              | [] => Oob
              | (c1 :: _) as s1 =>
                  if ((c1 =? 125) || (c1 =? 0))%N then finish s1
                  else
                    match load_field ld s1 acc with
                    | Ok acc' s2 =>
                        match skip_ws s2 with
                        | [] => Oob
                        | (c3 :: t3) as s3 =>
                            if (c3 =? 44)%N then obj_loop ld f hasBrace t3 acc'
                            else if (c3 =? 125)%N then
                              (if hasBrace then Ok (JObj acc') t3 else Ok (JObj acc') s3)
                            else if (c3 =? 0)%N then
                              (if hasBrace then Err else Ok (JObj acc') s3)
                            else Err
                        end
                    | Err => Err | Oob => Oob | NoFuel => NoFuel
                    end
              end
        end
    end.

  (* the loop of json::loadArray (after the '[') *)
  Fixpoint arr_loop (ld : bytes -> res json) (fuel : nat) (s : bytes) (acc : list json) : res json :=
    match fuel with
    | O => NoFuel
    | S f =>
        match s with
        | [] => Oob
        | c :: _ =>
            if (c =? 0)%N then Err                               (* "Array is missing closing ']'" *)
            else
              match skip_ws s with
              | [] => Oob
              | (c1 :: t1) as s1 =>
                  if (c1 =? 93)%N then Ok (JArr acc) t1
                  else
                    match ld s1 with
                    | Ok v s2 =>
                        match skip_ws s2 with
                        | [] => Oob
                        | c3 :: t3 =>
                            if (c3 =? 44)%N then arr_loop ld f t3 (acc ++ [v])
                            else if (c3 =? 93)%N then Ok (JArr (acc ++ [v])) t3
                            else Err
                        end
                    | Err => Err | Oob => Oob | NoFuel => NoFuel
                    end
              end
        end
    end.

  (* json::load(const char *&c) *)
  Fixpoint load (fuel : nat) (s : bytes) : res json :=
    match fuel with
    | O => NoFuel
    | S f =>
        match skip_ws s with
        | [] => Oob
        | (c :: t) as s1 =>
            if is_digit c || (c =? 45)%N then
              match prim_load (length s1) true s1 with
              | Ok (p, src) r => Ok (JNum p src) r
              | Err => Err | Oob => Oob | NoFuel => NoFuel
              end
            else if (c =? 123)%N then obj_loop (load f) f true t []
            else if (c =? 91)%N then arr_loop (load f) f t []
            else if ((c =? 39) || (c =? 34))%N then
              match load_string c t [] with
              | Ok str r => Ok (JStr str) r
              | Err => Err | Oob => Oob | NoFuel => NoFuel
              end
            else if (c =? 116)%N then
              (if starts_with [116; 114; 117; 101]%N s1 then Ok (JNum (PInt KBool 1) []) (skipn 4 s1) else Err)
            else if (c =? 102)%N then
              (if starts_with [102; 97; 108; 115; 101]%N s1 then Ok (JNum (PInt KBool 0) []) (skipn 5 s1) else Err)
            else if (c =? 110)%N then
              (if starts_with [110; 117; 108; 108]%N s1 then Ok JNull (skipn 4 s1) else Err)
            else if (c =? 47)%N then
              (if starts_with [47; 47]%N s1 then Ok JNone (snd (span_to_esc 10%N 92%N s1)) else Err)
            else Err
        end
    end.

  (* json::parse(const std::string &s): the cursor starts at s.c_str().  The fuel is a model artefact:
     every nesting level and every array / object entry consumes at least one byte, so twice the length
     is never exhausted on a dump (theorem parse_dump_exact gives the exact bound 2 * number of nodes). *)
  Definition parse_at (s : bytes) : res json := load (2 * length s + 2) (s ++ [0%N]).

  Definition parse (s : bytes) : option json :=
    match parse_at s with Ok v _ => Some v | _ => None end.

  (* ---------------------------------------------------------------- json::operator== *)
  (* None: the comparison throws or is outside the model (see prim_equal).  std::vector / std::map
     operator== : sizes first, then std::equal, which stops at the first unequal pair. *)
  Fixpoint json_eq (a b : json) {struct a} : option bool :=
    match a, b with
    | JNone, JNone => Some true
    | JNull, JNull => Some true
    | JNum p _, JNum q _ => prim_equal p q
    | JStr s, JStr t => Some (bytes_eqb s t)
    | JArr l1, JArr l2 =>
        if Nat.eqb (length l1) (length l2) then
          (fix go (l1 l2 : list json) {struct l1} : option bool :=
             match l1, l2 with
             | x :: t1, y :: t2 =>
                 match json_eq x y with
                 | Some true => go t1 t2
                 | r => r
                 end
             | _, _ => Some true
             end) l1 l2
        else Some false
    | JObj m1, JObj m2 =>
        if Nat.eqb (length m1) (length m2) then
          (fix go (m1 m2 : jobj) {struct m1} : option bool :=
             match m1, m2 with
             | (k1, x) :: t1, (k2, y) :: t2 =>
                 if bytes_eqb k1 k2 then
                   match json_eq x y with
                   | Some true => go t1 t2
                   | r => r
                   end
                 else Some false
             | _, _ => Some true
             end) m1 m2
        else Some false
    | _, _ => Some false
    end.

  (* json::operator=(T) for a scalar T on an existing value: `type = number_; value_.number = value`,
     where primitive::operator=(T) sets the type and the value.  stale = true is the pinned source,
     in which primitive::operator=(T) leaves `source` as it was (so a number that was parsed and then
     assigned still prints its old text); the repaired operator clears it. *)
  Definition json_assign_scalar (stale : bool) (old : json) (p : prim) : json :=
    JNum p (if stale then match old with JNum _ src => src | _ => [] end else []).

  (* json::hash(): occa::hash of dumpToString(out) with the default arguments *)
  Definition json_hash {H : Type} (hash : bytes -> H) (ke : bool) (v : json) : H :=
    hash (dump ke [] [] v).

End WithFloats.

Arguments PNone {F32 F64}.
Arguments PInt {F32 F64} k v.
Arguments PF32 {F32 F64} x.
Arguments PF64 {F32 F64} x.
Arguments JNone {F32 F64}.
Arguments JNull {F32 F64}.
Arguments JNum {F32 F64} p src.
Arguments JStr {F32 F64} s.
Arguments JArr {F32 F64} l.
Arguments JObj {F32 F64} m.
