(* C24 — primitive::load and json::load on the text of one printed leaf value. *)
From Coq Require Import List NArith ZArith Bool Lia.
From OV.C24 Require Import Model Spec PBytes PNum.
Import ListNotations.
Local Open Scope Z_scope.

(* ------------------------------------------------------------------ the shape of a printed float *)
Lemma take_digits_spec : forall s a b, take_digits s = (a, b) -> s = a ++ b /\ digits a.
Proof.
  induction s as [|c s IH]; intros a b H; cbn [take_digits] in H.
  - injection H as <- <-; split; reflexivity.
  - destruct (is_digit c) eqn:Hc.
    + destruct (take_digits s) as [a' b'] eqn:E. injection H as <- <-.
      destruct (IH a' b' eq_refl) as [-> Hd]. split; [reflexivity|].
      unfold digits; cbn [forallb]; now rewrite Hc.
    + injection H as <- <-; split; reflexivity.
Qed.

Definition sci_text (t : bytes) : Prop :=
  exists sg d frac es ex,
    t = sg ++ d :: 46%N :: frac ++ 101%N :: es :: ex /\
    (sg = [] \/ sg = [45%N]) /\ is_digit d = true /\ digits frac /\
    (es = 43%N \/ es = 45%N) /\ ex <> [] /\ digits ex.

Lemma sci_shape_text : forall t, sci_shape t = true -> sci_text t.
Proof.
  intros t H. unfold sci_shape in H.
  set (t1 := match t with c :: t' => if (c =? 45)%N then t' else t | [] => t end) in H.
  assert (Hsg : exists sg, t = sg ++ t1 /\ (sg = [] \/ sg = [45%N])).
  { subst t1. destruct t as [|c t']; [exists []; split; [reflexivity | now left]|].
    destruct (N.eqb_spec c 45) as [->|_].
    - exists [45%N]; split; [reflexivity | now right].
    - exists []; split; [reflexivity | now left]. }
  destruct Hsg as (sg & Et & Hsg).
  destruct t1 as [|d [|dot rest]]; try discriminate.
  apply andb_true_iff in H as [H H3]. apply andb_true_iff in H as [H1 H2].
  apply N.eqb_eq in H2; subst dot.
  destruct (take_digits rest) as [frac rest2] eqn:E.
  destruct (take_digits_spec _ _ _ E) as [-> Hfrac].
  destruct rest2 as [|e [|es ex]]; try discriminate.
  apply andb_true_iff in H3 as [H3 H5]. apply andb_true_iff in H3 as [H3 H4].
  apply N.eqb_eq in H3; subst e.
  exists sg, d, frac, es, ex. split; [exact Et|]. split; [exact Hsg|]. split; [exact H1|].
  split; [exact Hfrac|]. split.
  { apply orb_true_iff in H4 as [H4|H4]; apply N.eqb_eq in H4; auto. }
  destruct ex as [|x ex]; [discriminate|]. split; [discriminate | exact H5].
Qed.

Section Load.
  Variables F32 F64 : Type.
  Variable print32 : F32 -> bytes.
  Variable print64 : F64 -> bytes.
  Variable parse32 : bytes -> F32.
  Variable parse64 : bytes -> F64.
  Variables lv fv : bool.          (* Model.lit_by_value, Model.fmt_by_value *)

  Notation prim := (prim F32 F64).
  Notation json := (json F32 F64).
  Notation prim_load := (prim_load F32 F64 parse32 parse64 lv fv).
  Notation load := (load F32 F64 parse32 parse64 lv fv).
  Notation prim_toString := (prim_toString F32 F64 print32 print64).

  Lemma prim_load_S : forall f incl s,
    prim_load (S f) incl s =
      if starts_with [116; 114; 117; 101]%N s then Ok (PInt KBool 1, [116; 114; 117; 101]%N) (skipn 4 s)
      else if starts_with [102; 97; 108; 115; 101]%N s then Ok (PInt KBool 0, [102; 97; 108; 115; 101]%N) (skipn 5 s)
      else
        match s with
        | [] => Oob
        | c0 :: t0 =>
          let is_sign := ((c0 =? 43) || (c0 =? 45))%N in
          if is_sign && negb incl then Ok (PNone, []) s
          else
            let negative := (c0 =? 45)%N in
            let s1 := if is_sign then skip_ws t0 else s in
            match pl_fmt negative s1 with
            | Some None => Ok (PNone, []) s
            | Some (Some (k, x, r)) =>
                match sfx_loop F32 F64 (prim_load f true) true r (Sfx O false false false) with
                | Ok st r' =>
                    let k' := if fv then fmt_kind negative st (cast KU64 x) else suffix_kind st in
                    Ok (PInt k' (cast k' x), consumed s r') r'
                | Err => Err | Oob => Oob | NoFuel => NoFuel
                end
            | None =>
                let '(digits, decimal, r) := scan_digits s1 O false in
                match digits with
                | O => Ok (PNone, []) s
                | _ =>
                    match sfx_loop F32 F64 (prim_load f true) false r (Sfx O false decimal false) with
                    | Ok st r' =>
                        pl_value F32 F64 parse32 parse64 lv negative
                          (match s1 with c1 :: _ => (c1 =? 48)%N | [] => false end) s st r'
                    | Err => Err | Oob => Oob | NoFuel => NoFuel
                    end
                end
            end
        end.
  Proof. reflexivity. Qed.

  (* a digit followed by something that is neither B nor X: not a formatted literal *)
  Lemma pl_fmt_plain : forall neg d rest, is_digit d = true ->
    (d = 48%N -> match rest with
                 | c :: _ => (upper c =? 66)%N = false /\ (upper c =? 88)%N = false
                 | [] => True
                 end) ->
    pl_fmt neg (d :: rest) = None.
  Proof.
    intros neg d rest Hd H. unfold pl_fmt.
    destruct (N.eqb_spec d 48) as [E|_]; [|reflexivity].
    specialize (H E). destruct rest as [|c rest]; [reflexivity|].
    destruct H as [-> ->]. reflexivity.
  Qed.

  Lemma digit_upper_not_bx : forall c, is_digit c = true -> (upper c =? 66)%N = false /\ (upper c =? 88)%N = false.
  Proof.
    intros c H. destruct (is_digit_facts c H) as (_ & _ & _ & _ & -> & _).
    unfold is_digit in H; apply andb_true_iff in H as [H1 H2]; apply N.leb_le in H1, H2.
    split; apply N.eqb_neq; lia.
  Qed.

  Lemma stop_upper_not_bx : forall c, stop c = true -> (upper c =? 66)%N = false /\ (upper c =? 88)%N = false.
  Proof. intros c H; stop_split H; split; reflexivity. Qed.

  (* ---------------------------------------------------------------- the exponent of a printed float *)
  Lemma prim_load_exponent : forall f es ex sfxf r,
    (es = 43%N \/ es = 45%N) -> digits ex -> ex <> [] -> (sfxf = [] \/ sfxf = [102%N]) -> stopr r ->
    exists e src, prim_load (S f) true (es :: ex ++ sfxf ++ r) = Ok (e, src) r /\
                  prim_is_float F32 F64 e = match sfxf with [] => false | _ => true end.
  Proof.
    intros f es ex sfxf r Hes Hex Hne Hsf Hr.
    destruct ex as [|d t]; [congruence|].
    assert (Hd : is_digit d = true).
    { unfold digits in Hex; cbn [forallb] in Hex; now apply andb_true_iff in Hex as [? _]. }
    assert (Ht : digits t).
    { unfold digits in *; cbn [forallb] in Hex; now apply andb_true_iff in Hex as [_ ?]. }
    rewrite prim_load_S.
    assert (Hs1 : starts_with [116; 114; 117; 101]%N (es :: (d :: t) ++ sfxf ++ r) = false)
      by (destruct Hes as [->| ->]; reflexivity).
    assert (Hs2 : starts_with [102; 97; 108; 115; 101]%N (es :: (d :: t) ++ sfxf ++ r) = false)
      by (destruct Hes as [->| ->]; reflexivity).
    rewrite Hs1, Hs2.
    assert (Hsign : ((es =? 43) || (es =? 45))%N = true) by (destruct Hes as [->| ->]; reflexivity).
    cbv zeta. rewrite Hsign. cbn [negb andb].
    cbn [app]. rewrite (skip_ws_stop d _ (is_digit_not_ws d Hd)).
    rewrite pl_fmt_plain; [|exact Hd|].
    2:{ intros _. destruct t as [|c t]; cbn [app].
        - destruct Hsf as [->| ->]; cbn [app].
          + destruct Hr as (c & r' & -> & Hc). now apply stop_upper_not_bx.
          + split; reflexivity.
        - apply digit_upper_not_bx. unfold digits in Ht; cbn [forallb] in Ht.
          now apply andb_true_iff in Ht as [? _]. }
    change (d :: t ++ sfxf ++ r) with ((d :: t) ++ sfxf ++ r).
    rewrite scan_digits_app; [|exact Hex|].
    2:{ destruct Hsf as [->| ->]; cbn [app].
        - destruct Hr as (c & r' & -> & Hc). split; [now apply stop_not_digit | now apply stop_not_dot].
        - split; reflexivity. }
    cbn [length Nat.add].
    destruct Hsf as [->| ->]; cbn [app].
    - rewrite sfx_loop_stop by exact Hr.
      unfold pl_value. cbn [sx_dec sx_flt orb].
      replace (es :: d :: t ++ r) with ((es :: d :: t) ++ r) by reflexivity.
      rewrite consumed_app.
      destruct (parse_int_exponent lv es (d :: t) Hes Hex Hne) as [z Hz]. rewrite Hz.
      eexists _, _; split; reflexivity.
    - cbn [sfx_loop]. change (102 =? 0)%N with false. change (upper 102) with 70%N.
      change (70 =? 76)%N with false. change (70 =? 85)%N with false. cbn [negb].
      change (70 =? 69)%N with false. change (70 =? 70)%N with true. cbv iota.
      rewrite sfx_loop_stop by exact Hr.
      unfold pl_value. cbn [sx_dec sx_flt orb].
      eexists _, _; split; reflexivity.
  Qed.

  (* ---------------------------------------------------------------- a printed float *)
  Lemma prim_load_sci : forall f t sfxf r,
    sci_text t -> (sfxf = [] \/ sfxf = [102%N]) -> stopr r ->
    prim_load (S (S f)) true (t ++ sfxf ++ r) =
      match sfxf with
      | [] => Ok (PF64 (parse64 t), t) r
      | _ => Ok (PF32 (parse32 (t ++ sfxf)), t ++ sfxf) r
      end.
  Proof.
    intros f t sfxf r (sg & d & frac & es & ex & -> & Hsg & Hd & Hfrac & Hes & Hne & Hex) Hsf Hr.
    destruct (is_digit_facts d Hd) as (Hp & Hm & Hz & Hdot & Hup & H116 & H102).
    destruct (prim_load_exponent f es ex sfxf r Hes Hex Hne Hsf Hr) as (e & esrc & He & Hfl).
    rewrite prim_load_S.
    set (body := d :: 46%N :: frac ++ 101%N :: es :: ex).
    assert (Hbody : forall tail, body ++ tail = d :: 46%N :: frac ++ 101%N :: es :: ex ++ tail).
    { intros; subst body; cbn [app]; now rewrite <- app_assoc. }
    assert (Hfmt : forall neg tail, pl_fmt neg (body ++ tail) = None).
    { intros; rewrite Hbody. apply pl_fmt_plain; [exact Hd|]. intros _; split; reflexivity. }
    assert (Hscan : forall tail, exists n, scan_digits (body ++ tail) O false = (S n, true, 101%N :: es :: ex ++ tail)).
    { intros; rewrite Hbody.
      apply (scan_digits_mantissa d frac (101%N :: es :: ex ++ tail) Hd Hfrac). split; reflexivity. }
    assert (Hsfx : sfx_loop F32 F64 (prim_load (S f) true) false (101%N :: es :: ex ++ sfxf ++ r) (Sfx 0 false true false)
                   = Ok (Sfx 0 false true (match sfxf with [] => false | _ => true end)) r).
    { cbn [sfx_loop]. change (101 =? 0)%N with false. change (upper 101) with 69%N.
      change (69 =? 76)%N with false. change (69 =? 85)%N with false. cbn [negb].
      change (69 =? 69)%N with true. cbv iota. rewrite He. cbn [sx_longs sx_uns]. now rewrite Hfl. }
    destruct Hsg as [->| ->]; cbn [app].
    - (* no sign *)
      fold body.
      assert (Hs1 : starts_with [116; 114; 117; 101]%N (body ++ sfxf ++ r) = false)
        by (unfold body; apply starts_with_first; exact H116).
      assert (Hs2 : starts_with [102; 97; 108; 115; 101]%N (body ++ sfxf ++ r) = false)
        by (unfold body; apply starts_with_first; exact H102).
      rewrite Hs1, Hs2.
      unfold body. cbn [app]. cbv zeta. rewrite Hp, Hm. cbn [orb andb].
      change (d :: 46%N :: (frac ++ 101%N :: es :: ex) ++ sfxf ++ r) with (body ++ sfxf ++ r).
      rewrite Hfmt. destruct (Hscan (sfxf ++ r)) as [n Hn]. rewrite Hn.
      rewrite Hsfx. unfold pl_value. cbn [sx_dec sx_flt orb].
      rewrite app_assoc, consumed_app.
      destruct Hsf as [->| ->]; [now rewrite app_nil_r | reflexivity].
    - (* minus sign *)
      cbv zeta. cbn [starts_with N.eqb Pos.eqb andb orb negb].
      assert (Hskip : skip_ws (body ++ sfxf ++ r) = body ++ sfxf ++ r)
        by (unfold body; cbn [app]; apply skip_ws_stop, is_digit_not_ws, Hd).
      rewrite !Hskip.
      rewrite Hfmt. destruct (Hscan (sfxf ++ r)) as [n Hn]. rewrite Hn.
      rewrite Hsfx. unfold pl_value. cbn [sx_dec sx_flt orb].
      change (45%N :: body ++ sfxf ++ r) with ((45%N :: body) ++ sfxf ++ r).
      rewrite app_assoc, consumed_app.
      destruct Hsf as [->| ->]; [now rewrite app_nil_r | reflexivity].
  Qed.

  (* ---------------------------------------------------------------- a printed integer *)
  Lemma in_kind_abs : forall k v, in_kind k v = true -> Z.abs v < 2 ^ 64.
  Proof.
    intros k v H. unfold in_kind in H. apply andb_true_iff in H as [H1 H2].
    apply Z.leb_le in H1, H2. change (2 ^ 64) with 18446744073709551616.
    destruct k; cbn in H1, H2; lia.
  Qed.

  (* |v| as primitive::load computes it from the 64-bit value *)
  Lemma magnitude_abs : forall v, Z.abs v < 2 ^ 64 ->
    (if v <? 0 then wrap64 (- wrap64 v) else wrap64 v) = Z.abs v.
  Proof.
    intros v H. unfold wrap64, wrap_u. change (2 ^ 64) with 18446744073709551616 in *.
    destruct (Z.ltb_spec v 0); lia.
  Qed.

  Lemma value_kind_printed : forall k v negative octal,
    k <> KBool -> in_kind k v = true -> negative = (v <? 0) -> (v <> 0 -> octal = false) ->
    let st := Sfx (if is_long k then 1 else 0) false false false in
    let k' := value_kind negative octal st (wrap64 v) in
    PInt k' (cast k' (wrap64 v)) = reparsed_prim F32 F64 true (PInt k v).
  Proof.
    intros k v negative octal Hk Hin Hneg Hoct. cbv zeta.
    pose proof (magnitude_abs v (in_kind_abs k v Hin)) as Hmag.
    unfold value_kind. cbn [sx_longs sx_uns]. rewrite Hneg, Hmag.
    unfold in_kind in Hin. apply andb_true_iff in Hin as [H1 H2]. apply Z.leb_le in H1, H2.
    assert (Hcast32 : forall z, Z.abs z <= 2147483647 -> cast KI32 (wrap64 z) = cast KI32 z).
    { intros z Hz. unfold cast, wrap64, wrap_s, wrap_u. change (2 ^ 64) with 18446744073709551616.
      change (2 ^ 32) with 4294967296. change (2 ^ (32 - 1)) with 2147483648. lia. }
    assert (Hcast64 : forall z, cast KI64 (wrap64 z) = cast KI64 z).
    { intros z. unfold cast, wrap64, wrap_s, wrap_u. change (2 ^ 64) with 18446744073709551616.
      change (2 ^ (64 - 1)) with 9223372036854775808. lia. }
    assert (Ho : Z.abs v <= 2147483647 \/ octal = false).
    { destruct (Z.eq_dec v 0) as [->|Hv]; [left; cbn; lia | right; now apply Hoct]. }
    destruct k; try congruence; cbn [is_long reparsed_prim andb negb orb] ; cbn in H1, H2.
    all: try (destruct (Z.leb_spec (Z.abs v) 2147483647); cbn [andb negb orb];
              [now rewrite Hcast32 |];
              destruct Ho as [Ho| ->]; [lia|]; rewrite ?andb_false_r; cbn [andb negb orb];
              destruct (Z.leb_spec (Z.abs v) 9223372036854775807); [now rewrite Hcast64 | lia]).
    all: destruct (Z.leb_spec (Z.abs v) 9223372036854775807); cbn [andb negb orb]; [now rewrite Hcast64|];
         destruct Ho as [Ho| ->]; [lia|]; now rewrite Hcast64.
  Qed.

  Lemma prim_load_int : forall f k v r,
    k <> KBool -> in_kind k v = true -> stopr r ->
    prim_load (S f) true (prim_toString (PInt k v) ++ r) =
      Ok (reparsed_prim F32 F64 lv (PInt k v), prim_toString (PInt k v)) r.
  Proof.
    intros f k v r Hk Hin Hr.
    set (sfx := if is_long k then [76%N] else @nil N).
    assert (Htxt : prim_toString (PInt k v) = dec_of_Z v ++ sfx) by (destruct k; try reflexivity; congruence).
    assert (Hrep : reparsed_prim F32 F64 false (PInt k v) =
                   if is_long k then PInt KI64 (cast KI64 v) else PInt KI32 (cast KI32 v))
      by (destruct k; try reflexivity; congruence).
    rewrite Htxt.
    assert (Hsfx : sfx = [] \/ sfx = [76%N]) by (subst sfx; destruct (is_long k); auto).
    destruct (dec_of_Z_spec v) as (sg & ds & E & Hd & Hv & Hsg & H0 & Hnz).
    pose proof (in_kind_abs k v Hin) as Hlt.
    destruct (parse_int_dec lv sg ds sfx v Hd Hv Hlt Hsg H0 Hnz Hsfx) as (value_ & Hpi & Hold & Hnew).
    rewrite E. destruct Hnz as (d & t & -> & Hnz).
    assert (Hdd : is_digit d = true).
    { unfold digits in Hd; cbn [forallb] in Hd; now apply andb_true_iff in Hd as [? _]. }
    destruct (is_digit_facts d Hdd) as (Hp & Hm & Hz & Hdot & Hup & H116 & H102).
    assert (Hfmt : forall neg, pl_fmt neg ((d :: t) ++ sfx ++ r) = None).
    { intros neg. cbn [app]. apply pl_fmt_plain; [exact Hdd|].
      intros ->. destruct (Z.eq_dec v 0) as [Hv0|Hv0]; [|now elim (Hnz Hv0)].
      specialize (H0 Hv0). injection H0 as ->. cbn [app].
      destruct Hsfx as [->| ->]; cbn [app]; [|split; reflexivity].
      destruct Hr as (c & r' & -> & Hc). now apply stop_upper_not_bx. }
    assert (Hscan : scan_digits ((d :: t) ++ sfx ++ r) O false = (length (d :: t), false, sfx ++ r)).
    { rewrite scan_digits_app; [reflexivity | exact Hd |].
      destruct Hsfx as [->| ->]; cbn [app]; [|split; reflexivity].
      destruct Hr as (c & r' & -> & Hc). split; [now apply stop_not_digit | now apply stop_not_dot]. }
    assert (Hloop : forall rec, sfx_loop F32 F64 rec false (sfx ++ r) (Sfx 0 false false false)
                   = Ok (Sfx (if is_long k then 1 else 0) false false false) r).
    { intros rec. subst sfx. destruct (is_long k); cbn [app].
      - cbn [sfx_loop]. change (76 =? 0)%N with false. change (upper 76) with 76%N.
        change (76 =? 76)%N with true. cbv iota. cbn [sx_longs sx_uns sx_dec sx_flt].
        now apply sfx_loop_stop.
      - now apply sfx_loop_stop. }
    (* the value and its type, for both variants of primitive::load *)
    assert (Hres : forall negative octal, negative = (v <? 0) -> (v <> 0 -> octal = false) ->
              (let k' := if lv then value_kind negative octal (Sfx (if is_long k then 1 else 0) false false false) value_
                         else suffix_kind (Sfx (if is_long k then 1 else 0) false false false) in
               PInt k' (cast k' value_)) = reparsed_prim F32 F64 lv (PInt k v)).
    { intros negative octal Hn Ho. cbv zeta. destruct lv.
      - rewrite (Hnew eq_refl). now apply value_kind_printed.
      - destruct (Hold eq_refl) as [Hc32 Hc64]. rewrite Hrep. unfold suffix_kind. cbn [sx_longs sx_uns].
        subst sfx. destruct (is_long k); [now rewrite Hc64 | now rewrite Hc32]. }
    assert (Hoct : v <> 0 -> (d =? 48)%N = false) by (intros Hv0; apply N.eqb_neq; now apply Hnz).
    rewrite prim_load_S. rewrite <- !app_assoc.
    destruct Hsg as [[Hpos ->]|[Hneg ->]]; cbn [app].
    - rewrite (starts_with_first _ d 116%N _ H116), (starts_with_first _ d 102%N _ H102).
      cbv zeta. rewrite Hp, Hm. cbn [orb andb].
      change (d :: t ++ sfx ++ r) with ((d :: t) ++ sfx ++ r).
      rewrite Hfmt, Hscan. cbn [length]. rewrite Hloop.
      unfold pl_value. cbn [sx_dec sx_flt orb].
      rewrite app_assoc, consumed_app. cbn [app] in Hpi. cbn [app]. rewrite Hpi.
      f_equal. f_equal. apply (Hres false (d =? 48)%N); [|exact Hoct].
      symmetry. apply Z.ltb_ge. exact Hpos.
    - cbv zeta. cbn [starts_with N.eqb Pos.eqb andb orb negb].
      rewrite (skip_ws_stop d _ (is_digit_not_ws d Hdd)).
      change (d :: t ++ sfx ++ r) with ((d :: t) ++ sfx ++ r).
      rewrite Hfmt, Hscan. cbn [length]. rewrite Hloop.
      unfold pl_value. cbn [sx_dec sx_flt orb].
      change (45%N :: (d :: t) ++ sfx ++ r) with (([45%N] ++ (d :: t)) ++ sfx ++ r).
      rewrite app_assoc, consumed_app. rewrite <- app_assoc. rewrite Hpi.
      f_equal. f_equal. apply (Hres true (d =? 48)%N); [|exact Hoct].
      symmetry. apply Z.ltb_lt. exact Hneg.
  Qed.

End Load.
