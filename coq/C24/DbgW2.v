From Coq Require Import List NArith ZArith Bool.
From OV.C24 Require Import Model Spec PBytes PNum PLoad Proofs PDet.
Import ListNotations.
Local Open Scope Z_scope.

(* A toy float interface (two values per type) that satisfies the hypotheses: they are consistent. *)
Definition tprint (b : bool) : bytes :=
  if b then [49; 46; 53; 101; 43; 48; 48]%N (* 1.5e+00 *) else [45; 50; 46; 48; 101; 45; 48; 51]%N (* -2.0e-03 *).
Definition tparse (t : bytes) : bool := match t with 49%N :: _ => true | _ => false end.
Definition tfin (b : bool) : bool := true.

Goal True. idtac "START float_interface_inhabited". exact I. Qed.
Example float_interface_inhabited :
  (forall x, tfin x = true -> sci_shape (tprint x) = true) /\
  (forall x, tfin x = true -> tparse (tprint x ++ [102%N]) = x) /\
  (forall x, tfin x = true -> tparse (tprint x) = x) /\
  (forall x, Bool.eqb x x = true).
Proof. repeat split; intros []; vm_compute; reflexivity. Qed.

Notation tjson := (json bool bool).
Definition tdump := dump_top bool bool tprint tprint.
Definition tparse_json := parse bool bool tparse tparse.
Definition twf := wf bool bool tfin tfin.
Definition teq := json_eq bool bool Bool.eqb Bool.eqb.
Definition tsame := json_same bool bool Bool.eqb Bool.eqb.

(* a value that exercises every case of the proof: nesting, escapes in a key and in a string, every
   integer width, both float widths, booleans, null, empty containers *)
Definition sample : tjson :=
  JObj [ ([34; 92]%N (* key: quote backslash *), JArr [JNum (PInt KU64 18446744073709551615) []; JNum (PInt KI64 (-9223372036854775808)) [];
                                   JNum (PInt KI8 (-128)) []; JNum (PInt KU8 200) []; JNum (PInt KI32 0) []]);
         ([97]%N, JStr [10; 34; 92; 9; 255; 1]%N);
         ([98]%N, JArr [JNum (PF32 true) []; JNum (PF64 false) []; JNum (PInt KBool 1) []; JNull; JArr []; JObj []]) ].

Goal True. idtac "START sample_wf". exact I. Qed.
Example sample_wf : twf sample = true.
Proof. vm_compute; reflexivity. Qed.


Time Eval vm_compute in (length (tdump true 2 sample)).
Time Eval vm_compute in (tparse_json (tdump true 2 (JNum (PInt KI32 5) []))).
Time Eval vm_compute in (tparse_json (tdump true 2 (JArr [JNum (PInt KI32 5) []; JNull]))).
Time Eval vm_compute in (tparse_json (tdump true 2 (JArr [JNum (PInt KU64 18446744073709551615) []]))).
Time Eval vm_compute in (tparse_json (tdump true 2 (JArr [JNum (PF32 true) []]))).
Time Eval vm_compute in (tparse_json (tdump true 2 (JStr [10; 34; 92; 9; 255; 1]%N))).
