(* C24 — lemmas on bytes: white space, the string escape codec, the key order. *)
From Coq Require Import List NArith ZArith Bool Lia.
From OV.C24 Require Import Model Spec.
Import ListNotations.
Local Open Scope N_scope.

Definition all_ws (w : bytes) : Prop := forallb is_ws w = true.

Lemma all_ws_nil : all_ws [].
Proof. reflexivity. Qed.

Lemma all_ws_app : forall a b, all_ws a -> all_ws b -> all_ws (a ++ b).
Proof. unfold all_ws; intros; rewrite forallb_app; now rewrite H, H0. Qed.

Lemma all_ws_cons : forall c w, is_ws c = true -> all_ws w -> all_ws (c :: w).
Proof. unfold all_ws; intros; simpl; now rewrite H, H0. Qed.

Lemma all_ws_repeat : forall n, all_ws (repeat 32 n).
Proof. induction n; simpl; [reflexivity | now apply all_ws_cons]. Qed.

Lemma skip_ws_app : forall w s, all_ws w -> skip_ws (w ++ s) = skip_ws s.
Proof.
  induction w as [|c w IH]; intros s H; [reflexivity|].
  unfold all_ws in H; simpl in H; apply andb_true_iff in H as [Hc Hw].
  simpl; rewrite Hc; now apply IH.
Qed.

Lemma skip_ws_stop : forall c s, is_ws c = false -> skip_ws (c :: s) = c :: s.
Proof. intros; simpl; now rewrite H. Qed.

Lemma is_ws_nonzero : forall c, is_ws c = true -> c <> 0.
Proof. intros c H ->; discriminate. Qed.

(* the first byte of  w ++ c :: s  for white space w and a non-zero c is not NUL *)
Lemma ws_head_nonzero : forall w c s, all_ws w -> c <> 0 ->
  exists c' t, w ++ c :: s = c' :: t /\ c' <> 0.
Proof.
  intros [|x w] c s Hw Hc; simpl.
  - now exists c, s.
  - exists x, (w ++ c :: s); split; [reflexivity|].
    unfold all_ws in Hw; simpl in Hw; apply andb_true_iff in Hw as [Hx _].
    now apply is_ws_nonzero.
Qed.

(* ------------------------------------------------------------------ strings *)
Section Strings.
  Variables F32 F64 : Type.

  Lemma byte_ok_nonzero : forall a, byte_ok a = true -> a <> 0.
  Proof. unfold byte_ok; intros a H ->; discriminate. Qed.

  Lemma load_string_esc1 : forall a rest acc, a <> 0 ->
    load_string 34 (esc_byte a ++ rest) acc = load_string 34 rest (acc ++ [a]).
  Proof.
    intros a rest acc Ha; unfold esc_byte.
    destruct (N.eqb_spec a 34); [subst; reflexivity|].
    destruct (N.eqb_spec a 92); [subst; reflexivity|].
    destruct (N.eqb_spec a 8); [subst; reflexivity|].
    destruct (N.eqb_spec a 12); [subst; reflexivity|].
    destruct (N.eqb_spec a 10); [subst; reflexivity|].
    destruct (N.eqb_spec a 13); [subst; reflexivity|].
    destruct (N.eqb_spec a 9); [subst; reflexivity|].
    simpl.
    apply N.eqb_neq in Ha; rewrite Ha.
    apply N.eqb_neq in n, n0; now rewrite n0, n.
  Qed.

  Lemma load_string_esc : forall s acc r, bytes_ok s = true ->
    load_string 34 (esc_bytes s ++ 34 :: r) acc = Ok (acc ++ s) r.
  Proof.
    induction s as [|a s IH]; intros acc r H.
    - simpl; now rewrite app_nil_r.
    - unfold bytes_ok in H; simpl in H; apply andb_true_iff in H as [Ha Hs].
      unfold esc_bytes; simpl; rewrite <- app_assoc.
      rewrite load_string_esc1 by now apply byte_ok_nonzero.
      fold (esc_bytes s); rewrite IH by exact Hs.
      now rewrite <- app_assoc.
  Qed.

  (* without the repair, or with a NUL byte, the codec is not the identity: see Properties_C24.v *)
End Strings.

(* ------------------------------------------------------------------ key order *)
Lemma bytes_eqb_refl : forall a, bytes_eqb a a = true.
Proof. induction a; simpl; [reflexivity | now rewrite N.eqb_refl]. Qed.

Lemma bytes_eqb_eq : forall a b, bytes_eqb a b = true <-> a = b.
Proof.
  induction a as [|x a IH]; intros [|y b]; simpl; split; intro H; try discriminate; try reflexivity.
  - apply andb_true_iff in H as [H1 H2]; apply N.eqb_eq in H1; apply IH in H2; now subst.
  - injection H as -> ->; now rewrite N.eqb_refl, bytes_eqb_refl.
Qed.

Lemma bytes_ltb_irrefl : forall a, bytes_ltb a a = false.
Proof. induction a; simpl; [reflexivity | now rewrite N.ltb_irrefl]. Qed.

Lemma bytes_ltb_asym : forall a b, bytes_ltb a b = true -> bytes_ltb b a = false.
Proof.
  induction a as [|x a IH]; intros [|y b] H; simpl in *; try discriminate; try reflexivity.
  destruct (N.ltb_spec x y), (N.ltb_spec y x); try lia; try discriminate; try reflexivity.
  now apply IH.
Qed.

Lemma bytes_ltb_neq : forall a b, bytes_ltb a b = true -> bytes_eqb b a = false.
Proof.
  intros a b H; destruct (bytes_eqb b a) eqn:E; [|reflexivity].
  apply bytes_eqb_eq in E; subst; now rewrite bytes_ltb_irrefl in H.
Qed.

Lemma bytes_ltb_trans : forall a b c, bytes_ltb a b = true -> bytes_ltb b c = true -> bytes_ltb a c = true.
Proof.
  induction a as [|x a IH]; intros [|y b] [|z c] H1 H2; simpl in *; try discriminate; try reflexivity.
  destruct (N.ltb_spec x y), (N.ltb_spec y x), (N.ltb_spec y z), (N.ltb_spec z y),
           (N.ltb_spec x z), (N.ltb_spec z x); try lia; try discriminate; try reflexivity.
  eapply IH; eassumption.
Qed.

Lemma bytes_ltb_total : forall a b, bytes_ltb a b = false -> bytes_eqb a b = false -> bytes_ltb b a = true.
Proof.
  induction a as [|x a IH]; intros [|y b] H1 H2; simpl in *; try discriminate; try reflexivity.
  destruct (N.ltb_spec x y), (N.ltb_spec y x); try lia; try discriminate; try reflexivity.
  assert (x = y) by lia; subst; rewrite N.eqb_refl in H2; simpl in H2.
  now apply IH.
Qed.
