(* C05: the counters follow the live objects over every history. *)
From Coq Require Import List ZArith Bool Lia.
From OV.C03 Require Import Spec Statements Arith Inv Proofs.
From OV.C05 Require Import Model Spec.
Import ListNotations.
Local Open Scope Z_scope.

Definition dop_ok (o : dop) : Prop :=
  match o with DPoolOp _ po => op_ok po | _ => True end.
Definition dops_ok (ops : list dop) : Prop := Forall dop_ok ops.

(* ------------------------------------------------------------------ the running maximum *)
Definition dmax_ok (d : dev) : Prop := d_max d = running_max (d_hist d) /\ d_alloc d <= d_max d.

Lemma dmax_alloc : forall d n, dmax_ok d -> dmax_ok (dev_alloc d n).
Proof.
  intros d n [A B]. unfold dmax_ok, dev_alloc. cbn [d_max d_alloc d_hist].
  change (running_max ((d_alloc d + n) :: d_hist d)) with (Z.max (d_alloc d + n) (running_max (d_hist d))).
  rewrite A. split; lia.
Qed.

Lemma dmax_free : forall d n, dmax_ok d -> 0 <= n -> dmax_ok (dev_free d n).
Proof.
  intros d n [A B] Hn. unfold dmax_ok, dev_free. cbn [d_max d_alloc d_hist].
  change (running_max ((d_alloc d - n) :: d_hist d)) with (Z.max (d_alloc d - n) (running_max (d_hist d))).
  rewrite <- A. split; lia.
Qed.

(* ------------------------------------------------------------------ pool operations and the counters:
   bytesAllocated moves exactly as the pool's size does; the maximum stays the running maximum *)
Definition tracks (d : dev) (p : pool) (d' : dev) (p' : pool) : Prop :=
  d_alloc d' - p_size p' = d_alloc d - p_size p /\
  (dmax_ok d -> 0 <= p_size p -> dmax_ok d').

Lemma tracks_refl : forall d p, tracks d p d p.
Proof. intros. split; [reflexivity|tauto]. Qed.

Lemma resize_tracks : forall V force d p bytes d' p',
  resize V force d p bytes = Some (d', p') -> tracks d p d' p'.
Proof.
  intros V force d p bytes d' p' H. unfold resize in H.
  destruct (p_reserved p >? bytes); [discriminate|].
  destruct ((p_size p =? bytes) && negb force); [inversion H; subst; apply tracks_refl|].
  destruct (p_res p).
  - inversion H; subst; clear H. split; [cbn; lia|].
    intros M S. apply dmax_alloc. apply dmax_free; assumption.
  - destruct (if v_round V then _ else _) as [[l' cs] nr]. inversion H; subst; clear H.
    split; [cbn; lia|]. intros M S. apply dmax_free; [apply dmax_alloc; assumption|assumption].
Qed.

Lemma set_alignment_tracks : forall V d p na d' p',
  set_alignment V d p na = Some (d', p') -> tracks d p d' p'.
Proof.
  intros V d p na d' p' H. unfold set_alignment in H.
  destruct (na =? 0); [discriminate|]. destruct (p_align p =? na); [inversion H; subst; apply tracks_refl|].
  destruct (p_res p) as [|m tl]; [inversion H; subst; split; [cbn; lia|tauto]|].
  destruct (pack r_off r_end (ru na) (m :: tl)) as [[l' cs] nr]. inversion H; subst; clear H.
  split; [cbn; lia|]. intros M S. apply dmax_free; [apply dmax_alloc; assumption|assumption].
Qed.

Lemma add_ref_size : forall V p x, p_size (add_ref V p x) = p_size p.
Proof. reflexivity. Qed.

Lemma tracks_add_ref : forall V d p d' p' x, tracks d p d' p' -> tracks d p d' (add_ref V p' x).
Proof. intros. exact H. Qed.

Lemma reserve_tracks : forall V d p id bytes d' p',
  reserve V d p id bytes = Some (d', p') -> tracks d p d' p'.
Proof.
  intros V d p id bytes d' p' H. unfold reserve in H.
  destruct (_ >? p_size p).
  - destruct (resize V false d p _) as [[d1 p1]|] eqn:Er; [|discriminate]. inversion H; subst.
    apply tracks_add_ref. eapply resize_tracks; eassumption.
  - destruct (p_res p); [inversion H; subst; apply tracks_add_ref, tracks_refl|].
    destruct (_ <=? p_size p); [inversion H; subst; apply tracks_add_ref, tracks_refl|].
    destruct (resize V (v_force V) d p _) as [[d1 p1]|] eqn:Er; [|discriminate]. inversion H; subst.
    apply tracks_add_ref. eapply resize_tracks; eassumption.
Qed.

Ltac tr := first [apply tracks_refl | (split; [reflexivity | tauto])].

Lemma step_tracks : forall V d p o,
  tracks d p (fst (fst (step V (d, p) o))) (snd (fst (step V (d, p) o))).
Proof.
  intros V d p o. destruct o as [id n|id parent off cnt|id|id off data|b| |na]; cbn [step].
  - destruct (find_res id (p_res p)); [tr|].
    destruct (n =? 0); [tr|]. destruct (n <? 0); [tr|].
    destruct (reserve V d p id n) as [[d1 p1]|] eqn:E; cbn; [eapply reserve_tracks; eassumption|tr].
  - destruct (find_res id (p_res p)); [tr|].
    destruct (find_res parent (p_res p)); [|tr].
    destruct (off <? 0); [tr|].
    destruct (_ <? 0); [tr|]. destruct (negb _); [tr|].
    destruct (_ <? 0); [tr|]. cbn. tr.
  - destruct (find_res id (p_res p)); cbn; tr.
  - destruct (find_res id (p_res p)); [|tr].
    destruct (off <? 0); [tr|]. destruct (negb _); cbn; tr.
  - destruct (resize V false d p b) as [[d1 p1]|] eqn:E; cbn; [eapply resize_tracks; eassumption|tr].
  - destruct (resize V false d p (p_reserved p)) as [[d1 p1]|] eqn:E; cbn; [eapply resize_tracks; eassumption|tr].
  - destruct (set_alignment V d p na) as [[d1 p1]|] eqn:E; cbn; [eapply set_alignment_tracks; eassumption|tr].
Qed.

(* ------------------------------------------------------------------ sums over the object table *)
Lemma expected_cons : forall k o l, expected_allocated ((k, o) :: l) = obj_bytes o + expected_allocated l.
Proof. reflexivity. Qed.

Lemma sum_remove : forall id l o, lookup id l = Some o ->
  expected_allocated (remove_obj id l) = expected_allocated l - obj_bytes o.
Proof.
  induction l as [|[k o0] tl IH]; intros o H; cbn [lookup remove_obj] in *; [discriminate|].
  destruct (k =? id).
  - inversion H; subst. rewrite expected_cons. lia.
  - rewrite !expected_cons. rewrite (IH o H). lia.
Qed.

Lemma sum_replace : forall id o' l o, lookup id l = Some o ->
  expected_allocated (replace_obj id o' l) = expected_allocated l - obj_bytes o + obj_bytes o'.
Proof.
  induction l as [|[k o0] tl IH]; intros o H; cbn [lookup replace_obj] in *; [discriminate|].
  destruct (k =? id).
  - inversion H; subst. rewrite !expected_cons. lia.
  - rewrite !expected_cons. rewrite (IH o H). lia.
Qed.

Lemma lookup_in : forall id l o, lookup id l = Some o -> In (id, o) l.
Proof.
  induction l as [|[k o0] tl IH]; intros o H; cbn in *; [discriminate|].
  destruct (Z.eqb_spec k id); [inversion H; subst; left; reflexivity|right; apply IH; assumption].
Qed.

Lemma in_remove_obj : forall id l x, In x (remove_obj id l) -> In x l.
Proof.
  induction l as [|[k o0] tl IH]; intros x H; cbn in *; [assumption|].
  destruct (k =? id); [right; assumption|]. destruct H as [<-|H]; [left; reflexivity|right; apply IH; assumption].
Qed.

Lemma in_replace_obj : forall id o' l x, In x (replace_obj id o' l) -> x = (id, o') \/ In x l.
Proof.
  induction l as [|[k o0] tl IH]; intros x H; cbn in *; [right; assumption|].
  destruct (Z.eqb_spec k id).
  - destruct H as [<-|H]; [left; congruence|right; right; assumption].
  - destruct H as [<-|H]; [right; left; reflexivity|]. destruct (IH x H); [left; assumption|right; right; assumption].
Qed.

(* ------------------------------------------------------------------ the invariant *)
Definition pool_good (p : pool) : Prop := exists sp, Inv p sp /\ 0 <= p_size p.

Definition obj_good (o : obj) : Prop :=
  match o with
  | OMem bytes how w => 0 <= bytes /\ (w = true <-> how = ByWrap)
  | OPool p => pool_good p
  end.

Record DInv (s : dstate) : Prop := mkDInv {
  di_sum : d_alloc (ds_dev s) = expected_allocated (ds_objs s);
  di_max : dmax_ok (ds_dev s);
  di_objs : forall id o, In (id, o) (ds_objs s) -> obj_good o
}.

Lemma dinv0 : DInv dstate0.
Proof. constructor; cbn; [reflexivity|split; cbn; lia|intros ? ? []]. Qed.

Lemma pool0_good : pool_good pool0.
Proof. exists sstate0. exact inv0. Qed.

Lemma malloc_inv : forall s id bytes src use_host,
  DInv s -> 0 < bytes -> DInv (do_malloc true s id bytes src use_host).
Proof.
  intros s id bytes src use_host I Hb. unfold do_malloc. rewrite andb_false_r.
  constructor; cbn [ds_dev ds_objs].
  - rewrite expected_cons. cbn [dev_alloc d_alloc obj_bytes]. rewrite (di_sum _ I). lia.
  - apply dmax_alloc. apply (di_max _ I).
  - intros k o [E|Hin]; [inversion E; subst; cbn; split; [lia|split; discriminate]|apply (di_objs _ I k o Hin)].
Qed.

Lemma dstep_inv : forall s o, DInv s -> dop_ok o -> DInv (fst (dstep fixed true s o)).
Proof.
  intros s o I Hok. destruct o as [id bytes src uh oh|id from|id bytes|id|id|id po|id]; cbn [dstep].
  - destruct (lookup id (ds_objs s)); [assumption|].
    destruct (Z.eqb_spec bytes 0); [assumption|]. destruct (Z.ltb_spec bytes 0); [assumption|].
    cbn [fst]. apply malloc_inv; [assumption|lia].
  - destruct (lookup id (ds_objs s)); [assumption|].
    destruct (lookup from (ds_objs s)) as [[bytes how w|p]|] eqn:El; try assumption.
    pose proof (di_objs _ I _ _ (lookup_in _ _ _ El)) as [Hb _].
    destruct (Z.eqb_spec bytes 0); [assumption|]. cbn [fst]. apply malloc_inv; [assumption|lia].
  - destruct (lookup id (ds_objs s)); [assumption|].
    destruct (Z.ltb_spec bytes 0); [assumption|]. cbn [fst].
    constructor; cbn [ds_dev ds_objs].
    + rewrite expected_cons. cbn [obj_bytes]. rewrite (di_sum _ I). lia.
    + apply (di_max _ I).
    + intros k o [E|Hin]; [inversion E; subst; cbn; split; [lia|split; reflexivity]|apply (di_objs _ I k o Hin)].
  - destruct (lookup id (ds_objs s)) as [[bytes how w|p]|] eqn:El; try assumption. cbn [fst].
    pose proof (di_objs _ I _ _ (lookup_in _ _ _ El)) as [Hb Hw].
    constructor; cbn [ds_dev ds_objs].
    + rewrite (sum_remove _ _ _ El). cbn [obj_bytes].
      destruct w; destruct how; cbn [dev_free d_alloc]; try (rewrite (di_sum _ I); lia).
      * destruct Hw as [Hw _]. specialize (Hw eq_refl). discriminate.
      * destruct Hw as [_ Hw]. specialize (Hw eq_refl). discriminate.
    + destruct w; [apply (di_max _ I)|apply dmax_free; [apply (di_max _ I)|assumption]].
    + intros k o Hin. apply (di_objs _ I k o). eapply in_remove_obj; eassumption.
  - destruct (lookup id (ds_objs s)); [assumption|]. cbn [fst].
    constructor; cbn [ds_dev ds_objs].
    + rewrite expected_cons. cbn [obj_bytes pool0 p_size]. rewrite (di_sum _ I). lia.
    + apply (di_max _ I).
    + intros k o [E|Hin]; [inversion E; subst; apply pool0_good|apply (di_objs _ I k o Hin)].
  - destruct (lookup id (ds_objs s)) as [[bytes how w|p]|] eqn:El; try assumption.
    pose proof (di_objs _ I _ _ (lookup_in _ _ _ El)) as (sp & Ip & Hs).
    pose proof (step_tracks fixed (ds_dev s) p po) as [T1 T2].
    pose proof (step_inv (ds_dev s, p) sp po (conj Ip Hs) Hok) as [Ip' Hs'].
    destruct (step fixed (ds_dev s, p) po) as [[d' p'] r]. cbn [fst snd] in *.
    constructor; cbn [ds_dev ds_objs].
    + rewrite (sum_replace _ _ _ _ El). cbn [obj_bytes]. rewrite <- (di_sum _ I). lia.
    + apply T2; [apply (di_max _ I)|assumption].
    + intros k o Hin. destruct (in_replace_obj _ _ _ _ Hin) as [E|Hin'].
      * inversion E; subst. exists (s_step sp (sop_of po)). split; assumption.
      * apply (di_objs _ I k o Hin').
  - destruct (lookup id (ds_objs s)) as [[bytes how w|p]|] eqn:El; try assumption. cbn [fst].
    pose proof (di_objs _ I _ _ (lookup_in _ _ _ El)) as (sp & Ip & Hs).
    constructor; cbn [ds_dev ds_objs].
    + rewrite (sum_remove _ _ _ El). unfold pool_destroy. cbn [obj_bytes dev_free d_alloc]. rewrite (di_sum _ I). lia.
    + unfold pool_destroy. apply dmax_free; [apply (di_max _ I)|assumption].
    + intros k o Hin. apply (di_objs _ I k o). eapply in_remove_obj; eassumption.
Qed.

Theorem drun_inv : forall ops, dops_ok ops -> DInv (drun fixed true dstate0 ops).
Proof.
  intros ops. unfold drun. generalize dinv0. generalize dstate0.
  induction ops as [|o ops IH]; intros s I Hok; cbn; [assumption|].
  inversion Hok; subst. apply IH; [apply dstep_inv; assumption|assumption].
Qed.
