(* C05 — device memory accounting returns to zero and tracks live allocations.
   drun fixed true = the source after fixes/C03-1..4, C04-1 (pool model) and C05-1 (host pointers). *)
From Coq Require Import List ZArith Bool Lia.
From OV.C03 Require Import Statements.
From OV.C05 Require Import Model Spec Proofs.
Import ListNotations.
Local Open Scope Z_scope.

(* after every operation of every history of malloc (all use_host_pointer/own_host_pointer
   combinations) / clone / wrapMemory / release / pool creation, pool operations, pool release:
   memoryAllocated() = bytes of the live malloc/clone allocations + bytes of the live pool buffers *)
Theorem allocated_is_sum_of_live : forall ops, dops_ok ops ->
  let s := drun fixed true dstate0 ops in
  d_alloc (ds_dev s) = expected_allocated (ds_objs s).
Proof. intros ops H. exact (di_sum _ (drun_inv ops H)). Qed.
Print Assumptions allocated_is_sum_of_live.

(* maxMemoryAllocated() is the largest value bytesAllocated has ever taken (d_hist records every
   value, including the moment of a pool migration when the old and the new buffer both exist) *)
Theorem max_is_running_max : forall ops, dops_ok ops ->
  let s := drun fixed true dstate0 ops in
  d_max (ds_dev s) = running_max (d_hist (ds_dev s)).
Proof. intros ops H. exact (proj1 (di_max _ (drun_inv ops H))). Qed.
Print Assumptions max_is_running_max.

(* once every memory object and pool is released, memoryAllocated() is 0 again *)
Theorem all_released_zero : forall ops, dops_ok ops ->
  ds_objs (drun fixed true dstate0 ops) = [] -> d_alloc (ds_dev (drun fixed true dstate0 ops)) = 0.
Proof. intros ops H E. rewrite (di_sum _ (drun_inv ops H)), E. reflexivity. Qed.
Print Assumptions all_released_zero.

(* non-vacuity *)
Definition demo : list dop :=
  [DMalloc 1 100 false false false; DMalloc 2 64 true true false; DWrap 3 40; DClone 4 2; DPoolNew 5;
   DPoolOp 5 (OReserve 10 200); DPoolOp 5 (OReserve 11 50); DPoolOp 5 (OFree 10); DPoolOp 5 (OAlign 16);
   DFree 2; DPoolOp 5 OShrink].
Example demo_ok : dops_ok demo.
Proof. unfold dops_ok, demo. repeat (apply Forall_cons; [cbn; try exact I; try lia|]). apply Forall_nil. Qed.
Example demo_counters :
  let s := drun fixed true dstate0 demo in
  (d_alloc (ds_dev s), expected_allocated (ds_objs s), d_max (ds_dev s)) = (228, 228, 868).
Proof. vm_compute. reflexivity. Qed.

(* ------------------------------------------------------------------ the unrepaired source:
   malloc(64, ptr, {use_host_pointer: true}) and release: nothing is live, 64 bytes still counted *)
Definition hostptr : list dop := [DMalloc 1 64 true true false; DFree 1].
Theorem host_pointer_never_decremented_refuted :
  dops_ok hostptr /\
  let s := drun fixed false dstate0 hostptr in ds_objs s = [] /\ d_alloc (ds_dev s) = 64.
Proof. split; [repeat (apply Forall_cons; [exact I|]); apply Forall_nil|]. vm_compute. split; reflexivity. Qed.
Print Assumptions host_pointer_never_decremented_refuted.
