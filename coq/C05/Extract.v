(* Extraction of the device-counter model (ExtrOcamlBasic only). coqc runs from /verif/coq. *)
From Coq Require Import Extraction ExtrOcamlBasic.
From OV.C05 Require Import Model Spec.
Extraction Language OCaml.
Extraction "../_work/extract/C05/model.ml"
  fixed pinned dstate0 dstep ds_dev ds_objs lookup d_alloc d_max d_hist
  p_size p_reserved p_res p_gen p_oob expected_allocated running_max.
