(* C05 — executable model of the device byte counters (modeDevice_t::bytesAllocated /
   maxBytesAllocated) over histories of allocations and releases on a Serial device:
     src/core/device.cpp                          device::malloc, device::wrapMemory, createMemoryPool
     src/occa/internal/modes/serial/device.cpp    serial::device::malloc / wrapMemory
     src/occa/internal/modes/serial/buffer.cpp    buffer::malloc / wrapMemory / useHostPointer
     src/occa/internal/core/buffer.cpp            ~modeBuffer_t (if (!isWrapped) bytesAllocated -= size)
     src/core/memory.cpp                          memory::clone
     src/occa/internal/core/memoryPool.cpp        pool buffers (the pool model of coq/C03/Model.v)
   `host_counted` is the one place that fixes/C05-1 changes: true = a use_host_pointer
   allocation is backed by buffer::useHostPointer (not wrapped, so its destructor subtracts its
   bytes again); false = the snapshot (buffer::wrapMemory: isWrapped = true, never subtracted).
   No proofs in this file. *)
From Coq Require Import List ZArith Bool.
From OV.C03 Require Export Model.
Import ListNotations.
Local Open Scope Z_scope.

(* how a plain memory object came to be *)
Inductive origin := ByMalloc | ByWrap.

Inductive obj :=
| OMem (bytes : Z) (how : origin) (isWrapped : bool)   (* one buffer + its one modeMemory_t *)
| OPool (p : pool).

Record dstate := mkD { ds_dev : dev; ds_objs : list (Z * obj) }.
Definition dstate0 : dstate := mkD dev0 [].

Fixpoint lookup (id : Z) (l : list (Z * obj)) : option obj :=
  match l with
  | [] => None
  | (k, o) :: tl => if k =? id then Some o else lookup id tl
  end.

Fixpoint remove_obj (id : Z) (l : list (Z * obj)) : list (Z * obj) :=
  match l with
  | [] => []
  | (k, o) :: tl => if k =? id then tl else (k, o) :: remove_obj id tl
  end.

Fixpoint replace_obj (id : Z) (o' : obj) (l : list (Z * obj)) : list (Z * obj) :=
  match l with
  | [] => []
  | (k, o) :: tl => if k =? id then (k, o') :: tl else (k, o) :: replace_obj id o' tl
  end.

Inductive dop :=
| DMalloc (id bytes : Z) (src use_host own_host : bool)
    (* id = device.malloc(bytes, src ? ptr : NULL, {use_host_pointer, own_host_pointer}) *)
| DClone (id from : Z)               (* id = from.clone() *)
| DWrap (id bytes : Z)               (* id = device.wrapMemory(ptr, bytes) *)
| DFree (id : Z)                     (* last handle of a memory dropped *)
| DPoolNew (id : Z)                  (* id = device.createMemoryPool() *)
| DPoolOp (id : Z) (o : op)          (* an operation of coq/C03/Model.v on pool id *)
| DPoolFree (id : Z).                (* last handle of the pool dropped: ~modeMemoryPool_t *)

(* device::malloc after the entries == 0 / bytes < 0 tests:
   modeDevice->malloc(bytes, src, props); bytesAllocated += bytes; max = max(max, bytesAllocated) *)
Definition do_malloc (host_counted : bool) (s : dstate) (id bytes : Z) (src use_host : bool) : dstate :=
  let wrapped := src && use_host && negb host_counted in
  mkD (dev_alloc (ds_dev s) bytes) ((id, OMem bytes ByMalloc wrapped) :: ds_objs s).

Definition dstep (V : variant) (host_counted : bool) (s : dstate) (o : dop) : dstate * outcome :=
  match o with
  | DMalloc id bytes src use_host own_host =>
      match lookup id (ds_objs s) with
      | Some _ => (s, Nul)
      | None =>
          if bytes =? 0 then (s, Nul)                 (* return memory() *)
          else if bytes <? 0 then (s, Err)            (* "Trying to allocate negative bytes" *)
          else (do_malloc host_counted s id bytes src use_host, Ok)
      end
  | DClone id from =>
      match lookup id (ds_objs s), lookup from (ds_objs s) with
      | None, Some (OMem bytes _ _) =>
          (* device.malloc(byte_size(), *this, properties()): src == NULL in modeDevice->malloc;
             for 0 bytes malloc returns memory() and mem.setDtype() raises "not initialized" *)
          if bytes =? 0 then (s, Err)
          else (do_malloc host_counted s id bytes false false, Ok)
      | _, _ => (s, Nul)
      end
  | DWrap id bytes =>
      match lookup id (ds_objs s) with
      | Some _ => (s, Nul)
      | None =>
          if bytes <? 0 then (s, Err)                 (* "Trying to wrap a pointer with negative bytes" *)
          else (mkD (ds_dev s) ((id, OMem bytes ByWrap true) :: ds_objs s), Ok)
      end
  | DFree id =>
      match lookup id (ds_objs s) with
      | Some (OMem bytes _ isWrapped) =>
          (* ~modeBuffer_t: if (!isWrapped) bytesAllocated -= size *)
          (mkD (if isWrapped then ds_dev s else dev_free (ds_dev s) bytes) (remove_obj id (ds_objs s)), Ok)
      | _ => (s, Nul)
      end
  | DPoolNew id =>
      match lookup id (ds_objs s) with
      | Some _ => (s, Nul)
      | None => (mkD (ds_dev s) ((id, OPool pool0) :: ds_objs s), Ok)
      end
  | DPoolOp id po =>
      match lookup id (ds_objs s) with
      | Some (OPool p) =>
          let '((d', p'), r) := step V (ds_dev s, p) po in
          (mkD d' (replace_obj id (OPool p') (ds_objs s)), r)
      | _ => (s, Nul)
      end
  | DPoolFree id =>
      match lookup id (ds_objs s) with
      | Some (OPool p) => (mkD (pool_destroy (ds_dev s) p) (remove_obj id (ds_objs s)), Ok)
      | _ => (s, Nul)
      end
  end.

Definition drun (V : variant) (hc : bool) (s : dstate) (ops : list dop) : dstate :=
  fold_left (fun s o => fst (dstep V hc s o)) ops s.
