(* C05 — what the counters must be, from the live objects alone: the bytes of every live
   malloc/clone allocation (with or without use_host_pointer) plus the bytes of every live pool's
   backing buffer; wrapped memory counts nothing.  maxMemoryAllocated must be the largest value
   memoryAllocated has ever taken. *)
From Coq Require Import List ZArith.
From OV.C05 Require Import Model.
Import ListNotations.
Local Open Scope Z_scope.

Definition obj_bytes (o : obj) : Z :=
  match o with
  | OMem bytes ByMalloc _ => bytes
  | OMem _ ByWrap _ => 0
  | OPool p => p_size p
  end.

Definition expected_allocated (objs : list (Z * obj)) : Z :=
  fold_right (fun ko acc => obj_bytes (snd ko) + acc) 0 objs.

Definition running_max (hist : list Z) : Z := fold_right Z.max 0 hist.
