(* C19 — proofs.  (A) the index tree the fixed code builds is a tree a C parser produces, so its text is
   read back unchanged and its value is the Horner form of the documented sum; (B) the Horner form
   over a permutation of the positions is a bijection from in-range index tuples onto [0, prod D). *)
From Coq Require Import List ZArith Bool Lia Arith Permutation.
From OV.C17 Require Import Expr ExprProofs.
From OV.C19 Require Import Model Spec.
Import ListNotations.
Local Open Scope Z_scope.

(* ---- Horner form ---- *)
Fixpoint horner (os : list nat) (D A : list Z) : Z :=
  match os with
  | [] => 0
  | o :: t => nth o A 0 + nth o D 0 * horner t D A
  end.

Lemma mr_sum_horner : forall os D A w, mr_sum os D A w = w * horner os D A.
Proof.
  induction os as [|o t IH]; intros D A w; cbn [mr_sum horner]; [lia|].
  rewrite IH. ring.
Qed.

Lemma mixed_radix_horner : forall os D A, mixed_radix os D A = horner os D A.
Proof. intros. unfold mixed_radix. rewrite mr_sum_horner. lia. Qed.

Definition hstep (D A : list Z) (acc : Z) (o : nat) : Z := nth o A 0 + nth o D 0 * acc.

Lemma horner_fold : forall os D A, horner os D A = fold_left (hstep D A) (rev os) 0.
Proof.
  induction os as [|o t IH]; intros D A; [reflexivity|].
  cbn [horner rev]. rewrite fold_left_app. cbn [fold_left]. unfold hstep at 1. rewrite IH. reflexivity.
Qed.

(* ---- (A) the tree ---- *)
Lemma forallb_nth_error : forall (A : Type) (p : A -> bool) l n x,
  forallb p l = true -> nth_error l n = Some x -> p x = true.
Proof.
  intros A p l n x H E. rewrite forallb_forall in H. apply H. eapply nth_error_In. exact E.
Qed.

Lemma nth_map_eval : forall rho (l : list expr) o a,
  nth_error l o = Some a -> nth o (map (eval rho) l) 0 = eval rho a.
Proof.
  intros rho l o a E. rewrite (nth_indep _ 0 (eval rho a)).
  - rewrite map_nth. f_equal. apply nth_error_nth. exact E.
  - rewrite map_length. apply nth_error_Some. congruence.
Qed.

Lemma fold_index_spec : forall rho dims args os idx,
  forallb safe dims = true -> forallb safe args = true ->
  (forall o, In o os -> (o < length args)%nat /\ (o < length dims)%nat) ->
  safe idx = true ->
  exists r, fold_index d_fixed dims args os idx = Some r /\ safe r = true /\
            eval rho r = fold_left (hstep (map (eval rho) dims) (map (eval rho) args)) os (eval rho idx).
Proof.
  intros rho dims args os. induction os as [|o t IH]; intros idx Sd Sa Hos Si.
  - exists idx. repeat split; assumption.
  - destruct (Hos o (or_introl eq_refl)) as [Ha Hd].
    destruct (nth_error args o) as [a|] eqn:Ea; [|apply nth_error_None in Ea; lia].
    destruct (nth_error dims o) as [d|] eqn:Ed; [|apply nth_error_None in Ed; lia].
    cbn [fold_index]. rewrite Ea, Ed. cbn [dv_arg_parens d_fixed].
    pose proof (forallb_nth_error _ _ _ _ _ Sa Ea) as Sa'.
    pose proof (forallb_nth_error _ _ _ _ _ Sd Ed) as Sd'.
    destruct (IH (Bin Add (wrap a) (wrap (Bin Mul (wrap d) (wrap idx)))) Sd Sa) as [r [Er [Sr Vr]]].
    + intros o' Ho'. apply Hos. right. exact Ho'.
    + cbn [wrap safe eprec bprec]. rewrite !safe_wrap, !eprec_wrap, Sa', Sd', Si. reflexivity.
    + exists r. repeat split; try assumption. rewrite Vr. cbn [fold_left]. f_equal.
      cbn [wrap eval bin_sem]. rewrite !eval_wrap. unfold hstep.
      rewrite (nth_map_eval rho args o a Ea), (nth_map_eval rho dims o d Ed). reflexivity.
Qed.

Theorem dim_formula_proof : forall rho order dims args,
  wf_dim dims args = true -> order <> [] ->
  (forall o, In o order -> (o < length args)%nat) ->
  index_value d_fixed rho order dims args =
  Some (mixed_radix order (map (eval rho) dims) (map (eval rho) args)).
Proof.
  intros rho order dims args Hwf Hne Hos.
  unfold wf_dim in Hwf. apply andb_prop in Hwf as [Hwf Sa]. apply andb_prop in Hwf as [Hlen Sd].
  apply Nat.eqb_eq in Hlen.
  rewrite mixed_radix_horner, horner_fold.
  unfold index_value, index_tree.
  destruct (rev order) as [|o t] eqn:Er.
  { apply (f_equal (@rev nat)) in Er. rewrite rev_involutive in Er. cbn in Er. contradiction. }
  assert (Hin : forall o', In o' (o :: t) -> (o' < length args)%nat).
  { intros o' Ho'. apply Hos. apply in_rev. rewrite Er. exact Ho'. }
  pose proof (Hin o (or_introl eq_refl)) as Ho.
  destruct (nth_error args o) as [a|] eqn:Ea; [|apply nth_error_None in Ea; lia].
  pose proof (forallb_nth_error _ _ _ _ _ Sa Ea) as Sa'.
  destruct (fold_index_spec rho dims args t a Sd Sa) as [r [Efr [Sr Vr]]].
  - intros o' Ho'. split; [|rewrite Hlen]; apply Hin; right; exact Ho'.
  - exact Sa'.
  - rewrite Efr, (reread_safe r Sr). f_equal. rewrite Vr. cbn [fold_left]. f_equal.
    unfold hstep. rewrite (nth_map_eval rho args o a Ea). lia.
Qed.

(* ---- (B) bijection ---- *)
Definition prod_over (os : list nat) (D : list Z) : Z :=
  fold_right (fun o p => nth o D 0 * p) 1 os.

Definition digits_ok (os : list nat) (D A : list Z) : Prop :=
  forall o, In o os -> 0 <= nth o A 0 < nth o D 0.

Lemma horner_range : forall os D A, digits_ok os D A -> 0 <= horner os D A < prod_over os D.
Proof.
  induction os as [|o t IH]; intros D A H; cbn [horner prod_over fold_right]; [lia|].
  pose proof (H o (or_introl eq_refl)) as Ho.
  assert (Ht : digits_ok t D A) by (intros o' Ho'; apply H; right; exact Ho').
  specialize (IH D A Ht). unfold prod_over in IH. nia.
Qed.

Lemma horner_inj : forall os D A A',
  digits_ok os D A -> digits_ok os D A' -> horner os D A = horner os D A' ->
  forall o, In o os -> nth o A 0 = nth o A' 0.
Proof.
  induction os as [|o t IH]; intros D A A' H H' E o' Ho'; [contradiction|].
  cbn [horner] in E.
  pose proof (H o (or_introl eq_refl)) as Ho. pose proof (H' o (or_introl eq_refl)) as Ho2.
  assert (Ht : digits_ok t D A) by (intros x Hx; apply H; right; exact Hx).
  assert (Ht' : digits_ok t D A') by (intros x Hx; apply H'; right; exact Hx).
  assert (Eh : horner t D A = horner t D A').
  { assert (nth o D 0 * (horner t D A - horner t D A') = nth o A' 0 - nth o A 0) by lia.
    nia. }
  assert (Ea : nth o A 0 = nth o A' 0) by nia.
  destruct Ho' as [<-|Hin]; [exact Ea|]. eapply IH; eauto.
Qed.

Lemma horner_ext : forall os D A A',
  (forall o, In o os -> nth o A 0 = nth o A' 0) -> horner os D A = horner os D A'.
Proof.
  induction os as [|o t IH]; intros D A A' H; cbn [horner]; [reflexivity|].
  rewrite (H o (or_introl eq_refl)), (IH D A A'); [reflexivity|].
  intros; apply H; right; assumption.
Qed.

(* digit at position j when x is decoded along os *)
Fixpoint decode (os : list nat) (D : list Z) (x : Z) (j : nat) : Z :=
  match os with
  | [] => 0
  | o :: t => if Nat.eqb j o then x mod nth o D 0 else decode t D (x / nth o D 0) j
  end.

Lemma horner_decode : forall os D x f,
  NoDup os -> (forall o, In o os -> 0 < nth o D 0) -> 0 <= x < prod_over os D ->
  (forall o, In o os -> f o = decode os D x o) ->
  (forall A, (forall o, In o os -> nth o A 0 = f o) -> horner os D A = x) /\
  (forall o, In o os -> 0 <= f o < nth o D 0).
Proof.
  induction os as [|o t IH]; intros D x f Hnd Hpos Hx Hf.
  - cbn [prod_over fold_right] in Hx. split; [intros; cbn [horner]; lia|contradiction].
  - inversion Hnd as [|? ? Hnotin Hnd']; subst.
    pose proof (Hpos o (or_introl eq_refl)) as Ho.
    cbn [prod_over fold_right] in Hx. fold (prod_over t D) in Hx.
    assert (Hq : 0 <= x / nth o D 0 < prod_over t D).
    { split; [apply Z.div_pos; lia|]. apply Z.div_lt_upper_bound; lia. }
    assert (Hft : forall o', In o' t -> f o' = decode t D (x / nth o D 0) o').
    { intros o' Ho'. rewrite (Hf o' (or_intror Ho')). cbn [decode].
      destruct (Nat.eqb_spec o' o); [subst; contradiction|reflexivity]. }
    destruct (IH D (x / nth o D 0) f Hnd' (fun o' H' => Hpos o' (or_intror H')) Hq Hft) as [IH1 IH2].
    assert (Hfo : f o = x mod nth o D 0).
    { rewrite (Hf o (or_introl eq_refl)). cbn [decode]. rewrite Nat.eqb_refl. reflexivity. }
    split.
    + intros A HA. cbn [horner]. rewrite (HA o (or_introl eq_refl)), Hfo.
      rewrite (IH1 A (fun o' H' => HA o' (or_intror H'))).
      pose proof (Z.div_mod x (nth o D 0) ltac:(lia)). lia.
    + intros o' [<-|Ho']; [rewrite Hfo; apply Z.mod_pos_bound; exact Ho|apply IH2; exact Ho'].
Qed.

Lemma prod_over_perm : forall os os' D, Permutation os os' -> prod_over os D = prod_over os' D.
Proof.
  intros os os' D H. induction H; cbn [prod_over fold_right] in *; try lia;
    unfold prod_over in *; try (rewrite IHPermutation; reflexivity); lia.
Qed.

Lemma prod_over_shift : forall (D : list Z) d k n,
  prod_over (seq (S k) n) (d :: D) = prod_over (seq k n) D.
Proof.
  intros D d k n. revert k. induction n; intros k; cbn [seq prod_over fold_right]; [reflexivity|].
  fold (prod_over (seq (S (S k)) n) (d :: D)). fold (prod_over (seq (S k) n) D).
  rewrite IHn. reflexivity.
Qed.

Lemma prod_over_seq : forall D, prod_over (seq 0 (length D)) D = total D.
Proof.
  induction D as [|d t IH]; cbn [length seq prod_over fold_right total]; [reflexivity|].
  fold (prod_over (seq 1 (length t)) (d :: t)). rewrite prod_over_shift, IH. reflexivity.
Qed.

Theorem dim_bijection_proof : forall order D,
  Permutation order (seq 0 (length D)) ->
  (forall A, in_range D A -> 0 <= mixed_radix order D A < total D) /\
  (forall A A', in_range D A -> in_range D A' ->
                mixed_radix order D A = mixed_radix order D A' -> A = A') /\
  ((forall j, (j < length D)%nat -> 0 < nth j D 0) ->
   forall x, 0 <= x < total D -> exists A, in_range D A /\ mixed_radix order D A = x).
Proof.
  intros order D HP.
  assert (Hin : forall o, In o order <-> (o < length D)%nat).
  { intros o. split; intro H.
    - apply (Permutation_in _ HP) in H. apply in_seq in H. lia.
    - apply (Permutation_in _ (Permutation_sym HP)). apply in_seq. lia. }
  assert (Hprod : prod_over order D = total D).
  { rewrite (prod_over_perm _ _ D HP). apply prod_over_seq. }
  assert (Hok : forall A, in_range D A -> digits_ok order D A).
  { intros A [_ HA] o Ho. apply HA. apply Hin. exact Ho. }
  split; [|split].
  - intros A HA. rewrite mixed_radix_horner, <- Hprod. apply horner_range. apply Hok. exact HA.
  - intros A A' HA HA' E. rewrite !mixed_radix_horner in E.
    pose proof (horner_inj order D A A' (Hok A HA) (Hok A' HA') E) as Hd.
    destruct HA as [LA _]. destruct HA' as [LA' _].
    apply (nth_ext A A' 0 0); [congruence|].
    intros j Hj. apply Hd. apply Hin. lia.
  - intros Hpos x Hx.
    assert (Hnd : NoDup order).
    { apply (Permutation_NoDup (Permutation_sym HP)). apply seq_NoDup. }
    set (A := map (decode order D x) (seq 0 (length D))).
    assert (HnA : forall o, In o order -> nth o A 0 = decode order D x o).
    { intros o Ho. apply Hin in Ho. unfold A.
      rewrite (nth_indep _ 0 (decode order D x 0)) by (rewrite map_length, seq_length; exact Ho).
      rewrite map_nth, seq_nth by exact Ho. reflexivity. }
    destruct (horner_decode order D x (fun o => nth o A 0) Hnd
                (fun o Ho => Hpos o (proj1 (Hin o) Ho)) ltac:(rewrite Hprod; exact Hx) HnA)
      as [H1 H2].
    exists A. split.
    + split; [unfold A; rewrite map_length, seq_length; reflexivity|].
      intros j Hj. apply H2. apply Hin. exact Hj.
    + rewrite mixed_radix_horner. apply H1. intros; reflexivity.
Qed.

(* the executable validity check implies the permutation hypothesis *)
Lemma valid_order_perm : forall n order, valid_order n order = true -> Permutation order (seq 0 n).
Proof.
  intros n order H. unfold valid_order in H.
  apply andb_prop in H as [H Hc]. apply andb_prop in H as [Hl Hb].
  apply Nat.eqb_eq in Hl. rewrite forallb_forall in Hb, Hc.
  apply (Permutation_count_occ Nat.eq_dec). intros k.
  destruct (lt_dec k n) as [Hk|Hk].
  - specialize (Hc k ltac:(apply in_seq; lia)). apply Nat.eqb_eq in Hc. rewrite Hc.
    symmetry. apply NoDup_count_occ'; [apply seq_NoDup|apply in_seq; lia].
  - rewrite (proj1 (count_occ_not_In Nat.eq_dec order k)).
    + symmetry. apply count_occ_not_In. intro Hin. apply in_seq in Hin. lia.
    + intro Hin. specialize (Hb k Hin). apply Nat.ltb_lt in Hb. lia.
Qed.
