(* Extraction of the executable model and specification (ExtrOcamlBasic only). *)
From Coq Require Import Extraction ExtrOcamlBasic.
From OV.C17 Require Import Expr Loop.
From OV.C19 Require Import Model Spec.
Extraction Language OCaml.
Extraction "../_work/extract/C19/model.ml"
  parse print safe wrap eval evalc eprec
  d_current d_fixed d_pinned index_tree valid_order index_value index_value_c wf_dim
  mixed_radix total
  wf_header direction_ok.   (* Loop types: only so that the shared OCaml glue compiles *)
