(* C19 — @dim array access computes the documented linear index.  Statements only; proofs in
   Proofs.v.  Vocabulary: C17/Expr.v (trees, print, reread, eval), C19/Model.v (the fold of
   dim::applyCodeTransformations), C19/Spec.v (documented mixed-radix index). *)
From Coq Require Import List ZArith Bool Lia Permutation.
From OV.C17 Require Import Expr.
From OV.C19 Require Import Model Spec Proofs.
Import ListNotations.
Local Open Scope Z_scope.

(* For every arity, every order whose entries are positions, and index / dimension expressions of any
   operator class (anything a C parser can produce): the rewritten subscript, READ BACK from its
   printed text with C precedence, has the documented mixed-radix value in every environment. *)
Theorem dim_formula : forall rho order dims args,
  wf_dim dims args = true -> order <> [] ->
  (forall o, In o order -> (o < length args)%nat) ->
  index_value d_fixed rho order dims args =
  Some (mixed_radix order (map (eval rho) dims) (map (eval rho) args)).
Proof. exact Proofs.dim_formula_proof. Qed.
Print Assumptions dim_formula.

(* The check dimOrder::isValid / getDimOrder performs yields a permutation. *)
Theorem valid_order_permutation : forall n order,
  valid_order n order = true -> Permutation order (seq 0 n).
Proof. exact Proofs.valid_order_perm. Qed.
Print Assumptions valid_order_permutation.

(* For a permutation order the documented index maps the in-range index tuples one-to-one onto
   [0, D0 * ... * Dk). *)
Theorem dim_bijection : forall order D,
  Permutation order (seq 0 (length D)) ->
  (forall A, in_range D A -> 0 <= mixed_radix order D A < total D) /\
  (forall A A', in_range D A -> in_range D A' ->
                mixed_radix order D A = mixed_radix order D A' -> A = A') /\
  ((forall j, (j < length D)%nat -> 0 < nth j D 0) ->
   forall x, 0 <= x < total D -> exists A, in_range D A /\ mixed_radix order D A = x).
Proof. exact Proofs.dim_bijection_proof. Qed.
Print Assumptions dim_bijection.

(* ---- the pinned source: index arguments are not parenthesised ---- *)
Definition a : expr := Var 0.
Definition b : expr := Var 1.
Definition c : expr := Var 2.
Definition j : expr := Var 3.
Definition X : expr := Var 4.
Definition Y : expr := Var 5.
Definition rho1 : env := fun x => match x with 0 => 1 | 1 => 2 | 2 => 3 | 3 => 1 | 4 => 4 | _ => 5 end.

(* x(a ? b : c, j) with @dim(X, Y): `a ? b : c + (X * j)` is b = 2, the documented index is 2 + 4*1 *)
Theorem dim_arg_parens_refuted : exists rho order dims args,
  wf_dim dims args = true /\ valid_order (length args) order = true /\
  index_value d_pinned rho order dims args = Some 2 /\
  mixed_radix order (map (eval rho) dims) (map (eval rho) args) = 6.
Proof.
  exists rho1, [0%nat; 1%nat], [X; Y], [Tern a b c; j]. repeat split; reflexivity.
Qed.
Print Assumptions dim_arg_parens_refuted.

(* x(a << 1, j): `a << 1 + (X * j)` shifts by 1 + 4;  x(4 | a, j): `4 | a + (X * j)`;
   x(c & 1, j): `c & 1 + (X * j)` *)
Theorem dim_arg_parens_refuted_shift_or_and :
  index_value d_pinned rho1 [0%nat; 1%nat] [X; Y] [Bin Shl a (Num 1); j] = Some 32 /\
  mixed_radix [0%nat; 1%nat] [4; 5] [2; 1] = 6 /\
  index_value d_pinned rho1 [0%nat; 1%nat] [X; Y] [Bin BOr (Num 4) a; j] = Some 5 /\
  mixed_radix [0%nat; 1%nat] [4; 5] [5; 1] = 9 /\
  index_value d_pinned rho1 [0%nat; 1%nat] [X; Y] [Bin BAnd c (Num 1); j] = Some 1 /\
  mixed_radix [0%nat; 1%nat] [4; 5] [1; 1] = 5.
Proof. repeat split; reflexivity. Qed.

(* ---- non-vacuity ---- *)
Example ex_dim_order :
  (* docs/guide/okl/attributes.md: mat23 yx @dim(2,3) @dimOrder(1,0); yx(1,2) -> yx[2 + (1 * 3)] *)
  option_map print (index_tree d_fixed [1%nat; 0%nat] [Num 2; Num 3] [Num 1; Num 2]) =
    Some [KNum 2; KBin Add; KLP; KNum 3; KBin Mul; KNum 1; KRP] /\
  index_value d_fixed rho1 [1%nat; 0%nat] [Num 2; Num 3] [Num 1; Num 2] = Some 5 /\
  index_value d_fixed rho1 [0%nat; 1%nat] [X; Y] [Tern a b c; j] = Some 6 /\
  index_value d_fixed rho1 [2%nat; 0%nat; 1%nat] [X; Y; Num 3] [Bin Shl a (Num 1); Bin BOr b (Num 4); j]
    = Some (1 + 3 * (2 + 4 * 6)).
Proof. repeat split; reflexivity. Qed.
