(* C19 — executable model of the index expansion in attributes::dim::applyCodeTransformations
   (src/occa/internal/lang/builtins/attributes/dim.cpp:60-96):
       order[i] = i  or the @dimOrder arguments                      (:64-75, getDimOrder :101-127)
       index = args[order[n-1]]
       for i = n-2 .. 0:  index = ARG + parens(parens(dims[order[i]]) * parens(index))
       x(args) -> x[index]
   built with expr::operator+ / operator* / expr::parens (expr.cpp), i.e. binaryOpNodes and
   wrapInParentheses; the index tree is PRINTED and READ BACK with C precedence before it is given
   a value (C17/Expr.v).

   One place of the pinned source differs from the code modelled as current (fixes/C19-1.patch):
     dv_arg_parens   ARG is parens(args[order[i]]) instead of args[order[i]] as written
   No proofs in this file. *)
From Coq Require Import List ZArith Bool Lia.
From OV.C17 Require Import Expr.
Import ListNotations.
Local Open Scope Z_scope.

Record dvariant : Type := mkDVariant { dv_arg_parens : bool }.
Definition d_fixed : dvariant := mkDVariant true.
Definition d_pinned : dvariant := mkDVariant false.
Definition d_current : dvariant := d_fixed.

(* the loop body for order entries n-2 .. 0, given as the list [order[n-2]; ...; order[0]] *)
Fixpoint fold_index (v : dvariant) (dims args : list expr) (os : list nat) (index : expr)
  : option expr :=
  match os with
  | [] => Some index
  | o :: t =>
      match nth_error args o, nth_error dims o with
      | Some a, Some d =>
          fold_index v dims args t
            (Bin Add (if dv_arg_parens v then wrap a else a) (wrap (Bin Mul (wrap d) (wrap index))))
      | _, _ => None
      end
  end.

Definition index_tree (v : dvariant) (order : list nat) (dims args : list expr) : option expr :=
  match rev order with
  | [] => None
  | o :: t =>
      match nth_error args o with
      | Some a => fold_index v dims args t a
      | None => None
      end
  end.

(* dim::callHasValidIndices, getDimOrder, dimOrder::isValid: as many indices as dimensions, the order
   a list of that length of distinct numbers below it *)
Definition valid_order (n : nat) (order : list nat) : bool :=
  (length order =? n)%nat && forallb (fun o => (o <? n)%nat) order && 
  forallb (fun k => (count_occ Nat.eq_dec order k =? 1)%nat) (seq 0 n).

Definition identity_order (n : nat) : list nat := seq 0 n.

(* the value of the rewritten subscript as a compiler reads its text *)
Definition index_value (v : dvariant) (rho : env) (order : list nat) (dims args : list expr)
  : option Z :=
  match index_tree v order dims args with
  | Some t => match reread t with Some t' => Some (eval rho t') | None => None end
  | None => None
  end.

Definition index_value_c (v : dvariant) (rho : env) (order : list nat) (dims args : list expr)
  : option Z :=
  match index_tree v order dims args with
  | Some t => match reread t with Some t' => evalc rho t' | None => None end
  | None => None
  end.

Definition wf_dim (dims args : list expr) : bool :=
  (length dims =? length args)%nat && forallb safe dims && forallb safe args.
