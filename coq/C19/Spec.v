(* C19 — the documented linear index (docs/guide/okl/attributes.md: `xy @dim(X, Y); xy(1, 2)` is
   `xy[1 + (2 * X)]`, and with @dimOrder(1, 0) on @dim(2, 3), `yx(1, 2)` is `yx[2 + (1 * 3)]`):
   the index named first in the order is the fastest one,
       linear = sum_j  i_{order j} * prod_{m < j} D_{order m}. *)
From Coq Require Import List ZArith Bool.
Import ListNotations.
Local Open Scope Z_scope.

(* sum of digit * weight, the weight growing by the dimension of each consumed position *)
Fixpoint mr_sum (os : list nat) (D A : list Z) (w : Z) : Z :=
  match os with
  | [] => 0
  | o :: t => nth o A 0 * w + mr_sum t D A (w * nth o D 0)
  end.

Definition mixed_radix (order : list nat) (D A : list Z) : Z := mr_sum order D A 1.

Definition total (D : list Z) : Z := fold_right Z.mul 1 D.

Definition in_range (D A : list Z) : Prop :=
  length A = length D /\ forall j, (j < length D)%nat -> 0 <= nth j A 0 < nth j D 0.
