(* C10 — the declarative rule of the property statement.

   An argument list is compatible with a kernel signature when it has as many arguments as the
   kernel has parameters and, position by position: memory goes to a pointer parameter and its
   element type can be cast to the parameter's (C11.Spec.cast_rule: either is `byte`, or the
   flattened element lists are equal, or one is k >= 1 repetitions of the other); a null pointer
   goes to a pointer parameter; anything else goes to a non-pointer parameter.
   `compatibleb` is the executable form (the oracle of the check). *)
From Coq Require Import List ZArith Bool String.
From OV.C11 Require Import Model Spec.
From OV.C10 Require Import Model.
Import ListNotations.

Definition arg_ok (info : argmeta) (arg : karg) : Prop :=
  match arg with
  | AMem d => a_ptr info = true /\ cast_rule d (a_dtype info)
  | ANull => a_ptr info = true
  | AScalar => a_ptr info = false
  end.

Definition compatible (sig : list argmeta) (args : list karg) : Prop := Forall2 arg_ok sig args.

Definition arg_okb (info : argmeta) (arg : karg) : bool :=
  match arg with
  | AMem d => a_ptr info && cast_ruleb d (a_dtype info)
  | ANull => a_ptr info
  | AScalar => negb (a_ptr info)
  end.

Fixpoint compatibleb (sig : list argmeta) (args : list karg) : bool :=
  match sig, args with
  | [], [] => true
  | info :: sig', arg :: args' => arg_okb info arg && compatibleb sig' args'
  | _, _ => false
  end.

(* what the property requires of kernel.run(args), fresh or cached, with type validation on *)
Definition required (sig : list argmeta) (args : list karg) : verdict :=
  if compatibleb sig args then OK else ERR.
