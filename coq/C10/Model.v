(* C10 — executable model of kernel-argument validation.
     modeKernel_t::setupRun                 src/occa/internal/core/kernel.cpp
     dtype_t::canBeCastedTo / isCyclic      src/dtype/dtype.cpp            (shared with coq/C11/Model.v)
     vartype_t::dtype / isPointerType       src/occa/internal/lang/type/vartype.cpp (+ primitive / typedef /
                                            struct ::dtype())
     parser_t::setSourceMetadata            src/occa/internal/lang/parser.cpp
     serial::device::buildKernelFromBinary  metadata read back from build.json: C11's k_fromJson . k_toJson

   The places where the repaired source differs from the pinned one are parameters (`kvariant`):
     kv_zero_guard : isCyclic returns false for a cycle length of 0 (true) or divides by zero (pinned)
     kv_init       : setSourceMetadata marks the metadata of every @kernel as initialized (true) or only
                     that of kernels with at least one argument, through operator += (pinned)
     kv_unsized    : vartype_t::dtype skips arrays without a known size, `float x[]` (true) or
                     dereferences their null size expression (pinned: SIGSEGV while building)
   No proofs in this file. *)
From Coq Require Import List ZArith Bool String.
From OV.C11 Require Import Model.
Import ListNotations.
Local Open Scope Z_scope.

Record kvariant : Type := mkKV { kv_zero_guard : bool; kv_init : bool; kv_unsized : bool }.
Definition krepaired : kvariant := mkKV true true true.
Definition kpinned : kvariant := mkKV false false false.

(* ---- the cast rule with the guard ---- *)
(* dtype_t::isCyclic; None = integer division by zero (SIGFPE) *)
Definition isCyclic' (zg : bool) (vec : list ident) (cycleLength : nat) : option bool :=
  match cycleLength with
  | O => if zg then Some false else None
  | _ => isCyclic vec cycleLength
  end.

Definition castv' (zg : bool) (fromVec toVec : list ident) : option bool :=
  let fe := List.length fromVec in
  let te := List.length toVec in
  if Nat.ltb fe te then
    match isCyclic' zg toVec fe with
    | None => None
    | Some false => Some false
    | Some true => Some (prefix_eq fe fromVec toVec)
    end
  else if Nat.ltb te fe then
    match isCyclic' zg fromVec te with
    | None => None
    | Some false => Some false
    | Some true => Some (prefix_eq te fromVec toVec)
    end
  else Some (prefix_eq fe fromVec toVec).

(* dtype_t::canBeCastedTo *)
Definition canBeCastedTo' (zg : bool) (from to : dtype) : option bool :=
  if is_byte_obj from || is_byte_obj to then Some true
  else castv' zg (flat from) (flat to).

(* ---- kernel arguments and the run-time check ---- *)
(* what setupRun looks at in a kernelArgData: memory with its dtype, a null pointer (also an
   uninitialized or zero-sized occa::memory), anything else (scalars, raw non-null pointers) *)
Inductive karg : Type :=
| AMem (d : dtype)
| ANull
| AScalar.

Inductive verdict : Type := OK | ERR | CRASH.

(* the loop of modeKernel_t::setupRun *)
Fixpoint check_args (zg : bool) (sig : list argmeta) (args : list karg) : verdict :=
  match sig, args with
  | info :: sig', arg :: args' =>
      let isMem := match arg with AMem _ => true | _ => false end in
      let isNull := match arg with ANull => true | _ => false end in
      let isPtr := isMem || isNull in
      if negb (Bool.eqb isPtr (a_ptr info)) then ERR
      else
        match arg with
        | AMem d =>
            match canBeCastedTo' zg d (a_dtype info) with
            | Some true => check_args zg sig' args'
            | Some false => ERR
            | None => CRASH
            end
        | _ => check_args zg sig' args'
        end
  | _, _ => OK
  end.

(* modeKernel_t::setupRun: metadata.isInitialized(), the property type_validation, the metadata's
   argument list, the pushed arguments *)
Definition setupRun (zg : bool) (initialized type_validation : bool) (sig : list argmeta) (args : list karg)
  : verdict :=
  if negb (initialized && type_validation) then OK
  else if negb (Nat.eqb (List.length args) (List.length sig)) then ERR
  else check_args zg sig args.

(* ---- declarations -> metadata (parser side) ---- *)
(* The part of a kernel parameter's vartype_t that dtype() and isPointerType() read.
   TPrim pn lq    : primitive_t named pn; lq = 1 / 2 when the declaration carries the qualifier
                    long / long long (OKL parses `long x` as qualifier long + type int)
   TTypedef b p a : typedef_t whose baseType is b with p pointers and array dimensions a
   TStruct fs     : struct_t with fields (name, type, array dimensions) *)
Inductive decl_type : Type :=
| TPrim (pname : string) (lq : Z)
| TTypedef (base : decl_type) (ptrs : nat) (arrays : list (option Z))
| TStruct (fields : list (string * (decl_type * list (option Z)))).

Record param : Type := mkParam {
  p_type : decl_type; p_const : bool; p_ptrs : nat; p_arrays : list (option Z); p_name : string }.

(* the loop over `arrays` in vartype_t::dtype: dtype = tuple(dtype, size) per dimension;
   None = the null dereference of the pinned source on an unsized dimension *)
Fixpoint wrap_arrays (kv : kvariant) (d : dtype) (arrays : list (option Z)) : option dtype :=
  match arrays with
  | [] => Some d
  | Some n :: r => wrap_arrays kv (tuple_of repaired d n false) r
  | None :: r => if kv_unsized kv then wrap_arrays kv d r else None
  end.

Definition is_int_obj (d : dtype) : bool := ident_eqb (d_id d) (gid 6).

(* type_t::dtype() then the int/long adjustment and the arrays of the enclosing vartype_t are
   applied by var_dtype *)
Fixpoint type_dtype (kv : kvariant) (t : decl_type) : option dtype :=
  match t with
  | TPrim pn lq =>
      let d := copy (getBuiltin pn) in
      Some (if is_int_obj d && (Z.eqb lq 1 || Z.eqb lq 2) then copy g_long else d)
  | TTypedef b _ arrs =>
      match type_dtype kv b with
      | Some d => wrap_arrays kv d arrs
      | None => None
      end
  | TStruct fs =>
      (fix go (fs : list (string * (decl_type * list (option Z)))) (acc : dtype) : option dtype :=
         match fs with
         | [] => Some acc
         | (fname, (ft, farr)) :: r =>
             match type_dtype kv ft with
             | Some fd =>
                 match wrap_arrays kv fd farr with
                 | Some fd' =>
                     match add_field repaired acc fname fd' 1 with
                     | Some acc' => go r acc'
                     | None => None
                     end
                 | None => None
                 end
             | None => None
             end
         end) fs (mk_leaf EmptyString 0 false)
  end.

(* vartype_t::isPointerType: pointers or arrays on the declaration, or a typedef of such *)
Fixpoint type_is_pointer (t : decl_type) : bool :=
  match t with
  | TTypedef b ptrs arrs =>
      negb (Nat.eqb ptrs 0) || negb (Nat.eqb (List.length arrs) 0) || type_is_pointer b
  | _ => false
  end.

(* argMetadata_t(arg.has(const_), arg.vartype.isPointerType(), arg.dtype(), arg.name()) *)
Definition param_meta (kv : kvariant) (p : param) : option argmeta :=
  match type_dtype kv (p_type p) with
  | Some d =>
      match wrap_arrays kv d (p_arrays p) with
      | Some d' =>
          Some (mkArg (p_const p)
                      (negb (Nat.eqb (p_ptrs p) 0) || negb (Nat.eqb (List.length (p_arrays p)) 0)
                       || type_is_pointer (p_type p))
                      (copy d') (p_name p))
      | None => None
      end
  | None => None
  end.

Fixpoint params_meta (kv : kvariant) (ps : list param) : option (list argmeta) :=
  match ps with
  | [] => Some []
  | p :: r =>
      match param_meta kv p, params_meta kv r with
      | Some a, Some rest => Some (a :: rest)
      | _, _ => None
      end
  end.

(* isInitialized() of the metadata of a freshly parsed kernel *)
Definition fresh_initialized (kv : kvariant) (sig : list argmeta) : bool :=
  if kv_init kv then true else negb (Nat.eqb (List.length sig) 0).

(* the decision of kernel.run(args) in the process that built the kernel ... *)
Definition run_fresh (kv : kvariant) (type_validation : bool) (sig : list argmeta) (args : list karg) : verdict :=
  setupRun (kv_zero_guard kv) (fresh_initialized kv sig) type_validation sig args.

(* ... and in a process that loads it from the cache: the metadata went through build.json *)
Definition run_cached (kv : kvariant) (type_validation : bool) (name : string) (sig : list argmeta)
           (args : list karg) : verdict :=
  match k_fromJson repaired [7] (k_toJson repaired (mkK name sig)) with
  | Some k' => setupRun (kv_zero_guard kv) true type_validation (k_args k') args
  | None => CRASH
  end.
