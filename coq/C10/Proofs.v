(* C10 — proofs. *)
From Coq Require Import String.
From Coq Require Import List ZArith Bool Arith Lia.
From OV.C11 Require Import Model Spec Statements Globals JsonFacts RoundtripFields Roundtrip.
From OV.C11 Require Proofs.
From OV.C10 Require Import Model Spec CastRule.
Import ListNotations.

(* ------------------------------------------------------------------ the cast rule *)
Lemma repeats_len : forall s b, repeats s b -> length s <= length b /\ (length s = length b -> s = b).
Proof.
  intros s b [Hne [k [Hk Hb]]]. subst b. rewrite length_concat_repeat.
  assert (Hn : length s <> 0) by (destruct s; cbn; [congruence|lia]).
  split; [nia|]. intro Hl. assert (k = 1) by nia. subst k. cbn. rewrite app_nil_r. reflexivity.
Qed.

Lemma castv'_total : forall a b, castv' true a b = Some true \/ castv' true a b = Some false.
Proof.
  intros a b. unfold castv'.
  destruct (Nat.ltb (length a) (length b)) eqn:E1.
  - unfold isCyclic'. destruct (length a) eqn:La; [auto|].
    destruct (isCyclic_pos b (S n) ltac:(lia)) as [c [Hc _]]. rewrite Hc.
    destruct c; [|auto]. destruct (prefix_eq (S n) a b); auto.
  - destruct (Nat.ltb (length b) (length a)) eqn:E2.
    + unfold isCyclic'. destruct (length b) eqn:Lb; [auto|].
      destruct (isCyclic_pos a (S n) ltac:(lia)) as [c [Hc _]]. rewrite Hc.
      destruct c; [|auto]. destruct (prefix_eq (S n) a b); auto.
    + destruct (prefix_eq (length a) a b); auto.
Qed.

Lemma castv'_spec : forall a b,
  castv' true a b = Some true <-> (a = b \/ repeats a b \/ repeats b a).
Proof.
  intros a b. unfold castv'.
  destruct (Nat.ltb (length a) (length b)) eqn:E1.
  - apply Nat.ltb_lt in E1.
    assert (Hno1 : a <> b) by (intro; subst; lia).
    assert (Hno2 : ~ repeats b a) by (intro H; apply repeats_len in H; lia).
    unfold isCyclic'. destruct (length a) eqn:La.
    + split; [discriminate|]. intros [H|[H|H]]; try contradiction.
      destruct H as [Hne _]. destruct a; [congruence|discriminate].
    + rewrite <- La in *. assert (Hne : a <> []) by (destruct a; [discriminate|congruence]).
      pose proof (cyc_prefix_iff a b Hne ltac:(lia)) as Hiff.
      destruct (isCyclic_pos b (length a) ltac:(lia)) as [c [Hc _]]. rewrite Hc in *.
      split.
      * intro H. right. left. split; [exact Hne|]. apply Hiff. destruct c; [|discriminate].
        split; [eauto|]. inversion H. reflexivity.
      * intros [H|[H|H]]; try contradiction. destruct H as [_ Hk].
        apply Hiff in Hk. destruct Hk as [[c' [Hc' Ht]] Hp]. inversion Hc'; subst c' c.
        rewrite Hp. reflexivity.
  - destruct (Nat.ltb (length b) (length a)) eqn:E2.
    + apply Nat.ltb_lt in E2.
      assert (Hno1 : a <> b) by (intro; subst; lia).
      assert (Hno2 : ~ repeats a b) by (intro H; apply repeats_len in H; lia).
      unfold isCyclic'. destruct (length b) eqn:Lb.
      * split; [discriminate|]. intros [H|[H|H]]; try contradiction.
        destruct H as [Hne _]. destruct b; [congruence|discriminate].
      * rewrite <- Lb in *. assert (Hne : b <> []) by (destruct b; [discriminate|congruence]).
        pose proof (cyc_prefix_iff b a Hne ltac:(lia)) as Hiff.
        destruct (isCyclic_pos a (length b) ltac:(lia)) as [c [Hc _]]. rewrite Hc in *.
        rewrite (prefix_eq_sym (length b) a b).
        split.
        -- intro H. right. right. split; [exact Hne|]. apply Hiff. destruct c; [|discriminate].
           split; [eauto|]. inversion H. reflexivity.
        -- intros [H|[H|H]]; try contradiction. destruct H as [_ Hk].
           apply Hiff in Hk. destruct Hk as [[c' [Hc' Ht]] Hp]. inversion Hc'; subst c' c.
           rewrite Hp. reflexivity.
    + apply Nat.ltb_ge in E1. apply Nat.ltb_ge in E2. assert (Hl : length a = length b) by lia.
      split.
      * intro H. left. apply (prefix_eq_full a b Hl). inversion H. reflexivity.
      * intros [H|[H|H]].
        -- f_equal. apply (prefix_eq_full a b Hl). exact H.
        -- apply repeats_len in H. destruct H as [_ H]. f_equal. apply (prefix_eq_full a b Hl). auto.
        -- apply repeats_len in H. destruct H as [_ H]. f_equal. apply (prefix_eq_full a b Hl).
           symmetry. auto.
Qed.

Theorem canBeCastedTo'_spec : forall a b, canBeCastedTo' true a b = Some true <-> cast_rule a b.
Proof.
  intros a b. unfold canBeCastedTo', cast_rule.
  destruct (is_byte_obj a) eqn:Ea; cbn [orb]; [tauto|].
  destruct (is_byte_obj b) eqn:Eb; cbn [orb]; [tauto|].
  rewrite castv'_spec. split.
  - intro H. right. right. exact H.
  - intros [H|[H|H]]; try discriminate. exact H.
Qed.

Theorem canBeCastedTo'_total : forall a b,
  canBeCastedTo' true a b = Some true \/ canBeCastedTo' true a b = Some false.
Proof.
  intros a b. unfold canBeCastedTo'. destruct (is_byte_obj a || is_byte_obj b); [auto|].
  apply castv'_total.
Qed.

(* the executable rule agrees with the declarative one *)
Lemma ids_eqb_eq : forall a b, ids_eqb a b = true <-> a = b.
Proof.
  induction a as [|x a IH]; destruct b as [|y b]; cbn; split; intro H; try discriminate; auto.
  - apply andb_true_iff in H. destruct H as [H1 H2]. apply ident_eqb_eq in H1. apply IH in H2. congruence.
  - inversion H; subst. rewrite ident_eqb_refl. cbn. apply IH. reflexivity.
Qed.

Lemma repeatsb_spec : forall s b, repeatsb s b = true <-> repeats s b.
Proof.
  intros s b. unfold repeatsb, repeats. destruct s as [|x s].
  - split; [discriminate|]. intros [H _]. congruence.
  - destruct b as [|y b].
    + split; [discriminate|]. intros [_ [k [Hk Hb]]]. destruct k; [lia|]. discriminate.
    + rewrite ids_eqb_eq. split.
      * intro H. split; [discriminate|].
        remember (Nat.div (length (y :: b)) (length (x :: s))) as k eqn:Ek in *.
        exists k. split; [|exact H]. destruct k; [discriminate|lia].
      * intros [_ [k [Hk Hb]]]. rewrite Hb at 2. rewrite Hb. rewrite length_concat_repeat.
        rewrite Nat.div_mul by (cbn; lia). reflexivity.
Qed.

Theorem cast_ruleb_spec : forall a b, cast_ruleb a b = true <-> cast_rule a b.
Proof.
  intros a b. unfold cast_ruleb, cast_rule. rewrite !orb_true_iff, ids_eqb_eq, !repeatsb_spec. tauto.
Qed.

(* ------------------------------------------------------------------ setupRun *)
Lemma Forall2_length : forall (A B : Type) (R : A -> B -> Prop) l l',
  Forall2 R l l' -> length l = length l'.
Proof. induction 1; cbn; congruence. Qed.
Arguments Forall2_length {A B R l l'} _.
Lemma check_args_spec : forall sig args,
  length args = length sig ->
  (check_args true sig args = OK <-> compatible sig args) /\
  (check_args true sig args = OK \/ check_args true sig args = ERR).
Proof.
  induction sig as [|info sig IH]; intros [|arg args] Hl; cbn in Hl; try discriminate.
  - split; [|left; reflexivity]. split; [constructor|reflexivity].
  - destruct (IH args ltac:(lia)) as [IH1 IH2]. cbn [check_args]. unfold compatible.
    destruct arg as [d| |]; cbn [orb].
    + destruct (a_ptr info) eqn:Ep; cbn [Bool.eqb negb].
      * destruct (canBeCastedTo'_total d (a_dtype info)) as [Hc|Hc]; rewrite Hc.
        -- split; [|exact IH2]. rewrite IH1. split.
           ++ intro H. constructor; [|exact H]. cbn. split; [exact Ep|]. apply canBeCastedTo'_spec. exact Hc.
           ++ intro H. inversion H; subst. assumption.
        -- split; [|right; reflexivity]. split; [discriminate|]. intro H. inversion H as [|? ? ? ? H1 _]; subst.
           cbn in H1. destruct H1 as [_ Hr]. apply canBeCastedTo'_spec in Hr. congruence.
      * split; [|right; reflexivity]. split; [discriminate|]. intro H. inversion H as [|? ? ? ? H1 _]; subst.
        cbn in H1. destruct H1 as [Hp _]. congruence.
    + destruct (a_ptr info) eqn:Ep; cbn [Bool.eqb negb].
      * split; [|exact IH2]. rewrite IH1. split.
        -- intro H. constructor; [exact Ep|exact H].
        -- intro H. inversion H; subst. assumption.
      * split; [|right; reflexivity]. split; [discriminate|]. intro H. inversion H as [|? ? ? ? Hp _]; subst.
        cbn in Hp. congruence.
    + destruct (a_ptr info) eqn:Ep; cbn [Bool.eqb negb].
      * split; [|right; reflexivity]. split; [discriminate|]. intro H. inversion H as [|? ? ? ? Hp _]; subst.
        cbn in Hp. congruence.
      * split; [|exact IH2]. rewrite IH1. split.
        -- intro H. constructor; [exact Ep|exact H].
        -- intro H. inversion H; subst. assumption.
Qed.

Theorem accepts_iff_compatible : forall sig args,
  setupRun true true true sig args = OK <-> compatible sig args.
Proof.
  intros sig args. unfold setupRun. cbn [andb negb].
  destruct (Nat.eqb (length args) (length sig)) eqn:El; cbn [negb].
  - apply Nat.eqb_eq in El. apply (check_args_spec sig args El).
  - apply Nat.eqb_neq in El. split; [discriminate|]. intro H. apply Forall2_length in H. congruence.
Qed.

Theorem rejects_otherwise : forall sig args,
  setupRun true true true sig args = OK \/ setupRun true true true sig args = ERR.
Proof.
  intros sig args. unfold setupRun. cbn [andb negb].
  destruct (Nat.eqb (length args) (length sig)) eqn:El; cbn [negb]; [|auto].
  apply Nat.eqb_eq in El. apply (check_args_spec sig args El).
Qed.

Lemma compatibleb_spec : forall sig args, compatibleb sig args = true <-> compatible sig args.
Proof.
  unfold compatible. induction sig as [|info sig IH]; intros [|arg args]; cbn [compatibleb].
  - split; [constructor|reflexivity].
  - split; [discriminate|]. intro H. inversion H.
  - split; [discriminate|]. intro H. inversion H.
  - rewrite andb_true_iff, IH. split.
    + intros [H1 H2]. constructor; [|exact H2].
      destruct arg; cbn in *.
      * apply andb_true_iff in H1. destruct H1 as [Hp Hc]. split; [exact Hp|]. apply cast_ruleb_spec. exact Hc.
      * exact H1.
      * apply negb_true_iff. exact H1.
    + intro H. inversion H as [|? ? ? ? H1 H2]; subst. split; [|exact H2].
      destruct arg; cbn in *.
      * destruct H1 as [Hp Hc]. rewrite Hp. cbn. apply cast_ruleb_spec. exact Hc.
      * exact H1.
      * apply negb_true_iff. exact H1.
Qed.

Theorem setupRun_required : forall sig args, setupRun true true true sig args = required sig args.
Proof.
  intros sig args. unfold required.
  destruct (compatibleb sig args) eqn:E.
  - apply accepts_iff_compatible. apply compatibleb_spec. exact E.
  - destruct (rejects_otherwise sig args) as [H|H]; [|exact H].
    apply accepts_iff_compatible in H. apply compatibleb_spec in H. congruence.
Qed.

(* ------------------------------------------------------------------ fresh = cached *)
(* what the cast decision reads of the parameter's dtype *)
Definition cast_same (a' a : argmeta) : Prop :=
  a_ptr a' = a_ptr a /\ flat (a_dtype a') = flat (a_dtype a) /\
  is_byte_obj (a_dtype a') = is_byte_obj (a_dtype a).

Lemma is_byte_copy : forall d, is_ref (self d) = false -> is_byte_obj (copy d) = is_byte_obj d.
Proof. intros d H. unfold is_byte_obj, d_id. rewrite self_copy by exact H. reflexivity. Qed.

Lemma arg_roundtrip_cast : forall a p,
  wf (a_dtype a) -> builtin_leaves (a_dtype a) -> user_prefix p = true ->
  exists a', arg_fromJson repaired p (arg_toJson repaired a) = Some a' /\ cast_same a' a.
Proof.
  intros a p Hwf Hbl Hp.
  destruct (roundtrip_main (a_dtype a) EmptyString p Hwf Hp) as [d' [He (_ & Hf & Hb & Hr)]].
  exists (mkArg (a_const a) (a_ptr a) (copy d') (a_name a)). split.
  - rewrite Proofs.arg_toJson_nf. unfold arg_fromJson.
    change (jget "dtype" (JObj [("const"%string, JBool (a_const a)); ("dtype"%string, toJson repaired (a_dtype a) "");
                                ("name"%string, JStr (a_name a)); ("ptr"%string, JBool (a_ptr a))]))
      with (toJson repaired (a_dtype a) "").
    unfold roundtrip in He. rewrite He. reflexivity.
  - unfold cast_same. cbn [a_ptr a_dtype]. split; [reflexivity|]. split.
    + rewrite flat_copy. apply Hf. exact Hbl.
    + rewrite is_byte_copy by exact Hr. exact Hb.
Qed.

Lemma args_loop_cast : forall args p i,
  user_prefix p = true ->
  Forall (fun a => wf (a_dtype a) /\ builtin_leaves (a_dtype a)) args ->
  exists args', args_loop repaired p i (map (arg_toJson repaired) args) = Some args' /\
                Forall2 cast_same args' args.
Proof.
  induction args as [|a args IH]; intros p i Hp Hall; cbn [map args_loop].
  - exists []. split; [reflexivity|constructor].
  - inversion Hall as [|? ? [Hwf Hbl] Hrest]; subst.
    destruct (arg_roundtrip_cast a (p ++ [i])%list Hwf Hbl (user_prefix_app _ _ Hp)) as [a' [Ha Hs]].
    destruct (IH p (i + 1)%Z Hp Hrest) as [args' [Hl Hf2]].
    exists (a' :: args'). rewrite Ha, Hl. split; [reflexivity|]. constructor; assumption.
Qed.

Lemma check_args_same : forall zg sig' sig args,
  Forall2 cast_same sig' sig -> check_args zg sig' args = check_args zg sig args.
Proof.
  intros zg sig' sig args H. revert args.
  induction H as [|a' a sig' sig [Hp [Hf Hb]] _ IH]; intros args; [reflexivity|].
  destruct args as [|arg args]; [reflexivity|]. cbn [check_args]. rewrite Hp.
  destruct (negb (Bool.eqb _ (a_ptr a))); [reflexivity|].
  destruct arg; try apply IH.
  unfold canBeCastedTo'. rewrite Hf, Hb.
  destruct (if is_byte_obj d || is_byte_obj (a_dtype a) then Some true
            else castv' zg (flat d) (flat (a_dtype a))) as [[|]|]; [apply IH|reflexivity|reflexivity].
Qed.

Theorem fresh_eq_cached : forall tv name sig args,
  Forall (fun a => wf (a_dtype a) /\ builtin_leaves (a_dtype a)) sig ->
  run_cached krepaired tv name sig args = run_fresh krepaired tv sig args.
Proof.
  intros tv name sig args Hall. unfold run_cached, run_fresh, fresh_initialized. cbn [krepaired kv_init kv_zero_guard].
  destruct (args_loop_cast sig [7%Z] 0%Z eq_refl Hall) as [sig' [Hl Hs]].
  unfold k_fromJson, k_toJson. cbn [k_args k_name].
  change (jset "arguments" (JArr (map (arg_toJson repaired) sig)) (jset "name" (JStr name) JNone))
    with (JObj [("arguments"%string, JArr (map (arg_toJson repaired) sig)); ("name"%string, JStr name)]).
  change (j_array (jget "arguments" (JObj [("arguments"%string, JArr (map (arg_toJson repaired) sig));
                                            ("name"%string, JStr name)])))
    with (map (arg_toJson repaired) sig).
  rewrite Hl. cbn [k_args]. unfold setupRun.
  destruct (negb (true && tv)); [reflexivity|].
  rewrite (Forall2_length Hs).
  destruct (negb (Nat.eqb (length args) (length sig))); [reflexivity|].
  apply check_args_same. exact Hs.
Qed.
