(* C10 — Kernel argument validation accepts exactly the compatible argument lists.

   Vocabulary (coq/C10/Model.v, Spec.v; dtypes, flattening and the JSON round trip from coq/C11):
     argmeta                (isConst, isPtr, dtype, name) of one kernel parameter
     karg                   AMem d (occa::memory of dtype d) | ANull | AScalar
     setupRun zg init tv sig args   modeKernel_t::setupRun: zg = isCyclic's zero guard (fixes/C10-3),
                            init = metadata.isInitialized(), tv = the type_validation property
     compatible sig args    the declarative rule of the statement (Spec.v)
     run_fresh / run_cached the decision in the building process / in a process that reads the
                            metadata back from build.json
     krepaired / kpinned    the source with / without fixes/C10-1..3.patch *)
From Coq Require Import String.
From Coq Require Import List ZArith Bool.
From OV.C11 Require Import Model Spec Statements.
From OV.C10 Require Import Model Spec Proofs.
Import ListNotations.
Local Open Scope Z_scope.
Local Open Scope string_scope.

(* The run-time check accepts an argument list iff it is compatible; it never crashes and every
   other list is rejected (all signatures, all argument lists, any dtypes). *)
Theorem accepts_iff_compatible : forall (sig : list argmeta) (args : list karg),
  setupRun true true true sig args = OK <-> compatible sig args.
Proof. exact Proofs.accepts_iff_compatible. Qed.
Print Assumptions accepts_iff_compatible.

Theorem rejects_otherwise : forall (sig : list argmeta) (args : list karg),
  setupRun true true true sig args = OK \/ setupRun true true true sig args = ERR.
Proof. exact Proofs.rejects_otherwise. Qed.
Print Assumptions rejects_otherwise.

(* the cast decision is the declarative rule: byte on either side, equal flattened lists, or one
   a whole number >= 1 of repetitions of the other *)
Theorem cast_iff_rule : forall (from to : dtype),
  canBeCastedTo' true from to = Some true <-> cast_rule from to.
Proof. exact Proofs.canBeCastedTo'_spec. Qed.
Print Assumptions cast_iff_rule.

(* the oracle used by the check computes exactly what setupRun decides *)
Theorem setupRun_is_required : forall (sig : list argmeta) (args : list karg),
  setupRun true true true sig args = required sig args.
Proof. exact Proofs.setupRun_required. Qed.
Print Assumptions setupRun_is_required.

(* Fresh = cached.  Full statement: for every signature.  Proved for signatures whose dtypes are
   well formed and flatten to builtins — every dtype vartype_t::dtype() builds from OKL primitive /
   vector types, typedefs, arrays and structs of these is of this form (what is excluded is a
   parameter whose type is unknown to getBuiltin, e.g. size_t or an enum: its dtype is
   dtype::none / an enum object, compared by address; C11's finding registered_identity). *)
Theorem fresh_eq_cached_partial : forall (tv : bool) (name : string) (sig : list argmeta) (args : list karg),
  Forall (fun a => wf (a_dtype a) /\ builtin_leaves (a_dtype a)) sig ->
  run_cached krepaired tv name sig args = run_fresh krepaired tv sig args.
Proof. exact Proofs.fresh_eq_cached. Qed.
Print Assumptions fresh_eq_cached_partial.

(* ---- witnesses ---- *)
(* pinned source: a kernel without parameters had uninitialized metadata when freshly built, so
   any argument list ran; loaded from the cache the same call throws *)
Theorem pinned_zero_arg_refuted :
  run_fresh kpinned true [] [AScalar] = OK /\ run_cached kpinned true "k" [] [AScalar] = ERR /\
  ~ compatible [] [AScalar].
Proof. split; [reflexivity|]. split; [vm_compute; reflexivity|]. intro H. inversion H. Qed.

Example repaired_zero_arg :
  run_fresh krepaired true [] [AScalar] = ERR /\ run_cached krepaired true "k" [] [AScalar] = ERR.
Proof. split; vm_compute; reflexivity. Qed.

(* pinned source: `float x[0]` flattens to nothing and isCyclic divides by zero *)
Definition p_float0 : param := mkParam (TPrim "float" 0) false 0 [Some 0] "x".
Theorem pinned_empty_dtype_refuted :
  exists sig, params_meta kpinned [p_float0] = Some sig /\
              run_fresh kpinned true sig [AMem g_float] = CRASH.
Proof. eexists. split; vm_compute; reflexivity. Qed.

Example repaired_empty_dtype :
  exists sig, params_meta krepaired [p_float0] = Some sig /\
              run_fresh krepaired true sig [AMem g_float] = ERR /\
              run_fresh krepaired true sig [AMem g_byte] = OK.
Proof. eexists. split; [vm_compute; reflexivity|]. split; vm_compute; reflexivity. Qed.

(* pinned source: `float x[]` dereferences the missing size expression while the kernel is parsed *)
Definition p_unsized : param := mkParam (TPrim "float" 0) false 0 [None] "x".
Theorem pinned_unsized_array_refuted : params_meta kpinned [p_unsized] = None.
Proof. reflexivity. Qed.

Example repaired_unsized_array :
  exists sig, params_meta krepaired [p_unsized] = Some sig /\
              run_fresh krepaired true sig [AMem g_float] = OK /\
              run_fresh krepaired true sig [AMem g_int] = ERR /\
              run_fresh krepaired true sig [AScalar] = ERR.
Proof. eexists. split; [vm_compute; reflexivity|]. repeat split; vm_compute; reflexivity. Qed.

(* non-vacuity: (const float2 *a, long b[2][3], vec3 *c, int n) with typedef struct {float x,y,z;} vec3 *)
Definition sample_params : list param :=
  [mkParam (TPrim "float2" 0) true 1 [] "a";
   mkParam (TPrim "int" 1) false 0 [Some 2; Some 3] "b";
   mkParam (TTypedef (TStruct [("x", (TPrim "float" 0, [])); ("y", (TPrim "float" 0, []));
                               ("z", (TPrim "float" 0, []))]) 0 []) false 1 [] "c";
   mkParam (TPrim "int" 0) true 0 [] "n"].

Example sample_signature :
  exists sig, params_meta krepaired sample_params = Some sig /\
    map a_ptr sig = [true; true; true; false] /\
    map (fun a => length (flat (a_dtype a))) sig = [2; 6; 3; 1]%nat /\
    (* float memory for a and c, long memory for b, a scalar for n *)
    run_fresh krepaired true sig [AMem g_float; AMem g_long; AMem g_float; AScalar] = OK /\
    run_cached krepaired true "k" sig [AMem g_float; AMem g_long; AMem g_float; AScalar] = OK /\
    (* int memory for the long array *)
    run_fresh krepaired true sig [AMem g_float; AMem g_int; AMem g_float; AScalar] = ERR /\
    (* float3 memory for float2 *a: 3 is not a multiple of 2 *)
    run_fresh krepaired true sig [AMem (getBuiltin "float3"); AMem g_long; AMem g_float; AScalar] = ERR /\
    run_fresh krepaired true sig [AMem g_float; AMem g_long; AMem g_float] = ERR.
Proof. eexists. split; [vm_compute; reflexivity|]. repeat split; vm_compute; reflexivity. Qed.

(* the case split of canBeCastedTo / isCyclic (the cases of the proof of cast_iff_rule), on concrete
   dtypes; props/C10.py generates every one of these classes (coverage: cast_case_split) *)
Definition st (fs : list dtype) : dtype :=
  DStruct (mkH [] "" 0 false)
    (map (fun d => (EmptyString, DRef d)) fs).
Example cast_case_split :
  let f := g_float in let i := g_int in let d := g_double in
  (* shorter = one block, longer = its repetitions *)
  canBeCastedTo' true (st [f; i]) (st [f; i; f; i]) = Some true /\
  canBeCastedTo' true (st [f; i; f; i; f; i]) (st [f; i]) = Some true /\
  (* a later cycle differs after its first entry / at its first entry *)
  canBeCastedTo' true (st [f; i]) (st [f; i; f; d]) = Some false /\
  canBeCastedTo' true (st [f; i; f; d]) (st [f; i]) = Some false /\
  canBeCastedTo' true (st [f; i]) (st [f; i; d; i]) = Some false /\
  (* the longer list is periodic but does not start with the shorter one *)
  canBeCastedTo' true (st [f; d]) (st [f; i; f; i]) = Some false /\
  (* lengths that do not divide, equal lengths, an empty list, byte *)
  canBeCastedTo' true (st [f; i]) (st [f; i; f]) = Some false /\
  canBeCastedTo' true (st [f; i; d]) (st [f; i; d]) = Some true /\
  canBeCastedTo' true (st [f; i; d]) (st [f; i; i]) = Some false /\
  canBeCastedTo' true (st []) (st [f]) = Some false /\
  canBeCastedTo' false (st []) (st [f]) = None /\
  canBeCastedTo' true g_byte (st [f; i; f; d]) = Some true.
Proof. repeat split; vm_compute; reflexivity. Qed.
