(* C10 — the cast rule: what dtype_t::isCyclic + the comparison loop of canBeCastedTo decide on
   the flattened element lists (coq/C11/Model.v: isCyclic, prefix_eq, castv), characterised
   declaratively: equal lists, or one list is k >= 1 repetitions of the other. *)
From Coq Require Import List ZArith Bool Arith Lia.
From OV.C11 Require Import Model Spec Globals.
Import ListNotations.

Lemma forallb_seq : forall (f : nat -> bool) a n,
  forallb f (seq a n) = true <-> (forall i, a <= i < a + n -> f i = true).
Proof.
  intros f a n. rewrite forallb_forall. split; intros H i Hi.
  - apply H. apply in_seq. exact Hi.
  - apply H. apply in_seq. exact Hi.
Qed.

Lemma length_concat_repeat : forall (A : Type) (blk : list A) c,
  length (concat (repeat blk c)) = c * length blk.
Proof.
  intros A blk c. induction c as [|c IH]; cbn; [reflexivity|]. rewrite app_length, IH. reflexivity.
Qed.

Lemma nth_concat_repeat : forall (A : Type) (d : A) (blk : list A) c k,
  blk <> [] -> k < c * length blk ->
  nth k (concat (repeat blk c)) d = nth (k mod length blk) blk d.
Proof.
  intros A d blk c. induction c as [|c IH]; intros k Hne Hk; [lia|].
  assert (Hn : length blk <> 0) by (destruct blk; cbn; [congruence|lia]).
  cbn [repeat concat]. destruct (Nat.lt_ge_cases k (length blk)) as [Hlt|Hge].
  - rewrite app_nth1 by exact Hlt. rewrite Nat.mod_small by exact Hlt. reflexivity.
  - rewrite app_nth2 by exact Hge. rewrite IH; [|exact Hne|cbn in Hk; lia].
    f_equal. replace k with ((k - length blk) + 1 * length blk) at 2 by lia.
    rewrite Nat.mod_add by exact Hn. reflexivity.
Qed.

Lemma nth_id_eqb : forall i a b, ident_eqb (nth_id i a) (nth_id i b) = true <-> nth i a [] = nth i b [].
Proof. intros. unfold nth_id. apply ident_eqb_eq. Qed.

Lemma prefix_eq_iff : forall n a b,
  prefix_eq n a b = true <-> (forall i, i < n -> nth i a [] = nth i b []).
Proof.
  intros n a b. unfold prefix_eq. rewrite forallb_seq. split; intros H i Hi.
  - apply nth_id_eqb. apply H. lia.
  - apply nth_id_eqb. apply H. lia.
Qed.

Lemma prefix_eq_sym : forall n a b, prefix_eq n a b = prefix_eq n b a.
Proof.
  intros n a b. destruct (prefix_eq n a b) eqn:E1; destruct (prefix_eq n b a) eqn:E2; auto.
  - rewrite prefix_eq_iff in E1. assert (prefix_eq n b a = true) by (apply prefix_eq_iff; intros; symmetry; auto). congruence.
  - rewrite prefix_eq_iff in E2. assert (prefix_eq n a b = true) by (apply prefix_eq_iff; intros; symmetry; auto). congruence.
Qed.

Lemma prefix_eq_full : forall a b, length a = length b -> (prefix_eq (length a) a b = true <-> a = b).
Proof.
  intros a b Hl. rewrite prefix_eq_iff. split; intro H.
  - apply (nth_ext a b [] []); [exact Hl|exact H].
  - intros; subst; reflexivity.
Qed.

(* isCyclic for a positive cycle length *)
Lemma isCyclic_pos : forall vec n, n <> 0 ->
  exists c, isCyclic vec n = Some c /\
    (c = true <->
     (length vec mod n = 0 /\
      forall i k, i < n -> 1 <= k < length vec / n -> nth i vec [] = nth (i + k * n) vec [])).
Proof.
  intros vec n Hn. unfold isCyclic. destruct n as [|n']; [congruence|]. set (n := S n') in *.
  destruct (Nat.eqb (length vec mod n) 0) eqn:Em; cbn [negb].
  - apply Nat.eqb_eq in Em. eexists. split; [reflexivity|].
    rewrite forallb_seq. split.
    + intro H. split; [exact Em|]. intros i k Hi Hk.
      specialize (H i ltac:(lia)). rewrite forallb_seq in H.
      apply ident_eqb_eq. apply (H k). lia.
    + intros [_ H] i Hi. rewrite forallb_seq. intros k Hk. apply ident_eqb_eq. apply H; lia.
  - apply Nat.eqb_neq in Em. exists false. split; [reflexivity|]. split; [discriminate|]. intros [H _]. contradiction.
Qed.

(* the longer list is cyclic with the shorter one's length and starts with it
   <-> it is k >= 1 repetitions of it *)
Lemma cyc_prefix_iff : forall (a b : list ident), a <> [] -> length a <= length b ->
  ((exists c, isCyclic b (length a) = Some c /\ c = true) /\ prefix_eq (length a) a b = true)
  <-> (exists k, 1 <= k /\ b = concat (repeat a k)).
Proof.
  intros a b Hne Hle. set (n := length a) in *.
  assert (Hn : n <> 0) by (subst n; destruct a; cbn; [congruence|lia]).
  destruct (isCyclic_pos b n Hn) as [c [Hc Hiff]]. split.
  - intros [[c' [Hc' Ht]] Hp]. rewrite Hc in Hc'. inversion Hc'; subst c'. subst c.
    destruct Hiff as [Hiff _]. destruct (Hiff eq_refl) as [Hmod Hcyc].
    rewrite prefix_eq_iff in Hp.
    assert (Hlen : length b = (length b / n) * n).
    { pose proof (Nat.div_mod (length b) n Hn). lia. }
    assert (Hk : 1 <= length b / n) by nia.
    exists (length b / n). split; [exact Hk|].
    apply (nth_ext b (concat (repeat a (length b / n))) [] []).
    + rewrite length_concat_repeat. fold n. exact Hlen.
    + intros j Hj. rewrite nth_concat_repeat by (auto; fold n; lia). fold n.
      pose proof (Nat.div_mod j n Hn) as Hdm. pose proof (Nat.mod_upper_bound j n Hn) as Hub.
      rewrite (Hp (j mod n) Hub).
      destruct (Nat.eq_dec (j / n) 0) as [Hq|Hq].
      * f_equal. rewrite Hq in Hdm. lia.
      * rewrite (Hcyc (j mod n) (j / n) Hub).
        -- f_equal. lia.
        -- split; [lia|]. apply Nat.div_lt_upper_bound; [exact Hn|]. lia.
  - intros [k [Hk Hb]]. subst b.
    assert (Hlen : length (concat (repeat a k)) = k * n) by apply length_concat_repeat.
    split.
    + exists c. split; [exact Hc|]. apply Hiff. rewrite Hlen. split.
      * apply Nat.mod_mul. exact Hn.
      * rewrite Nat.div_mul by exact Hn. intros i c' Hi Hc'.
        rewrite !nth_concat_repeat; auto; fold n; try nia.
        rewrite Nat.mod_add by exact Hn. reflexivity.
    + apply prefix_eq_iff. intros i Hi. rewrite nth_concat_repeat; auto; fold n; try nia.
      rewrite Nat.mod_small by exact Hi. reflexivity.
Qed.
