(* Extraction of the executable model and oracle (ExtrOcamlBasic + ExtrOcamlString as in C11: Coq
   `string` becomes `char list`).  coqc runs from /verif/coq. *)
From Coq Require Import Extraction ExtrOcamlBasic ExtrOcamlString.
From OV.C11 Require Import Model.
From OV.C10 Require Import Model Spec.
Extraction Language OCaml.
Extraction "../_work/extract/C10/model.ml"
  krepaired kpinned params_meta run_fresh run_cached required getBuiltin g_none g_memory
  mk_leaf add_field tuple_of copy relabel repaired k_toJson dump.
