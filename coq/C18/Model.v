(* C18 — executable model of the three statements attributes::tile builds
   (src/occa/internal/lang/builtins/attributes/tile.cpp):
     :172-226 setupBlockForStatement   block loop   for (xT = INIT; xT cmp BOUND; xT +-= BLOCKSTEP)
                                       BLOCKSTEP = TILE for ++/--,  ((TILE) * (INC)) for += / -=
     :228-298 setupInnerForStatement   inner loop   for (x = xT; x cmp' (xT +- ...); original update)
                                       cmp' = the strict form of cmp
     :300-337 setupCheckStatement      if (x cmp BOUND)   unless check=false
   The trees are the ones the code builds; every operand is re-read from its printed text
   (Expr.reread) before it is given a value, as in C17.

   One place of the pinned source differs from the code modelled as current (fixes/C18-1.patch):
     tv_inner_covers_block   the inner bound is  xT +- (BLOCKSTEP)  — what the block loop advances by,
                             in parentheses — instead of  xT +- TILE  (step ignored, TILE not
                             parenthesised)
   Exposed for C23: [block_header], [inner_header], [tiled_values] take the loop header and the tile
   size as expression trees, so INC can be any expression.
   No proofs in this file. *)
From Coq Require Import List ZArith Bool Lia.
From OV.C17 Require Import Expr Loop.
Import ListNotations.
Local Open Scope Z_scope.

Record tvariant : Type := mkTVariant { tv_inner_covers_block : bool }.
Definition t_fixed : tvariant := mkTVariant true.
Definition t_pinned : tvariant := mkTVariant false.
Definition t_current : tvariant := t_fixed.

(* the identifier _occa_tiled_<it>: not a program variable *)
Definition xT_id : Z := -100.

Definition block_step (h : header) (T : expr) : expr :=
  match update_value (h_upd h) with
  | None => T
  | Some inc => wrap (Bin Mul (wrap T) (wrap inc))
  end.

Definition block_header (h : header) (T : expr) : header :=
  mkHeader (h_init h) (h_cmp h) (h_left h) (h_bound h)
           (if positive_update (h_upd h) then UAdd (block_step h T) else USub (block_step h T)).

Definition inner_bound (v : tvariant) (h : header) (T : expr) : expr :=
  let size := if tv_inner_covers_block v then wrap (block_step h T) else T in
  wrap (Bin (if positive_update (h_upd h) then Add else Sub) (Var xT_id) size).

Definition strict (c : cmp) : cmp :=
  match c with CLe => CLt | CGe => CGt | _ => c end.

Definition inner_header (v : tvariant) (h : header) (T : expr) : header :=
  mkHeader (Var xT_id) (strict (h_cmp h)) (h_left h) (inner_bound v h T) (h_upd h).

(* a header as the compiler of the emitted text sees it *)
Definition reread_upd (u : upd) : option upd :=
  match u with
  | UAdd s => match reread s with Some s' => Some (UAdd s') | None => None end
  | USub s => match reread s with Some s' => Some (USub s') | None => None end
  | _ => Some u
  end.

Definition reread_header (h : header) : option header :=
  match reread (h_init h), reread (h_bound h), reread_upd (h_upd h) with
  | Some i, Some b, Some u => Some (mkHeader i (h_cmp h) (h_left h) b u)
  | _, _, _ => None
  end.

Fixpoint collect {A : Type} (l : list (option (list A))) : option (list A) :=
  match l with
  | [] => Some []
  | Some x :: t => match collect t with Some r => Some (x ++ r) | None => None end
  | None :: _ => None
  end.

(* iterator values for which the body of the tiled loops runs, in execution order *)
Definition tiled_values (v : tvariant) (rho : env) (h : header) (T : expr) (check : bool)
  : option (list Z) :=
  match reread_header (block_header h T), reread_header (inner_header v h T), reread (h_bound h) with
  | Some bh, Some ih, Some cb =>
      match seq_values rho bh with
      | Some blocks =>
          collect (map (fun xb =>
                          let rho' := upd_env rho xT_id xb in
                          match seq_values rho' ih with
                          | Some xs =>
                              Some (if check
                                    then filter (fun x => test (h_cmp h) (h_left h) x (eval rho' cb)) xs
                                    else xs)
                          | None => None
                          end) blocks)
      | None => None
      end
  | _, _, _ => None
  end.

Definition wf_tile (h : header) (T : expr) : bool := wf_header h && wf_operand T.
