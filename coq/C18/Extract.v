(* Extraction of the executable model and specification (ExtrOcamlBasic only).  The C17 model functions
   are extracted as well: with @tile(T, @outer, @inner) the tiled loops are OKL loops that the launcher
   back ends treat as C17 describes. *)
From Coq Require Import Extraction ExtrOcamlBasic.
From OV.C17 Require Import Expr Loop Model Spec.
From OV.C18 Require Import Model Spec.
Extraction Language OCaml.
Extraction "../_work/extract/C18/model.ml"
  parse print safe wrap eval evalc upd_env eprec
  wf_header direction_ok step_val update_value seq_values
  OV.C17.Model.current OV.C17.Model.accepted count_tree value_tree magic_of axis_of
  t_current t_fixed t_pinned xT_id block_step block_header inner_header inner_bound strict
  tiled_values wf_tile
  OV.C18.Spec.spec_values spec_count OV.C17.Spec.spec_may_reject.
