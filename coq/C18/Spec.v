(* C18 — reference semantics: the iterator values of the original (untiled) sequential loop, in order
   (Loop.seq_values), and the number of its iterations. *)
From Coq Require Import List ZArith Bool.
From OV.C17 Require Import Expr Loop.
Import ListNotations.
Local Open Scope Z_scope.

Definition spec_values (rho : env) (h : header) : option (list Z) := seq_values rho h.

Definition spec_count (rho : env) (h : header) : option Z :=
  match seq_values rho h with Some l => Some (Z.of_nat (length l)) | None => None end.
