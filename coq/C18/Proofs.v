(* C18 — proofs.  The arithmetic core ([tiles_cover], [tiles_exact]) is stated over progressions and
   natural block counts so that C23 can reuse it; [tile_covers] / [tile_nocheck] instantiate it with
   the values of the three statements tile.cpp builds. *)
From Coq Require Import List ZArith Bool Lia Arith.
From OV.C17 Require Import Expr ExprProofs Loop LoopProofs.
From OV.C18 Require Import Model Spec.
Import ListNotations.
Local Open Scope Z_scope.

(* ---- lists ---- *)
Lemma map_add_seq : forall n a b, map (fun m => (a + m)%nat) (seq b n) = seq (a + b) n.
Proof.
  induction n; intros a b; cbn [seq map]; [reflexivity|].
  f_equal. rewrite IHn. f_equal. lia.
Qed.

Lemma seq_blocks : forall (t nb : nat),
  flat_map (fun j => map (fun m => (j * t + m)%nat) (seq 0 t)) (seq 0 nb) = seq 0 (nb * t).
Proof.
  intros t nb. induction nb as [|nb IH]; [reflexivity|].
  rewrite seq_S, flat_map_app, IH. cbn [flat_map]. rewrite app_nil_r.
  rewrite map_add_seq. cbn [plus].
  replace (S nb * t)%nat with (nb * t + t)%nat by lia.
  rewrite seq_app. f_equal. f_equal. lia.
Qed.

Lemma filter_all : forall (A : Type) (P : A -> bool) l,
  (forall x, In x l -> P x = true) -> filter P l = l.
Proof.
  intros A P l. induction l as [|a t IH]; intros H; [reflexivity|].
  cbn [filter]. rewrite (H a (or_introl eq_refl)), IH; [reflexivity|].
  intros; apply H; right; assumption.
Qed.

Lemma filter_none : forall (A : Type) (P : A -> bool) l,
  (forall x, In x l -> P x = false) -> filter P l = [].
Proof.
  intros A P l. induction l as [|a t IH]; intros H; [reflexivity|].
  cbn [filter]. rewrite (H a (or_introl eq_refl)), IH; [reflexivity|].
  intros; apply H; right; assumption.
Qed.

Lemma filter_seq_lt : forall (N n : nat), (n <= N)%nat ->
  filter (fun q => (q <? n)%nat) (seq 0 N) = seq 0 n.
Proof.
  intros N n H. replace N with (n + (N - n))%nat by lia.
  rewrite seq_app, filter_app, filter_all, filter_none.
  - apply app_nil_r.
  - intros x Hx. apply in_seq in Hx. apply Nat.ltb_ge. lia.
  - intros x Hx. apply in_seq in Hx. apply Nat.ltb_lt. lia.
Qed.

Lemma filter_map_comm : forall (A B : Type) (f : A -> B) (P : B -> bool) l,
  filter P (map f l) = map f (filter (fun x => P (f x)) l).
Proof.
  intros A B f P l. induction l as [|a t IH]; [reflexivity|].
  cbn [map filter]. destruct (P (f a)); cbn [map]; rewrite IH; reflexivity.
Qed.

Lemma flat_map_map_out : forall (A B C : Type) (f : B -> C) (g : A -> list B) l,
  flat_map (fun j => map f (g j)) l = map f (flat_map g l).
Proof.
  intros A B C f g l. induction l as [|a t IH]; [reflexivity|].
  cbn [flat_map]. rewrite map_app, IH. reflexivity.
Qed.

Lemma flat_map_filter_out : forall (A B : Type) (P : B -> bool) (g : A -> list B) l,
  flat_map (fun j => filter P (g j)) l = filter P (flat_map g l).
Proof.
  intros A B P g l. induction l as [|a t IH]; [reflexivity|].
  cbn [flat_map]. rewrite filter_app, IH. reflexivity.
Qed.

Lemma filter_ext_in : forall (A : Type) (P Q : A -> bool) l,
  (forall x, In x l -> P x = Q x) -> filter P l = filter Q l.
Proof.
  intros A P Q l. induction l as [|a t IH]; intros H; [reflexivity|].
  cbn [filter]. rewrite (H a (or_introl eq_refl)), IH; [reflexivity|].
  intros; apply H; right; assumption.
Qed.

(* ---- arithmetic core ---- *)
Lemma block_progression : forall i0 d (t j : nat),
  progression (i0 + Z.of_nat j * (Z.of_nat t * d)) d t =
  map (fun q => i0 + Z.of_nat q * d) (map (fun m => (j * t + m)%nat) (seq 0 t)).
Proof.
  intros. unfold progression. rewrite map_map. apply map_ext. intros m. nia.
Qed.

(* nb blocks of t consecutive elements, filtered by a test that holds exactly for the first n
   elements of the progression, give those n elements in order *)
Theorem tiles_cover : forall i0 d (t nb n : nat) (P : Z -> bool),
  (n <= nb * t)%nat ->
  (forall q : nat, P (i0 + Z.of_nat q * d) = (q <? n)%nat) ->
  flat_map (fun j => filter P (progression (i0 + Z.of_nat j * (Z.of_nat t * d)) d t)) (seq 0 nb)
  = progression i0 d n.
Proof.
  intros i0 d t nb n P Hn HP.
  rewrite (flat_map_ext _ (fun j => map (fun q => i0 + Z.of_nat q * d)
                                        (filter (fun q => (q <? n)%nat)
                                                (map (fun m => (j * t + m)%nat) (seq 0 t))))).
  2: { intros j. rewrite block_progression, filter_map_comm. f_equal.
       apply filter_ext_in. intros q _. apply HP. }
  rewrite (flat_map_map_out _ _ _ (fun q => i0 + Z.of_nat q * d)
             (fun j => filter (fun q => (q <? n)%nat) (map (fun m => (j * t + m)%nat) (seq 0 t)))).
  rewrite (flat_map_filter_out _ _ (fun q => (q <? n)%nat)
             (fun j => map (fun m => (j * t + m)%nat) (seq 0 t))).
  rewrite seq_blocks, filter_seq_lt by exact Hn. reflexivity.
Qed.

(* without the test the blocks give nb * t elements *)
Theorem tiles_exact : forall i0 d (t nb : nat),
  flat_map (fun j => progression (i0 + Z.of_nat j * (Z.of_nat t * d)) d t) (seq 0 nb)
  = progression i0 d (nb * t).
Proof.
  intros i0 d t nb.
  rewrite (flat_map_ext _ (fun j => map (fun q => i0 + Z.of_nat q * d)
                                        (map (fun m => (j * t + m)%nat) (seq 0 t)))).
  2: { intros j. apply block_progression. }
  rewrite (flat_map_map_out _ _ _ (fun q => i0 + Z.of_nat q * d)
             (fun j => map (fun m => (j * t + m)%nat) (seq 0 t))).
  rewrite seq_blocks. reflexivity.
Qed.

(* counts: ceil(D / (t s)) blocks of t cover ceil(D / s) elements *)
Lemma count_blocks_cover : forall D s t, 0 < s -> 0 < t ->
  (Z.to_nat (cdiv_count D s) <= Z.to_nat (cdiv_count D (t * s)) * Z.to_nat t)%nat.
Proof.
  intros D s t Hs Ht.
  set (n := Z.to_nat (cdiv_count D s)). set (nb := Z.to_nat (cdiv_count D (t * s))).
  destruct (le_lt_dec n (nb * Z.to_nat t)) as [H|H]; [exact H|exfalso].
  assert (H1 : Z.of_nat nb * t < cdiv_count D s) by (unfold n in H; nia).
  apply (cdiv_count_spec D s (Z.of_nat nb * t) Hs ltac:(nia)) in H1.
  assert (H2 : Z.of_nat nb < cdiv_count D (t * s)).
  { apply (cdiv_count_spec D (t * s) (Z.of_nat nb) ltac:(nia) ltac:(lia)). nia. }
  unfold nb in H2. lia.
Qed.

Lemma count_blocks_exact : forall D s t, 0 < s -> 0 < t ->
  (Z.of_nat (Z.to_nat (cdiv_count D s)) mod t = 0) ->
  (Z.to_nat (cdiv_count D (t * s)) * Z.to_nat t)%nat = Z.to_nat (cdiv_count D s).
Proof.
  intros D s t Hs Ht Hmod.
  pose proof (count_blocks_cover D s t Hs Ht) as Hle.
  set (n := Z.to_nat (cdiv_count D s)) in *. set (nb := Z.to_nat (cdiv_count D (t * s))) in *.
  apply Nat.le_antisymm; [|exact Hle].
  destruct nb as [|k] eqn:Enb; [lia|].
  (* the last block starts inside the range *)
  assert (H2 : Z.of_nat k < cdiv_count D (t * s)) by (unfold nb in Enb; lia).
  apply (cdiv_count_spec D (t * s) (Z.of_nat k) ltac:(nia) ltac:(lia)) in H2.
  assert (H3 : Z.of_nat k * t < cdiv_count D s).
  { apply (cdiv_count_spec D s (Z.of_nat k * t) Hs ltac:(nia)). nia. }
  apply Z.mod_divide in Hmod; [|lia]. destruct Hmod as [m Hm].
  assert (Z.of_nat k * t < Z.of_nat n) by (unfold n; lia).
  assert (Z.of_nat k < m) by nia.
  assert (Z.of_nat (S k) * t <= Z.of_nat n) by nia.
  nia.
Qed.

Lemma cdiv_count_block : forall t s, 0 < s -> 0 <= t -> cdiv_count (t * s) s = t.
Proof.
  intros t s Hs Ht. unfold cdiv_count. rewrite Z.quot_div_nonneg by nia.
  replace (t * s + s - 1) with (s - 1 + t * s) by lia.
  rewrite Z.div_add by lia. rewrite Z.div_small by lia. lia.
Qed.

(* ---- the loop test along the progression ---- *)
Lemma test_progression : forall h i0 b s k,
  direction_ok h = true ->
  test (h_cmp h) (h_left h) (i0 + k * (dir (h_upd h) * s)) b =
  (k * s <? distance (h_cmp h) (h_upd h) i0 b).
Proof.
  intros h i0 b s k Hd. rewrite test_dir by exact Hd. unfold distance, dir.
  destruct (positive_update (h_upd h)); destruct (inclusive (h_cmp h));
    match goal with |- (?x <=? 0) = (?y <? ?z) =>
      destruct (Z.leb_spec x 0); destruct (Z.ltb_spec y z) end;
    try reflexivity; lia.
Qed.

(* ---- well-formedness plumbing ---- *)
Lemma wf_operand_safe : forall e, wf_operand e = true -> safe e = true.
Proof. unfold wf_operand. intros e H. apply andb_prop in H. tauto. Qed.

Lemma wf_operand_fresh : forall e m, wf_operand e = true -> m < 0 -> ~ In m (vars e).
Proof.
  unfold wf_operand, closed_under. intros e m H Hm Hin. apply andb_prop in H as [_ H].
  rewrite forallb_forall in H. specialize (H m Hin). unfold user_var in H.
  apply Z.leb_le in H. lia.
Qed.

Lemma eval_fresh : forall rho x e, wf_operand e = true ->
  eval (upd_env rho xT_id x) e = eval rho e.
Proof.
  intros. apply eval_upd_fresh. apply wf_operand_fresh; [assumption|unfold xT_id; lia].
Qed.

Lemma wf_tile_parts : forall h T, wf_tile h T = true ->
  wf_operand (h_init h) = true /\ wf_operand (h_bound h) = true /\
  (forall s, update_value (h_upd h) = Some s -> wf_operand s = true) /\ wf_operand T = true.
Proof.
  unfold wf_tile, wf_header. intros h T H. apply andb_prop in H as [H HT].
  apply andb_prop in H as [H Hs]. apply andb_prop in H as [Hi Hb].
  repeat split; try assumption. intros s E. rewrite E in Hs. exact Hs.
Qed.

Lemma safe_block_step : forall h T, wf_tile h T = true -> safe (block_step h T) = true.
Proof.
  intros h T H. destruct (wf_tile_parts h T H) as [_ [_ [Hs HT]]].
  apply wf_operand_safe in HT. unfold block_step.
  destruct (update_value (h_upd h)) as [inc|] eqn:E; [|exact HT].
  specialize (Hs inc eq_refl). apply wf_operand_safe in Hs.
  cbn [wrap safe eprec bprec]. rewrite !safe_wrap, !eprec_wrap, HT, Hs. reflexivity.
Qed.

Lemma eval_block_step : forall rho h T,
  eval rho (block_step h T) = eval rho T * step_val rho (h_upd h).
Proof.
  intros rho h T. unfold block_step, step_val.
  destruct (update_value (h_upd h)) as [inc|]; [|lia].
  cbn [wrap eval bin_sem]. rewrite !eval_wrap. reflexivity.
Qed.

Lemma eval_block_step_fresh : forall rho x h T, wf_tile h T = true ->
  eval (upd_env rho xT_id x) (block_step h T) = eval rho (block_step h T).
Proof.
  intros rho x h T H. destruct (wf_tile_parts h T H) as [_ [_ [Hs HT]]].
  unfold block_step. destruct (update_value (h_upd h)) as [inc|] eqn:E.
  - specialize (Hs inc eq_refl). cbn [wrap eval bin_sem]. rewrite !eval_wrap.
    rewrite !eval_fresh by assumption. reflexivity.
  - apply eval_fresh. exact HT.
Qed.

Lemma reread_upd_safe : forall u,
  match update_value u with Some s => safe s = true | None => True end -> reread_upd u = Some u.
Proof.
  intros u H. destruct u as [| |s|s]; cbn [reread_upd update_value] in *; try reflexivity;
    rewrite reread_safe by exact H; reflexivity.
Qed.

Lemma reread_block_header : forall h T, wf_tile h T = true ->
  reread_header (block_header h T) = Some (block_header h T).
Proof.
  intros h T H. destruct (wf_tile_parts h T H) as [Hi [Hb _]].
  pose proof (safe_block_step h T H) as Sb.
  unfold reread_header, block_header. cbn [h_init h_bound h_upd h_cmp h_left].
  rewrite (reread_safe _ (wf_operand_safe _ Hi)), (reread_safe _ (wf_operand_safe _ Hb)).
  rewrite reread_upd_safe; [reflexivity|].
  destruct (positive_update (h_upd h)); cbn [update_value]; exact Sb.
Qed.

Lemma reread_inner_header : forall h T, wf_tile h T = true ->
  reread_header (inner_header t_fixed h T) = Some (inner_header t_fixed h T).
Proof.
  intros h T H. destruct (wf_tile_parts h T H) as [_ [_ [Hs _]]].
  pose proof (safe_block_step h T H) as Sb.
  unfold reread_header, inner_header, inner_bound.
  cbn [h_init h_bound h_upd h_cmp h_left tv_inner_covers_block t_fixed].
  assert (S1 : safe (wrap (Bin (if positive_update (h_upd h) then Add else Sub) (Var xT_id)
                                (wrap (block_step h T)))) = true).
  { destruct (positive_update (h_upd h)); cbn [wrap safe eprec bprec];
      rewrite safe_wrap, eprec_wrap, Sb; reflexivity. }
  rewrite (reread_safe (Var xT_id) eq_refl), (reread_safe _ S1).
  rewrite reread_upd_safe; [reflexivity|].
  destruct (update_value (h_upd h)) as [s|] eqn:E; [|exact I].
  apply wf_operand_safe. apply Hs. reflexivity.
Qed.

Lemma collect_map_some : forall (A B : Type) (g : A -> option (list B)) (f : A -> list B) l,
  (forall x, In x l -> g x = Some (f x)) -> collect (map g l) = Some (flat_map f l).
Proof.
  intros A B g f l. induction l as [|a t IH]; intros H; [reflexivity|].
  cbn [map collect flat_map]. rewrite (H a (or_introl eq_refl)).
  rewrite IH by (intros; apply H; right; assumption). reflexivity.
Qed.

Lemma flat_map_progression : forall (F : Z -> list Z) i0 D n,
  flat_map F (progression i0 D n) = flat_map (fun j => F (i0 + Z.of_nat j * D)) (seq 0 n).
Proof.
  intros F i0 D n. unfold progression. generalize (seq 0 n). intros l.
  induction l as [|a t IH]; [reflexivity|]. cbn [map flat_map]. rewrite IH. reflexivity.
Qed.

Lemma in_progression : forall x i0 d n, In x (progression i0 d n) ->
  exists j, (j < n)%nat /\ x = i0 + Z.of_nat j * d.
Proof.
  unfold progression. intros x i0 d n H. apply in_map_iff in H. destruct H as [j [E Hj]].
  apply in_seq in Hj. exists j. split; [lia|congruence].
Qed.

(* ---- the tiled loops, described as blocks of a progression ---- *)
Section Tiled.
  Variables (rho : env) (h : header) (T : expr).
  Hypothesis Hwf : wf_tile h T = true.
  Hypothesis Hdir : direction_ok h = true.
  Hypothesis Hstep : step_positive rho h.
  Hypothesis HT : 0 < eval rho T.

  Let i0 := eval rho (h_init h).
  Let b := eval rho (h_bound h).
  Let s := step_val rho (h_upd h).
  Let t := eval rho T.
  Let d := dir (h_upd h) * s.
  Let D := distance (h_cmp h) (h_upd h) i0 b.
  Let nb := Z.to_nat (cdiv_count D (t * s)).

  Lemma block_values : seq_values rho (block_header h T) = Some (progression i0 (Z.of_nat (Z.to_nat t) * d) nb).
  Proof.
    assert (Hs : 0 < s) by exact Hstep.
    rewrite seq_values_progression.
    - unfold block_header. cbn [h_init h_bound h_upd h_cmp].
      assert (Est : step_val rho (if positive_update (h_upd h) then UAdd (block_step h T)
                                  else USub (block_step h T)) = t * s).
      { destruct (positive_update (h_upd h)); cbn [step_val update_value];
          apply eval_block_step. }
      assert (Edir : dir (if positive_update (h_upd h) then UAdd (block_step h T)
                          else USub (block_step h T)) = dir (h_upd h)).
      { unfold dir. destruct (positive_update (h_upd h)); reflexivity. }
      assert (Edist : distance (h_cmp h) (if positive_update (h_upd h) then UAdd (block_step h T)
                                          else USub (block_step h T)) i0 b = D).
      { unfold D, distance. rewrite Edir. reflexivity. }
      fold i0 b. rewrite Est, Edir, Edist. fold nb. f_equal. f_equal. unfold d. nia.
    - unfold direction_ok, block_header in *. cbn [h_cmp h_left h_upd].
      destruct (positive_update (h_upd h)); exact Hdir.
    - unfold step_positive, block_header. cbn [h_upd].
      assert (Hs' : 0 < s) by exact Hstep.
      destruct (positive_update (h_upd h)); cbn [step_val update_value];
        rewrite eval_block_step; fold t s; nia.
  Qed.

  Lemma inner_values : forall xb,
    seq_values (upd_env rho xT_id xb) (inner_header t_fixed h T) = Some (progression xb d (Z.to_nat t)).
  Proof.
    intros xb. assert (Hs : 0 < s) by exact Hstep.
    destruct (wf_tile_parts h T Hwf) as [_ [_ [Hops _]]].
    assert (Esv : step_val (upd_env rho xT_id xb) (h_upd h) = s).
    { unfold s, step_val. destruct (update_value (h_upd h)) as [inc|] eqn:E; [|reflexivity].
      apply eval_fresh. apply Hops. reflexivity. }
    rewrite seq_values_progression.
    - unfold inner_header. cbn [h_init h_bound h_upd h_cmp]. rewrite Esv.
      assert (Ei : eval (upd_env rho xT_id xb) (Var xT_id) = xb)
        by (cbn [eval]; unfold upd_env; rewrite Z.eqb_refl; reflexivity).
      assert (Eb : eval (upd_env rho xT_id xb) (inner_bound t_fixed h T) = xb + dir (h_upd h) * (t * s)).
      { unfold inner_bound. cbn [tv_inner_covers_block t_fixed].
        unfold dir. destruct (positive_update (h_upd h)); cbn [wrap eval bin_sem];
          rewrite eval_wrap, eval_block_step_fresh, eval_block_step by exact Hwf;
          fold t s; unfold upd_env; rewrite Z.eqb_refl; lia. }
      rewrite Ei, Eb.
      assert (Edist : distance (strict (h_cmp h)) (h_upd h) xb (xb + dir (h_upd h) * (t * s)) = t * s).
      { unfold distance. pose proof (dir_sq (h_upd h)).
        replace (inclusive (strict (h_cmp h))) with false by (destruct (h_cmp h); reflexivity). nia. }
      rewrite Edist, cdiv_count_block by lia. reflexivity.
    - unfold direction_ok, inner_header, ascending in *. cbn [h_cmp h_left h_upd].
      destruct (h_cmp h); exact Hdir.
    - unfold step_positive, inner_header. cbn [h_upd]. rewrite Esv. exact Hs.
  Qed.

  Lemma tiled_as_blocks : forall check,
    tiled_values t_fixed rho h T check =
    Some (flat_map (fun j =>
                      let xs := progression (i0 + Z.of_nat j * (Z.of_nat (Z.to_nat t) * d)) d (Z.to_nat t) in
                      if check then filter (fun x => test (h_cmp h) (h_left h) x b) xs else xs)
                   (seq 0 nb)).
  Proof.
    intros check. unfold tiled_values.
    destruct (wf_tile_parts h T Hwf) as [_ [Hb _]].
    rewrite reread_block_header, reread_inner_header by exact Hwf.
    rewrite (reread_safe _ (wf_operand_safe _ Hb)).
    rewrite block_values.
    rewrite (collect_map_some _ _ _
               (fun xb => let xs := progression xb d (Z.to_nat t) in
                          if check then filter (fun x => test (h_cmp h) (h_left h) x b) xs else xs)).
    - rewrite flat_map_progression. reflexivity.
    - intros xb _. rewrite inner_values. cbv zeta.
      rewrite (eval_fresh rho xb _ Hb). reflexivity.
  Qed.

  Theorem tile_covers_sec : tiled_values t_fixed rho h T true = spec_values rho h.
  Proof.
    assert (Hs : 0 < s) by exact Hstep.
    rewrite tiled_as_blocks. unfold spec_values.
    rewrite seq_values_progression by assumption. fold i0 b s D d. f_equal.
    apply tiles_cover.
    - fold t in HT. unfold nb. apply count_blocks_cover; assumption.
    - intros q. unfold d. rewrite test_progression by exact Hdir. fold D.
      destruct (Nat.ltb_spec q (Z.to_nat (cdiv_count D s))) as [Hq|Hq].
      + apply Z.ltb_lt. apply (cdiv_count_spec D s (Z.of_nat q) Hs ltac:(lia)). lia.
      + apply Z.ltb_ge.
        destruct (Z_lt_le_dec (Z.of_nat q * s) D) as [Hlt|Hge]; [|exact Hge].
        apply (cdiv_count_spec D s (Z.of_nat q) Hs ltac:(lia)) in Hlt. lia.
  Qed.

  Theorem tile_nocheck_sec : forall l,
    spec_values rho h = Some l -> Z.of_nat (length l) mod eval rho T = 0 ->
    tiled_values t_fixed rho h T false = Some l.
  Proof.
    intros l Hl Hmod. assert (Hs : 0 < s) by exact Hstep.
    rewrite tiled_as_blocks. unfold spec_values in Hl.
    rewrite seq_values_progression in Hl by assumption. fold i0 b s D d in Hl.
    injection Hl as <-. f_equal. cbv zeta.
    rewrite tiles_exact. f_equal.
    unfold progression in Hmod. rewrite map_length, seq_length in Hmod. fold t in Hmod, HT.
    unfold nb. apply count_blocks_exact; assumption.
  Qed.
End Tiled.
