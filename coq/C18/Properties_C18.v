(* C18 — @tile covers the original loop's iterations exactly once.  Statements only; proofs in
   Proofs.v.  Vocabulary: C17/Expr.v, C17/Loop.v, C18/Model.v (the three statements tile.cpp builds,
   operands re-read from their printed text), C18/Spec.v (the untiled sequential loop). *)
From Coq Require Import List ZArith Bool Lia.
From OV.C17 Require Import Expr Loop LoopProofs.
From OV.C18 Require Import Model Spec Proofs.
Import ListNotations.
Local Open Scope Z_scope.

(* check = true (the default): for every header whose update moves towards its bound, every tile-size
   expression, every environment with a positive step and a positive tile size, the block loop, the
   inner loop and the `if` execute the body for exactly the iterator values of the original loop, in
   the same order. *)
Theorem tile_covers : forall rho h T,
  wf_tile h T = true -> direction_ok h = true -> step_positive rho h -> 0 < eval rho T ->
  tiled_values t_fixed rho h T true = spec_values rho h.
Proof. exact Proofs.tile_covers_sec. Qed.
Print Assumptions tile_covers.

(* check = false: the same whenever the original iteration count is a multiple of the tile size. *)
Theorem tile_nocheck : forall rho h T l,
  wf_tile h T = true -> direction_ok h = true -> step_positive rho h -> 0 < eval rho T ->
  spec_values rho h = Some l -> Z.of_nat (length l) mod eval rho T = 0 ->
  tiled_values t_fixed rho h T false = Some l.
Proof. intros rho h T l H1 H2 H3 H4. exact (Proofs.tile_nocheck_sec rho h T H1 H2 H3 H4 l). Qed.
Print Assumptions tile_nocheck.

(* The arithmetic core, independent of expression trees (for C23): nb blocks of t consecutive
   elements of a progression, cut by a test that holds for exactly its first n elements. *)
Theorem tiles_cover : forall i0 d (t nb n : nat) (P : Z -> bool),
  (n <= nb * t)%nat ->
  (forall q : nat, P (i0 + Z.of_nat q * d) = (q <? n)%nat) ->
  flat_map (fun j => filter P (progression (i0 + Z.of_nat j * (Z.of_nat t * d)) d t)) (seq 0 nb)
  = progression i0 d n.
Proof. exact Proofs.tiles_cover. Qed.
Print Assumptions tiles_cover.

Theorem tiles_exact : forall i0 d (t nb : nat),
  flat_map (fun j => progression (i0 + Z.of_nat j * (Z.of_nat t * d)) d t) (seq 0 nb)
  = progression i0 d (nb * t).
Proof. exact Proofs.tiles_exact. Qed.
Print Assumptions tiles_exact.

Theorem count_blocks_cover : forall D s t, 0 < s -> 0 < t ->
  (Z.to_nat (cdiv_count D s) <= Z.to_nat (cdiv_count D (t * s)) * Z.to_nat t)%nat.
Proof. exact Proofs.count_blocks_cover. Qed.
Print Assumptions count_blocks_cover.

(* ---- the pinned source ---- *)
Definition N : expr := Var 0.
Definition M : expr := Var 1.
Definition rho92 : env := fun x => if x =? 0 then 9 else 2.

(* for (i = 1; i < N; i += 2; @tile(4)): blocks advance by 8, the pinned inner loop covers
   [xT, xT + 4): with N = 9 the values 5 and 7 are never visited *)
Theorem tile_step_refuted : exists h T rho,
  wf_tile h T = true /\ direction_ok h = true /\ step_positive rho h /\ 0 < eval rho T /\
  spec_values rho h = Some [1; 3; 5; 7] /\ tiled_values t_pinned rho h T true = Some [1; 3].
Proof.
  exists (mkHeader (Num 1) CLt true N (UAdd (Num 2))), (Num 4), rho92.
  repeat split; reflexivity.
Qed.
Print Assumptions tile_step_refuted.

(* for (j = N; M <= j; j--; @tile(M + 1)): the pinned inner bound is (xT - M + 1), i.e. xT - 1 for
   M = 2 instead of xT - 3: one value per block of three *)
Theorem tile_size_parens_refuted : exists h T rho,
  wf_tile h T = true /\ direction_ok h = true /\ step_positive rho h /\ 0 < eval rho T /\
  spec_values rho h = Some [9; 8; 7; 6; 5; 4; 3; 2] /\
  tiled_values t_pinned rho h T true = Some [9; 6; 3].
Proof.
  exists (mkHeader N CLe false M UDec), (Bin Add M (Num 1)), rho92.
  repeat split; reflexivity.
Qed.
Print Assumptions tile_size_parens_refuted.

(* ---- non-vacuity ---- *)
Example ex_tile_step :
  let h := mkHeader (Num 1) CLt true N (UAdd (Num 2)) in
  tiled_values t_fixed rho92 h (Num 4) true = Some [1; 3; 5; 7] /\
  tiled_values t_fixed rho92 h (Num 4) false = Some [1; 3; 5; 7] /\
  tiled_values t_fixed rho92 h (Num 3) true = Some [1; 3; 5; 7] /\
  (* 4 iterations are not a multiple of 3: without the check two values beyond the bound run *)
  tiled_values t_fixed rho92 h (Num 3) false = Some [1; 3; 5; 7; 9; 11].
Proof. repeat split; reflexivity. Qed.

Example ex_tile_down :
  let h := mkHeader N CLe false M UDec in
  tiled_values t_fixed rho92 h (Bin Add M (Num 1)) true = Some [9; 8; 7; 6; 5; 4; 3; 2].
Proof. reflexivity. Qed.
