(* Every operation preserves the invariant; consequences over whole histories. *)
From Coq Require Import List ZArith Bool Lia Sorting.Sorted Sorting.Permutation.
From OV.C03 Require Import Model Spec Statements Arith Buf Count Union Lists Pack Migrate Inv InvMove Resize Align Reserve.
Import ListNotations.
Local Open Scope Z_scope.

Definition Inv' (s : state) (sp : sstate) : Prop := Inv (snd s) sp /\ 0 <= p_size (snd s).

Lemma inv0 : Inv' state0 sstate0.
Proof.
  split; [|cbn; lia].
  constructor; cbn; try lia; try constructor; try (intros; contradiction); try reflexivity.
Qed.

Lemma reserved_nonneg : forall p sp, Inv p sp -> 0 <= p_reserved p.
Proof.
  intros p sp I. rewrite (i_reserved _ _ I). unfold union_size. apply count_bounds. apply max_end_nonneg.
Qed.

Lemma resize_some : forall V force d p bytes,
  p_reserved p <= bytes -> exists r, resize V force d p bytes = Some r.
Proof.
  intros V force d p bytes H. unfold resize.
  destruct (Z.gtb_spec (p_reserved p) bytes); [lia|].
  destruct ((p_size p =? bytes) && negb force); [eexists; reflexivity|].
  destruct (p_res p); [eexists; reflexivity|].
  destruct (if v_round V then _ else _) as [[l' cs] nr]. eexists; reflexivity.
Qed.

Lemma resize_size : forall V force d p bytes d1 p1,
  resize V force d p bytes = Some (d1, p1) -> 0 <= p_size p -> 0 < p_align p -> 0 <= bytes -> 0 <= p_size p1.
Proof.
  intros V force d p bytes d1 p1 H Hs Ha Hb. unfold resize in H.
  destruct (p_reserved p >? bytes); [discriminate|].
  destruct ((p_size p =? bytes) && negb force); [inversion H; subst; assumption|].
  pose proof (ru_spec (p_align p) Ha bytes).
  destruct (p_res p); [inversion H; subst; cbn; lia|].
  destruct (if v_round V then _ else _) as [[l' cs] nr]. inversion H; subst; cbn; lia.
Qed.

Lemma reserve_some : forall p sp d id bytes,
  Inv p sp -> 0 < bytes -> exists r, reserve fixed d p id bytes = Some r.
Proof.
  intros p sp d id bytes I Hb. pose proof (i_align _ _ I) as Ha.
  pose proof (ru_spec (p_align p) Ha bytes).
  unfold reserve.
  destruct (p_reserved p + _ >? p_size p).
  - destruct (resize_some fixed false d p (p_reserved p + ru (p_align p) bytes) ltac:(lia)) as [[d1 p1] ->].
    eexists; reflexivity.
  - destruct (p_res p); [eexists; reflexivity|].
    destruct (_ <=? p_size p); [eexists; reflexivity|].
    destruct (resize_some fixed (v_force fixed) d p (p_reserved p + ru (p_align p) bytes) ltac:(lia)) as [[d1 p1] ->].
    eexists; reflexivity.
Qed.

Lemma reserve_size : forall p sp d id bytes d1 p1,
  Inv p sp -> 0 <= p_size p -> 0 < bytes ->
  reserve fixed d p id bytes = Some (d1, p1) -> 0 <= p_size p1.
Proof.
  intros p sp d id bytes d1 p1 I Hs Hb H. pose proof (i_align _ _ I) as Ha.
  pose proof (ru_spec (p_align p) Ha bytes). pose proof (reserved_nonneg _ _ I).
  unfold reserve in H.
  destruct (p_reserved p + _ >? p_size p).
  - destruct (resize fixed false d p _) as [[d' p']|] eqn:Er; [|discriminate].
    inversion H; subst. cbn. eapply resize_size; try eassumption. lia.
  - destruct (p_res p); [inversion H; subst; cbn; assumption|].
    destruct (_ <=? p_size p); [inversion H; subst; cbn; assumption|].
    destruct (resize fixed (v_force fixed) d p _) as [[d' p']|] eqn:Er; [|discriminate].
    inversion H; subst. cbn. eapply resize_size; try eassumption. lia.
Qed.

Lemma s_remove_absent : forall id l, s_find id l = None -> s_remove id l = l.
Proof.
  induction l as [|z tl IH]; intros H; cbn in *; [reflexivity|].
  destruct (s_id z =? id); [discriminate|]. f_equal. apply IH. assumption.
Qed.

Lemma sstate_eta : forall sp, mkS (s_live sp) (s_mem sp) (s_next sp) = sp.
Proof. destruct sp; reflexivity. Qed.

(* ------------------------------------------------------------------ one step *)
Lemma step_inv : forall s sp o,
  Inv' s sp -> op_ok o -> Inv' (fst (step fixed s o)) (s_step sp (sop_of o)).
Proof.
  intros [d p] sp o [I Hsz] Hok. cbn [snd] in I, Hsz.
  destruct o as [id n|id parent off cnt|id|id off data|b| |na]; cbn [step sop_of s_step op_ok] in *.
  - (* reserve *)
    destruct (find_res id (p_res p)) as [r|] eqn:Ef.
    + destruct (found_links _ _ _ _ I Ef) as (e & -> & _). split; assumption.
    + pose proof (proj1 (free_id_agrees p sp id I) Ef) as ->.
      destruct (Z.eqb_spec n 0) as [->|Nz]; [cbn; split; assumption|].
      destruct (Z.ltb_spec n 0) as [Hneg|Hpos].
      * destruct (Z.leb_spec n 0); [|lia]. split; assumption.
      * destruct (Z.leb_spec n 0); [lia|].
        destruct (reserve_some p sp d id n I ltac:(lia)) as [[d1 p1] Er]. rewrite Er. cbn [lift fst snd].
        split; [eapply reserve_inv; try eassumption; lia|eapply reserve_size; try eassumption; lia].
  - (* slice *)
    destruct (find_res id (p_res p)) as [r|] eqn:Ef.
    + destruct (found_links _ _ _ _ I Ef) as (e & -> & _). split; assumption.
    + pose proof (proj1 (free_id_agrees p sp id I) Ef) as ->.
      destruct (find_res parent (p_res p)) as [m|] eqn:Ep.
      * destruct (found_links _ _ _ _ I Ep) as (em & Esp & Esz & Hm & Hmid). rewrite Esp, Esz.
        destruct (i_bounds _ _ I m Hm) as (Hm0 & Hmsz & _).
        set (bytes := if cnt =? -1 then r_sz m - off else cnt).
        destruct (Z.ltb_spec off 0) as [Bn|Bn].
        { rewrite !orb_true_r. split; assumption. }
        destruct (Z.ltb_spec bytes 0) as [B0|B0]; cbn [orb]; [split; assumption|].
        destruct (Z.leb_spec (off + cnt) (r_sz m)) as [B1|B1]; cbn [negb orb]; [|split; assumption].
        destruct (Z.ltb_spec (r_off m + off) 0); [lia|]. cbn [fst snd].
        split; [|cbn; assumption].
        apply inv_slice; try assumption.
        -- unfold link. rewrite Hmid. assumption.
        -- unfold bytes in *. destruct (Z.eqb_spec cnt (-1)); lia.
      * pose proof (proj1 (free_id_agrees p sp parent I) Ep) as ->. split; assumption.
  - (* release *)
    destruct (find_res id (p_res p)) as [m|] eqn:Ef.
    + cbn [fst snd]. split; [apply inv_free; assumption|cbn; assumption].
    + pose proof (proj1 (free_id_agrees p sp id I) Ef) as En.
      rewrite (s_remove_absent _ _ En), sstate_eta. split; assumption.
  - (* write *)
    destruct (find_res id (p_res p)) as [m|] eqn:Ef.
    + destruct (found_links _ _ _ _ I Ef) as (em & Esp & Esz & Hm & Hmid). rewrite Esp, Esz.
      destruct (Z.ltb_spec off 0) as [B0|B0]; cbn [orb]; [split; assumption|].
      destruct (Z.leb_spec (Z.of_nat (length data) + off) (r_sz m)) as [B1|B1]; cbn [negb]; [|split; assumption].
      cbn [fst snd]. split; [|cbn; assumption].
      apply inv_write; try assumption. unfold link. rewrite Hmid. assumption.
    + pose proof (proj1 (free_id_agrees p sp id I) Ef) as ->. split; assumption.
  - (* resize *)
    destruct (resize fixed false d p b) as [[d1 p1]|] eqn:Er; cbn [lift fst snd]; [|split; assumption].
    split; [apply (resize_inv p sp false d b d1 p1 I Hok Er)|].
    eapply resize_size; try eassumption. apply (i_align _ _ I).
  - (* shrinkToFit *)
    pose proof (reserved_nonneg _ _ I) as Hr.
    destruct (resize fixed false d p (p_reserved p)) as [[d1 p1]|] eqn:Er; cbn [lift fst snd]; [|split; assumption].
    split; [apply (resize_inv p sp false d _ d1 p1 I Hr Er)|].
    eapply resize_size; try eassumption. apply (i_align _ _ I).
  - (* setAlignment *)
    destruct (set_alignment fixed d p na) as [[d1 p1]|] eqn:Ea; cbn [lift fst snd]; [|split; assumption].
    destruct (set_alignment_ok p sp d na d1 p1 I Hok Ea) as [I1 _]. split; [assumption|].
    (* the new size is either the old one or the new reserved bytes *)
    unfold set_alignment in Ea.
    destruct (na =? 0); [discriminate|]. destruct (p_align p =? na); [inversion Ea; subst; assumption|].
    destruct (p_res p) as [|m0 tl]; [inversion Ea; subst; cbn; assumption|].
    destruct (pack r_off r_end (ru na) (m0 :: tl)) as [[l' cs] nr]. inversion Ea; subst p1.
    pose proof (reserved_nonneg _ _ I1) as R. cbn in R |- *. exact R.
Qed.

Lemma run_inv_from : forall ops s sp,
  Inv' s sp -> ops_ok ops -> Inv' (run fixed s ops) (s_run sp (map sop_of ops)).
Proof.
  induction ops as [|o ops IH]; intros s sp I Hok; cbn; [assumption|].
  inversion Hok; subst. apply IH; [|assumption]. apply step_inv; assumption.
Qed.

Theorem run_inv : forall ops, ops_ok ops ->
  Inv' (run fixed state0 ops) (s_run sstate0 (map sop_of ops)).
Proof. intros. apply run_inv_from; [apply inv0|assumption]. Qed.
