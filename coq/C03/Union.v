(* The repaired add/removeModeMemoryRef loop (Model.delta_fix) computes how many positions of
   [lo,hi) no other rounded range covers; consequence for the measure of the union. *)
From Coq Require Import List ZArith Bool Lia Sorting.Sorted.
From OV.C03 Require Import Model Spec Arith Count.
Import ListNotations.
Local Open Scope Z_scope.

Section Delta.
  Variable a : Z.
  Hypothesis Ha : 0 < a.

  Definition sorted_lo (l : list res) : Prop := StronglySorted (fun x y => r_lo a x <= r_lo a y) l.

  Lemma cov_false : forall l p,
    (forall x, In x l -> ~ (r_lo a x <= p < r_hi a x)) -> cov a l p = false.
  Proof.
    intros l p H. destruct (cov a l p) eqn:E; [|reflexivity].
    apply cov_true in E. destruct E as (r & Hr & Hp). exfalso. exact (H r Hr Hp).
  Qed.

  Lemma delta_fix_spec : forall l lo hi nb,
    sorted_lo l -> (forall x, In x l -> r_lo a x <= r_hi a x) -> lo <= hi ->
    delta_fix a lo hi nb l = nb - count (cov a l) lo hi.
  Proof.
    induction l as [|m tl IH]; intros lo hi nb Hs Hw Hlohi; cbn [delta_fix].
    - rewrite count_none; [lia|]. intros; reflexivity.
    - inversion Hs as [|? ? Hs' Hhd]; subst. rewrite Forall_forall in Hhd.
      pose proof (Hw m (or_introl eq_refl)) as Hm.
      assert (Hw' : forall x, In x tl -> r_lo a x <= r_hi a x) by (intros; apply Hw; right; assumption).
      destruct (Z.geb_spec (r_lo a m) hi) as [G1|G1].
      + (* every range starts at or after hi *)
        rewrite count_none; [lia|]. intros p Hp. apply cov_false.
        intros x [<-|Hx] Hc; [lia|]. specialize (Hhd x Hx). lia.
      + destruct (Z.leb_spec (r_hi a m) lo) as [G2|G2].
        * rewrite (IH lo hi nb Hs' Hw' Hlohi). f_equal.
          apply count_ext. intros p Hp. rewrite cov_cons.
          unfold in_iv, iv_of. cbn [fst snd].
          destruct (Z.leb_spec (r_lo a m) p); destruct (Z.ltb_spec p (r_hi a m)); cbn; try reflexivity; lia.
        * set (lo' := Z.min hi (r_hi a m)).
          set (st := Z.max lo (r_lo a m)).
          assert (Hst : lo <= st <= lo') by (unfold st, lo'; lia).
          assert (Hlo' : lo' <= hi) by (unfold lo'; lia).
          (* count on [lo, lo') *)
          assert (C1 : count (cov a (m :: tl)) lo lo' = lo' - st).
          { rewrite (count_split _ lo st lo') by lia.
            rewrite (count_none _ lo st).
            - rewrite count_all; [lia|lia|].
              intros p Hp. rewrite cov_cons. unfold in_iv, iv_of. cbn [fst snd].
              destruct (Z.leb_spec (r_lo a m) p); [|unfold st in Hp; lia].
              destruct (Z.ltb_spec p (r_hi a m)); [reflexivity|unfold lo' in Hp; lia].
            - intros p Hp. apply cov_false.
              intros x [<-|Hx] Hc; [unfold st in Hp; lia|]. specialize (Hhd x Hx). unfold st in Hp. lia. }
          destruct (Z.eqb_spec lo' hi) as [E|N].
          -- rewrite <- E. rewrite C1. unfold lo', st. lia.
          -- assert (Elo' : lo' = r_hi a m) by (unfold lo' in *; lia).
             rewrite (IH lo' hi _ Hs' Hw' Hlo').
             rewrite (count_split (cov a (m :: tl)) lo lo' hi) by lia. rewrite C1.
             assert (C2 : count (cov a (m :: tl)) lo' hi = count (cov a tl) lo' hi).
             { apply count_ext. intros p Hp. rewrite cov_cons. unfold in_iv, iv_of. cbn [fst snd].
               destruct (Z.ltb_spec p (r_hi a m)); [lia|]. rewrite andb_false_r. reflexivity. }
             rewrite C2. unfold lo', st. lia.
  Qed.

  (* adding a range to a family of ranges *)
  Lemma union_add : forall l x B,
    0 <= r_lo a x -> r_lo a x <= r_hi a x -> r_hi a x <= B ->
    count (cov a (x :: l)) 0 B =
    count (cov a l) 0 B + ((r_hi a x - r_lo a x) - count (cov a l) (r_lo a x) (r_hi a x)).
  Proof.
    intros l x B H0 Hx HB.
    rewrite (count_ext (cov a (x :: l)) (fun p => in_iv p (iv_of a x) || cov a l p)) by (intros; apply cov_cons).
    rewrite count_or. f_equal.
    rewrite (count_restrict _ 0 B (r_lo a x) (r_hi a x)); try lia.
    - rewrite <- count_neg by lia. apply count_ext. intros p Hp.
      unfold in_iv, iv_of. cbn [fst snd].
      destruct (Z.leb_spec (r_lo a x) p); [|lia]. destruct (Z.ltb_spec p (r_hi a x)); [|lia]. reflexivity.
    - intros p Hp. apply andb_prop in Hp. destruct Hp as [Hp _].
      unfold in_iv, iv_of in Hp. cbn [fst snd] in Hp. lia.
  Qed.
End Delta.
