(* The block structure produced by the migration loop (Model.pack_loop / Model.pack):
   the memcpy list is a chain of blocks, each reservation sits in exactly one block and moves
   with it, blocks are contiguous unions of the members' [flo,fhi) extents. *)
From Coq Require Import List ZArith Bool Lia Sorting.Sorted.
From OV.C03 Require Import Model.
Import ListNotations.
Local Open Scope Z_scope.

Lemma Forall2_imp : forall (A B : Type) (P Q : A -> B -> Prop) l l',
  (forall a b, P a b -> Q a b) -> Forall2 P l l' -> Forall2 Q l l'.
Proof. intros A B P Q l l' H F. induction F; constructor; auto. Qed.

Section PackSpec.
  Variables (flo fhi : res -> Z) (g : Z -> Z).
  Hypothesis Hg : forall x, 0 <= x -> x <= g x.

  (* a chain of blocks (dst, src, len): destinations advance by g len, sources leave a gap *)
  Fixpoint blocks_ok (d smin : Z) (cs : list (Z * Z * Z)) (dend : Z) : Prop :=
    match cs with
    | [] => dend = d
    | (d', s, len) :: tl =>
        d' = d /\ smin <= s /\ 0 <= len /\ blocks_ok (d + g len) (s + len + 1) tl dend
    end.

  Lemma blocks_ok_weaken : forall cs d smin smin' dend,
    smin' <= smin -> blocks_ok d smin cs dend -> blocks_ok d smin' cs dend.
  Proof.
    destruct cs as [|[[d' s] len] tl]; cbn; intros; [assumption|].
    intuition lia.
  Qed.

  Lemma blocks_lower : forall cs d smin dend,
    blocks_ok d smin cs dend ->
    d <= dend /\
    forall d' s len, In (d', s, len) cs -> smin <= s /\ d <= d' /\ 0 <= len /\ d' + g len <= dend.
  Proof.
    induction cs as [|[[d0 s0] len0] tl IH]; cbn; intros d smin dend H.
    - split; [lia|]. intros ? ? ? [].
    - destruct H as (-> & Hs & Hlen & Hrest).
      destruct (IH _ _ _ Hrest) as [Hd Hall].
      pose proof (Hg len0 Hlen) as G.
      split; [lia|].
      intros d' s len [E|Hin].
      + inversion E; subst. repeat split; lia.
      + destruct (Hall _ _ _ Hin) as (A & B & C & D). repeat split; lia.
  Qed.

  (* blocks are totally ordered by their source start *)
  Lemma blocks_order : forall cs d smin dend,
    blocks_ok d smin cs dend ->
    forall d1 s1 len1 d2 s2 len2,
      In (d1, s1, len1) cs -> In (d2, s2, len2) cs ->
      (s1 < s2 -> s1 + len1 < s2 /\ d1 + g len1 <= d2) /\
      (s1 = s2 -> d1 = d2 /\ len1 = len2).
  Proof.
    induction cs as [|[[d0 s0] len0] tl IH]; cbn; intros d smin dend H d1 s1 len1 d2 s2 len2 H1 H2.
    - destruct H1.
    - destruct H as (-> & Hs & Hlen & Hrest).
      pose proof (blocks_lower _ _ _ _ Hrest) as [_ Hlow].
      destruct H1 as [E1|H1]; destruct H2 as [E2|H2].
      + inversion E1; inversion E2; subst. split; intros; [lia|split; reflexivity].
      + inversion E1; subst. destruct (Hlow _ _ _ H2) as (A & B & C & D).
        split; intros; [split; lia|lia].
      + inversion E2; subst. destruct (Hlow _ _ _ H1) as (A & B & C & D).
        split; intros; lia.
      + exact (IH _ _ _ Hrest _ _ _ _ _ _ H1 H2).
  Qed.

  (* where a reservation went: its block, and it moved with the block *)
  Definition placed (cs : list (Z * Z * Z)) (m m' : res) : Prop :=
    r_id m' = r_id m /\ r_sz m' = r_sz m /\
    exists d s len, In (d, s, len) cs /\ s <= flo m /\ fhi m <= s + len /\
                    r_off m' = r_off m - s + d.

  Lemma placed_cons : forall c cs m m', placed cs m m' -> placed (c :: cs) m m'.
  Proof.
    intros c cs m m' (A & B & d & s & len & Hin & R). split; [assumption|]. split; [assumption|].
    exists d, s, len. split; [right; assumption|assumption].
  Qed.

  Definition sorted_flo (l : list res) : Prop := StronglySorted (fun x y => flo x <= flo y) l.

  Lemma pack_loop_spec : forall l lo hi offset l' cs nr,
    pack_loop flo fhi g lo hi offset l = (l', cs, nr) ->
    lo <= hi ->
    (forall m, In m l -> lo <= flo m /\ flo m <= fhi m) ->
    sorted_flo l ->
    exists len0 cs', cs = (offset, lo, len0) :: cs' /\ hi - lo <= len0 /\
      blocks_ok offset lo cs (offset + nr) /\ Forall2 (placed cs) l l'.
  Proof.
    induction l as [|m tl IH]; intros lo hi offset l' cs nr E Hlohi Hall Hs; cbn in E.
    - inversion E; subst. exists (hi - lo), []. split; [reflexivity|]. split; [lia|].
      split; [|constructor]. cbn. repeat split; lia.
    - inversion Hs as [|? ? Hs' Hhd]; subst.
      destruct (Hall m (or_introl eq_refl)) as [Hm1 Hm2].
      destruct (flo m >? hi) eqn:Hnew.
      + destruct (pack_loop flo fhi g (flo m) (fhi m) (offset + g (hi - lo)) tl) as [[l1 cs1] nr1] eqn:E1.
        inversion E; subst; clear E.
        destruct (IH _ _ _ _ _ _ E1 Hm2) as (len1 & cs1' & -> & Hlen1 & Hok1 & Hpl1).
        * intros m' Hin. rewrite Forall_forall in Hhd. split; [apply Hhd; assumption|].
          apply (Hall m'). right. assumption.
        * assumption.
        * exists (hi - lo), ((offset + g (hi - lo), flo m, len1) :: cs1').
          split; [reflexivity|]. split; [lia|]. split.
          -- cbn. split; [reflexivity|]. split; [lia|]. split; [lia|].
             cbn in Hok1. destruct Hok1 as (_ & _ & Hl & Hrest).
             split; [reflexivity|]. split; [lia|]. split; [assumption|].
             replace (offset + (g (hi - lo) + nr1)) with (offset + g (hi - lo) + nr1) by lia.
             exact Hrest.
          -- constructor.
             ++ unfold placed. cbn [r_off r_sz r_id set_off]. split; [reflexivity|]. split; [reflexivity|].
                exists (offset + g (hi - lo)), (flo m), len1.
                split; [right; left; reflexivity|]. split; [lia|]. split; [lia|]. lia.
             ++ eapply Forall2_imp; [|exact Hpl1]. intros a b Hab. apply placed_cons. exact Hab.
      + destruct (pack_loop flo fhi g lo (Z.max hi (fhi m)) offset tl) as [[l1 cs1] nr1] eqn:E1.
        inversion E; subst; clear E.
        destruct (IH _ _ _ _ _ _ E1 ltac:(lia)) as (len1 & cs1' & -> & Hlen1 & Hok1 & Hpl1).
        * intros m' Hin. apply (Hall m'). right. assumption.
        * assumption.
        * exists len1, cs1'. split; [reflexivity|]. split; [lia|]. split; [assumption|].
          constructor; [|assumption].
          unfold placed. cbn [r_off r_sz r_id set_off]. split; [reflexivity|]. split; [reflexivity|].
          exists offset, lo, len1. split; [left; reflexivity|]. split; [lia|]. split; [lia|]. lia.
  Qed.

  (* no block reaches beyond the largest fhi *)
  Lemma pack_loop_upper : forall l lo hi offset l' cs nr M,
    pack_loop flo fhi g lo hi offset l = (l', cs, nr) ->
    hi <= M -> (forall m, In m l -> fhi m <= M) ->
    forall d s len, In (d, s, len) cs -> s + len <= M.
  Proof.
    induction l as [|m tl IH]; intros lo hi offset l' cs nr M E Hhi Hall d s len Hin; cbn in E.
    - inversion E; subst. destruct Hin as [Ei|[]]. inversion Ei; subst. lia.
    - destruct (flo m >? hi) eqn:Hnew.
      + destruct (pack_loop flo fhi g (flo m) (fhi m) (offset + g (hi - lo)) tl) as [[l1 cs1] nr1] eqn:E1.
        inversion E; subst; clear E. destruct Hin as [Ei|Hin].
        * inversion Ei; subst. lia.
        * eapply (IH _ _ _ _ _ _ M E1); [apply Hall; left; reflexivity| |exact Hin].
          intros m' Hm'. apply Hall. right. assumption.
      + destruct (pack_loop flo fhi g lo (Z.max hi (fhi m)) offset tl) as [[l1 cs1] nr1] eqn:E1.
        inversion E; subst; clear E.
        eapply (IH _ _ _ _ _ _ M E1); [|intros m' Hm'; apply Hall; right; assumption|exact Hin].
        pose proof (Hall m (or_introl eq_refl)). lia.
  Qed.

  (* every position of a block is inside some member's [flo,fhi) (or inside the part [lo,hi)
     of the head block that was there before the loop), and the end of the block is some
     member's fhi (or the initial hi) *)
  Definition moved_with (l l' : list res) (d s : Z) (m m' : res) : Prop :=
    In (m, m') (combine l l') /\ s <= flo m /\ r_off m' = r_off m - s + d.

  Lemma pack_loop_cover : forall l lo hi offset l' cs nr,
    pack_loop flo fhi g lo hi offset l = (l', cs, nr) ->
    lo <= hi ->
    (forall m, In m l -> lo <= flo m /\ flo m <= fhi m) ->
    sorted_flo l ->
    forall d s len, In (d, s, len) cs ->
      (forall q, s <= q < s + len ->
         (s = lo /\ q < hi) \/ exists m m', moved_with l l' d s m m' /\ flo m <= q < fhi m) /\
      ((s = lo /\ s + len = hi) \/ exists m m', moved_with l l' d s m m' /\ fhi m = s + len).
  Proof.
    induction l as [|m tl IH]; intros lo hi offset l' cs nr E Hlohi Hall Hs d s len Hin; cbn in E.
    - inversion E; subst. destruct Hin as [Ei|[]]. inversion Ei; subst.
      split; [intros q Hq; left; split; [reflexivity|lia]|left; split; [reflexivity|lia]].
    - inversion Hs as [|? ? Hs' Hhd]; subst.
      destruct (Hall m (or_introl eq_refl)) as [Hm1 Hm2].
      destruct (flo m >? hi) eqn:Hnew.
      + destruct (pack_loop flo fhi g (flo m) (fhi m) (offset + g (hi - lo)) tl) as [[l1 cs1] nr1] eqn:E1.
        inversion E; subst; clear E.
        destruct Hin as [Ei|Hin].
        * inversion Ei; subst.
          split; [intros q Hq; left; split; [reflexivity|lia]|left; split; [reflexivity|lia]].
        * assert (Hall' : forall m', In m' tl -> flo m <= flo m' /\ flo m' <= fhi m').
          { intros m' Hin'. rewrite Forall_forall in Hhd. split; [apply Hhd; assumption|].
            apply (Hall m'). right. assumption. }
          destruct (IH _ _ _ _ _ _ E1 Hm2 Hall' Hs' _ _ _ Hin) as [Hc Ht].
          (* which block is it: the one opened by m, or a later one? *)
          destruct (pack_loop_spec _ _ _ _ _ _ _ E1 Hm2 Hall' Hs') as (len1 & cs1' & Ecs & _ & Hok1 & _).
          split.
          -- intros q Hq. destruct (Hc q Hq) as [[Es Hq']|(m1 & m1' & (Hcomb & A & B) & C)].
             ++ right. exists m, (set_off m (r_off m - (flo m - (offset + g (hi - lo))))).
                split; [|lia]. split; [left; reflexivity|]. split; [lia|].
                subst s. cbn.
                (* d is the destination of the block starting at flo m *)
                subst cs1. cbn in Hok1. destruct Hok1 as (_ & _ & Hl1 & Hrest).
                assert (d = offset + g (hi - lo)).
                { destruct Hin as [Ei|Hin'].
                  - inversion Ei; subst. reflexivity.
                  - pose proof (blocks_lower _ _ _ _ Hrest) as [_ Hlow].
                    destruct (Hlow _ _ _ Hin') as (A & _). lia. }
                lia.
             ++ right. exists m1, m1'. split; [|assumption].
                split; [right; assumption|]. split; assumption.
          -- destruct Ht as [[Es Hq']|(m1 & m1' & (Hcomb & A & B) & C)].
             ++ right. exists m, (set_off m (r_off m - (flo m - (offset + g (hi - lo))))).
                split; [|lia]. split; [left; reflexivity|]. split; [lia|].
                subst s. cbn.
                subst cs1. cbn in Hok1. destruct Hok1 as (_ & _ & Hl1 & Hrest).
                assert (d = offset + g (hi - lo)).
                { destruct Hin as [Ei|Hin'].
                  - inversion Ei; subst. reflexivity.
                  - pose proof (blocks_lower _ _ _ _ Hrest) as [_ Hlow].
                    destruct (Hlow _ _ _ Hin') as (A & _). lia. }
                lia.
             ++ right. exists m1, m1'. split; [|assumption].
                split; [right; assumption|]. split; assumption.
      + destruct (pack_loop flo fhi g lo (Z.max hi (fhi m)) offset tl) as [[l1 cs1] nr1] eqn:E1.
        inversion E; subst; clear E.
        assert (Hall' : forall m', In m' tl -> lo <= flo m' /\ flo m' <= fhi m').
        { intros m' Hin'. apply (Hall m'). right. assumption. }
        destruct (IH _ _ _ _ _ _ E1 ltac:(lia) Hall' Hs' _ _ _ Hin) as [Hc Ht].
        destruct (pack_loop_spec _ _ _ _ _ _ _ E1 ltac:(lia) Hall' Hs') as (len1 & cs1' & Ecs & _ & Hok1 & _).
        assert (Hd : s = lo -> d = offset).
        { intros ->. subst cs. destruct Hin as [Ei|Hin'].
          - inversion Ei; subst. reflexivity.
          - cbn in Hok1. destruct Hok1 as (_ & _ & Hl & Hrest).
            pose proof (blocks_lower _ _ _ _ Hrest) as [_ Hlow].
            destruct (Hlow _ _ _ Hin') as (A & _). lia. }
        split.
        * intros q Hq. destruct (Hc q Hq) as [[Es Hq']|(m1 & m1' & (Hcomb & A & B) & C)].
          -- destruct (Z_lt_le_dec q hi) as [Hlt|Hge].
             ++ left. split; assumption.
             ++ right. exists m, (set_off m (r_off m - (lo - offset))).
                split; [|lia]. split; [left; reflexivity|]. split; [lia|].
                cbn. rewrite (Hd Es). lia.
          -- right. exists m1, m1'. split; [|assumption].
             split; [right; assumption|]. split; assumption.
        * destruct Ht as [[Es Hq']|(m1 & m1' & (Hcomb & A & B) & C)].
          -- destruct (Z_le_gt_dec (fhi m) hi) as [Hle|Hgt].
             ++ left. split; [assumption|lia].
             ++ right. exists m, (set_off m (r_off m - (lo - offset))).
                split; [|lia]. split; [left; reflexivity|]. split; [lia|].
                cbn. rewrite (Hd Es). lia.
          -- right. exists m1, m1'. split; [|assumption].
             split; [right; assumption|]. split; assumption.
  Qed.

  (* ---------------------------------------------------------------- the whole loop *)
  Lemma pack_spec : forall l l' cs nr,
    pack flo fhi g l = (l', cs, nr) ->
    l <> [] ->
    (forall m, In m l -> flo m <= fhi m) ->
    sorted_flo l ->
    exists s0, blocks_ok 0 s0 cs nr /\ Forall2 (placed cs) l l'.
  Proof.
    intros [|m tl] l' cs nr E Hne Hall Hs; [congruence|]. cbn in E.
    destruct (pack_loop flo fhi g (flo m) (fhi m) 0 tl) as [[l1 cs1] nr1] eqn:E1.
    inversion E; subst; clear E.
    inversion Hs as [|? ? Hs' Hhd]; subst.
    assert (Hall' : forall m', In m' tl -> flo m <= flo m' /\ flo m' <= fhi m').
    { intros m' Hin'. rewrite Forall_forall in Hhd. split; [apply Hhd; assumption|].
      apply Hall. right. assumption. }
    destruct (pack_loop_spec _ _ _ _ _ _ _ E1 (Hall m (or_introl eq_refl)) Hall' Hs')
      as (len0 & cs' & -> & Hlen & Hok & Hpl).
    exists (flo m). split; [exact Hok|].
    constructor; [|assumption].
    unfold placed. cbn [r_off r_sz r_id set_off]. split; [reflexivity|]. split; [reflexivity|].
    exists 0, (flo m), len0. split; [left; reflexivity|]. split; [lia|]. split; [lia|]. lia.
  Qed.

  Lemma pack_upper : forall l l' cs nr M,
    pack flo fhi g l = (l', cs, nr) ->
    (forall m, In m l -> fhi m <= M) ->
    forall d s len, In (d, s, len) cs -> s + len <= M.
  Proof.
    intros [|m tl] l' cs nr M E Hall d s len Hin; cbn in E.
    - inversion E; subst. destruct Hin.
    - destruct (pack_loop flo fhi g (flo m) (fhi m) 0 tl) as [[l1 cs1] nr1] eqn:E1.
      inversion E; subst; clear E.
      eapply (pack_loop_upper _ _ _ _ _ _ _ M E1); [apply Hall; left; reflexivity| |exact Hin].
      intros m' Hm'. apply Hall. right. assumption.
  Qed.

  Lemma pack_cover : forall l l' cs nr,
    pack flo fhi g l = (l', cs, nr) ->
    (forall m, In m l -> flo m <= fhi m) ->
    sorted_flo l ->
    forall d s len, In (d, s, len) cs ->
      (forall q, s <= q < s + len -> exists m m', moved_with l l' d s m m' /\ flo m <= q < fhi m) /\
      (exists m m', moved_with l l' d s m m' /\ fhi m = s + len).
  Proof.
    intros [|m tl] l' cs nr E Hall Hs d s len Hin; cbn in E.
    - inversion E; subst. destruct Hin.
    - destruct (pack_loop flo fhi g (flo m) (fhi m) 0 tl) as [[l1 cs1] nr1] eqn:E1.
      inversion E; subst; clear E.
      inversion Hs as [|? ? Hs' Hhd]; subst.
      assert (Hall' : forall m', In m' tl -> flo m <= flo m' /\ flo m' <= fhi m').
      { intros m' Hin'. rewrite Forall_forall in Hhd. split; [apply Hhd; assumption|].
        apply Hall. right. assumption. }
      pose proof (Hall m (or_introl eq_refl)) as Hm.
      destruct (pack_loop_cover _ _ _ _ _ _ _ E1 Hm Hall' Hs' _ _ _ Hin) as [Hc Ht].
      destruct (pack_loop_spec _ _ _ _ _ _ _ E1 Hm Hall' Hs') as (len1 & cs1' & Ecs & _ & Hok1 & _).
      assert (Hd : s = flo m -> d = 0).
      { intros ->. rewrite Ecs in Hin, Hok1. destruct Hin as [Ei|Hin'].
        - inversion Ei; subst. reflexivity.
        - cbn in Hok1. destruct Hok1 as (_ & _ & Hl & Hrest).
          pose proof (blocks_lower _ _ _ _ Hrest) as [_ Hlow].
          destruct (Hlow _ _ _ Hin') as (A & _). lia. }
      split.
      + intros q Hq. destruct (Hc q Hq) as [[Es Hq']|(m1 & m1' & (Hcomb & A & B) & C)].
        * exists m, (set_off m (r_off m - (flo m - 0))).
          split; [|lia]. split; [left; reflexivity|]. split; [lia|]. cbn. rewrite (Hd Es). lia.
        * exists m1, m1'. split; [|assumption]. split; [right; assumption|]. split; assumption.
      + destruct Ht as [[Es Hq']|(m1 & m1' & (Hcomb & A & B) & C)].
        * exists m, (set_off m (r_off m - (flo m - 0))).
          split; [|lia]. split; [left; reflexivity|]. split; [lia|]. cbn. rewrite (Hd Es). lia.
        * exists m1, m1'. split; [|assumption]. split; [right; assumption|]. split; assumption.
  Qed.

  (* setAlignment's sizing loop computes the same newReserved *)
  Lemma size_loop_eq : forall l lo hi offset,
    size_loop flo fhi g lo hi l = snd (pack_loop flo fhi g lo hi offset l).
  Proof.
    induction l as [|m tl IH]; intros lo hi offset; cbn.
    - reflexivity.
    - destruct (flo m >? hi).
      + rewrite (IH _ _ (offset + g (hi - lo))).
        destruct (pack_loop flo fhi g (flo m) (fhi m) (offset + g (hi - lo)) tl) as [[l1 cs1] nr1].
        reflexivity.
      + rewrite (IH _ _ offset).
        destruct (pack_loop flo fhi g lo (Z.max hi (fhi m)) offset tl) as [[l1 cs1] nr1].
        reflexivity.
  Qed.
End PackSpec.
