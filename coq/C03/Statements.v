(* The statements of C03 in the vocabulary of Model.v and Spec.v. *)
From Coq Require Import List ZArith Bool Sorting.Sorted.
From OV.C03 Require Import Model Spec.
Import ListNotations.
Local Open Scope Z_scope.

(* the reference semantics sees the same requests; resize/shrinkToFit/setAlignment are invisible *)
Definition sop_of (o : op) : sop :=
  match o with
  | OReserve id n => SReserve id n
  | OSlice id parent off cnt => SSlice id parent off cnt
  | OFree id => SFree id
  | OWrite id off data => SWrite id off data
  | OResize _ | OShrink | OAlign _ => SOther
  end.

(* what the C++ signatures already guarantee: udim_t arguments are not negative *)
Definition op_ok (o : op) : Prop :=
  match o with
  | OResize b => 0 <= b
  | OAlign a => 0 <= a
  | _ => True
  end.
Definition ops_ok (ops : list op) : Prop := Forall op_ok ops.

(* byte position q belongs to reservation r *)
Definition in_range (r : res) (q : Z) : Prop := r_off r <= q < r_off r + r_sz r.

(* model handle r is the reference semantics' handle e *)
Definition same_handle (sp : sstate) (r : res) (e : sres) : Prop :=
  s_find (r_id r) (s_live sp) = Some e.

Definition Inv_pool (p : pool) (sp : sstate) : Prop :=
  (* every reservation lies inside the buffer *)
  (forall r, In r (p_res p) -> 0 <= r_off r /\ 0 <= r_sz r /\ r_off r + r_sz r <= p_size p) /\
  (* reservations that do not descend from the same reserve() call share no byte *)
  (forall r1 r2 e1 e2 q, In r1 (p_res p) -> In r2 (p_res p) ->
     same_handle sp r1 e1 -> same_handle sp r2 e2 ->
     in_range r1 q -> in_range r2 q -> s_fam e1 = s_fam e2) /\
  (* every byte of a slice is a byte of its root, as long as the root is live *)
  (forall r r0 e e0 q, In r (p_res p) -> In r0 (p_res p) ->
     same_handle sp r e -> same_handle sp r0 e0 ->
     s_root e0 = true -> s_fam e0 = s_fam e -> in_range r q -> in_range r0 q) /\
  (* no migration copied outside a buffer; the reservation set's order matches its keys *)
  p_oob p = false /\ p_tie p = false /\
  StronglySorted (fun x y => res_lt x y = true) (p_res p).

(* a handle reads back every byte the reference semantics knows *)
Definition byte_ok (b : Z) (o : option Z) : Prop := forall v, o = Some v -> b = v.
Definition reads_ok (got : option (list Z)) (want : option (list (option Z))) : Prop :=
  match got, want with
  | Some bs, Some os => Forall2 byte_ok bs os
  | None, None => True
  | _, _ => False
  end.
