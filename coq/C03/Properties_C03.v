From OV.C03 Require Import Model Spec.
From Coq Require Import List ZArith.
Import ListNotations.
Local Open Scope Z_scope.
Example placeholder : p_reserved (snd (run fixed state0 [OReserve 1 100])) = 128.
Proof. vm_compute. reflexivity. Qed.
Print Assumptions placeholder.
