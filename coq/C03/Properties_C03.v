(* C03 — memory-pool reservations never overlap and keep their contents.
   Model.fixed is the source after fixes/C03-1..4 and fixes/C04-1; the *_refuted theorems show,
   one repair at a time, what the model of the unrepaired source does. *)
From Coq Require Import List ZArith Bool Lia Sorting.Sorted.
From OV.C03 Require Import Model Spec Statements Theorems.
Import ListNotations.
Local Open Scope Z_scope.

(* For every history of reserve / slice / release / write / resize / shrinkToFit / setAlignment:
   every reservation lies inside the buffer, reservations of different reserve() calls share no
   byte, every byte of a slice is a byte of its live root, no migration copies outside a buffer
   and the reservation set stays ordered by its keys. *)
Theorem Inv_pool_every_history : forall ops, ops_ok ops ->
  Inv_pool (snd (run fixed state0 ops)) (s_run sstate0 (map sop_of ops)).
Proof. exact pool_invariant_holds. Qed.
Print Assumptions Inv_pool_every_history.

(* Every handle reads back exactly the bytes last written through it or through any handle
   that overlaps it, whatever growing, compacting or re-aligning happened in between (those
   operations do not exist in the reference semantics: sop_of maps them to SOther). *)
Theorem contents_preserved : forall ops id, ops_ok ops ->
  reads_ok (read (run fixed state0 ops) id) (s_read (s_run sstate0 (map sop_of ops)) id).
Proof. exact contents_are_preserved. Qed.
Print Assumptions contents_preserved.

(* non-vacuity: a history that fragments the pool, packs it, re-aligns it twice and reads back *)
Definition demo : list op :=
  [OReserve 1 128; OReserve 2 100; OReserve 3 128; OSlice 4 2 10 20; OWrite 4 0 [7; 8; 9];
   OFree 1; OFree 3; OReserve 5 256; OAlign 16; OFree 2; OAlign 256; OShrink].
Example demo_ok : ops_ok demo.
Proof. repeat constructor; cbn; discriminate. Qed.
Example demo_layout :
  map (fun r => (r_id r, r_off r, r_sz r)) (p_res (snd (run fixed state0 demo))) = [(4, 0, 20); (5, 256, 256)]
  /\ p_size (snd (run fixed state0 demo)) = 512.
Proof. vm_compute. split; reflexivity. Qed.
Example demo_reads :
  option_map (firstn 4) (read (run fixed state0 demo) 4) = Some [7; 8; 9; 0]
  /\ option_map (firstn 4) (s_read (s_run sstate0 (map sop_of demo)) 4) = Some [Some 7; Some 8; Some 9; None].
Proof. vm_compute. split; reflexivity. Qed.

(* ------------------------------------------------------------------ the unrepaired source *)
Definition without_force  : variant := mkVariant false true true true true.   (* fixes/C03-1 missing *)
Definition without_round  : variant := mkVariant true false true true true.   (* fixes/C03-2 missing *)
Definition without_resort : variant := mkVariant true true true false true.   (* fixes/C03-4 missing *)

(* reserve 128 x3, release the 1st and 3rd, reserve 256: resize(384) is a no-op on a pool of 384
   bytes and the new reservation [128,384) lies on top of the live [128,256) *)
Definition frag : list op :=
  [OReserve 1 128; OReserve 2 128; OReserve 3 128; OFree 1; OFree 3; OReserve 4 256].
Theorem fragmented_equal_size_overlap_refuted :
  ops_ok frag /\ ~ Inv_pool (snd (run without_force state0 frag)) (s_run sstate0 (map sop_of frag)).
Proof.
  split; [repeat constructor|].
  intros (_ & B & _).
  specialize (B (mkRes 2 128 128) (mkRes 4 128 256) (mkSres 2 1 0 128 true) (mkSres 4 3 0 256 true) 200).
  vm_compute in B. assert (E : 1 = 3); [|discriminate E].
  apply B; try reflexivity; try (split; congruence); auto.
Qed.
Print Assumptions fragmented_equal_size_overlap_refuted.

(* two small slices of a released reservation become two blocks of 128 bytes although they were
   accounted as 128 bytes together: newReserved (256) exceeds what resize was asked for and the next
   reservation is placed at [256,384), outside the 256-byte buffer *)
Definition orphans : list op :=
  [OReserve 1 128; OSlice 2 1 0 10; OSlice 3 1 20 10; OFree 1; OReserve 4 128].
Theorem sliced_blocks_overflow_refuted :
  ops_ok orphans /\ ~ Inv_pool (snd (run without_round state0 orphans)) (s_run sstate0 (map sop_of orphans)).
Proof.
  split; [repeat constructor; cbn; discriminate|].
  intros (A & _). specialize (A (mkRes 4 256 128)). vm_compute in A.
  destruct A as (_ & _ & A); [right; right; left; reflexivity|]. apply A. reflexivity.
Qed.
Print Assumptions sliced_blocks_overflow_refuted.

(* two empty slices at different offsets are packed onto the same (offset,size): the order of
   the std::set now contradicts its comparator unless the addresses happen to agree *)
Definition empties : list op :=
  [OReserve 1 512; OSlice 2 1 300 0; OSlice 3 1 100 0; OFree 1; OAlign 64].
Theorem set_order_collapse_refuted :
  ops_ok empties /\ ~ Inv_pool (snd (run without_resort state0 empties)) (s_run sstate0 (map sop_of empties)).
Proof.
  split; [repeat constructor; cbn; discriminate|].
  intros (_ & _ & _ & _ & T & _). vm_compute in T. discriminate T.
Qed.
Print Assumptions set_order_collapse_refuted.

(* the same three histories are fine in the repaired model (instances of the theorem above) *)
Example frag_fixed : map (fun r => (r_id r, r_off r)) (p_res (snd (run fixed state0 frag))) = [(2, 0); (4, 128)].
Proof. vm_compute. reflexivity. Qed.
