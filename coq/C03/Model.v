(* C03/C04/C05 — executable model of occa::modeMemoryPool_t on the Serial backend
   (src/occa/internal/core/memoryPool.cpp, src/occa/internal/modes/serial/memoryPool.cpp) and of the
   handle-level wrappers that reach it (src/core/memoryPool.cpp: reserve/resize/shrinkToFit/
   setAlignment; src/core/memory.cpp: slice/copyFrom; src/occa/internal/core/memory.cpp:
   modeMemory_t::slice), transcribed branch for branch.

   The model takes the five places that the repairs fixes/C03-1..4 and fixes/C04-1 change as a
   parameter (`variant`), so that both the pinned and the repaired source are expressible:
     v_force  (C03-1) reserve's last exit packs the pool even when the size stays the same
     v_round  (C03-2) resize tracks blocks in whole multiples of the alignment
     v_fit    (C03-3) reserve tests the aligned extent against the size
     v_resort (C03-4) resize/setAlignment rebuild the reservation set after moving its elements
     v_sub    (C04-1) add/removeModeMemoryRef subtract what other reservations cover
   `fixed` is the code after the five patches; `pinned` is the snapshot.

   All quantities are Z; dim_t/udim_t wrap-around is not modelled (sizes stay far below 2^63).
   No proofs in this file. *)
From Coq Require Import List ZArith Bool Lia FMapAVL OrderedTypeEx.
Import ListNotations.
Local Open Scope Z_scope.

(* finite maps with Z keys (stdlib AVL trees), used for the contents of a buffer *)
Module ZM := FMapAVL.Make(Z_as_OT).

Record variant := mkVariant { v_force : bool; v_round : bool; v_fit : bool; v_resort : bool; v_sub : bool }.
Definition fixed : variant := mkVariant true true true true true.
Definition pinned : variant := mkVariant false false false false false.

(* ------------------------------------------------------------------ device byte counters
   modeDevice_t::bytesAllocated / maxBytesAllocated.  d_hist is a ghost: every value that
   bytesAllocated has taken, most recent first (used by C05's running-maximum theorem). *)
Record dev := mkDev { d_alloc : Z; d_max : Z; d_hist : list Z }.
Definition dev0 : dev := mkDev 0 0 [0].

(* bytesAllocated += n; maxBytesAllocated = max(maxBytesAllocated, bytesAllocated) *)
Definition dev_alloc (d : dev) (n : Z) : dev :=
  let a := d_alloc d + n in mkDev a (Z.max (d_max d) a) (a :: d_hist d).
(* bytesAllocated -= n   (~modeBuffer_t) *)
Definition dev_free (d : dev) (n : Z) : dev :=
  let a := d_alloc d - n in mkDev a (d_max d) (a :: d_hist d).

(* ------------------------------------------------------------------ reservations *)
(* a modeMemory_t that lives in the pool: handle id (stands for the object's identity),
   offset, size *)
Record res := mkRes { r_id : Z; r_off : Z; r_sz : Z }.
Definition r_end (r : res) : Z := r_off r + r_sz r.
Definition set_off (r : res) (o : Z) : res := mkRes (r_id r) o (r_sz r).

(* modeMemoryPool_t::compare: by offset, then size, then object address.  Objects that agree
   in offset and size are interchangeable for every loop below; the model orders them by id. *)
Definition res_lt (x y : res) : bool :=
  if r_off x =? r_off y then
    if r_sz x =? r_sz y then r_id x <? r_id y else r_sz x <? r_sz y
  else r_off x <? r_off y.

(* std::set::emplace *)
Fixpoint insert (x : res) (l : list res) : list res :=
  match l with
  | [] => [x]
  | y :: tl => if res_lt x y then x :: l else y :: insert x tl
  end.

Fixpoint find_res (id : Z) (l : list res) : option res :=
  match l with
  | [] => None
  | y :: tl => if r_id y =? id then Some y else find_res id tl
  end.

(* std::set::erase(find(mem)) *)
Fixpoint remove_res (id : Z) (l : list res) : list res :=
  match l with
  | [] => []
  | y :: tl => if r_id y =? id then tl else y :: remove_res id tl
  end.

(* the byte buffer behind the pool: position -> byte (absent = never written; reads as 0, the
   model's stand-in for malloc garbage, which no observation ever looks at).  Only positions
   inside the allocation are ever observed; out-of-range accesses are tracked separately
   (p_oob). *)
Definition buffer := ZM.t Z.
Definition zero_buf : buffer := ZM.empty Z.
Definition bget (b : buffer) (p : Z) : Z := match ZM.find p b with Some v => v | None => 0 end.

Record pool := mkPool {
  p_align : Z;            (* alignment *)
  p_size : Z;             (* modeBuffer_t::size of the pool == bytes of the backing buffer *)
  p_reserved : Z;         (* reserved *)
  p_res : list res;       (* reservations, in the set's iteration order *)
  p_buf : buffer;         (* contents of `buffer` *)
  p_gen : Z;              (* how many backing buffers have been created (identity of `buffer`) *)
  p_oob : bool;           (* some memcpy of a migration touched bytes outside a buffer *)
  p_tie : bool            (* a migration gave two reservations with different keys the same key
                             without rebuilding the set: the set's order now rests on an address
                             comparison that was never made (find() may miss an element) *)
}.
Definition pool0 : pool := mkPool 128 0 0 [] zero_buf 0 false false.

(* (x / alignment) * alignment   and   ((x + alignment - 1) / alignment) * alignment *)
Definition rd (a x : Z) : Z := (x / a) * a.
Definition ru (a x : Z) : Z := ((x + a - 1) / a) * a.
Definition r_lo (a : Z) (r : res) : Z := rd a (r_off r).
Definition r_hi (a : Z) (r : res) : Z := ru a (r_off r + r_sz r).

(* ------------------------------------------------------------------ add/removeModeMemoryRef
   The loop that finds how much of [lo,hi) is new / is given back. *)

(* pinned: narrows [lo,hi) to its intersection with a partially overlapping neighbour *)
Fixpoint delta_pin (a lo hi : Z) (l : list res) : Z :=
  match l with
  | [] => hi - lo
  | m :: tl =>
      let mlo := r_lo a m in
      let mhi := r_hi a m in
      if mlo >=? hi then hi - lo
      else if mhi <=? lo then delta_pin a lo hi tl
      else
        let lo' := if (mlo <=? lo) && (mhi >=? hi) then lo else Z.max lo mlo in
        let hi' := if (mlo <=? lo) && (mhi >=? hi) then lo else Z.min hi mhi in
        if lo' =? hi' then hi' - lo' else delta_pin a lo' hi' tl
  end.

(* repaired (C04-1): newBytes -= min(hi,mhi) - max(lo,mlo); lo = min(hi,mhi) *)
Fixpoint delta_fix (a lo hi nb : Z) (l : list res) : Z :=
  match l with
  | [] => nb
  | m :: tl =>
      let mlo := r_lo a m in
      let mhi := r_hi a m in
      if mlo >=? hi then nb
      else if mhi <=? lo then delta_fix a lo hi nb tl
      else
        let nb' := nb - (Z.min hi mhi - Z.max lo mlo) in
        let lo' := Z.min hi mhi in
        if lo' =? hi then nb' else delta_fix a lo' hi nb' tl
  end.

Definition delta (V : variant) (a : Z) (x : res) (l : list res) : Z :=
  let lo := r_lo a x in
  let hi := r_hi a x in
  if v_sub V then delta_fix a lo hi (hi - lo) l else delta_pin a lo hi l.

Definition set_res (p : pool) (reserved : Z) (l : list res) : pool :=
  mkPool (p_align p) (p_size p) reserved l (p_buf p) (p_gen p) (p_oob p) (p_tie p).

(* modeMemoryPool_t::addModeMemoryRef (reached from the modeMemory_t constructor) *)
Definition add_ref (V : variant) (p : pool) (x : res) : pool :=
  set_res p (p_reserved p + delta V (p_align p) x (p_res p)) (insert x (p_res p)).

(* modeMemoryPool_t::removeModeMemoryRef (reached from ~modeMemory_t) *)
Definition remove_ref (V : variant) (p : pool) (x : res) : pool :=
  let l := remove_res (r_id x) (p_res p) in
  set_res p (p_reserved p - delta V (p_align p) x l) l.

(* ------------------------------------------------------------------ the block loops
   Shared shape of the do-while loops of resize and setAlignment: `flo`/`fhi` are the start and
   end the loop reads off a reservation (mlo, mhi), `g` the rounding of a finished block's
   length.  State: start/end of the current block and its offset in the new buffer.  Returns
   the reservations with their new offsets (setPtr), the memcpy calls (dst, src, bytes) in
   the order issued, and newReserved. *)
Section BlockLoop.
  Variables (flo fhi : res -> Z) (g : Z -> Z).

  Fixpoint pack_loop (lo hi offset : Z) (l : list res) : list res * list (Z * Z * Z) * Z :=
    match l with
    | [] => ([], [(offset, lo, hi - lo)], g (hi - lo))
    | m :: tl =>
        if flo m >? hi then
          let rs := g (hi - lo) in
          let '(l', cs, nr) := pack_loop (flo m) (fhi m) (offset + rs) tl in
          (set_off m (r_off m - (flo m - (offset + rs))) :: l', (offset, lo, hi - lo) :: cs, rs + nr)
        else
          let '(l', cs, nr) := pack_loop lo (Z.max hi (fhi m)) offset tl in
          (set_off m (r_off m - (lo - offset)) :: l', cs, nr)
    end.

  Definition pack (l : list res) : list res * list (Z * Z * Z) * Z :=
    match l with
    | [] => ([], [], 0)
    | m :: tl =>
        let '(l', cs, nr) := pack_loop (flo m) (fhi m) 0 tl in
        (set_off m (r_off m - (flo m - 0)) :: l', cs, nr)
    end.

  (* setAlignment's first loop, which only sizes the new buffer *)
  Fixpoint size_loop (lo hi : Z) (l : list res) : Z :=
    match l with
    | [] => g (hi - lo)
    | m :: tl =>
        if flo m >? hi then g (hi - lo) + size_loop (flo m) (fhi m) tl
        else size_loop lo (Z.max hi (fhi m)) tl
    end.
End BlockLoop.

(* serial::memoryPool::memcpy: new[d .. d+n) = old[s .. s+n) *)
Fixpoint copy_range (old new : buffer) (d s : Z) (n : nat) : buffer :=
  match n with
  | O => new
  | S n' => copy_range old (ZM.add d (bget old s) new) (d + 1) (s + 1) n'
  end.
Definition apply_copy (old : buffer) (new : buffer) (c : Z * Z * Z) : buffer :=
  let '(d, s, n) := c in copy_range old new d s (Z.to_nat n).
Definition apply_copies (old : buffer) (cs : list (Z * Z * Z)) (new : buffer) : buffer :=
  fold_left (apply_copy old) cs new.
Definition copy_ok (oldsz newsz : Z) (c : Z * Z * Z) : bool :=
  let '(d, s, n) := c in
  (0 <=? n) && (0 <=? s) && (s + n <=? oldsz) && (0 <=? d) && (d + n <=? newsz).

(* reservationSet moved(reservations.begin(), reservations.end()); reservations.swap(moved) *)
Definition resort (l : list res) : list res := fold_right insert [] l.
Definition after_move (V : variant) (l : list res) : list res := if v_resort V then resort l else l.

(* two neighbours in the set had different (offset,size) before the move and the same after *)
Definition same_key (x y : res) : bool := (r_off x =? r_off y) && (r_sz x =? r_sz y).
Fixpoint collapsed (l l' : list res) : bool :=
  match l, l' with
  | x :: ((y :: _) as tl), x' :: ((y' :: _) as tl') =>
      (negb (same_key x y) && same_key x' y') || collapsed tl tl'
  | _, _ => false
  end.

(* ------------------------------------------------------------------ resize
   None = OCCA_ERROR thrown (nothing changed).  `force` is the forcePacking argument added by
   fixes/C03-1 (always false in the pinned source). *)
Definition resize (V : variant) (force : bool) (d : dev) (p : pool) (bytes : Z) : option (dev * pool) :=
  if p_reserved p >? bytes then None
  else if (p_size p =? bytes) && negb force then Some (d, p)
  else
    let a := p_align p in
    let ab := ru a bytes in
    match p_res p with
    | [] =>
        (* if (buffer) delete buffer; buffer = makeBuffer(); buffer->malloc(alignedBytes) *)
        let d1 := dev_free d (p_size p) in
        let d2 := dev_alloc d1 ab in
        Some (d2, mkPool a ab (p_reserved p) [] zero_buf (p_gen p + 1) (p_oob p) (p_tie p))
    | _ =>
        let d1 := dev_alloc d ab in
        let '(l', cs, nr) :=
          if v_round V then pack (r_lo a) (r_hi a) (ru a) (p_res p)
          else pack r_off r_end (ru a) (p_res p) in
        let buf' := apply_copies (p_buf p) cs zero_buf in
        let oob' := p_oob p || negb (forallb (copy_ok (p_size p) ab) cs) in
        let d2 := dev_free d1 (p_size p) in
        Some (d2, mkPool a ab nr (after_move V l') buf' (p_gen p + 1) oob'
                         (p_tie p || (negb (v_resort V) && collapsed (p_res p) l')))
    end.

(* ------------------------------------------------------------------ setAlignment *)
Definition set_alignment (V : variant) (d : dev) (p : pool) (na : Z) : option (dev * pool) :=
  if na =? 0 then None
  else if p_align p =? na then Some (d, p)
  else
    match p_res p with
    | [] => Some (d, mkPool na (p_size p) (p_reserved p) [] (p_buf p) (p_gen p) (p_oob p) (p_tie p))
    | m :: tl =>
        let newReserved := size_loop r_off r_end (ru na) (r_off m) (r_end m) tl in
        let d1 := dev_alloc d newReserved in
        let '(l', cs, _) := pack r_off r_end (ru na) (p_res p) in
        let buf' := apply_copies (p_buf p) cs zero_buf in
        let oob' := p_oob p || negb (forallb (copy_ok (p_size p) newReserved) cs) in
        let d2 := dev_free d1 (p_size p) in
        Some (d2, mkPool na newReserved newReserved (after_move V l') buf' (p_gen p + 1) oob'
                         (p_tie p || (negb (v_resort V) && collapsed (p_res p) l')))
    end.

(* ------------------------------------------------------------------ reserve *)
(* the hole search: first offset whose [offset, offset+bytes) ends before a reservation starts *)
Fixpoint hole (a bytes offset : Z) (l : list res) : Z :=
  match l with
  | [] => offset
  | m :: tl =>
      if r_off m >=? offset + bytes then offset
      else hole a bytes (Z.max offset (r_hi a m)) tl
  end.

(* modeMemoryPool_t::reserve; the new modeMemory_t gets handle id `id` *)
Definition reserve (V : variant) (d : dev) (p : pool) (id bytes : Z) : option (dev * pool) :=
  let a := p_align p in
  let ab := ru a bytes in
  let need := if v_fit V then ab else bytes in
  if p_reserved p + need >? p_size p then
    match resize V false d p (p_reserved p + ab) with
    | None => None
    | Some (d1, p1) => Some (d1, add_ref V p1 (mkRes id (p_reserved p1) bytes))
    end
  else
    match p_res p with
    | [] => Some (d, add_ref V p (mkRes id 0 bytes))
    | _ =>
        let offset := hole a bytes 0 (p_res p) in
        if offset + need <=? p_size p then Some (d, add_ref V p (mkRes id offset bytes))
        else
          match resize V (v_force V) d p (p_reserved p + ab) with
          | None => None
          | Some (d1, p1) => Some (d1, add_ref V p1 (mkRes id (p_reserved p1) bytes))
          end
    end.

(* ------------------------------------------------------------------ contents *)
Fixpoint write_bytes (b : buffer) (pos : Z) (data : list Z) : buffer :=
  match data with
  | [] => b
  | x :: tl => write_bytes (ZM.add pos x b) (pos + 1) tl
  end.

Fixpoint read_bytes (b : buffer) (pos : Z) (n : nat) : list Z :=
  match n with
  | O => []
  | S n' => bget b pos :: read_bytes b (pos + 1) n'
  end.

Definition set_buf (p : pool) (b : buffer) : pool :=
  mkPool (p_align p) (p_size p) (p_reserved p) (p_res p) b (p_gen p) (p_oob p) (p_tie p).

(* ------------------------------------------------------------------ handle-level operations
   One live occa::memory handle per modeMemory_t, one occa::memoryPool handle; dtype byte. *)
Inductive op :=
| OReserve (id entries : Z)            (* id = pool.reserve(entries, dtype::byte) *)
| OSlice (id parent off cnt : Z)       (* id = parent.slice(off, cnt) *)
| OFree (id : Z)                       (* last handle of id dropped: delete modeMemory *)
| OWrite (id off : Z) (data : list Z)  (* id.copyFrom(data, |data|, off) *)
| OResize (bytes : Z)                  (* pool.resize(bytes) *)
| OShrink                              (* pool.shrinkToFit() *)
| OAlign (a : Z).                      (* pool.setAlignment(a) *)

Inductive outcome := Ok | Err | Nul.   (* Err: occa::exception; Nul: nothing happened *)

Definition state := (dev * pool)%type.
Definition state0 : state := (dev0, pool0).

Definition lift (s : state) (r : option (dev * pool)) : state * outcome :=
  match r with Some s' => (s', Ok) | None => (s, Err) end.

Definition step (V : variant) (s : state) (o : op) : state * outcome :=
  let '(d, p) := s in
  match o with
  | OReserve id entries =>
      match find_res id (p_res p) with
      | Some _ => (s, Nul)                         (* the driver never reuses a live id *)
      | None =>
          if entries =? 0 then (s, Nul)            (* return memory() *)
          else if entries <? 0 then (s, Err)       (* "Trying to reserve negative bytes" *)
          else lift s (reserve V d p id entries)
      end
  | OSlice id parent off cnt =>
      match find_res id (p_res p), find_res parent (p_res p) with
      | Some _, _ => (s, Nul)
      | None, None => (s, Nul)
      | None, Some m =>
          (* memory::slice: "Cannot have a negative offset"; bytes = (count == -1 ? length() - offset : count) *)
          let bytes := if cnt =? -1 then r_sz m - off else cnt in
          if off <? 0 then (s, Err)
          else if bytes <? 0 then (s, Err)
          else if negb (off + cnt <=? r_sz m) then (s, Err)
          (* modeMemory_t::slice: offset + offset_ >= 0 *)
          else if r_off m + off <? 0 then (s, Err)
          else ((d, add_ref V p (mkRes id (r_off m + off) bytes)), Ok)
      end
  | OFree id =>
      match find_res id (p_res p) with
      | None => (s, Nul)
      | Some m => ((d, remove_ref V p m), Ok)
      end
  | OWrite id off data =>
      match find_res id (p_res p) with
      | None => (s, Nul)
      | Some m =>
          let n := Z.of_nat (length data) in
          if off <? 0 then (s, Err)
          else if negb (n + off <=? r_sz m) then (s, Err)
          else ((d, set_buf p (write_bytes (p_buf p) (r_off m + off) data)), Ok)
      end
  | OResize bytes => lift s (resize V false d p bytes)
  | OShrink => lift s (resize V false d p (p_reserved p))
  | OAlign a => lift s (set_alignment V d p a)
  end.

Definition run (V : variant) (s : state) (ops : list op) : state :=
  fold_left (fun s o => fst (step V s o)) ops s.

(* what handle id reads back (memory::copyTo of the whole reservation) *)
Definition read (s : state) (id : Z) : option (list Z) :=
  match find_res id (p_res (snd s)) with
  | None => None
  | Some m => Some (read_bytes (p_buf (snd s)) (r_off m) (Z.to_nat (r_sz m)))
  end.

(* ~modeMemoryPool_t: delete buffer *)
Definition pool_destroy (d : dev) (p : pool) : dev := dev_free d (p_size p).
