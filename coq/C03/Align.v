(* setAlignment: the invariant is preserved; with reservations the new buffer is exactly the
   packed blocks, rounded to the new alignment. *)
From Coq Require Import List ZArith Bool Lia Sorting.Sorted Sorting.Permutation.
From OV.C03 Require Import Model Spec Statements Arith Buf Count Union Lists Pack Migrate Inv InvMove Resize.
Import ListNotations.
Local Open Scope Z_scope.

Lemma set_alignment_ok : forall p sp d na d1 p1,
  Inv p sp -> 0 <= na ->
  set_alignment fixed d p na = Some (d1, p1) ->
  Inv p1 sp /\ p_align p1 = na.
Proof.
  intros p sp d na d1 p1 I Hna H.
  unfold set_alignment in H.
  destruct (Z.eqb_spec na 0) as [|Nz]; [discriminate|].
  assert (Ha : 0 < na) by lia.
  destruct (Z.eqb_spec (p_align p) na) as [Esame|Ndiff].
  { inversion H; subst. split; [assumption|reflexivity]. }
  destruct (p_res p) as [|m0 tl] eqn:El.
  - inversion H; subst; clear H. split; [|reflexivity].
    assert (R0 : p_reserved p = 0) by (rewrite (i_reserved _ _ I), El; reflexivity).
    constructor; cbn [p_align p_size p_reserved p_res p_buf p_oob p_tie]; try (apply I).
    + exact Ha.
    + constructor.
    + constructor.
    + intros r [].
    + intros e He. destruct (i_back _ _ I e He) as (r & Hr & _). rewrite El in Hr. destruct Hr.
    + intros r [].
    + rewrite R0. reflexivity.
    + intros r1 r2 e1 e2 i1 i2 [].
    + intros r e i [].
  - cbn [v_resort fixed after_move] in H.
    destruct (pack r_off r_end (ru na) (m0 :: tl)) as [[l' cs] nr] eqn:Epack.
    (* the sizing loop computes the same newReserved *)
    assert (Esize : size_loop r_off r_end (ru na) (r_off m0) (r_end m0) tl = nr).
    { rewrite (size_loop_eq r_off r_end (ru na) tl (r_off m0) (r_end m0) 0).
      cbn in Epack. destruct (pack_loop r_off r_end (ru na) (r_off m0) (r_end m0) 0 tl) as [[l1 cs1] nr1].
      inversion Epack; subst. reflexivity. }
    rewrite Esize in H. inversion H; subst d1 p1; clear H.
    rewrite <- El in Epack.
    assert (Hne : p_res p <> []) by (rewrite El; discriminate).
    pose proof (i_align _ _ I) as Hao.
    assert (Hpos : forall m, In m (p_res p) -> 0 <= r_off m /\ 0 <= r_sz m /\ r_end m <= p_size p).
    { intros m Hm. destruct (i_bounds _ _ I m Hm) as (A & B & C).
      pose proof (r_end_le_hi (p_align p) m Hao). unfold r_end. repeat split; lia. }
    assert (Hg : forall x, 0 <= x -> x <= ru na x) by (intros x _; pose proof (ru_spec na Ha x); lia).
    assert (Hflf : forall m, In m (p_res p) -> r_off m <= r_end m).
    { intros m Hm. destruct (Hpos m Hm) as (_ & B & _). unfold r_end. lia. }
    assert (Hsf : sorted_flo r_off (p_res p)) by (apply sorted_off; apply (i_sorted _ _ I)).
    destruct (pack_spec r_off r_end (ru na) _ _ _ _ Epack Hne Hflf Hsf) as (s0 & Hok & Hpl).
    destruct (blocks_dst_aligned na (ru na) cs 0 s0 nr (ru_aligned na) (aligned_0 na) Hok) as [Anr Ad].
    pose proof (blocks_lower (ru na) Hg _ _ _ _ Hok) as [Hnr0 Hlow].
    assert (Hcont : forall m, In m (p_res p) -> contains r_off r_end m).
    { intros m Hm. unfold contains, r_end. lia. }
    (* rounded out under the new alignment, everything is inside [0, nr) *)
    assert (Hin_nr : forall m m', In m (p_res p) -> placed r_off r_end cs m m' -> r_hi na m' <= nr).
    { intros m m' Hm (_ & Esz & dd & s & len & Hin & A & B & C).
      destruct (Hlow _ _ _ Hin) as (_ & _ & L & E).
      unfold r_hi. rewrite C, Esz.
      eapply Z.le_trans; [apply (ru_mono na Ha _ (dd + len)); unfold r_end in B; lia|].
      rewrite ru_add_aligned; [lia|assumption|eapply Ad; eassumption]. }
    assert (Hsrc : forall dd s len, In (dd, s, len) cs -> 0 <= s /\ s + len <= p_size p).
    { intros dd s len Hin.
      destruct (pack_cover r_off r_end (ru na) Hg _ _ _ _ Epack Hflf Hsf _ _ _ Hin) as [Hc Ht].
      destruct (Hlow _ _ _ Hin) as (_ & _ & L & _).
      split.
      - destruct (Z.eq_dec len 0) as [E0|N0].
        + destruct Ht as (m & m' & (Hcomb & A & _) & B).
          destruct (in_combine_both _ _ _ _ _ _ Hcomb) as [Hm _].
          pose proof (Hflf m Hm). destruct (Hpos m Hm). lia.
        + destruct (Hc s ltac:(lia)) as (m & m' & (Hcomb & A & _) & B).
          destruct (in_combine_both _ _ _ _ _ _ Hcomb) as [Hm _]. destruct (Hpos m Hm). lia.
      - apply (pack_upper r_off r_end (ru na) _ _ _ _ (p_size p) Epack) with (d := dd); [|assumption].
        intros m Hm. apply (Hpos m Hm). }
    assert (Hnew : nr = union_size (ivs na (resort l'))).
    { rewrite (union_size_bound na (resort l') nr Hnr0).
      2:{ intros r Hr. apply (proj1 (in_resort _ _)) in Hr.
          destruct (Forall2_in_r _ _ _ _ _ r Hpl Hr) as (m & Hm & Hp). eapply Hin_nr; eassumption. }
      rewrite count_all; [lia|lia|].
      intros q Hq. apply cov_true.
      destruct (blocks_tile (ru na) cs 0 s0 nr q Hok Hq) as (dd & s & len & Hin & Hqd).
      destruct (pack_cover r_off r_end (ru na) Hg _ _ _ _ Epack Hflf Hsf _ _ _ Hin) as [Hc Ht].
      pose proof (Ad _ _ _ Hin) as Add.
      destruct (Z_lt_le_dec q (dd + len)) as [Hlt|Hge].
      - destruct (Hc (q - dd + s) ltac:(lia)) as (m & m' & (Hcomb & _ & Hoff) & Hqm).
        destruct (Forall2_combine _ _ _ _ _ _ _ Hpl Hcomb) as ((_ & Esz & _) & Hm & Hm').
        exists m'. split; [apply in_resort; assumption|].
        pose proof (r_lo_le_off na m' Ha). pose proof (r_end_le_hi na m' Ha).
        unfold r_end in Hqm. lia.
      - destruct Ht as (m & m' & (Hcomb & _ & Hoff) & Hend).
        destruct (Forall2_combine _ _ _ _ _ _ _ Hpl Hcomb) as ((_ & Esz & _) & Hm & Hm').
        exists m'. split; [apply in_resort; assumption|].
        destruct (Hpos m Hm) as (_ & Hsz & _).
        pose proof (r_lo_le_off na m' Ha).
        assert (Ehi : r_hi na m' = dd + ru na len).
        { unfold r_hi. rewrite Hoff, Esz. unfold r_end in Hend.
          replace (r_off m - s + dd + r_sz m) with (dd + len) by lia.
          apply ru_add_aligned; assumption. }
        rewrite Ehi. unfold r_end in Hend. lia. }
    assert (Hcopies : forallb (copy_ok (p_size p) nr) cs = true).
    { apply (mig_copy_ok (ru na) Hg cs s0 nr Hok); [lia|assumption]. }
    rewrite Hcopies, (i_oob _ _ I), (i_tie _ _ I). cbn [negb orb andb].
    split; [|reflexivity].
    apply (inv_moved r_off r_end (ru na) Hg p sp l' cs nr na nr (p_gen p + 1) I Hne Epack); assumption.
Qed.
