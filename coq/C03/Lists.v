(* The reservation set as a sorted list: insert / remove_res / find_res / resort. *)
From Coq Require Import List ZArith Bool Lia Sorting.Sorted Sorting.Permutation.
From OV.C03 Require Import Model Spec Arith.
Import ListNotations.
Local Open Scope Z_scope.

Definition rlt (x y : res) : Prop := res_lt x y = true.
Definition sorted (l : list res) : Prop := StronglySorted rlt l.

Lemma res_lt_trans : forall x y z, rlt x y -> rlt y z -> rlt x z.
Proof.
  unfold rlt, res_lt. intros x y z H1 H2.
  destruct (Z.eqb_spec (r_off x) (r_off y)); destruct (Z.eqb_spec (r_off y) (r_off z));
  destruct (Z.eqb_spec (r_off x) (r_off z));
  destruct (Z.eqb_spec (r_sz x) (r_sz y)); destruct (Z.eqb_spec (r_sz y) (r_sz z));
  destruct (Z.eqb_spec (r_sz x) (r_sz z)); lia.
Qed.

Lemma res_lt_total : forall x y, r_id x <> r_id y -> res_lt x y = false -> rlt y x.
Proof.
  unfold rlt, res_lt. intros x y Hid H.
  destruct (Z.eqb_spec (r_off x) (r_off y)); destruct (Z.eqb_spec (r_off y) (r_off x));
  destruct (Z.eqb_spec (r_sz x) (r_sz y)); destruct (Z.eqb_spec (r_sz y) (r_sz x)); lia.
Qed.

Lemma rlt_off : forall x y, rlt x y -> r_off x <= r_off y.
Proof.
  unfold rlt, res_lt. intros x y H. destruct (Z.eqb_spec (r_off x) (r_off y)); lia.
Qed.

(* ------------------------------------------------------------------ find_res *)
Lemma find_res_some : forall id l r, find_res id l = Some r -> In r l /\ r_id r = id.
Proof.
  induction l as [|y tl IH]; intros r H; cbn in H; [discriminate|].
  destruct (Z.eqb_spec (r_id y) id).
  - inversion H; subst. split; [left; reflexivity|reflexivity].
  - destruct (IH _ H). split; [right; assumption|assumption].
Qed.

Lemma find_res_none : forall id l, find_res id l = None -> forall r, In r l -> r_id r <> id.
Proof.
  induction l as [|y tl IH]; intros H r Hin; cbn in H; [destruct Hin|].
  destruct (Z.eqb_spec (r_id y) id); [discriminate|].
  destruct Hin as [<-|Hin]; [assumption|]. apply IH; assumption.
Qed.

Lemma find_res_in : forall l r, NoDup (map r_id l) -> In r l -> find_res (r_id r) l = Some r.
Proof.
  induction l as [|y tl IH]; intros r Hnd Hin; [destruct Hin|].
  cbn in Hnd. inversion Hnd as [|? ? Hnotin Hnd']; subst. cbn.
  destruct Hin as [<-|Hin].
  - rewrite Z.eqb_refl. reflexivity.
  - destruct (Z.eqb_spec (r_id y) (r_id r)) as [E|N].
    + exfalso. apply Hnotin. rewrite E. apply in_map. assumption.
    + apply IH; assumption.
Qed.

Lemma find_res_none_iff : forall id l, find_res id l = None <-> (forall r, In r l -> r_id r <> id).
Proof.
  intros id l. split; [apply find_res_none|].
  induction l as [|y tl IH]; intros H; cbn; [reflexivity|].
  destruct (Z.eqb_spec (r_id y) id) as [E|N].
  - exfalso. exact (H y (or_introl eq_refl) E).
  - apply IH. intros r Hr. apply H. right. assumption.
Qed.

(* ------------------------------------------------------------------ insert *)
Lemma insert_perm : forall x l, Permutation (insert x l) (x :: l).
Proof.
  induction l as [|y tl IH]; cbn; [apply Permutation_refl|].
  destruct (res_lt x y); [apply Permutation_refl|].
  eapply Permutation_trans; [apply perm_skip; exact IH|apply perm_swap].
Qed.

Lemma in_insert : forall x l y, In y (insert x l) <-> y = x \/ In y l.
Proof.
  intros x l y. split; intros H.
  - apply (Permutation_in _ (insert_perm x l)) in H. destruct H; [left; congruence|right; assumption].
  - apply (Permutation_in _ (Permutation_sym (insert_perm x l))). destruct H; [left; congruence|right; assumption].
Qed.

Lemma insert_sorted : forall x l,
  sorted l -> (forall y, In y l -> r_id y <> r_id x) -> sorted (insert x l).
Proof.
  induction l as [|y tl IH]; intros Hs Hid; cbn.
  - constructor; [constructor|constructor].
  - inversion Hs as [|? ? Hs' Hhd]; subst.
    destruct (res_lt x y) eqn:E.
    + constructor; [assumption|]. constructor; [exact E|].
      rewrite Forall_forall in *. intros z Hz. eapply res_lt_trans; [exact E|apply Hhd; assumption].
    + constructor.
      * apply IH; [assumption|]. intros z Hz. apply Hid. right. assumption.
      * rewrite Forall_forall in *. intros z Hz. apply in_insert in Hz. destruct Hz as [->|Hz].
        -- apply res_lt_total; [|exact E]. intros Eid. apply (Hid y (or_introl eq_refl)). symmetry. exact Eid.
        -- apply Hhd. assumption.
Qed.

(* ------------------------------------------------------------------ remove_res *)
Lemma in_remove_res : forall id l y,
  NoDup (map r_id l) -> (In y (remove_res id l) <-> In y l /\ r_id y <> id).
Proof.
  induction l as [|z tl IH]; intros y Hnd; cbn; [tauto|].
  cbn in Hnd. inversion Hnd as [|? ? Hnotin Hnd']; subst.
  destruct (Z.eqb_spec (r_id z) id) as [E|N].
  - split.
    + intros Hy. split; [right; assumption|]. intros Ey. apply Hnotin. rewrite E, <- Ey. apply in_map. assumption.
    + intros [[<-|Hy] Hne]; [congruence|assumption].
  - cbn. rewrite (IH y Hnd'). split.
    + intros [<-|[Hy Hne]]; [split; [left; reflexivity|assumption]|split; [right; assumption|assumption]].
    + intros [[<-|Hy] Hne]; [left; reflexivity|right; split; assumption].
Qed.

Lemma remove_res_incl : forall id l y, In y (remove_res id l) -> In y l.
Proof.
  induction l as [|z tl IH]; intros y H; cbn in H; [assumption|].
  destruct (r_id z =? id); [right; assumption|].
  destruct H as [<-|H]; [left; reflexivity|right; apply IH; assumption].
Qed.

Lemma remove_res_sorted : forall id l, sorted l -> sorted (remove_res id l).
Proof.
  induction l as [|z tl IH]; intros Hs; cbn; [assumption|].
  inversion Hs as [|? ? Hs' Hhd]; subst.
  destruct (r_id z =? id); [assumption|].
  constructor; [apply IH; assumption|].
  rewrite Forall_forall in *. intros y Hy. apply Hhd. eapply remove_res_incl; eassumption.
Qed.

Lemma remove_res_nodup : forall id l, NoDup (map r_id l) -> NoDup (map r_id (remove_res id l)).
Proof.
  induction l as [|z tl IH]; intros Hnd; cbn; [assumption|].
  cbn in Hnd. inversion Hnd as [|? ? Hnotin Hnd']; subst.
  destruct (r_id z =? id); [assumption|].
  cbn. constructor; [|apply IH; assumption].
  intros Hin. apply Hnotin. apply in_map_iff in Hin. destruct Hin as (y & Ey & Hy).
  rewrite <- Ey. apply in_map. eapply remove_res_incl; eassumption.
Qed.

Lemma remove_res_length : forall id l r,
  find_res id l = Some r -> length l = S (length (remove_res id l)).
Proof.
  induction l as [|z tl IH]; intros r H; cbn in *; [discriminate|].
  destruct (r_id z =? id); [reflexivity|]. cbn. f_equal. eapply IH; eassumption.
Qed.

(* ------------------------------------------------------------------ resort *)
Lemma resort_perm : forall l, Permutation (resort l) l.
Proof.
  induction l as [|x tl IH]; cbn; [constructor|].
  eapply Permutation_trans; [apply insert_perm|]. apply perm_skip. exact IH.
Qed.

Lemma in_resort : forall l y, In y (resort l) <-> In y l.
Proof.
  intros l y. split; apply Permutation_in; [apply resort_perm|apply Permutation_sym, resort_perm].
Qed.

Lemma resort_nodup : forall l, NoDup (map r_id l) -> NoDup (map r_id (resort l)).
Proof.
  intros l H. eapply Permutation_NoDup; [|exact H].
  apply Permutation_map. apply Permutation_sym. apply resort_perm.
Qed.

Lemma resort_sorted : forall l, NoDup (map r_id l) -> sorted (resort l).
Proof.
  induction l as [|x tl IH]; intros Hnd; cbn; [constructor|].
  cbn in Hnd. inversion Hnd as [|? ? Hnotin Hnd']; subst.
  apply insert_sorted; [apply IH; assumption|].
  intros y Hy Eid. apply Hnotin. rewrite <- Eid. apply in_map. apply in_resort. assumption.
Qed.

Lemma insert_nodup : forall x l,
  NoDup (map r_id l) -> (forall y, In y l -> r_id y <> r_id x) -> NoDup (map r_id (insert x l)).
Proof.
  intros x l Hnd Hid. eapply Permutation_NoDup.
  - apply Permutation_map. apply Permutation_sym. apply insert_perm.
  - cbn. constructor; [|assumption]. intros Hin. apply in_map_iff in Hin.
    destruct Hin as (y & Ey & Hy). exact (Hid y Hy Ey).
Qed.

Lemma insert_length : forall x l, length (insert x l) = S (length l).
Proof. intros. apply (Permutation_length (insert_perm x l)). Qed.

(* sortedness by offset, hence by rounded start *)
Lemma sorted_off : forall l, sorted l -> StronglySorted (fun x y => r_off x <= r_off y) l.
Proof.
  induction 1; constructor; [assumption|].
  rewrite Forall_forall in *. intros y Hy. apply rlt_off. apply H0. assumption.
Qed.

Lemma sorted_lo_of_sorted : forall a l, 0 < a -> sorted l ->
  StronglySorted (fun x y => r_lo a x <= r_lo a y) l.
Proof.
  intros a l Ha Hs. induction Hs; constructor; [assumption|].
  rewrite Forall_forall in *. intros y Hy. unfold r_lo. apply rd_mono; [assumption|].
  apply rlt_off. apply H. assumption.
Qed.

(* ------------------------------------------------------------------ the reference side *)
Lemma s_find_some : forall id l e, s_find id l = Some e -> In e l /\ s_id e = id.
Proof.
  induction l as [|y tl IH]; intros e H; cbn in H; [discriminate|].
  destruct (Z.eqb_spec (s_id y) id).
  - inversion H; subst. split; [left; reflexivity|reflexivity].
  - destruct (IH _ H). split; [right; assumption|assumption].
Qed.

Lemma s_find_none : forall id l, s_find id l = None -> forall e, In e l -> s_id e <> id.
Proof.
  induction l as [|y tl IH]; intros H e Hin; cbn in H; [destruct Hin|].
  destruct (Z.eqb_spec (s_id y) id); [discriminate|].
  destruct Hin as [<-|Hin]; [assumption|]. apply IH; assumption.
Qed.

Lemma s_find_in : forall l e, NoDup (map s_id l) -> In e l -> s_find (s_id e) l = Some e.
Proof.
  induction l as [|y tl IH]; intros e Hnd Hin; [destruct Hin|].
  cbn in Hnd. inversion Hnd as [|? ? Hnotin Hnd']; subst. cbn.
  destruct Hin as [<-|Hin].
  - rewrite Z.eqb_refl. reflexivity.
  - destruct (Z.eqb_spec (s_id y) (s_id e)) as [E|N].
    + exfalso. apply Hnotin. rewrite E. apply in_map. assumption.
    + apply IH; assumption.
Qed.

Lemma in_s_remove : forall id l y,
  NoDup (map s_id l) -> (In y (s_remove id l) <-> In y l /\ s_id y <> id).
Proof.
  induction l as [|z tl IH]; intros y Hnd; cbn; [tauto|].
  cbn in Hnd. inversion Hnd as [|? ? Hnotin Hnd']; subst.
  destruct (Z.eqb_spec (s_id z) id) as [E|N].
  - split.
    + intros Hy. split; [right; assumption|]. intros Ey. apply Hnotin. rewrite E, <- Ey. apply in_map. assumption.
    + intros [[<-|Hy] Hne]; [congruence|assumption].
  - cbn. rewrite (IH y Hnd'). split.
    + intros [<-|[Hy Hne]]; [split; [left; reflexivity|assumption]|split; [right; assumption|assumption]].
    + intros [[<-|Hy] Hne]; [left; reflexivity|right; split; assumption].
Qed.

Lemma s_remove_incl : forall id l y, In y (s_remove id l) -> In y l.
Proof.
  induction l as [|z tl IH]; intros y H; cbn in H; [assumption|].
  destruct (s_id z =? id); [right; assumption|].
  destruct H as [<-|H]; [left; reflexivity|right; apply IH; assumption].
Qed.

Lemma s_remove_nodup : forall id l, NoDup (map s_id l) -> NoDup (map s_id (s_remove id l)).
Proof.
  induction l as [|z tl IH]; intros Hnd; cbn; [assumption|].
  cbn in Hnd. inversion Hnd as [|? ? Hnotin Hnd']; subst.
  destruct (s_id z =? id); [assumption|].
  cbn. constructor; [|apply IH; assumption].
  intros Hin. apply Hnotin. apply in_map_iff in Hin. destruct Hin as (y & Ey & Hy).
  rewrite <- Ey. apply in_map. eapply s_remove_incl; eassumption.
Qed.
