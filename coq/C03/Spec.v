(* C03/C04 — reference semantics, independent of where the pool places anything.

   A reservation made by reserve() starts a *family* (numbered by a counter, so that handle ids
   may be reused after a release) with its own array of bytes; a slice is a window (logical
   offset, size) into the family of its parent.  Writing through a handle
   updates the family's array, reading a handle returns its window; a byte that was never
   written is None (a fresh reservation holds whatever malloc left there).  resize / shrinkToFit /
   setAlignment do not appear here at all: they must not change what any handle reads.

   The second part states what C04 requires of the accounting: the number of byte positions
   covered by the live ranges after rounding each one out to the alignment. *)
From Coq Require Import List ZArith Bool Lia.
Import ListNotations.
Local Open Scope Z_scope.

Record sres := mkSres {
  s_id : Z;        (* handle *)
  s_fam : Z;       (* family *)
  s_loff : Z;      (* logical offset inside the family *)
  s_sz : Z;        (* size *)
  s_root : bool    (* made by reserve() (true) or by slice() (false) *)
}.

Record sstate := mkS {
  s_live : list sres;          (* live handles *)
  s_mem : Z -> Z -> option Z;  (* family -> logical position -> byte last written, if any *)
  s_next : Z                   (* next family number *)
}.
Definition sstate0 : sstate := mkS [] (fun _ _ => None) 0.

Fixpoint s_find (id : Z) (l : list sres) : option sres :=
  match l with
  | [] => None
  | x :: tl => if s_id x =? id then Some x else s_find id tl
  end.

Fixpoint s_remove (id : Z) (l : list sres) : list sres :=
  match l with
  | [] => []
  | x :: tl => if s_id x =? id then tl else x :: s_remove id tl
  end.

Fixpoint s_write (m : Z -> option Z) (pos : Z) (data : list Z) : Z -> option Z :=
  match data with
  | [] => m
  | x :: tl => s_write (fun p => if p =? pos then Some x else m p) (pos + 1) tl
  end.

Fixpoint s_readn (m : Z -> option Z) (pos : Z) (n : nat) : list (option Z) :=
  match n with
  | O => []
  | S n' => m pos :: s_readn m (pos + 1) n'
  end.

Inductive sop :=
| SReserve (id entries : Z)
| SSlice (id parent off cnt : Z)
| SFree (id : Z)
| SWrite (id off : Z) (data : list Z)
| SOther.                          (* resize, shrinkToFit, setAlignment *)

Definition s_step (s : sstate) (o : sop) : sstate :=
  match o with
  | SReserve id entries =>
      match s_find id (s_live s) with
      | Some _ => s
      | None =>
          if entries <=? 0 then s
          else mkS (mkSres id (s_next s) 0 entries true :: s_live s) (s_mem s) (s_next s + 1)
      end
  | SSlice id parent off cnt =>
      match s_find id (s_live s), s_find parent (s_live s) with
      | Some _, _ => s
      | None, None => s
      | None, Some m =>
          let bytes := if cnt =? -1 then s_sz m - off else cnt in
          (* the requests that memory::slice must refuse *)
          if (bytes <? 0) || negb (off + cnt <=? s_sz m) || (off <? 0) then s
          else mkS (mkSres id (s_fam m) (s_loff m + off) bytes false :: s_live s) (s_mem s) (s_next s)
      end
  | SFree id => mkS (s_remove id (s_live s)) (s_mem s) (s_next s)
  | SWrite id off data =>
      match s_find id (s_live s) with
      | None => s
      | Some m =>
          if (off <? 0) || negb (Z.of_nat (length data) + off <=? s_sz m) then s
          else mkS (s_live s)
                   (fun f => if f =? s_fam m then s_write (s_mem s f) (s_loff m + off) data
                             else s_mem s f)
                   (s_next s)
      end
  | SOther => s
  end.

Definition s_run (s : sstate) (ops : list sop) : sstate := fold_left s_step ops s.

(* what handle id must read back *)
Definition s_read (s : sstate) (id : Z) : option (list (option Z)) :=
  match s_find id (s_live s) with
  | None => None
  | Some m => Some (s_readn (s_mem s (s_fam m)) (s_loff m) (Z.to_nat (s_sz m)))
  end.

(* ------------------------------------------------------------------ C04: measure of a union
   of half-open integer intervals = the number of integers that lie in at least one of them. *)
Definition in_iv (p : Z) (iv : Z * Z) : bool := (fst iv <=? p) && (p <? snd iv).
Definition covered (ivs : list (Z * Z)) (p : Z) : bool := existsb (in_iv p) ivs.

(* number of p in [lo, lo+n) with P p *)
Fixpoint count_from (P : Z -> bool) (lo : Z) (n : nat) : Z :=
  match n with
  | O => 0
  | S n' => (if P lo then 1 else 0) + count_from P (lo + 1) n'
  end.
Definition count (P : Z -> bool) (lo hi : Z) : Z := count_from P lo (Z.to_nat (hi - lo)).

Definition max_end (ivs : list (Z * Z)) : Z := fold_right (fun iv acc => Z.max (snd iv) acc) 0 ivs.

(* all intervals of interest start at or after 0 *)
Definition union_size (ivs : list (Z * Z)) : Z := count (covered ivs) 0 (max_end ivs).

(* a range rounded out to the alignment a: down at the start, up at the end *)
Definition round_out (a : Z) (off sz : Z) : Z * Z :=
  ((off / a) * a, ((off + sz + a - 1) / a) * a).
