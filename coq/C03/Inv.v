(* The invariant that ties the pool model to the reference semantics, and its preservation by
   the operations that do not move reservations: slice (addModeMemoryRef), release
   (removeModeMemoryRef), write. *)
From Coq Require Import List ZArith Bool Lia Sorting.Sorted Sorting.Permutation.
From OV.C03 Require Import Model Spec Statements Arith Buf Count Union Lists.
Import ListNotations.
Local Open Scope Z_scope.

(* handle r of the model is handle e of the reference semantics *)
Definition link (sp : sstate) (r : res) (e : sres) : Prop := s_find (r_id r) (s_live sp) = Some e.

Record Inv (p : pool) (sp : sstate) : Prop := mkInv {
  i_align : 0 < p_align p;
  i_sorted : sorted (p_res p);
  i_nd : NoDup (map r_id (p_res p));
  i_snd : NoDup (map s_id (s_live sp));
  i_link : forall r, In r (p_res p) -> exists e, link sp r e /\ s_sz e = r_sz r;
  i_back : forall e, In e (s_live sp) -> exists r, In r (p_res p) /\ r_id r = s_id e;
  (* every reservation, rounded out, lies inside the buffer *)
  i_bounds : forall r, In r (p_res p) ->
             0 <= r_off r /\ 0 <= r_sz r /\ r_hi (p_align p) r <= p_size p;
  (* C04 *)
  i_reserved : p_reserved p = union_size (ivs (p_align p) (p_res p));
  (* two bytes of two handles are the same byte of the buffer iff they are the same byte of
     the same family *)
  i_J : forall r1 r2 e1 e2 i1 i2,
        In r1 (p_res p) -> In r2 (p_res p) -> link sp r1 e1 -> link sp r2 e2 ->
        0 <= i1 < r_sz r1 -> 0 <= i2 < r_sz r2 ->
        (r_off r1 + i1 = r_off r2 + i2 <-> (s_fam e1 = s_fam e2 /\ s_loff e1 + i1 = s_loff e2 + i2));
  (* every byte that has been written is in the buffer where the handle looks for it *)
  i_mem : forall r e i, In r (p_res p) -> link sp r e -> 0 <= i < r_sz r ->
          byte_ok (bget (p_buf p) (r_off r + i)) (s_mem sp (s_fam e) (s_loff e + i));
  i_oob : p_oob p = false;
  i_tie : p_tie p = false;
  i_fam : forall e, In e (s_live sp) -> s_fam e < s_next sp /\ 0 <= s_loff e /\ 0 <= s_sz e;
  i_fresh : forall f q, s_next sp <= f -> s_mem sp f q = None;
  i_root : forall e e0, In e (s_live sp) -> In e0 (s_live sp) -> s_root e0 = true ->
           s_fam e0 = s_fam e -> s_loff e0 = 0 /\ s_loff e + s_sz e <= s_sz e0
}.

Lemma link_in : forall sp r e, link sp r e -> In e (s_live sp) /\ s_id e = r_id r.
Proof. intros sp r e H. apply s_find_some in H. exact H. Qed.

Lemma link_fun : forall sp r e e', link sp r e -> link sp r e' -> e = e'.
Proof. unfold link. intros. congruence. Qed.

(* the model's and the reference's notion of "this id is free" agree *)
Lemma free_id_agrees : forall p sp id, Inv p sp ->
  (find_res id (p_res p) = None <-> s_find id (s_live sp) = None).
Proof.
  intros p sp id I. split; intros H.
  - destruct (s_find id (s_live sp)) as [e|] eqn:E; [|reflexivity]. exfalso.
    apply s_find_some in E. destruct E as [He Hid].
    destruct (i_back _ _ I e He) as (r & Hr & Hrid).
    eapply find_res_none; [exact H|exact Hr|]. congruence.
  - destruct (find_res id (p_res p)) as [r|] eqn:E; [|reflexivity]. exfalso.
    apply find_res_some in E. destruct E as [Hr Hid].
    destruct (i_link _ _ I r Hr) as (e & Hl & _). unfold link in Hl. rewrite Hid in Hl. congruence.
Qed.

Lemma found_links : forall p sp id r, Inv p sp -> find_res id (p_res p) = Some r ->
  exists e, s_find id (s_live sp) = Some e /\ s_sz e = r_sz r /\ In r (p_res p) /\ r_id r = id.
Proof.
  intros p sp id r I H. apply find_res_some in H. destruct H as [Hr Hid].
  destruct (i_link _ _ I r Hr) as (e & Hl & Hsz). exists e. unfold link in Hl. rewrite Hid in Hl. auto.
Qed.

Lemma r_lo_le_hi : forall a r, 0 < a -> 0 <= r_sz r -> r_lo a r <= r_hi a r.
Proof. intros a r Ha Hsz. unfold r_lo, r_hi. apply rd_le_ru; lia. Qed.

Lemma r_lo_le_off : forall a r, 0 < a -> r_lo a r <= r_off r.
Proof. intros a r Ha. unfold r_lo. pose proof (rd_spec a Ha (r_off r)). lia. Qed.

Lemma r_end_le_hi : forall a r, 0 < a -> r_off r + r_sz r <= r_hi a r.
Proof. intros a r Ha. unfold r_hi. pose proof (ru_spec a Ha (r_off r + r_sz r)). lia. Qed.

Lemma r_lo_nonneg : forall a r, 0 < a -> 0 <= r_off r -> 0 <= r_lo a r.
Proof. intros a r Ha H. unfold r_lo. apply rd_nonneg; assumption. Qed.

Lemma union_size_nil : forall a, union_size (ivs a []) = 0.
Proof. intros a. reflexivity. Qed.

(* ------------------------------------------------------------------ accounting of one range *)
Lemma reserved_add : forall a l x B,
  0 < a -> sorted l -> 0 <= B ->
  (forall r, In r l -> 0 <= r_sz r /\ r_hi a r <= B) ->
  0 <= r_off x -> 0 <= r_sz x -> r_hi a x <= B ->
  forall l', (forall r, In r l' <-> r = x \/ In r l) ->
  union_size (ivs a l') = union_size (ivs a l) + delta fixed a x l.
Proof.
  intros a l x B Ha Hs HB Hl Hx0 Hxs HxB l' Hl'.
  rewrite (union_size_bound a l' B HB).
  2:{ intros r Hr. apply Hl' in Hr. destruct Hr as [->|Hr]; [assumption|apply Hl; assumption]. }
  rewrite (union_size_bound a l B HB) by (intros r Hr; apply Hl; assumption).
  rewrite (count_ext (cov a l') (cov a (x :: l))).
  2:{ intros p _. apply cov_ext. intros r. rewrite Hl'. cbn. intuition congruence. }
  rewrite (union_add a l x B); [|apply r_lo_nonneg; assumption|apply r_lo_le_hi; assumption|assumption].
  f_equal. unfold delta. cbn [v_sub fixed].
  rewrite (delta_fix_spec a l).
  - lia.
  - apply sorted_lo_of_sorted; assumption.
  - intros y Hy. apply r_lo_le_hi; [assumption|]. apply Hl. assumption.
  - apply r_lo_le_hi; assumption.
Qed.

(* ------------------------------------------------------------------ slice: a new handle inside a live one *)
Lemma link_cons_ne : forall sp e0 m' n' r e,
  s_id e0 <> r_id r -> (link (mkS (e0 :: s_live sp) m' n') r e <-> link sp r e).
Proof.
  intros sp e0 m' n' r e Hne. unfold link. cbn.
  destruct (Z.eqb_spec (s_id e0) (r_id r)); [contradiction|]. tauto.
Qed.

Lemma link_cons_eq : forall sp e0 m' n' r e,
  s_id e0 = r_id r -> (link (mkS (e0 :: s_live sp) m' n') r e <-> e = e0).
Proof.
  intros sp e0 m' n' r e He. unfold link. cbn. rewrite He, Z.eqb_refl. split; congruence.
Qed.

Lemma inv_slice : forall p sp id m em off bytes,
  Inv p sp ->
  In m (p_res p) -> link sp m em ->
  find_res id (p_res p) = None ->
  0 <= off -> 0 <= bytes -> off + bytes <= r_sz m ->
  Inv (add_ref fixed p (mkRes id (r_off m + off) bytes))
      (mkS (mkSres id (s_fam em) (s_loff em + off) bytes false :: s_live sp) (s_mem sp) (s_next sp)).
Proof.
  intros p sp id m em off bytes I Hm Hlm Hfree Hoff Hbytes Hfit.
  set (x := mkRes id (r_off m + off) bytes).
  set (e := mkSres id (s_fam em) (s_loff em + off) bytes false).
  pose proof (i_align _ _ I) as Ha.
  assert (Hidx : forall y, In y (p_res p) -> r_id y <> r_id x).
  { intros y Hy. cbn. eapply find_res_none; eassumption. }
  destruct (i_bounds _ _ I m Hm) as (Hm0 & Hmsz & Hmhi).
  destruct (link_in _ _ _ Hlm) as [Hem Hemid].
  destruct (i_link _ _ I m Hm) as (em' & Hlm' & Hemsz). rewrite <- (link_fun _ _ _ _ Hlm Hlm') in Hemsz.
  assert (Hxhi : r_hi (p_align p) x <= p_size p).
  { unfold r_hi in *. cbn. eapply Z.le_trans; [|exact Hmhi]. apply ru_mono; lia. }
  (* links in the new state *)
  assert (Lx : forall e', link (mkS (e :: s_live sp) (s_mem sp) (s_next sp)) x e' <-> e' = e).
  { intros e'. apply link_cons_eq. reflexivity. }
  assert (Lo : forall r e', In r (p_res p) ->
             (link (mkS (e :: s_live sp) (s_mem sp) (s_next sp)) r e' <-> link sp r e')).
  { intros r e' Hr. apply link_cons_ne. cbn. intros E. apply (Hidx r Hr). cbn. congruence. }
  constructor; cbn [p_align p_size p_reserved p_res p_buf p_oob p_tie add_ref set_res s_live s_mem s_next].
  - exact Ha.
  - apply insert_sorted; [apply (i_sorted _ _ I)|exact Hidx].
  - apply insert_nodup; [apply (i_nd _ _ I)|exact Hidx].
  - cbn. constructor; [|apply (i_snd _ _ I)].
    intros Hin. apply in_map_iff in Hin. destruct Hin as (e' & Eid & He').
    destruct (i_back _ _ I e' He') as (r & Hr & Hrid).
    apply (Hidx r Hr). cbn. congruence.
  - intros r Hr. apply in_insert in Hr. destruct Hr as [->|Hr].
    + exists e. split; [apply Lx; reflexivity|reflexivity].
    + destruct (i_link _ _ I r Hr) as (e' & Hl & Hsz). exists e'. split; [apply Lo; assumption|assumption].
  - intros e' [<-|He'].
    + exists x. split; [apply in_insert; left; reflexivity|reflexivity].
    + destruct (i_back _ _ I e' He') as (r & Hr & Hrid). exists r. split; [apply in_insert; right; assumption|assumption].
  - intros r Hr. apply in_insert in Hr. destruct Hr as [->|Hr].
    + cbn [r_off r_sz x]. repeat split; [lia|lia|exact Hxhi].
    + apply (i_bounds _ _ I r Hr).
  - rewrite (i_reserved _ _ I).
    symmetry. apply (reserved_add (p_align p) (p_res p) x (Z.max 0 (p_size p))); try assumption; try lia.
    + apply (i_sorted _ _ I).
    + intros r Hr. destruct (i_bounds _ _ I r Hr) as (_ & A & B). split; [assumption|lia].
    + cbn. lia.
    + intros r. apply in_insert.
  - (* J *)
    intros r1 r2 e1 e2 i1 i2 H1 H2 L1 L2 Hi1 Hi2.
    apply in_insert in H1. apply in_insert in H2.
    destruct H1 as [->|H1]; destruct H2 as [->|H2].
    + apply Lx in L1. apply Lx in L2. subst. cbn. lia.
    + apply Lx in L1. apply (Lo r2 e2 H2) in L2. subst e1. cbn [r_off r_sz x s_fam s_loff e] in *.
      pose proof (i_J _ _ I m r2 em e2 (off + i1) i2 Hm H2 Hlm L2 ltac:(lia) Hi2) as J. lia.
    + apply Lx in L2. apply (Lo r1 e1 H1) in L1. subst e2. cbn [r_off r_sz x s_fam s_loff e] in *.
      pose proof (i_J _ _ I r1 m e1 em i1 (off + i2) H1 Hm L1 Hlm Hi1 ltac:(lia)) as J. lia.
    + apply (Lo r1 e1 H1) in L1. apply (Lo r2 e2 H2) in L2.
      apply (i_J _ _ I r1 r2 e1 e2 i1 i2); assumption.
  - (* contents *)
    intros r e' i Hr L Hi. apply in_insert in Hr. destruct Hr as [->|Hr].
    + apply Lx in L. subst e'. cbn [r_off r_sz x s_fam s_loff e] in *.
      pose proof (i_mem _ _ I m em (off + i) Hm Hlm ltac:(lia)) as M.
      replace (r_off m + off + i) with (r_off m + (off + i)) by lia.
      replace (s_loff em + off + i) with (s_loff em + (off + i)) by lia. exact M.
    + apply (Lo r e' Hr) in L. apply (i_mem _ _ I r e' i Hr L Hi).
  - apply (i_oob _ _ I).
  - apply (i_tie _ _ I).
  - intros e' [<-|He'].
    + destruct (i_fam _ _ I em Hem) as (A & B & C). cbn. repeat split; lia.
    + apply (i_fam _ _ I e' He').
  - apply (i_fresh _ _ I).
  - intros e1 e0 H1 H0 Hroot Hfam.
    destruct H0 as [<-|H0]; [cbn in Hroot; discriminate|].
    destruct H1 as [<-|H1].
    + cbn [s_fam s_loff s_sz e] in *.
      destruct (i_root _ _ I em e0 Hem H0 Hroot Hfam) as [A B]. split; [assumption|lia].
    + apply (i_root _ _ I e1 e0 H1 H0 Hroot Hfam).
Qed.

(* ------------------------------------------------------------------ release *)
Lemma nodup_id_eq : forall l r m, NoDup (map r_id l) -> In r l -> In m l -> r_id r = r_id m -> r = m.
Proof.
  intros l r m Hnd Hr Hm E.
  pose proof (find_res_in l r Hnd Hr) as A. pose proof (find_res_in l m Hnd Hm) as B.
  rewrite E in A. congruence.
Qed.

Lemma s_find_remove_ne : forall id id' l, id' <> id -> s_find id' (s_remove id l) = s_find id' l.
Proof.
  induction l as [|z tl IH]; intros Hne; cbn; [reflexivity|].
  destruct (Z.eqb_spec (s_id z) id) as [E|N].
  - destruct (Z.eqb_spec (s_id z) id'); [congruence|reflexivity].
  - cbn. destruct (Z.eqb_spec (s_id z) id'); [reflexivity|apply IH; assumption].
Qed.

Lemma inv_free : forall p sp id m,
  Inv p sp -> find_res id (p_res p) = Some m ->
  Inv (remove_ref fixed p m) (mkS (s_remove id (s_live sp)) (s_mem sp) (s_next sp)).
Proof.
  intros p sp id m I Hf.
  pose proof (i_align _ _ I) as Ha.
  destruct (find_res_some _ _ _ Hf) as [Hm Hmid].
  set (l' := remove_res (r_id m) (p_res p)).
  assert (Hin' : forall r, In r l' <-> In r (p_res p) /\ r_id r <> id).
  { intros r. unfold l'. rewrite Hmid. apply in_remove_res. apply (i_nd _ _ I). }
  assert (Lo : forall r e, In r l' ->
            (link (mkS (s_remove id (s_live sp)) (s_mem sp) (s_next sp)) r e <-> link sp r e)).
  { intros r e Hr. apply Hin' in Hr. destruct Hr as [_ Hne]. unfold link. cbn.
    rewrite s_find_remove_ne by assumption. tauto. }
  constructor; cbn [p_align p_size p_reserved p_res p_buf p_oob p_tie remove_ref set_res s_live s_mem s_next];
    fold l'.
  - exact Ha.
  - apply remove_res_sorted. apply (i_sorted _ _ I).
  - apply remove_res_nodup. apply (i_nd _ _ I).
  - apply s_remove_nodup. apply (i_snd _ _ I).
  - intros r Hr. pose proof Hr as Hr'. apply Hin' in Hr'. destruct Hr' as [Hr0 _].
    destruct (i_link _ _ I r Hr0) as (e & Hl & Hsz). exists e. split; [apply Lo; assumption|assumption].
  - intros e He. apply in_s_remove in He; [|apply (i_snd _ _ I)]. destruct He as [He Hne].
    destruct (i_back _ _ I e He) as (r & Hr & Hrid). exists r. split; [|assumption].
    apply Hin'. split; [assumption|congruence].
  - intros r Hr. apply Hin' in Hr. apply (i_bounds _ _ I r (proj1 Hr)).
  - rewrite (i_reserved _ _ I).
    destruct (i_bounds _ _ I m Hm) as (A & B & C).
    rewrite (reserved_add (p_align p) l' m (Z.max 0 (p_size p)) Ha) with (l' := p_res p); try lia.
    + apply remove_res_sorted. apply (i_sorted _ _ I).
    + intros r Hr. apply Hin' in Hr. destruct (i_bounds _ _ I r (proj1 Hr)) as (_ & A' & B'). split; lia.
    + intros r. rewrite Hin'. split.
      * intros Hr. destruct (Z.eq_dec (r_id r) id) as [E|N]; [left|right; split; assumption].
        apply (nodup_id_eq (p_res p)); [apply (i_nd _ _ I)|assumption|assumption|congruence].
      * intros [->|[Hr _]]; assumption.
  - intros r1 r2 e1 e2 i1 i2 H1 H2 L1 L2 Hi1 Hi2.
    apply (Lo r1 e1 H1) in L1. apply (Lo r2 e2 H2) in L2.
    apply Hin' in H1. apply Hin' in H2.
    apply (i_J _ _ I r1 r2 e1 e2 i1 i2); tauto.
  - intros r e i Hr L Hi. apply (Lo r e Hr) in L. apply Hin' in Hr.
    apply (i_mem _ _ I r e i (proj1 Hr) L Hi).
  - apply (i_oob _ _ I).
  - apply (i_tie _ _ I).
  - intros e He. apply s_remove_incl in He. apply (i_fam _ _ I e He).
  - apply (i_fresh _ _ I).
  - intros e e0 He He0. apply s_remove_incl in He. apply s_remove_incl in He0.
    apply (i_root _ _ I e e0 He He0).
Qed.

(* ------------------------------------------------------------------ write through a handle *)
Lemma inv_write : forall p sp m em off data,
  Inv p sp -> In m (p_res p) -> link sp m em ->
  0 <= off -> Z.of_nat (length data) + off <= r_sz m ->
  Inv (set_buf p (write_bytes (p_buf p) (r_off m + off) data))
      (mkS (s_live sp)
           (fun f => if f =? s_fam em then s_write (s_mem sp f) (s_loff em + off) data else s_mem sp f)
           (s_next sp)).
Proof.
  intros p sp m em off data I Hm Hlm Hoff Hfit.
  destruct (link_in _ _ _ Hlm) as [Hem _].
  constructor; cbn [p_align p_size p_reserved p_res p_buf p_oob p_tie set_buf s_live s_mem s_next];
    try (apply I).
  - (* contents *)
    intros r e i Hr L Hi. change (link sp r e) in L.
    rewrite bget_write_bytes.
    pose proof (i_mem _ _ I r e i Hr L Hi) as M.
    set (n := Z.of_nat (length data)) in *.
    destruct (Z.leb_spec (r_off m + off) (r_off r + i)) as [A|A];
      [destruct (Z.ltb_spec (r_off r + i) (r_off m + off + n)) as [B|B]|]; cbn [andb].
    + (* the byte is one of the written ones *)
      set (j := r_off r + i - (r_off m + off)).
      pose proof (i_J _ _ I r m e em i (off + j) Hr Hm L Hlm Hi ltac:(unfold j; lia)) as J.
      destruct J as [J _]. destruct (J ltac:(unfold j; lia)) as [Ef El].
      rewrite Ef, Z.eqb_refl. rewrite s_write_get. fold n.
      destruct (Z.leb_spec (s_loff em + off) (s_loff e + i)); [|unfold j in El; lia].
      destruct (Z.ltb_spec (s_loff e + i) (s_loff em + off + n)); [|unfold j in El; lia]. cbn [andb].
      intros v Hv. inversion Hv. f_equal. unfold j in El. lia.
    + destruct (Z.eqb_spec (s_fam e) (s_fam em)) as [Ef|Nf]; [|exact M].
      rewrite s_write_get. fold n.
      destruct (Z.leb_spec (s_loff em + off) (s_loff e + i)) as [C|C];
        [destruct (Z.ltb_spec (s_loff e + i) (s_loff em + off + n)) as [D|D]|]; cbn [andb]; try exact M.
      exfalso. set (j := s_loff e + i - (s_loff em + off)).
      pose proof (i_J _ _ I r m e em i (off + j) Hr Hm L Hlm Hi ltac:(unfold j; lia)) as J.
      destruct J as [_ J]. specialize (J ltac:(split; [assumption|unfold j; lia])). unfold j in J. lia.
    + destruct (Z.eqb_spec (s_fam e) (s_fam em)) as [Ef|Nf]; [|exact M].
      rewrite s_write_get. fold n.
      destruct (Z.leb_spec (s_loff em + off) (s_loff e + i)) as [C|C];
        [destruct (Z.ltb_spec (s_loff e + i) (s_loff em + off + n)) as [D|D]|]; cbn [andb]; try exact M.
      exfalso. set (j := s_loff e + i - (s_loff em + off)).
      pose proof (i_J _ _ I r m e em i (off + j) Hr Hm L Hlm Hi ltac:(unfold j; lia)) as J.
      destruct J as [_ J]. specialize (J ltac:(split; [assumption|unfold j; lia])). unfold j in J. lia.
  - (* families that do not exist yet are still unwritten *)
    intros f q Hf. destruct (i_fam _ _ I em Hem) as (A & _).
    destruct (Z.eqb_spec f (s_fam em)); [lia|]. apply (i_fresh _ _ I). assumption.
Qed.
