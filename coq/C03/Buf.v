(* Pointwise characterisation of the buffer operations of Model.v (the proofs never look at the
   AVL trees again after this file). *)
From Coq Require Import List ZArith Bool Lia FMapFacts OrderedTypeEx.
From OV.C03 Require Import Model Spec Statements.
Import ListNotations.
Local Open Scope Z_scope.

Module ZMF := FMapFacts.WFacts_fun Z_as_OT ZM.

Lemma bget_zero : forall p, bget zero_buf p = 0.
Proof. intros p. unfold bget, zero_buf. rewrite ZMF.empty_o. reflexivity. Qed.

Lemma bget_add : forall b k v p, bget (ZM.add k v b) p = if p =? k then v else bget b p.
Proof.
  intros b k v p. unfold bget. rewrite ZMF.add_o.
  destruct (Z_as_OT.eq_dec k p) as [E|N]; destruct (Z.eqb_spec p k) as [E'|N']; try reflexivity.
  - exfalso. apply N'. symmetry. exact E.
  - exfalso. apply N. symmetry. exact E'.
Qed.

Lemma bget_write_bytes : forall data b pos p,
  bget (write_bytes b pos data) p =
  if (pos <=? p) && (p <? pos + Z.of_nat (length data))
  then nth (Z.to_nat (p - pos)) data 0 else bget b p.
Proof.
  induction data as [|x tl IH]; intros b pos p; cbn [write_bytes length].
  - replace (pos + Z.of_nat 0) with pos by lia.
    destruct (pos <=? p) eqn:A; destruct (p <? pos) eqn:B; cbn; try reflexivity; lia.
  - rewrite IH. rewrite bget_add.
    rewrite Nat2Z.inj_succ.
    destruct (Z.leb_spec (pos + 1) p) as [A|A].
    + destruct (Z.leb_spec pos p) as [A'|A']; [|lia].
      destruct (Z.ltb_spec p (pos + 1 + Z.of_nat (length tl))) as [B|B];
        destruct (Z.ltb_spec p (pos + Z.succ (Z.of_nat (length tl)))) as [B'|B']; try lia; cbn.
      * replace (Z.to_nat (p - pos)) with (S (Z.to_nat (p - (pos + 1)))) by lia. reflexivity.
      * destruct (Z.eqb_spec p pos); [lia|reflexivity].
    + cbn. destruct (Z.eqb_spec p pos) as [->|N].
      * destruct (Z.leb_spec pos pos); [|lia].
        destruct (Z.ltb_spec pos (pos + Z.succ (Z.of_nat (length tl)))); [|lia]. cbn.
        replace (pos - pos) with 0 by lia. reflexivity.
      * destruct (Z.leb_spec pos p); [lia|]. reflexivity.
Qed.

Lemma bget_copy_range : forall n old new d s p,
  bget (copy_range old new d s n) p =
  if (d <=? p) && (p <? d + Z.of_nat n) then bget old (p - d + s) else bget new p.
Proof.
  induction n as [|n IH]; intros old new d s p; cbn [copy_range].
  - replace (d + Z.of_nat 0) with d by lia.
    destruct (d <=? p) eqn:A; destruct (p <? d) eqn:B; cbn; try reflexivity; lia.
  - rewrite IH. rewrite bget_add. rewrite Nat2Z.inj_succ.
    destruct (Z.leb_spec (d + 1) p) as [A|A].
    + destruct (Z.leb_spec d p) as [A'|A']; [|lia].
      destruct (Z.ltb_spec p (d + 1 + Z.of_nat n)) as [B|B];
        destruct (Z.ltb_spec p (d + Z.succ (Z.of_nat n))) as [B'|B']; try lia; cbn.
      * f_equal. lia.
      * destruct (Z.eqb_spec p d); [lia|reflexivity].
    + cbn. destruct (Z.eqb_spec p d) as [->|N].
      * destruct (Z.leb_spec d d); [|lia].
        destruct (Z.ltb_spec d (d + Z.succ (Z.of_nat n))); [|lia]. cbn. f_equal. lia.
      * destruct (Z.leb_spec d p); [lia|]. reflexivity.
Qed.

Definition in_dst (c : Z * Z * Z) (p : Z) : Prop :=
  let '(d, s, n) := c in d <= p < d + n.

Lemma bget_apply_copy : forall old new c p,
  bget (apply_copy old new c) p =
  let '(d, s, n) := c in
  if (d <=? p) && (p <? d + n) then bget old (p - d + s) else bget new p.
Proof.
  intros old new [[d s] n] p. unfold apply_copy. rewrite bget_copy_range.
  destruct (Z.leb_spec d p) as [A|A]; cbn; [|reflexivity].
  destruct (Z.ltb_spec p (d + Z.of_nat (Z.to_nat n))) as [B|B];
    destruct (Z.ltb_spec p (d + n)) as [B'|B']; try reflexivity; lia.
Qed.

Lemma bget_apply_copy_in : forall old new d s n p,
  d <= p < d + n -> bget (apply_copy old new (d, s, n)) p = bget old (p - d + s).
Proof.
  intros. rewrite bget_apply_copy.
  destruct (Z.leb_spec d p); [|lia]. destruct (Z.ltb_spec p (d + n)); [|lia]. reflexivity.
Qed.

Lemma bget_apply_copy_out : forall old new c p,
  ~ in_dst c p -> bget (apply_copy old new c) p = bget new p.
Proof.
  intros old new [[d s] n] p H. rewrite bget_apply_copy. unfold in_dst in H.
  destruct (Z.leb_spec d p); cbn; [|reflexivity]. destruct (Z.ltb_spec p (d + n)); [lia|reflexivity].
Qed.

Lemma bget_apply_copies_out : forall cs old new p,
  (forall c, In c cs -> ~ in_dst c p) -> bget (apply_copies old cs new) p = bget new p.
Proof.
  induction cs as [|c cs IH]; intros old new p H; cbn.
  - reflexivity.
  - unfold apply_copies in IH. rewrite IH.
    + apply bget_apply_copy_out. apply H. left. reflexivity.
    + intros c' Hc. apply H. right. exact Hc.
Qed.

Lemma bget_apply_copies_in : forall cs1 cs2 old new d s n p,
  d <= p < d + n ->
  (forall c, In c cs2 -> ~ in_dst c p) ->
  bget (apply_copies old (cs1 ++ (d, s, n) :: cs2) new) p = bget old (p - d + s).
Proof.
  intros cs1 cs2 old new d s n p Hp Hlater. unfold apply_copies.
  rewrite fold_left_app. cbn [fold_left].
  change (fold_left (apply_copy old) cs2 ?b) with (apply_copies old cs2 b).
  rewrite bget_apply_copies_out by exact Hlater.
  apply bget_apply_copy_in. exact Hp.
Qed.

(* copies with pairwise disjoint destinations *)
Definition dst_disjoint (c1 c2 : Z * Z * Z) : Prop :=
  forall p, in_dst c1 p -> in_dst c2 p -> False.

Lemma triple_eq_dec : forall x y : Z * Z * Z, {x = y} + {x <> y}.
Proof. repeat decide equality. Qed.

Lemma bget_apply_copies_disj : forall cs old new d s n p,
  (forall c1 c2, In c1 cs -> In c2 cs -> c1 <> c2 -> dst_disjoint c1 c2) ->
  In (d, s, n) cs -> d <= p < d + n ->
  bget (apply_copies old cs new) p = bget old (p - d + s).
Proof.
  induction cs as [|c cs IH]; intros old new d s n p Hdisj Hin Hp; [destruct Hin|].
  destruct (in_dec triple_eq_dec (d, s, n) cs) as [Htl|Hntl].
  - cbn. unfold apply_copies in IH. apply (IH old (apply_copy old new c) d s n p); try assumption.
    intros c1 c2 H1 H2. apply Hdisj; right; assumption.
  - destruct Hin as [->|Hin]; [|contradiction].
    change (apply_copies old ((d, s, n) :: cs) new) with (apply_copies old ([] ++ (d, s, n) :: cs) new).
    apply bget_apply_copies_in; [assumption|].
    intros c Hc Hpc. assert (Hne : (d, s, n) <> c) by (intros E; subst c; contradiction).
    apply (Hdisj (d, s, n) c (or_introl eq_refl) (or_intror Hc) Hne p); [exact Hp|exact Hpc].
Qed.

(* reading: every byte that the reference semantics knows is the byte in the buffer *)
Lemma read_bytes_refines : forall n b pos f lpos,
  (forall i, 0 <= i < Z.of_nat n -> byte_ok (bget b (pos + i)) (f (lpos + i))) ->
  Forall2 byte_ok (read_bytes b pos n) (s_readn f lpos n).
Proof.
  induction n as [|n IH]; intros b pos f lpos H; cbn.
  - constructor.
  - constructor.
    + specialize (H 0 ltac:(lia)). rewrite !Z.add_0_r in H. exact H.
    + apply IH. intros i Hi. specialize (H (i + 1) ltac:(lia)).
      replace (pos + 1 + i) with (pos + (i + 1)) by lia.
      replace (lpos + 1 + i) with (lpos + (i + 1)) by lia. exact H.
Qed.

(* the reference semantics' write, pointwise *)
Lemma s_write_get : forall data m pos p,
  s_write m pos data p =
  if (pos <=? p) && (p <? pos + Z.of_nat (length data))
  then Some (nth (Z.to_nat (p - pos)) data 0) else m p.
Proof.
  induction data as [|x tl IH]; intros m pos p; cbn [s_write length].
  - replace (pos + Z.of_nat 0) with pos by lia.
    destruct (pos <=? p) eqn:A; destruct (p <? pos) eqn:B; cbn; try reflexivity; lia.
  - rewrite IH. rewrite Nat2Z.inj_succ.
    destruct (Z.leb_spec (pos + 1) p) as [A|A].
    + destruct (Z.leb_spec pos p) as [A'|A']; [|lia].
      destruct (Z.ltb_spec p (pos + 1 + Z.of_nat (length tl))) as [B|B];
        destruct (Z.ltb_spec p (pos + Z.succ (Z.of_nat (length tl)))) as [B'|B']; try lia; cbn.
      * replace (Z.to_nat (p - pos)) with (S (Z.to_nat (p - (pos + 1)))) by lia. reflexivity.
      * destruct (Z.eqb_spec p pos); [lia|reflexivity].
    + cbn. destruct (Z.eqb_spec p pos) as [->|N].
      * destruct (Z.leb_spec pos pos); [|lia].
        destruct (Z.ltb_spec pos (pos + Z.succ (Z.of_nat (length tl)))); [|lia]. cbn.
        replace (pos - pos) with 0 by lia. reflexivity.
      * destruct (Z.leb_spec pos p); [lia|]. reflexivity.
Qed.
