(* Counting integer points (Spec.count) and the measure of a union of rounded ranges. *)
From Coq Require Import List ZArith Bool Lia Sorting.Sorted Sorting.Permutation.
From OV.C03 Require Import Model Spec Arith.
Import ListNotations.
Local Open Scope Z_scope.

(* ------------------------------------------------------------------ count *)
Lemma count_from_ext : forall n P Q lo,
  (forall p, lo <= p < lo + Z.of_nat n -> P p = Q p) -> count_from P lo n = count_from Q lo n.
Proof.
  induction n as [|n IH]; intros P Q lo H; cbn [count_from]; [reflexivity|].
  rewrite (H lo) by lia. rewrite (IH P Q (lo + 1)); [reflexivity|].
  intros p Hp. apply H. lia.
Qed.

Lemma count_from_app : forall n m P lo,
  count_from P lo (n + m) = count_from P lo n + count_from P (lo + Z.of_nat n) m.
Proof.
  induction n as [|n IH]; intros m P lo; cbn [count_from Nat.add].
  - replace (lo + Z.of_nat 0) with lo by lia. lia.
  - rewrite IH. replace (lo + 1 + Z.of_nat n) with (lo + Z.of_nat (S n)) by lia. lia.
Qed.

Lemma count_from_bounds : forall n P lo, 0 <= count_from P lo n <= Z.of_nat n.
Proof.
  induction n as [|n IH]; intros P lo; cbn [count_from]; [lia|].
  specialize (IH P (lo + 1)). destruct (P lo); lia.
Qed.

Lemma count_ext : forall P Q lo hi,
  (forall p, lo <= p < hi -> P p = Q p) -> count P lo hi = count Q lo hi.
Proof.
  intros P Q lo hi H. unfold count. apply count_from_ext. intros p Hp. apply H. lia.
Qed.

Lemma count_empty : forall P lo hi, hi <= lo -> count P lo hi = 0.
Proof.
  intros P lo hi H. unfold count. replace (Z.to_nat (hi - lo)) with O by lia. reflexivity.
Qed.

Lemma count_split : forall P lo mid hi,
  lo <= mid <= hi -> count P lo hi = count P lo mid + count P mid hi.
Proof.
  intros P lo mid hi H. unfold count.
  replace (Z.to_nat (hi - lo)) with (Z.to_nat (mid - lo) + Z.to_nat (hi - mid))%nat by lia.
  rewrite count_from_app. replace (lo + Z.of_nat (Z.to_nat (mid - lo))) with mid by lia. reflexivity.
Qed.

Lemma count_bounds : forall P lo hi, lo <= hi -> 0 <= count P lo hi <= hi - lo.
Proof.
  intros P lo hi H. unfold count. pose proof (count_from_bounds (Z.to_nat (hi - lo)) P lo). lia.
Qed.

Lemma count_from_all : forall n lo, count_from (fun _ => true) lo n = Z.of_nat n.
Proof. induction n as [|n IH]; intros lo; cbn [count_from]; [reflexivity|]. rewrite IH. lia. Qed.

Lemma count_from_none : forall n lo, count_from (fun _ => false) lo n = 0.
Proof. induction n as [|n IH]; intros lo; cbn [count_from]; [reflexivity|]. rewrite IH. lia. Qed.

Lemma count_all : forall P lo hi,
  lo <= hi -> (forall p, lo <= p < hi -> P p = true) -> count P lo hi = hi - lo.
Proof.
  intros P lo hi H HP. rewrite (count_ext P (fun _ => true) lo hi HP).
  unfold count. rewrite count_from_all. lia.
Qed.

Lemma count_none : forall P lo hi,
  (forall p, lo <= p < hi -> P p = false) -> count P lo hi = 0.
Proof.
  intros P lo hi HP. rewrite (count_ext P (fun _ => false) lo hi HP).
  unfold count. apply count_from_none.
Qed.

Lemma count_from_or : forall n P Q lo,
  count_from (fun p => P p || Q p) lo n =
  count_from Q lo n + count_from (fun p => P p && negb (Q p)) lo n.
Proof.
  induction n as [|n IH]; intros P Q lo; cbn [count_from]; [reflexivity|].
  rewrite IH. destruct (P lo); destruct (Q lo); cbn [orb andb negb]; lia.
Qed.

Lemma count_or : forall P Q lo hi,
  count (fun p => P p || Q p) lo hi = count Q lo hi + count (fun p => P p && negb (Q p)) lo hi.
Proof. intros. unfold count. apply count_from_or. Qed.

Lemma count_from_neg : forall n P lo,
  count_from (fun p => negb (P p)) lo n = Z.of_nat n - count_from P lo n.
Proof.
  induction n as [|n IH]; intros P lo; cbn [count_from]; [reflexivity|].
  rewrite IH. destruct (P lo); cbn [negb]; lia.
Qed.

Lemma count_neg : forall P lo hi,
  lo <= hi -> count (fun p => negb (P p)) lo hi = (hi - lo) - count P lo hi.
Proof. intros. unfold count. rewrite count_from_neg. lia. Qed.

(* a predicate that is false outside [l,h) can be counted on [l,h) alone *)
Lemma count_restrict : forall P lo hi l h,
  lo <= l -> l <= h -> h <= hi ->
  (forall p, P p = true -> l <= p < h) -> count P lo hi = count P l h.
Proof.
  intros P lo hi l h A B C HP.
  rewrite (count_split P lo l hi) by lia. rewrite (count_split P l h hi) by lia.
  rewrite (count_none P lo l), (count_none P h hi); [lia| |].
  - intros p Hp. destruct (P p) eqn:E; [|reflexivity]. apply HP in E. lia.
  - intros p Hp. destruct (P p) eqn:E; [|reflexivity]. apply HP in E. lia.
Qed.

(* ------------------------------------------------------------------ rounded ranges *)
Definition iv_of (a : Z) (r : res) : Z * Z := (r_lo a r, r_hi a r).
Definition ivs (a : Z) (l : list res) : list (Z * Z) := map (iv_of a) l.
Definition cov (a : Z) (l : list res) (p : Z) : bool := covered (ivs a l) p.

Lemma iv_of_round_out : forall a r, iv_of a r = round_out a (r_off r) (r_sz r).
Proof. reflexivity. Qed.

Lemma cov_cons : forall a x l p, cov a (x :: l) p = in_iv p (iv_of a x) || cov a l p.
Proof. reflexivity. Qed.

Lemma cov_true : forall a l p,
  cov a l p = true <-> exists r, In r l /\ r_lo a r <= p < r_hi a r.
Proof.
  intros a l p. unfold cov, covered, ivs. rewrite existsb_exists. split.
  - intros (iv & Hin & Hp). apply in_map_iff in Hin. destruct Hin as (r & <- & Hr).
    exists r. split; [assumption|]. unfold in_iv, iv_of in Hp. cbn in Hp. lia.
  - intros (r & Hr & Hp). exists (iv_of a r). split; [apply in_map; assumption|].
    unfold in_iv, iv_of. cbn. lia.
Qed.

Lemma bool_eq_iff : forall b c : bool, (b = true <-> c = true) -> b = c.
Proof. intros [] [] H; try reflexivity; destruct H; intuition congruence. Qed.

Lemma cov_ext : forall a l l' p,
  (forall r, In r l <-> In r l') -> cov a l p = cov a l' p.
Proof.
  intros a l l' p H. apply bool_eq_iff. rewrite !cov_true.
  split; intros (r & Hr & Hp); exists r; (split; [apply H; assumption|assumption]).
Qed.

Lemma max_end_ge : forall l iv, In iv l -> snd iv <= max_end l.
Proof.
  induction l as [|x l IH]; intros iv Hin; [destruct Hin|].
  change (max_end (x :: l)) with (Z.max (snd x) (max_end l)).
  destruct Hin as [->|H]; [lia|]. specialize (IH _ H). lia.
Qed.

Lemma max_end_nonneg : forall l, 0 <= max_end l.
Proof.
  induction l as [|x l IH]; [cbn; lia|].
  change (max_end (x :: l)) with (Z.max (snd x) (max_end l)). lia.
Qed.

Lemma max_end_le : forall l B, 0 <= B -> (forall iv, In iv l -> snd iv <= B) -> max_end l <= B.
Proof.
  induction l as [|y l IH]; intros B HB Hall; [cbn; lia|].
  change (max_end (y :: l)) with (Z.max (snd y) (max_end l)).
  specialize (IH B HB (fun iv Hin => Hall iv (or_intror Hin))).
  specialize (Hall y (or_introl eq_refl)). lia.
Qed.

Lemma union_size_bound : forall a l B,
  0 <= B ->
  (forall r, In r l -> r_hi a r <= B) ->
  union_size (ivs a l) = count (cov a l) 0 B.
Proof.
  intros a l B HB H. unfold union_size.
  rewrite (count_ext (covered (ivs a l)) (cov a l)) by reflexivity.
  pose proof (max_end_nonneg (ivs a l)) as Hn.
  assert (Hle : max_end (ivs a l) <= B).
  { apply max_end_le; [assumption|].
    intros iv Hin. apply in_map_iff in Hin. destruct Hin as (r & <- & Hr). cbn. apply H. assumption. }
  rewrite (count_split (cov a l) 0 (max_end (ivs a l)) B) by lia.
  rewrite (count_none (cov a l) (max_end (ivs a l)) B); [lia|].
  intros p Hp. destruct (cov a l p) eqn:E; [|reflexivity].
  apply cov_true in E. destruct E as (r & Hr & Hp').
  pose proof (max_end_ge (ivs a l) (iv_of a r) (in_map _ _ _ Hr)) as G. cbn [snd iv_of] in G. lia.
Qed.
