(* reserve (repaired variant): the hole search returns a free aligned place; all three exits put
   the new reservation where nothing else lives, inside the buffer. *)
From Coq Require Import List ZArith Bool Lia Sorting.Sorted Sorting.Permutation.
From OV.C03 Require Import Model Spec Statements Arith Buf Count Union Lists Pack Migrate Inv InvMove Resize.
Import ListNotations.
Local Open Scope Z_scope.

Lemma hole_spec : forall a bytes l offset,
  0 < a -> StronglySorted (fun x y => r_off x <= r_off y) l ->
  aligned a offset -> (forall m, In m l -> 0 <= r_sz m) ->
  let o := hole a bytes offset l in
  offset <= o /\ aligned a o /\ forall m, In m l -> r_end m <= o \/ o + bytes <= r_off m.
Proof.
  intros a bytes l. induction l as [|m tl IH]; intros offset Ha Hs Hal Hsz; cbn.
  - split; [lia|]. split; [assumption|]. intros m [].
  - inversion Hs as [|? ? Hs' Hhd]; subst. rewrite Forall_forall in Hhd.
    destruct (Z.geb_spec (r_off m) (offset + bytes)) as [G|G].
    + split; [lia|]. split; [assumption|].
      intros m' [<-|Hm']; [right; lia|]. specialize (Hhd m' Hm'). right. lia.
    + assert (Hal' : aligned a (Z.max offset (r_hi a m))).
      { destruct (Z.max_spec offset (r_hi a m)) as [[_ ->]|[_ ->]]; [apply ru_aligned|assumption]. }
      destruct (IH (Z.max offset (r_hi a m)) Ha Hs' Hal' (fun m' Hm' => Hsz m' (or_intror Hm'))) as (A & B & C).
      split; [lia|]. split; [assumption|].
      intros m' [<-|Hm'].
      * left. pose proof (r_end_le_hi a m Ha). unfold r_end. lia.
      * apply C. assumption.
Qed.

(* a new root reservation at a free place *)
Lemma inv_new_root : forall p sp id o bytes,
  Inv p sp -> find_res id (p_res p) = None ->
  0 <= o -> 0 < bytes ->
  r_hi (p_align p) (mkRes id o bytes) <= p_size p ->
  (forall m, In m (p_res p) -> r_end m <= o \/ o + bytes <= r_off m) ->
  Inv (add_ref fixed p (mkRes id o bytes))
      (mkS (mkSres id (s_next sp) 0 bytes true :: s_live sp) (s_mem sp) (s_next sp + 1)).
Proof.
  intros p sp id o bytes I Hfree Ho Hbytes Hxhi Hdisj.
  set (x := mkRes id o bytes) in *.
  set (e := mkSres id (s_next sp) 0 bytes true).
  pose proof (i_align _ _ I) as Ha.
  assert (Hidx : forall y, In y (p_res p) -> r_id y <> r_id x).
  { intros y Hy. cbn. eapply find_res_none; eassumption. }
  assert (Lx : forall e', link (mkS (e :: s_live sp) (s_mem sp) (s_next sp + 1)) x e' <-> e' = e).
  { intros e'. apply link_cons_eq. reflexivity. }
  assert (Lo : forall r e', In r (p_res p) ->
             (link (mkS (e :: s_live sp) (s_mem sp) (s_next sp + 1)) r e' <-> link sp r e')).
  { intros r e' Hr. apply link_cons_ne. cbn. intros E. apply (Hidx r Hr). cbn. congruence. }
  constructor; cbn [p_align p_size p_reserved p_res p_buf p_oob p_tie add_ref set_res s_live s_mem s_next].
  - exact Ha.
  - apply insert_sorted; [apply (i_sorted _ _ I)|exact Hidx].
  - apply insert_nodup; [apply (i_nd _ _ I)|exact Hidx].
  - cbn. constructor; [|apply (i_snd _ _ I)].
    intros Hin. apply in_map_iff in Hin. destruct Hin as (e' & Eid & He').
    destruct (i_back _ _ I e' He') as (r & Hr & Hrid).
    apply (Hidx r Hr). cbn. congruence.
  - intros r Hr. apply in_insert in Hr. destruct Hr as [->|Hr].
    + exists e. split; [apply Lx; reflexivity|reflexivity].
    + destruct (i_link _ _ I r Hr) as (e' & Hl & Hsz). exists e'. split; [apply Lo; assumption|assumption].
  - intros e' [<-|He'].
    + exists x. split; [apply in_insert; left; reflexivity|reflexivity].
    + destruct (i_back _ _ I e' He') as (r & Hr & Hrid). exists r. split; [apply in_insert; right; assumption|assumption].
  - intros r Hr. apply in_insert in Hr. destruct Hr as [->|Hr].
    + cbn [r_off r_sz x]. repeat split; [lia|lia|exact Hxhi].
    + apply (i_bounds _ _ I r Hr).
  - rewrite (i_reserved _ _ I).
    symmetry. apply (reserved_add (p_align p) (p_res p) x (Z.max 0 (p_size p))); try assumption; try lia.
    + apply (i_sorted _ _ I).
    + intros r Hr. destruct (i_bounds _ _ I r Hr) as (_ & A & B). split; [assumption|lia].
    + cbn. lia.
    + intros r. apply in_insert.
  - (* J: the new family shares nothing with anybody *)
    intros r1 r2 e1 e2 i1 i2 H1 H2 L1 L2 Hi1 Hi2.
    apply in_insert in H1. apply in_insert in H2.
    destruct H1 as [->|H1]; destruct H2 as [->|H2].
    + apply Lx in L1. apply Lx in L2. subst. cbn. lia.
    + apply Lx in L1. apply (Lo r2 e2 H2) in L2. subst e1. cbn [r_off r_sz x s_fam s_loff e] in *.
      destruct (link_in _ _ _ L2) as [He2 _]. destruct (i_fam _ _ I e2 He2) as (F & _).
      destruct (Hdisj r2 H2); unfold r_end in *; split; intros; lia.
    + apply Lx in L2. apply (Lo r1 e1 H1) in L1. subst e2. cbn [r_off r_sz x s_fam s_loff e] in *.
      destruct (link_in _ _ _ L1) as [He1 _]. destruct (i_fam _ _ I e1 He1) as (F & _).
      destruct (Hdisj r1 H1); unfold r_end in *; split; intros; lia.
    + apply (Lo r1 e1 H1) in L1. apply (Lo r2 e2 H2) in L2.
      apply (i_J _ _ I r1 r2 e1 e2 i1 i2); assumption.
  - intros r e' i Hr L Hi. apply in_insert in Hr. destruct Hr as [->|Hr].
    + apply Lx in L. subst e'. cbn [s_fam s_loff e].
      rewrite (i_fresh _ _ I) by lia. intros v Hv. discriminate.
    + apply (Lo r e' Hr) in L. apply (i_mem _ _ I r e' i Hr L Hi).
  - apply (i_oob _ _ I).
  - apply (i_tie _ _ I).
  - intros e' [<-|He'].
    + cbn. repeat split; lia.
    + destruct (i_fam _ _ I e' He') as (A & B & C). repeat split; lia.
  - intros f q Hf. apply (i_fresh _ _ I). lia.
  - intros e1 e0 H1 H0 Hroot Hfam.
    destruct H0 as [<-|H0]; destruct H1 as [<-|H1].
    + cbn. split; lia.
    + cbn in Hfam. destruct (i_fam _ _ I e1 H1) as (A & _). lia.
    + cbn in Hfam. destruct (i_fam _ _ I e0 H0) as (A & _). lia.
    + apply (i_root _ _ I e1 e0 H1 H0 Hroot Hfam).
Qed.

Lemma reserve_inv : forall p sp d id bytes d1 p1,
  Inv p sp -> find_res id (p_res p) = None -> 0 < bytes ->
  reserve fixed d p id bytes = Some (d1, p1) ->
  Inv p1 (mkS (mkSres id (s_next sp) 0 bytes true :: s_live sp) (s_mem sp) (s_next sp + 1)).
Proof.
  intros p sp d id bytes d1 p1 I Hfree Hbytes H.
  pose proof (i_align _ _ I) as Ha.
  unfold reserve in H. cbn [v_fit v_force fixed] in H.
  set (a := p_align p) in *. set (ab := ru a bytes) in *.
  assert (Hab : bytes <= ab /\ aligned a ab).
  { unfold ab. pose proof (ru_spec a Ha bytes). split; [lia|apply ru_aligned]. }
  (* after a packing resize the end of the reserved region is free *)
  assert (Hend : forall force d' p', resize fixed force d p (p_reserved p + ab) = Some (d', p') ->
            (force = true \/ p_size p <> p_reserved p + ab) ->
            Inv (add_ref fixed p' (mkRes id (p_reserved p') bytes))
                (mkS (mkSres id (s_next sp) 0 bytes true :: s_live sp) (s_mem sp) (s_next sp + 1))).
  { intros force d' p' Hr Hwhy.
    assert (R0 : 0 <= p_reserved p).
    { rewrite (i_reserved _ _ I). unfold union_size. apply count_bounds. apply max_end_nonneg. }
    assert (Hnn : 0 <= p_reserved p + ab) by lia.
    destruct (resize_inv p sp force d _ d' p' I Hnn Hr) as (I' & Eal & Eres & Hpk).
    destruct (Hpk Hwhy) as (Esz & Aln & Hall). rewrite Eal in *. fold a in Esz, Aln, Hall.
    apply inv_new_root; try assumption; try lia.
    - apply (free_id_agrees p' sp id I'). apply (free_id_agrees p sp id I). assumption.
    - rewrite Eal. fold a. unfold r_hi. cbn [r_off r_sz].
      rewrite ru_add_aligned by assumption. fold ab.
      rewrite Esz, Eres. rewrite ru_of_aligned; [lia|assumption|].
      apply aligned_add; [rewrite <- Eres; assumption|apply Hab].
    - intros m Hm. left. specialize (Hall m Hm). pose proof (r_end_le_hi a m Ha). unfold r_end. lia. }
  destruct (Z.gtb_spec (p_reserved p + ab) (p_size p)) as [G|G].
  - destruct (resize fixed false d p (p_reserved p + ab)) as [[d' p']|] eqn:Er; [|discriminate].
    inversion H; subst. apply (Hend false d1 p' Er). right. lia.
  - destruct (p_res p) as [|m0 tl] eqn:El.
    + inversion H; subst.
      assert (R0 : p_reserved p = 0) by (rewrite (i_reserved _ _ I), El; reflexivity).
      apply inv_new_root; try assumption; try lia.
      * rewrite El. reflexivity.
      * fold a. unfold r_hi. cbn [r_off r_sz]. replace (0 + bytes) with bytes by lia. fold ab. lia.
      * rewrite El. intros m [].
    + rewrite <- El in *.
      destruct (hole_spec a bytes (p_res p) 0 Ha (sorted_off _ (i_sorted _ _ I)) (aligned_0 a))
        as (O0 & Oal & Odisj).
      { intros m Hm. apply (i_bounds _ _ I m Hm). }
      set (o := hole a bytes 0 (p_res p)) in *.
      destruct (Z.leb_spec (o + ab) (p_size p)) as [L|L].
      * inversion H; subst.
        apply inv_new_root; try assumption; try lia.
        fold a. unfold r_hi. cbn [r_off r_sz]. rewrite ru_add_aligned by assumption. fold ab. lia.
      * destruct (resize fixed true d p (p_reserved p + ab)) as [[d' p']|] eqn:Er; [|discriminate].
        inversion H; subst. apply (Hend true d1 p' Er). left. reflexivity.
Qed.
