(* Facts about rounding down/up to a positive alignment (Model.rd / Model.ru). *)
From Coq Require Import ZArith Lia.
From OV.C03 Require Import Model.
Local Open Scope Z_scope.

Definition aligned (a x : Z) : Prop := exists k, x = k * a.

Lemma aligned_0 : forall a, aligned a 0.
Proof. intros a; exists 0; lia. Qed.

Lemma aligned_self : forall a, aligned a a.
Proof. intros a; exists 1; lia. Qed.

Lemma aligned_add : forall a x y, aligned a x -> aligned a y -> aligned a (x + y).
Proof. intros a x y [k ->] [j ->]. exists (k + j). lia. Qed.

Lemma aligned_sub : forall a x y, aligned a x -> aligned a y -> aligned a (x - y).
Proof. intros a x y [k ->] [j ->]. exists (k - j). lia. Qed.

Section Rounding.
  Variable a : Z.
  Hypothesis Ha : 0 < a.

  Lemma rd_spec : forall x, rd a x <= x < rd a x + a.
  Proof.
    intros x. unfold rd.
    pose proof (Z.div_mod x a ltac:(lia)) as E.
    pose proof (Z.mod_pos_bound x a Ha) as B.
    rewrite (Z.mul_comm (x / a) a). lia.
  Qed.

  Lemma ru_spec : forall x, x <= ru a x < x + a.
  Proof.
    intros x. unfold ru.
    pose proof (Z.div_mod (x + a - 1) a ltac:(lia)) as E.
    pose proof (Z.mod_pos_bound (x + a - 1) a Ha) as B.
    rewrite (Z.mul_comm ((x + a - 1) / a) a). lia.
  Qed.

  Lemma rd_aligned : forall x, aligned a (rd a x).
  Proof. intros x. exists (x / a). reflexivity. Qed.

  Lemma ru_aligned : forall x, aligned a (ru a x).
  Proof. intros x. exists ((x + a - 1) / a). reflexivity. Qed.

  Lemma rd_of_aligned : forall x, aligned a x -> rd a x = x.
  Proof. intros x [k ->]. unfold rd. rewrite Z.div_mul by lia. reflexivity. Qed.

  Lemma ru_of_aligned : forall x, aligned a x -> ru a x = x.
  Proof.
    intros x [k ->]. unfold ru.
    replace (k * a + a - 1) with ((a - 1) + k * a) by lia.
    rewrite Z.div_add by lia. rewrite (Z.div_small (a - 1) a) by lia. lia.
  Qed.

  Lemma rd_add_aligned : forall k x, aligned a k -> rd a (k + x) = k + rd a x.
  Proof.
    intros k x [j ->]. unfold rd.
    replace (j * a + x) with (x + j * a) by lia.
    rewrite Z.div_add by lia. lia.
  Qed.

  Lemma ru_add_aligned : forall k x, aligned a k -> ru a (k + x) = k + ru a x.
  Proof.
    intros k x [j ->]. unfold ru.
    replace (j * a + x + a - 1) with ((x + a - 1) + j * a) by lia.
    rewrite Z.div_add by lia. lia.
  Qed.

  Lemma rd_mono : forall x y, x <= y -> rd a x <= rd a y.
  Proof.
    intros x y H. unfold rd. apply Z.mul_le_mono_nonneg_r; [lia|].
    apply Z.div_le_mono; lia.
  Qed.

  Lemma ru_mono : forall x y, x <= y -> ru a x <= ru a y.
  Proof.
    intros x y H. unfold ru. apply Z.mul_le_mono_nonneg_r; [lia|].
    apply Z.div_le_mono; lia.
  Qed.

  Lemma rd_nonneg : forall x, 0 <= x -> 0 <= rd a x.
  Proof.
    intros x H. unfold rd. apply Z.mul_nonneg_nonneg; [|lia]. apply Z.div_pos; lia.
  Qed.

  Lemma ru_nonneg : forall x, 0 <= x -> 0 <= ru a x.
  Proof. intros x H. pose proof (ru_spec x). lia. Qed.

  Lemma rd_le_ru : forall x y, x <= y -> rd a x <= ru a y.
  Proof. intros x y H. pose proof (rd_spec x). pose proof (ru_spec y). lia. Qed.

  (* an aligned bound that is above x is above ru x; below x is below rd x *)
  Lemma ru_le_aligned : forall x k, aligned a k -> x <= k -> ru a x <= k.
  Proof.
    intros x k Hk H. rewrite <- (ru_of_aligned k Hk). apply ru_mono; assumption.
  Qed.

  Lemma rd_ge_aligned : forall x k, aligned a k -> k <= x -> k <= rd a x.
  Proof.
    intros x k Hk H. rewrite <- (rd_of_aligned k Hk). apply rd_mono; assumption.
  Qed.

  Lemma ru_0 : ru a 0 = 0.
  Proof. apply ru_of_aligned. apply aligned_0. Qed.

  Lemma aligned_lt_step : forall x y, aligned a x -> aligned a y -> x < y -> x + a <= y.
  Proof.
    intros x y [k ->] [j ->] H.
    assert (k < j) by nia. nia.
  Qed.

  Lemma ru_rd_same_block : forall x, ru a x = rd a x \/ ru a x = rd a x + a.
  Proof.
    intros x. pose proof (rd_spec x). pose proof (ru_spec x).
    destruct (Z.eq_dec (ru a x) (rd a x)) as [|N]; [left; assumption|right].
    assert (rd a x < ru a x) by lia.
    pose proof (aligned_lt_step _ _ (rd_aligned x) (ru_aligned x) H1).
    destruct (Z.eq_dec (ru a x) (rd a x + a)); [assumption|].
    assert (rd a x + a < ru a x) by lia.
    pose proof (aligned_lt_step (rd a x + a) (ru a x)
                  (aligned_add _ _ _ (rd_aligned x) (aligned_self a)) (ru_aligned x) H3).
    lia.
  Qed.
End Rounding.
