(* resize (repaired variant): the invariant is preserved, the reserved bytes stay the same and
   after a migration every reservation lies inside [0, reserved). *)
From Coq Require Import List ZArith Bool Lia Sorting.Sorted Sorting.Permutation.
From OV.C03 Require Import Model Spec Statements Arith Buf Count Union Lists Pack Migrate Inv InvMove.
Import ListNotations.
Local Open Scope Z_scope.

(* destinations of a chain are aligned when the rounding function only returns aligned values *)
Lemma blocks_dst_aligned : forall a g cs d smin dend,
  (forall x, aligned a (g x)) -> aligned a d ->
  blocks_ok g d smin cs dend ->
  aligned a dend /\ forall d' s len, In (d', s, len) cs -> aligned a d'.
Proof.
  intros a g. induction cs as [|[[d0 s0] len0] tl IH]; cbn; intros d smin dend Hga Hd H.
  - subst. split; [assumption|]. intros ? ? ? [].
  - destruct H as (-> & _ & _ & Hrest).
    destruct (IH _ _ _ Hga (aligned_add _ _ _ Hd (Hga len0)) Hrest) as [A B].
    split; [assumption|]. intros d' s len [E|Hin]; [inversion E; subst; assumption|eapply B; eassumption].
Qed.

(* counting the points of a chain of source blocks *)
Lemma count_chain : forall g cs d smin dend (P : Z -> bool) lo0 B,
  blocks_ok g d smin cs dend ->
  (forall d' s len, In (d', s, len) cs -> g len = len /\ s + len <= B) ->
  lo0 <= smin -> lo0 <= B ->
  (forall p, lo0 <= p < B -> (P p = true <-> exists d' s len, In (d', s, len) cs /\ s <= p < s + len)) ->
  count P lo0 B = dend - d.
Proof.
  intros g. induction cs as [|[[d0 s0] len0] tl IH]; cbn [blocks_ok]; intros d smin dend P lo0 B H Hall Hlo HB HP.
  - subst. rewrite count_none; [lia|]. intros p Hp. destruct (P p) eqn:E; [|reflexivity].
    apply HP in E; [|assumption]. destruct E as (? & ? & ? & [] & _).
  - destruct H as (-> & Hs & Hlen & Hrest).
    destruct (Hall d s0 len0 (or_introl eq_refl)) as [Gl Hb].
    assert (Htl : forall d' s len, In (d', s, len) tl -> s0 + len0 + 1 <= s /\ 0 <= len).
    { (* tails start after the head; no need for g's monotonicity here *)
      clear - Hrest. revert Hrest. generalize (d + g len0) as dd. generalize (s0 + len0 + 1) as mm.
      induction tl as [|[[d1 s1] len1] tl IH]; cbn; intros mm dd H d' s len Hin; [destruct Hin|].
      destruct H as (_ & A & Bq & Hrest). destruct Hin as [E|Hin].
      - inversion E; subst. lia.
      - destruct (IH _ _ Hrest _ _ _ Hin). lia. }
    rewrite (count_split P lo0 s0 B) by lia.
    rewrite (count_split P s0 (s0 + len0) B) by lia.
    rewrite (count_none P lo0 s0).
    2:{ intros p Hp. destruct (P p) eqn:E; [|reflexivity]. apply HP in E; [|lia].
        destruct E as (d' & s & len & [Ei|Hin] & Hps); [inversion Ei; subst; lia|].
        destruct (Htl _ _ _ Hin). lia. }
    rewrite (count_all P s0 (s0 + len0)); [|lia|].
    2:{ intros p Hp. apply HP; [lia|]. exists d, s0, len0. split; [left; reflexivity|lia]. }
    rewrite (IH (d + g len0) (s0 + len0 + 1) dend P (s0 + len0) B Hrest); try lia.
    + intros d' s len Hin. apply (Hall d'). right. assumption.
    + intros p Hp. rewrite (HP p ltac:(lia)). split.
      * intros (d' & s & len & [Ei|Hin] & Hps); [inversion Ei; subst; lia|].
        exists d', s, len. split; assumption.
      * intros (d' & s & len & Hin & Hps). exists d', s, len. split; [right; assumption|assumption].
Qed.

Lemma in_combine_both : forall (A B : Type) (l : list A) (l' : list B) a b,
  In (a, b) (combine l l') -> In a l /\ In b l'.
Proof. intros. split; [eapply in_combine_l|eapply in_combine_r]; eassumption. Qed.

Section ResizeMigrate.
  Variable a : Z.
  Hypothesis Ha : 0 < a.

  Let flo := r_lo a.
  Let fhi := r_hi a.
  Let g := ru a.

  Lemma g_ge : forall x, 0 <= x -> x <= g x.
  Proof. intros x _. unfold g. pose proof (ru_spec a Ha x). lia. Qed.

  Lemma g_aligned : forall x, aligned a (g x).
  Proof. intros x. apply ru_aligned. Qed.

  (* facts about one migration with rounded blocks *)
  Lemma round_blocks : forall l l' cs nr,
    pack flo fhi g l = (l', cs, nr) -> l <> [] ->
    (forall m, In m l -> 0 <= r_off m /\ 0 <= r_sz m) ->
    sorted l ->
    blocks_ok g 0 0 cs nr /\ Forall2 (placed flo fhi cs) l l' /\
      aligned a nr /\
      (forall d s len, In (d, s, len) cs ->
         aligned a d /\ aligned a s /\ aligned a len /\ g len = len /\ 0 <= s) /\
      (forall m m', placed flo fhi cs m m' ->
         exists d s len, In (d, s, len) cs /\ r_lo a m' = r_lo a m - s + d /\ r_hi a m' = r_hi a m - s + d /\
                         s <= r_lo a m /\ r_hi a m <= s + len).
  Proof.
    intros l l' cs nr Hpack Hne Hpos Hs.
    assert (Hflf : forall m, In m l -> flo m <= fhi m).
    { intros m Hm. apply r_lo_le_hi; [assumption|apply Hpos; assumption]. }
    assert (Hsf : sorted_flo flo l) by (apply sorted_lo_of_sorted; assumption).
    destruct (pack_spec flo fhi g _ _ _ _ Hpack Hne Hflf Hsf) as (s0 & Hok & Hpl).
    destruct (blocks_dst_aligned a g cs 0 s0 nr g_aligned (aligned_0 a) Hok) as [Anr Ad].
    assert (Hblk : forall d s len, In (d, s, len) cs ->
              aligned a d /\ aligned a s /\ aligned a len /\ g len = len /\ 0 <= s).
    { intros d s len Hin.
      destruct (pack_cover flo fhi g g_ge _ _ _ _ Hpack Hflf Hsf _ _ _ Hin) as [Hc Ht].
      pose proof (blocks_lower g g_ge _ _ _ _ Hok) as [_ Hlow].
      destruct (Hlow _ _ _ Hin) as (_ & _ & L & _).
      assert (As : aligned a s /\ 0 <= s).
      { destruct (Z.eq_dec len 0) as [E0|N0].
        - destruct Ht as (m & m' & (Hcomb & A & _) & B).
          destruct (in_combine_both _ _ _ _ _ _ Hcomb) as [Hm _].
          pose proof (Hflf m Hm). assert (flo m = s) by lia. subst s.
          split; [apply rd_aligned|]. apply r_lo_nonneg; [assumption|apply Hpos; assumption].
        - destruct (Hc s ltac:(lia)) as (m & m' & (Hcomb & A & _) & B).
          destruct (in_combine_both _ _ _ _ _ _ Hcomb) as [Hm _].
          assert (flo m = s) by lia. subst s.
          split; [apply rd_aligned|]. apply r_lo_nonneg; [assumption|apply Hpos; assumption]. }
      destruct As as [As S0].
      assert (Al : aligned a len).
      { destruct Ht as (m & m' & _ & B).
        replace len with ((s + len) - s) by lia. apply aligned_sub; [|assumption].
        rewrite <- B. apply ru_aligned. }
      repeat split; try assumption.
      - eapply Ad; eassumption.
      - unfold g. apply ru_of_aligned; assumption. }
    split.
    { destruct cs as [|[[dd ss] ll] cs']; [exact Hok|].
      cbn in Hok |- *. destruct Hok as (A & _ & B).
      destruct (Hblk dd ss ll (or_introl eq_refl)) as (_ & _ & _ & _ & S0). split; [assumption|]. split; [lia|assumption]. }
    split; [assumption|]. split; [assumption|]. split; [assumption|].
    intros m m' (_ & Esz & d & s & len & Hin & A & B & C).
    destruct (Hblk _ _ _ Hin) as (Ad' & As & _).
    exists d, s, len. split; [assumption|].
    assert (Ads : aligned a (d - s)) by (apply aligned_sub; assumption).
    unfold r_lo, r_hi. rewrite C, Esz.
    replace (r_off m - s + d) with ((d - s) + r_off m) by lia.
    replace (d - s + r_off m + r_sz m) with ((d - s) + (r_off m + r_sz m)) by lia.
    rewrite rd_add_aligned, ru_add_aligned by assumption.
    fold (r_lo a m) (r_hi a m). unfold flo, fhi in *. repeat split; lia.
  Qed.
End ResizeMigrate.

(* ------------------------------------------------------------------ resize *)
Definition packed (p : pool) : Prop :=
  aligned (p_align p) (p_reserved p) /\
  forall r, In r (p_res p) -> r_hi (p_align p) r <= p_reserved p.

Lemma resize_inv : forall p sp force d bytes d1 p1,
  Inv p sp -> 0 <= bytes ->
  resize fixed force d p bytes = Some (d1, p1) ->
  Inv p1 sp /\ p_align p1 = p_align p /\ p_reserved p1 = p_reserved p /\
  ((force = true \/ p_size p <> bytes) -> p_size p1 = ru (p_align p) bytes /\ packed p1).
Proof.
  intros p sp force d bytes d1 p1 I Hb H.
  pose proof (i_align _ _ I) as Ha.
  unfold resize in H.
  destruct (Z.gtb_spec (p_reserved p) bytes) as [G|G]; [discriminate|].
  destruct ((p_size p =? bytes) && negb force) eqn:Eearly.
  { inversion H; subst. split; [assumption|]. split; [reflexivity|]. split; [reflexivity|].
    intros [->|N]; apply andb_prop in Eearly; destruct Eearly as [E1 E2]; [discriminate|].
    apply Z.eqb_eq in E1. contradiction. }
  destruct (p_res p) as [|m0 tl] eqn:El.
  - (* no reservations: a fresh buffer *)
    inversion H; subst; clear H.
    assert (R0 : p_reserved p = 0) by (rewrite (i_reserved _ _ I), El; reflexivity).
    split; [|split; [reflexivity|split; [reflexivity|]]].
    + constructor; cbn [p_align p_size p_reserved p_res p_buf p_oob p_tie]; try (apply I).
      * constructor.
      * constructor.
      * intros r [].
      * intros e He. destruct (i_back _ _ I e He) as (r & Hr & _). rewrite El in Hr. destruct Hr.
      * intros r [].
      * rewrite R0. reflexivity.
      * intros r1 r2 e1 e2 i1 i2 [].
      * intros r e i [].
    + intros _. split; [reflexivity|]. split; cbn; [rewrite R0; apply aligned_0|intros r []].
  - (* migration *)
    cbn [v_round fixed] in H.
    set (a := p_align p) in *.
    destruct (pack (r_lo a) (r_hi a) (ru a) (m0 :: tl)) as [[l' cs] nr] eqn:Epack.
    inversion H; subst d1 p1; clear H.
    rewrite <- El in Epack.
    assert (Hne : p_res p <> []) by (rewrite El; discriminate).
    assert (Hpos : forall m, In m (p_res p) -> 0 <= r_off m /\ 0 <= r_sz m).
    { intros m Hm. destruct (i_bounds _ _ I m Hm) as (A & B & _). split; assumption. }
    destruct (round_blocks a Ha _ _ _ _ Epack Hne Hpos (i_sorted _ _ I))
      as (Hok & Hpl & Anr & Hblk & Hround).
    assert (Hflf : forall m, In m (p_res p) -> r_lo a m <= r_hi a m).
    { intros m Hm. apply r_lo_le_hi; [assumption|apply Hpos; assumption]. }
    assert (Hsf : sorted_flo (r_lo a) (p_res p)) by (apply sorted_lo_of_sorted; [assumption|apply (i_sorted _ _ I)]).
    pose proof (blocks_lower (ru a) (g_ge a Ha) _ _ _ _ Hok) as [Hnr0 Hlow].
    (* every reservation ends up, rounded out, inside [0, nr) *)
    assert (Hin_nr : forall m m', placed (r_lo a) (r_hi a) cs m m' -> r_hi a m' <= nr).
    { intros m m' Hp. destruct (Hround m m' Hp) as (dd & s & len & Hin & _ & E2 & _ & E4).
      destruct (Hlow _ _ _ Hin) as (_ & _ & L & E). destruct (Hblk _ _ _ Hin) as (_ & _ & _ & Gl & _).
      rewrite Gl in E. lia. }
    assert (Hsrc : forall dd s len, In (dd, s, len) cs -> 0 <= s /\ s + len <= p_size p).
    { intros dd s len Hin. destruct (Hblk _ _ _ Hin) as (_ & _ & _ & _ & S0). split; [assumption|].
      apply (pack_upper (r_lo a) (r_hi a) (ru a) _ _ _ _ (p_size p) Epack) with (d := dd); [|assumption].
      intros m Hm. apply (i_bounds _ _ I m Hm). }
    (* the old reserved bytes are exactly the blocks *)
    assert (Hold : p_reserved p = nr).
    { rewrite (i_reserved _ _ I). fold a.
      rewrite (union_size_bound a (p_res p) (Z.max 0 (p_size p))); [|lia|].
      2:{ intros r Hr. destruct (i_bounds _ _ I r Hr) as (_ & _ & C). fold a in C. lia. }
      replace nr with (nr - 0) by lia.
      apply (count_chain (ru a) cs 0 0 nr (cov a (p_res p)) 0 (Z.max 0 (p_size p)) Hok); try lia.
      - intros dd s len Hin. destruct (Hblk _ _ _ Hin) as (_ & _ & _ & Gl & _). split; [assumption|].
        destruct (Hsrc _ _ _ Hin). lia.
      - intros q Hq. rewrite cov_true. split.
        + intros (r & Hr & Hqr).
          destruct (Forall2_in_l _ _ _ _ _ r Hpl Hr) as (r' & _ & Hp).
          destruct Hp as (_ & _ & dd & s & len & Hin & A & B & _).
          exists dd, s, len. split; [assumption|lia].
        + intros (dd & s & len & Hin & Hqs).
          destruct (pack_cover (r_lo a) (r_hi a) (ru a) (g_ge a Ha) _ _ _ _ Epack Hflf Hsf _ _ _ Hin) as [Hc _].
          destruct (Hc q Hqs) as (m & m' & (Hcomb & _) & Hqm).
          destruct (in_combine_both _ _ _ _ _ _ Hcomb) as [Hm _].
          exists m. split; assumption. }
    assert (Hnrab : nr <= ru a bytes) by (pose proof (ru_spec a Ha bytes); lia).
    (* the new reserved bytes: everything in [0, nr) is covered *)
    assert (Hnew : nr = union_size (ivs a (resort l'))).
    { rewrite (union_size_bound a (resort l') nr Hnr0).
      2:{ intros r Hr. apply (proj1 (in_resort _ _)) in Hr.
          destruct (Forall2_in_r _ _ _ _ _ r Hpl Hr) as (m & _ & Hp). eapply Hin_nr; eassumption. }
      rewrite count_all; [lia|lia|].
      intros q Hq. apply cov_true.
      destruct (blocks_tile (ru a) cs 0 0 nr q Hok Hq) as (dd & s & len & Hin & Hqd).
      destruct (Hblk _ _ _ Hin) as (Ad & As & _ & Gl & _). rewrite Gl in Hqd.
      destruct (pack_cover (r_lo a) (r_hi a) (ru a) (g_ge a Ha) _ _ _ _ Epack Hflf Hsf _ _ _ Hin) as [Hc _].
      destruct (Hc (q - dd + s) ltac:(lia)) as (m & m' & (Hcomb & _ & Hoff) & Hqm).
      destruct (Forall2_combine _ _ _ _ _ _ _ Hpl Hcomb) as ((_ & Esz & _) & Hm & Hm').
      exists m'. split; [apply in_resort; assumption|].
      assert (Ads : aligned a (dd - s)) by (apply aligned_sub; assumption).
      unfold r_lo, r_hi. rewrite Hoff, Esz.
      replace (r_off m - s + dd) with ((dd - s) + r_off m) by lia.
      replace (dd - s + r_off m + r_sz m) with ((dd - s) + (r_off m + r_sz m)) by lia.
      rewrite rd_add_aligned, ru_add_aligned by assumption.
      fold (r_lo a m) (r_hi a m). lia. }
    assert (Hcopies : forallb (copy_ok (p_size p) (ru a bytes)) cs = true).
    { apply (mig_copy_ok (ru a) (g_ge a Ha) cs 0 nr Hok); assumption. }
    rewrite Hcopies, (i_oob _ _ I), (i_tie _ _ I). cbn [negb orb andb v_resort fixed after_move].
    split; [|split; [reflexivity|split; [cbn; lia|]]].
    + apply (inv_moved (r_lo a) (r_hi a) (ru a) (g_ge a Ha) p sp l' cs nr a (ru a bytes) (p_gen p + 1) I Hne Epack);
        try assumption.
      * intros m Hm. split; [apply r_lo_le_off; assumption|apply r_end_le_hi; assumption].
      * intros m m' _ Hp. pose proof (Hin_nr m m' Hp). lia.
    + intros _. split; [reflexivity|]. split; cbn [p_align p_reserved p_res]; [assumption|].
      intros r Hr. apply (proj1 (in_resort _ _)) in Hr.
      destruct (Forall2_in_r _ _ _ _ _ r Hpl Hr) as (m & _ & Hp). eapply Hin_nr; eassumption.
Qed.
