(* Consequences of the block structure (Pack.v) for a migration: which bytes coincide after the
   move, what the new buffer holds, where everything ends up. Generic in the loop's view of a
   reservation (flo/fhi) and the rounding of a block (g). *)
From Coq Require Import List ZArith Bool Lia Sorting.Sorted.
From OV.C03 Require Import Model Spec Arith Buf Pack.
Import ListNotations.
Local Open Scope Z_scope.

Lemma Forall2_in_r : forall (A B : Type) (P : A -> B -> Prop) l l' b,
  Forall2 P l l' -> In b l' -> exists a, In a l /\ P a b.
Proof.
  intros A B P l l' b F. induction F; intros Hin; [destruct Hin|].
  destruct Hin as [<-|Hin]; [exists x; split; [left; reflexivity|assumption]|].
  destruct (IHF Hin) as (a & Ha & Hp). exists a. split; [right; assumption|assumption].
Qed.

Lemma Forall2_in_l : forall (A B : Type) (P : A -> B -> Prop) l l' a,
  Forall2 P l l' -> In a l -> exists b, In b l' /\ P a b.
Proof.
  intros A B P l l' a F. induction F; intros Hin; [destruct Hin|].
  destruct Hin as [<-|Hin]; [exists y; split; [left; reflexivity|assumption]|].
  destruct (IHF Hin) as (b & Hb & Hp). exists b. split; [right; assumption|assumption].
Qed.

Lemma Forall2_combine : forall (A B : Type) (P : A -> B -> Prop) l l' a b,
  Forall2 P l l' -> In (a, b) (combine l l') -> P a b /\ In a l /\ In b l'.
Proof.
  intros A B P l l' a b F. induction F; intros Hin; [destruct Hin|].
  cbn in Hin. destruct Hin as [E|Hin].
  - inversion E; subst. repeat split; [assumption|left; reflexivity|left; reflexivity].
  - destruct (IHF Hin) as (Hp & Ha & Hb). repeat split; [assumption|right; assumption|right; assumption].
Qed.

Section Migrate.
  Variables (flo fhi : res -> Z) (g : Z -> Z).
  Hypothesis Hg : forall x, 0 <= x -> x <= g x.

  Variables (cs : list (Z * Z * Z)) (s0 nr : Z).
  Hypothesis Hok : blocks_ok g 0 s0 cs nr.

  Definition contains (m : res) : Prop := flo m <= r_off m /\ r_off m + r_sz m <= fhi m.

  Lemma placed_ids : forall l l', Forall2 (placed flo fhi cs) l l' -> map r_id l' = map r_id l.
  Proof.
    intros l l' F. induction F; cbn; [reflexivity|].
    destruct H as (A & _). rewrite A, IHF. reflexivity.
  Qed.

  (* positions coincide after the move iff they coincided before *)
  Lemma mig_coincide : forall m1 m1' m2 m2' i1 i2,
    placed flo fhi cs m1 m1' -> placed flo fhi cs m2 m2' ->
    contains m1 -> contains m2 ->
    0 <= i1 < r_sz m1 -> 0 <= i2 < r_sz m2 ->
    (r_off m1' + i1 = r_off m2' + i2 <-> r_off m1 + i1 = r_off m2 + i2).
  Proof.
    intros m1 m1' m2 m2' i1 i2 (_ & _ & d1 & s1 & len1 & Hin1 & A1 & B1 & C1)
           (_ & _ & d2 & s2 & len2 & Hin2 & A2 & B2 & C2) [K1 K1'] [K2 K2'] Hi1 Hi2.
    pose proof (blocks_order g Hg _ _ _ _ Hok _ _ _ _ _ _ Hin1 Hin2) as [O1 O2].
    pose proof (blocks_order g Hg _ _ _ _ Hok _ _ _ _ _ _ Hin2 Hin1) as [O3 _].
    pose proof (blocks_lower g Hg _ _ _ _ Hok) as [_ Hlow].
    destruct (Hlow _ _ _ Hin1) as (_ & _ & L1 & _). destruct (Hlow _ _ _ Hin2) as (_ & _ & L2 & _).
    pose proof (Hg len1 L1). pose proof (Hg len2 L2).
    rewrite C1, C2.
    destruct (Z.lt_trichotomy s1 s2) as [Hlt|[Heq|Hgt]].
    - destruct (O1 Hlt). split; intros; lia.
    - destruct (O2 Heq). subst. split; intros; lia.
    - destruct (O3 Hgt). split; intros; lia.
  Qed.

  Lemma blocks_dst_disjoint : forall c1 c2, In c1 cs -> In c2 cs -> c1 <> c2 -> dst_disjoint c1 c2.
  Proof.
    intros [[d1 s1] len1] [[d2 s2] len2] Hin1 Hin2 Hne p H1 H2. unfold in_dst in *.
    pose proof (blocks_order g Hg _ _ _ _ Hok _ _ _ _ _ _ Hin1 Hin2) as [O1 O2].
    pose proof (blocks_order g Hg _ _ _ _ Hok _ _ _ _ _ _ Hin2 Hin1) as [O3 _].
    pose proof (blocks_lower g Hg _ _ _ _ Hok) as [_ Hlow].
    destruct (Hlow _ _ _ Hin1) as (_ & _ & L1 & _). destruct (Hlow _ _ _ Hin2) as (_ & _ & L2 & _).
    pose proof (Hg len1 L1). pose proof (Hg len2 L2).
    destruct (Z.lt_trichotomy s1 s2) as [Hlt|[Heq|Hgt]].
    - destruct (O1 Hlt). lia.
    - destruct (O2 Heq). subst. apply Hne. reflexivity.
    - destruct (O3 Hgt). lia.
  Qed.

  (* the new buffer holds at the new place what the old one held at the old place *)
  Lemma mig_contents : forall old new m m' i,
    placed flo fhi cs m m' -> contains m -> 0 <= i < r_sz m ->
    bget (apply_copies old cs new) (r_off m' + i) = bget old (r_off m + i).
  Proof.
    intros old new m m' i (_ & _ & d & s & len & Hin & A & B & C) [K K'] Hi.
    rewrite (bget_apply_copies_disj cs old new d s len).
    - f_equal. lia.
    - apply blocks_dst_disjoint.
    - exact Hin.
    - lia.
  Qed.

  (* everything lands inside [0, nr) *)
  Lemma mig_bounds : forall m m',
    placed flo fhi cs m m' -> contains m -> 0 <= r_sz m ->
    0 <= r_off m' /\ r_off m' + r_sz m' <= nr /\
    exists d s len, In (d, s, len) cs /\ 0 <= d /\ d + g len <= nr /\ 0 <= len /\
                    s <= flo m /\ fhi m <= s + len /\ r_off m' = r_off m - s + d.
  Proof.
    intros m m' (_ & Hsz & d & s & len & Hin & A & B & C) [K K'] Hs.
    pose proof (blocks_lower g Hg _ _ _ _ Hok) as [_ Hlow].
    destruct (Hlow _ _ _ Hin) as (_ & D0 & L & E).
    pose proof (Hg len L).
    split; [lia|]. split; [rewrite Hsz; lia|].
    exists d, s, len. repeat split; try assumption; lia.
  Qed.

  (* the blocks tile [0, nr) *)
  Lemma blocks_tile : forall cs' d smin dend p,
    blocks_ok g d smin cs' dend -> d <= p < dend ->
    exists d' s len, In (d', s, len) cs' /\ d' <= p < d' + g len.
  Proof.
    induction cs' as [|[[d0 s0'] len0] tl IH]; cbn; intros d smin dend p H Hp.
    - lia.
    - destruct H as (-> & Hs & Hlen & Hrest).
      destruct (Z_lt_le_dec p (d + g len0)) as [Hlt|Hge].
      + exists d, s0', len0. split; [left; reflexivity|lia].
      + destruct (IH _ _ _ p Hrest ltac:(lia)) as (d' & s & len & Hin & Hp').
        exists d', s, len. split; [right; assumption|assumption].
  Qed.

  (* copies stay inside both buffers *)
  Lemma mig_copy_ok : forall oldsz newsz,
    nr <= newsz ->
    (forall d s len, In (d, s, len) cs -> 0 <= s /\ s + len <= oldsz) ->
    forallb (copy_ok oldsz newsz) cs = true.
  Proof.
    intros oldsz newsz Hnr Hsrc. apply forallb_forall. intros [[d s] len] Hin.
    pose proof (blocks_lower g Hg _ _ _ _ Hok) as [_ Hlow].
    destruct (Hlow _ _ _ Hin) as (_ & D0 & L & E). pose proof (Hg len L).
    destruct (Hsrc _ _ _ Hin) as [S0 S1].
    unfold copy_ok. rewrite !andb_true_iff. repeat split; apply Z.leb_le; lia.
  Qed.
End Migrate.
