(* The invariant across a migration (resize with reservations, setAlignment with reservations). *)
From Coq Require Import List ZArith Bool Lia Sorting.Sorted Sorting.Permutation.
From OV.C03 Require Import Model Spec Statements Arith Buf Count Union Lists Pack Migrate Inv.
Import ListNotations.
Local Open Scope Z_scope.

Section Moved.
  Variables (flo fhi : res -> Z) (g : Z -> Z).
  Hypothesis Hg : forall x, 0 <= x -> x <= g x.

  (* what is specific to the loop is passed in as hypotheses: bounds and accounting *)
  Lemma inv_moved : forall p sp l' cs nr a1 sz1 gen1,
    Inv p sp ->
    p_res p <> [] ->
    pack flo fhi g (p_res p) = (l', cs, nr) ->
    (forall m, In m (p_res p) -> contains flo fhi m) ->
    sorted_flo flo (p_res p) ->
    0 < a1 ->
    (forall m m', In m (p_res p) -> placed flo fhi cs m m' -> r_hi a1 m' <= sz1) ->
    nr = union_size (ivs a1 (resort l')) ->
    Inv (mkPool a1 sz1 nr (resort l') (apply_copies (p_buf p) cs zero_buf) gen1 false false) sp.
  Proof.
    intros p sp l' cs nr a1 sz1 gen1 I Hne Hpack Hcont Hsf Ha1 Hb Hres.
    assert (Hflf : forall m, In m (p_res p) -> flo m <= fhi m).
    { intros m Hm. destruct (Hcont m Hm). destruct (i_bounds _ _ I m Hm) as (_ & ? & _). lia. }
    destruct (pack_spec flo fhi g _ _ _ _ Hpack Hne Hflf Hsf) as (s0 & Hok & Hpl).
    pose proof (placed_ids flo fhi cs _ _ Hpl) as Hids.
    assert (Hback : forall r', In r' (resort l') ->
              exists m, In m (p_res p) /\ placed flo fhi cs m r').
    { intros r' Hr'. apply (proj1 (in_resort _ _)) in Hr'. exact (Forall2_in_r _ _ _ _ _ r' Hpl Hr'). }
    assert (Hnd' : NoDup (map r_id l')) by (rewrite Hids; apply (i_nd _ _ I)).
    constructor; cbn [p_align p_size p_reserved p_res p_buf p_oob p_tie].
    - exact Ha1.
    - apply resort_sorted. exact Hnd'.
    - apply resort_nodup. exact Hnd'.
    - apply (i_snd _ _ I).
    - intros r' Hr'. destruct (Hback r' Hr') as (m & Hm & Hp).
      destruct (i_link _ _ I m Hm) as (e & Hl & Hsz). destruct Hp as (Eid & Esz & _).
      exists e. split; [unfold link in *; rewrite Eid; exact Hl|congruence].
    - intros e He. destruct (i_back _ _ I e He) as (m & Hm & Hmid).
      destruct (Forall2_in_l _ _ _ _ _ m Hpl Hm) as (r' & Hr' & (Eid & _)).
      exists r'. split; [apply in_resort; assumption|congruence].
    - intros r' Hr'. destruct (Hback r' Hr') as (m & Hm & Hp).
      destruct (i_bounds _ _ I m Hm) as (_ & Hsz & _).
      destruct (mig_bounds flo fhi g Hg cs s0 nr Hok m r' Hp (Hcont m Hm) Hsz) as (A & _ & _).
      pose proof (Hb m r' Hm Hp) as B.
      destruct Hp as (_ & Esz & _). split; [assumption|]. split; [lia|exact B].
    - exact Hres.
    - (* J *)
      intros r1 r2 e1 e2 i1 i2 H1 H2 L1 L2 Hi1 Hi2.
      destruct (Hback r1 H1) as (m1 & Hm1 & Hp1). destruct (Hback r2 H2) as (m2 & Hm2 & Hp2).
      pose proof Hp1 as (Eid1 & Esz1 & _). pose proof Hp2 as (Eid2 & Esz2 & _).
      assert (L1' : link sp m1 e1) by (unfold link in *; rewrite <- Eid1; exact L1).
      assert (L2' : link sp m2 e2) by (unfold link in *; rewrite <- Eid2; exact L2).
      rewrite (mig_coincide flo fhi g Hg cs s0 nr Hok m1 r1 m2 r2 i1 i2 Hp1 Hp2 (Hcont m1 Hm1) (Hcont m2 Hm2))
        by lia.
      apply (i_J _ _ I m1 m2 e1 e2 i1 i2); try assumption; lia.
    - (* contents *)
      intros r' e i Hr' L Hi.
      destruct (Hback r' Hr') as (m & Hm & Hp). pose proof Hp as (Eid & Esz & _).
      assert (L' : link sp m e) by (unfold link in *; rewrite <- Eid; exact L).
      rewrite (mig_contents flo fhi g Hg cs s0 nr Hok (p_buf p) zero_buf m r' i Hp (Hcont m Hm)) by lia.
      apply (i_mem _ _ I m e i Hm L'). lia.
    - reflexivity.
    - reflexivity.
    - apply (i_fam _ _ I).
    - apply (i_fresh _ _ I).
    - apply (i_root _ _ I).
  Qed.
End Moved.
