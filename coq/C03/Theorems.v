(* From the invariant to the statements of C03. *)
From Coq Require Import List ZArith Bool Lia Sorting.Sorted.
From OV.C03 Require Import Model Spec Statements Arith Buf Count Union Lists Inv Proofs.
Import ListNotations.
Local Open Scope Z_scope.

Lemma inv_gives_inv_pool : forall p sp, Inv p sp -> Inv_pool p sp.
Proof.
  intros p sp I. pose proof (i_align _ _ I) as Ha.
  unfold Inv_pool. repeat split.
  - apply (i_bounds _ _ I r H).
  - apply (i_bounds _ _ I r H).
  - destruct (i_bounds _ _ I r H) as (_ & _ & C). pose proof (r_end_le_hi (p_align p) r Ha). lia.
  - intros r1 r2 e1 e2 q H1 H2 L1 L2 [A1 B1] [A2 B2].
    pose proof (i_J _ _ I r1 r2 e1 e2 (q - r_off r1) (q - r_off r2) H1 H2 L1 L2 ltac:(lia) ltac:(lia)) as [J _].
    apply J. lia.
  - destruct H5 as [A B].
    destruct (link_in _ _ _ H1) as [He _]. destruct (link_in _ _ _ H2) as [He0 _].
    destruct (i_root _ _ I e e0 He He0 H3 H4) as [R0 R1].
    destruct (i_link _ _ I r0 H0) as (e0' & L0 & Esz0). rewrite <- (link_fun _ _ _ _ H2 L0) in Esz0.
    destruct (i_link _ _ I r H) as (e' & L' & Esz). rewrite <- (link_fun _ _ _ _ H1 L') in Esz.
    destruct (i_fam _ _ I e He) as (_ & F0 & _).
    set (i := q - r_off r). set (i0 := s_loff e + i).
    pose proof (i_J _ _ I r r0 e e0 i i0 H H0 H1 H2 ltac:(unfold i; lia) ltac:(unfold i0, i; lia)) as [_ J].
    specialize (J ltac:(split; [congruence|unfold i0; lia])). unfold i0, i in J. lia.
  - destruct H5 as [A B].
    destruct (link_in _ _ _ H1) as [He _]. destruct (link_in _ _ _ H2) as [He0 _].
    destruct (i_root _ _ I e e0 He He0 H3 H4) as [R0 R1].
    destruct (i_link _ _ I r0 H0) as (e0' & L0 & Esz0). rewrite <- (link_fun _ _ _ _ H2 L0) in Esz0.
    destruct (i_link _ _ I r H) as (e' & L' & Esz). rewrite <- (link_fun _ _ _ _ H1 L') in Esz.
    destruct (i_fam _ _ I e He) as (_ & F0 & _).
    set (i := q - r_off r). set (i0 := s_loff e + i).
    pose proof (i_J _ _ I r r0 e e0 i i0 H H0 H1 H2 ltac:(unfold i; lia) ltac:(unfold i0, i; lia)) as [_ J].
    specialize (J ltac:(split; [congruence|unfold i0; lia])). unfold i0, i in J. lia.
  - apply (i_oob _ _ I).
  - apply (i_tie _ _ I).
  - apply (i_sorted _ _ I).
Qed.

Lemma inv_gives_reads : forall s sp id, Inv (snd s) sp -> reads_ok (read s id) (s_read sp id).
Proof.
  intros [d p] sp id I. unfold read, s_read, reads_ok. cbn [snd] in *.
  destruct (find_res id (p_res p)) as [m|] eqn:Ef.
  - destruct (found_links _ _ _ _ I Ef) as (e & Esp & Esz & Hm & Hid). rewrite Esp, Esz.
    apply read_bytes_refines. intros i Hi.
    destruct (i_bounds _ _ I m Hm) as (_ & Hs & _).
    apply (i_mem _ _ I m e i Hm); [unfold link; rewrite Hid; assumption|lia].
  - rewrite (proj1 (free_id_agrees p sp id I) Ef). exact Logic.I.
Qed.

Theorem pool_invariant_holds : forall ops, ops_ok ops ->
  Inv_pool (snd (run fixed state0 ops)) (s_run sstate0 (map sop_of ops)).
Proof. intros ops H. apply inv_gives_inv_pool. apply (run_inv ops H). Qed.

Theorem contents_are_preserved : forall ops id, ops_ok ops ->
  reads_ok (read (run fixed state0 ops) id) (s_read (s_run sstate0 (map sop_of ops)) id).
Proof. intros ops id H. apply inv_gives_reads. apply (run_inv ops H). Qed.

(* growing, compacting and re-aligning are invisible to the reference semantics, so the two
   theorems above already say that they change nothing a handle reads *)
Lemma moving_ops_invisible : forall sp b a,
  s_step sp (sop_of (OResize b)) = sp /\ s_step sp (sop_of OShrink) = sp /\ s_step sp (sop_of (OAlign a)) = sp.
Proof. intros. repeat split. Qed.
