(* C12: bounds safety and progress, part 2: literals, peeks, getToken, the token loop, getHeader. *)
From Coq Require Import List ZArith Bool Lia.
From OV.C12 Require Import OpDefs Model ProofsSafety.
Import ListNotations.
Local Open Scope Z_scope.

(* what the theorems need from the operator table: symbols are non-empty C strings, and the
   line-comment opener does not begin with a newline *)
Definition table_ok (ops : list oper) : bool :=
  forallb (fun o =>
    match op_sym o with
    | [] => false
    | c :: _ => forallb (fun x => negb (x =? 0)) (op_sym o)
                && negb (ot_eqb (op_type o) ot_lineComment && (c =? 10))
    end) ops.

Lemma table_ok_in : forall ops o, table_ok ops = true -> In o ops ->
  exists c r, op_sym o = c :: r /\ Forall (fun x => x <> 0) (op_sym o) /\
              (ot_eqb (op_type o) ot_lineComment = true -> c <> 10).
Proof.
  intros ops o T I. unfold table_ok in T. rewrite forallb_forall in T. specialize (T o I).
  destruct (op_sym o) as [|c r] eqn:E; [discriminate|].
  apply andb_true_iff in T. destruct T as [T1 T2]. exists c, r. repeat split; auto.
  - rewrite forallb_forall in T1. apply Forall_forall. intros x Hx. specialize (T1 x Hx).
    apply negb_true_iff, Z.eqb_neq in T1. auto.
  - intros L ->. rewrite L in T2. simpl in T2. discriminate.
Qed.

(* ------------------------------------------------------------------ small list facts *)
Lemma list_eqb_eq : forall a b, list_eqb a b = true -> a = b.
Proof.
  induction a as [|x a IH]; destruct b as [|y b]; simpl; intro H; try discriminate; auto.
  apply andb_true_iff in H. destruct H as [E H]. apply Z.eqb_eq in E. subst. f_equal. auto.
Qed.

Lemma list_eqb_refl : forall a, list_eqb a a = true.
Proof. induction a; simpl; auto. rewrite Z.eqb_refl. auto. Qed.

Lemma is_prefix_app : forall p s, is_prefix p (p ++ s) = true.
Proof. induction p; simpl; auto. intros. rewrite Z.eqb_refl. simpl. auto. Qed.

Lemma wf_app_inv : forall p s, wf (p ++ s) -> s <> [] -> Forall (fun c => c <> 0) p /\ wf s.
Proof.
  induction p as [|a p IH]; intros s W N; simpl in *; [split; auto|].
  destruct (wf_inv_cons _ _ W) as [[? E]|[Ha W']].
  - destruct p; simpl in E; [contradiction|discriminate].
  - destruct (IH s W' N). split; auto.
Qed.

Lemma wf_sfx : forall s' s, wf s -> sfx s' s -> s' <> [] -> wf s'.
Proof. intros s' s W [p Hp] N. subst. apply (wf_app_inv p s'); auto. Qed.

Lemma str_between_nonzero : forall s s', wf s -> sfx s' s -> s' <> [] ->
  Forall (fun c => c <> 0) (str_between s s').
Proof.
  intros s s' W [p Hp] N. subst. rewrite str_between_app. apply (wf_app_inv p s'); auto.
Qed.

Lemma str_between_prefix : forall s s', sfx s' s -> is_prefix (str_between s s') s = true.
Proof. intros s s' [p Hp]. subst. rewrite str_between_app. apply is_prefix_app. Qed.

Lemma rd_wf : forall s, wf s -> rd s = Ok (hd 0 s).
Proof. intros [|c s] W; [exfalso; apply wf_not_nil; auto|reflexivity]. Qed.

Lemma wf_nonnil : forall s, wf s -> s <> [].
Proof. intros s W ->. apply wf_not_nil; auto. Qed.

Lemma wf_hd_tl : forall s, wf s -> hd 0 s <> 0 -> wf (tl s) /\ (length (tl s) < length s)%nat /\ sfx (tl s) s.
Proof.
  intros [|c s] W H; [exfalso; apply wf_not_nil; auto|]. simpl in *.
  repeat split; auto using sfx_tl. eapply wf_tail_of_nonzero; eauto.
Qed.

(* ------------------------------------------------------------------ operator table lookups *)
Lemma longest_op_some : forall ops s best o,
  longest_op ops s best = Some o ->
  (forall b, best = Some b -> is_prefix (op_sym b) s = true) ->
  is_prefix (op_sym o) s = true /\ (best = Some o \/ In o ops).
Proof.
  induction ops as [|x ops IH]; intros s best o E Hb; simpl in E.
  - subst. split; auto.
  - destruct (is_prefix (op_sym x) s &&
              match best with None => true | Some b => (length (op_sym b) <? length (op_sym x))%nat end) eqn:C.
    + apply andb_true_iff in C. destruct C as [C _].
      destruct (IH s (Some x) o E) as [P [Q|Q]].
      * intros b Eb. inversion Eb; subst; auto.
      * split; auto. inversion Q; subst. right; left; auto.
      * split; auto. right; right; auto.
    + destruct (IH s best o E Hb) as [P [Q|Q]]; split; auto. right; right; auto.
Qed.

Lemma longest_op_none : forall ops s best, longest_op ops s best = None ->
  best = None /\ forall o, In o ops -> is_prefix (op_sym o) s = false.
Proof.
  induction ops as [|x ops IH]; intros s best E; simpl in E.
  - split; auto. intros o [].
  - destruct (IH _ _ E) as [B F].
    destruct (is_prefix (op_sym x) s) eqn:P; simpl in B.
    + destruct best; [|discriminate]. destruct (length (op_sym o) <? length (op_sym x))%nat; discriminate.
    + split; auto. intros o [->|I]; auto.
Qed.

Lemma getLongest_in : forall ops s o, getLongest ops s = Some o -> is_prefix (op_sym o) s = true /\ In o ops.
Proof.
  intros ops s o E. destruct (longest_op_some ops s None o E) as [P [Q|Q]]; auto; discriminate.
Qed.

Lemma has_op_getLongest : forall ops v s, has_op ops v = true -> is_prefix v s = true -> getLongest ops s <> None.
Proof.
  intros ops v s H P E. destruct (longest_op_none _ _ _ E) as [_ F].
  unfold has_op in H. apply existsb_exists in H. destruct H as (o & I & Eq).
  apply list_eqb_eq in Eq. specialize (F o I). rewrite Eq, P in F. discriminate.
Qed.

(* ------------------------------------------------------------------ results of token-level functions *)
Definition okt (r : res (option token * list Z)) (s : list Z) : Prop :=
  exists t s', r = Ok (t, s') /\ wf s' /\ sfx s' s /\ (length s' < length s)%nat.

Section Safety.
Variable fx : fixes.
Variable ops : list oper.
Hypothesis Hnul : fx_nul fx = true.
Hypothesis Htab : table_ok ops = true.

Lemma getIdentifier_ok : forall s, wf s ->
  exists v s', getIdentifier s = Ok (v, s') /\ wf s' /\ sfx s' s /\
               (identStart (hd 0 s) = true -> (length s' < length s)%nat).
Proof.
  intros [|c s0] W; [exfalso; apply wf_not_nil; auto|]. unfold getIdentifier. cbn [rd bind hd].
  destruct (identStart c) eqn:I; cbn [negb].
  - assert (c <> 0) by (intro; subst c; discriminate).
    assert (W0 : wf s0) by (apply (wf_tail_of_nonzero c); auto).
    cbn [tl]. destruct (skipFrom_ok identChar (length s0) s0 (le_n _) W0) as (s1 & E & W1 & S1).
    rewrite E. cbn [bind]. exists (str_between (c :: s0) s1), s1. repeat split; auto using sfx_cons.
    intros _. apply sfx_len in S1. simpl. lia.
  - exists [], (c :: s0). repeat split; auto using sfx_refl. discriminate.
Qed.

Lemma getUdf_ok : forall s, wf s ->
  exists v s', getUdf s = Ok (v, s') /\ wf s' /\ sfx s' s.
Proof.
  intros s W. unfold getUdf. destruct s as [|c s0]; [exfalso; apply wf_not_nil; auto|]. cbn [rd bind].
  destruct (c =? 95).
  - destruct (getIdentifier_ok (c :: s0) W) as (v & s' & E & W' & S' & _). exists v, s'. auto.
  - exists [], (c :: s0). repeat split; auto using sfx_refl.
Qed.

Lemma prefix_rd_ok : forall m s, Forall (fun c => c <> 0) m -> wf s ->
  exists b, prefix_rd m s = Ok b /\ (b = true -> is_prefix m s = true).
Proof.
  induction m as [|a m IH]; intros s F W; simpl.
  - exists true. auto.
  - destruct s as [|b s0]; [exfalso; apply wf_not_nil; auto|].
    inversion F; subst. destruct (a =? b) eqn:E.
    + apply Z.eqb_eq in E. subst b.
      assert (W0 : wf s0) by (apply (wf_tail_of_nonzero a); auto).
      destruct (IH s0 H2 W0) as (r & Er & Pr). exists r. split; auto.
    + exists false. split; auto; discriminate.
Qed.

Lemma find_end_ok : forall m s, Forall (fun c => c <> 0) m -> wf s ->
  exists s', find_end m s = Ok s' /\ wf s' /\ sfx s' s /\ (hd 0 s' <> 0 -> is_prefix m s' = true).
Proof.
  intros m. induction s as [|c s0 IH]; intros F W; [exfalso; apply wf_not_nil; auto|].
  cbn [find_end]. destruct (c =? 0) eqn:E0.
  - exists (c :: s0). repeat split; auto using sfx_refl. apply Z.eqb_eq in E0. simpl. intro; contradiction.
  - apply Z.eqb_neq in E0. destruct (prefix_rd_ok m (c :: s0) F W) as (b & Eb & Pb). rewrite Eb. cbn [bind].
    destruct b.
    + exists (c :: s0). repeat split; auto using sfx_refl.
    + assert (W0 : wf s0) by (apply (wf_tail_of_nonzero c); auto).
      destruct (IH F W0) as (s' & E & W' & S' & P'). exists s'. repeat split; auto using sfx_cons.
Qed.

Lemma getRawString_ok : forall s, wf s ->
  exists v s', getRawString fx s = Ok (v, s') /\ wf s' /\ sfx s' s.
Proof.
  intros s W. unfold getRawString. destruct s as [|c s0]; [exfalso; apply wf_not_nil; auto|]. cbn [rd bind].
  destruct (c =? 34) eqn:E34; cbn [negb].
  2:{ exists [], (c :: s0). repeat split; auto using sfx_refl. }
  apply Z.eqb_eq in E34. subst c. cbn [tl].
  assert (W0 : wf s0) by (apply (wf_tail_of_nonzero 34); auto; lia).
  destruct (skipTo_ok [40; 10] (length s0) s0 (le_n _) W0) as (s2 & E2 & W2 & S2). rewrite E2. cbn [bind].
  destruct s2 as [|c2 s3]; [exfalso; apply wf_not_nil; auto|]. cbn [rd bind]. rewrite Hnul.
  destruct (c2 =? 40) eqn:E40; cbn [negb].
  2:{ exists [], (34 :: s0). repeat split; auto using sfx_refl. }
  apply Z.eqb_eq in E40. subst c2. cbn [tl].
  assert (W3 : wf s3) by (apply (wf_tail_of_nonzero 40); auto; lia).
  set (m := 41 :: str_between s0 (40 :: s3) ++ [34]).
  assert (Fm : Forall (fun c => c <> 0) m).
  { unfold m. constructor; [lia|]. apply Forall_app. split; [|repeat constructor; lia].
    apply str_between_nonzero; auto. discriminate. }
  destruct (find_end_ok m s3 Fm W3) as (s4 & E4 & W4 & S4 & P4). rewrite E4. cbn [bind].
  destruct s4 as [|c4 s5]; [exfalso; apply wf_not_nil; auto|]. cbn [rd bind].
  destruct (c4 =? 0) eqn:E0.
  - exists [], (34 :: s0). repeat split; auto using sfx_refl.
  - apply Z.eqb_neq in E0. specialize (P4 E0).
    destruct (is_prefix_wf_skipn m (c4 :: s5) P4 Fm W4) as [W6 S6].
    exists (str_between s3 (c4 :: s5)), (skipn (length m) (c4 :: s5)). repeat split; auto.
    apply sfx_cons. eapply sfx_trans; [exact S6|]. eapply sfx_trans; [exact S4|].
    eapply sfx_trans; [apply sfx_tl|exact S2].
Qed.

Lemma getString_ok : forall enc s, wf s ->
  exists r s', getString fx enc s = Ok (r, s') /\ wf s' /\ sfx s' s /\
               (hd 0 s = 34 -> Z.land enc encR = 0 -> (length s' < length s)%nat).
Proof.
  intros enc s W. unfold getString. destruct (Z.land enc encR =? 0) eqn:ER; cbn [negb].
  2:{ destruct (getRawString_ok s W) as (v & s' & E & W' & S'). rewrite E. cbn [bind fst snd].
      exists (Some v), s'. repeat split; auto. intros _ Z0. rewrite Z0 in ER. discriminate. }
  destruct s as [|c s0]; [exfalso; apply wf_not_nil; auto|]. cbn [rd bind].
  destruct (c =? 34) eqn:E34; cbn [negb].
  2:{ exists None, (c :: s0). repeat split; auto using sfx_refl. simpl. intros ->. discriminate. }
  apply Z.eqb_eq in E34. subst c. cbn [tl].
  assert (W0 : wf s0) by (apply (wf_tail_of_nonzero 34); auto; lia).
  destruct (skipTo_ok [34; 10] (length s0) s0 (le_n _) W0) as (s2 & E2 & W2 & S2). rewrite E2. cbn [bind].
  destruct s2 as [|c2 s3]; [exfalso; apply wf_not_nil; auto|]. cbn [rd bind]. rewrite Hnul.
  destruct (c2 =? 34) eqn:E2q; cbn [negb].
  - apply Z.eqb_eq in E2q. subst c2. cbn [tl].
    assert (W3 : wf s3) by (apply (wf_tail_of_nonzero 34); auto; lia).
    exists (Some (unescape 34 (str_between s0 (34 :: s3)))), s3. repeat split; auto.
    + apply sfx_cons. eapply sfx_trans; [apply sfx_tl|exact S2].
    + intros _ _. apply sfx_len in S2. simpl in *. lia.
  - exists None, (c2 :: s3). repeat split; auto using sfx_cons.
    intros _ _. apply sfx_len in S2. simpl in *. lia.
Qed.

Lemma getStringToken_ok : forall enc s, wf s ->
  (enc = 0 -> hd 0 s = 34) -> (enc <> 0 -> identStart (hd 0 s) = true) ->
  okt (getStringToken fx enc s) s.
Proof.
  intros enc s W H0 H1. unfold getStringToken.
  assert (PRE : exists s1, (if enc =? 0 then Ok s else r <- getIdentifier s ;; Ok (snd r)) = Ok s1 /\ wf s1 /\
                           sfx s1 s /\ (enc <> 0 -> (length s1 < length s)%nat) /\ (enc = 0 -> s1 = s)).
  { destruct (enc =? 0) eqn:E.
    - apply Z.eqb_eq in E. exists s. repeat split; auto using sfx_refl. contradiction.
    - apply Z.eqb_neq in E. destruct (getIdentifier_ok s W) as (v & s1 & Ei & W1 & S1 & P1).
      rewrite Ei. cbn [bind snd]. exists s1. repeat split; auto. contradiction. }
  destruct PRE as (s1 & E1 & W1 & S1 & P1 & Q1). rewrite E1. cbn [bind].
  destruct s1 as [|c s2] eqn:Es1; [exfalso; apply wf_not_nil; auto|]. cbn [rd bind].
  destruct (c =? 34) eqn:E34; cbn [negb].
  2:{ exists None, (c :: s2). repeat split; auto.
      destruct (Z.eq_dec enc 0) as [Z0|NZ]; auto.
      exfalso. specialize (Q1 Z0). subst s. specialize (H0 Z0). simpl in H0. subst c. discriminate. }
  apply Z.eqb_eq in E34. subst c.
  destruct (getString_ok enc (34 :: s2) W1) as (r & s3 & E3 & W3 & S3 & P3). rewrite E3. cbn [bind].
  assert (LT : (length s3 < length s)%nat).
  { destruct (Z.eq_dec enc 0) as [Z0|NZ].
    - specialize (Q1 Z0). subst s enc. apply P3; auto.
    - specialize (P1 NZ). apply sfx_len in S3. lia. }
  destruct r as [v|].
  - destruct (getUdf_ok s3 W3) as (u & s4 & E4 & W4 & S4). rewrite E4. cbn [bind fst snd].
    exists (Some (TString enc v u)), s4. repeat split; auto.
    + eapply sfx_trans; [exact S4|]. eapply sfx_trans; [exact S3|exact S1].
    + apply sfx_len in S4. lia.
  - exists None, s3. repeat split; auto. eapply sfx_trans; [exact S3|exact S1].
Qed.

Lemma getCharToken_ok : forall enc s, wf s ->
  (enc = 0 -> hd 0 s = 39) -> (enc <> 0 -> identStart (hd 0 s) = true) ->
  okt (getCharToken fx enc s) s.
Proof.
  intros enc s W H0 H1. unfold getCharToken.
  assert (PRE : exists s1, (if enc =? 0 then Ok s else r <- getIdentifier s ;; Ok (snd r)) = Ok s1 /\ wf s1 /\
                           sfx s1 s /\ (enc <> 0 -> (length s1 < length s)%nat) /\ (enc = 0 -> s1 = s)).
  { destruct (enc =? 0) eqn:E.
    - apply Z.eqb_eq in E. exists s. repeat split; auto using sfx_refl. contradiction.
    - apply Z.eqb_neq in E. destruct (getIdentifier_ok s W) as (v & s1 & Ei & W1 & S1 & P1).
      rewrite Ei. cbn [bind snd]. exists s1. repeat split; auto. contradiction. }
  destruct PRE as (s1 & E1 & W1 & S1 & P1 & Q1). rewrite E1. cbn [bind].
  destruct s1 as [|c s2] eqn:Es1; [exfalso; apply wf_not_nil; auto|]. cbn [rd bind].
  destruct (c =? 39) eqn:E39; cbn [negb].
  2:{ exists None, (c :: s2). repeat split; auto.
      destruct (Z.eq_dec enc 0) as [Z0|NZ]; auto.
      exfalso. specialize (Q1 Z0). subst s. specialize (H0 Z0). simpl in H0. subst c. discriminate. }
  apply Z.eqb_eq in E39. subst c. cbn [tl].
  assert (W2 : wf s2) by (apply (wf_tail_of_nonzero 39); auto; lia).
  destruct (skipTo_ok [39; 10] (length s2) s2 (le_n _) W2) as (s3 & E3 & W3 & S3). rewrite E3. cbn [bind].
  destruct s3 as [|c3 s4]; [exfalso; apply wf_not_nil; auto|]. cbn [rd bind]. rewrite Hnul.
  assert (L2 : (length s2 < length s)%nat) by (apply sfx_len in S1; simpl in S1; lia).
  assert (SS : sfx s2 s) by (eapply sfx_trans; [apply sfx_tl|exact S1]).
  destruct (c3 =? 39) eqn:E3q; cbn [negb].
  - apply Z.eqb_eq in E3q. subst c3. cbn [tl].
    assert (W4 : wf s4) by (apply (wf_tail_of_nonzero 39); auto; lia).
    destruct (getUdf_ok s4 W4) as (u & s5 & E5 & W5 & S5). rewrite E5. cbn [bind fst snd].
    exists (Some (TChar enc (unescape 39 (str_between s2 (39 :: s4))) u)), s5. repeat split; auto.
    + eapply sfx_trans; [exact S5|]. eapply sfx_trans; [apply sfx_tl|]. eapply sfx_trans; [exact S3|exact SS].
    + apply sfx_len in S5. apply sfx_len in S3. simpl in S3. lia.
  - exists None, s2. repeat split; auto.
Qed.

Lemma skipTo_progress : forall ds s s', wf s -> hd 0 s <> 0 -> inb (hd 0 s) ds = false ->
  skipTo ds s = Ok s' -> (length s' < length s)%nat.
Proof.
  intros ds s s' W H I E. destruct s as [|c s1]; [discriminate|]. simpl in H, I.
  pose proof (wf_tail_of_nonzero _ _ W H) as W1.
  assert (G : forall t, wf t -> skipTo ds t = Ok s' -> (length s' <= length t)%nat).
  { intros t Wt Et. destruct (skipTo_ok ds (length t) t (le_n _) Wt) as (x & Ex & _ & Sx).
    rewrite Et in Ex. inversion Ex; subst. apply sfx_len; auto. }
  cbn [skipTo] in E. apply Z.eqb_neq in H. rewrite H, I in E.
  destruct (c =? 92).
  - destruct s1 as [|c1 s2]; [discriminate|]. destruct (c1 =? 0) eqn:E10.
    + apply G in E; auto. simpl in *. lia.
    + apply Z.eqb_neq in E10. apply G in E; [simpl in *; lia|]. apply (wf_tail_of_nonzero c1); auto.
  - apply G in E; auto. simpl in *. lia.
Qed.

Lemma getOperatorToken_ok : forall s, wf s -> hd 0 s <> 0 -> getLongest ops s <> None ->
  okt (getOperatorToken ops s) s.
Proof.
  intros s W H N. unfold getOperatorToken. destruct (getLongest ops s) as [o|] eqn:E; [|contradiction].
  destruct (getLongest_in _ _ _ E) as [P I].
  destruct (table_ok_in ops o Htab I) as (c & r & Es & F & LC).
  destruct (ot_has (op_type o) ot_comment && ot_eqb (op_type o) ot_lineComment) eqn:C1.
  - apply andb_true_iff in C1. destruct C1 as [_ C1]. specialize (LC C1).
    destruct (skipTo_ok [10] (length s) s (le_n _) W) as (s1 & E1 & W1 & S1). rewrite E1. cbn [bind].
    exists (Some (TComment (str_between s s1))), s1. repeat split; auto.
    apply (skipTo_progress [10] s s1); auto.
    rewrite Es in P. destruct s as [|x s0]; [discriminate|]. simpl in P.
    apply andb_true_iff in P. destruct P as [P _]. apply Z.eqb_eq in P. subst x. simpl.
    destruct (c =? 10) eqn:X; auto. apply Z.eqb_eq in X. contradiction.
  - destruct (ot_has (op_type o) ot_comment && ot_eqb (op_type o) ot_blockCommentStart).
    + destruct (blockComment_ok (length s) s (le_n _) W) as (s1 & E1 & W1 & S1). rewrite E1. cbn [bind].
      exists (Some (TComment (str_between s s1))), s1. repeat split; auto.
      apply (blockComment_progress s s1); auto.
    + destruct (is_prefix_wf_skipn (op_sym o) s P F W) as [W' S'].
      exists (Some (TOp o)), (skipn (length (op_sym o)) s). repeat split; auto.
      rewrite (is_prefix_split _ _ P) at 2. rewrite app_length. rewrite Es. simpl. lia.
Qed.

(* facts about the kind shallowPeek reports, at the cursor it leaves *)
Definition peek_facts (k : pk) (s : list Z) : Prop :=
  match k with
  | KNone => True
  | KIdent => identStart (hd 0 s) = true
  | KPrim => (hd 0 s =? 43) || (hd 0 s =? 45) = false /\ exists pos, load (length s) false s = Ok (Some pos)
  | KOp => True
  | KNewline => hd 0 s = 10
  | KString e => e = 0 /\ hd 0 s = 34
  | KChar e => e = 0 /\ hd 0 s = 39
  end.

Lemma shallowPeek_ok : forall s, wf s ->
  exists k s', shallowPeek fx ops s = Ok (k, s') /\ wf s' /\ sfx s' s /\ peek_facts k s'.
Proof.
  intros s W. unfold shallowPeek.
  destruct (skipWhitespace_ok s W) as (s1 & E1 & W1 & S1). rewrite E1. cbn [bind].
  destruct s1 as [|c s2] eqn:Es1; [exfalso; apply wf_not_nil; auto|]. cbn [rd bind].
  destruct (c =? 0) eqn:E0.
  { exists KNone, (c :: s2). repeat split; auto. }
  pose proof (load_ok (length (c :: s2)) false (c :: s2) W1 (le_n _)) as LO.
  destruct LO as [EL|(pos & EL & Wp & Sp & Lp)]; rewrite EL; cbn [bind].
  - destruct (identStart c) eqn:I; [exists KIdent, (c :: s2); repeat split; auto|].
    destruct (inb c (operatorCharcodes ops)); [exists KOp, (c :: s2); repeat split; auto|].
    destruct (c =? 10) eqn:E10; [exists KNewline, (c :: s2); repeat split; auto; apply Z.eqb_eq; auto|].
    destruct (c =? 34) eqn:E34; [exists (KString 0), (c :: s2); repeat split; auto; apply Z.eqb_eq; auto|].
    destruct (c =? 39) eqn:E39; [exists (KChar 0), (c :: s2); repeat split; auto; apply Z.eqb_eq; auto|].
    exists KNone, (c :: s2). repeat split; auto.
  - destruct pos as [|c' pos']; [exfalso; apply wf_not_nil; auto|]. cbn [rd bind].
    destruct (negb (if fx_trueid fx then identChar c' else identStart c')).
    + exists KPrim, (c :: s2). repeat split; auto.
      * destruct ((hd 0 (c :: s2) =? 43) || (hd 0 (c :: s2) =? 45)) eqn:SG; auto.
        pose proof (load_false_sign_none _ _ _ SG EL). discriminate.
      * eexists; eauto.
    + destruct (identStart c) eqn:I; [exists KIdent, (c :: s2); repeat split; auto|].
      destruct (inb c (operatorCharcodes ops)); [exists KOp, (c :: s2); repeat split; auto|].
      destruct (c =? 10) eqn:E10; [exists KNewline, (c :: s2); repeat split; auto; apply Z.eqb_eq; auto|].
      destruct (c =? 34) eqn:E34; [exists (KString 0), (c :: s2); repeat split; auto; apply Z.eqb_eq; auto|].
      destruct (c =? 39) eqn:E39; [exists (KChar 0), (c :: s2); repeat split; auto; apply Z.eqb_eq; auto|].
      exists KNone, (c :: s2). repeat split; auto.
Qed.

(* kinds peekForIdentifier can report *)
Definition ident_kind (k : pk) (s : list Z) : Prop :=
  match k with
  | KIdent => True
  | KOp => getLongest ops s <> None
  | KString e => e <> 0
  | KChar e => e <> 0
  | _ => False
  end.

Lemma peekForIdentifier_ok : forall s, wf s -> identStart (hd 0 s) = true ->
  exists k, peekForIdentifier fx ops s = Ok k /\ ident_kind k s.
Proof.
  intros s W I. unfold peekForIdentifier.
  destruct s as [|c s0]; [exfalso; apply wf_not_nil; auto|]. simpl in I. cbn [tl].
  assert (c <> 0) by (intro; subst c; discriminate).
  assert (W0 : wf s0) by (apply (wf_tail_of_nonzero c); auto).
  destruct (skipFrom_ok identChar (length s0) s0 (le_n _) W0) as (s1 & E1 & W1 & S1). rewrite E1. cbn [bind].
  assert (TY : exists ty, (if fx_prefix fx
         then c1 <- rd s1 ;; Ok (if c1 =? 34 then KString 0 else if c1 =? 39 then KChar 0 else KNone)
         else r <- shallowPeek fx ops s1 ;; Ok (fst r)) = Ok ty).
  { destruct (fx_prefix fx).
    - destruct s1; [exfalso; apply wf_not_nil; auto|]. cbn [rd bind]. eexists; eauto.
    - destruct (shallowPeek_ok s1 W1) as (k & s' & E & _). rewrite E. cbn [bind fst]. eexists; eauto. }
  destruct TY as (ty & ET). rewrite ET. cbn [bind].
  destruct (has_op ops (str_between (c :: s0) s1)) eqn:HO.
  - exists KOp. split; auto. simpl. apply (has_op_getLongest ops _ _ HO).
    apply str_between_prefix. apply sfx_cons; auto.
  - destruct ty; try (exists KIdent; split; [reflexivity|exact Logic.I]).
    + destruct (getStringEncoding (str_between (c :: s0) s1) =? 0) eqn:EE.
      * exists KIdent; split; [reflexivity|exact Logic.I].
      * eexists. split; [reflexivity|]. simpl. apply Z.eqb_neq; auto.
    + destruct (getCharacterEncoding (str_between (c :: s0) s1) =? 0) eqn:EE.
      * exists KIdent; split; [reflexivity|exact Logic.I].
      * eexists. split; [reflexivity|]. simpl. apply Z.eqb_neq; auto.
Qed.

Lemma countSkippedLines_nobs : forall txt cur, nobs txt -> countSkippedLines txt cur = Ok tt.
Proof.
  intros txt cur N. unfold countSkippedLines.
  assert (inb 92 txt = false).
  { unfold inb. induction N; cbn [existsb]; auto. rewrite IHN.
    destruct (92 =? x) eqn:E; auto. apply Z.eqb_eq in E. congruence. }
  rewrite H. reflexivity.
Qed.

Theorem getToken_progress : forall s, wf s -> hd 0 s <> 0 -> okt (getToken fx ops s) s.
Proof.
  intros s W H. unfold getToken.
  rewrite (rd_wf s W). cbn [bind]. apply Z.eqb_neq in H. rewrite H. apply Z.eqb_neq in H.
  destruct (skipWhitespace_ok s W) as (sw & Ew & Ww & Sw). rewrite Ew. cbn [bind].
  rewrite (rd_wf sw Ww). cbn [bind].
  destruct (hd 0 sw =? 0) eqn:Ecw.
  { (* only whitespace was left: the closing newline token *)
    apply Z.eqb_eq in Ecw. exists (Some TNewline), sw. repeat split; auto.
    destruct Sw as [p Hp]. destruct p as [|x p].
    - simpl in Hp. subst s. contradiction.
    - subst s. simpl. rewrite app_length. lia. }
  apply Z.eqb_neq in Ecw. assert (Hsw : hd 0 sw <> 0) by auto.
  unfold peek.
  destruct (shallowPeek_ok sw Ww) as (k & s1 & E1 & W1 & S1 & F1). rewrite E1. cbn [bind].
  assert (SS : sfx s1 s) by (eapply sfx_trans; eauto).
  assert (LE : (length s1 <= length s)%nat) by (apply sfx_len; auto).
  (* a token that consumes at least one byte from s1 *)
  assert (FIN : forall r, okt r s1 -> okt r s).
  { intros r (t & s' & E & W' & S' & L'). exists t, s'. repeat split; auto; [eapply sfx_trans; eauto|lia]. }
  assert (UNK : forall s2, wf s2 -> hd 0 s2 <> 0 -> sfx s2 s ->
            okt (c <- rd s2 ;; Ok (Some (TUnknown c), tl s2)) s).
  { intros s2 W2 H2 S2. destruct s2 as [|c s3]; [exfalso; apply wf_not_nil; auto|]. cbn [rd bind tl].
    simpl in H2. exists (Some (TUnknown c)), s3. repeat split.
    - eapply wf_tail_of_nonzero; eauto.
    - eapply sfx_trans; [apply sfx_tl|exact S2].
    - apply sfx_len in S2. simpl in S2. lia. }
  (* shallowPeek never reports a kind other than KNone at the NUL; here the cursor is not at the NUL *)
  assert (H1 : hd 0 s1 <> 0).
  { unfold shallowPeek in E1. destruct (skipWhitespace sw) as [x| |] eqn:X; cbn [bind] in E1; try discriminate.
    assert (x = sw).
    { unfold skipWhitespace in *. clear - X Ew Ww Hsw.
      (* skipWhitespace is idempotent: sw is where it stopped *)
      destruct sw as [|a t]; [discriminate|]. simpl in Hsw.
      assert (ST : forall n u v, (length u <= n)%nat -> skipFrom (fun c => inb c wsNoNl) u = Ok v ->
                     skipFrom (fun c => inb c wsNoNl) v = Ok v).
      { induction n; intros u v L Eu.
        - destruct u; [discriminate|simpl in L; lia].
        - destruct u as [|b u']; [discriminate|]. cbn [skipFrom] in Eu. simpl in L.
          destruct (b =? 0) eqn:B0; [inversion Eu; subst; cbn [skipFrom]; rewrite B0; auto|].
          destruct (b =? 92) eqn:B92.
          + destruct u' as [|b1 u'']; [discriminate|]. destruct (b1 =? 0).
            * apply (IHn (b1 :: u'')); auto; lia.
            * apply (IHn u''); auto; simpl in L; lia.
          + destruct (inb b wsNoNl) eqn:BW.
            * apply (IHn u'); auto; lia.
            * inversion Eu; subst. cbn [skipFrom]. rewrite B0, B92, BW. auto. }
      pose proof (ST _ _ _ (le_n _) Ew) as Y. rewrite Y in X. inversion X; auto. }
    subst x. destruct sw as [|a t]; [discriminate|]. cbn [rd bind] in E1. simpl in Hsw.
    apply Z.eqb_neq in Hsw. rewrite Hsw in E1. apply Z.eqb_neq in Hsw.
    destruct (load (length (a :: t)) false (a :: t)) as [[pos|]| |]; cbn [bind] in E1; try discriminate.
    - destruct pos; cbn [rd bind] in E1; try discriminate.
      repeat match type of E1 with
             | (if ?b then _ else _) = _ => destruct b
             end; inversion E1; subst; simpl; auto.
    - repeat match type of E1 with
             | (if ?b then _ else _) = _ => destruct b
             end; inversion E1; subst; simpl; auto. }
  destruct k; simpl in F1; cbn [bind].
  - (* KNone *) apply UNK; auto.
  - (* KIdent *)
    destruct (peekForIdentifier_ok s1 W1 F1) as (k2 & E2 & K2). rewrite E2. cbn [bind].
    destruct k2; simpl in K2; try contradiction.
    + destruct s1 as [|c s2] eqn:Es1; [exfalso; apply wf_not_nil; auto|]. cbn [rd bind]. simpl in F1. rewrite F1. cbn [negb].
      rewrite <- Es1 in *. destruct (getIdentifier_ok s1 W1) as (v & s' & E & W' & S' & P').
      rewrite E. cbn [bind fst snd]. apply FIN. exists (Some (TIdent v)), s'. repeat split; auto.
      apply P'. subst s1. auto.
    + apply FIN. apply getOperatorToken_ok; auto.
    + apply FIN. apply getStringToken_ok; auto; intros; contradiction.
    + apply FIN. apply getCharToken_ok; auto; intros; contradiction.
  - (* KPrim *)
    destruct F1 as [SG (pos & EL)]. rewrite (load_sign_irrelevant _ _ SG). rewrite EL. cbn [bind].
    pose proof (load_ok (length s1) false s1 W1 (le_n _)) as LO. rewrite EL in LO.
    destruct LO as [X|(p' & X & Wp & Sp & Lp)]; [discriminate|]. inversion X; subst p'.
    destruct (load_nobs (length s1) false s1 pos EL) as (p & Hp & Np).
    assert (str_between s1 pos = p) by (rewrite Hp at 1; apply str_between_app).
    rewrite H0. rewrite (countSkippedLines_nobs p pos Np). cbn [bind].
    apply FIN. exists (Some (TPrim p)), pos. repeat split; auto.
  - (* KOp *)
    unfold peekForOperator. destruct (getLongest ops s1) as [o|] eqn:EO.
    + apply FIN. apply getOperatorToken_ok; auto. rewrite EO. discriminate.
    + apply UNK; auto.
  - (* KNewline *)
    destruct (wf_hd_tl s1 W1 H1) as (Wt & Lt & St). exists (Some TNewline), (tl s1).
    repeat split; auto; try (eapply sfx_trans; eauto); try lia.
  - (* KString *) destruct F1 as [-> F1]. apply FIN. apply getStringToken_ok; auto; intro X; contradiction.
  - (* KChar *) destruct F1 as [-> F1]. apply FIN. apply getCharToken_ok; auto; intro X; contradiction.
Qed.

Theorem tokenizeLoop_ok : forall fuel s acc, wf s -> (length s <= fuel)%nat ->
  exists ts, tokenizeLoop fx ops fuel s acc = Ok ts.
Proof.
  induction fuel; intros s acc W L.
  - destruct s; [exfalso; apply wf_not_nil; auto|simpl in L; lia].
  - cbn [tokenizeLoop]. destruct s as [|c s0] eqn:Es; [exfalso; apply wf_not_nil; auto|]. cbn [rd bind].
    destruct (c =? 0) eqn:E0; [eexists; eauto|].
    apply Z.eqb_neq in E0. rewrite <- Es in *.
    destruct (getToken_progress s W) as (t & s' & E & W' & S' & L'); [subst s; auto|].
    rewrite E. cbn [bind fst snd]. apply IHfuel; auto. lia.
Qed.

Theorem tokenize_ok : forall body, Forall (fun c => c <> 0) body ->
  exists ts, tokenize fx ops (body ++ [0]) = Ok ts.
Proof.
  intros body F. unfold tokenize. apply tokenizeLoop_ok; [apply wf_app; auto|lia].
Qed.

Theorem getHeader_ok : forall s, wf s ->
  exists r s', getHeader fx ops s = Ok (r, s') /\ wf s'.
Proof.
  intros s W. unfold getHeader.
  destruct (shallowPeek_ok s W) as (k & s1 & E1 & W1 & S1 & F1). rewrite E1. cbn [bind].
  set (failed := if fx_hdrnull fx then Some [] else None).
  assert (ANGLE : exists r s', (let s2 := tl s1 in
              s3 <- skipTo [62; 10] s2 ;; c3 <- rd s3 ;;
              if (if fx_nul fx then negb (c3 =? 62) else c3 =? 10) then Ok (failed, s3)
              else Ok (Some (str_between s2 s3), tl s3)) = Ok (r, s') /\ wf s' \/ hd 0 s1 = 0).
  { destruct (Z.eq_dec (hd 0 s1) 0) as [Z0|NZ]; [exists None, s1; auto|].
    destruct (wf_hd_tl s1 W1 NZ) as (Wt & _ & _). cbn zeta.
    destruct (skipTo_ok [62; 10] (length (tl s1)) (tl s1) (le_n _) Wt) as (s3 & E3 & W3 & S3). rewrite E3. cbn [bind].
    destruct s3 as [|c3 s4]; [exfalso; apply wf_not_nil; auto|]. cbn [rd bind]. rewrite Hnul.
    destruct (c3 =? 62) eqn:E62; cbn [negb].
    - apply Z.eqb_eq in E62. subst c3. eexists _, _. left. split; [reflexivity|].
      apply (wf_tail_of_nonzero 62); auto. lia.
    - eexists _, _. left. split; [reflexivity|auto]. }
  destruct k; cbn [negb andb]; try (eexists _, _; split; [reflexivity|auto]; fail).
  - (* KOp *)
    destruct ANGLE as (r & s' & [[E W']|Z0]).
    + cbn zeta in E. rewrite E. eauto.
    + (* shallowPeek reports KOp only at a non-NUL byte *)
      exfalso. unfold shallowPeek in E1.
      destruct (skipWhitespace s) as [x| |]; cbn [bind] in E1; try discriminate.
      destruct x as [|a t]; cbn [rd bind] in E1; try discriminate.
      destruct (a =? 0) eqn:A0; [inversion E1|].
      destruct (load (length (a :: t)) false (a :: t)) as [[pos|]| |]; cbn [bind] in E1; try discriminate.
      * destruct pos; cbn [rd bind] in E1; try discriminate.
        repeat match type of E1 with
               | (if ?b then _ else _) = _ => destruct b
               end; inversion E1; subst; simpl in Z0; subst; discriminate.
      * repeat match type of E1 with
               | (if ?b then _ else _) = _ => destruct b
               end; inversion E1; subst; simpl in Z0; subst; discriminate.
  - (* KString *)
    destruct (getString_ok 0 s1 W1) as (r & s' & E & W' & _). rewrite E. cbn [bind fst snd]. eauto.
Qed.

End Safety.
