(* The model instantiated with the operator table regenerated from operator.cpp, and the checks that
   the constants the model hard-codes agree with that table (re-proved on every regeneration). *)
From Coq Require Import List ZArith Bool.
From OV.C12 Require Import OpDefs Model.
From OV.gen Require Import C12_OpTable.
Import ListNotations.
Local Open Scope Z_scope.

Definition tok_ops : list oper := tokenizer_ops.

Definition tokenizeT (fx : fixes) (buf : list Z) : res (list token) := tokenize fx tok_ops buf.
Definition getTokenT (fx : fixes) (s : list Z) : res (option token * list Z) := getToken fx tok_ops s.
Definition getHeaderT (fx : fixes) (s : list Z) : res (option (list Z) * list Z) := getHeader fx tok_ops s.

(* operators.get(sym) for building operator tokens in the drivers *)
Definition find_op (sym : list Z) : option oper := find (fun o => list_eqb (op_sym o) sym) tok_ops.

Lemma consts_ok :
  Model.ot_lineComment = C12_OpTable.ot_lineComment /\
  Model.ot_blockCommentStart = C12_OpTable.ot_blockCommentStart /\
  Model.ot_comment = C12_OpTable.ot_comment /\
  Model.ot_lessThan = C12_OpTable.ot_lessThan.
Proof. repeat split; reflexivity. Qed.
