(* C12: round trips.  For every good token t (Spec.good) inside the guard (Spec.guard) and every
   continuation `rest` that is the end of input or starts with a blank,
       getToken fixed ops (printToken fixed t ++ rest) = Ok (Some t, rest),
   and therefore a blank-separated printed sequence tokenizes to itself. *)
From Coq Require Import List ZArith Bool Lia.
From OV.C12 Require Import OpDefs Model Spec ProofsSafety ProofsSafety2.
Import ListNotations.
Local Open Scope Z_scope.

Definition blank_or_end (rest : list Z) : Prop :=
  rest = [0] \/ exists r, rest = 32 :: r.

Lemma boe_cases : forall rest, blank_or_end rest -> exists c r, rest = c :: r /\ (c = 0 \/ c = 32).
Proof. intros rest [->|[r ->]]; eexists _, _; split; eauto. Qed.

(* a byte at which a token can start: skipWhitespace does not move over it *)
Definition tokstart (c : Z) : bool := negb (c =? 0) && negb (c =? 92) && negb (inb c wsNoNl).

Lemma skipWhitespace_tokstart : forall c s, tokstart c = true -> skipWhitespace (c :: s) = Ok (c :: s).
Proof.
  intros c s H. unfold tokstart in H. apply andb_true_iff in H. destruct H as [H H3].
  apply andb_true_iff in H. destruct H as [H1 H2].
  apply negb_true_iff in H1, H2, H3. unfold skipWhitespace. cbn [skipFrom]. rewrite H1, H2, H3. reflexivity.
Qed.

(* ------------------------------------------------------------------ load on non-numeric starts *)
Definition numstart (c : Z) : bool := is_digit c || (c =? 46) || (c =? 116) || (c =? 102).

Lemma load_none_start : forall f c s, numstart c = false -> load (S f) false (c :: s) = Ok None.
Proof.
  intros f c s H. unfold numstart in H.
  apply orb_false_iff in H. destruct H as [H Hf]. apply orb_false_iff in H. destruct H as [H Ht].
  apply orb_false_iff in H. destruct H as [Hd Hdot].
  cbn [load rd bind]. unfold str_true, str_false. cbn [is_prefix].
  rewrite Z.eqb_sym in Ht. rewrite Z.eqb_sym in Hf. rewrite Ht, Hf. cbn [andb].
  destruct ((c =? 43) || (c =? 45)) eqn:SG; cbn [andb negb]; [reflexivity|].
  cbn [bind]. unfold loadNum. cbn [rd bind].
  assert (c =? 48 = false).
  { destruct (c =? 48) eqn:E; auto. apply Z.eqb_eq in E. subst c. discriminate. }
  rewrite H. cbn [bind digitsDots]. rewrite Hd, Hdot. cbn [bind snd negb]. reflexivity.
Qed.

(* dots followed by a byte that is neither digit nor dot: no number *)
Lemma digitsDots_dots : forall n d r, is_digit d = false -> (d =? 46) = false ->
  digitsDots (repeat 46 n ++ d :: r) false = Ok (d :: r, false).
Proof.
  induction n; intros d r Hd H46; cbn [repeat app digitsDots].
  - rewrite Hd, H46. reflexivity.
  - change (is_digit 46) with false. cbn [Z.eqb Pos.eqb]. apply IHn; auto.
Qed.

Lemma load_none_dots : forall f n d r, is_digit d = false -> (d =? 46) = false ->
  load (S f) false (repeat 46 (S n) ++ d :: r) = Ok None.
Proof.
  intros f n d r Hd H46. cbn [repeat app load rd bind]. unfold str_true, str_false. cbn [is_prefix Z.eqb Pos.eqb andb orb negb bind].
  unfold loadNum. cbn [rd bind Z.eqb Pos.eqb].
  change (46 :: repeat 46 n ++ d :: r) with (repeat 46 (S n) ++ d :: r).
  rewrite digitsDots_dots; auto.
Qed.

(* ------------------------------------------------------------------ scanning lemmas *)
Lemma skipFrom_all : forall (p : Z -> bool) r rest,
  (forall x, In x r -> p x = true /\ x <> 0 /\ x <> 92) ->
  (exists h t, rest = h :: t /\ (h = 0 \/ (h <> 92 /\ p h = false))) ->
  skipFrom p (r ++ rest) = Ok rest.
Proof.
  intros p r rest. induction r as [|x r IH]; intros H (h & t & -> & Hh); cbn [app].
  - cbn [skipFrom]. destruct Hh as [->|[H92 Hp]]; [reflexivity|].
    destruct (h =? 0) eqn:E0; [reflexivity|]. apply Z.eqb_neq in H92. rewrite H92, Hp. reflexivity.
  - destruct (H x (or_introl eq_refl)) as (Px & X0 & X92).
    cbn [skipFrom]. apply Z.eqb_neq in X0, X92. rewrite X0, X92, Px.
    apply IH; [intros y Hy; apply H; right; auto|eauto].
Qed.

Lemma identChar_facts : forall x, identChar x = true -> x <> 0 /\ x <> 92 /\ x <> 32 /\ x <> 34 /\ x <> 39.
Proof.
  intros x H. unfold identChar, identStart, is_lower, is_upper, is_digit in H.
  repeat split; intro; subst x; discriminate.
Qed.

Lemma skipFrom_ident : forall r rest, forallb identChar r = true ->
  (exists h t, rest = h :: t /\ identChar h = false /\ h <> 92) ->
  skipFrom identChar (r ++ rest) = Ok rest.
Proof.
  intros r rest F (h & t & E & Hh & H92). apply skipFrom_all.
  - intros x Hx. rewrite forallb_forall in F. specialize (F x Hx).
    destruct (identChar_facts x F) as (A & B & _). auto.
  - exists h, t. split; auto.
Qed.

Lemma boe_stop : forall rest, blank_or_end rest -> exists h t, rest = h :: t /\ identChar h = false /\ h <> 92.
Proof.
  intros rest B. destruct (boe_cases rest B) as (c & r & -> & [->| ->]); eexists _, _; repeat split; auto; lia.
Qed.

(* the text between the quotes is scanned up to the closing quote *)
Lemma skipTo_raw : forall q n raw tail, (q = 34 \/ q = 39) -> (length raw <= n)%nat -> raw_ok q raw = true ->
  skipTo [q; 10] (raw ++ q :: tail) = Ok (q :: tail).
Proof.
  intros q. induction n; intros raw tail Hq L R.
  - destruct raw; [|simpl in L; lia]. cbn [app skipTo inb existsb].
    destruct Hq as [-> | ->]; reflexivity.
  - destruct raw as [|c r1]; [apply (IHn []); auto; simpl; lia|].
    cbn [raw_ok] in R. cbn [app skipTo]. simpl in L.
    destruct (c =? 92) eqn:E92.
    + destruct r1 as [|c1 r2]; [discriminate|]. apply andb_true_iff in R. destruct R as [R1 R2].
      apply negb_true_iff in R1. apply Z.eqb_eq in E92. subst c. cbn [Z.eqb app]. rewrite R1.
      apply IHn; auto. simpl in L. lia.
    + apply andb_true_iff in R. destruct R as [R R4]. apply andb_true_iff in R. destruct R as [R R3].
      apply andb_true_iff in R. destruct R as [R1 R2]. apply negb_true_iff in R1, R2, R3.
      rewrite R1. cbn [inb existsb]. rewrite R2, R3. cbn [orb]. apply IHn; auto. lia.
Qed.

(* ------------------------------------------------------------------ escape / unescape *)
Lemma escape_fixed_spec : forall b q v, escape_from fixed b q v = spec_escape q v.
Proof.
  intros b q v. revert b. induction v as [|c r IH]; intro b; cbn [escape_from spec_escape]; auto.
  rewrite IH. destruct (c =? q); cbn [fx_esc0 fixed negb andb app]; [|reflexivity].
  rewrite andb_false_r. reflexivity.
Qed.

Lemma spec_escape_hd : forall q r, q <> 92 ->
  match spec_escape q r with c1 :: _ => c1 =? q | [] => false end = false.
Proof.
  intros q r Hq. destruct r as [|c r]; cbn [spec_escape]; auto.
  destruct (c =? q) eqn:E; [apply Z.eqb_neq; lia|auto].
Qed.

Lemma unescape_spec_escape : forall q v, q <> 92 -> unescape q (spec_escape q v) = v.
Proof.
  intros q v Hq. induction v as [|c r IH]; cbn [spec_escape unescape]; auto.
  destruct (c =? q) eqn:E.
  - apply Z.eqb_eq in E. subst c. assert (q =? 92 = false) by (apply Z.eqb_neq; auto).
    cbn [unescape]. rewrite !Z.eqb_refl. rewrite H. cbn [andb]. rewrite IH. reflexivity.
  - cbn [unescape]. rewrite (spec_escape_hd q r Hq). rewrite andb_false_r. rewrite IH. reflexivity.
Qed.

(* ------------------------------------------------------------------ operator table facts *)
Lemma prefix_same_len : forall a b s, is_prefix a s = true -> is_prefix b s = true -> length a = length b -> a = b.
Proof.
  induction a as [|x a IH]; destruct b as [|y b]; intros s P Q L; simpl in *; try discriminate; auto.
  destruct s as [|c s]; [discriminate|].
  apply andb_true_iff in P. destruct P as [P1 P2]. apply andb_true_iff in Q. destruct Q as [Q1 Q2].
  apply Z.eqb_eq in P1, Q1. subst. f_equal. eapply IH; eauto.
Qed.

Lemma getLongest_exact : forall ops o s,
  In o ops -> NoDup (map op_sym ops) -> is_prefix (op_sym o) s = true ->
  (forall o', In o' ops -> is_prefix (op_sym o') s = true -> (length (op_sym o') <= length (op_sym o))%nat) ->
  getLongest ops s = Some o.
Proof.
  intros ops o s I ND P MAX. unfold getLongest.
  (* generalised: the best so far is shorter than o or absent, and o is still ahead *)
  assert (G : forall l best, In o l -> NoDup (map op_sym l) ->
              (forall o', In o' l -> is_prefix (op_sym o') s = true -> (length (op_sym o') <= length (op_sym o))%nat) ->
              (match best with None => True | Some b => (length (op_sym b) < length (op_sym o))%nat end) ->
              longest_op l s best = Some o).
  { induction l as [|x l IH]; intros best Il NDl MX B; [destruct Il|].
    cbn [longest_op]. inversion NDl as [|? ? NI ND']; subst.
    destruct Il as [->|Il].
    - rewrite P. assert (match best with None => true | Some b => (length (op_sym b) <? length (op_sym o))%nat end = true).
      { destruct best; auto. apply Nat.ltb_lt; auto. }
      rewrite H. cbn [andb].
      (* from here no later entry is strictly longer and a prefix *)
      clear IH. revert NI ND' MX. clear. intros NI ND' MX.
      induction l as [|y l IH]; [reflexivity|]. cbn [longest_op].
      destruct (is_prefix (op_sym y) s) eqn:Py; cbn [andb].
      + assert ((length (op_sym o) <? length (op_sym y))%nat = false).
        { apply Nat.ltb_ge. apply MX; auto. right; left; auto. }
        rewrite H. apply IH.
        * intro X. apply NI. right; auto.
        * inversion ND'; auto.
        * intros z [->|Iz] Pz; apply MX; auto; [left; auto|right; right; auto].
      + apply IH.
        * intro X. apply NI. right; auto.
        * inversion ND'; auto.
        * intros z [->|Iz] Pz; apply MX; auto; [left; auto|right; right; auto].
    - destruct (is_prefix (op_sym x) s &&
                match best with None => true | Some b => (length (op_sym b) <? length (op_sym x))%nat end) eqn:C.
      + apply IH; auto.
        * intros o' Io'. apply MX. right; auto.
        * apply andb_true_iff in C. destruct C as [Px _].
          assert (Lx : (length (op_sym x) <= length (op_sym o))%nat) by (apply MX; auto; left; auto).
          destruct (Nat.eq_dec (length (op_sym x)) (length (op_sym o))) as [EQ|NE]; [|lia].
          (* two prefixes of s of the same length are equal: contradicts NoDup *)
          exfalso. apply NI.
          assert (op_sym x = op_sym o) by (eapply prefix_same_len; eauto).
          rewrite H. apply in_map; auto.
      + apply IH; auto. intros o' Io'. apply MX. right; auto. }
  apply G; auto.
Qed.

Lemma is_prefix_len : forall p s, is_prefix p s = true -> (length p <= length s)%nat.
Proof.
  induction p as [|a p IH]; intros s H; simpl; [lia|]. destruct s; [discriminate|].
  simpl in H. apply andb_true_iff in H. destruct H. simpl. apply IH in H0. lia.
Qed.

Lemma is_prefix_nth : forall p s, is_prefix p s = true -> forall x, In x p -> In x (firstn (length p) s).
Proof.
  induction p as [|a p IH]; intros s H x Hx; [destruct Hx|]. destruct s as [|b s]; [discriminate|].
  simpl in H. apply andb_true_iff in H. destruct H as [E H]. apply Z.eqb_eq in E. subst b.
  simpl. destruct Hx as [->|Hx]; auto.
Qed.

(* a symbol followed by a byte that occurs in no symbol: the longest match is the symbol itself *)
Lemma getLongest_sym : forall ops o h t,
  In o ops -> NoDup (map op_sym ops) ->
  (forall o', In o' ops -> ~ In h (op_sym o')) ->
  getLongest ops (op_sym o ++ h :: t) = Some o.
Proof.
  intros ops o h t I ND NH. apply getLongest_exact; auto using is_prefix_app.
  intros o' I' P'. destruct (le_lt_dec (length (op_sym o')) (length (op_sym o))) as [|LT]; auto.
  exfalso. apply (NH o' I').
  (* the byte of op_sym o' at position |op_sym o| is h *)
  clear - P' LT. revert P' LT. generalize (op_sym o') (op_sym o). intros a b. revert a.
  induction b as [|y b IH]; intros a P L; simpl in *.
  - destruct a as [|x a]; [simpl in L; lia|]. simpl in P. apply andb_true_iff in P. destruct P as [E _].
    apply Z.eqb_eq in E. subst. left; auto.
  - destruct a as [|x a]; [simpl in L; lia|]. simpl in P. apply andb_true_iff in P. destruct P as [_ P].
    right. apply IH; auto. simpl in L. lia.
Qed.

(* ------------------------------------------------------------------ the table conditions used below *)
Definition sym_free (ops : list oper) (h : Z) : bool :=
  forallb (fun o => negb (inb h (op_sym o))) ops.

Fixpoint nodupb (l : list (list Z)) : bool :=
  match l with
  | [] => true
  | x :: r => negb (existsb (list_eqb x) r) && nodupb r
  end.

Lemma nodupb_NoDup : forall l, nodupb l = true -> NoDup l.
Proof.
  induction l as [|x r IH]; intro H; constructor; simpl in H; apply andb_true_iff in H; destruct H as [H1 H2]; auto.
  intro I. apply negb_true_iff in H1. assert (existsb (list_eqb x) r = true).
  { apply existsb_exists. exists x. split; auto. apply list_eqb_refl. }
  congruence.
Qed.

Lemma sym_free_in : forall ops h, sym_free ops h = true -> forall o, In o ops -> ~ In h (op_sym o).
Proof.
  intros ops h H o I X. unfold sym_free in H. rewrite forallb_forall in H. specialize (H o I).
  apply negb_true_iff in H. unfold inb in H.
  assert (existsb (Z.eqb h) (op_sym o) = true) by (apply existsb_exists; exists h; split; auto; apply Z.eqb_refl).
  congruence.
Qed.

(* shape of one operator: a word (sizeof, new, ...) or a symbol that cannot start a number *)
Fixpoint after_dots_ok (s : list Z) : bool :=
  match s with
  | [] => true
  | c :: r => if c =? 46 then after_dots_ok r else negb (is_digit c)
  end.
Fixpoint span_ident (r : list Z) : list Z * list Z :=
  match r with
  | [] => ([], [])
  | x :: r' => if identChar x then (x :: fst (span_ident r'), snd (span_ident r')) else ([], r)
  end.

Lemma span_ident_spec : forall r, r = fst (span_ident r) ++ snd (span_ident r) /\
  forallb identChar (fst (span_ident r)) = true /\
  match snd (span_ident r) with [] => True | x :: _ => identChar x = false end.
Proof.
  induction r as [|x r IH]; cbn [span_ident]; [repeat split; auto|].
  destruct (identChar x) eqn:E; cbn [fst snd app forallb].
  - destruct IH as (A & B & C). rewrite E, B. repeat split; auto. f_equal; auto.
  - repeat split; auto.
Qed.

(* a word operator is a word that is itself in the table, possibly followed by more symbol bytes
   (sizeof...): the identifier scan finds the word, getLongest the whole symbol *)
Definition op_shape (ops : list oper) (o : oper) : bool :=
  match op_sym o with
  | [] => false
  | c :: r =>
    if identStart c
    then has_op ops (c :: fst (span_ident r))
         && match snd (span_ident r) with [] => true | x :: _ => negb (x =? 92) end
         && negb (is_prefix str_true (op_sym o)) && negb (is_prefix str_false (op_sym o))
    else tokstart c && negb (is_digit c) && after_dots_ok (op_sym o) && negb (c =? 116) && negb (c =? 102)
  end.

Definition rt_table_ok (ops : list oper) : bool :=
  table_ok ops && nodupb (map op_sym ops) && sym_free ops 0 && sym_free ops 32
  && forallb (op_shape ops) ops
  && negb (inb 10 (operatorCharcodes ops)) && negb (inb 34 (operatorCharcodes ops)) && negb (inb 39 (operatorCharcodes ops))
  && negb (has_op ops [117; 56]) && negb (has_op ops [117]) && negb (has_op ops [85]) && negb (has_op ops [76])
  (* the only symbol that starts with slash star is the block comment opener *)
  && forallb (fun o => if is_prefix [47; 42] (op_sym o)
                       then list_eqb (op_sym o) [47; 42] && ot_eqb (op_type o) ot_blockCommentStart
                       else true) ops
  && existsb (fun o => list_eqb (op_sym o) [47; 42]) ops
  (* and the only one that starts with slash slash is the line comment opener *)
  && forallb (fun o => if is_prefix [47; 47] (op_sym o)
                       then list_eqb (op_sym o) [47; 47] && ot_eqb (op_type o) ot_lineComment
                       else true) ops
  && existsb (fun o => list_eqb (op_sym o) [47; 47]) ops.

Section Roundtrip.
Variable ops : list oper.
Hypothesis Hrt : rt_table_ok ops = true.

Lemma rt_split :
  table_ok ops = true /\ nodupb (map op_sym ops) = true /\ sym_free ops 0 = true /\ sym_free ops 32 = true
  /\ forallb (op_shape ops) ops = true
  /\ inb 10 (operatorCharcodes ops) = false /\ inb 34 (operatorCharcodes ops) = false /\ inb 39 (operatorCharcodes ops) = false
  /\ has_op ops [117; 56] = false /\ has_op ops [117] = false /\ has_op ops [85] = false /\ has_op ops [76] = false
  /\ forallb (fun o => if is_prefix [47; 42] (op_sym o)
                       then list_eqb (op_sym o) [47; 42] && ot_eqb (op_type o) ot_blockCommentStart
                       else true) ops = true
  /\ existsb (fun o => list_eqb (op_sym o) [47; 42]) ops = true
  /\ forallb (fun o => if is_prefix [47; 47] (op_sym o)
                       then list_eqb (op_sym o) [47; 47] && ot_eqb (op_type o) ot_lineComment
                       else true) ops = true
  /\ existsb (fun o => list_eqb (op_sym o) [47; 47]) ops = true.
Proof.
  pose proof Hrt as H. unfold rt_table_ok in H. repeat rewrite andb_true_iff in H. repeat rewrite negb_true_iff in H.
  tauto.
Qed.

Lemma rt_table : table_ok ops = true. Proof. apply rt_split. Qed.

Lemma rt_nodup : NoDup (map op_sym ops).
Proof. apply nodupb_NoDup. apply rt_split. Qed.

Lemma rt_free0 : forall o, In o ops -> ~ In 0 (op_sym o).
Proof. apply sym_free_in. apply rt_split. Qed.

Lemma rt_free32 : forall o, In o ops -> ~ In 32 (op_sym o).
Proof. apply sym_free_in. apply rt_split. Qed.

Lemma rt_shape : forall o, In o ops -> op_shape ops o = true.
Proof. destruct rt_split as (_ & _ & _ & _ & H & _). rewrite forallb_forall in H. auto. Qed.

Lemma rt_chars : inb 10 (operatorCharcodes ops) = false /\ inb 34 (operatorCharcodes ops) = false /\ inb 39 (operatorCharcodes ops) = false.
Proof. destruct rt_split as (_ & _ & _ & _ & _ & A & B & C & _). auto. Qed.

Lemma rt_prefixes : has_op ops [117; 56] = false /\ has_op ops [117] = false /\ has_op ops [85] = false /\ has_op ops [76] = false.
Proof. destruct rt_split as (_ & _ & _ & _ & _ & _ & _ & _ & A & B & C & D & _). auto. Qed.

Lemma rt_comment : (forall o, In o ops -> is_prefix [47; 42] (op_sym o) = true ->
                      op_sym o = [47; 42] /\ ot_eqb (op_type o) ot_blockCommentStart = true)
                   /\ exists o, In o ops /\ op_sym o = [47; 42].
Proof.
  destruct rt_split as (_ & _ & _ & _ & _ & _ & _ & _ & _ & _ & _ & _ & H1 & H0 & _). split.
  - intros o I P. rewrite forallb_forall in H1. specialize (H1 o I). rewrite P in H1.
    apply andb_true_iff in H1. destruct H1 as [A B]. split; auto. apply list_eqb_eq; auto.
  - apply existsb_exists in H0. destruct H0 as (o & I & E). exists o. split; auto. apply list_eqb_eq; auto.
Qed.

Lemma rt_line_comment : (forall o, In o ops -> is_prefix [47; 47] (op_sym o) = true ->
                      op_sym o = [47; 47] /\ ot_eqb (op_type o) ot_lineComment = true)
                   /\ exists o, In o ops /\ op_sym o = [47; 47].
Proof.
  destruct rt_split as (_ & _ & _ & _ & _ & _ & _ & _ & _ & _ & _ & _ & _ & _ & H1 & H0). split.
  - intros o I P. rewrite forallb_forall in H1. specialize (H1 o I). rewrite P in H1.
    apply andb_true_iff in H1. destruct H1 as [A B]. split; auto. apply list_eqb_eq; auto.
  - apply existsb_exists in H0. destruct H0 as (o & I & E). exists o. split; auto. apply list_eqb_eq; auto.
Qed.

Lemma boe_free : forall rest, blank_or_end rest -> exists h t, rest = h :: t /\ forall o, In o ops -> ~ In h (op_sym o).
Proof.
  intros rest B. destruct (boe_cases rest B) as (c & r & -> & [->| ->]); eexists _, _; split; eauto using rt_free0, rt_free32.
Qed.

(* ------------------------------------------------------------------ shallowPeek at a token start *)
(* classification by the first byte once the number test has failed *)
Definition classify (c : Z) : pk :=
  if identStart c then KIdent
  else if inb c (operatorCharcodes ops) then KOp
  else if c =? 10 then KNewline
  else if c =? 34 then KString 0
  else if c =? 39 then KChar 0
  else KNone.

Lemma shallowPeek_notnum : forall c s p,
  tokstart c = true ->
  load (length (c :: s)) false (c :: s) = Ok p ->
  (p = None \/ exists c' pos', p = Some (c' :: pos') /\ identChar c' = true) ->
  shallowPeek fixed ops (c :: s) = Ok (classify c, c :: s).
Proof.
  intros c s p TS EL HP. unfold shallowPeek. rewrite skipWhitespace_tokstart; auto. cbn [bind rd].
  assert (c =? 0 = false).
  { unfold tokstart in TS. apply andb_true_iff in TS. destruct TS as [TS _]. apply andb_true_iff in TS.
    destruct TS as [TS _]. apply negb_true_iff in TS. auto. }
  rewrite H. rewrite EL. cbn [bind].
  assert (X : (isPrim <- match p with
                    | Some pos => c' <- rd pos;; Ok (negb (if fx_trueid fixed then identChar c' else identStart c'))
                    | None => Ok false
                    end ;;
         (if isPrim then Ok (KPrim, c :: s)
          else if identStart c then Ok (KIdent, c :: s)
          else if inb c (operatorCharcodes ops) then Ok (KOp, c :: s)
          else if c =? 10 then Ok (KNewline, c :: s)
          else if c =? 34 then Ok (KString 0, c :: s)
          else if c =? 39 then Ok (KChar 0, c :: s) else Ok (KNone, c :: s))) = Ok (classify c, c :: s)).
  { destruct HP as [->|(c' & pos' & -> & IC)]; cbn [bind rd fx_trueid fixed]; [|rewrite IC; cbn [negb]];
    unfold classify; repeat match goal with |- context [if ?b then _ else _] => destruct b end; reflexivity. }
  exact X.
Qed.

Lemma length_cons_S : forall (c : Z) s, length (c :: s) = S (length s).
Proof. reflexivity. Qed.

(* getToken at a token start skips its two preliminary steps *)
Lemma getToken_at : forall fx c s, tokstart c = true ->
  getToken fx ops (c :: s) =
  (r <- peek fx ops (c :: s) ;;
   let '(ty, s1) := r in
   match ty with
   | KIdent => c1 <- rd s1 ;; if negb (identStart c1) then Ok (None, s1)
                              else g <- getIdentifier s1 ;; Ok (Some (TIdent (fst g)), snd g)
   | KPrim => p <- load (length s1) true s1 ;;
              match p with
              | None => Ok (None, s1)
              | Some s2 => let txt := str_between s1 s2 in _ <- countSkippedLines txt s2 ;; Ok (Some (TPrim txt), s2)
              end
   | KOp => getOperatorToken ops s1
   | KNewline => Ok (Some TNewline, tl s1)
   | KChar enc => getCharToken fx enc s1
   | KString enc => getStringToken fx enc s1
   | KNone => c1 <- rd s1 ;; Ok (Some (TUnknown c1), tl s1)
   end).
Proof.
  intros fx c s TS. unfold getToken. cbn [rd bind].
  assert (c =? 0 = false).
  { unfold tokstart in TS. apply andb_true_iff in TS. destruct TS as [TS _]. apply andb_true_iff in TS.
    destruct TS as [TS _]. apply negb_true_iff in TS. auto. }
  rewrite H. rewrite skipWhitespace_tokstart; auto. cbn [bind rd]. rewrite H. reflexivity.
Qed.

(* ------------------------------------------------------------------ identifiers *)
Lemma identStart_tokstart : forall c, identStart c = true -> tokstart c = true.
Proof.
  intros c H. unfold identStart, is_lower, is_upper in H. unfold tokstart.
  destruct (c =? 0) eqn:A; [apply Z.eqb_eq in A; subst; discriminate|].
  destruct (c =? 92) eqn:B; [apply Z.eqb_eq in B; subst; discriminate|].
  destruct (inb c wsNoNl) eqn:C; auto. unfold inb, wsNoNl in C. cbn [existsb] in C.
  repeat (apply orb_true_iff in C; destruct C as [C|C]; [apply Z.eqb_eq in C; subst; discriminate|]).
  discriminate.
Qed.

Lemma identStart_numstart : forall c, identStart c = true -> c <> 116 -> c <> 102 -> numstart c = false.
Proof.
  intros c H A B. unfold numstart. apply Z.eqb_neq in A, B. rewrite A, B.
  unfold identStart, is_lower, is_upper in H. unfold is_digit.
  destruct (c =? 46) eqn:E; [apply Z.eqb_eq in E; subst; discriminate|].
  destruct ((48 <=? c) && (c <=? 57)) eqn:D; auto.
  apply andb_true_iff in D. destruct D as [D1 D2]. apply Z.leb_le in D1, D2.
  repeat (apply orb_true_iff in H; destruct H as [H|H]);
    try (apply andb_true_iff in H; destruct H as [H1 H2]; apply Z.leb_le in H1, H2; lia).
  apply Z.eqb_eq in H. lia.
Qed.

Lemma load_none_ident : forall f c s, identStart c = true ->
  is_prefix str_true (c :: s) = false -> is_prefix str_false (c :: s) = false ->
  load (S f) false (c :: s) = Ok None.
Proof.
  intros f c s IS PT PF. cbn [load rd bind]. rewrite PT, PF.
  assert (ND : is_digit c = false /\ (c =? 46) = false /\ (c =? 43) || (c =? 45) = false /\ (c =? 48) = false).
  { unfold identStart, is_lower, is_upper in IS. unfold is_digit.
    repeat split.
    - destruct ((48 <=? c) && (c <=? 57)) eqn:D; auto.
      apply andb_true_iff in D. destruct D as [D1 D2]. apply Z.leb_le in D1, D2.
      repeat (apply orb_true_iff in IS; destruct IS as [IS|IS]);
        try (apply andb_true_iff in IS; destruct IS as [H1 H2]; apply Z.leb_le in H1, H2; lia).
      apply Z.eqb_eq in IS. lia.
    - destruct (c =? 46) eqn:E; auto. apply Z.eqb_eq in E. subst. discriminate.
    - destruct (c =? 43) eqn:E; [apply Z.eqb_eq in E; subst; discriminate|].
      destruct (c =? 45) eqn:E'; [apply Z.eqb_eq in E'; subst; discriminate|]. reflexivity.
    - destruct (c =? 48) eqn:E; auto. apply Z.eqb_eq in E. subst. discriminate. }
  destruct ND as (D1 & D2 & D3 & D4). rewrite D3. cbn [andb bind]. unfold loadNum. cbn [rd bind].
  rewrite D4. cbn [bind digitsDots]. rewrite D1, D2. cbn [bind snd negb]. reflexivity.
Qed.

Lemma is_prefix_app_tail : forall m p h t, is_prefix m (p ++ h :: t) = true -> ~ In h m -> is_prefix m p = true.
Proof.
  induction m as [|x m IH]; intros p h t P NI; [reflexivity|].
  destruct p as [|a p]; cbn [app is_prefix] in *.
  - apply andb_true_iff in P. destruct P as [E _]. apply Z.eqb_eq in E. subst. exfalso. apply NI. left; auto.
  - apply andb_true_iff in P. destruct P as [E P]. rewrite E. cbn [andb]. eapply IH; eauto. intro X. apply NI. right; auto.
Qed.

(* an identifier-shaped word v (not true / false) is not taken for a number *)
Lemma load_word : forall f v rest,
  (exists c r, v = c :: r /\ identStart c = true /\ forallb identChar r = true) ->
  list_eqb v str_true = false -> list_eqb v str_false = false ->
  blank_or_end rest ->
  exists p, load (S f) false (v ++ rest) = Ok p /\
            (p = None \/ exists c' pos', p = Some (c' :: pos') /\ identChar c' = true).
Proof.
  intros f v rest (c & r & -> & IS & IC) NT NF B.
  destruct (boe_cases rest B) as (h & t & -> & Hh).
  assert (Hh' : h <> 116 /\ h <> 114 /\ h <> 117 /\ h <> 101 /\ h <> 102 /\ h <> 97 /\ h <> 108 /\ h <> 115)
    by (destruct Hh; subst; repeat split; lia).
  cbn [app load rd bind].
  (* prefix true *)
  destruct (is_prefix str_true (c :: r ++ h :: t)) eqn:PT.
  { eexists. split; [reflexivity|]. right.
    unfold str_true in PT. cbn [is_prefix] in PT.
    destruct r as [|c1 [|c2 [|c3 r3]]]; cbn [app is_prefix] in PT;
      repeat (apply andb_true_iff in PT; destruct PT as [? PT]);
      repeat match goal with H : (_ =? _) = true |- _ => apply Z.eqb_eq in H end; subst; try lia.
    destruct r3 as [|c4 r4].
    - cbn [list_eqb str_true Z.eqb Pos.eqb andb] in NT. discriminate.
    - cbn [app skipn]. eexists _, _. split; [reflexivity|].
      cbn [forallb] in IC. repeat (apply andb_true_iff in IC; destruct IC as [? IC]). auto. }
  destruct (is_prefix str_false (c :: r ++ h :: t)) eqn:PF.
  { eexists. split; [reflexivity|]. right.
    unfold str_false in PF. cbn [is_prefix] in PF.
    destruct r as [|c1 [|c2 [|c3 [|c4 r4]]]]; cbn [app is_prefix] in PF;
      repeat (apply andb_true_iff in PF; destruct PF as [? PF]);
      repeat match goal with H : (_ =? _) = true |- _ => apply Z.eqb_eq in H end; subst; try lia.
    destruct r4 as [|c5 r5].
    - cbn [list_eqb str_false Z.eqb Pos.eqb andb] in NF. discriminate.
    - cbn [app skipn]. eexists _, _. split; [reflexivity|].
      cbn [forallb] in IC. repeat (apply andb_true_iff in IC; destruct IC as [? IC]). auto. }
  (* otherwise: not a sign, not a digit, not a dot *)
  exists None. split; auto.
  assert (ND : is_digit c = false /\ (c =? 46) = false /\ (c =? 43) || (c =? 45) = false /\ (c =? 48) = false).
  { unfold identStart, is_lower, is_upper in IS. unfold is_digit.
    repeat split.
    - destruct ((48 <=? c) && (c <=? 57)) eqn:D; auto.
      apply andb_true_iff in D. destruct D as [D1 D2]. apply Z.leb_le in D1, D2.
      repeat (apply orb_true_iff in IS; destruct IS as [IS|IS]);
        try (apply andb_true_iff in IS; destruct IS as [H1 H2]; apply Z.leb_le in H1, H2; lia).
      apply Z.eqb_eq in IS. lia.
    - destruct (c =? 46) eqn:E; auto. apply Z.eqb_eq in E. subst. discriminate.
    - destruct (c =? 43) eqn:E; [apply Z.eqb_eq in E; subst; discriminate|].
      destruct (c =? 45) eqn:E'; [apply Z.eqb_eq in E'; subst; discriminate|]. reflexivity.
    - destruct (c =? 48) eqn:E; auto. apply Z.eqb_eq in E. subst. discriminate. }
  destruct ND as (D1 & D2 & D3 & D4). rewrite D3. cbn [andb bind]. unfold loadNum. cbn [rd bind].
  rewrite D4. cbn [bind digitsDots]. rewrite D1, D2. cbn [bind snd negb]. reflexivity.
Qed.

(* a word followed by a blank or the end: the identifier scan stops exactly after it *)
Lemma scan_word : forall c r rest, forallb identChar r = true -> blank_or_end rest ->
  skipFrom identChar (r ++ rest) = Ok rest /\ str_between (c :: r ++ rest) rest = c :: r.
Proof.
  intros c r rest IC B. split.
  - apply skipFrom_ident; auto. apply boe_stop; auto.
  - change (c :: r ++ rest) with ((c :: r) ++ rest). apply str_between_app.
Qed.

Lemma boe_rd : forall rest, blank_or_end rest -> exists h, rd rest = Ok h /\ (h = 0 \/ h = 32).
Proof. intros rest B. destruct (boe_cases rest B) as (c & r & -> & H). exists c. auto. Qed.

Theorem lex_ident : forall v rest, spec_ident ops v = true -> blank_or_end rest ->
  getToken fixed ops (v ++ rest) = Ok (Some (TIdent v), rest).
Proof.
  intros v rest SI B. unfold spec_ident in SI. destruct v as [|c r]; [discriminate|].
  repeat (apply andb_true_iff in SI; destruct SI as [SI ?]).
  apply negb_true_iff in H, H0, H1.
  pose proof (identStart_tokstart c SI) as TS.
  cbn [app]. rewrite getToken_at; auto. unfold peek.
  destruct (load_word (length (r ++ rest)) (c :: r) rest) as (p & EL & HP); eauto.
  rewrite (shallowPeek_notnum c (r ++ rest) p TS EL HP). cbn [bind]. unfold classify. rewrite SI.
  destruct (scan_word c r rest H2 B) as [SK SB].
  unfold peekForIdentifier. cbn [tl]. rewrite SK. cbn [bind fx_prefix fixed]. rewrite SB.
  destruct (boe_rd rest B) as (h & Rh & Hh). rewrite Rh. cbn [bind]. rewrite H1.
  assert ((if h =? 34 then KString 0 else if h =? 39 then KChar 0 else KNone) = KNone)
    by (destruct Hh; subst; reflexivity).
  rewrite H3. cbn [bind rd]. rewrite SI. cbn [negb].
  unfold getIdentifier. cbn [rd bind]. rewrite SI. cbn [negb tl]. rewrite SK. cbn [bind fst snd]. rewrite SB.
  reflexivity.
Qed.

(* ------------------------------------------------------------------ operators *)
Lemma in_ops_of_eqb : forall o, existsb (oper_eqb o) ops = true -> In o ops.
Proof.
  intros o H. apply existsb_exists in H. destruct H as (o' & I & E).
  unfold oper_eqb in E. repeat (apply andb_true_iff in E; destruct E as [E ?]).
  apply list_eqb_eq in E, H. apply Z.eqb_eq in H0, H1. unfold ot_eqb in H2.
  apply andb_true_iff in H2. destruct H2 as [A B]. apply Z.eqb_eq in A, B.
  destruct o as [s1 [t1 t2] p1 c1 q1], o' as [s2 [t3 t4] p2 c2 q2]. simpl in *. subst. auto.
Qed.

Lemma after_dots_split : forall s, after_dots_ok s = true ->
  exists n tl_, s = repeat 46 n ++ tl_ /\ match tl_ with [] => True | d :: _ => is_digit d = false /\ (d =? 46) = false end.
Proof.
  induction s as [|c r IH]; intro H.
  - exists O, []. split; auto.
  - cbn [after_dots_ok] in H. destruct (c =? 46) eqn:E.
    + apply Z.eqb_eq in E. subst c. destruct (IH H) as (n & t & -> & P). exists (S n), t. split; auto.
    + exists O, (c :: r). split; auto. split; auto. apply negb_true_iff; auto.
Qed.

Theorem lex_op : forall o rest, spec_op ops o = true -> blank_or_end rest ->
  getToken fixed ops (op_sym o ++ rest) = Ok (Some (TOp o), rest).
Proof.
  intros o rest SO B. unfold spec_op in SO. apply andb_true_iff in SO. destruct SO as [IO NC].
  apply in_ops_of_eqb in IO. apply negb_true_iff in NC.
  pose proof (rt_shape o IO) as SH. unfold op_shape in SH.
  destruct (boe_free rest B) as (h & t & Er & FR).
  assert (GL : getLongest ops (op_sym o ++ rest) = Some o).
  { subst rest. apply getLongest_sym; auto using rt_nodup. }
  assert (GOT : getOperatorToken ops (op_sym o ++ rest) = Ok (Some (TOp o), rest)).
  { unfold getOperatorToken. rewrite GL. rewrite NC. cbn [andb].
    f_equal. f_equal. clear. induction (op_sym o); simpl; auto. }
  destruct (op_sym o) as [|c r] eqn:ES; [discriminate|].
  destruct (identStart c) eqn:IS.
  - (* a word operator: found through peekForIdentifier *)
    repeat (apply andb_true_iff in SH; destruct SH as [SH ?]). apply negb_true_iff in H, H0.
    pose proof (identStart_tokstart c IS) as TS.
    destruct (span_ident_spec r) as (SR & SW & ST).
    remember (fst (span_ident r)) as w eqn:Hw. remember (snd (span_ident r)) as tl_ eqn:Htl.
    assert (NH : forall m, (forall x, In x m -> x <> 0 /\ x <> 32) -> is_prefix m (c :: r) = false ->
                 is_prefix m (c :: r ++ rest) = false).
    { intros m Hm Pm. destruct (is_prefix m (c :: r ++ rest)) eqn:X; auto.
      subst rest. change (c :: r ++ h :: t) with ((c :: r) ++ h :: t) in X.
      apply is_prefix_app_tail in X; [congruence|].
      intro I. destruct (Hm h I). destruct (boe_cases _ B) as (? & ? & Y & [Z0|Z0]); inversion Y; subst; contradiction. }
    assert (PT : is_prefix str_true (c :: r ++ rest) = false).
    { apply NH; auto. intros x Hx. unfold str_true in Hx. cbn [In] in Hx. intuition lia. }
    assert (PF : is_prefix str_false (c :: r ++ rest) = false).
    { apply NH; auto. intros x Hx. unfold str_false in Hx. cbn [In] in Hx. intuition lia. }
    cbn [app]. rewrite getToken_at; auto. unfold peek.
    assert (EL : load (length (c :: r ++ rest)) false (c :: r ++ rest) = Ok None).
    { rewrite length_cons_S. apply load_none_ident; auto. }
    rewrite (shallowPeek_notnum c (r ++ rest) None TS EL (or_introl eq_refl)). cbn [bind]. unfold classify. rewrite IS.
    assert (STOP : exists h' t', tl_ ++ rest = h' :: t' /\ identChar h' = false /\ h' <> 92).
    { destruct tl_ as [|x tl'] eqn:ET.
      - cbn [app]. apply boe_stop; auto.
      - exists x, (tl' ++ rest). repeat split; auto. apply negb_true_iff, Z.eqb_neq in H1. auto. }
    assert (SK : skipFrom identChar (r ++ rest) = Ok (tl_ ++ rest)).
    { rewrite SR at 1. rewrite <- app_assoc. apply skipFrom_ident; auto. }
    assert (SB : str_between (c :: r ++ rest) (tl_ ++ rest) = c :: w).
    { rewrite SR at 1. rewrite <- app_assoc. change (c :: w ++ tl_ ++ rest) with ((c :: w) ++ tl_ ++ rest). apply str_between_app. }
    unfold peekForIdentifier. cbn [tl]. rewrite SK. cbn [bind fx_prefix fixed]. rewrite SB.
    destruct STOP as (h' & t' & EH & _). rewrite EH. cbn [rd bind]. rewrite SH. cbn [bind]. exact GOT.
  - (* a symbol *)
    repeat (apply andb_true_iff in SH; destruct SH as [SH ?]). apply negb_true_iff in H, H0, H2.
    assert (TS : tokstart c = true) by (unfold tokstart; rewrite SH, H4, H3; reflexivity).
    cbn [app]. rewrite getToken_at; auto. unfold peek.
    assert (EL : load (length (c :: r ++ rest)) false (c :: r ++ rest) = Ok None).
    { rewrite length_cons_S. destruct (c =? 46) eqn:E46.
      - destruct (after_dots_split (c :: r) H1) as (n & tl_ & E & P).
        destruct n as [|n]; [cbn [repeat app] in E; subst tl_; destruct P as [_ P]; congruence|].
        destruct tl_ as [|d tl'].
        + (* only dots, then the blank or the NUL *)
          change (c :: r ++ rest) with ((c :: r) ++ rest). rewrite E. rewrite app_nil_r. subst rest.
          apply load_none_dots; destruct (boe_cases _ B) as (? & ? & X & [Y|Y]); inversion X; subst; reflexivity.
        + destruct P as [P1 P2].
          change (c :: r ++ rest) with ((c :: r) ++ rest). rewrite E. rewrite <- app_assoc. cbn [app].
          apply load_none_dots; auto.
      - apply load_none_start. unfold numstart. rewrite H2, E46, H0, H. reflexivity. }
    rewrite (shallowPeek_notnum c (r ++ rest) None TS EL (or_introl eq_refl)). cbn [bind]. unfold classify. rewrite IS.
    assert (OC : inb c (operatorCharcodes ops) = true).
    { unfold operatorCharcodes, inb. apply existsb_exists. exists c. split; [|apply Z.eqb_refl].
      apply in_flat_map. exists o. split; auto. rewrite ES, IS. left; auto. }
    rewrite OC. unfold peekForOperator. change (c :: r ++ rest) with ((c :: r) ++ rest). rewrite GL. cbn [bind].
    exact GOT.
Qed.

(* ------------------------------------------------------------------ character and string literals *)
Lemma getUdf_spec : forall u rest, spec_udf u = true -> blank_or_end rest -> getUdf (u ++ rest) = Ok (u, rest).
Proof.
  intros u rest SU B. unfold getUdf. destruct u as [|c r].
  - cbn [app]. destruct (boe_rd rest B) as (h & Rh & Hh). rewrite Rh. cbn [bind].
    destruct Hh; subst; reflexivity.
  - cbn [spec_udf] in SU. apply andb_true_iff in SU. destruct SU as [S1 S2]. apply Z.eqb_eq in S1. subst c.
    cbn [app rd bind Z.eqb Pos.eqb]. unfold getIdentifier. cbn [rd bind]. change (identStart 95) with true. cbn [negb tl].
    destruct (scan_word 95 r rest S2 B) as [SK SB]. rewrite SK. cbn [bind]. rewrite SB. reflexivity.
Qed.

(* the body of a literal: from the opening quote through the user suffix *)
Lemma getString_body : forall e v tail, Z.land e encR = 0 -> spec_litvalue 34 v = true ->
  getString fixed e (34 :: spec_escape 34 v ++ 34 :: tail) = Ok (Some v, tail).
Proof.
  intros e v tail EV LV. unfold getString. rewrite EV. cbn [Z.eqb negb rd bind tl].
  unfold spec_litvalue in LV.
  rewrite (skipTo_raw 34 (length (spec_escape 34 v)) _ tail (or_introl eq_refl) (le_n _) LV). cbn [bind rd fx_nul fixed Z.eqb Pos.eqb negb tl].
  change (spec_escape 34 v ++ 34 :: tail) with (spec_escape 34 v ++ (34 :: tail)). rewrite str_between_app.
  rewrite unescape_spec_escape; [reflexivity|lia].
Qed.

Definition prefix_of (e : Z) : list Z := spec_prefix e.

Lemma land_even : forall e, existsb (Z.eqb e) [0; 2; 4; 8; 16] = true -> Z.land e encR = 0 /\ is_raw e = false.
Proof.
  intros e H. cbn [existsb] in H.
  repeat (apply orb_true_iff in H; destruct H as [H|H]; [apply Z.eqb_eq in H; subst; split; reflexivity|]).
  discriminate.
Qed.

(* peek on `prefix quote ...` and on `quote ...` *)
Lemma peek_quote : forall q X, (q = 34 \/ q = 39) ->
  peek fixed ops (q :: X) = Ok ((if q =? 34 then KString 0 else KChar 0), q :: X).
Proof.
  intros q X Hq. unfold peek.
  assert (TS : tokstart q = true) by (destruct Hq; subst; reflexivity).
  assert (EL : load (length (q :: X)) false (q :: X) = Ok None).
  { rewrite length_cons_S. apply load_none_start. destruct Hq; subst; reflexivity. }
  rewrite (shallowPeek_notnum q X None TS EL (or_introl eq_refl)). cbn [bind]. unfold classify.
  destruct rt_chars as (_ & C34 & C39).
  destruct Hq; subst q; cbn [identStart is_lower is_upper Z.leb Z.compare Pos.compare Pos.compare_cont andb orb Z.eqb Pos.eqb];
    rewrite ?C34, ?C39; reflexivity.
Qed.

Lemma peek_prefixed : forall pre q X, (q = 34 \/ q = 39) ->
  In pre [[117; 56]; [117]; [85]; [76]] ->
  peek fixed ops (pre ++ q :: X) =
  Ok ((if q =? 34 then (let e := getStringEncoding pre in if e =? 0 then KIdent else KString e)
       else (let e := getCharacterEncoding pre in if e =? 0 then KIdent else KChar e)), pre ++ q :: X)
  /\ getIdentifier (pre ++ q :: X) = Ok (pre, q :: X).
Proof.
  intros pre q X Hq Hp.
  assert (PS : exists c r, pre = c :: r /\ identStart c = true /\ forallb identChar r = true /\ numstart c = false /\ has_op ops pre = false).
  { destruct rt_prefixes as (P1 & P2 & P3 & P4).
    cbn [In] in Hp. repeat (destruct Hp as [Hp|Hp]; [subst pre; eexists _, _; repeat split; auto|]). destruct Hp. }
  destruct PS as (c & r & -> & IS & IC & NS & HO).
  assert (STOP : exists h t, q :: X = h :: t /\ identChar h = false /\ h <> 92).
  { exists q, X. destruct Hq; subst q; repeat split; auto; lia. }
  assert (SK : skipFrom identChar (r ++ q :: X) = Ok (q :: X)) by (apply skipFrom_ident; auto).
  assert (SB : str_between (c :: r ++ q :: X) (q :: X) = c :: r).
  { change (c :: r ++ q :: X) with ((c :: r) ++ q :: X). apply str_between_app. }
  split.
  - unfold peek. pose proof (identStart_tokstart c IS) as TS. cbn [app].
    assert (EL : load (length (c :: r ++ q :: X)) false (c :: r ++ q :: X) = Ok None).
    { rewrite length_cons_S. apply load_none_start; auto. }
    rewrite (shallowPeek_notnum c (r ++ q :: X) None TS EL (or_introl eq_refl)). cbn [bind]. unfold classify. rewrite IS.
    unfold peekForIdentifier. cbn [tl]. rewrite SK. cbn [bind fx_prefix fixed rd]. rewrite SB. rewrite HO.
    destruct Hq; subst q; cbn [Z.eqb Pos.eqb]; reflexivity.
  - unfold getIdentifier. cbn [app rd bind]. rewrite IS. cbn [negb tl]. rewrite SK. cbn [bind]. rewrite SB. reflexivity.
Qed.

Lemma string_prefix_cases : forall e, existsb (Z.eqb e) [0; 2; 4; 8; 16] = true ->
  (e = 0 /\ printEncoding true e = [] /\ spec_prefix e = []) \/
  (e <> 0 /\ In (spec_prefix e) [[117; 56]; [117]; [85]; [76]] /\ printEncoding true e = spec_prefix e /\
   getStringEncoding (spec_prefix e) = e).
Proof.
  intros e H. cbn [existsb] in H.
  repeat (apply orb_true_iff in H; destruct H as [H|H]; [apply Z.eqb_eq in H; subst e|]); try discriminate.
  - left. repeat split; reflexivity.
  - right. repeat split; try lia; try reflexivity. cbn. auto.
  - right. repeat split; try lia; try reflexivity. cbn. auto.
  - right. repeat split; try lia; try reflexivity. cbn. auto.
  - right. repeat split; try lia; try reflexivity. cbn. auto 6.
Qed.

Theorem lex_string : forall e v u rest,
  existsb (Z.eqb e) [0; 2; 4; 8; 16] = true -> spec_litvalue 34 v = true -> spec_udf u = true ->
  blank_or_end rest ->
  getToken fixed ops (printToken fixed (TString e v u) ++ rest) = Ok (Some (TString e v u), rest).
Proof.
  intros e v u rest HE LV SU B. destruct (land_even e HE) as [EV _].
  cbn [printToken]. unfold escape. rewrite escape_fixed_spec.
  assert (BODY : getString fixed e (34 :: spec_escape 34 v ++ 34 :: u ++ rest) = Ok (Some v, u ++ rest))
    by (apply getString_body; auto).
  destruct (string_prefix_cases e HE) as [(E0 & PE & SP)|(NE & IP & PE & GE)]; rewrite PE.
  - subst e. cbn [app]. rewrite getToken_at; [|reflexivity].
    replace (spec_escape 34 v ++ 34 :: u ++ rest) with (spec_escape 34 v ++ 34 :: u ++ rest) by reflexivity.
    rewrite <- app_assoc. cbn [app].
    rewrite (peek_quote 34 _ (or_introl eq_refl)). cbn [bind Z.eqb Pos.eqb].
    unfold getStringToken. cbn [Z.eqb bind rd negb]. rewrite BODY. cbn [bind].
    rewrite (getUdf_spec u rest SU B). cbn [bind fst snd]. reflexivity.
  - repeat rewrite <- app_assoc. cbn [app].
    set (X := spec_escape 34 v ++ 34 :: u ++ rest).
    destruct (peek_prefixed (spec_prefix e) 34 X (or_introl eq_refl) IP) as [PK GI].
    assert (TS : exists c r, spec_prefix e = c :: r /\ tokstart c = true).
    { cbn [In] in IP. repeat (destruct IP as [IP|IP]; [rewrite <- IP; eexists _, _; split; reflexivity|]). destruct IP. }
    destruct TS as (c & r & EP & TS). rewrite EP in *. cbn [app] in *.
    rewrite getToken_at; auto. rewrite PK. cbn [bind Z.eqb Pos.eqb]. rewrite GE.
    assert (e =? 0 = false) by (apply Z.eqb_neq; auto). rewrite H.
    unfold getStringToken. rewrite H. rewrite GI. cbn [bind snd rd Z.eqb Pos.eqb negb].
    unfold X. rewrite BODY. cbn [bind]. rewrite (getUdf_spec u rest SU B). cbn [bind fst snd]. reflexivity.
Qed.

Lemma char_prefix_cases : forall e, existsb (Z.eqb e) [0; 4; 8; 16] = true ->
  (e = 0 /\ printEncoding false e = []) \/
  (e <> 0 /\ In (printEncoding false e) [[117; 56]; [117]; [85]; [76]] /\ getCharacterEncoding (printEncoding false e) = e).
Proof.
  intros e H. cbn [existsb] in H.
  repeat (apply orb_true_iff in H; destruct H as [H|H]; [apply Z.eqb_eq in H; subst e|]); try discriminate.
  - left. split; reflexivity.
  - right. repeat split; try lia; try reflexivity. cbn. auto.
  - right. repeat split; try lia; try reflexivity. cbn. auto.
  - right. repeat split; try lia; try reflexivity. cbn. auto 6.
Qed.

Lemma getChar_body : forall e v u rest, spec_litvalue 39 v = true -> spec_udf u = true -> blank_or_end rest ->
  (s3 <- skipTo [39; 10] (spec_escape 39 v ++ 39 :: u ++ rest) ;;
   c3 <- rd s3 ;;
   if (if fx_nul fixed then negb (c3 =? 39) else c3 =? 10) then Ok (None, spec_escape 39 v ++ 39 :: u ++ rest)
   else let v' := unescape 39 (str_between (spec_escape 39 v ++ 39 :: u ++ rest) s3) in
        g <- getUdf (tl s3) ;; Ok (Some (TChar e v' (fst g)), snd g)) = Ok (Some (TChar e v u), rest).
Proof.
  intros e v u rest LV SU B. unfold spec_litvalue in LV.
  rewrite (skipTo_raw 39 (length (spec_escape 39 v)) _ (u ++ rest) (or_intror eq_refl) (le_n _) LV).
  cbn [bind rd fx_nul fixed Z.eqb Pos.eqb negb tl].
  change (spec_escape 39 v ++ 39 :: u ++ rest) with (spec_escape 39 v ++ (39 :: u ++ rest)). rewrite str_between_app.
  rewrite unescape_spec_escape; [|lia]. rewrite (getUdf_spec u rest SU B). reflexivity.
Qed.

Theorem lex_char : forall e v u rest,
  existsb (Z.eqb e) [0; 4; 8; 16] = true -> spec_litvalue 39 v = true -> spec_udf u = true ->
  blank_or_end rest ->
  getToken fixed ops (printToken fixed (TChar e v u) ++ rest) = Ok (Some (TChar e v u), rest).
Proof.
  intros e v u rest HE LV SU B.
  cbn [printToken]. unfold escape. rewrite escape_fixed_spec.
  pose proof (getChar_body e v u rest LV SU B) as BODY.
  destruct (char_prefix_cases e HE) as [(E0 & PE)|(NE & IP & GE)].
  - rewrite PE. subst e. cbn [app]. rewrite getToken_at; [|reflexivity].
    rewrite <- app_assoc. cbn [app].
    rewrite (peek_quote 39 _ (or_intror eq_refl)). cbn [bind Z.eqb Pos.eqb].
    unfold getCharToken. cbn [Z.eqb bind rd negb tl]. exact BODY.
  - repeat rewrite <- app_assoc. cbn [app].
    set (X := spec_escape 39 v ++ 39 :: u ++ rest) in *.
    destruct (peek_prefixed (printEncoding false e) 39 X (or_intror eq_refl) IP) as [PK GI].
    assert (TS : exists c r, printEncoding false e = c :: r /\ tokstart c = true).
    { cbn [In] in IP. repeat (destruct IP as [IP|IP]; [rewrite <- IP; eexists _, _; split; reflexivity|]). destruct IP. }
    destruct TS as (c & r & EP & TS). rewrite EP in *. cbn [app] in *.
    rewrite getToken_at; auto. rewrite PK. cbn [bind Z.eqb Pos.eqb]. rewrite GE.
    assert (e =? 0 = false) by (apply Z.eqb_neq; auto). rewrite H.
    unfold getCharToken. rewrite H. rewrite GI. cbn [bind snd rd Z.eqb Pos.eqb negb tl]. exact BODY.
Qed.

(* ------------------------------------------------------------------ comments, newline, unknown bytes *)
Lemma blockComment_body : forall r rest, ends_at_first_star_slash r = true ->
  Forall (fun c => c <> 0 /\ c <> 92) r ->
  blockComment (r ++ rest) = Ok rest.
Proof.
  induction r as [|c r1 IH]; intros rest E F; [discriminate|].
  inversion F as [|? ? [C0 C92] F1]; subst. cbn [ends_at_first_star_slash] in E. cbn [app blockComment].
  apply Z.eqb_neq in C0, C92. rewrite C0, C92.
  destruct (c =? 42) eqn:E42.
  - destruct r1 as [|c1 r2]; [discriminate|]. cbn [app]. destruct (c1 =? 47) eqn:E47.
    + destruct r2; [reflexivity|discriminate].
    + apply IH; auto.
  - apply IH; auto.
Qed.

Theorem lex_comment : forall v rest, spec_block_comment v = true -> guard (TComment v) = true ->
  blank_or_end rest ->
  getToken fixed ops (v ++ rest) = Ok (Some (TComment v), rest).
Proof.
  intros v rest SC G B. unfold spec_block_comment in SC. destruct v as [|c0 [|c1 r]]; try discriminate.
  repeat (apply andb_true_iff in SC; destruct SC as [SC ?]).
  apply Z.eqb_eq in SC, H1. subst c0 c1.
  cbn [guard] in G. apply andb_true_iff in G. destruct G as [G1 G2]. apply negb_true_iff in G1, G2.
  assert (F : Forall (fun c => c <> 0 /\ c <> 92) r).
  { apply Forall_forall. intros x Hx. split.
    - unfold nonzero in H0. rewrite forallb_forall in H0. specialize (H0 x (or_intror (or_intror Hx))).
      apply negb_true_iff, Z.eqb_neq in H0. auto.
    - intro; subst x. unfold inb in G1.
      assert (existsb (Z.eqb 92) (47 :: 42 :: r) = true).
      { apply existsb_exists. exists 92. split; [right; right; auto|reflexivity]. }
      congruence. }
  destruct rt_comment as [RC (o & IO & EO)].
  assert (GL : getLongest ops (47 :: 42 :: r ++ rest) = Some o).
  { apply getLongest_exact; auto using rt_nodup.
    - rewrite EO. reflexivity.
    - intros o' I' P'. rewrite EO. cbn [length].
      destruct (le_lt_dec (length (op_sym o')) 2) as [|LT]; auto.
      assert (is_prefix [47; 42] (op_sym o') = true).
      { destruct (op_sym o') as [|a [|b l]]; simpl in LT; try lia. simpl in P'.
        apply andb_true_iff in P'. destruct P' as [A P']. apply andb_true_iff in P'. destruct P' as [A' _].
        apply Z.eqb_eq in A, A'. subst. reflexivity. }
      destruct (RC o' I' H1) as [X _]. rewrite X. simpl. lia. }
  destruct (RC o IO) as [_ TY]; [rewrite EO; reflexivity|].
  cbn [app]. rewrite getToken_at; [|reflexivity]. unfold peek.
  assert (EL : load (length (47 :: 42 :: r ++ rest)) false (47 :: 42 :: r ++ rest) = Ok None).
  { rewrite length_cons_S. apply load_none_start. reflexivity. }
  rewrite (shallowPeek_notnum 47 (42 :: r ++ rest) None eq_refl EL (or_introl eq_refl)). cbn [bind]. unfold classify.
  change (identStart 47) with false. cbv iota.
  assert (OC : inb 47 (operatorCharcodes ops) = true).
  { unfold operatorCharcodes, inb. apply existsb_exists. exists 47. split; [|reflexivity].
    apply in_flat_map. exists o. split; auto. rewrite EO. left; auto. }
  rewrite OC. unfold peekForOperator. rewrite GL. cbn [bind].
  unfold getOperatorToken. rewrite GL.
  assert (ot_eqb (op_type o) ot_lineComment = false).
  { unfold ot_eqb in *. apply andb_true_iff in TY. destruct TY as [A1 A2]. apply Z.eqb_eq in A1, A2.
    rewrite A1, A2. reflexivity. }
  rewrite H1. rewrite andb_false_r.
  assert (ot_has (op_type o) ot_comment = true).
  { unfold ot_eqb in TY. apply andb_true_iff in TY. destruct TY as [A1 A2]. apply Z.eqb_eq in A1, A2.
    unfold ot_has, ot_and, ot_true. rewrite A1, A2. reflexivity. }
  rewrite H2, TY. cbn [andb].
  (* the scan: slash, star (not followed by slash), then the body *)
  assert (BC : blockComment (47 :: 42 :: r ++ rest) = Ok rest).
  { cbn [blockComment Z.eqb Pos.eqb]. destruct r as [|x r']; [discriminate|]. cbn [app].
    rewrite G2. apply (blockComment_body (x :: r') rest); auto. }
  rewrite BC. cbn [bind]. change (47 :: 42 :: r ++ rest) with ((47 :: 42 :: r) ++ rest). rewrite str_between_app. reflexivity.
Qed.

Theorem lex_newline : forall rest, blank_or_end rest ->
  getToken fixed ops (10 :: rest) = Ok (Some TNewline, rest).
Proof.
  intros rest B. rewrite getToken_at; [|reflexivity]. unfold peek.
  assert (EL : load (length (10 :: rest)) false (10 :: rest) = Ok None).
  { rewrite length_cons_S. apply load_none_start. reflexivity. }
  rewrite (shallowPeek_notnum 10 rest None eq_refl EL (or_introl eq_refl)). cbn [bind]. unfold classify.
  destruct rt_chars as (C10 & _). change (identStart 10) with false. cbv iota. rewrite C10. reflexivity.
Qed.

Theorem lex_unknown : forall c rest, spec_unknown ops c = true -> blank_or_end rest ->
  getToken fixed ops (c :: rest) = Ok (Some (TUnknown c), rest).
Proof.
  intros c rest SU B. unfold spec_unknown in SU.
  repeat (apply andb_true_iff in SU; destruct SU as [SU ?]).
  apply negb_true_iff in SU, H, H0, H1, H2, H3, H4, H5, H6.
  assert (TS : tokstart c = true).
  { unfold tokstart. rewrite SU, H6. cbn [negb andb]. apply negb_true_iff.
    unfold inb, wsAll in H5. unfold inb, wsNoNl. cbn [existsb] in *.
    repeat (apply orb_false_iff in H5; destruct H5 as [? H5]).
    repeat (apply orb_false_iff; split; auto). }
  rewrite getToken_at; auto. unfold peek.
  assert (EL : load (length (c :: rest)) false (c :: rest) = Ok None).
  { rewrite length_cons_S. apply load_none_start. unfold numstart. rewrite H3, H.
    destruct (c =? 116) eqn:E1; [apply Z.eqb_eq in E1; subst c; discriminate|].
    destruct (c =? 102) eqn:E2; [apply Z.eqb_eq in E2; subst c; discriminate|]. reflexivity. }
  rewrite (shallowPeek_notnum c rest None TS EL (or_introl eq_refl)). cbn [bind]. unfold classify.
  rewrite H4, H2.
  assert (c =? 10 = false).
  { unfold inb, wsAll in H5. cbn [existsb] in H5. repeat (apply orb_false_iff in H5; destruct H5 as [? H5]). auto. }
  rewrite H7, H1, H0. cbn [rd bind tl]. reflexivity.
Qed.

(* ------------------------------------------------------------------ numeric literals: see ProofsPrim.v *)
End Roundtrip.
