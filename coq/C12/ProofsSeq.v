(* C12: every good token inside the guard re-tokenizes to itself, and so does every blank-separated
   sequence of them; line comments up to their newline. *)
From Coq Require Import List ZArith Bool Lia.
From OV.C12 Require Import OpDefs Model Spec ProofsSafety ProofsSafety2 ProofsRoundtrip ProofsPrim.
Import ListNotations.
Local Open Scope Z_scope.

Section Seq.
Variable ops : list oper.
Hypothesis Hrt : rt_table_ok ops = true.

Lemma string_enc_guard : forall e, spec_string_enc e = true -> is_raw e = false ->
  existsb (Z.eqb e) [0; 2; 4; 8; 16] = true.
Proof.
  intros e H R. unfold spec_string_enc in H. cbn [existsb] in H.
  repeat (apply orb_true_iff in H; destruct H as [H|H]; [apply Z.eqb_eq in H; subst e; try reflexivity; discriminate|]).
  discriminate.
Qed.

Theorem lex_good : forall t rest, good ops t = true -> guard t = true -> blank_or_end rest ->
  getToken fixed ops (printToken fixed t ++ rest) = Ok (Some t, rest).
Proof.
  intros t rest G Gd B. destruct t; cbn [good guard] in *.
  - apply lex_ident; auto.
  - apply lex_prim; auto.
  - apply lex_op; auto.
  - cbn [printToken app]. apply lex_newline; auto.
  - apply andb_true_iff in G. destruct G as [G G3]. apply andb_true_iff in G. destruct G as [G1 G2].
    apply lex_char; auto.
  - apply andb_true_iff in G. destruct G as [G G3]. apply andb_true_iff in G. destruct G as [G1 G2].
    apply negb_true_iff in Gd. rewrite Gd in G2. apply lex_string; auto. apply string_enc_guard; auto.
  - apply lex_comment; auto.
  - cbn [printToken app]. apply lex_unknown; auto.
Qed.

(* the printed form of a good token starts with a non-zero byte *)
Lemma print_first : forall t, good ops t = true -> exists c r, printToken fixed t = c :: r /\ c <> 0.
Proof.
  intros t G. destruct t; cbn [good printToken] in *.
  - unfold spec_ident in G. destruct v as [|c r]; [discriminate|].
    repeat (apply andb_true_iff in G; destruct G as [G ?]). exists c, r. split; auto.
    intro; subst c. discriminate.
  - unfold spec_prim in G. apply andb_true_iff in G. destruct G as [NZ G]. destruct src as [|c r]; [discriminate|].
    exists c, r. split; auto. unfold nonzero in NZ. cbn [forallb] in NZ. apply andb_true_iff in NZ.
    destruct NZ as [NZ _]. apply negb_true_iff, Z.eqb_neq in NZ. auto.
  - unfold spec_op in G. apply andb_true_iff in G. destruct G as [G _]. apply (in_ops_of_eqb ops) in G.
    destruct (table_ok_in ops o (rt_table ops Hrt) G) as (c & r & E & F & _). exists c, r. split; auto.
    rewrite E in F. inversion F; auto.
  - exists 10, []. split; auto. lia.
  - apply andb_true_iff in G. destruct G as [G _]. apply andb_true_iff in G. destruct G as [G _].
    unfold spec_char_enc in G. cbn [existsb] in G.
    repeat (apply orb_true_iff in G; destruct G as [G|G]; [apply Z.eqb_eq in G; subst enc; cbn; eexists _, _; split; [reflexivity|lia]|]).
    discriminate.
  - apply andb_true_iff in G. destruct G as [G _]. apply andb_true_iff in G. destruct G as [G _].
    unfold spec_string_enc in G. cbn [existsb] in G.
    repeat (apply orb_true_iff in G; destruct G as [G|G]; [apply Z.eqb_eq in G; subst enc; cbn; eexists _, _; split; [reflexivity|lia]|]).
    discriminate.
  - unfold spec_block_comment in G. destruct v as [|c0 [|c1 r]]; try discriminate.
    repeat (apply andb_true_iff in G; destruct G as [G ?]). apply Z.eqb_eq in G. subst c0.
    eexists _, _. split; [reflexivity|lia].
  - unfold spec_unknown in G. repeat (apply andb_true_iff in G; destruct G as [G ?]).
    apply negb_true_iff, Z.eqb_neq in G. exists c, []. auto.
Qed.

(* a blank in front of a token is skipped by getToken's own skipWhitespace *)
Lemma getToken_blank : forall c X, c <> 0 -> getToken fixed ops (32 :: c :: X) = getToken fixed ops (c :: X).
Proof.
  intros c X C0. unfold getToken. cbn [rd bind]. apply Z.eqb_neq in C0. rewrite C0. cbn [Z.eqb].
  reflexivity.
Qed.

Lemma tokenizeLoop_blank : forall f c X acc, c <> 0 ->
  tokenizeLoop fixed ops f (32 :: c :: X) acc = tokenizeLoop fixed ops f (c :: X) acc.
Proof.
  intros [|f] c X acc C0; [reflexivity|]. cbn [tokenizeLoop rd bind]. rewrite getToken_blank; auto.
  apply Z.eqb_neq in C0. rewrite C0. reflexivity.
Qed.

Definition goodg (t : token) : Prop := good ops t = true /\ guard t = true.

Lemma tokenizeLoop_seq : forall ts fuel acc, Forall goodg ts -> (length ts + 1 <= fuel)%nat ->
  tokenizeLoop fixed ops fuel (printSeq fixed ts ++ [0]) acc = Ok (rev acc ++ ts).
Proof.
  induction ts as [|t ts IH]; intros fuel acc F L.
  - destruct fuel; [simpl in L; lia|]. cbn. rewrite app_nil_r. reflexivity.
  - inversion F as [|? ? [G Gd] F']; subst.
    destruct fuel as [|f]; [simpl in L; lia|]. simpl in L.
    destruct (print_first t G) as (c & r & EP & C0).
    destruct ts as [|t2 ts2].
    + cbn [printSeq]. cbn [tokenizeLoop]. rewrite EP. cbn [app rd bind]. apply Z.eqb_neq in C0. rewrite C0.
      change (c :: r ++ [0]) with ((c :: r) ++ [0]). rewrite <- EP.
      rewrite (lex_good t [0] G Gd (or_introl eq_refl)). cbn [bind fst snd].
      destruct f; [simpl in L; lia|]. cbn [tokenizeLoop rd bind Z.eqb rev]. reflexivity.
    + assert (PS : printSeq fixed (t :: t2 :: ts2) ++ [0] = printToken fixed t ++ 32 :: (printSeq fixed (t2 :: ts2) ++ [0])).
      { cbn [printSeq]. rewrite <- !app_assoc. reflexivity. }
      rewrite PS. cbn [tokenizeLoop]. rewrite EP at 1. cbn [app rd bind]. apply Z.eqb_neq in C0. rewrite C0.
      rewrite (lex_good t _ G Gd (or_intror (ex_intro _ _ eq_refl))). cbn [bind fst snd].
      inversion F' as [|? ? [G2 Gd2] F'']; subst.
      destruct (print_first t2 G2) as (c2 & r2 & EP2 & C20).
      assert (HD : exists Y, printSeq fixed (t2 :: ts2) ++ [0] = c2 :: Y).
      { destruct ts2; cbn [printSeq]; rewrite EP2; cbn [app]; eexists; reflexivity. }
      destruct HD as (Y & HY). rewrite HY. rewrite tokenizeLoop_blank; auto. rewrite <- HY.
      rewrite (IH f (t :: acc)); auto; [|cbn [length] in *; lia].
      cbn [rev]. rewrite <- app_assoc. reflexivity.
Qed.

Theorem tokenize_seq : forall ts, Forall goodg ts ->
  tokenize fixed ops (printSeq fixed ts ++ [0]) = Ok ts.
Proof.
  intros ts F. unfold tokenize. rewrite tokenizeLoop_seq; auto.
  (* every token prints at least one byte *)
  assert (length ts <= length (printSeq fixed ts))%nat.
  { clear - F Hrt. induction F as [|t ts [G _] F IH]; [simpl; lia|].
    destruct (print_first t G) as (c & r & EP & _).
    destruct ts as [|t2 ts2].
    - cbn [printSeq]. rewrite EP. simpl. lia.
    - change (printSeq fixed (t :: t2 :: ts2)) with (printToken fixed t ++ [32] ++ printSeq fixed (t2 :: ts2)).
      rewrite !app_length. rewrite EP. cbn [length] in *. lia. }
  rewrite app_length. simpl. lia.
Qed.

(* line comments: up to, not including, the first newline that is not preceded by a backslash *)
Lemma skipTo_line : forall n body r, (length body <= n)%nat -> line_ok body = true ->
  skipTo [10] (body ++ 10 :: r) = Ok (10 :: r).
Proof.
  induction n; intros body r L K.
  - destruct body; [reflexivity|simpl in L; lia].
  - destruct body as [|c b1]; [reflexivity|]. cbn [line_ok] in K. cbn [app skipTo]. simpl in L.
    destruct (c =? 92) eqn:E92.
    + destruct b1 as [|c1 b2]; [discriminate|]. apply andb_true_iff in K. destruct K as [K K3].
      apply andb_true_iff in K. destruct K as [K1 K2]. apply negb_true_iff in K1.
      apply Z.eqb_eq in E92. subst c. cbn [Z.eqb app]. rewrite K1. apply IHn; auto. simpl in L. lia.
    + apply andb_true_iff in K. destruct K as [K K3]. apply andb_true_iff in K. destruct K as [K1 K2].
      apply negb_true_iff in K1, K2. rewrite K1. cbn [inb existsb]. rewrite K2. cbn [orb]. apply IHn; auto. lia.
Qed.

Theorem lex_line_comment : forall body rest,
  line_ok body = true ->
  getToken fixed ops (47 :: 47 :: body ++ 10 :: rest) = Ok (Some (TComment (47 :: 47 :: body)), 10 :: rest).
Proof.
  intros body rest F.
  destruct (rt_line_comment ops Hrt) as [RC (o & IO & EO)].
  assert (GL : getLongest ops (47 :: 47 :: body ++ 10 :: rest) = Some o).
  { apply getLongest_exact; auto using rt_nodup.
    - rewrite EO. reflexivity.
    - intros o' I' P'. rewrite EO. cbn [length].
      destruct (le_lt_dec (length (op_sym o')) 2) as [|LT]; auto.
      assert (is_prefix [47; 47] (op_sym o') = true).
      { destruct (op_sym o') as [|a [|b l]]; simpl in LT; try lia. simpl in P'.
        apply andb_true_iff in P'. destruct P' as [A P']. apply andb_true_iff in P'. destruct P' as [A' _].
        apply Z.eqb_eq in A, A'. subst. reflexivity. }
      destruct (RC o' I' H) as [X _]. rewrite X. simpl. lia. }
  destruct (RC o IO) as [_ TY]; [rewrite EO; reflexivity|].
  rewrite getToken_at; [|reflexivity]. unfold peek.
  assert (EL : load (length (47 :: 47 :: body ++ 10 :: rest)) false (47 :: 47 :: body ++ 10 :: rest) = Ok None).
  { rewrite length_cons_S. apply load_none_start. reflexivity. }
  rewrite (shallowPeek_notnum ops 47 (47 :: body ++ 10 :: rest) None eq_refl EL (or_introl eq_refl)). cbn [bind].
  unfold classify. change (identStart 47) with false. cbv iota.
  assert (OC : inb 47 (operatorCharcodes ops) = true).
  { unfold operatorCharcodes, inb. apply existsb_exists. exists 47. split; [|reflexivity].
    apply in_flat_map. exists o. split; auto. rewrite EO. left; auto. }
  rewrite OC. unfold peekForOperator. rewrite GL. cbn [bind].
  unfold getOperatorToken. rewrite GL.
  assert (ot_has (op_type o) ot_comment = true).
  { unfold ot_eqb in TY. apply andb_true_iff in TY. destruct TY as [A1 A2]. apply Z.eqb_eq in A1, A2.
    unfold ot_has, ot_and, ot_true. rewrite A1, A2. reflexivity. }
  rewrite H, TY. cbn [andb].
  assert (SK : skipTo [10] (47 :: 47 :: body ++ 10 :: rest) = Ok (10 :: rest)).
  { change (47 :: 47 :: body ++ 10 :: rest) with ((47 :: 47 :: body) ++ 10 :: rest).
    apply (skipTo_line (length (47 :: 47 :: body))); auto. }
  rewrite SK. cbn [bind].
  change (47 :: 47 :: body ++ 10 :: rest) with ((47 :: 47 :: body) ++ 10 :: rest). rewrite str_between_app. reflexivity.
Qed.

End Seq.
