(* Extraction of the executable model and specification (ExtrOcamlBasic only; Z stays the extracted
   inductive).  coqc runs from /verif/coq, so the path is relative to that directory. *)
From Coq Require Import Extraction ExtrOcamlBasic.
From OV.C12 Require Import OpDefs Model Spec Table.
Extraction Language OCaml.
Extraction "../_work/extract/C12/model.ml"
  pinned fixed tokenizeT getHeaderT find_op tok_ops printSeq printToken
  good spec_roundtrip spec_print line_ok.
