(* The conditions the theorems put on the operator table, checked on the table regenerated from
   operator.cpp (vm_compute over the finite table; re-proved whenever the table changes). *)
From Coq Require Import List ZArith Bool.
From OV.C12 Require Import OpDefs Model Spec Table ProofsSafety2 ProofsRoundtrip.
Import ListNotations.
Local Open Scope Z_scope.

Lemma tok_ops_rt_ok : rt_table_ok tok_ops = true.
Proof. vm_compute. reflexivity. Qed.

Lemma tok_ops_ok : table_ok tok_ops = true.
Proof. vm_compute. reflexivity. Qed.
