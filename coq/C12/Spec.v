(* C12 reference semantics.
   Totality: every byte string is tokenized without a crash (the observation is any token list).
   Round trip: a sequence of *good* tokens, printed with single blanks in between and tokenized, is
   the same sequence.  `good` describes the token classes by their spelling (lexical grammar), without
   reference to the tokenizer, except for numeric literals, whose class is "a spelling that
   primitive::load consumes completely" (literals are printed from their stored source text). *)
From Coq Require Import List ZArith Bool.
From OV.C12 Require Import OpDefs Model.
Import ListNotations.
Local Open Scope Z_scope.

(* bytes of a C string *)
Definition nonzero (v : list Z) : bool := forallb (fun c => negb (c =? 0)) v.

(* identifier: [A-Za-z_][A-Za-z0-9_]* that is not an operator word (sizeof, new, ...) nor true/false *)
Definition spec_ident (ops : list oper) (v : list Z) : bool :=
  match v with
  | [] => false
  | c :: r => identStart c && forallb identChar r && negb (has_op ops v)
              && negb (list_eqb v str_true) && negb (list_eqb v str_false)
  end.

(* user-defined suffix of a literal: empty, or _ident *)
Definition spec_udf (u : list Z) : bool :=
  match u with
  | [] => true
  | c :: r => (c =? 95) && forallb identChar r
  end.

(* the text between the quotes of a literal: units that are either a backslash followed by any byte,
   or a byte other than backslash, the quote, newline *)
Fixpoint raw_ok (q : Z) (r : list Z) : bool :=
  match r with
  | [] => true
  | c :: r1 =>
    if c =? 92 then
      match r1 with
      | [] => false
      | c1 :: r2 => negb (c1 =? 0) && raw_ok q r2
      end
    else negb (c =? 0) && negb (c =? q) && negb (c =? 10) && raw_ok q r1
  end.

(* the reference escape: a backslash in front of every quote *)
Fixpoint spec_escape (q : Z) (v : list Z) : list Z :=
  match v with
  | [] => []
  | c :: r => if c =? q then 92 :: q :: spec_escape q r else c :: spec_escape q r
  end.

(* a literal value is one the lexer can produce: escaping it gives well-formed literal text *)
Definition spec_litvalue (q : Z) (v : list Z) : bool := raw_ok q (spec_escape q v).

Definition spec_string_enc (e : Z) : bool :=
  existsb (Z.eqb e) [0; 2; 4; 8; 16; 1; 3; 5; 9; 17].   (* none u8 u U L, each also with R *)
Definition spec_char_enc (e : Z) : bool := existsb (Z.eqb e) [0; 4; 8; 16].
Definition is_raw (e : Z) : bool := Z.odd e.

(* a raw string value: any bytes that do not contain the closing sequence of the delimiter-less form *)
Fixpoint no_paren_quote (v : list Z) : bool :=
  match v with
  | [] => true
  | c :: r => negb ((c =? 41) && (match r with c1 :: _ => c1 =? 34 | [] => false end)) && no_paren_quote r
  end.
Definition spec_rawvalue (v : list Z) : bool := nonzero v && no_paren_quote v.

(* block comment: slash star, then text that ends with its first star slash *)
Fixpoint ends_at_first_star_slash (r : list Z) : bool :=
  match r with
  | [] => false
  | c :: r1 =>
    if c =? 42 then
      match r1 with
      | c1 :: r2 => if c1 =? 47 then (match r2 with [] => true | _ => false end)
                    else ends_at_first_star_slash r1
      | [] => false
      end
    else ends_at_first_star_slash r1
  end.
Definition spec_block_comment (v : list Z) : bool :=
  match v with
  | c0 :: c1 :: r => (c0 =? 47) && (c1 =? 42) && nonzero v && ends_at_first_star_slash r
  | _ => false
  end.

(* the text of a line comment after the two slashes: bytes other than backslash, newline, NUL, or a backslash
   followed by any byte but a backslash (backslash-newline continues the comment on the next line, as in C;
   backslash-backslash is left out: the tokenizer pairs the two, C pairs the second with what follows) *)
Fixpoint line_ok (b : list Z) : bool :=
  match b with
  | [] => true
  | c :: r =>
    if c =? 92 then
      match r with
      | [] => false
      | c1 :: r2 => negb (c1 =? 0) && negb (c1 =? 92) && line_ok r2
      end
    else negb (c =? 0) && negb (c =? 10) && line_ok r
  end.

(* numeric literal: a non-empty spelling without sign that primitive::load consumes completely *)
Definition spec_prim (v : list Z) : bool :=
  nonzero v &&
  match v with
  | [] => false
  | c :: _ => negb ((c =? 43) || (c =? 45)) &&
    match load (length v + 1) true (v ++ [0]) with
    | Ok (Some r) => list_eqb r [0]
    | _ => false
    end
  end.

(* an operator token of the table that is not a comment opener *)
Definition oper_eqb (a b : oper) : bool :=
  list_eqb (op_sym a) (op_sym b) && ot_eqb (op_type a) (op_type b) && (op_prec a =? op_prec b)
  && (op_class a =? op_class b) && list_eqb (op_pair a) (op_pair b).
Definition spec_op (ops : list oper) (o : oper) : bool :=
  existsb (oper_eqb o) ops && negb (ot_has (op_type o) ot_comment).

(* a byte that starts no token class *)
Definition spec_unknown (ops : list oper) (c : Z) : bool :=
  negb (c =? 0) && negb (c =? 92) && negb (inb c wsAll) && negb (identStart c) && negb (is_digit c)
  && negb (inb c (operatorCharcodes ops)) && negb (c =? 34) && negb (c =? 39) && negb (c =? 46).

Definition good (ops : list oper) (t : token) : bool :=
  match t with
  | TIdent v => spec_ident ops v
  | TPrim v => spec_prim v
  | TOp o => spec_op ops o
  | TNewline => true
  | TChar e v u => spec_char_enc e && spec_litvalue 39 v && spec_udf u
  | TString e v u => spec_string_enc e && (if is_raw e then spec_rawvalue v else spec_litvalue 34 v) && spec_udf u
  | TComment v => spec_block_comment v
  | TUnknown c => spec_unknown ops c
  end.

(* the reference printer: encoding prefix, quote, escaped value, quote, suffix; everything else is its
   own spelling *)
Definition spec_prefix (e : Z) : list Z :=
  let b := e - (if is_raw e then 1 else 0) in
  if b =? 2 then [117; 56] else if b =? 4 then [117] else if b =? 8 then [85] else if b =? 16 then [76] else [].
Definition spec_print (t : token) : list Z :=
  match t with
  | TIdent v => v
  | TPrim v => v
  | TOp o => op_sym o
  | TNewline => [10]
  | TChar e v u => spec_prefix e ++ [39] ++ spec_escape 39 v ++ [39] ++ u
  | TString e v u =>
    if is_raw e then spec_prefix e ++ [82; 34; 40] ++ v ++ [41; 34] ++ u
    else spec_prefix e ++ [34] ++ spec_escape 34 v ++ [34] ++ u
  | TComment v => v
  | TUnknown c => [c]
  end.

(* The part of `good` that the theorems cover.  Excluded (known findings, each with a _refuted witness):
   raw strings (the printer drops the R"delim( )delim" frame), comments containing a backslash (the
   tokenizer lets a backslash hide the closing star) and comments that begin slash star slash (the
   tokenizer reads the star of the opener as the star of the closer). *)
Definition guard (t : token) : bool :=
  match t with
  | TString e _ _ => negb (is_raw e)
  | TComment v => negb (inb 92 v) && negb (match v with _ :: _ :: c :: _ => c =? 47 | _ => false end)
  | _ => true
  end.

(* what tokenizing the printed sequence must give *)
Definition spec_roundtrip (ops : list oper) (ts : list token) : option (list token) :=
  if forallb (good ops) ts then Some ts else None.
