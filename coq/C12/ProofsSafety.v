(* C12: bounds safety and progress of the modelled tokenizer.
   Invariant: every cursor is a well-formed C string (`wf`: non-zero bytes, then the NUL) that is a suffix
   of the cursor it came from.  Under it no read is out of bounds and every getToken call that starts
   before the NUL strictly shortens the remaining input. *)
From Coq Require Import List ZArith Bool Lia.
From OV.C12 Require Import OpDefs Model.
Import ListNotations.
Local Open Scope Z_scope.

Inductive wf : list Z -> Prop :=
| wf_nul : wf [0]
| wf_cons : forall c s, c <> 0 -> wf s -> wf (c :: s).

Lemma wf_inv_cons : forall c s, wf (c :: s) -> (c = 0 /\ s = []) \/ (c <> 0 /\ wf s).
Proof. intros c s H. inversion H; subst; auto. Qed.

Lemma wf_not_nil : ~ wf [].
Proof. intro H. inversion H. Qed.

Lemma wf_app : forall body, Forall (fun c => c <> 0) body -> wf (body ++ [0]).
Proof. induction 1; simpl; constructor; auto. Qed.

Lemma wf_tail_of_nonzero : forall c s, wf (c :: s) -> c <> 0 -> wf s.
Proof. intros c s H Hc. destruct (wf_inv_cons _ _ H) as [[? ?]|[? ?]]; [contradiction|assumption]. Qed.

(* s' is a suffix of s, reached by consuming p *)
Definition sfx (s' s : list Z) : Prop := exists p, s = p ++ s'.

Lemma sfx_refl : forall s, sfx s s.
Proof. intro s. exists []. reflexivity. Qed.
Lemma sfx_trans : forall a b c, sfx a b -> sfx b c -> sfx a c.
Proof. intros a b c [p Hp] [q Hq]. exists (q ++ p). subst. now rewrite app_assoc. Qed.
Lemma sfx_cons : forall c s' s, sfx s' s -> sfx s' (c :: s).
Proof. intros c s' s [p Hp]. exists (c :: p). subst. reflexivity. Qed.
Lemma sfx_tl : forall c s, sfx s (c :: s).
Proof. intros. exists [c]. reflexivity. Qed.
Lemma sfx_len : forall s' s, sfx s' s -> (length s' <= length s)%nat.
Proof. intros s' s [p Hp]. subst. rewrite app_length. lia. Qed.

Ltac inv_wf H :=
  let H1 := fresh "Hz" in let H2 := fresh "Hw" in
  destruct (wf_inv_cons _ _ H) as [[H1 H2]|[H1 H2]]; [subst|].

(* good outcome of a cursor-moving function *)
Definition okc (r : res (list Z)) (s : list Z) : Prop :=
  exists s', r = Ok s' /\ wf s' /\ sfx s' s.

Lemma okc_mono : forall r s c, okc r s -> okc r (c :: s).
Proof. intros r s c (s' & E & W & X). exists s'. repeat split; auto using sfx_cons. Qed.

Lemma okc_here : forall s, wf s -> okc (Ok s) s.
Proof. intros. exists s. repeat split; auto using sfx_refl. Qed.

(* ------------------------------------------------------------------ skipTo / skipFrom / blockComment *)
Lemma skipTo_ok : forall ds n s, (length s <= n)%nat -> wf s -> okc (skipTo ds s) s.
Proof.
  induction n; intros s L W.
  - destruct s; [exfalso; apply wf_not_nil; auto | simpl in L; lia].
  - destruct s as [|c s1]; [exfalso; apply wf_not_nil; auto|].
    simpl in L. cbn [skipTo].
    destruct (c =? 0) eqn:E0; [apply okc_here; auto|].
    apply Z.eqb_neq in E0. pose proof (wf_tail_of_nonzero _ _ W E0) as W1.
    destruct (c =? 92) eqn:E92.
    + destruct s1 as [|c1 s2]; [exfalso; apply wf_not_nil; auto|].
      destruct (c1 =? 0) eqn:E10.
      * apply okc_mono. apply IHn; [lia|auto].
      * apply Z.eqb_neq in E10. pose proof (wf_tail_of_nonzero _ _ W1 E10) as W2.
        apply okc_mono, okc_mono. apply IHn; [simpl in L; lia|auto].
    + destruct (inb c ds); [apply okc_here; auto|].
      apply okc_mono. apply IHn; [lia|auto].
Qed.

Lemma skipFrom_ok : forall p n s, (length s <= n)%nat -> wf s -> okc (skipFrom p s) s.
Proof.
  induction n; intros s L W.
  - destruct s; [exfalso; apply wf_not_nil; auto | simpl in L; lia].
  - destruct s as [|c s1]; [exfalso; apply wf_not_nil; auto|].
    simpl in L. cbn [skipFrom].
    destruct (c =? 0) eqn:E0; [apply okc_here; auto|].
    apply Z.eqb_neq in E0. pose proof (wf_tail_of_nonzero _ _ W E0) as W1.
    destruct (c =? 92) eqn:E92.
    + destruct s1 as [|c1 s2]; [exfalso; apply wf_not_nil; auto|].
      destruct (c1 =? 0) eqn:E10.
      * apply okc_mono. apply IHn; [lia|auto].
      * apply Z.eqb_neq in E10. pose proof (wf_tail_of_nonzero _ _ W1 E10) as W2.
        apply okc_mono, okc_mono. apply IHn; [simpl in L; lia|auto].
    + destruct (p c); [|apply okc_here; auto].
      apply okc_mono. apply IHn; [lia|auto].
Qed.

Lemma blockComment_ok : forall n s, (length s <= n)%nat -> wf s -> okc (blockComment s) s.
Proof.
  induction n; intros s L W.
  - destruct s; [exfalso; apply wf_not_nil; auto | simpl in L; lia].
  - destruct s as [|c s1]; [exfalso; apply wf_not_nil; auto|].
    simpl in L. cbn [blockComment].
    destruct (c =? 0) eqn:E0; [apply okc_here; auto|].
    apply Z.eqb_neq in E0. pose proof (wf_tail_of_nonzero _ _ W E0) as W1.
    destruct (c =? 92) eqn:E92.
    + destruct s1 as [|c1 s2]; [exfalso; apply wf_not_nil; auto|].
      destruct (c1 =? 0) eqn:E10.
      * apply okc_mono. apply IHn; [lia|auto].
      * apply Z.eqb_neq in E10. pose proof (wf_tail_of_nonzero _ _ W1 E10) as W2.
        apply okc_mono, okc_mono. apply IHn; [simpl in L; lia|auto].
    + destruct (c =? 42) eqn:E42.
      * destruct s1 as [|c1 s2]; [exfalso; apply wf_not_nil; auto|].
        destruct (c1 =? 47) eqn:E47.
        -- apply Z.eqb_eq in E47. subst c1.
           assert (wf s2) by (apply (wf_tail_of_nonzero 47); auto; lia).
           apply okc_mono, okc_mono. apply okc_here; auto.
        -- apply okc_mono. apply IHn; [lia|auto].
      * apply okc_mono. apply IHn; [lia|auto].
Qed.

(* a non-NUL first byte is always consumed by blockComment *)
Lemma blockComment_progress : forall s s', wf s -> hd 0 s <> 0 -> blockComment s = Ok s' ->
  (length s' < length s)%nat.
Proof.
  intros s s' W H E. destruct s as [|c s1]; [exfalso; apply wf_not_nil; auto|]. simpl in H.
  pose proof (wf_tail_of_nonzero _ _ W H) as W1.
  cbn [blockComment] in E. apply Z.eqb_neq in H. rewrite H in E.
  assert (G : forall t, wf t -> blockComment t = Ok s' -> (length s' <= length t)%nat).
  { intros t Wt Et. destruct (blockComment_ok (length t) t (le_n _) Wt) as (x & Ex & _ & Sx).
    rewrite Et in Ex. inversion Ex; subst. apply sfx_len; auto. }
  destruct (c =? 92).
  - destruct s1 as [|c1 s2]; [discriminate|]. destruct (c1 =? 0) eqn:E10.
    + apply G in E; auto. simpl in *. lia.
    + apply Z.eqb_neq in E10. apply G in E; [simpl in *; lia|].
      apply (wf_tail_of_nonzero c1); auto.
  - destruct (c =? 42).
    + destruct s1 as [|c1 s2]; [discriminate|]. destruct (c1 =? 47).
      * inversion E; subst. simpl. lia.
      * apply G in E; auto. simpl in *. lia.
    + apply G in E; auto. simpl in *. lia.
Qed.

Lemma skipWhitespace_ok : forall s, wf s -> okc (skipWhitespace s) s.
Proof. intros. apply (skipFrom_ok _ (length s)); auto. Qed.

(* ------------------------------------------------------------------ primitive::load *)
Lemma lexSkipWs_ok : forall s, wf s -> okc (lexSkipWs s) s.
Proof.
  induction s as [|c s IH]; intro W; [exfalso; apply wf_not_nil; auto|].
  cbn [lexSkipWs]. destruct (c =? 0) eqn:E0; [apply okc_here; auto|].
  apply Z.eqb_neq in E0. destruct (inb c wsAll); [|apply okc_here; auto].
  apply okc_mono, IH. eapply wf_tail_of_nonzero; eauto.
Qed.

Lemma binDigits_ok : forall s, wf s -> okc (binDigits s) s.
Proof.
  induction s as [|c s IH]; intro W; [exfalso; apply wf_not_nil; auto|].
  cbn [binDigits]. destruct ((c =? 48) || (c =? 49)) eqn:E; [|apply okc_here; auto].
  apply okc_mono, IH. apply (wf_tail_of_nonzero c); auto.
  apply orb_true_iff in E. destruct E as [E|E]; apply Z.eqb_eq in E; lia.
Qed.

Lemma is_hex_nonzero : forall c, is_hex c = true -> c <> 0.
Proof.
  intros c H ->. unfold is_hex, upper, is_lower, is_digit in H. simpl in H. discriminate.
Qed.

Lemma hexDigits_ok : forall s, wf s -> okc (hexDigits s) s.
Proof.
  induction s as [|c s IH]; intro W; [exfalso; apply wf_not_nil; auto|].
  cbn [hexDigits]. destruct (is_hex c) eqn:E; [|apply okc_here; auto].
  apply okc_mono, IH. apply (wf_tail_of_nonzero c); auto using is_hex_nonzero.
Qed.

Lemma is_digit_nonzero : forall c, is_digit c = true -> c <> 0.
Proof. intros c H ->. discriminate. Qed.

Lemma digitsDots_ok : forall s seen, wf s ->
  exists s' b, digitsDots s seen = Ok (s', b) /\ wf s' /\ sfx s' s /\ (b = true -> seen = true \/ (length s' < length s)%nat).
Proof.
  induction s as [|c s IH]; intros seen W; [exfalso; apply wf_not_nil; auto|].
  cbn [digitsDots]. destruct (is_digit c) eqn:Ed.
  - assert (W1 : wf s) by (apply (wf_tail_of_nonzero c); auto using is_digit_nonzero).
    destruct (IH true W1) as (s' & b & E & Ws & Sf & P). exists s', b. repeat split; auto using sfx_cons.
    intros _. right. apply sfx_len in Sf. simpl. lia.
  - destruct (c =? 46) eqn:E46.
    + apply Z.eqb_eq in E46. subst c.
      assert (W1 : wf s) by (apply (wf_tail_of_nonzero 46); auto; lia).
      destruct (IH seen W1) as (s' & b & E & Ws & Sf & P). exists s', b. repeat split; auto using sfx_cons.
      intros Hb. destruct (P Hb); auto. right. simpl. lia.
    + exists (c :: s), seen. repeat split; auto using sfx_refl.
Qed.

(* result of a load-like function: none (cursor unchanged) or a strictly later, well-formed cursor *)
Definition okl (r : res (option (list Z))) (s : list Z) : Prop :=
  r = Ok None \/ exists s', r = Ok (Some s') /\ wf s' /\ sfx s' s /\ (length s' < length s)%nat.

Lemma suffixLoop_ok : forall ld fmt n,
  (forall s, wf s -> (length s <= n)%nat -> okl (ld s) s) ->
  forall s, wf s -> (length s <= S n)%nat -> okc (suffixLoop ld fmt s) s.
Proof.
  intros ld fmt n Hld. induction s as [|c s IH]; intros W L; [exfalso; apply wf_not_nil; auto|].
  cbn [suffixLoop]. destruct (c =? 0) eqn:E0; [apply okc_here; auto|].
  apply Z.eqb_neq in E0. pose proof (wf_tail_of_nonzero _ _ W E0) as W1.
  simpl in L. assert (L1 : (length s <= n)%nat) by lia.
  assert (R : okc (suffixLoop ld fmt s) (c :: s)) by (apply okc_mono, IH; auto; lia).
  destruct (upper c =? 76); auto. destruct (upper c =? 85); auto.
  destruct fmt; [apply okc_here; auto|].
  destruct (upper c =? 69).
  - destruct (Hld s W1 L1) as [E|(s2 & E & W2 & S2 & _)]; rewrite E; cbn [bind].
    + apply okc_mono, okc_here; auto.
    + exists s2. repeat split; auto using sfx_cons.
  - destruct (upper c =? 70); auto. apply okc_here; auto.
Qed.

Lemma loadNum_ok : forall ld n,
  (forall s, wf s -> (length s <= n)%nat -> okl (ld s) s) ->
  forall s, wf s -> (length s <= S n)%nat -> okl (loadNum ld s) s.
Proof.
  intros ld n Hld s W L. unfold loadNum.
  destruct s as [|c1 s1]; [exfalso; apply wf_not_nil; auto|]. cbn [rd bind].
  destruct (c1 =? 48) eqn:E48.
  - apply Z.eqb_eq in E48. subst c1.
    assert (W1 : wf s1) by (apply (wf_tail_of_nonzero 48); auto; lia).
    destruct s1 as [|c2 s2]; [exfalso; apply wf_not_nil; auto|].
    unfold rd1. cbn [tl rd bind].
    assert (FMT : forall (dg : list Z -> res (list Z)), (forall t, wf t -> okc (dg t) t) ->
              (upper c2 =? 66) || (upper c2 =? 88) = true ->
              okl (s4 <- dg s2 ;;
                   match (if (length s4 =? length s2)%nat then None else Some s4) with
                   | None => Ok None
                   | Some s4' => s5 <- suffixLoop ld true s4' ;; Ok (Some s5)
                   end) (48 :: c2 :: s2)).
    { intros dg Hdg HC.
      assert (c2 <> 0).
      { intro; subst c2. unfold upper, is_lower in HC. simpl in HC. discriminate. }
      assert (W2 : wf s2) by (apply (wf_tail_of_nonzero c2); auto).
      destruct (Hdg s2 W2) as (s4 & E4 & W4 & S4). rewrite E4. cbn [bind].
      destruct (length s4 =? length s2)%nat; [left; reflexivity|].
      assert (L4 : (length s4 <= S n)%nat) by (apply sfx_len in S4; simpl in L; lia).
      destruct (suffixLoop_ok ld true n Hld s4 W4 L4) as (s5 & E5 & W5 & S5). rewrite E5. cbn [bind].
      right. exists s5. repeat split; auto.
      - apply sfx_cons, sfx_cons. eapply sfx_trans; eauto.
      - apply sfx_len in S4. apply sfx_len in S5. simpl. lia. }
    destruct (upper c2 =? 66) eqn:EB.
    + specialize (FMT binDigits binDigits_ok eq_refl).
      destruct (binDigits s2) as [s4| |]; cbn [bind] in *; auto;
        try (destruct (length s4 =? length s2)%nat; auto).
    + destruct (upper c2 =? 88) eqn:EX.
      * specialize (FMT hexDigits hexDigits_ok eq_refl).
        destruct (hexDigits s2) as [s4| |]; cbn [bind] in *; auto;
          try (destruct (length s4 =? length s2)%nat; auto).
      * cbn [bind].
        destruct (digitsDots_ok (48 :: c2 :: s2) false W) as (s' & b & E & Ws & Sf & P).
        rewrite E. cbn [bind snd fst]. destruct b; cbn [negb]; [|left; reflexivity].
        destruct (P eq_refl) as [?|P']; [discriminate|].
        assert (L' : (length s' <= S n)%nat) by lia.
        destruct (suffixLoop_ok ld false n Hld s' Ws L') as (s5 & E5 & W5 & S5). rewrite E5. cbn [bind].
        right. exists s5. repeat split; auto.
        -- eapply sfx_trans; eauto.
        -- apply sfx_len in S5. lia.
  - cbn [bind].
    destruct (digitsDots_ok (c1 :: s1) false W) as (s' & b & E & Ws & Sf & P).
    rewrite E. cbn [bind snd fst]. destruct b; cbn [negb]; [|left; reflexivity].
    destruct (P eq_refl) as [?|P']; [discriminate|].
    assert (L' : (length s' <= S n)%nat) by lia.
    destruct (suffixLoop_ok ld false n Hld s' Ws L') as (s5 & E5 & W5 & S5). rewrite E5. cbn [bind].
    right. exists s5. repeat split; auto.
    + eapply sfx_trans; eauto.
    + apply sfx_len in S5. lia.
Qed.

Lemma is_prefix_wf_skipn : forall p s, is_prefix p s = true -> Forall (fun c => c <> 0) p -> wf s ->
  wf (skipn (length p) s) /\ sfx (skipn (length p) s) s.
Proof.
  induction p as [|a p IH]; intros s H F W.
  - simpl. split; auto using sfx_refl.
  - destruct s as [|b s]; [discriminate|]. simpl in H. apply andb_true_iff in H. destruct H as [E H].
    apply Z.eqb_eq in E. subst b. inversion F; subst.
    assert (wf s) by (apply (wf_tail_of_nonzero a); auto).
    destruct (IH s H H3 H0). simpl. split; auto using sfx_cons.
Qed.

Lemma load_ok : forall fuel b s, wf s -> (length s <= fuel)%nat -> okl (load fuel b s) s.
Proof.
  induction fuel; intros b s W L.
  - destruct s; [exfalso; apply wf_not_nil; auto | simpl in L; lia].
  - cbn [load]. destruct s as [|c s0]; [exfalso; apply wf_not_nil; auto|]. cbn [rd bind].
    destruct (is_prefix str_true (c :: s0)) eqn:ET.
    { right. destruct (is_prefix_wf_skipn str_true (c :: s0) ET) as [W' S']; auto.
      { repeat constructor; lia. }
      exists (skipn 4 (c :: s0)). repeat split; auto.
      unfold str_true in ET. simpl in ET.
      destruct s0 as [|c1 [|c2 [|c3 s3]]]; try (rewrite ?andb_false_r in ET; discriminate).
      simpl. lia. }
    destruct (is_prefix str_false (c :: s0)) eqn:EF.
    { right. destruct (is_prefix_wf_skipn str_false (c :: s0) EF) as [W' S']; auto.
      { repeat constructor; lia. }
      exists (skipn 5 (c :: s0)). repeat split; auto.
      unfold str_false in EF. simpl in EF.
      destruct s0 as [|c1 [|c2 [|c3 [|c4 s4]]]]; try (rewrite ?andb_false_r in EF; discriminate).
      simpl. lia. }
    assert (Hld : forall t, wf t -> (length t <= fuel)%nat -> okl (load fuel true t) t) by (intros; apply IHfuel; auto).
    destruct ((c =? 43) || (c =? 45)) eqn:ES; cbn [andb].
    + destruct (negb b); [left; reflexivity|].
      assert (c <> 0).
      { apply orb_true_iff in ES. destruct ES as [E|E]; apply Z.eqb_eq in E; lia. }
      assert (W0 : wf s0) by (apply (wf_tail_of_nonzero c); auto).
      cbn [tl]. destruct (lexSkipWs_ok s0 W0) as (s1 & E1 & W1 & S1). rewrite E1. cbn [bind].
      simpl in L. assert (L1 : (length s1 <= S fuel)%nat) by (apply sfx_len in S1; lia).
      destruct (loadNum_ok (load fuel true) fuel Hld s1 W1) as [E|(s' & E & W' & S' & P')].
      { apply sfx_len in S1. lia. }
      * left; auto.
      * right. exists s'. repeat split; auto.
        -- apply sfx_cons. eapply sfx_trans; eauto.
        -- apply sfx_len in S1. simpl. lia.
    + cbn [bind]. apply (loadNum_ok (load fuel true) fuel Hld); auto.
Qed.

(* the bytes consumed by load contain no backslash *)
Definition nobs (p : list Z) : Prop := Forall (fun c => c <> 92) p.

Definition okc_nobs (r : res (list Z)) (s : list Z) : Prop :=
  forall s', r = Ok s' -> exists p, s = p ++ s' /\ nobs p.

Lemma okc_nobs_here : forall s, okc_nobs (Ok s) s.
Proof. intros s s' E. inversion E; subst. exists []. split; auto. constructor. Qed.

Lemma okc_nobs_cons : forall r c s, c <> 92 -> okc_nobs r s -> okc_nobs r (c :: s).
Proof.
  intros r c s Hc H s' E. destruct (H s' E) as (p & Hp & Np). exists (c :: p). subst.
  split; auto. constructor; auto.
Qed.

Lemma lexSkipWs_nobs : forall s, okc_nobs (lexSkipWs s) s.
Proof.
  induction s as [|c s IH]; [intros s' E; discriminate|].
  cbn [lexSkipWs]. destruct (c =? 0); [apply okc_nobs_here|].
  destruct (inb c wsAll) eqn:E; [|apply okc_nobs_here].
  apply okc_nobs_cons; auto. intro; subst c. discriminate.
Qed.

Lemma binDigits_nobs : forall s, okc_nobs (binDigits s) s.
Proof.
  induction s as [|c s IH]; [intros s' E; discriminate|].
  cbn [binDigits]. destruct ((c =? 48) || (c =? 49)) eqn:E; [|apply okc_nobs_here].
  apply okc_nobs_cons; auto. intro; subst c. discriminate.
Qed.

Lemma hexDigits_nobs : forall s, okc_nobs (hexDigits s) s.
Proof.
  induction s as [|c s IH]; [intros s' E; discriminate|].
  cbn [hexDigits]. destruct (is_hex c) eqn:E; [|apply okc_nobs_here].
  apply okc_nobs_cons; auto. intro; subst c. discriminate.
Qed.

Lemma digitsDots_nobs : forall s seen s' b, digitsDots s seen = Ok (s', b) -> exists p, s = p ++ s' /\ nobs p.
Proof.
  induction s as [|c s IH]; intros seen s' b E; [discriminate|].
  cbn [digitsDots] in E. destruct (is_digit c) eqn:Ed.
  - destruct (IH _ _ _ E) as (p & Hp & Np). exists (c :: p). subst. split; auto.
    constructor; auto. intro; subst c. discriminate.
  - destruct (c =? 46) eqn:E46.
    + destruct (IH _ _ _ E) as (p & Hp & Np). exists (c :: p). subst. split; auto.
      constructor; auto. intro; subst c. discriminate.
    + inversion E; subst. exists []. split; auto. constructor.
Qed.

Definition okl_nobs (r : res (option (list Z))) (s : list Z) : Prop :=
  forall s', r = Ok (Some s') -> exists p, s = p ++ s' /\ nobs p.

Lemma suffixLoop_nobs : forall ld fmt,
  (forall s, okl_nobs (ld s) s) -> forall s, okc_nobs (suffixLoop ld fmt s) s.
Proof.
  intros ld fmt Hld. induction s as [|c s IH]; [intros s' E; discriminate|].
  cbn [suffixLoop]. destruct (c =? 0); [apply okc_nobs_here|].
  assert (Hup : forall k, (upper c =? k) = true -> k <> 92 -> c <> 92).
  { intros k E K1 ->. change (upper 92) with 92 in E. apply Z.eqb_eq in E. lia. }
  destruct (upper c =? 76) eqn:E76; [apply okc_nobs_cons; auto; apply (Hup 76); auto; lia|].
  destruct (upper c =? 85) eqn:E85; [apply okc_nobs_cons; auto; apply (Hup 85); auto; lia|].
  destruct fmt; [apply okc_nobs_here|].
  destruct (upper c =? 69) eqn:E69.
  - intros s' E. assert (c <> 92) by (apply (Hup 69); auto; lia).
    destruct (ld s) as [[s2|]| |] eqn:El; cbn [bind] in E; try discriminate; inversion E; subst.
    + destruct (Hld s s' El) as (p & Hp & Np). exists (c :: p). subst. split; auto. constructor; auto.
    + exists [c]. split; auto. repeat constructor; auto.
  - destruct (upper c =? 70) eqn:E70; [apply okc_nobs_cons; auto; apply (Hup 70); auto; lia|].
    apply okc_nobs_here.
Qed.

Lemma nobs_app : forall p q, nobs p -> nobs q -> nobs (p ++ q).
Proof. intros. apply Forall_app; auto. Qed.

Lemma loadNum_nobs : forall ld, (forall s, okl_nobs (ld s) s) -> forall s, okl_nobs (loadNum ld s) s.
Proof.
  intros ld Hld s s' E. unfold loadNum in E.
  destruct s as [|c1 s1]; [discriminate|]. cbn [rd bind] in E.
  assert (DD : forall t, (r <- digitsDots t false ;; if negb (snd r) then Ok None
                          else s5 <- suffixLoop ld false (fst r) ;; Ok (Some s5)) = Ok (Some s') ->
               exists p, t = p ++ s' /\ nobs p).
  { intros t Et. destruct (digitsDots t false) as [[s2 b]| |] eqn:Ed; cbn [bind snd fst] in Et; try discriminate.
    destruct b; cbn [negb] in Et; [|discriminate].
    destruct (suffixLoop ld false s2) as [s5| |] eqn:E5; cbn [bind] in Et; try discriminate.
    inversion Et; subst s5.
    destruct (digitsDots_nobs _ _ _ _ Ed) as (p1 & H1 & N1).
    destruct (suffixLoop_nobs ld false Hld s2 s' E5) as (p2 & H2 & N2).
    exists (p1 ++ p2). subst. rewrite app_assoc. split; auto using nobs_app. }
  destruct (c1 =? 48) eqn:E48; [|cbn [bind] in E; apply DD; auto].
  apply Z.eqb_eq in E48. subst c1.
  destruct s1 as [|c2 s2]; [discriminate|]. unfold rd1 in E. cbn [tl rd bind] in E.
  assert (FMT : forall (dg : list Z -> res (list Z)), (forall t, okc_nobs (dg t) t) ->
            (upper c2 =? 66) || (upper c2 =? 88) = true ->
            (fmt <- (s4 <- dg s2 ;; Ok (Some (if (length s4 =? length s2)%nat then None else Some s4))) ;;
             match fmt with
             | Some None => Ok None
             | Some (Some s4) => s5 <- suffixLoop ld true s4 ;; Ok (Some s5)
             | None => r <- digitsDots (48 :: c2 :: s2) false ;; if negb (snd r) then Ok None
                       else s5 <- suffixLoop ld false (fst r) ;; Ok (Some s5)
             end) = Ok (Some s') -> exists p, 48 :: c2 :: s2 = p ++ s' /\ nobs p).
  { intros dg Hdg HC Ef.
    assert (c2 <> 92).
    { intro; subst c2. unfold upper, is_lower in HC. simpl in HC. discriminate. }
    destruct (dg s2) as [s4| |] eqn:E4; cbn [bind] in Ef; try discriminate.
    destruct (length s4 =? length s2)%nat; [discriminate|].
    destruct (suffixLoop ld true s4) as [s5| |] eqn:E5; cbn [bind] in Ef; try discriminate.
    inversion Ef; subst s5.
    destruct (Hdg s2 s4 E4) as (p1 & H1 & N1).
    destruct (suffixLoop_nobs ld true Hld s4 s' E5) as (p2 & H2 & N2).
    exists (48 :: c2 :: p1 ++ p2). subst. simpl. rewrite <- app_assoc. split; auto.
    repeat constructor; auto; try lia. apply nobs_app; auto. }
  destruct (upper c2 =? 66) eqn:EB; [apply (FMT binDigits binDigits_nobs eq_refl); auto|].
  destruct (upper c2 =? 88) eqn:EX; [apply (FMT hexDigits hexDigits_nobs eq_refl); auto|].
  cbn [bind] in E. apply DD; auto.
Qed.

Lemma is_prefix_split : forall p s, is_prefix p s = true -> s = p ++ skipn (length p) s.
Proof.
  induction p as [|a p IH]; intros s H; [reflexivity|].
  destruct s as [|b s]; [discriminate|]. simpl in H. apply andb_true_iff in H. destruct H as [E H].
  apply Z.eqb_eq in E. subst. simpl. f_equal. auto.
Qed.

Lemma load_nobs : forall fuel b s, okl_nobs (load fuel b s) s.
Proof.
  induction fuel; intros b s s' E; [discriminate|].
  cbn [load] in E. destruct s as [|c s0]; [discriminate|]. cbn [rd bind] in E.
  destruct (is_prefix str_true (c :: s0)) eqn:ET.
  { inversion E; subst. exists str_true. split; [apply (is_prefix_split str_true); auto|].
    repeat constructor; lia. }
  destruct (is_prefix str_false (c :: s0)) eqn:EF.
  { inversion E; subst. exists str_false. split; [apply (is_prefix_split str_false); auto|].
    repeat constructor; lia. }
  destruct ((c =? 43) || (c =? 45)) eqn:ES; cbn [andb] in E.
  - destruct (negb b); [discriminate|]. cbn [tl] in E.
    destruct (lexSkipWs s0) as [s1| |] eqn:E1; cbn [bind] in E; try discriminate.
    destruct (lexSkipWs_nobs s0 s1 E1) as (p1 & H1 & N1).
    destruct (loadNum_nobs (load fuel true) (fun t => IHfuel true t) s1 s' E) as (p2 & H2 & N2).
    exists (c :: p1 ++ p2). subst. simpl. rewrite <- app_assoc. split; auto.
    constructor; [|apply nobs_app; auto].
    apply orb_true_iff in ES. destruct ES as [X|X]; apply Z.eqb_eq in X; lia.
  - cbn [bind] in E. apply (loadNum_nobs (load fuel true) (fun t => IHfuel true t)); auto.
Qed.

(* with a first byte that is no sign, includeSign does not matter *)
Lemma load_sign_irrelevant : forall fuel s, (hd 0 s =? 43) || (hd 0 s =? 45) = false ->
  load fuel true s = load fuel false s.
Proof.
  intros [|fuel] s H; [reflexivity|]. cbn [load]. destruct s as [|c s0]; [reflexivity|].
  cbn [rd bind hd] in *. rewrite H. reflexivity.
Qed.

Lemma load_false_sign_none : forall fuel s r, (hd 0 s =? 43) || (hd 0 s =? 45) = true ->
  load fuel false s = Ok r -> r = None.
Proof.
  intros [|fuel] s r H E; [discriminate|]. cbn [load] in E. destruct s as [|c s0]; [discriminate|].
  cbn [rd bind hd] in *. rewrite H in E.
  assert (is_prefix str_true (c :: s0) = false).
  { unfold str_true. simpl. apply orb_true_iff in H. destruct H as [X|X]; apply Z.eqb_eq in X; subst; reflexivity. }
  assert (is_prefix str_false (c :: s0) = false).
  { unfold str_false. simpl. apply orb_true_iff in H. destruct H as [X|X]; apply Z.eqb_eq in X; subst; reflexivity. }
  rewrite H0, H1 in E. cbn in E. inversion E; auto.
Qed.

(* str_between recovers the consumed prefix *)
Lemma str_between_app : forall p s, str_between (p ++ s) s = p.
Proof.
  intros. unfold str_between. rewrite app_length.
  replace (length p + length s - length s)%nat with (length p) by lia.
  rewrite firstn_app, firstn_all. replace (length p - length p)%nat with O by lia. simpl.
  apply app_nil_r.
Qed.
