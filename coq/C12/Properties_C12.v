(* C12 — the tokenizer never crashes and re-reads its own token spellings.
   Vocabulary: Model.v (tokenizer_t, primitive::load cursor, escape/unescape, printers; `fixed` = the code
   after fixes/C12-1..5.patch, `pinned` = the code as found), Spec.v (good, guard, spec_print),
   Table.v (tok_ops = the operators getOperators() stores, regenerated from operator.cpp). *)
From Coq Require Import List ZArith Bool.
From OV.C12 Require Import OpDefs Model Spec Table ProofsSafety ProofsSafety2 ProofsRoundtrip ProofsPrim ProofsSeq ProofsTable.
Import ListNotations.
Local Open Scope Z_scope.

(* ---------------------------------------------------------------- the generated table *)
Theorem table_ok_generated : rt_table_ok tok_ops = true /\ table_ok tok_ops = true /\
  Model.ot_lineComment = OV.gen.C12_OpTable.ot_lineComment /\
  Model.ot_blockCommentStart = OV.gen.C12_OpTable.ot_blockCommentStart /\
  Model.ot_comment = OV.gen.C12_OpTable.ot_comment /\
  Model.ot_lessThan = OV.gen.C12_OpTable.ot_lessThan.
Proof. split; [exact tok_ops_rt_ok|]. split; [exact tok_ops_ok|]. exact consts_ok. Qed.
Print Assumptions table_ok_generated.

(* ---------------------------------------------------------------- totality *)
(* Tokenizing any C string (non-zero bytes, then the NUL) neither reads past the NUL nor runs out of the
   |bytes|+2 iterations that `tokenize` gives the token loop: it returns a token list. *)
Theorem no_oob : forall bytes, Forall (fun c => c <> 0) bytes ->
  tokenize fixed tok_ops (bytes ++ [0]) <> Oob.
Proof.
  intros bytes F. destruct (tokenize_ok fixed tok_ops eq_refl tok_ops_ok bytes F) as (ts & E). rewrite E. discriminate.
Qed.
Print Assumptions no_oob.

Theorem terminates : forall bytes, Forall (fun c => c <> 0) bytes ->
  exists toks, tokenizeLoop fixed tok_ops (length bytes + 2) (bytes ++ [0]) [] = Ok toks.
Proof.
  intros bytes F. destruct (tokenize_ok fixed tok_ops eq_refl tok_ops_ok bytes F) as (ts & E).
  exists ts. unfold tokenize in E. rewrite app_length in E. simpl in E.
  replace (length bytes + 2)%nat with (length bytes + 1 + 1)%nat by (rewrite <- Nat.add_assoc; reflexivity). exact E.
Qed.
Print Assumptions terminates.

(* every getToken call that starts before the NUL consumes at least one byte and stays inside the buffer *)
Theorem getToken_advances : forall s, wf s -> hd 0 s <> 0 ->
  exists t s', getToken fixed tok_ops s = Ok (t, s') /\ wf s' /\ sfx s' s /\ (length s' < length s)%nat.
Proof. intros s W H. exact (getToken_progress fixed tok_ops eq_refl tok_ops_ok s W H). Qed.
Print Assumptions getToken_advances.

(* the same holds for every table of non-empty C-string symbols, and with only the NUL repair applied *)
Theorem no_oob_any_table : forall fx ops bytes, fx_nul fx = true -> table_ok ops = true ->
  Forall (fun c => c <> 0) bytes -> exists toks, tokenize fx ops (bytes ++ [0]) = Ok toks.
Proof. intros. apply tokenize_ok; auto. Qed.
Print Assumptions no_oob_any_table.

Theorem header_no_oob : forall bytes, Forall (fun c => c <> 0) bytes ->
  exists r s', getHeader fixed tok_ops (bytes ++ [0]) = Ok (r, s') /\ wf s'.
Proof. intros bytes F. apply (getHeader_ok fixed tok_ops eq_refl). apply wf_app; auto. Qed.
Print Assumptions header_no_oob.

(* the code as found: an unterminated literal at the end of the input steps over the NUL *)
Theorem unterminated_literal_oob_refuted :
  tokenize pinned tok_ops ([34; 97; 98; 99] ++ [0]) = Oob /\        (* quote a b c *)
  tokenize pinned tok_ops ([39; 97] ++ [0]) = Oob /\                (* apostrophe a *)
  tokenize pinned tok_ops ([82; 34; 97] ++ [0]) = Oob /\            (* R quote a *)
  (exists r, getHeader pinned tok_ops ([60; 97] ++ [0]) = Ok (r, [])) /\   (* <a : cursor past the NUL *)
  (exists s, getHeader pinned tok_ops ([60; 97; 10] ++ [0]) = Ok (None, s)). (* <a\n : std::string(NULL) *)
Proof. repeat split; try (vm_compute; reflexivity); eexists; vm_compute; reflexivity. Qed.
Print Assumptions unterminated_literal_oob_refuted.

(* ---------------------------------------------------------------- round trips, token by token
   `rest` is what follows the printed token: the end of the input or a blank. *)
Theorem roundtrip_ident : forall v rest, spec_ident tok_ops v = true -> blank_or_end rest ->
  getToken fixed tok_ops (printToken fixed (TIdent v) ++ rest) = Ok (Some (TIdent v), rest).
Proof. intros. apply lex_ident; auto using tok_ops_rt_ok. Qed.
Print Assumptions roundtrip_ident.

Theorem roundtrip_prim : forall v rest, spec_prim v = true -> blank_or_end rest ->
  getToken fixed tok_ops (printToken fixed (TPrim v) ++ rest) = Ok (Some (TPrim v), rest).
Proof. intros. apply lex_prim; auto using tok_ops_rt_ok. Qed.
Print Assumptions roundtrip_prim.

(* every operator of the table that is not a comment opener, by longest match *)
Theorem roundtrip_ops : forall o rest, In o tok_ops -> ot_has (op_type o) ot_comment = false -> blank_or_end rest ->
  getToken fixed tok_ops (printToken fixed (TOp o) ++ rest) = Ok (Some (TOp o), rest).
Proof.
  intros o rest I NC B. apply lex_op; auto using tok_ops_rt_ok. unfold spec_op. rewrite NC.
  rewrite andb_true_r. apply existsb_exists. exists o. split; auto.
  unfold oper_eqb, ot_eqb. rewrite !list_eqb_refl, !Z.eqb_refl. reflexivity.
Qed.
Print Assumptions roundtrip_ops.

Theorem roundtrip_string : forall e v u rest,
  In e [0; 2; 4; 8; 16] -> spec_litvalue 34 v = true -> spec_udf u = true -> blank_or_end rest ->
  getToken fixed tok_ops (printToken fixed (TString e v u) ++ rest) = Ok (Some (TString e v u), rest).
Proof.
  intros e v u rest I LV SU B. apply lex_string; auto using tok_ops_rt_ok.
  apply existsb_exists. exists e. split; auto. apply Z.eqb_refl.
Qed.
Print Assumptions roundtrip_string.

Theorem roundtrip_char : forall e v u rest,
  In e [0; 4; 8; 16] -> spec_litvalue 39 v = true -> spec_udf u = true -> blank_or_end rest ->
  getToken fixed tok_ops (printToken fixed (TChar e v u) ++ rest) = Ok (Some (TChar e v u), rest).
Proof.
  intros e v u rest I LV SU B. apply lex_char; auto using tok_ops_rt_ok.
  apply existsb_exists. exists e. split; auto. apply Z.eqb_refl.
Qed.
Print Assumptions roundtrip_char.

Theorem roundtrip_comment_partial : forall v rest,
  spec_block_comment v = true -> guard (TComment v) = true -> blank_or_end rest ->
  getToken fixed tok_ops (printToken fixed (TComment v) ++ rest) = Ok (Some (TComment v), rest).
Proof. intros. apply lex_comment; auto using tok_ops_rt_ok. Qed.
Print Assumptions roundtrip_comment_partial.

(* a line comment runs to the first newline that no backslash precedes: backslash-newline continues it *)
Theorem roundtrip_line_comment : forall body rest,
  line_ok body = true ->
  getToken fixed tok_ops (47 :: 47 :: body ++ 10 :: rest) = Ok (Some (TComment (47 :: 47 :: body)), 10 :: rest).
Proof. intros. apply lex_line_comment; auto using tok_ops_rt_ok. Qed.
Print Assumptions roundtrip_line_comment.

(* ---------------------------------------------------------------- round trip of token sequences
   Full statement (the property):
     forall ts, Forall (fun t => good tok_ops t = true) ts ->
       tokenize fixed tok_ops (printSeq fixed ts ++ [0]) = Ok ts.
   Proved with the guard that excludes raw strings and two comment shapes (known findings; witnesses
   below).  printSeq puts one blank between consecutive tokens. *)
Theorem roundtrip_seq_partial : forall ts,
  Forall (fun t => good tok_ops t = true /\ guard t = true) ts ->
  tokenize fixed tok_ops (printSeq fixed ts ++ [0]) = Ok ts.
Proof. intros ts F. apply tokenize_seq; auto using tok_ops_rt_ok. Qed.
Print Assumptions roundtrip_seq_partial.

(* the modelled printer is the reference printer on good tokens inside the guard *)
Theorem print_is_reference : forall e v u,
  In e [0; 2; 4; 8; 16] ->
  printToken fixed (TString e v u) = spec_print (TString e v u).
Proof.
  intros e v u I. cbn [printToken spec_print]. unfold escape. rewrite escape_fixed_spec.
  cbn [In] in I. repeat (destruct I as [I|I]; [subst e; reflexivity|]). destruct I.
Qed.
Print Assumptions print_is_reference.

(* what is outside the guard really fails (also after the repairs) *)
Theorem raw_string_refuted :
  good tok_ops (TString 1 [97; 98] []) = true /\
  tokenize fixed tok_ops (printSeq fixed [TString 1 [97; 98] []] ++ [0]) <> Ok [TString 1 [97; 98] []].
Proof. split; [vm_compute; reflexivity|]. vm_compute. discriminate. Qed.
Print Assumptions raw_string_refuted.

Theorem comment_shapes_refuted :
  (* /*/ x*/ *)
  (good tok_ops (TComment [47; 42; 47; 32; 120; 42; 47]) = true /\
   tokenize fixed tok_ops (printSeq fixed [TComment [47; 42; 47; 32; 120; 42; 47]] ++ [0])
     <> Ok [TComment [47; 42; 47; 32; 120; 42; 47]]) /\
  (* /* \*/ then x *)
  (good tok_ops (TComment [47; 42; 32; 92; 42; 47]) = true /\
   tokenize fixed tok_ops (printSeq fixed [TComment [47; 42; 32; 92; 42; 47]; TIdent [120]] ++ [0])
     <> Ok [TComment [47; 42; 32; 92; 42; 47]; TIdent [120]]).
Proof. repeat split; try (vm_compute; reflexivity); vm_compute; discriminate. Qed.
Print Assumptions comment_shapes_refuted.

(* the code as found fails inside the guard: these are the defects that fixes/C12-2..4 repair *)
Theorem leading_quote_refuted :           (* a string value that starts with a quote loses the backslash of that quote *)
  good tok_ops (TString 0 [34; 97] []) = true /\ guard (TString 0 [34; 97] []) = true /\
  tokenize pinned tok_ops (printSeq pinned [TString 0 [34; 97] []] ++ [0]) <> Ok [TString 0 [34; 97] []].
Proof. repeat split; try (vm_compute; reflexivity). vm_compute. discriminate. Qed.
Print Assumptions leading_quote_refuted.

Theorem prefix_blank_refuted :            (* identifier L, blank, string abc: the identifier is lost *)
  tokenize pinned tok_ops (printSeq pinned [TIdent [76]; TString 0 [97; 98; 99] []] ++ [0])
    = Ok [TString 0 [97; 98; 99] []].
Proof. vm_compute. reflexivity. Qed.
Print Assumptions prefix_blank_refuted.

Theorem true_ident_refuted :              (* true1 is read as true 1 *)
  good tok_ops (TIdent [116; 114; 117; 101; 49]) = true /\
  tokenize pinned tok_ops (printSeq pinned [TIdent [116; 114; 117; 101; 49]] ++ [0])
    = Ok [TPrim [116; 114; 117; 101]; TPrim [49]].
Proof. split; vm_compute; reflexivity. Qed.
Print Assumptions true_ident_refuted.

(* ---------------------------------------------------------------- non-vacuity *)
Example good_examples :
  forallb (good tok_ops)
    [TIdent [120; 95; 49]; TIdent [116; 114; 117; 101; 49]; TIdent [76];
     TPrim [49; 46; 53; 101; 45; 51; 102]; TPrim [48; 120; 49; 70; 117; 76]; TPrim [116; 114; 117; 101];
     TString 2 [34; 97; 92; 110] [95; 107]; TChar 16 [39] []; TComment [47; 42; 32; 42; 42; 47]; TNewline;
     TUnknown 36] = true
  /\ forallb guard
    [TString 2 [34; 97; 92; 110] [95; 107]; TComment [47; 42; 32; 42; 42; 47]] = true
  /\ forallb (fun o => spec_op tok_ops o || ot_has (op_type o) ot_comment) tok_ops = true
  /\ length tok_ops = 64%nat.
Proof. repeat split; vm_compute; reflexivity. Qed.

Example line_comment_continuation :   (* "//a\<newline>b" newline "x": one comment, newline, identifier *)
  line_ok [97; 92; 10; 98] = true /\
  tokenize fixed tok_ops ([47; 47; 97; 92; 10; 98; 10; 120] ++ [0])
    = Ok [TComment [47; 47; 97; 92; 10; 98]; TNewline; TIdent [120]].
Proof. split; vm_compute; reflexivity. Qed.

Example seq_example :
  tokenize fixed tok_ops (printSeq fixed
    [TIdent [76]; TString 0 [34; 97] []; TPrim [49; 101; 53]; TChar 4 [39] [95; 99]] ++ [0])
  = Ok [TIdent [76]; TString 0 [34; 97] []; TPrim [49; 101; 53]; TChar 4 [39] [95; 99]].
Proof. vm_compute. reflexivity. Qed.

Example longest_match_example :   (* a<<=b>>>c : <<= and >>> are single operators *)
  match tokenize fixed tok_ops ([97; 60; 60; 61; 98; 62; 62; 62; 99] ++ [0]) with
  | Ok [TIdent _; TOp o1; TIdent _; TOp o2; TIdent _] => op_sym o1 = [60; 60; 61] /\ op_sym o2 = [62; 62; 62]
  | _ => False
  end.
Proof. vm_compute. split; reflexivity. Qed.
