From OV.C12 Require Import OpDefs Model Spec Table.
From Coq Require Import List ZArith.
Import ListNotations.
Local Open Scope Z_scope.
Example placeholder : tokenizeT pinned [34; 97; 0] = Oob.
Proof. vm_compute. reflexivity. Qed.
Print Assumptions placeholder.
