(* Shapes shared by the generated operator table (coq/gen/C12_OpTable.v, written by
   tools/C12_optable.py from src/occa/internal/lang/operator.cpp) and the C12 / C15 models. *)
From Coq Require Import List ZArith Bool.
Import ListNotations.
Local Open Scope Z_scope.

(* occa::bitfield (include/occa/types/bits.hpp): two 64-bit words b1, b2 *)
Definition optype : Type := (Z * Z)%type.

Definition ot_and (a b : optype) : optype := (Z.land (fst a) (fst b), Z.land (snd a) (snd b)).
Definition ot_or (a b : optype) : optype := (Z.lor (fst a) (fst b), Z.lor (snd a) (snd b)).
(* bitfield::operator bool *)
Definition ot_true (a : optype) : bool := negb (fst a =? 0) || negb (snd a =? 0).
(* bitfield::operator == *)
Definition ot_eqb (a b : optype) : bool := (fst a =? fst b) && (snd a =? snd b).
(* `a & b` used as a condition *)
Definition ot_has (a mask : optype) : bool := ot_true (ot_and a mask).

(* operator_t: str, opType, precedence; class of the C++ object; pairStr for pairOperator_t *)
Record oper : Type := mkOper {
  op_sym : list Z;
  op_type : optype;
  op_prec : Z;
  op_class : Z;
  op_pair : list Z }.
