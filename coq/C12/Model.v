(* C12 model: occa::lang::tokenizer_t (src/occa/internal/lang/tokenizer.cpp), the cursor movement of
   primitive::load (src/types/primitive.cpp:19-172, loadBinary/loadHex 180-245), escape/unescape
   (src/occa/internal/utils/string.cpp:64-98) and the token printers (lang/token/*.cpp).

   Representation.  The input is a C string: bytes (Z, 1..255) followed by the terminating NUL.  A cursor
   (`fp.start`, `const char *c`) at index i is represented by the bytes from i through the NUL inclusive
   (`skipn i buf`): `[0]` is "at the NUL", `[]` is "one or more past the NUL".  Every read `*p` / `p[k]`
   is `rd`/`rdk`: reading at `[]` gives `Oob`.  Pointer differences (`str()`, `strSize()`) are length
   differences (`str_between`).  `push()`/`popAndRewind()` save/restore a cursor, i.e. a list.
   Loops that the C++ writes with `while` are structural recursions on the remaining bytes; the two loops
   whose progress is not structural (primitive::load's exponent recursion, the token loop) take explicit
   fuel and return `NoFuel` when it runs out; Properties_C12 states the fuel that suffices.

   Not modelled: line/lineStart bookkeeping, token origins, error messages (printError), spacingType of
   comments (fileOrigin::emptyLinesBefore/After return 0 for string sources), included sources
   (origin.up is NULL when tokenizing a string), numeric values of primitives (C14).

   The repairs proposed in fixes/C12-*.patch are switches of `fixes`; `pinned` is the code as found. *)
From Coq Require Import List ZArith Bool.
From OV.C12 Require Import OpDefs.
Import ListNotations.
Local Open Scope Z_scope.

Inductive res (A : Type) : Type :=
| Ok (a : A)
| Oob          (* a read beyond the terminating NUL *)
| NoFuel.
Arguments Ok {A} a.
Arguments Oob {A}.
Arguments NoFuel {A}.

Definition bind {A B} (r : res A) (f : A -> res B) : res B :=
  match r with Ok a => f a | Oob => Oob | NoFuel => NoFuel end.
Notation "x <- e ;; k" := (bind e (fun x => k)) (at level 61, e at next level, right associativity).

Record fixes : Type := mkFixes {
  fx_nul : bool;        (* C12-1: unterminated string, char, raw string, <header at end of input do not step past the NUL *)
  fx_esc0 : bool;       (* C12-2: escape() also escapes a quote at index 0 *)
  fx_prefix : bool;     (* C12-3: an encoding prefix must touch its quote (L "a" is identifier L, string a) *)
  fx_trueid : bool;     (* C12-4: true1 / false0 are identifiers, not true 1 / false 0 *)
  fx_hdrnull : bool }.  (* C12-5: getHeader returns "" instead of std::string(NULL) *)
Definition pinned : fixes := mkFixes false false false false false.
Definition fixed : fixes := mkFixes true true true true true.

(* ---------------------------------------------------------------- reads *)
Definition rd (s : list Z) : res Z := match s with [] => Oob | c :: _ => Ok c end.
Definition rd1 (s : list Z) : res Z := rd (tl s).
(* str(): the bytes between a saved cursor and the current one *)
Definition str_between (saved cur : list Z) : list Z := firstn (length saved - length cur) saved.

(* ---------------------------------------------------------------- character sets (token.cpp, lex.cpp) *)
Definition inb (c : Z) (cs : list Z) : bool := existsb (Z.eqb c) cs.
Definition is_lower (c : Z) : bool := (97 <=? c) && (c <=? 122).
Definition is_upper (c : Z) : bool := (65 <=? c) && (c <=? 90).
Definition is_digit (c : Z) : bool := (48 <=? c) && (c <=? 57).
Definition identStart (c : Z) : bool := is_lower c || is_upper c || (c =? 95).
Definition identChar (c : Z) : bool := identStart c || is_digit c.
Definition wsNoNl : list Z := [32; 9; 13; 11; 12].          (* space \t \r \v \f *)
Definition wsAll : list Z := [32; 9; 13; 10; 11; 12].       (* lex::whitespaceCharset: space \t \r \n \v \f *)
Definition upper (c : Z) : Z := if is_lower c then c - 32 else c.

(* ---------------------------------------------------------------- tokenizer_t::skipTo / skipFrom (312-373)
   Both apply the backslash rule first: '\\' skips itself and the next byte unless that byte is the NUL. *)
Fixpoint skipTo (ds : list Z) (s : list Z) : res (list Z) :=
  match s with
  | [] => Oob
  | c :: s1 =>
    if c =? 0 then Ok s
    else if c =? 92 then
      match s1 with
      | [] => Oob
      | c1 :: s2 => if c1 =? 0 then skipTo ds s1 else skipTo ds s2
      end
    else if inb c ds then Ok s
    else skipTo ds s1
  end.

Fixpoint skipFrom (p : Z -> bool) (s : list Z) : res (list Z) :=
  match s with
  | [] => Oob
  | c :: s1 =>
    if c =? 0 then Ok s
    else if c =? 92 then
      match s1 with
      | [] => Oob
      | c1 :: s2 => if c1 =? 0 then skipFrom p s1 else skipFrom p s2
      end
    else if p c then skipFrom p s1
    else Ok s
  end.

Definition skipWhitespace (s : list Z) : res (list Z) := skipFrom (fun c => inb c wsNoNl) s.

(* lex::skipWhitespace (no backslash rule), used by primitive::load after a sign *)
Fixpoint lexSkipWs (s : list Z) : res (list Z) :=
  match s with
  | [] => Oob
  | c :: s1 => if c =? 0 then Ok s else if inb c wsAll then lexSkipWs s1 else Ok s
  end.

(* ---------------------------------------------------------------- primitive::load, cursor only
   Result: None = primitiveType::none with the cursor put back to c0; Some c = a value was loaded and the
   cursor is c. *)
Fixpoint is_prefix (p s : list Z) : bool :=
  match p, s with
  | [], _ => true
  | a :: p', b :: s' => (a =? b) && is_prefix p' s'
  | _ :: _, [] => false
  end.

(* loadBinary: advance while the byte is '0' or '1'; none when nothing was consumed *)
Fixpoint binDigits (s : list Z) : res (list Z) :=
  match s with
  | [] => Oob
  | c :: s1 => if (c =? 48) || (c =? 49) then binDigits s1 else Ok s
  end.
Definition is_hex (c : Z) : bool :=
  let C := upper c in is_digit C || ((65 <=? C) && (C <=? 70)).
Fixpoint hexDigits (s : list Z) : res (list Z) :=
  match s with
  | [] => Oob
  | c :: s1 => if is_hex c then hexDigits s1 else Ok s
  end.

(* while (true) { digit -> ++digits; '.' -> decimal; else break; ++c }   returns (cursor, digits <> 0) *)
Fixpoint digitsDots (s : list Z) (seen : bool) : res (list Z * bool) :=
  match s with
  | [] => Oob
  | c :: s1 =>
    if is_digit c then digitsDots s1 true
    else if c =? 46 then digitsDots s1 seen
    else Ok (s, seen)
  end.

(* the suffix loop (97-123): L, U always; E (recursive load, then break) and F only for unformatted values *)
Fixpoint suffixLoop (ld : list Z -> res (option (list Z))) (formatted : bool) (s : list Z) : res (list Z) :=
  match s with
  | [] => Oob
  | c :: s1 =>
    if c =? 0 then Ok s
    else
      let C := upper c in
      if C =? 76 then suffixLoop ld formatted s1
      else if C =? 85 then suffixLoop ld formatted s1
      else if formatted then Ok s
      else if C =? 69 then
        r <- ld s1 ;;                       (* primitive::load(++c): moves the same cursor *)
        Ok (match r with Some s2 => s2 | None => s1 end)
      else if C =? 70 then suffixLoop ld formatted s1
      else Ok s
  end.

Definition str_true : list Z := [116; 114; 117; 101].
Definition str_false : list Z := [102; 97; 108; 115; 101].

(* primitive::load from the first byte after an optional sign (lines 61-171): 0b / 0x values, or
   digits and dots, then the suffix loop *)
Definition loadNum (ld : list Z -> res (option (list Z))) (s1 : list Z) : res (option (list Z)) :=
  c1 <- rd s1 ;;
  fmt <- (if c1 =? 48 then
            c2 <- rd1 s1 ;;
            let C := upper c2 in
            if C =? 66 then
              let s3 := tl (tl s1) in
              s4 <- binDigits s3 ;;
              Ok (Some (if (length s4 =? length s3)%nat then None else Some s4))
            else if C =? 88 then
              let s3 := tl (tl s1) in
              s4 <- hexDigits s3 ;;
              Ok (Some (if (length s4 =? length s3)%nat then None else Some s4))
            else Ok None
          else Ok None) ;;
  match fmt with
  | Some None => Ok None                               (* 0x / 0b without digits: c = c0, none *)
  | Some (Some s4) => s5 <- suffixLoop ld true s4 ;; Ok (Some s5)
  | None =>
    r <- digitsDots s1 false ;;
    if negb (snd r) then Ok None
    else s5 <- suffixLoop ld false (fst r) ;; Ok (Some s5)
  end.

Fixpoint load (fuel : nat) (includeSign : bool) (s : list Z) : res (option (list Z)) :=
  match fuel with
  | O => NoFuel
  | S f =>
    (* strlen(c) walks to the NUL: needs the cursor inside the buffer *)
    c <- rd s ;;
    if is_prefix str_true s then Ok (Some (skipn 4 s))
    else if is_prefix str_false s then Ok (Some (skipn 5 s))
    else
      let signed := (c =? 43) || (c =? 45) in
      if signed && negb includeSign then Ok None
      else
        s1 <- (if signed then lexSkipWs (tl s) else Ok s) ;;
        loadNum (load f true) s1
  end.

(* ---------------------------------------------------------------- tokens *)
Inductive token : Type :=
| TIdent (v : list Z)
| TPrim (src : list Z)                       (* primitiveToken::strValue *)
| TOp (o : oper)
| TNewline
| TChar (enc : Z) (v udf : list Z)
| TString (enc : Z) (v udf : list Z)
| TComment (v : list Z)
| TUnknown (c : Z).

(* encodingType (token.cpp) *)
Definition encR : Z := 1.
Definition encU8 : Z := 2.
Definition encu : Z := 4.
Definition encU : Z := 8.
Definition encL : Z := 16.
Definition encUx : Z := 30.

(* getEncodingType (tokenizer.cpp:8-44) on the identifier text *)
Fixpoint encLoop (s : list Z) (encoding count : Z) : option (Z * Z) :=
  match s with
  | [] => Some (encoding, count)
  | c :: r =>
    if c =? 117 then
      match r with
      | c1 :: r' => if c1 =? 56
                    then (if negb (Z.land encU8 encoding =? 0) then None else encLoop r' (Z.lor encoding encU8) (count + 1))
                    else (if negb (Z.land encu encoding =? 0) then None else encLoop r (Z.lor encoding encu) (count + 1))
      | [] => if negb (Z.land encu encoding =? 0) then None else encLoop r (Z.lor encoding encu) (count + 1)
      end
    else if c =? 85 then (if negb (Z.land encU encoding =? 0) then None else encLoop r (Z.lor encoding encU) (count + 1))
    else if c =? 76 then (if negb (Z.land encL encoding =? 0) then None else encLoop r (Z.lor encoding encL) (count + 1))
    else if c =? 82 then (if negb (Z.land encR encoding =? 0) then None else encLoop r (Z.lor encoding encR) (count + 1))
    else None
  end.
Definition getEncodingType (s : list Z) : Z :=
  match encLoop s 0 0 with
  | None => 0
  | Some (e, n) => if (n =? 1) || ((n =? 2) && negb (Z.land e encR =? 0)) then e else 0
  end.
Definition getCharacterEncoding (s : list Z) : Z :=
  let e := getEncodingType s in
  if (e =? 0) || negb (Z.land e (Z.lor encU8 encR) =? 0) then 0 else e.
Definition getStringEncoding (s : list Z) : Z := getEncodingType s.

(* ---------------------------------------------------------------- operator trie, as a table
   operators.getLongest(p): the longest stored symbol that is a prefix of the bytes at p (C28 proves the
   trie computes exactly this); operators.has(s): s is a stored symbol. *)
Fixpoint list_eqb (a b : list Z) : bool :=
  match a, b with
  | [], [] => true
  | x :: a', y :: b' => (x =? y) && list_eqb a' b'
  | _, _ => false
  end.
Fixpoint longest_op (ops : list oper) (s : list Z) (best : option oper) : option oper :=
  match ops with
  | [] => best
  | o :: r =>
    let better := match best with
                  | None => true
                  | Some b => (length (op_sym b) <? length (op_sym o))%nat
                  end in
    longest_op r s (if is_prefix (op_sym o) s && better then Some o else best)
  end.
Definition getLongest (ops : list oper) (s : list Z) : option oper := longest_op ops s None.
Definition has_op (ops : list oper) (v : list Z) : bool := existsb (fun o => list_eqb (op_sym o) v) ops.
(* tokenizer_t::setup: first bytes of the symbols that cannot start an identifier *)
Definition operatorCharcodes (ops : list oper) : list Z :=
  flat_map (fun o => match op_sym o with c :: _ => if identStart c then [] else [c] | [] => [] end) ops.

Definition ot_lineComment : optype := (1, 0).
Definition ot_blockCommentStart : optype := (2, 0).
Definition ot_comment : optype := (3, 0).
Definition ot_lessThan : optype := (0, 16384).

(* ---------------------------------------------------------------- peeks *)
Inductive pk : Type := KNone | KIdent | KPrim | KOp | KNewline | KString (enc : Z) | KChar (enc : Z).

Section WithTable.
Variable fx : fixes.
Variable ops : list oper.

(* shallowPeek (389-427) *)
Definition shallowPeek (s0 : list Z) : res (pk * list Z) :=
  s <- skipWhitespace s0 ;;
  c <- rd s ;;
  if c =? 0 then Ok (KNone, s)
  else
    p <- load (length s) false s ;;
    isPrim <- match p with
              | None => Ok false
              | Some pos => c' <- rd pos ;;
                            Ok (negb (if fx_trueid fx then identChar c' else identStart c'))
              end ;;
    if isPrim then Ok (KPrim, s)
    else if identStart c then Ok (KIdent, s)
    else if inb c (operatorCharcodes ops) then Ok (KOp, s)
    else if c =? 10 then Ok (KNewline, s)
    else if c =? 34 then Ok (KString 0, s)
    else if c =? 39 then Ok (KChar 0, s)
    else Ok (KNone, s).

(* peekForIdentifier (429-462); s is at an identifierStart byte *)
Definition peekForIdentifier (s : list Z) : res pk :=
  s1 <- skipFrom identChar (tl s) ;;
  let ident := str_between s s1 in
  ty <- (if fx_prefix fx
         then c <- rd s1 ;; Ok (if c =? 34 then KString 0 else if c =? 39 then KChar 0 else KNone)
         else r <- shallowPeek s1 ;; Ok (fst r)) ;;
  if has_op ops ident then Ok KOp
  else
    match ty with
    | KString _ => let e := getStringEncoding ident in Ok (if e =? 0 then KIdent else KString e)
    | KChar _ => let e := getCharacterEncoding ident in Ok (if e =? 0 then KIdent else KChar e)
    | _ => Ok KIdent
    end.

Definition peekForOperator (s : list Z) : pk :=
  match getLongest ops s with None => KNone | Some _ => KOp end.

(* peek (379-387): returns the kind and the cursor after shallowPeek's skipWhitespace *)
Definition peek (s0 : list Z) : res (pk * list Z) :=
  r <- shallowPeek s0 ;;
  let '(ty, s) := r in
  match ty with
  | KIdent => k <- peekForIdentifier s ;; Ok (k, s)
  | KOp => Ok (peekForOperator s, s)
  | _ => Ok (ty, s)
  end.

(* getIdentifier (476-485) *)
Definition getIdentifier (s : list Z) : res (list Z * list Z) :=
  c <- rd s ;;
  if negb (identStart c) then Ok ([], s)
  else s1 <- skipFrom identChar (tl s) ;; Ok (str_between s s1, s1).

(* ---------------------------------------------------------------- string.cpp *)
Fixpoint unescape (q : Z) (s : list Z) : list Z :=
  match s with
  | [] => []
  | c :: r =>
    if (c =? 92) && (match r with c1 :: _ => c1 =? q | [] => false end)
    then unescape q r
    else c :: unescape q r
  end.
Fixpoint escape_from (first : bool) (q : Z) (s : list Z) : list Z :=
  match s with
  | [] => []
  | c :: r =>
    (if c =? q then (if first && negb (fx_esc0 fx) then [q] else [92; q]) else [c])
      ++ escape_from false q r
  end.
Definition escape (q : Z) (s : list Z) : list Z := escape_from true q s.

(* ---------------------------------------------------------------- literals *)
(* reads p[0..] against m until the first difference (getRawString 547-551) *)
Fixpoint prefix_rd (m s : list Z) : res bool :=
  match m with
  | [] => Ok true
  | a :: m' => match s with
               | [] => Oob
               | b :: s' => if a =? b then prefix_rd m' s' else Ok false
               end
  end.
Fixpoint find_end (m s : list Z) : res (list Z) :=
  match s with
  | [] => Oob
  | c :: s1 =>
    if c =? 0 then Ok s
    else b <- prefix_rd m s ;; if b then Ok s else find_end m s1
  end.

(* getRawString (516-570); s is at the opening quote.  Returns (value, cursor). *)
Definition getRawString (s : list Z) : res (list Z * list Z) :=
  c <- rd s ;;
  if negb (c =? 34) then Ok ([], s)
  else
    let s1 := tl s in
    s2 <- skipTo [40; 10] s1 ;;
    c2 <- rd s2 ;;
    if (if fx_nul fx then negb (c2 =? 40) else c2 =? 10) then Ok ([], s)   (* pop(); popAndRewind() *)
    else
      let m := 41 :: str_between s1 s2 ++ [34] in
      let s3 := tl s2 in                                                  (* ++fp.start; Skip ( *)
      s4 <- find_end m s3 ;;
      c4 <- rd s4 ;;
      if c4 =? 0 then Ok ([], s)
      else Ok (str_between s3 s4, skipn (length m) s4).

(* getString (487-514): None = returned false *)
Definition getString (enc : Z) (s : list Z) : res (option (list Z) * list Z) :=
  if negb (Z.land enc encR =? 0) then r <- getRawString s ;; Ok (Some (fst r), snd r)
  else
    c <- rd s ;;
    if negb (c =? 34) then Ok (None, s)
    else
      let s1 := tl s in
      s2 <- skipTo [34; 10] s1 ;;
      c2 <- rd s2 ;;
      if (if fx_nul fx then negb (c2 =? 34) else c2 =? 10) then Ok (None, s2)
      else Ok (Some (unescape 34 (str_between s1 s2)), tl s2).

Definition getUdf (s : list Z) : res (list Z * list Z) :=
  c <- rd s ;;
  if c =? 95 then getIdentifier s else Ok ([], s).

(* getStringToken (740-765) *)
Definition getStringToken (enc : Z) (s : list Z) : res (option token * list Z) :=
  s1 <- (if enc =? 0 then Ok s else r <- getIdentifier s ;; Ok (snd r)) ;;
  c <- rd s1 ;;
  if negb (c =? 34) then Ok (None, s1)
  else
    r <- getString enc s1 ;;
    match r with
    | (None, s2) => Ok (None, s2)
    | (Some v, s2) => u <- getUdf s2 ;; Ok (Some (TString enc v (fst u)), snd u)
    end.

(* getCharToken (767-800) *)
Definition getCharToken (enc : Z) (s : list Z) : res (option token * list Z) :=
  s1 <- (if enc =? 0 then Ok s else r <- getIdentifier s ;; Ok (snd r)) ;;
  c <- rd s1 ;;
  if negb (c =? 39) then Ok (None, s1)
  else
    let s2 := tl s1 in
    s3 <- skipTo [39; 10] s2 ;;
    c3 <- rd s3 ;;
    if (if fx_nul fx then negb (c3 =? 39) else c3 =? 10) then Ok (None, s2)   (* popAndRewind() *)
    else
      let v := unescape 39 (str_between s2 s3) in
      u <- getUdf (tl s3) ;; Ok (Some (TChar enc v (fst u)), snd u).

(* getBlockCommentToken's loop (716-726): skipTo of a star, then star slash ends it; fused into one recursion *)
Fixpoint blockComment (s : list Z) : res (list Z) :=
  match s with
  | [] => Oob
  | c :: s1 =>
    if c =? 0 then Ok s
    else if c =? 92 then
      match s1 with
      | [] => Oob
      | c1 :: s2 => if c1 =? 0 then blockComment s1 else blockComment s2
      end
    else if c =? 42 then
      match s1 with
      | [] => Oob
      | c1 :: s2 => if c1 =? 47 then Ok s2 else blockComment s1
      end
    else blockComment s1
  end.

(* countSkippedLines (283-310) reads fp.start[1] (sic: not pos[1]) when the text holds a backslash *)
Definition countSkippedLines (txt cur : list Z) : res unit :=
  if inb 92 txt then (_ <- rd1 cur ;; Ok tt) else Ok tt.

(* getOperatorToken (650-672) *)
Definition getOperatorToken (s : list Z) : res (option token * list Z) :=
  match getLongest ops s with
  | None => Ok (None, s)
  | Some o =>
    if ot_has (op_type o) ot_comment && ot_eqb (op_type o) ot_lineComment then
      s1 <- skipTo [10] s ;; Ok (Some (TComment (str_between s s1)), s1)
    else if ot_has (op_type o) ot_comment && ot_eqb (op_type o) ot_blockCommentStart then
      s1 <- blockComment s ;; Ok (Some (TComment (str_between s s1)), s1)
    else Ok (Some (TOp o), skipn (length (op_sym o)) s)
  end.

(* getToken (572-619), called with the cursor not at the NUL *)
Definition getToken (s0 : list Z) : res (option token * list Z) :=
  c0 <- rd s0 ;;
  if c0 =? 0 then Ok (None, s0)
  else
    sw <- skipWhitespace s0 ;;
    cw <- rd sw ;;
    if cw =? 0 then Ok (Some TNewline, sw)
    else
      r <- peek sw ;;
      let '(ty, s) := r in
      match ty with
      | KIdent =>
        c <- rd s ;;
        if negb (identStart c) then Ok (None, s)
        else g <- getIdentifier s ;; Ok (Some (TIdent (fst g)), snd g)
      | KPrim =>
        p <- load (length s) true s ;;
        match p with
        | None => Ok (None, s)
        | Some s1 => let txt := str_between s s1 in
                     _ <- countSkippedLines txt s1 ;; Ok (Some (TPrim txt), s1)
        end
      | KOp => getOperatorToken s
      | KNewline => Ok (Some TNewline, tl s)
      | KChar enc => getCharToken enc s
      | KString enc => getStringToken enc s
      | KNone => c <- rd s ;; Ok (Some (TUnknown c), tl s)
      end.

(* isEmpty/setNext loop of tokenizer_t::tokenize (884-905) *)
Fixpoint tokenizeLoop (fuel : nat) (s : list Z) (acc : list token) : res (list token) :=
  match fuel with
  | O => NoFuel
  | S f =>
    c <- rd s ;;
    if c =? 0 then Ok (rev acc)
    else
      r <- getToken s ;;
      tokenizeLoop f (snd r) (match fst r with Some t => t :: acc | None => acc end)
  end.

(* buf = bytes ++ [0] *)
Definition tokenize (buf : list Z) : res (list token) := tokenizeLoop (length buf + 1) buf [].

(* ---------------------------------------------------------------- printers (token/*.cpp) *)
Definition printEncoding (isString : bool) (enc : Z) : list Z :=
  if isString then
    (if negb (Z.land enc encUx =? 0) then
       (if negb (Z.land enc encU8 =? 0) then [117; 56]
        else if negb (Z.land enc encu =? 0) then [117]
        else if negb (Z.land enc encU =? 0) then [85]
        else if negb (Z.land enc encL =? 0) then [76] else [])
     else [])
    ++ (if negb (Z.land enc encR =? 0) then [82] else [])
  else
    (if negb (Z.land enc encu =? 0) then [117]
     else if negb (Z.land enc encU =? 0) then [85]
     else if negb (Z.land enc encL =? 0) then [76] else []).

Definition printToken (t : token) : list Z :=
  match t with
  | TIdent v => v
  | TPrim v => v
  | TOp o => op_sym o
  | TNewline => [10]
  | TChar enc v udf => printEncoding false enc ++ [39] ++ escape 39 v ++ [39] ++ udf
  | TString enc v udf => printEncoding true enc ++ [34] ++ escape 34 v ++ [34] ++ udf
  | TComment v => v
  | TUnknown c => [c]
  end.

Fixpoint printSeq (ts : list token) : list Z :=
  match ts with
  | [] => []
  | [t] => printToken t
  | t :: r => printToken t ++ [32] ++ printSeq r
  end.

(* ---------------------------------------------------------------- getHeader (833-866)
   Result: None = `return NULL` (std::string from a null pointer: std::logic_error); with fx_hdrnull the
   same paths return the empty string. *)
Definition getHeader (s0 : list Z) : res (option (list Z) * list Z) :=
  r <- shallowPeek s0 ;;
  let '(ty, s) := r in
  let isQuoted := match ty with KString _ => true | _ => false end in
  let isAngle := match ty with KOp => true | _ => false end in
  let failed := if fx_hdrnull fx then Some [] else None in
  if negb isQuoted && negb isAngle then Ok (failed, s)
  else if isQuoted then
    g <- getString 0 s ;;
    Ok (Some (match fst g with Some v => v | None => [] end), snd g)
  else
    let s1 := tl s in
    s2 <- skipTo [62; 10] s1 ;;
    c2 <- rd s2 ;;
    if (if fx_nul fx then negb (c2 =? 62) else c2 =? 10) then Ok (failed, s2)
    else Ok (Some (str_between s1 s2), tl s2).

End WithTable.
