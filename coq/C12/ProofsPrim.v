(* C12: numeric literals re-tokenize to themselves.
   Core: primitive::load does not look beyond the first byte after the literal, except after a sign
   (where it skips white space): if load consumes all of p when p is followed by the NUL, it consumes
   exactly p when p is followed by a blank. *)
From Coq Require Import List ZArith Bool Lia.
From OV.C12 Require Import OpDefs Model Spec ProofsSafety ProofsSafety2 ProofsRoundtrip.
Import ListNotations.
Local Open Scope Z_scope.

Definition stop (h : Z) : Prop := h = 0 \/ h = 32.
Definition nonz (p : list Z) : Prop := Forall (fun c => c <> 0) p.

Lemma app_unit_nil : forall (u : list Z) x, u ++ [x] = [x] -> u = [].
Proof. intros [|a u] x H; auto. destruct u; discriminate. Qed.

Lemma eqb_len_app : forall (u a t : list Z), (length (u ++ t) =? length (a ++ t))%nat = (length u =? length a)%nat.
Proof.
  intros. rewrite !app_length. destruct (length u =? length a)%nat eqn:E.
  - apply Nat.eqb_eq in E. apply Nat.eqb_eq. lia.
  - apply Nat.eqb_neq in E. apply Nat.eqb_neq. lia.
Qed.

(* ------------------------------------------------------------------ the simple scans on two tails *)
Lemma binDigits_two : forall a h t, stop h ->
  exists u, sfx u a /\ binDigits (a ++ [0]) = Ok (u ++ [0]) /\ binDigits (a ++ h :: t) = Ok (u ++ h :: t).
Proof.
  induction a as [|c a IH]; intros h t Hs.
  - exists []. repeat split; auto using sfx_refl. cbn [app binDigits]. destruct Hs; subst; reflexivity.
  - cbn [app binDigits]. destruct ((c =? 48) || (c =? 49)).
    + destruct (IH h t Hs) as (u & S & E1 & E2). exists u. auto using sfx_cons.
    + exists (c :: a). auto using sfx_refl.
Qed.

Lemma hexDigits_two : forall a h t, stop h ->
  exists u, sfx u a /\ hexDigits (a ++ [0]) = Ok (u ++ [0]) /\ hexDigits (a ++ h :: t) = Ok (u ++ h :: t).
Proof.
  induction a as [|c a IH]; intros h t Hs.
  - exists []. repeat split; auto using sfx_refl. cbn [app hexDigits]. destruct Hs; subst; reflexivity.
  - cbn [app hexDigits]. destruct (is_hex c).
    + destruct (IH h t Hs) as (u & S & E1 & E2). exists u. auto using sfx_cons.
    + exists (c :: a). auto using sfx_refl.
Qed.

Lemma digitsDots_two : forall a seen h t, stop h ->
  exists u b, sfx u a /\ digitsDots (a ++ [0]) seen = Ok (u ++ [0], b) /\
              digitsDots (a ++ h :: t) seen = Ok (u ++ h :: t, b).
Proof.
  induction a as [|c a IH]; intros seen h t Hs.
  - exists [], seen. repeat split; auto using sfx_refl. cbn [app digitsDots]. destruct Hs; subst; reflexivity.
  - cbn [app digitsDots]. destruct (is_digit c).
    + destruct (IH true h t Hs) as (u & b & S & E1 & E2). exists u, b. auto using sfx_cons.
    + destruct (c =? 46).
      * destruct (IH seen h t Hs) as (u & b & S & E1 & E2). exists u, b. auto using sfx_cons.
      * exists (c :: a), seen. auto using sfx_refl.
Qed.

Lemma lexSkipWs_two : forall a h t,
  exists q, sfx q a /\ lexSkipWs (a ++ [0]) = Ok (q ++ [0]) /\
            (q <> [] -> lexSkipWs (a ++ h :: t) = Ok (q ++ h :: t)).
Proof.
  induction a as [|c a IH]; intros h t.
  - exists []. repeat split; auto using sfx_refl. intro X; contradiction.
  - cbn [app lexSkipWs]. destruct (c =? 0).
    + exists (c :: a). repeat split; auto using sfx_refl.
    + destruct (inb c wsAll).
      * destruct (IH h t) as (q & S & E1 & E2). exists q. auto using sfx_cons.
      * exists (c :: a). repeat split; auto using sfx_refl.
Qed.

Lemma is_prefix_two : forall m p h t, (forall x, In x m -> x <> 0 /\ x <> h) ->
  is_prefix m (p ++ [0]) = is_prefix m (p ++ h :: t).
Proof.
  induction m as [|x m IH]; intros p h t H; [reflexivity|].
  destruct p as [|c p]; cbn [app is_prefix].
  - destruct (H x (or_introl eq_refl)) as [A B]. apply Z.eqb_neq in A, B. rewrite A, B. reflexivity.
  - rewrite (IH p h t); auto. intros y Hy. apply H. right; auto.
Qed.

Lemma sfx_nonz : forall u a, sfx u a -> nonz a -> nonz u.
Proof. intros u a [p ->] N. apply Forall_app in N. tauto. Qed.

Lemma load_nul_not_some : forall f b x, load f b [0] = Ok (Some x) -> False.
Proof.
  intros [|f] b x H; [discriminate|]. cbn in H. discriminate.
Qed.

Lemma load_stop_none : forall f b h t, stop h -> load (S f) b (h :: t) = Ok None.
Proof.
  intros f b h t [->| ->].
  - cbn [load rd bind is_prefix str_true str_false Z.eqb andb orb]. unfold loadNum. cbn. reflexivity.
  - cbn [load rd bind is_prefix str_true str_false Z.eqb Pos.eqb andb orb]. unfold loadNum. cbn. reflexivity.
Qed.

(* ------------------------------------------------------------------ the suffix loop on two tails *)
Lemma suffixLoop_two : forall ld ld' fmt h t n, stop h ->
  (forall p, nonz p -> p <> [] -> (length p <= n)%nat ->
     ld (p ++ [0]) = Ok (Some [0]) -> ld' (p ++ h :: t) = Ok (Some (h :: t))) ->
  (forall x, ld [0] = Ok (Some x) -> False) ->
  ld' (h :: t) = Ok None ->
  forall u, nonz u -> (length u <= S n)%nat ->
    suffixLoop ld fmt (u ++ [0]) = Ok [0] -> suffixLoop ld' fmt (u ++ h :: t) = Ok (h :: t).
Proof.
  intros ld ld' fmt h t n Hs Hld H00 H0. induction u as [|c u IH]; intros N L E.
  - cbn [app suffixLoop]. destruct Hs as [->| ->]; [reflexivity|].
    cbn. destruct fmt; reflexivity.
  - inversion N as [|? ? C0 N']; subst. cbn [app suffixLoop] in *. apply Z.eqb_neq in C0. rewrite C0 in *.
    simpl in L.
    assert (BAD : forall (X : list Z), Ok (c :: u ++ [0]) = Ok [0] -> X = h :: t).
    { intros X K. inversion K. destruct u; discriminate. }
    destruct (upper c =? 76); [apply IH; auto; lia|].
    destruct (upper c =? 85); [apply IH; auto; lia|].
    destruct fmt; [exfalso; inversion E; destruct u; discriminate|].
    destruct (upper c =? 69).
    + destruct (ld (u ++ [0])) as [[s2|]| |] eqn:El; cbn [bind] in E; try discriminate; inversion E; subst.
      * destruct u as [|c1 u1].
        -- exfalso. apply (H00 [0]). exact El.
        -- rewrite (Hld (c1 :: u1)); auto; [discriminate|simpl in *; lia].
      * apply app_unit_nil in H1. subst u. cbn [app]. rewrite H0. reflexivity.
    + destruct (upper c =? 70); [apply IH; auto; lia|].
      exfalso. inversion E. destruct u; discriminate.
Qed.

(* ------------------------------------------------------------------ loadNum and load on two tails *)
Lemma loadNum_two : forall ld ld' h t n, stop h ->
  (forall p, nonz p -> p <> [] -> (length p <= n)%nat ->
     ld (p ++ [0]) = Ok (Some [0]) -> ld' (p ++ h :: t) = Ok (Some (h :: t))) ->
  (forall x, ld [0] = Ok (Some x) -> False) ->
  ld' (h :: t) = Ok None ->
  forall q, nonz q -> q <> [] -> (length q <= S n)%nat ->
    loadNum ld (q ++ [0]) = Ok (Some [0]) -> loadNum ld' (q ++ h :: t) = Ok (Some (h :: t)).
Proof.
  intros ld ld' h t n Hs Hld H00 H0 q N NE L E.
  destruct q as [|c1 q']; [contradiction|]. inversion N as [|? ? C10 N']; subst.
  unfold loadNum in *. cbn [app rd bind] in *.
  (* the unformatted path, shared *)
  assert (UNF : forall a, nonz a -> (length a <= S n)%nat ->
            (r <- digitsDots (a ++ [0]) false ;; if negb (snd r) then Ok None
             else s5 <- suffixLoop ld false (fst r) ;; Ok (Some s5)) = Ok (Some [0]) ->
            (r <- digitsDots (a ++ h :: t) false ;; if negb (snd r) then Ok None
             else s5 <- suffixLoop ld' false (fst r) ;; Ok (Some s5)) = Ok (Some (h :: t))).
  { intros a Na La Ea. destruct (digitsDots_two a false h t Hs) as (u & b & Su & E1 & E2).
    rewrite E1 in Ea. rewrite E2. cbn [bind snd fst] in *. destruct b; cbn [negb] in *; [|discriminate].
    destruct (suffixLoop ld false (u ++ [0])) as [s5| |] eqn:E5; cbn [bind] in Ea; try discriminate.
    inversion Ea; subst s5.
    rewrite (suffixLoop_two ld ld' false h t n Hs Hld H00 H0 u); auto.
    - eapply sfx_nonz; eauto.
    - apply sfx_len in Su. lia. }
  destruct (c1 =? 48) eqn:E48.
  2:{ cbn [bind] in *. apply (UNF (c1 :: q')); auto. }
  apply Z.eqb_eq in E48. subst c1. unfold rd1 in *. cbn [tl] in *.
  (* the byte after the 0 *)
  destruct q' as [|c2 q2].
  - (* "0" alone *)
    cbn [app rd bind] in *. assert (upper h =? 66 = false /\ upper h =? 88 = false) by (destruct Hs; subst; split; reflexivity).
    destruct H as [A B]. rewrite A, B. cbn [upper is_lower Z.leb Z.compare andb Z.eqb bind] in E. cbn [bind].
    apply (UNF [48]); auto.
  - inversion N' as [|? ? C20 N2]; subst. cbn [app rd bind tl] in *.
    assert (FMT : forall (dg : list Z -> res (list Z)),
              (forall a, exists u, sfx u a /\ dg (a ++ [0]) = Ok (u ++ [0]) /\ dg (a ++ h :: t) = Ok (u ++ h :: t)) ->
              (fmt <- (s4 <- dg (q2 ++ [0]) ;; Ok (Some (if (length s4 =? length (q2 ++ [0%Z]))%nat then None else Some s4))) ;;
               match fmt with
               | Some None => Ok None
               | Some (Some s4) => s5 <- suffixLoop ld true s4 ;; Ok (Some s5)
               | None => r <- digitsDots (48 :: c2 :: q2 ++ [0]) false ;; if negb (snd r) then Ok None
                         else s5 <- suffixLoop ld false (fst r) ;; Ok (Some s5)
               end) = Ok (Some [0]) ->
              (fmt <- (s4 <- dg (q2 ++ h :: t) ;; Ok (Some (if (length s4 =? length (q2 ++ h :: t))%nat then None else Some s4))) ;;
               match fmt with
               | Some None => Ok None
               | Some (Some s4) => s5 <- suffixLoop ld' true s4 ;; Ok (Some s5)
               | None => r <- digitsDots (48 :: c2 :: q2 ++ h :: t) false ;; if negb (snd r) then Ok None
                         else s5 <- suffixLoop ld' false (fst r) ;; Ok (Some s5)
               end) = Ok (Some (h :: t))).
    { intros dg Hdg Ef. destruct (Hdg q2) as (u & Su & E1 & E2). rewrite E1 in Ef. rewrite E2. cbn [bind] in *.
      rewrite eqb_len_app in *. destruct (length u =? length q2)%nat; [discriminate|].
      destruct (suffixLoop ld true (u ++ [0])) as [s5| |] eqn:E5; cbn [bind] in Ef; try discriminate.
      inversion Ef; subst s5.
      rewrite (suffixLoop_two ld ld' true h t n Hs Hld H00 H0 u); auto.
      - eapply sfx_nonz; eauto.
      - apply sfx_len in Su. simpl in L. lia. }
    destruct (upper c2 =? 66).
    + apply (FMT binDigits); auto. intro a. apply binDigits_two; auto.
    + destruct (upper c2 =? 88).
      * apply (FMT hexDigits); auto. intro a. apply hexDigits_two; auto.
      * cbn [bind] in *. apply (UNF (48 :: c2 :: q2)); auto.
Qed.

Lemma load_two : forall f f' b p h t, stop h -> nonz p -> p <> [] ->
  (length (p ++ h :: t) <= f')%nat ->
  load f b (p ++ [0]) = Ok (Some [0]) -> load f' b (p ++ h :: t) = Ok (Some (h :: t)).
Proof.
  induction f as [|f IH]; intros f' b p h t Hs N NE L E; [discriminate|].
  destruct f' as [|f']; [rewrite app_length in L; simpl in L; lia|].
  destruct p as [|c p']; [contradiction|]. inversion N as [|? ? C0 N']; subst.
  assert (HT : forall x, In x str_true -> x <> 0 /\ x <> h).
  { intros x Hx. unfold str_true in Hx. cbn [In] in Hx. destruct Hs; subst; intuition lia. }
  assert (HF : forall x, In x str_false -> x <> 0 /\ x <> h).
  { intros x Hx. unfold str_false in Hx. cbn [In] in Hx. destruct Hs; subst; intuition lia. }
  cbn [load] in *. change ((c :: p') ++ [0]) with (c :: p' ++ [0]) in E. change ((c :: p') ++ h :: t) with (c :: p' ++ h :: t).
  cbn [rd bind] in *.
  change (c :: p' ++ [0]) with ((c :: p') ++ [0]) in E. change (c :: p' ++ h :: t) with ((c :: p') ++ h :: t).
  rewrite <- (is_prefix_two str_true (c :: p') h t HT). rewrite <- (is_prefix_two str_false (c :: p') h t HF).
  destruct (is_prefix str_true ((c :: p') ++ [0])) eqn:PT.
  { pose proof (is_prefix_split _ _ PT) as SP.
    assert (E' : skipn (length str_true) ((c :: p') ++ [0]) = [0]) by (injection E; intro X; exact X).
    rewrite E' in SP.
    assert (c :: p' = str_true) by (apply (app_inv_tail [0]); exact SP).
    rewrite H. reflexivity. }
  destruct (is_prefix str_false ((c :: p') ++ [0])) eqn:PF.
  { pose proof (is_prefix_split _ _ PF) as SP.
    assert (E' : skipn (length str_false) ((c :: p') ++ [0]) = [0]) by (injection E; intro X; exact X).
    rewrite E' in SP.
    assert (c :: p' = str_false) by (apply (app_inv_tail [0]); exact SP).
    rewrite H. reflexivity. }
  assert (LN : forall q, nonz q -> q <> [] -> (length (q ++ h :: t) <= S f')%nat ->
            loadNum (load f true) (q ++ [0]) = Ok (Some [0]) ->
            loadNum (load f' true) (q ++ h :: t) = Ok (Some (h :: t))).
  { intros q Nq NEq Lq Eq.
    assert (F1 : (1 <= f')%nat).
    { rewrite app_length in L. simpl in L. lia. }
    apply (loadNum_two (load f true) (load f' true) h t (f' - length (h :: t))%nat); auto.
    - intros p0 N0 NE0 L0 E0. apply (IH f' true p0 h t); auto.
      assert (1 <= length p0)%nat by (destruct p0; [contradiction|simpl; lia]).
      rewrite app_length. cbn [length] in *. lia.
    - intros x. apply load_nul_not_some.
    - destruct f'; [lia|]. apply load_stop_none; auto.
    - assert (1 <= length q)%nat by (destruct q; [contradiction|simpl; lia]).
      rewrite app_length in Lq. cbn [length] in *. lia. }
  destruct ((c =? 43) || (c =? 45)) eqn:SG; cbn [andb] in *.
  - destruct (negb b); [discriminate|]. cbn [app tl] in *.
    destruct (lexSkipWs_two p' h t) as (q & Sq & E1 & E2). rewrite E1 in E. cbn [bind] in E.
    destruct q as [|x q'].
    + exfalso. cbn [app] in E. unfold loadNum in E. cbn in E. discriminate.
    + rewrite E2; [|discriminate]. cbn [bind]. apply LN; auto.
      * eapply sfx_nonz; eauto.
      * discriminate.
      * apply sfx_len in Sq. rewrite app_length. cbn [app length] in L. rewrite app_length in L.
        cbn [length] in *. lia.
  - cbn [bind] in *. apply LN; auto; discriminate.
Qed.

(* ------------------------------------------------------------------ the first byte of a literal *)
Lemma numstart_tokstart : forall c, numstart c = true -> tokstart c = true.
Proof.
  intros c H. unfold numstart, is_digit in H. unfold tokstart, inb, wsNoNl. cbn [existsb].
  assert (c = 46 \/ c = 116 \/ c = 102 \/ (48 <= c <= 57)).
  { repeat (apply orb_true_iff in H; destruct H as [H|H]); try (apply Z.eqb_eq in H; auto).
    apply andb_true_iff in H. destruct H as [A B]. apply Z.leb_le in A, B. auto. }
  assert (G : forall k, c <> k -> (c =? k) = false) by (intros; apply Z.eqb_neq; auto).
  rewrite !G by lia. reflexivity.
Qed.

Section Prim.
Variable ops : list oper.
Hypothesis Hrt : rt_table_ok ops = true.

Theorem lex_prim : forall v rest, spec_prim v = true -> blank_or_end rest ->
  getToken fixed ops (v ++ rest) = Ok (Some (TPrim v), rest).
Proof.
  intros v rest SP B. unfold spec_prim in SP. apply andb_true_iff in SP. destruct SP as [NZ SP].
  destruct v as [|c r]; [discriminate|]. apply andb_true_iff in SP. destruct SP as [NS SP].
  apply negb_true_iff in NS.
  destruct (load (length (c :: r) + 1) true ((c :: r) ++ [0])) as [[x|]| |] eqn:EL; try discriminate.
  apply list_eqb_eq in SP. subst x.
  assert (N : nonz (c :: r)).
  { unfold nonzero in NZ. rewrite forallb_forall in NZ. apply Forall_forall. intros y Hy.
    specialize (NZ y Hy). apply negb_true_iff, Z.eqb_neq in NZ. auto. }
  destruct (boe_cases rest B) as (h & t & -> & Hh).
  assert (L2 : forall f', (length ((c :: r) ++ h :: t) <= f')%nat ->
             load f' true ((c :: r) ++ h :: t) = Ok (Some (h :: t))).
  { intros f' Lf. apply (load_two (length (c :: r) + 1) f' true (c :: r) h t Hh N); auto. discriminate. }
  assert (L2f : load (length ((c :: r) ++ h :: t)) false ((c :: r) ++ h :: t) = Ok (Some (h :: t))).
  { rewrite <- load_sign_irrelevant; [apply L2; auto|]. exact NS. }
  (* the first byte starts a number *)
  assert (NSt : numstart c = true).
  { destruct (numstart c) eqn:X; auto. exfalso.
    cbn [app length] in L2f. rewrite (load_none_start _ c (r ++ h :: t) X) in L2f. discriminate. }
  pose proof (numstart_tokstart c NSt) as TS.
  cbn [app] in *. rewrite getToken_at; auto. unfold peek.
  unfold shallowPeek. rewrite skipWhitespace_tokstart; auto. cbn [bind rd].
  assert (c =? 0 = false) by (inversion N; apply Z.eqb_neq; auto). rewrite H.
  rewrite L2f. cbn [bind rd fx_trueid fixed].
  assert (identChar h = false) by (destruct Hh; subst; reflexivity). rewrite H0. cbn [negb bind].
  rewrite (L2 _ (le_n _)). cbn [bind].
  change (c :: r ++ h :: t) with ((c :: r) ++ h :: t). rewrite str_between_app.
  destruct (load_nobs _ _ _ _ L2f) as (p & Hp & Np).
  assert (p = c :: r) by (apply (app_inv_tail (h :: t)); auto). subst p.
  rewrite (countSkippedLines_nobs (c :: r) (h :: t) Np). reflexivity.
Qed.

End Prim.
