(* C22 — the OKL rules of the property statement, written structurally on the kernel tree and
   independently of the checker: no statement numbering, no path lists, no reverse/startsWith
   filter, no upward walks.  Each rule exists as an executable function (the oracle of the
   differential run) and as a proposition (Properties_C22.v states that they agree).

   Vocabulary shared with Model.v: only the tree types (kind, stmt, kernel, header). *)
From Coq Require Import List Bool Arith ZArith.
From OV.C22 Require Import Model.
Import ListNotations.

(* ------------------------------------------------------------------ loop headers *)

(* for (T it = init; it <cmp> bound | bound <cmp> it; ++it | it++ | --it | it-- | it += s | it -= s):
   one declarator of integer type with an initial value; a comparison <, <=, >, >= with the iterator
   on one side; an update of the iterator itself whose constant step, if any, is positive; and, when
   init, bound and step are all constants, at least one iteration. *)
Definition span (h : header) (a b : Z) : Z :=
  ((if positive_update h then b - a else a - b) + (if inclusive h then 1 else 0))%Z.

Definition header_ok (h : header) : bool :=
  match h_init h, h_check h, h_update h with
  | IDecl 0 true TyInt a, CBin op it b, u =>
    cmp_ok op
    && match it with SNone => false | _ => true end
    && match u with
       | UUnary _ UInc true => true
       | UUnary _ UDec true => true
       | UBin BAddEq SLeft st | UBin BSubEq SLeft st =>
         match st with Some s => Z.ltb 0 s | None => true end
       | _ => false
       end
    && match a, b, u with
       | Some a, Some b, UBin _ _ None => true
       | Some a, Some b, _ => Z.ltb 0 (span h a b)
       | _, _, _ => true
       end
  | _, _, _ => false
  end.

(* ------------------------------------------------------------------ the OKL loop forest *)

Inductive lattr := LO | LI.

(* a loop carrying @outer counts as an outer loop (a loop with both attributes is ruled out below) *)
Definition okl_attr (k : kind) : option lattr :=
  match k with
  | KFor true _ _ => Some LO
  | KFor false true _ => Some LI
  | _ => None
  end.

(* the maximal OKL loop paths below (and including) a statement, as attribute sequences *)
Fixpoint sigs (s : stmt) : list (list lattr) :=
  match s with
  | Node k kids =>
    let sub := flat_map sigs kids in
    match okl_attr k with
    | Some a => match sub with [] => [[a]] | _ => map (cons a) sub end
    | None => sub
    end
  end.

(* the OKL loops that are not inside another OKL loop *)
Fixpoint tops (s : stmt) : list stmt :=
  match s with
  | Node k kids =>
    match okl_attr k with
    | Some _ => [s]
    | None => flat_map tops kids
    end
  end.

Definition lattr_eqb (x y : lattr) : bool :=
  match x, y with LO, LO => true | LI, LI => true | _, _ => false end.

Fixpoint sig_eqb (x y : list lattr) : bool :=
  match x, y with
  | [], [] => true
  | a :: x', b :: y' => lattr_eqb a b && sig_eqb x' y'
  | _, _ => false
  end.

Fixpoint lead_o (sg : list lattr) : nat * list lattr :=
  match sg with
  | LO :: tl => let (a, r) := lead_o tl in (S a, r)
  | _ => (0, sg)
  end.

(* outer^a inner^b with a, b >= 1 *)
Definition shape_ok (sg : list lattr) : bool :=
  let (a, r) := lead_o sg in
  Nat.ltb 0 a && Nat.ltb 0 (length r) && forallb (lattr_eqb LI) r.

Definition top_ok (t : stmt) : bool :=
  match sigs t with
  | [] => false
  | s0 :: rest => shape_ok s0 && forallb (fun s => sig_eqb s s0) rest
  end.

Definition nesting_ok (body : list stmt) : bool := forallb top_ok (flat_map tops body).

(* at most 3 @outer and 3 @inner loops on every maximal OKL loop path (the launch grid has 3 dimensions) *)
Fixpoint count_attr (a : lattr) (sg : list lattr) : nat :=
  match sg with
  | [] => 0
  | b :: tl => (if lattr_eqb a b then 1 else 0) + count_attr a tl
  end.

Definition depth_sig_ok (sg : list lattr) : bool :=
  Nat.leb (count_attr LO sg) 3 && Nat.leb (count_attr LI sg) 3.

Definition depth_rule (body : list stmt) : bool := forallb depth_sig_ok (flat_map sigs body).

Fixpoint has_attr (a : lattr) (s : stmt) : bool :=
  match s with
  | Node k kids =>
    match okl_attr k with
    | Some b => lattr_eqb a b
    | None => false
    end || existsb (has_attr a) kids
  end.

(* every OKL loop carries exactly one of @outer/@inner and has a valid header *)
Fixpoint loops_ok (s : stmt) : bool :=
  match s with
  | Node k kids =>
    match k with
    | KFor o i h => if o || i then negb (o && i) && header_ok h else true
    | _ => true
    end && forallb loops_ok kids
  end.

(* ------------------------------------------------------------------ @shared / @exclusive *)

(* inO / inI: inside some @outer / @inner loop *)
Fixpoint place_ok (inO inI : bool) (s : stmt) : bool :=
  match s with
  | Node k kids =>
    match k with
    | KDecl VShared dims =>
      (match dims with [] => false | _ => forallb (fun b => b) dims end) && inO && negb inI
    | KDecl VExclusive _ => inO && negb inI
    | KUse VShared | KUse VExclusive => inI
    | _ => true
    end
    && match k with
       | KFor o i _ => forallb (place_ok (inO || o) (inI || i)) kids
       | _ => forallb (place_ok inO inI) kids
       end
  end.

(* ------------------------------------------------------------------ break / continue *)

(* what a break / continue at this point would leave / restart *)
Inductive target := TNone | TRegular | TOkl.
Definition not_okl (t : target) : bool := match t with TOkl => false | _ => true end.

Fixpoint bc_ok (tb tc : target) (s : stmt) : bool :=
  match s with
  | Node k kids =>
    match k with
    | KBreak => not_okl tb && forallb (bc_ok tb tc) kids
    | KContinue => not_okl tc && forallb (bc_ok tb tc) kids
    | KFor o i _ =>
      let t := if o || i then TOkl else TRegular in forallb (bc_ok t t) kids
    | KWhile _ => forallb (bc_ok TRegular TRegular) kids
    | KSwitch => forallb (bc_ok TRegular tc) kids      (* a switch catches break, not continue *)
    | _ => forallb (bc_ok tb tc) kids
    end
  end.

(* ------------------------------------------------------------------ all rules *)

Definition rules_b (k : kernel) : bool :=
  match k_ret k with RVoid => true | _ => false end
  && existsb (has_attr LO) (k_body k)
  && existsb (has_attr LI) (k_body k)
  && forallb loops_ok (k_body k)
  && nesting_ok (k_body k)
  && depth_rule (k_body k)
  && forallb (place_ok false false) (k_body k)
  && forallb (bc_ok TNone TNone) (k_body k).

(* a translation unit: at least one kernel, all of them follow the rules *)
Definition rules_all_b (ks : list kernel) : bool :=
  match ks with [] => false | _ => forallb rules_b ks end.

(* ------------------------------------------------------------------ the same rules as propositions *)

Definition Shape (sg : list lattr) (a b : nat) : Prop :=
  1 <= a /\ 1 <= b /\ sg = repeat LO a ++ repeat LI b.

(* every maximal OKL loop path under one outermost OKL loop is outer^a inner^b, same a and b *)
Definition TopOK (t : stmt) : Prop :=
  exists a b, forall sg, In sg (sigs t) -> Shape sg a b.

Definition Rules (k : kernel) : Prop :=
  k_ret k = RVoid
  /\ (exists s, In s (k_body k) /\ has_attr LO s = true)
  /\ (exists s, In s (k_body k) /\ has_attr LI s = true)
  /\ (forall s, In s (k_body k) -> loops_ok s = true)
  /\ (forall t, In t (flat_map tops (k_body k)) -> TopOK t)
  /\ (forall sg, In sg (flat_map sigs (k_body k)) -> count_attr LO sg <= 3 /\ count_attr LI sg <= 3)
  /\ (forall s, In s (k_body k) -> place_ok false false s = true)
  /\ (forall s, In s (k_body k) -> bc_ok TNone TNone s = true).
