(* C22 proofs, part 3: the two upward walks (hasProperSharedOrExclusiveUsage and the break/continue
   walk of kernelHasValidLoopBreakAndContinue) against the flag-passing rules of Spec.v. *)
From Coq Require Import List Bool Arith ZArith Lia.
From OV.C22 Require Import Model Spec Statements ProofsBase.
Import ListNotations.

(* ------------------------------------------------------------------ @shared / @exclusive *)

Lemma existsb_rev : forall {A} (f : A -> bool) l, existsb f (rev l) = existsb f l.
Proof.
  intros A f l. induction l as [|a tl IH]; simpl; [reflexivity|].
  rewrite existsb_app, IH. simpl. rewrite orb_false_r. apply orb_comm.
Qed.

Lemma in_attr_snoc : forall f path e,
  in_attr f (rev (path ++ [e])) = in_attr f (rev path) || (is_for e && f e).
Proof.
  intros f path e. unfold in_attr. rewrite !existsb_rev, existsb_app. simpl.
  now rewrite orb_false_r.
Qed.

Definition flagO (path : list pel) : bool := in_attr has_outer (rev path).
Definition flagI (path : list pel) : bool := in_attr has_inner (rev path).

Lemma flags_snoc_for : forall path n o i h,
  flagO (path ++ [mkPel n (KFor o i h)]) = flagO path || o
  /\ flagI (path ++ [mkPel n (KFor o i h)]) = flagI path || i.
Proof. intros. unfold flagO, flagI. rewrite !in_attr_snoc. simpl. auto. Qed.

Lemma flags_snoc_other : forall path n k,
  (forall o i h, k <> KFor o i h) ->
  flagO (path ++ [mkPel n k]) = flagO path /\ flagI (path ++ [mkPel n k]) = flagI path.
Proof.
  intros path n k Hk. unfold flagO, flagI. rewrite !in_attr_snoc.
  assert (is_for (mkPel n k) = false) as ->.
  { unfold is_for. simpl. destruct k; try reflexivity. exfalso. eapply Hk. reflexivity. }
  simpl. now rewrite !orb_false_r.
Qed.

(* the check on one visited statement, in terms of the flags of its path *)
Definition here_ok (inO inI : bool) (k : kind) : bool :=
  match k with
  | KDecl VShared dims =>
    (match dims with [] => false | _ => forallb (fun b => b) dims end) && inO && negb inI
  | KDecl VExclusive _ => inO && negb inI
  | KUse VShared | KUse VExclusive => inI
  | _ => true
  end.

Lemma visit_shared_ok_here : forall n k path,
  visit_shared_ok (mkPel n k, path) = here_ok (flagO path) (flagI path) k.
Proof.
  intros n k path. unfold visit_shared_ok. simpl fst. simpl snd. simpl p_kind.
  destruct k as [ | o i h | | e | d | | | | | vk dims | vk | ]; try reflexivity.
  - (* KDecl *)
    destruct (flags_snoc_other path n (KDecl vk dims)) as [HO HI]; [discriminate|].
    unfold flagO, flagI in HO, HI.
    destruct vk; simpl; unfold usage_ok; rewrite ?HO, ?HI; fold (flagO path) (flagI path);
      unfold shared_array_ok;
      destruct (flagI path), (flagO path); simpl; rewrite ?andb_true_r, ?andb_false_r; reflexivity.
  - (* KUse *)
    destruct (flags_snoc_other path n (KUse vk)) as [HO HI]; [discriminate|].
    unfold flagO, flagI in HO, HI.
    destruct vk; simpl; unfold usage_ok; rewrite ?HO, ?HI; fold (flagO path) (flagI path);
      destruct (flagI path); reflexivity.
Qed.

Lemma place_ok_eq : forall inO inI k kids,
  place_ok inO inI (Node k kids)
  = here_ok inO inI k
    && match k with
       | KFor o i _ => forallb (place_ok (inO || o) (inI || i)) kids
       | _ => forallb (place_ok inO inI) kids
       end.
Proof.
  intros. reflexivity.
Qed.

Lemma shared_iter : forall s n path,
  forallb visit_shared_ok (iter n path s) = place_ok (flagO path) (flagI path) s.
Proof.
  induction s as [k kids IH] using stmt_ind'. intros n path.
  rewrite iter_eq, place_ok_eq. simpl forallb. rewrite visit_shared_ok_here. f_equal.
  assert (Hl : forall m p,
             forallb visit_shared_ok (iter_list m p kids)
             = forallb (place_ok (flagO p) (flagI p)) kids).
  { clear n path. induction IH as [|c tl Hc _ IHl]; intros m p; [reflexivity|].
    rewrite iter_list_cons, forallb_app, Hc, IHl. reflexivity. }
  rewrite Hl.
  destruct k as [ | o i h | | e | d | | | | | vk dims | vk | ].
  2: { destruct (flags_snoc_for path n o i h) as [-> ->]. reflexivity. }
  all: match goal with
       | |- context [?p ++ [mkPel ?m ?k]] =>
         destruct (flags_snoc_other p m k) as [-> ->]; [discriminate | reflexivity]
       end.
Qed.

Lemma shared_iter_list : forall l n path,
  forallb visit_shared_ok (iter_list n path l)
  = forallb (place_ok (flagO path) (flagI path)) l.
Proof.
  induction l as [|c tl IH]; intros n path; [reflexivity|].
  rewrite iter_list_cons, forallb_app, shared_iter, IH. reflexivity.
Qed.

Lemma shared_valid_spec : forall k,
  shared_valid (visits k) = forallb (place_ok false false) (k_body k).
Proof.
  intros k. unfold shared_valid, visits. simpl forallb.
  rewrite shared_iter_list. reflexivity.
Qed.

(* ------------------------------------------------------------------ break / continue *)

(* what the walk finds first: the statement a break (is_break) / continue would act on *)
Fixpoint tgt (is_break : bool) (chain : list pel) : target :=
  match chain with
  | [] => TNone
  | p :: up =>
    match p_kind p with
    | KWhile _ => TRegular
    | KSwitch => if is_break then TRegular else tgt is_break up
    | KFor o i _ => if o || i then TOkl else TRegular
    | _ => tgt is_break up
    end
  end.

Lemma bc_walk_tgt : forall b chain,
  bc_walk fixed b chain = negb (not_okl (tgt b chain)).
Proof.
  intros b chain. induction chain as [|p up IH]; [reflexivity|].
  simpl. destruct (p_kind p); try exact IH; try reflexivity.
  - destruct o, i; reflexivity.
  - simpl. destruct b; [reflexivity|exact IH].
Qed.

Definition visit_bc_fine (x : visit) : bool := negb (visit_bc_error fixed x).

Lemma bc_valid_forallb : forall vs, bc_valid fixed vs = forallb visit_bc_fine vs.
Proof.
  intros vs. unfold bc_valid. induction vs as [|x tl IH]; [reflexivity|].
  simpl. unfold visit_bc_fine at 1. destruct (visit_bc_error fixed x); simpl; [reflexivity|exact IH].
Qed.

Definition tB (path : list pel) : target := tgt true (rev path).
Definition tC (path : list pel) : target := tgt false (rev path).

Lemma tgt_snoc : forall b path e, tgt b (rev (path ++ [e])) = tgt b (e :: rev path).
Proof. intros. now rewrite rev_app_distr. Qed.

Lemma bc_iter : forall s n path,
  forallb visit_bc_fine (iter n path s) = bc_ok (tB path) (tC path) s.
Proof.
  induction s as [k kids IH] using stmt_ind'. intros n path.
  rewrite iter_eq. simpl forallb.
  assert (Hl : forall m p,
             forallb visit_bc_fine (iter_list m p kids)
             = forallb (bc_ok (tB p) (tC p)) kids).
  { clear n path. induction IH as [|c tl Hc _ IHl]; intros m p; [reflexivity|].
    rewrite iter_list_cons, forallb_app, Hc, IHl. reflexivity. }
  rewrite Hl. unfold tB, tC. rewrite !tgt_snoc.
  unfold visit_bc_fine, visit_bc_error. simpl fst. simpl snd. simpl p_kind.
  destruct k as [ | o i h | | e | d | | | | | vk dims | vk | ]; simpl; try reflexivity.
  - (* KBreak *) rewrite bc_walk_tgt, negb_involutive. reflexivity.
  - (* KContinue *) rewrite bc_walk_tgt, negb_involutive. reflexivity.
Qed.

Lemma bc_iter_list : forall l n path,
  forallb visit_bc_fine (iter_list n path l) = forallb (bc_ok (tB path) (tC path)) l.
Proof.
  induction l as [|c tl IH]; intros n path; [reflexivity|].
  rewrite iter_list_cons, forallb_app, bc_iter, IH. reflexivity.
Qed.

Lemma bc_valid_spec : forall k,
  bc_valid fixed (visits k) = forallb (bc_ok TNone TNone) (k_body k).
Proof.
  intros k. rewrite bc_valid_forallb. unfold visits. simpl forallb.
  rewrite bc_iter_list. reflexivity.
Qed.
