(* C22 proofs, part 7: any variant of the checker (in particular the pinned source) agrees with the
   repaired one on kernels that stay away from the five defects. *)
From Coq Require Import List Bool Arith ZArith Lia.
From OV.C22 Require Import Model Spec Statements ProofsBase ProofsWalks ProofsNest Proofs.
Import ListNotations.

(* ------------------------------------------------------------------ headers *)

Lemma hdr_valid_clean : forall v o i h,
  clean_header o i h = true -> hdr_valid v o i h = hdr_valid fixed o i h.
Proof.
  intros v o i h Hc. unfold clean_header in Hc. apply andb_prop in Hc. destruct Hc as [H1 H2].
  unfold hdr_valid. apply negb_true_iff in H1. rewrite H1. simpl andb. cbn iota.
  assert (E : valid_update v h = valid_update fixed h).
  { unfold valid_update, step_ok. destruct (h_update h) as [| |l uo isit|bo sd st]; try reflexivity.
    destruct bo; try reflexivity; destruct sd; try discriminate; try reflexivity;
      destruct st as [s|]; simpl in *; rewrite ?H2, ?orb_true_r; reflexivity. }
  now rewrite E.
Qed.

Lemma pel_valid_clean : forall v e,
  is_okl e = true -> clean_kind (p_kind e) = true -> pel_valid v e = pel_valid fixed e.
Proof.
  intros v [n k] Hok Hc. unfold pel_valid. cbn [p_kind] in *. destruct k; try reflexivity.
  unfold is_okl, has_outer, has_inner in Hok. cbn [p_kind] in Hok.
  unfold clean_kind in Hc. rewrite Hok in Hc. now apply hdr_valid_clean.
Qed.

Lemma all_valid_clean : forall v l,
  (forall e, In e l -> is_okl e = true /\ clean_kind (p_kind e) = true) ->
  all_valid v l = all_valid fixed l.
Proof.
  induction l as [|e l IH]; intros H; [reflexivity|].
  simpl. destruct (H e (or_introl eq_refl)) as [H1 H2]. rewrite (pel_valid_clean v e H1 H2).
  rewrite IH; [reflexivity|]. intros x Hx. apply H. now right.
Qed.

Lemma loops_in_visits : forall vs e,
  In e (outerLoops vs) \/ In e (innerLoops vs) ->
  is_okl e = true /\ In (p_kind e) (map kof vs).
Proof.
  intros vs e H.
  assert (He : In e (map fst (okl_visits vs))).
  { destruct H as [H|H]; unfold outerLoops, innerLoops in H; apply filter_In in H; tauto. }
  apply in_map_iff in He. destruct He as (x & <- & Hx). unfold okl_visits in Hx.
  apply filter_In in Hx. destruct Hx as [Hx Hok]. split; [assumption|].
  apply in_map_iff. exists x. auto.
Qed.

(* ------------------------------------------------------------------ break / continue *)

(* does the upward walk meet a switch before any loop? *)
Fixpoint sw_first (chain : list pel) : bool :=
  match chain with
  | [] => false
  | p :: up =>
    match p_kind p with
    | KSwitch => true
    | KFor _ _ _ | KWhile _ => false
    | _ => sw_first up
    end
  end.

Lemma bc_walk_break : forall v chain, bc_walk v true chain = bc_walk fixed true chain.
Proof.
  intros v chain. induction chain as [|p up IH]; [reflexivity|].
  simpl. destruct (p_kind p); try exact IH; try reflexivity.
  now rewrite !orb_true_r.
Qed.

(* the variants only differ when the walk meets a switch first and an OKL loop behind it *)
Lemma bc_walk_continue : forall v chain,
  sw_first chain && bc_walk fixed false chain = false ->
  bc_walk v false chain = bc_walk fixed false chain.
Proof.
  intros v chain. induction chain as [|p up IH]; intros H; [reflexivity|].
  simpl in H. simpl. destruct (p_kind p); try (apply IH; assumption); try reflexivity.
  (* KSwitch *)
  simpl in H. rewrite orb_false_r.
  assert (E : bc_walk v false up = false).
  { rewrite IH; [assumption|]. rewrite H. apply andb_false_r. }
  rewrite E, H. destruct (v_switch_shields_continue v); reflexivity.
Qed.

Definition swf (path : list pel) : bool := sw_first (rev path).
Definition tok (path : list pel) : bool := bc_walk fixed false (rev path).

Lemma state_snoc : forall path n k,
  (swf (path ++ [mkPel n k]), tok (path ++ [mkPel n k]))
  = match k with
    | KSwitch => (true, tok path)
    | KFor o i _ => (false, o || i)
    | KWhile _ => (false, false)
    | _ => (swf path, tok path)
    end.
Proof.
  intros. unfold swf, tok. rewrite rev_app_distr. simpl.
  destruct k; try reflexivity. destruct o, i; reflexivity.
Qed.

Lemma continue_paths : forall s n path,
  no_continue_through_switch (swf path) (tok path) s = true ->
  forall x, In x (iter n path s) -> kof x = KContinue -> swf (snd x) && tok (snd x) = false.
Proof.
  induction s as [k kids IH] using stmt_ind'. intros n path Hn x Hx Hk.
  rewrite iter_eq in Hx. simpl in Hn. apply andb_prop in Hn. destruct Hn as [Hn1 Hn2].
  destruct Hx as [<-|Hx].
  - unfold kof in Hk. simpl in Hk. subst k. simpl. now apply negb_true_iff in Hn1.
  - assert (Hn3 : forallb (no_continue_through_switch (swf (path ++ [mkPel n k]))
                                                     (tok (path ++ [mkPel n k]))) kids = true).
    { pose proof (f_equal fst (state_snoc path n k)) as E1.
      pose proof (f_equal snd (state_snoc path n k)) as E2.
      cbn [fst snd] in E1, E2. rewrite E1, E2. destruct k; exact Hn2. }
    clear Hn1 Hn2. revert Hx Hn3.
    generalize (path ++ [mkPel n k]) (S n). intros pth m Hx Hn3. revert m Hx.
    induction IH as [|c tl Hc _ IHl]; intros m Hx; [destruct Hx|].
    simpl in Hn3. apply andb_prop in Hn3. destruct Hn3 as [Hc2 Htl2].
    rewrite iter_list_cons in Hx. apply in_app_or in Hx. destruct Hx as [Hx|Hx].
    + eapply Hc; eauto.
    + eapply IHl; eauto.
Qed.

Lemma continue_paths_list : forall l n path,
  forallb (no_continue_through_switch (swf path) (tok path)) l = true ->
  forall x, In x (iter_list n path l) -> kof x = KContinue -> swf (snd x) && tok (snd x) = false.
Proof.
  induction l as [|c tl IH]; intros n path Hn x Hx Hk; [destruct Hx|].
  simpl in Hn. apply andb_prop in Hn. destruct Hn as [H1 H2].
  rewrite iter_list_cons in Hx. apply in_app_or in Hx. destruct Hx as [Hx|Hx].
  - eapply continue_paths; eauto.
  - eapply IH; eauto.
Qed.

Lemma filter_ext_in' : forall {A} (f g : A -> bool) l,
  (forall x, In x l -> f x = g x) -> filter f l = filter g l.
Proof.
  intros A f g l H. induction l as [|a l IH]; [reflexivity|].
  simpl. rewrite H by (now left). rewrite IH; [reflexivity|]. intros x Hx. apply H. now right.
Qed.

Lemma bc_valid_clean : forall v k,
  forallb (no_continue_through_switch false false) (k_body k) = true ->
  bc_valid v (visits k) = bc_valid fixed (visits k).
Proof.
  intros v k Hn. unfold bc_valid.
  rewrite (filter_ext_in' (visit_bc_error v) (visit_bc_error fixed)); [reflexivity|].
  intros x Hx. unfold visit_bc_error.
  destruct (p_kind (fst x)) eqn:Hk; try reflexivity.
  - apply bc_walk_break.
  - apply bc_walk_continue.
    unfold visits in Hx. destruct Hx as [<-|Hx]; [reflexivity|].
    apply (continue_paths_list (k_body k) 1 [root] Hn x Hx Hk).
Qed.

(* ------------------------------------------------------------------ assembly *)

Lemma kernelIsValid_clean : forall v k, quirk_free k -> kernelIsValid v k = kernelIsValid fixed k.
Proof.
  intros v k (Hr & Hc & Hdp & Hn). unfold kernelIsValid.
  assert (E1 : ret_ok v (k_ret k) = ret_ok fixed (k_ret k)).
  { destruct (k_ret k); try reflexivity. congruence. }
  assert (Hin : forall e, In e (outerLoops (visits k)) \/ In e (innerLoops (visits k)) ->
                is_okl e = true /\ clean_kind (p_kind e) = true).
  { intros e He. destruct (loops_in_visits _ _ He) as [H1 H2]. split; [assumption|].
    rewrite kinds_visits in H2. destruct H2 as [<-|H2]; [reflexivity|].
    rewrite forallb_forall in Hc. now apply Hc. }
  assert (E2 : loops_valid v (visits k) = loops_valid fixed (visits k)).
  { unfold loops_valid.
    rewrite (all_valid_clean v (outerLoops (visits k))) by (intros; apply Hin; now left).
    rewrite (all_valid_clean v (innerLoops (visits k))) by (intros; apply Hin; now right).
    rewrite (count_loop_any_variant v k Hdp). reflexivity. }
  rewrite E1, E2, (bc_valid_clean v k Hn). reflexivity.
Qed.

Theorem checker_any_variant_partial : forall v k,
  quirk_free k -> (kernelIsValid v k = Some true <-> Rules k).
Proof.
  intros v k H. rewrite (kernelIsValid_clean v k H). apply checker_iff_rules.
Qed.
