(* C22 — small shared definitions used in the statements of Properties_C22.v. *)
From Coq Require Import List Bool Arith ZArith.
From OV.C22 Require Import Model Spec.
Import ListNotations.

(* the kinds of all statements of a subtree, in visiting order *)
Fixpoint kinds (s : stmt) : list kind :=
  match s with Node k kids => k :: flat_map kinds kids end.

(* The guard under which every variant of the checker (the pinned source in particular) decides the
   rules: what a kernel must avoid so as not to touch one of the five defects. *)
Definition clean_header (o i : bool) (h : header) : bool :=
  negb (o && i)                                             (* not both @outer and @inner *)
  && match h_update h with
     | UBin _ SRight _ => false                             (* not `n += it` *)
     | UBin _ _ (Some s) => Z.ltb 0 s                       (* no constant step <= 0 *)
     | _ => true
     end.

Definition clean_kind (k : kind) : bool :=
  match k with
  | KFor o i h => if o || i then clean_header o i h else true
  | _ => true
  end.

(* no continue that reaches an OKL loop through a switch.
   insw: a switch lies between here and the nearest enclosing loop; tokl: that loop is an OKL loop *)
Fixpoint no_continue_through_switch (insw tokl : bool) (s : stmt) : bool :=
  match s with
  | Node k kids =>
    match k with KContinue => negb (insw && tokl) | _ => true end
    && match k with
       | KSwitch => forallb (no_continue_through_switch true tokl) kids
       | KFor o i _ => forallb (no_continue_through_switch false (o || i)) kids
       | KWhile _ => forallb (no_continue_through_switch false false) kids
       | _ => forallb (no_continue_through_switch insw tokl) kids
       end
  end.

Definition quirk_free (k : kernel) : Prop :=
  k_ret k <> RVoidPtr                                       (* not `void *` *)
  /\ forallb clean_kind (flat_map kinds (k_body k)) = true
  /\ depth_rule (k_body k) = true                            (* at most 3 nested @outer / @inner *)
  /\ forallb (no_continue_through_switch false false) (k_body k) = true.
