(* C22 — the OKL rule checker, transcribed from
     src/occa/internal/lang/modes/okl.cpp            (kernelsAreValid ... kernelHasValidLoopBreakAndContinue)
     src/occa/internal/lang/modes/oklForStatement.cpp (constructor, hasValidInit/Check/Update, getIterationCount)
     src/occa/internal/lang/statement/statementArray.cpp (iterateStatement: the DFS with its path)
     src/occa/internal/lang/utils/array.tpp           (startsWith)
   over an abstract kernel tree.  Statement identity (the C++ pointer) is the DFS preorder number.
   No proofs here.

   `variant` holds the six places where the code pinned in /repo differs from the repaired code
   (fixes/C22-1 ... C22-5, C22-7); `pinned` is the source as found, `fixed` the source with the patches. *)
From Coq Require Import List Bool Arith ZArith.
Import ListNotations.

Record variant := mkVariant {
  (* okl.cpp kernelHasValidLoopBreakAndContinue: a switch between the statement and the OKL loop ends
     the walk for `continue` as well as for `break` *)
  v_switch_shields_continue : bool;
  (* oklForStatement constructor: "Cannot have @inner and @outer" is printed but `valid` ignores it *)
  v_both_attrs_accepted : bool;
  (* oklForStatement: a constant step <= 0 in `it += c` / `it -= c` is not looked at (0 then divides by
     zero when the iteration count is folded) *)
  v_nonpositive_step_unchecked : bool;
  (* kernelHasValidReturnType compares the base type only: `void *` passes *)
  v_void_ptr_ok : bool;
  (* hasValidUpdate: `n += it` (iterator on the right of += / -=) counts as an update of the iterator *)
  v_update_rhs_iterator_ok : bool;
  (* kernelHasValidOklLoops: no bound on the number of nested @outer / @inner loops (the launchers index
     int[3] arrays with the inner loop index) *)
  v_depth_unchecked : bool
}.

Definition pinned : variant := mkVariant true true true true true true.
Definition fixed : variant := mkVariant false false false false false false.

(* ------------------------------------------------------------------ kernel trees *)

Inductive rtype := RVoid | RVoidPtr | ROther.

(* for-loop header, as far as oklForStatement looks at it *)
Inductive ity := TyInt | TyBad.            (* char/short/int/long/size_t/ptrdiff_t  |  anything else *)
Inductive init_t :=
| INone                                    (* `;`  : emptyStatement *)
| IExpr                                    (* `n = 0` : not a declaration *)
| IDecl (extra : nat) (hasval : bool) (ty : ity) (v : option Z).
                                           (* `T it [= v] {, more}` : `extra` further declarators;
                                              v = Some c when the initial value folds to the constant c *)
Inductive cmp := CLt | CLe | CGt | CGe | COther.
Inductive side := SLeft | SRight | SNone.  (* which operand of a binary operator is the iterator *)
Inductive check_t :=
| CNone                                    (* `;` *)
| CNonBin                                  (* not a binary operator node *)
| CBin (op : cmp) (it : side) (bound : option Z).   (* the other operand, when constant *)
Inductive uop := UInc | UDec | UOtherUn.
Inductive bop := BAddEq | BSubEq | BOtherBin.
Inductive update_t :=
| UNone                                    (* empty *)
| UOtherExpr                               (* neither unary nor binary *)
| UUnary (left : bool) (op : uop) (isit : bool)
| UBin (op : bop) (it : side) (step : option Z).     (* the other operand, when constant *)
Record header := mkHeader { h_init : init_t; h_check : check_t; h_update : update_t }.

Inductive vkind := VShared | VExclusive | VPlain.

Inductive kind :=
| KFunc                                    (* the functionDeclStatement, root of every walk *)
| KFor (o i : bool) (h : header)           (* has @outer, has @inner *)
| KIf
| KElse (elif : bool)                      (* elifStatement / elseStatement: inner statements of the if *)
| KWhile (dowhile : bool)                  (* both are statementType::while_ *)
| KSwitch
| KBlock
| KBreak
| KContinue
| KDecl (k : vkind) (dims : list bool)     (* one declared variable; one bool per array extent:
                                              true = size present and canEvaluate() *)
| KUse (k : vkind)                         (* expression statement mentioning such a variable *)
| KOther.

(* kids are in the order iterateStatement visits them: getInnerStatements() (for an `if`: its
   elif/else statements) first, then blockStatement::children *)
Inductive stmt := Node (k : kind) (kids : list stmt).

Record kernel := mkKernel { k_ret : rtype; k_body : list stmt }.

(* ------------------------------------------------------------------ oklForStatement *)

Definition valid_init (h : header) : bool :=
  match h_init h with
  | INone => false
  | IExpr => false
  | IDecl extra hasval ty _ =>
    if Nat.ltb 0 extra then false            (* declarations.size() > 1 *)
    else if negb hasval then false           (* !decl.hasValue() *)
    else match ty with TyInt => true | TyBad => false end
  end.

Definition cmp_ok (c : cmp) : bool := match c with COther => false | _ => true end.

Definition valid_check (h : header) : bool :=
  match h_check h with
  | CNone => false
  | CNonBin => false
  | CBin op it _ =>
    if negb (cmp_ok op) then false
    else match it with SNone => false | _ => true end     (* usesIterator(...) != 0 *)
  end.

Definition step_ok (v : variant) (step : option Z) : bool :=
  v_nonpositive_step_unchecked v
  || match step with Some s => Z.ltb 0 s | None => true end.

Definition valid_update (v : variant) (h : header) : bool :=
  match h_update h with
  | UNone => false
  | UOtherExpr => false
  | UUnary _ op isit => match op with UOtherUn => false | _ => isit end
  | UBin op it step =>
    match op with
    | BOtherBin => false
    | _ =>
      match it with
      | SNone => false
      | SLeft => step_ok v step
      | SRight => v_update_rhs_iterator_ok v && step_ok v step
      end
    end
  end.

Definition positive_update (h : header) : bool :=
  match h_update h with
  | UUnary _ UInc _ => true
  | UBin BAddEq _ _ => true
  | _ => false
  end.

Definition inclusive (h : header) : bool :=
  match h_check h with CBin CLe _ _ => true | CBin CGe _ _ => true | _ => false end.

Definition init_val (h : header) : option Z :=
  match h_init h with IDecl _ _ _ v => v | _ => None end.
Definition bound_val (h : header) : option Z :=
  match h_check h with CBin _ _ b => b | _ => None end.

(* getIterationCount()->canEvaluate() / evaluate(), then `0 < loop_range`.
   None: the process dies (integer division by zero inside primitive::div). *)
Definition range_check (h : header) : option bool :=
  match init_val h, bound_val h with
  | Some a, Some b =>
    let base := if positive_update h then (b - a)%Z else (a - b)%Z in
    let c1 := if inclusive h then (1 + base)%Z else base in
    match h_update h with
    | UBin _ _ None => Some true                       (* step not constant: cannot evaluate *)
    | UBin _ _ (Some s) =>
      if Z.eqb s 0 then None
      else Some (Z.ltb 0 (Z.quot (c1 + s - 1) s))      (* ((count + step) - 1) / step, C division *)
    | _ => Some (Z.ltb 0 c1)
    end
  | _, _ => Some true
  end.

(* oklForStatement::isValid(forSmnt, attr) *)
Definition hdr_valid (v : variant) (o i : bool) (h : header) : option bool :=
  if o && i && negb (v_both_attrs_accepted v) then Some false
  else if negb (valid_init h && valid_check h && valid_update v h) then Some false
  else range_check h.

(* ------------------------------------------------------------------ iterateStatement *)

Record pel := mkPel { p_id : nat; p_kind : kind }.     (* a statement_t* *)

Fixpoint size (s : stmt) : nat :=
  match s with
  | Node _ kids =>
    S ((fix go (l : list stmt) : nat :=
          match l with [] => 0 | c :: tl => size c + go tl end) kids)
  end.

Definition visit := (pel * list pel)%type.          (* (smnt, path) as handed to the callbacks *)

Fixpoint iter (n : nat) (path : list pel) (s : stmt) {struct s} : list visit :=
  match s with
  | Node k kids =>
    let me := mkPel n k in
    (me, path) ::
    (fix go (m : nat) (l : list stmt) {struct l} : list visit :=
       match l with
       | [] => []
       | c :: tl => iter m (path ++ [me]) c ++ go (m + size c) tl
       end) (S n) kids
  end.

Fixpoint iter_list (n : nat) (path : list pel) (l : list stmt) : list visit :=
  match l with
  | [] => []
  | c :: tl => iter n path c ++ iter_list (n + size c) path tl
  end.

Definition root : pel := mkPel 0 KFunc.

(* statementArray::from(kernelSmnt).nestedForEach(...) *)
Definition visits (k : kernel) : list visit :=
  (root, []) :: iter_list 1 [root] (k_body k).

(* ------------------------------------------------------------------ kernelHasValidOklLoops *)

Definition is_for (e : pel) : bool := match p_kind e with KFor _ _ _ => true | _ => false end.
Definition has_outer (e : pel) : bool := match p_kind e with KFor o _ _ => o | _ => false end.
Definition has_inner (e : pel) : bool := match p_kind e with KFor _ i _ => i | _ => false end.
Definition is_okl (e : pel) : bool := has_outer e || has_inner e.       (* isOklForLoop *)

Definition okl_visits (vs : list visit) : list visit := filter (fun x => is_okl (fst x)) vs.
Definition loop_path (x : visit) : list pel := filter is_okl (snd x) ++ [fst x].
Definition loopPaths (vs : list visit) : list (list pel) := map loop_path (okl_visits vs).
(* attr == "outer" exactly when the loop has @outer (isOklForLoop tests it first) *)
Definition outerLoops (vs : list visit) : list pel := filter has_outer (map fst (okl_visits vs)).
Definition innerLoops (vs : list visit) : list pel :=
  filter (fun e => negb (has_outer e)) (map fst (okl_visits vs)).

Definition pel_valid (v : variant) (e : pel) : option bool :=
  match p_kind e with
  | KFor o i h => hdr_valid v o i h
  | _ => Some true
  end.

(* for (smnt : loops) if (!isValid(smnt)) return false; *)
Fixpoint all_valid (v : variant) (l : list pel) : option bool :=
  match l with
  | [] => Some true
  | e :: tl =>
    match pel_valid v e with
    | None => None
    | Some false => Some false
    | Some true => all_valid v tl
    end
  end.

(* array::startsWith: `other` is a prefix of `l`, elements compared as pointers *)
Fixpoint starts_with (l other : list pel) : bool :=
  match other with
  | [] => true
  | y :: ys =>
    match l with
    | [] => false
    | x :: xs => Nat.eqb (p_id x) (p_id y) && starts_with xs ys
    end
  end.

(* loopPaths.reverse().filter(path => { isInnerMost = !nextLoopPath.startsWith(path);
                                        nextLoopPath = path; return isInnerMost; }) *)
Fixpoint inner_most (l : list (list pel)) (next : list pel) : list (list pel) :=
  match l with
  | [] => []
  | p :: tl => (if negb (starts_with next p) then [p] else []) ++ inner_most tl p
  end.

Definition innerMostPaths (vs : list visit) : list (list pel) :=
  inner_most (rev (loopPaths vs)) [].

(* pathHasValidOklLoopOrdering: Some (innerLoopCount, outerLoopCount) or failure *)
Fixpoint ordering (p : list pel) (ic oc : nat) : option (nat * nat) :=
  match p with
  | [] => Some (ic, oc)
  | e :: tl =>
    if has_outer e then
      (if Nat.ltb 0 ic then None else ordering tl ic (S oc))
    else if has_inner e then
      (if Nat.eqb oc 0 then None else ordering tl (S ic) oc)
    else ordering tl ic oc
  end.

Definition path_ordering (p : list pel) : option (nat * nat) :=
  match ordering p 0 0 with
  | None => None
  | Some (ic, oc) =>
    if Nat.eqb ic 0 then (if existsb has_outer p then None else Some (ic, oc))
    else Some (ic, oc)
  end.

Definition head_id (p : list pel) : nat := match p with [] => 0 | e :: _ => p_id e end.

(* (repaired source) at most 3 nested @outer and 3 nested @inner loops *)
Definition depth_ok (v : variant) (ic oc : nat) : bool :=
  v_depth_unchecked v || (Nat.leb ic 3 && Nat.leb oc 3).

(* the loop over innerMostPaths with currentOuterMostOuterLoop / currentInnerLoopCount /
   currentOuterLoopCount *)
Fixpoint count_loop (v : variant) (ps : list (list pel)) (cur : option nat) (ci co : nat) : bool :=
  match ps with
  | [] => true
  | p :: tl =>
    match path_ordering p with
    | None => false
    | Some (ic, oc) =>
      if negb (depth_ok v ic oc) then false
      else
      let same := match cur with Some c => Nat.eqb c (head_id p) | None => false end in
      if negb same then count_loop v tl (Some (head_id p)) ic oc
      else if negb (Nat.eqb ci ic) then false
      else if negb (Nat.eqb co oc) then false
      else count_loop v tl cur ci co
    end
  end.

Definition loops_valid (v : variant) (vs : list visit) : option bool :=
  match outerLoops vs with
  | [] => Some false
  | _ :: _ =>
    match innerLoops vs with
    | [] => Some false
    | _ :: _ =>
      match all_valid v (outerLoops vs) with
      | None => None
      | Some false => Some false
      | Some true =>
        match all_valid v (innerLoops vs) with
        | None => None
        | Some false => Some false
        | Some true => Some (count_loop v (innerMostPaths vs) None 0 0)
        end
      end
    end
  end.

(* ------------------------------------------------------------------ @shared / @exclusive *)

(* the walk `pathSmnt = smnt; while (pathSmnt) { ...; pathSmnt = pathSmnt->up; }` *)
Definition in_attr (f : pel -> bool) (chain : list pel) : bool :=
  existsb (fun e => is_for e && f e) chain.

Definition usage_ok (declared : bool) (chain : list pel) : bool :=
  let inInner := in_attr has_inner chain in
  let inOuter := in_attr has_outer chain in
  if declared then
    (if inInner then false else if negb inOuter then false else true)
  else
    (if negb inInner then false else true).

(* hasProperSharedArrayDeclaration *)
Definition shared_array_ok (dims : list bool) : bool :=
  match dims with
  | [] => false
  | _ => forallb (fun b => b) dims
  end.

Definition visit_shared_ok (x : visit) : bool :=
  let chain := rev (snd x ++ [fst x]) in
  match p_kind (fst x) with
  | KDecl VPlain _ => true
  | KDecl VShared dims => shared_array_ok dims && usage_ok true chain
  | KDecl VExclusive _ => usage_ok true chain
  | KUse VPlain => true
  | KUse _ => usage_ok false chain
  | _ => true
  end.

Definition shared_valid (vs : list visit) : bool := forallb visit_shared_ok vs.

(* ------------------------------------------------------------------ break / continue *)

(* the walk `parentSmnt = smnt->up; while (parentSmnt) ...`; true = the statement is an error *)
Fixpoint bc_walk (v : variant) (is_break : bool) (chain : list pel) : bool :=
  match chain with
  | [] => false
  | p :: up =>
    match p_kind p with
    | KWhile _ => false
    | KSwitch => if v_switch_shields_continue v || is_break then false else bc_walk v is_break up
    | KFor o i _ => if i then true else if o then true else false
    | _ => bc_walk v is_break up
    end
  end.

Definition visit_bc_error (v : variant) (x : visit) : bool :=
  match p_kind (fst x) with
  | KBreak => bc_walk v true (rev (snd x))
  | KContinue => bc_walk v false (rev (snd x))
  | _ => false
  end.

Definition bc_valid (v : variant) (vs : list visit) : bool :=
  match filter (visit_bc_error v) vs with [] => true | _ => false end.

(* ------------------------------------------------------------------ kernelIsValid *)

Definition ret_ok (v : variant) (r : rtype) : bool :=
  match r with RVoid => true | RVoidPtr => v_void_ptr_ok v | ROther => false end.

(* Some true: accepted; Some false: rejected with an error; None: the translator dies *)
Definition kernelIsValid (v : variant) (k : kernel) : option bool :=
  if negb (ret_ok v (k_ret k)) then Some false
  else
    let vs := visits k in
    match loops_valid v vs with
    | None => None
    | Some false => Some false
    | Some true => Some (shared_valid vs && bc_valid v vs)
    end.

(* kernelsAreValid: every kernel is checked (filter does not stop at the first failure) *)
Fixpoint all_kernels (v : variant) (ks : list kernel) : option bool :=
  match ks with
  | [] => Some true
  | k :: tl =>
    match kernelIsValid v k with
    | None => None
    | Some b =>
      match all_kernels v tl with
      | None => None
      | Some b' => Some (b && b')
      end
    end
  end.

Definition kernelsAreValid (v : variant) (ks : list kernel) : option bool :=
  match ks with
  | [] => Some false                         (* "No [@kernel] functions found" *)
  | _ => all_kernels v ks
  end.
