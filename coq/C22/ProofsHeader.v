(* C22 proofs, part 2: oklForStatement (repaired source) decides exactly the header rule. *)
From Coq Require Import List Bool Arith ZArith Lia.
From OV.C22 Require Import Model Spec.
Import ListNotations.
Local Open Scope Z_scope.

(* ((count + step) - 1) / step > 0  <->  count > 0, for a positive step (C division) *)
Lemma quot_ceil_pos : forall c s, 0 < s -> (0 <? Z.quot (c + s - 1) s) = (0 <? c).
Proof.
  intros c s Hs.
  destruct (Z_lt_le_dec 0 c) as [Hc|Hc].
  - (* c >= 1: numerator >= s *)
    replace (0 <? c) with true by (symmetry; apply Z.ltb_lt; lia).
    apply Z.ltb_lt.
    rewrite Z.quot_div_nonneg by lia.
    assert (1 <= (c + s - 1) / s); [|lia].
    apply Z.div_le_lower_bound; lia.
  - replace (0 <? c) with false by (symmetry; apply Z.ltb_ge; lia).
    apply Z.ltb_ge.
    destruct (Z_lt_le_dec (c + s - 1) 0) as [Hn|Hn].
    + (* negative numerator: quotient <= 0 *)
      replace (c + s - 1) with (- (1 - c - s)) by lia.
      rewrite Z.quot_opp_l by lia.
      assert (0 <= Z.quot (1 - c - s) s); [|lia].
      apply Z.quot_pos; lia.
    + rewrite Z.quot_small; lia.
Qed.

Local Arguments Z.add : simpl never.
Local Arguments Z.sub : simpl never.
Local Arguments Z.quot : simpl never.
Local Arguments Z.ltb : simpl never.
Local Arguments Z.eqb : simpl never.

Ltac zfin :=
  try reflexivity;
  match goal with
  | |- Some (0 <? ?x) = Some (0 <? ?y) =>
    apply (f_equal (@Some bool)); apply (f_equal (Z.ltb 0)); lia
  end.

Lemma hdr_valid_fixed : forall o i h,
  hdr_valid fixed o i h = Some (negb (o && i) && header_ok h).
Proof.
  intros o i [ini chk upd].
  unfold hdr_valid. simpl v_both_attrs_accepted.
  destruct (o && i) eqn:Hoi; simpl negb; [reflexivity|].
  simpl andb.
  unfold valid_init, valid_check, valid_update, header_ok, range_check, step_ok,
    init_val, bound_val, span, positive_update, inclusive; simpl.
  destruct ini as [| |extra hv ty a]; try reflexivity.
  destruct extra as [|extra]; simpl; [|destruct chk; reflexivity].
  destruct hv; simpl; [|destruct chk; reflexivity].
  destruct ty; simpl; [|destruct chk; reflexivity].
  destruct chk as [| |op it b]; try reflexivity.
  destruct op; simpl; try reflexivity;
  (destruct it; simpl; try reflexivity;
   (destruct upd as [| |l uo isit|bo sd st]; simpl; try reflexivity;
    [ destruct uo, isit; simpl; try reflexivity;
      destruct a as [a|], b as [b|]; simpl; zfin
    | destruct bo, sd; simpl; try reflexivity;
      (destruct st as [s|]; simpl;
       [ destruct (0 <? s) eqn:Hs; simpl;
         [ apply Z.ltb_lt in Hs;
           destruct a as [a|], b as [b|]; simpl; try reflexivity;
           replace (s =? 0) with false by (symmetry; apply Z.eqb_neq; lia);
           rewrite quot_ceil_pos by lia; zfin
         | reflexivity ]
       | destruct a as [a|], b as [b|]; reflexivity ]) ])).
Qed.

(* in particular the repaired checker never dies on a header *)
Lemma hdr_valid_fixed_total : forall o i h, hdr_valid fixed o i h <> None.
Proof. intros. rewrite hdr_valid_fixed. discriminate. Qed.
