(* Extraction of the executable checker model and of the rule oracle (ExtrOcamlBasic only; Z and
   nat stay the extracted inductives).  coqc is run from /verif/coq by the Makefile, so the path
   is relative to that directory. *)
From Coq Require Import Extraction ExtrOcamlBasic.
From OV.C22 Require Import Model Spec.
Extraction Language OCaml.
Extraction "../_work/extract/C22/model.ml"
  pinned fixed mkVariant kernelsAreValid kernelIsValid rules_all_b rules_b.
