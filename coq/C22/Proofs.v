(* C22 proofs, part 6: assembly.  kernelIsValid (repaired source) = the rules; the rules as
   propositions; the pinned source agrees on kernels that avoid its five defects. *)
From Coq Require Import List Bool Arith ZArith Lia.
From OV.C22 Require Import Model Spec Statements ProofsBase ProofsHeader ProofsWalks ProofsPaths ProofsNest.
Import ListNotations.

(* ------------------------------------------------------------------ existence of loops, headers *)

Definition kof (x : visit) : kind := p_kind (fst x).

Lemma outerLoops_exists : forall vs,
  (match outerLoops vs with [] => false | _ => true end)
  = existsb (fun x => kind_is LO (kof x)) vs.
Proof.
  induction vs as [|[[n k] path] vs IH]; [reflexivity|].
  unfold outerLoops, okl_visits in *. simpl filter. unfold kof at 1. simpl fst. simpl p_kind.
  destruct k as [ | [] [] h | | | | | | | | | | ]; simpl; try exact IH; reflexivity.
Qed.

Lemma innerLoops_exists : forall vs,
  (match innerLoops vs with [] => false | _ => true end)
  = existsb (fun x => kind_is LI (kof x)) vs.
Proof.
  induction vs as [|[[n k] path] vs IH]; [reflexivity|].
  unfold innerLoops, okl_visits in *. simpl filter. unfold kof at 1. simpl fst. simpl p_kind.
  destruct k as [ | [] [] h | | | | | | | | | | ]; simpl; try exact IH; reflexivity.
Qed.

Definition pel_ok (e : pel) : bool :=
  match p_kind e with KFor o i h => negb (o && i) && header_ok h | _ => true end.

Lemma pel_valid_fixed : forall e, pel_valid fixed e = Some (pel_ok e).
Proof.
  intros [n k]. unfold pel_valid, pel_ok. simpl. destruct k; try reflexivity. apply hdr_valid_fixed.
Qed.

Lemma all_valid_fixed : forall l, all_valid fixed l = Some (forallb pel_ok l).
Proof.
  induction l as [|e l IH]; [reflexivity|].
  simpl. rewrite pel_valid_fixed. destruct (pel_ok e); [exact IH|reflexivity].
Qed.

Lemma forallb_partition : forall {A} (f g : A -> bool) l,
  forallb f (filter g l) && forallb f (filter (fun x => negb (g x)) l) = forallb f l.
Proof.
  intros A f g l. induction l as [|a l IH]; [reflexivity|].
  simpl. destruct (g a); simpl; rewrite <- IH.
  - now rewrite andb_assoc.
  - rewrite !andb_assoc. f_equal. apply andb_comm.
Qed.

Lemma headers_forallb : forall vs,
  forallb pel_ok (outerLoops vs) && forallb pel_ok (innerLoops vs)
  = forallb (fun x => loop_kind_ok (kof x)) vs.
Proof.
  intros vs. unfold outerLoops, innerLoops. rewrite forallb_partition.
  unfold okl_visits. induction vs as [|[[n k] path] vs IH]; [reflexivity|].
  simpl filter. simpl forallb. unfold kof at 1. simpl fst. simpl p_kind. rewrite <- IH.
  destruct k as [ | [] [] h | | | | | | | | | | ]; reflexivity.
Qed.

Lemma kinds_visits : forall k, map kof (visits k) = KFunc :: flat_map kinds (k_body k).
Proof.
  intros k. unfold visits. simpl. f_equal. apply kinds_iter_list.
Qed.

Lemma exists_attr_visits : forall a k,
  existsb (fun x => kind_is a (kof x)) (visits k) = existsb (has_attr a) (k_body k).
Proof.
  intros a k. rewrite <- (existsb_map kof (kind_is a)), kinds_visits. simpl.
  rewrite existsb_flat_map. apply existsb_ext_in. intros s _. symmetry. apply has_attr_kinds.
Qed.

Lemma headers_visits : forall k,
  forallb (fun x => loop_kind_ok (kof x)) (visits k) = forallb loops_ok (k_body k).
Proof.
  intros k. rewrite <- (forallb_map kof loop_kind_ok), kinds_visits. simpl.
  rewrite forallb_flat_map. apply forallb_ext_in. intros s _. symmetry. apply loops_ok_kinds.
Qed.

(* ------------------------------------------------------------------ the main equation *)

Lemma loops_valid_fixed : forall k,
  loops_valid fixed (visits k)
  = Some (existsb (has_attr LO) (k_body k) && existsb (has_attr LI) (k_body k)
          && forallb loops_ok (k_body k) && (nesting_ok (k_body k) && depth_rule (k_body k))).
Proof.
  intros k. unfold loops_valid.
  pose proof (outerLoops_exists (visits k)) as HO. rewrite exists_attr_visits in HO.
  pose proof (innerLoops_exists (visits k)) as HI. rewrite exists_attr_visits in HI.
  pose proof (headers_forallb (visits k)) as HH. rewrite headers_visits in HH.
  rewrite !all_valid_fixed, count_loop_nesting.
  rewrite <- HO, <- HI, <- HH. clear HO HI HH.
  generalize (outerLoops (visits k)) (innerLoops (visits k)). intros O I.
  destruct O as [|o1 orest]; [reflexivity|].
  destruct I as [|i1 irest]; [reflexivity|].
  destruct (forallb pel_ok (o1 :: orest)); [|reflexivity].
  destruct (forallb pel_ok (i1 :: irest)); reflexivity.
Qed.

Lemma kernelIsValid_fixed : forall k, kernelIsValid fixed k = Some (rules_b k).
Proof.
  intros k. unfold kernelIsValid, rules_b.
  rewrite loops_valid_fixed, shared_valid_spec, bc_valid_spec.
  destruct (k_ret k); simpl; try reflexivity.
  destruct (existsb (has_attr LO) (k_body k)); simpl; [|reflexivity].
  destruct (existsb (has_attr LI) (k_body k)); simpl; [|reflexivity].
  destruct (forallb loops_ok (k_body k)); simpl; [|reflexivity].
  destruct (nesting_ok (k_body k)); simpl; [|reflexivity].
  destruct (depth_rule (k_body k)); simpl; reflexivity.
Qed.

Lemma all_kernels_fixed : forall ks, all_kernels fixed ks = Some (forallb rules_b ks).
Proof.
  induction ks as [|k ks IH]; [reflexivity|].
  simpl. now rewrite kernelIsValid_fixed, IH.
Qed.

Lemma kernelsAreValid_fixed : forall ks, kernelsAreValid fixed ks = Some (rules_all_b ks).
Proof.
  intros [|k ks]; [reflexivity|]. unfold kernelsAreValid, rules_all_b. apply all_kernels_fixed.
Qed.

(* ------------------------------------------------------------------ the rules as propositions *)

Lemma tops_sigs_nonempty : forall s t, In t (tops s) -> sigs t <> [].
Proof.
  induction s as [k kids IH] using stmt_ind'. intros t Ht. simpl in Ht.
  destruct (okl_attr k) as [a|] eqn:Ha.
  - destruct Ht as [<-|[]]. eapply sigs_okl_nonempty; eauto.
  - apply in_flat_map in Ht. destruct Ht as (c & Hc & Ht).
    rewrite Forall_forall in IH. eapply IH; eauto.
Qed.

Lemma rules_b_iff : forall k, rules_b k = true <-> Rules k.
Proof.
  intros k. unfold rules_b, Rules, nesting_ok, depth_rule.
  rewrite !andb_true_iff, !forallb_forall, !existsb_exists.
  assert (Hd : forall sg, depth_sig_ok sg = true <-> count_attr LO sg <= 3 /\ count_attr LI sg <= 3).
  { intros sg. unfold depth_sig_ok. rewrite andb_true_iff, !Nat.leb_le. tauto. }
  split.
  - intros (((((((H1 & H2) & H3) & H4) & H5) & Hdp) & H6) & H7).
    repeat split; auto.
    + destruct (k_ret k); congruence.
    + intros t Ht. apply top_ok_iff; auto.
      apply in_flat_map in Ht. destruct Ht as (s & _ & Ht). eapply tops_sigs_nonempty; eauto.
    + now apply Hd, Hdp.
    + now apply Hd, Hdp.
  - intros (H1 & H2 & H3 & H4 & H5 & Hdp & H6 & H7).
    repeat split; auto.
    + now rewrite H1.
    + intros t Ht. apply top_ok_iff; auto.
      apply in_flat_map in Ht. destruct Ht as (s & _ & Ht). eapply tops_sigs_nonempty; eauto.
    + intros sg Hsg. now apply Hd, Hdp.
Qed.

Theorem checker_iff_rules : forall k, kernelIsValid fixed k = Some true <-> Rules k.
Proof.
  intros k. rewrite kernelIsValid_fixed, <- rules_b_iff. split; congruence.
Qed.

Theorem checker_rejects_iff : forall k, kernelIsValid fixed k = Some false <-> ~ Rules k.
Proof.
  intros k. rewrite kernelIsValid_fixed, <- rules_b_iff.
  destruct (rules_b k); split; try congruence; intros H; exfalso; apply H; reflexivity.
Qed.

Theorem checker_total : forall k, kernelIsValid fixed k <> None.
Proof. intros k. rewrite kernelIsValid_fixed. discriminate. Qed.

Theorem translation_unit_iff_rules : forall ks,
  kernelsAreValid fixed ks = Some true <-> (ks <> [] /\ forall k, In k ks -> Rules k).
Proof.
  intros ks. rewrite kernelsAreValid_fixed. unfold rules_all_b.
  destruct ks as [|k0 ks].
  - split; [discriminate|]. intros [H _]. congruence.
  - split.
    + intros H. assert (H' : forallb rules_b (k0 :: ks) = true) by congruence.
      rewrite forallb_forall in H'. split; [discriminate|].
      intros k Hk. now apply rules_b_iff, H'.
    + intros [_ H]. apply f_equal. apply forallb_forall. intros k Hk. now apply rules_b_iff, H.
Qed.
