(* C22 — every backend enforces the same OKL rules: the statements.
   Vocabulary: Model.v (okl::kernelIsValid and oklForStatement transcribed over an abstract kernel
   tree; `fixed` = the source with fixes/C22-1..5 and C22-7 applied, `pinned` = the source as found),
   Spec.v (the rules written structurally: Rules, rules_b), Statements.v (quirk_free).
   Every proof is in Proofs*.v; this file only states, cites and prints assumptions.
   That the seven translators call this checker is the differential tie of props/C22.py. *)
From Coq Require Import List Bool ZArith.
From OV.C22 Require Import Model Spec Statements.
From OV.C22 Require Proofs ProofsPinned.
Import ListNotations.

(* For every kernel tree (any nesting of for / if / else / while / switch / block, @outer and @inner
   anywhere, any @shared / @exclusive / break / continue placement, any loop header shape, any return
   type) the checker of the repaired source accepts exactly the kernels that follow the rules:
   void return type; at least one @outer and one @inner loop; every OKL loop carries one attribute
   and has a valid header; under each outermost OKL loop every maximal OKL loop path is
   outer^a inner^b with the same a, b >= 1 (no @inner outside @outer, no @outer inside @inner, no
   mismatch across branches) and at most 3 of each (the launch grid has 3 dimensions);
   @shared / @exclusive declared inside @outer and outside @inner,
   @shared an array with constant extents, both used only inside @inner; no break / continue whose
   target is an OKL loop. *)
Theorem checker_iff_rules : forall k : kernel,
  kernelIsValid fixed k = Some true <-> Rules k.
Proof. exact Proofs.checker_iff_rules. Qed.
Print Assumptions checker_iff_rules.

(* ... and rejects with an error (it never dies) exactly the others. *)
Theorem checker_rejects_iff : forall k : kernel,
  kernelIsValid fixed k = Some false <-> ~ Rules k.
Proof. exact Proofs.checker_rejects_iff. Qed.
Print Assumptions checker_rejects_iff.

Theorem checker_total : forall k : kernel, kernelIsValid fixed k <> None.
Proof. exact Proofs.checker_total. Qed.
Print Assumptions checker_total.

(* A translation unit (kernelsAreValid): at least one kernel, and every kernel follows the rules. *)
Theorem translation_unit_iff_rules : forall ks : list kernel,
  kernelsAreValid fixed ks = Some true <-> (ks <> [] /\ forall k, In k ks -> Rules k).
Proof. exact Proofs.translation_unit_iff_rules. Qed.
Print Assumptions translation_unit_iff_rules.

(* The executable oracle used by the differential run is the proposition Rules. *)
Theorem oracle_is_rules : forall k : kernel, rules_b k = true <-> Rules k.
Proof. exact Proofs.rules_b_iff. Qed.
Print Assumptions oracle_is_rules.

(* The checker as pinned in /repo (and every partially repaired variant v).  The full statement
     forall k, kernelIsValid pinned k = Some true <-> Rules k
   is false (the *_refuted theorems below); it holds for the kernels that avoid the defects:
   no `void *` return type, no OKL loop with both attributes, with `n += it` as update or with a
   constant step <= 0, at most 3 nested @outer / @inner loops, and no continue that reaches an OKL
   loop through a switch. *)
Theorem checker_iff_rules_pinned_partial : forall (v : variant) (k : kernel),
  quirk_free k -> (kernelIsValid v k = Some true <-> Rules k).
Proof. exact ProofsPinned.checker_any_variant_partial. Qed.
Print Assumptions checker_iff_rules_pinned_partial.

(* ------------------------------------------------------------------ witnesses *)

(* for (int it = 0; it < 4; ++it) *)
Definition hdr0 : header :=
  mkHeader (IDecl 0 true TyInt (Some 0%Z)) (CBin CLt SLeft (Some 4%Z)) (UUnary true UInc true).
Definition outer_ (body : list stmt) : stmt := Node (KFor true false hdr0) body.
Definition inner_ (body : list stmt) : stmt := Node (KFor false true hdr0) body.
Definition inner_h (h : header) (body : list stmt) : stmt := Node (KFor false true h) body.
Definition other : stmt := Node KOther [].

Ltac refute w :=
  exists w; split;
  [ vm_compute; reflexivity
  | let H := fresh "H" in
    intro H; apply Proofs.rules_b_iff in H; vm_compute in H; discriminate H ].

(* @outer { @inner { switch { continue; } } }: the continue restarts the @inner loop *)
Theorem continue_in_switch_refuted :
  exists k, kernelIsValid pinned k = Some true /\ ~ Rules k.
Proof. refute (mkKernel RVoid [outer_ [inner_ [Node KSwitch [Node KContinue []]]]]). Qed.
Print Assumptions continue_in_switch_refuted.

(* for (...; @outer @inner) { @inner { } } *)
Theorem both_attributes_refuted :
  exists k, kernelIsValid pinned k = Some true /\ ~ Rules k.
Proof. refute (mkKernel RVoid [Node (KFor true true hdr0) [inner_ [other]]]). Qed.
Print Assumptions both_attributes_refuted.

(* @kernel void *k(...) *)
Theorem void_pointer_return_refuted :
  exists k, kernelIsValid pinned k = Some true /\ ~ Rules k.
Proof. refute (mkKernel RVoidPtr [outer_ [inner_ [other]]]). Qed.
Print Assumptions void_pointer_return_refuted.

(* for (int it = 0; it < n; n += it; @inner) *)
Theorem update_rhs_iterator_refuted :
  exists k, kernelIsValid pinned k = Some true /\ ~ Rules k.
Proof.
  refute (mkKernel RVoid [outer_ [inner_h (mkHeader (IDecl 0 true TyInt (Some 0%Z))
                                            (CBin CLt SLeft None) (UBin BAddEq SRight None)) [other]]]).
Qed.
Print Assumptions update_rhs_iterator_refuted.

(* for (int it = 4; it < 2; it += -1; @inner): folded count (2 - 4 + -1 - 1) / -1 = 4 *)
Theorem negative_step_refuted :
  exists k, kernelIsValid pinned k = Some true /\ ~ Rules k.
Proof.
  refute (mkKernel RVoid [outer_ [inner_h (mkHeader (IDecl 0 true TyInt (Some 4%Z))
                                            (CBin CLt SLeft (Some 2%Z))
                                            (UBin BAddEq SLeft (Some (-1)%Z))) [other]]]).
Qed.
Print Assumptions negative_step_refuted.

(* for (int it = 0; it < 4; it += 0; @inner): the pinned translators die (division by zero) *)
Theorem zero_step_dies_refuted :
  exists k, kernelIsValid pinned k = None /\ ~ Rules k.
Proof.
  refute (mkKernel RVoid [outer_ [inner_h (mkHeader (IDecl 0 true TyInt (Some 0%Z))
                                            (CBin CLt SLeft (Some 4%Z))
                                            (UBin BAddEq SLeft (Some 0%Z))) [other]]]).
Qed.
Print Assumptions zero_step_dies_refuted.

(* four nested @inner loops: accepted; the launchers then write index 3 of an int[3] *)
Theorem depth_unchecked_refuted :
  exists k, kernelIsValid pinned k = Some true /\ ~ Rules k.
Proof. refute (mkKernel RVoid [outer_ [inner_ [inner_ [inner_ [inner_ [other]]]]]]). Qed.
Print Assumptions depth_unchecked_refuted.

(* ------------------------------------------------------------------ non-vacuity *)

(* two outermost @outer loops with different shapes (1,2) and (2,1); branches with matching
   nesting; @shared and @exclusive declared and used; break / continue in a regular loop and a
   switch inside the @inner loop *)
Definition regular_loop : stmt :=
  Node (KFor false false hdr0)
       [Node KBreak []; Node KSwitch [Node KBreak []; Node KContinue []]].
Definition group1 : stmt :=
  outer_ [Node (KDecl VShared [true; true]) [];
          Node (KDecl VExclusive []) [];
          Node KIf [Node (KElse false) [inner_ [inner_ [Node (KUse VShared) []]]];
                    inner_ [other; inner_ [Node (KUse VExclusive) []]]]].
Definition group2 : stmt :=
  Node (KWhile false)
       [outer_ [outer_ [inner_ [regular_loop]; Node KBlock [inner_ [other]]]]].
Definition sample : kernel := mkKernel RVoid [group1; group2].

Example sample_follows_rules : Rules sample.
Proof. apply Proofs.rules_b_iff. vm_compute. reflexivity. Qed.

Example sample_accepted : kernelIsValid fixed sample = Some true /\ kernelIsValid pinned sample = Some true.
Proof. split; vm_compute; reflexivity. Qed.

Example sample_quirk_free : quirk_free sample.
Proof. repeat split; try discriminate; vm_compute; reflexivity. Qed.

(* one more @inner level in one branch only: mismatch *)
Example mismatch_rejected :
  kernelIsValid fixed
    (mkKernel RVoid [ outer_ [ Node KIf [ Node (KElse false) [ inner_ [ inner_ [ other ] ] ];
                                          inner_ [ other ] ] ] ]) = Some false.
Proof. vm_compute. reflexivity. Qed.
