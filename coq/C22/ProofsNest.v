(* C22 proofs, part 5: pathHasValidOklLoopOrdering and the count comparison per outermost @outer
   loop, run over the reversed leaves, decide exactly the nesting rule of Spec.v. *)
From Coq Require Import List Bool Arith ZArith Lia.
From OV.C22 Require Import Model Spec Statements ProofsBase ProofsPaths.
Import ListNotations.

(* ------------------------------------------------------------------ shapes of attribute sequences *)

Lemma lattr_eqb_eq : forall x y, lattr_eqb x y = true <-> x = y.
Proof. intros [] []; simpl; split; congruence. Qed.

Lemma sig_eqb_eq : forall x y, sig_eqb x y = true <-> x = y.
Proof.
  induction x as [|a x IH]; intros [|b y]; simpl; split; try congruence; auto.
  - intros H. apply andb_prop in H. destruct H as [H1 H2].
    apply lattr_eqb_eq in H1. apply IH in H2. congruence.
  - intros H. inversion H; subst. apply andb_true_intro. split; [now apply lattr_eqb_eq|now apply IH].
Qed.

Lemma lead_o_spec : forall sg,
  sg = repeat LO (fst (lead_o sg)) ++ snd (lead_o sg)
  /\ (snd (lead_o sg) = [] \/ exists r, snd (lead_o sg) = LI :: r).
Proof.
  induction sg as [|a sg IH]; simpl; [auto|].
  destruct a; simpl.
  - destruct (lead_o sg) as [n r]. simpl in *. destruct IH as [-> H]. auto.
  - split; [reflexivity|]. right. eauto.
Qed.

Lemma lead_o_run : forall a r, (r = [] \/ exists r', r = LI :: r') ->
  lead_o (repeat LO a ++ r) = (a, r).
Proof.
  induction a as [|a IH]; intros r Hr; simpl.
  - destruct Hr as [->|[r' ->]]; reflexivity.
  - now rewrite IH.
Qed.

Lemma all_li_repeat : forall r, forallb (lattr_eqb LI) r = true <-> r = repeat LI (length r).
Proof.
  induction r as [|a r IH]; simpl; [tauto|].
  destruct a; simpl; split; try congruence.
  - intros H. f_equal. now apply IH.
  - intros H. injection H as H. now apply IH.
Qed.

Lemma shape_ok_iff : forall sg, shape_ok sg = true <-> exists a b, Shape sg a b.
Proof.
  intros sg. unfold shape_ok, Shape. destruct (lead_o_spec sg) as [Hsg Hr].
  destruct (lead_o sg) as [a r]. simpl in *. split.
  - intros H. apply andb_prop in H. destruct H as [H H3]. apply andb_prop in H. destruct H as [H1 H2].
    apply Nat.ltb_lt in H1, H2. apply all_li_repeat in H3.
    exists a, (length r). repeat split; try lia. now rewrite <- H3.
  - intros (a' & b' & Ha & Hb & E).
    assert (Hl : lead_o sg = (a', repeat LI b')).
    { rewrite E. apply lead_o_run. destruct b'; [lia|]. right. simpl. eauto. }
    assert (Hl2 : lead_o sg = (a, r)).
    { rewrite Hsg at 1. now apply lead_o_run. }
    rewrite Hl in Hl2. inversion Hl2; subst.
    rewrite repeat_length.
    apply andb_true_intro. split; [apply andb_true_intro; split; apply Nat.ltb_lt; lia|].
    apply all_li_repeat. now rewrite repeat_length.
Qed.

Lemma Shape_inj : forall sg a b a' b', Shape sg a b -> Shape sg a' b' -> a = a' /\ b = b'.
Proof.
  intros sg a b a' b' (Ha & Hb & E) (Ha' & Hb' & E').
  assert (H1 : lead_o sg = (a, repeat LI b)).
  { rewrite E. apply lead_o_run. destruct b; [lia|]. right. simpl. eauto. }
  assert (H2 : lead_o sg = (a', repeat LI b')).
  { rewrite E'. apply lead_o_run. destruct b'; [lia|]. right. simpl. eauto. }
  rewrite H1 in H2. inversion H2. split; [reflexivity|].
  apply (f_equal (@length lattr)) in H3. now rewrite !repeat_length in H3.
Qed.

(* ------------------------------------------------------------------ pathHasValidOklLoopOrdering on classes *)

Definition cls (e : pel) : lattr := if has_outer e then LO else LI.

Fixpoint osig (sg : list lattr) (ic oc : nat) : option (nat * nat) :=
  match sg with
  | [] => Some (ic, oc)
  | LO :: tl => if Nat.ltb 0 ic then None else osig tl ic (S oc)
  | LI :: tl => if Nat.eqb oc 0 then None else osig tl (S ic) oc
  end.

Definition posig (sg : list lattr) : option (nat * nat) :=
  match osig sg 0 0 with
  | None => None
  | Some (ic, oc) =>
    if Nat.eqb ic 0 then (if existsb (lattr_eqb LO) sg then None else Some (ic, oc))
    else Some (ic, oc)
  end.

Definition all_okl (p : list pel) : Prop := forall e, In e p -> is_okl e = true.

Lemma ordering_cls : forall p ic oc, all_okl p -> ordering p ic oc = osig (map cls p) ic oc.
Proof.
  induction p as [|e p IH]; intros ic oc H; [reflexivity|].
  assert (He : is_okl e = true) by (apply H; now left).
  assert (Hp : all_okl p) by (intros x Hx; apply H; now right).
  simpl. unfold cls at 1. unfold is_okl in He.
  destruct (has_outer e); simpl.
  - destruct (0 <? ic); [reflexivity|]. now apply IH.
  - simpl in He. rewrite He. destruct (oc =? 0); [reflexivity|]. now apply IH.
Qed.

Lemma path_ordering_cls : forall p, all_okl p -> path_ordering p = posig (map cls p).
Proof.
  intros p H. unfold path_ordering, posig. rewrite ordering_cls by assumption.
  assert (E : existsb has_outer p = existsb (lattr_eqb LO) (map cls p)).
  { rewrite existsb_map. apply existsb_ext_in. intros e _. unfold cls. destruct (has_outer e); reflexivity. }
  now rewrite E.
Qed.

Lemma osig_O : forall a rest oc, osig (repeat LO a ++ rest) 0 oc = osig rest 0 (oc + a).
Proof.
  induction a as [|a IH]; intros rest oc; simpl.
  - now rewrite Nat.add_0_r.
  - rewrite IH. f_equal. lia.
Qed.

Lemma osig_I : forall b ic oc, 1 <= oc -> osig (repeat LI b) ic oc = Some (ic + b, oc).
Proof.
  induction b as [|b IH]; intros ic oc Hoc; simpl.
  - now rewrite Nat.add_0_r.
  - replace (oc =? 0) with false by (symmetry; apply Nat.eqb_neq; lia).
    rewrite IH by assumption. f_equal. f_equal. lia.
Qed.

Lemma osig_phase2 : forall r ic oc ic' oc',
  (1 <= ic \/ r = [] \/ exists r', r = LI :: r') ->
  osig r ic oc = Some (ic', oc') ->
  (r = [] \/ 1 <= oc) /\ r = repeat LI (length r) /\ ic' = ic + length r /\ oc' = oc.
Proof.
  induction r as [|a r IH]; intros ic oc ic' oc' Hc H; simpl in H.
  - inversion H; subst. simpl. repeat split; auto.
  - destruct a.
    + destruct (0 <? ic) eqn:E; [discriminate|]. apply Nat.ltb_ge in E.
      destruct Hc as [Hc|[Hc|[r' Hc]]]; [lia|discriminate|discriminate].
    + destruct (oc =? 0) eqn:E; [discriminate|]. apply Nat.eqb_neq in E.
      apply IH in H; [|left; lia]. destruct H as (_ & H2 & H3 & H4).
      simpl. repeat split; try lia. now rewrite <- H2.
Qed.

Lemma existsb_LO_repeat : forall a, existsb (lattr_eqb LO) (repeat LO a) = Nat.ltb 0 a.
Proof. destruct a; reflexivity. Qed.

Lemma posig_shape : forall sg ic oc, sg <> [] -> (posig sg = Some (ic, oc) <-> Shape sg oc ic).
Proof.
  intros sg ic oc Hne. split.
  - intros H. unfold posig in H.
    destruct (lead_o_spec sg) as [Hsg Hr]. destruct (lead_o sg) as [a r]. simpl in *.
    rewrite Hsg in H at 1. rewrite osig_O in H. simpl in H.
    destruct (osig r 0 a) as [[ic0 oc0]|] eqn:E; [|discriminate].
    apply osig_phase2 in E; [|tauto]. destruct E as (H1 & H2 & H3 & H4). simpl in H3. subst ic0 oc0.
    destruct (length r =? 0) eqn:El.
    + apply Nat.eqb_eq in El. destruct r; [|discriminate]. rewrite app_nil_r in Hsg.
      rewrite Hsg, existsb_LO_repeat in H. destruct a; [simpl in Hsg; congruence|]. discriminate.
    + apply Nat.eqb_neq in El. inversion H; subst ic oc.
      destruct H1 as [->|H1]; [simpl in El; lia|].
      unfold Shape. repeat split; try lia. now rewrite <- H2.
  - intros (Ha & Hb & E). unfold posig. rewrite E, osig_O, osig_I by lia. simpl.
    replace (ic =? 0) with false by (symmetry; apply Nat.eqb_neq; lia). reflexivity.
Qed.

(* ------------------------------------------------------------------ leaves and sigs *)

Lemma is_okl_attr : forall n k,
  is_okl (mkPel n k) = match okl_attr k with Some _ => true | None => false end.
Proof. intros n [ | [] [] h | | | | | | | | | | ]; reflexivity. Qed.

Lemma cls_attr : forall n k a, okl_attr k = Some a -> cls (mkPel n k) = a.
Proof. intros n [ | [] [] h | | | | | | | | | | ] a H; simpl in H; inversion H; reflexivity. Qed.

Lemma map_eq_nil_iff : forall {A B} (f : A -> B) l, map f l = [] <-> l = [].
Proof. intros A B f [|x l]; simpl; split; congruence. Qed.

Lemma G_sigs_both :
  (forall s n path,
     map (map cls) (G n path s) = map (app (map cls (Fp path))) (sigs s))
  /\ (forall l n path,
     map (map cls) (GL n path l) = map (app (map cls (Fp path))) (flat_map sigs l)).
Proof.
  assert (H : forall s n path,
     map (map cls) (G n path s) = map (app (map cls (Fp path))) (sigs s)).
  { induction s as [k kids IH] using stmt_ind'. intros n path.
    assert (Hl : forall m pth,
       map (map cls) (GL m pth kids) = map (app (map cls (Fp pth))) (flat_map sigs kids)).
    { clear n path. induction IH as [|c tl Hc _ IHl]; intros m pth; [reflexivity|].
      rewrite GL_cons, map_app, Hc, IHl. simpl flat_map. now rewrite map_app. }
    rewrite G_eq, is_okl_attr. simpl sigs.
    destruct (okl_attr k) as [a|] eqn:Ha.
    - pose proof (Hl (S n) (path ++ [mkPel n k])) as Hk.
      rewrite Fp_snoc, is_okl_attr, Ha, map_app in Hk. simpl map in Hk.
      rewrite (cls_attr _ _ _ Ha) in Hk.
      destruct (LPL (S n) (path ++ [mkPel n k]) kids) as [|p1 rest] eqn:E.
      + apply GL_nil_iff in E. rewrite E in Hk. simpl in Hk. symmetry in Hk.
        apply map_eq_nil_iff in Hk. rewrite Hk. simpl.
        rewrite map_app. simpl. now rewrite (cls_attr _ _ _ Ha).
      + assert (Hne : flat_map sigs kids <> []).
        { intros E0. rewrite E0 in Hk. simpl in Hk. apply map_eq_nil_iff in Hk.
          apply GL_nil_iff in Hk. congruence. }
        destruct (flat_map sigs kids) as [|s0 sr] eqn:Es; [congruence|].
        rewrite Hk, map_map. apply map_ext. intros x. now rewrite <- app_assoc.
    - rewrite Hl, Fp_snoc, is_okl_attr, Ha, app_nil_r. reflexivity. }
  split; [exact H|].
  induction l as [|c tl IHl]; intros n path; [reflexivity|].
  rewrite GL_cons, map_app, H, IHl. simpl flat_map. now rewrite map_app.
Qed.

Definition G_sigs := proj1 G_sigs_both.

(* ------------------------------------------------------------------ one group of the count loop *)

Definition ord_is (x : nat * nat) (p : list pel) : bool :=
  match path_ordering p with
  | Some y => Nat.eqb (fst x) (fst y) && Nat.eqb (snd x) (snd y)
  | None => false
  end.

Definition grp (L : list (list pel)) : bool :=
  match L with
  | [] => true
  | p :: r =>
    match path_ordering p with
    | None => false
    | Some x => forallb (ord_is x) r
    end
  end.

Lemma count_loop_same : forall L t rest ic oc,
  (forall p, In p L -> head_id p = t) ->
  count_loop pinned (L ++ rest) (Some t) ic oc
  = forallb (ord_is (ic, oc)) L && count_loop pinned rest (Some t) ic oc.
Proof.
  induction L as [|p L IH]; intros t rest ic oc Hh; [reflexivity|].
  simpl app. simpl count_loop. unfold ord_is at 1. simpl forallb.
  destruct (path_ordering p) as [[ic' oc']|]; [|reflexivity].
  rewrite (Hh p (or_introl eq_refl)), Nat.eqb_refl. simpl negb. cbn iota. simpl fst. simpl snd.
  destruct (ic =? ic') eqn:E1; simpl; [|reflexivity].
  destruct (oc =? oc') eqn:E2; simpl; [|reflexivity].
  apply IH. intros q Hq. apply Hh. now right.
Qed.

Lemma count_loop_reset : forall rest t ic oc,
  (rest = [] \/ head_id (hd [] rest) <> t) ->
  count_loop pinned rest (Some t) ic oc = count_loop pinned rest None 0 0.
Proof.
  intros [|p rest] t ic oc H; [reflexivity|].
  destruct H as [H|H]; [discriminate|]. simpl in H. simpl.
  destruct (path_ordering p) as [[ic' oc']|]; [|reflexivity].
  replace (t =? head_id p) with false by (symmetry; apply Nat.eqb_neq; congruence).
  reflexivity.
Qed.

Lemma count_loop_group : forall L t rest,
  L <> [] -> (forall p, In p L -> head_id p = t) ->
  (rest = [] \/ head_id (hd [] rest) <> t) ->
  count_loop pinned (L ++ rest) None 0 0 = grp L && count_loop pinned rest None 0 0.
Proof.
  intros [|p L] t rest Hne Hh Hr; [congruence|].
  simpl app. simpl count_loop. unfold grp.
  destruct (path_ordering p) as [[ic oc]|]; [|reflexivity].
  simpl negb. cbn iota.
  rewrite (Hh p (or_introl eq_refl)).
  rewrite count_loop_same by (intros q Hq; apply Hh; now right).
  now rewrite (count_loop_reset rest t ic oc Hr).
Qed.

Lemma ord_is_iff : forall x p, ord_is x p = true <-> path_ordering p = Some x.
Proof.
  intros [a b] p. unfold ord_is. destruct (path_ordering p) as [[c d]|]; simpl; split; try congruence.
  - intros H. apply andb_prop in H. destruct H as [H1 H2].
    apply Nat.eqb_eq in H1, H2. congruence.
  - intros H. inversion H; subst. now rewrite !Nat.eqb_refl.
Qed.

Lemma grp_iff : forall L, L <> [] ->
  (grp L = true <-> exists x, forall p, In p L -> path_ordering p = Some x).
Proof.
  intros [|p L] Hne; [congruence|]. unfold grp. split.
  - destruct (path_ordering p) as [x|] eqn:E; [|discriminate]. intros H.
    exists x. intros q [<-|Hq]; [assumption|].
    rewrite forallb_forall in H. now apply ord_is_iff, H.
  - intros [x H]. rewrite (H p (or_introl eq_refl)).
    apply forallb_forall. intros q Hq. apply ord_is_iff, H. now right.
Qed.

(* ------------------------------------------------------------------ one outermost OKL loop *)

Lemma sigs_okl_nonempty : forall k kids a, okl_attr k = Some a -> sigs (Node k kids) <> [].
Proof.
  intros k kids a H. simpl. rewrite H. destruct (flat_map sigs kids); simpl; discriminate.
Qed.

Lemma top_ok_iff : forall t, sigs t <> [] -> (top_ok t = true <-> TopOK t).
Proof.
  intros t Hne. unfold top_ok, TopOK. destruct (sigs t) as [|s0 rest]; [congruence|]. split.
  - intros H. apply andb_prop in H. destruct H as [H1 H2].
    apply shape_ok_iff in H1. destruct H1 as (a & b & Hs). exists a, b.
    intros sg [<-|Hsg]; [assumption|].
    rewrite forallb_forall in H2. apply H2, sig_eqb_eq in Hsg. now subst.
  - intros (a & b & H). apply andb_true_intro. split.
    + apply shape_ok_iff. exists a, b. apply H. now left.
    + apply forallb_forall. intros sg Hsg. apply sig_eqb_eq.
      destruct (H sg (or_intror Hsg)) as (_ & _ & ->).
      destruct (H s0 (or_introl eq_refl)) as (_ & _ & ->). reflexivity.
Qed.

Lemma bool_eq_iff : forall a b : bool, (a = true <-> b = true) -> a = b.
Proof. intros [] [] [H1 H2]; auto; try (symmetry; auto); exfalso; intuition discriminate. Qed.

Section Top.
  Variables (n : nat) (path : list pel) (k : kind) (kids : list stmt) (a : lattr).
  Hypothesis HF : Fp path = [].
  Hypothesis Ha : okl_attr k = Some a.
  Let T := Node k kids.
  Let L := G n path T.

  Lemma top_leaves_nonempty : L <> [].
  Proof.
    unfold L, T. rewrite G_eq, is_okl_attr, Ha.
    destruct (LPL (S n) (path ++ [mkPel n k]) kids) eqn:E; [discriminate|].
    intros H. apply GL_nil_iff in H. congruence.
  Qed.

  Lemma top_leaves_head : forall p, In p L -> head_id p = n.
  Proof.
    intros p Hp. apply G_incl in Hp. unfold T in Hp. rewrite LP_eq, is_okl_attr, Ha in Hp.
    apply in_app_or in Hp. destruct Hp as [[<-|[]]|Hp].
    - rewrite HF. reflexivity.
    - destruct (LPL_shape _ _ _ _ Hp) as (q & -> & _).
      rewrite Fp_snoc, is_okl_attr, Ha, HF. reflexivity.
  Qed.

  Lemma top_leaves_okl : forall p, In p L -> all_okl p /\ p <> [].
  Proof.
    intros p Hp. apply G_incl in Hp.
    destruct (LP_shape _ _ _ _ Hp) as (q & -> & Hq & Hr). rewrite HF. simpl.
    split; [|assumption]. intros e He. now apply Hr.
  Qed.

  Lemma top_sigs : map (map cls) L = sigs T.
  Proof.
    unfold L. rewrite G_sigs, HF.
    transitivity (map (fun x : list lattr => x) (sigs T)); [apply map_ext; reflexivity|apply map_id].
  Qed.

  Lemma grp_top : grp (rev L) = top_ok T.
  Proof.
    apply bool_eq_iff.
    assert (Hne : rev L <> []).
    { intros H. apply (f_equal (@rev _)) in H. rewrite rev_involutive in H. now apply top_leaves_nonempty. }
    rewrite (grp_iff _ Hne), (top_ok_iff T (sigs_okl_nonempty _ _ _ Ha)). unfold TopOK.
    rewrite <- top_sigs. split.
    - intros [[ic oc] H]. exists oc, ic. intros sg Hsg.
      apply in_map_iff in Hsg. destruct Hsg as (p & <- & Hp).
      destruct (top_leaves_okl p Hp) as [Hok Hpne].
      apply posig_shape; [now rewrite map_eq_nil_iff|].
      rewrite <- path_ordering_cls by assumption. apply H. now apply -> in_rev.
    - intros (oc & ic & H). exists (ic, oc). intros p Hp. apply in_rev in Hp.
      destruct (top_leaves_okl p Hp) as [Hok Hpne].
      rewrite path_ordering_cls by assumption.
      apply posig_shape; [now rewrite map_eq_nil_iff|].
      apply H. now apply in_map.
  Qed.
End Top.

(* ------------------------------------------------------------------ the spine above the outermost loops *)

Definition rest_below (n : nat) (rest : list (list pel)) : Prop :=
  rest = [] \/ head_id (hd [] rest) < n.

Lemma leaves_head_range : forall s n path p, Fp path = [] -> In p (G n path s) ->
  n <= head_id p < n + size s.
Proof.
  intros s n path p HF Hp. apply G_incl in Hp.
  destruct (LP_shape _ _ _ _ Hp) as (q & -> & Hq & Hr). rewrite HF. simpl.
  destruct q as [|e q]; [congruence|]. simpl. apply Hr. now left.
Qed.

Lemma rest_below_step : forall s n path rest, Fp path = [] -> rest_below n rest ->
  rest_below (n + size s) (rev (G n path s) ++ rest).
Proof.
  intros s n path rest HF Hr. unfold rest_below in *.
  destruct (rev (G n path s)) as [|p r] eqn:E.
  - simpl. destruct Hr as [->|Hr]; [now left|right; lia].
  - right. simpl.
    assert (Hp : In p (G n path s)) by (apply in_rev; rewrite E; now left).
    pose proof (leaves_head_range _ _ _ _ HF Hp). lia.
Qed.

Lemma nest_both :
  (forall s n path rest, Fp path = [] -> rest_below n rest ->
     count_loop pinned (rev (G n path s) ++ rest) None 0 0
     = forallb top_ok (tops s) && count_loop pinned rest None 0 0)
  /\ (forall l n path rest, Fp path = [] -> rest_below n rest ->
     count_loop pinned (rev (GL n path l) ++ rest) None 0 0
     = forallb top_ok (flat_map tops l) && count_loop pinned rest None 0 0).
Proof.
  assert (HL : forall l,
    Forall (fun s => forall n path rest, Fp path = [] -> rest_below n rest ->
       count_loop pinned (rev (G n path s) ++ rest) None 0 0
       = forallb top_ok (tops s) && count_loop pinned rest None 0 0) l ->
    forall n path rest, Fp path = [] -> rest_below n rest ->
     count_loop pinned (rev (GL n path l) ++ rest) None 0 0
     = forallb top_ok (flat_map tops l) && count_loop pinned rest None 0 0).
  { induction 1 as [|c tl Hc _ IHl]; intros n path rest HF Hr; [reflexivity|].
    rewrite GL_cons, rev_app_distr, <- app_assoc.
    rewrite IHl by (auto using rest_below_step).
    rewrite Hc by assumption. simpl flat_map. rewrite forallb_app.
    destruct (forallb top_ok (tops c)), (forallb top_ok (flat_map tops tl)); reflexivity. }
  assert (H : forall s n path rest, Fp path = [] -> rest_below n rest ->
     count_loop pinned (rev (G n path s) ++ rest) None 0 0
     = forallb top_ok (tops s) && count_loop pinned rest None 0 0).
  { induction s as [k kids IH] using stmt_ind'. intros n path rest HF Hr.
    simpl tops. destruct (okl_attr k) as [a|] eqn:Ha.
    - (* an outermost OKL loop: one group *)
      simpl forallb. rewrite andb_true_r.
      rewrite (count_loop_group (rev (G n path (Node k kids))) n rest).
      + now rewrite (grp_top n path k kids a HF Ha).
      + intros E. apply (f_equal (@rev _)) in E. rewrite rev_involutive in E.
        now apply (top_leaves_nonempty n path k kids a Ha).
      + intros p Hp. apply in_rev in Hp. now apply (top_leaves_head n path k kids a HF Ha).
      + destruct Hr as [->|Hr]; [now left|right; lia].
    - rewrite G_eq, is_okl_attr, Ha.
      apply HL; [assumption| |].
      + now rewrite Fp_snoc, is_okl_attr, Ha, app_nil_r.
      + destruct Hr as [->|Hr]; [now left|right; lia]. }
  split; [exact H|].
  intros l. apply HL. apply Forall_forall. intros s _. apply H.
Qed.

Lemma count_loop_nesting0 : forall k,
  count_loop pinned (innerMostPaths (visits k)) None 0 0 = nesting_ok (k_body k).
Proof.
  intros k. rewrite innerMostPaths_leaves.
  rewrite <- (app_nil_r (rev (GL 1 [root] (k_body k)))).
  rewrite (proj2 nest_both) by (try reflexivity; now left).
  simpl count_loop. now rewrite andb_true_r.
Qed.

(* ------------------------------------------------------------------ the depth bound (repaired source) *)

Definition depthp (v : variant) (p : list pel) : bool :=
  match path_ordering p with Some (ic, oc) => depth_ok v ic oc | None => true end.

Lemma count_loop_depth : forall v ps cur ci co,
  count_loop v ps cur ci co = count_loop pinned ps cur ci co && forallb (depthp v) ps.
Proof.
  induction ps as [|p ps IH]; intros cur ci co; [reflexivity|].
  simpl count_loop. simpl forallb. unfold depthp at 1.
  destruct (path_ordering p) as [[ic oc]|]; [|reflexivity].
  change (depth_ok pinned ic oc) with true. simpl negb at 2. cbn iota.
  destruct (depth_ok v ic oc); simpl negb; cbn iota; [|now rewrite andb_false_r].
  simpl andb.
  destruct (negb match cur with Some c => c =? head_id p | None => false end); [apply IH|].
  destruct (negb (ci =? ic)); [reflexivity|].
  destruct (negb (co =? oc)); [reflexivity|]. apply IH.
Qed.

Lemma count_loop_all_some : forall ps cur ci co,
  count_loop pinned ps cur ci co = true -> forall p, In p ps -> path_ordering p <> None.
Proof.
  induction ps as [|q ps IH]; intros cur ci co H p Hp; [destruct Hp|].
  simpl in H. destruct (path_ordering q) as [[ic oc]|] eqn:E; [|discriminate].
  destruct Hp as [<-|Hp]; [congruence|].
  destruct (negb match cur with Some c => c =? head_id q | None => false end); [eapply IH; eauto|].
  destruct (negb (ci =? ic)); [discriminate|].
  destruct (negb (co =? oc)); [discriminate|]. eapply IH; eauto.
Qed.

Lemma count_attr_app : forall a x y, count_attr a (x ++ y) = count_attr a x + count_attr a y.
Proof. induction x as [|b x IH]; intros y; simpl; [reflexivity|]. rewrite IH. lia. Qed.

Lemma count_attr_repeat_same : forall a n, count_attr a (repeat a n) = n.
Proof. induction n as [|n IH]; simpl; [reflexivity|]. rewrite IH. destruct a; reflexivity. Qed.

Lemma count_attr_repeat_other : forall a b n, a <> b -> count_attr a (repeat b n) = 0.
Proof.
  intros a b n H. induction n as [|n IH]; simpl; [reflexivity|]. rewrite IH.
  destruct a, b; simpl; congruence.
Qed.

Lemma depthp_sig : forall p, all_okl p -> p <> [] -> path_ordering p <> None ->
  depthp fixed p = depth_sig_ok (map cls p).
Proof.
  intros p Hok Hne Hsome. unfold depthp.
  destruct (path_ordering p) as [[ic oc]|] eqn:E; [|congruence].
  rewrite path_ordering_cls in E by assumption.
  apply posig_shape in E; [|now rewrite map_eq_nil_iff].
  destruct E as (_ & _ & E). unfold depth_sig_ok, depth_ok. simpl v_depth_unchecked. simpl orb.
  rewrite E, !count_attr_app, !count_attr_repeat_same.
  rewrite (count_attr_repeat_other LO LI) by discriminate.
  rewrite (count_attr_repeat_other LI LO) by discriminate.
  rewrite Nat.add_0_r. simpl. apply andb_comm.
Qed.

Lemma leaves_top_okl : forall l n path p, Fp path = [] -> In p (GL n path l) -> all_okl p /\ p <> [].
Proof.
  intros l n path p HF Hp. apply GL_incl in Hp.
  destruct (LPL_shape _ _ _ _ Hp) as (q & -> & Hq & Hr). rewrite HF. simpl.
  split; [|assumption]. intros e He. now apply Hr.
Qed.

Lemma leaves_sigs : forall k,
  map (map cls) (GL 1 [root] (k_body k)) = flat_map sigs (k_body k).
Proof.
  intros k. rewrite (proj2 G_sigs_both). simpl.
  transitivity (map (fun x : list lattr => x) (flat_map sigs (k_body k)));
    [apply map_ext; reflexivity|apply map_id].
Qed.

Lemma forallb_rev : forall {A} (f : A -> bool) l, forallb f (rev l) = forallb f l.
Proof.
  intros A f l. induction l as [|a l IH]; [reflexivity|].
  simpl. rewrite forallb_app, IH. simpl. rewrite andb_true_r. apply andb_comm.
Qed.

(* the count loop of the repaired source decides the nesting rule and the depth bound *)
Lemma count_loop_nesting : forall k,
  count_loop fixed (innerMostPaths (visits k)) None 0 0
  = nesting_ok (k_body k) && depth_rule (k_body k).
Proof.
  intros k. rewrite count_loop_depth, count_loop_nesting0.
  destruct (nesting_ok (k_body k)) eqn:En; [|reflexivity]. simpl andb.
  rewrite <- count_loop_nesting0 in En.
  rewrite innerMostPaths_leaves in *. rewrite forallb_rev.
  unfold depth_rule. rewrite <- leaves_sigs, forallb_map.
  apply forallb_ext_in. intros p Hp.
  destruct (leaves_top_okl (k_body k) 1 [root] p eq_refl Hp) as [Hok Hne].
  apply depthp_sig; auto.
  eapply count_loop_all_some; eauto. now apply -> in_rev.
Qed.

(* with the depth bound respected every variant runs the same count loop *)
Lemma count_loop_any_variant : forall v k,
  depth_rule (k_body k) = true ->
  count_loop v (innerMostPaths (visits k)) None 0 0
  = count_loop fixed (innerMostPaths (visits k)) None 0 0.
Proof.
  intros v k Hd. rewrite (count_loop_depth v), (count_loop_depth fixed).
  destruct (count_loop pinned (innerMostPaths (visits k)) None 0 0) eqn:E; [|reflexivity].
  simpl andb. rewrite innerMostPaths_leaves in *. rewrite !forallb_rev.
  apply forallb_ext_in. intros p Hp.
  destruct (leaves_top_okl (k_body k) 1 [root] p eq_refl Hp) as [Hok Hne].
  assert (Hs : path_ordering p <> None).
  { eapply count_loop_all_some; eauto. now apply -> in_rev. }
  assert (Hf : depthp fixed p = true).
  { rewrite depthp_sig by assumption. unfold depth_rule in Hd. rewrite <- leaves_sigs, forallb_map in Hd.
    rewrite forallb_forall in Hd. now apply Hd. }
  rewrite Hf. unfold depthp in *. destruct (path_ordering p) as [[ic oc]|]; [|reflexivity].
  unfold depth_ok in *. simpl in Hf. rewrite Hf. apply orb_true_r.
Qed.
