(* C22 proofs, part 4: the list of OKL loop paths built by kernelHasValidOklLoops, and the
   reverse + startsWith filter: it keeps exactly the paths of OKL loops without an OKL loop inside. *)
From Coq Require Import List Bool Arith ZArith Lia.
From OV.C22 Require Import Model Spec Statements ProofsBase.
Import ListNotations.

(* ------------------------------------------------------------------ loopPaths over the DFS *)

Lemma loopPaths_app : forall a b, loopPaths (a ++ b) = loopPaths a ++ loopPaths b.
Proof. intros. unfold loopPaths, okl_visits. now rewrite filter_app, map_app. Qed.

Definition Fp (path : list pel) : list pel := filter is_okl path.
Definition LP (n : nat) (path : list pel) (s : stmt) := loopPaths (iter n path s).
Definition LPL (n : nat) (path : list pel) (l : list stmt) := loopPaths (iter_list n path l).

Lemma Fp_snoc : forall path e, Fp (path ++ [e]) = Fp path ++ (if is_okl e then [e] else []).
Proof. intros. unfold Fp. rewrite filter_app. simpl. destruct (is_okl e); reflexivity. Qed.

Lemma LP_eq : forall n path k kids,
  LP n path (Node k kids)
  = (if is_okl (mkPel n k) then [Fp path ++ [mkPel n k]] else [])
    ++ LPL (S n) (path ++ [mkPel n k]) kids.
Proof.
  intros. unfold LP, LPL. rewrite iter_eq.
  change ((mkPel n k, path) :: iter_list (S n) (path ++ [mkPel n k]) kids)
    with ([(mkPel n k, path)] ++ iter_list (S n) (path ++ [mkPel n k]) kids).
  rewrite loopPaths_app. f_equal.
  unfold loopPaths, okl_visits. simpl. destruct (is_okl (mkPel n k)); reflexivity.
Qed.

Lemma LPL_nil : forall n path, LPL n path [] = [].
Proof. reflexivity. Qed.

Lemma LPL_cons : forall n path c tl,
  LPL n path (c :: tl) = LP n path c ++ LPL (n + size c) path tl.
Proof. intros. unfold LPL, LP. now rewrite iter_list_cons, loopPaths_app. Qed.

(* every path below s is (OKL ancestors) ++ q, q non-empty, made of OKL loops numbered inside s *)
Definition in_range (lo hi : nat) (q : list pel) : Prop :=
  forall e, In e q -> lo <= p_id e < hi /\ is_okl e = true.

Lemma LP_shape_both :
  (forall s n path p, In p (LP n path s) ->
     exists q, p = Fp path ++ q /\ q <> [] /\ in_range n (n + size s) q)
  /\ (forall l n path p, In p (LPL n path l) ->
     exists q, p = Fp path ++ q /\ q <> [] /\ in_range n (n + sizes l) q).
Proof.
  assert (H : forall s, (forall n path p, In p (LP n path s) ->
     exists q, p = Fp path ++ q /\ q <> [] /\ in_range n (n + size s) q)).
  { induction s as [k kids IH] using stmt_ind'. intros n path p Hp.
    assert (Hl : forall m pth p, In p (LPL m pth kids) ->
       exists q, p = Fp pth ++ q /\ q <> [] /\ in_range m (m + sizes kids) q).
    { clear n path p Hp. induction IH as [|c tl Hc _ IHl]; intros m pth p Hp.
      - destruct Hp.
      - rewrite LPL_cons in Hp. apply in_app_or in Hp. rewrite sizes_cons.
        destruct Hp as [Hp|Hp].
        + destruct (Hc _ _ _ Hp) as (q & -> & Hq & Hr). exists q. repeat split; auto;
            destruct (Hr e H); lia || auto.
        + destruct (IHl _ _ _ Hp) as (q & -> & Hq & Hr). exists q. repeat split; auto;
            destruct (Hr e H); lia || auto. }
    rewrite LP_eq in Hp. rewrite size_eq. apply in_app_or in Hp. destruct Hp as [Hp|Hp].
    - destruct (is_okl (mkPel n k)) eqn:Hok; [|destruct Hp].
      destruct Hp as [<-|[]]. exists [mkPel n k]. repeat split; try discriminate;
        destruct H as [<-|[]]; simpl; lia || auto.
    - destruct (Hl _ _ _ Hp) as (q & -> & Hq & Hr). rewrite Fp_snoc.
      destruct (is_okl (mkPel n k)) eqn:Hok.
      + exists (mkPel n k :: q). rewrite <- app_assoc. repeat split; try discriminate;
          destruct H as [<-|H]; simpl; try lia; auto; destruct (Hr e H); lia || auto.
      + exists q. rewrite app_nil_r. repeat split; auto; destruct (Hr e H); lia || auto. }
  split; [exact H|].
  induction l as [|c tl IHl]; intros n path p Hp; [destruct Hp|].
  rewrite LPL_cons in Hp. apply in_app_or in Hp. rewrite sizes_cons.
  destruct Hp as [Hp|Hp].
  - destruct (H _ _ _ _ Hp) as (q & -> & Hq & Hr). exists q. repeat split; auto;
      destruct (Hr e H0); lia || auto.
  - destruct (IHl _ _ _ Hp) as (q & -> & Hq & Hr). exists q. repeat split; auto;
      destruct (Hr e H0); lia || auto.
Qed.

Definition LP_shape := proj1 LP_shape_both.
Definition LPL_shape := proj2 LP_shape_both.

(* ------------------------------------------------------------------ startsWith *)

Lemma starts_with_nil_l : forall p, p <> [] -> starts_with [] p = false.
Proof. intros [|e p] H; [congruence|reflexivity]. Qed.

Lemma starts_with_app_same : forall f a b, starts_with (f ++ a) (f ++ b) = starts_with a b.
Proof. induction f as [|e f IH]; intros; simpl; [reflexivity|]. now rewrite Nat.eqb_refl, IH. Qed.

Lemma starts_with_prefix : forall a b, starts_with (a ++ b) a = true.
Proof.
  intros a b. rewrite <- (app_nil_r a) at 2. rewrite starts_with_app_same.
  destruct b; reflexivity.
Qed.

Lemma starts_with_disjoint_ranges : forall a b lo mid hi,
  b <> [] -> in_range lo mid b -> in_range mid hi a -> starts_with a b = false.
Proof.
  intros a b lo mid hi Hb Hrb Hra. destruct b as [|y b]; [congruence|].
  destruct a as [|x a]; [reflexivity|]. simpl.
  destruct (Hrb y (or_introl eq_refl)) as [Hy _]. destruct (Hra x (or_introl eq_refl)) as [Hx _].
  replace (p_id x =? p_id y) with false by (symmetry; apply Nat.eqb_neq; lia). reflexivity.
Qed.

(* ------------------------------------------------------------------ the filter, front to back *)

(* the same filter read from the front: a path is dropped when the path visited right after it
   starts with it; `nxt` stands for what follows the list *)
Fixpoint im (ps : list (list pel)) (nxt : list pel) : list (list pel) :=
  match ps with
  | [] => []
  | p :: tl => (if starts_with (hd nxt tl) p then [] else [p]) ++ im tl nxt
  end.

Lemma im_cons : forall p tl nxt,
  im (p :: tl) nxt = (if starts_with (hd nxt tl) p then [] else [p]) ++ im tl nxt.
Proof. reflexivity. Qed.

Lemma last_default : forall {A} (l : list A) x d d', last (x :: l) d = last (x :: l) d'.
Proof.
  intros A l. induction l as [|y l IH]; intros x d d'; [reflexivity|].
  change (last (x :: y :: l) d) with (last (y :: l) d).
  change (last (x :: y :: l) d') with (last (y :: l) d'). apply IH.
Qed.

Lemma inner_most_app : forall a b nxt,
  inner_most (a ++ b) nxt = inner_most a nxt ++ inner_most b (last a nxt).
Proof.
  induction a as [|p a IH]; intros b nxt; [reflexivity|].
  simpl inner_most. rewrite IH, <- app_assoc. do 3 f_equal.
  destruct a as [|x a']; [reflexivity|].
  change (last (p :: x :: a') nxt) with (last (x :: a') nxt). apply last_default.
Qed.

Lemma last_rev_hd : forall {A} (l : list A) d, last (rev l) d = hd d l.
Proof.
  intros A l d. destruct l as [|a l]; [reflexivity|]. simpl. now rewrite last_last.
Qed.

Lemma inner_most_rev : forall ps nxt, inner_most (rev ps) nxt = rev (im ps nxt).
Proof.
  induction ps as [|p tl IH]; intros nxt; [reflexivity|].
  simpl rev. rewrite inner_most_app, IH, last_rev_hd. simpl im.
  rewrite rev_app_distr. f_equal.
  simpl. destruct (starts_with (hd nxt tl) p); reflexivity.
Qed.

Lemma hd_app : forall {A} (a b : list A) d, hd d (a ++ b) = hd (hd d b) a.
Proof. intros A [|x a] b d; reflexivity. Qed.

Lemma im_app : forall a b nxt, im (a ++ b) nxt = im a (hd nxt b) ++ im b nxt.
Proof.
  induction a as [|p a IH]; intros b nxt; [reflexivity|].
  simpl. rewrite IH, <- app_assoc. f_equal. now rewrite hd_app.
Qed.

Lemma im_incl : forall ps nxt p, In p (im ps nxt) -> In p ps.
Proof.
  induction ps as [|x tl IH]; intros nxt p Hp; [destruct Hp|].
  simpl in Hp. apply in_app_or in Hp. destruct Hp as [Hp|Hp].
  - destruct (starts_with (hd nxt tl) x); [destruct Hp|]. destruct Hp as [<-|[]]. now left.
  - right. eapply IH; eauto.
Qed.

(* what follows only matters through "does it start with the last path" *)
Lemma im_nxt : forall ps q q',
  (forall p, In p ps -> starts_with q p = starts_with q' p) -> im ps q = im ps q'.
Proof.
  induction ps as [|x tl IH]; intros q q' H; [reflexivity|].
  simpl. rewrite (IH q q') by (intros; apply H; now right). f_equal.
  destruct tl; simpl; [|reflexivity]. rewrite H by (now left). reflexivity.
Qed.

Lemma im_nonempty : forall ps q, ps <> [] -> (forall p, In p ps -> starts_with q p = false) ->
  im ps q <> [].
Proof.
  induction ps as [|x tl IH]; intros q Hne H; [congruence|].
  destruct tl as [|y tl'].
  - simpl. rewrite H by (now left). discriminate.
  - simpl im. intros Heq. apply app_eq_nil in Heq. destruct Heq as [_ Heq].
    revert Heq. apply IH; [discriminate|]. intros. apply H. now right.
Qed.

(* ------------------------------------------------------------------ leaves of the OKL loop forest *)

Definition G (n : nat) (path : list pel) (s : stmt) := im (LP n path s) [].
Definition GL (n : nat) (path : list pel) (l : list stmt) := im (LPL n path l) [].

(* a path from a later subtree (or nothing) never starts with a path below s *)
Lemma later_not_prefix : forall s n path tl p,
  In p (LP n path s) ->
  starts_with (hd [] (LPL (n + size s) path tl)) p = false.
Proof.
  intros s n path tl p Hp.
  destruct (LP_shape _ _ _ _ Hp) as (q & -> & Hq & Hr).
  destruct (LPL (n + size s) path tl) as [|p1 rest] eqn:E.
  - simpl. apply starts_with_nil_l. destruct (Fp path); [assumption|discriminate].
  - simpl. assert (H1 : In p1 (LPL (n + size s) path tl)) by (rewrite E; now left).
    destruct (LPL_shape _ _ _ _ H1) as (q1 & -> & Hq1 & Hr1).
    rewrite starts_with_app_same. eapply starts_with_disjoint_ranges; eauto.
Qed.

Lemma GL_cons : forall n path c tl,
  GL n path (c :: tl) = G n path c ++ GL (n + size c) path tl.
Proof.
  intros. unfold GL, G. rewrite LPL_cons, im_app. f_equal.
  apply im_nxt. intros p Hp. rewrite later_not_prefix by assumption.
  symmetry. apply starts_with_nil_l.
  destruct (LP_shape _ _ _ _ Hp) as (q & -> & Hq & _).
  destruct (Fp path); [assumption|discriminate].
Qed.

Lemma GL_nil : forall n path, GL n path [] = [].
Proof. reflexivity. Qed.

Lemma G_eq : forall n path k kids,
  G n path (Node k kids)
  = if is_okl (mkPel n k)
    then match LPL (S n) (path ++ [mkPel n k]) kids with
         | [] => [Fp path ++ [mkPel n k]]
         | _ => GL (S n) (path ++ [mkPel n k]) kids
         end
    else GL (S n) (path ++ [mkPel n k]) kids.
Proof.
  intros. unfold G, GL. rewrite LP_eq.
  destruct (is_okl (mkPel n k)) eqn:Hok; [|reflexivity].
  change ([Fp path ++ [mkPel n k]] ++ LPL (S n) (path ++ [mkPel n k]) kids)
    with ((Fp path ++ [mkPel n k]) :: LPL (S n) (path ++ [mkPel n k]) kids).
  rewrite im_cons.
  destruct (LPL (S n) (path ++ [mkPel n k]) kids) as [|p1 rest] eqn:E.
  - cbn [hd]. rewrite starts_with_nil_l; [reflexivity|]. destruct (Fp path); discriminate.
  - assert (H1 : In p1 (LPL (S n) (path ++ [mkPel n k]) kids)) by (rewrite E; now left).
    destruct (LPL_shape _ _ _ _ H1) as (q1 & Hp1 & _).
    rewrite Fp_snoc, Hok in Hp1. cbn [hd]. rewrite Hp1, starts_with_prefix. reflexivity.
Qed.

Lemma GL_nil_iff : forall n path l, GL n path l = [] <-> LPL n path l = [].
Proof.
  intros. split; intros H.
  - destruct (LPL n path l) eqn:E; [reflexivity|]. exfalso. revert H. unfold GL. rewrite E.
    apply im_nonempty; [discriminate|]. intros p Hp. apply starts_with_nil_l.
    rewrite <- E in Hp. destruct (LPL_shape _ _ _ _ Hp) as (q & -> & Hq & _).
    destruct (Fp path); [assumption|discriminate].
  - unfold GL. now rewrite H.
Qed.

Lemma G_incl : forall n path s p, In p (G n path s) -> In p (LP n path s).
Proof. intros. eapply im_incl; eauto. Qed.

Lemma GL_incl : forall n path l p, In p (GL n path l) -> In p (LPL n path l).
Proof. intros. eapply im_incl; eauto. Qed.

(* the checker's innerMostPaths is the reversed list of leaves *)
Lemma innerMostPaths_leaves : forall k,
  innerMostPaths (visits k) = rev (GL 1 [root] (k_body k)).
Proof.
  intros k. unfold innerMostPaths. rewrite inner_most_rev. f_equal.
Qed.
