(* C22 proofs, part 1: induction principle for kernel trees, unfolding equations of the DFS, and
   the list of statement kinds in visiting order (everything in the checker that does not look at
   the path is a function of that list). *)
From Coq Require Import List Bool Arith ZArith Lia.
From OV.C22 Require Import Model Spec Statements.
Import ListNotations.

Lemma stmt_ind' (P : stmt -> Prop) :
  (forall k kids, Forall P kids -> P (Node k kids)) -> forall s, P s.
Proof.
  intros H. fix IH 1. intros [k kids]. apply H.
  induction kids as [|c tl IHl]; constructor; [apply IH | exact IHl].
Qed.

Definition sizes (l : list stmt) : nat := list_sum (map size l).

Lemma size_eq : forall k kids, size (Node k kids) = S (sizes kids).
Proof.
  intros k kids. unfold sizes. simpl. f_equal.
  induction kids as [|c tl IH]; simpl; [reflexivity|]. now rewrite IH.
Qed.

Lemma size_pos : forall s, 1 <= size s.
Proof. intros [k kids]. rewrite size_eq. lia. Qed.

Lemma sizes_cons : forall c tl, sizes (c :: tl) = size c + sizes tl.
Proof. reflexivity. Qed.

Lemma iter_eq : forall n path k kids,
  iter n path (Node k kids)
  = (mkPel n k, path) :: iter_list (S n) (path ++ [mkPel n k]) kids.
Proof.
  intros n path k kids. simpl. f_equal.
  generalize (S n). induction kids as [|c tl IH]; intros m; simpl; [reflexivity|].
  now rewrite IH.
Qed.

Lemma iter_list_cons : forall n path c tl,
  iter_list n path (c :: tl) = iter n path c ++ iter_list (n + size c) path tl.
Proof. reflexivity. Qed.

Global Opaque iter size.

(* ------------------------------------------------------------------ kinds in visiting order *)

Lemma kinds_iter : forall s n path,
  map (fun x : visit => p_kind (fst x)) (iter n path s) = kinds s.
Proof.
  induction s as [k kids IH] using stmt_ind'. intros n path.
  rewrite iter_eq. simpl. f_equal.
  generalize (S n) (path ++ [mkPel n k]). clear n path.
  induction IH as [|c tl Hc _ IHl]; intros m p; [reflexivity|].
  rewrite iter_list_cons, map_app, Hc, IHl. reflexivity.
Qed.

Lemma kinds_iter_list : forall l n path,
  map (fun x : visit => p_kind (fst x)) (iter_list n path l) = flat_map kinds l.
Proof.
  induction l as [|c tl IH]; intros n path; [reflexivity|].
  rewrite iter_list_cons, map_app, kinds_iter, IH. reflexivity.
Qed.

(* predicates on visits that only look at the kind of the visited statement *)
Lemma filter_map_kind : forall (f : kind -> bool) (vs : list visit),
  map (fun x : visit => p_kind (fst x)) (filter (fun x => f (p_kind (fst x))) vs)
  = filter f (map (fun x : visit => p_kind (fst x)) vs).
Proof.
  intros f vs. induction vs as [|x tl IH]; simpl; [reflexivity|].
  destruct (f (p_kind (fst x))); simpl; now rewrite IH.
Qed.

Lemma forallb_map : forall {A B} (g : A -> B) (f : B -> bool) l,
  forallb f (map g l) = forallb (fun x => f (g x)) l.
Proof. intros. induction l; simpl; [reflexivity|]. now rewrite IHl. Qed.

Lemma existsb_map : forall {A B} (g : A -> B) (f : B -> bool) l,
  existsb f (map g l) = existsb (fun x => f (g x)) l.
Proof. intros. induction l; simpl; [reflexivity|]. now rewrite IHl. Qed.

Lemma forallb_flat_map : forall {A B} (g : A -> list B) (f : B -> bool) l,
  forallb f (flat_map g l) = forallb (fun x => forallb f (g x)) l.
Proof. intros. induction l; simpl; [reflexivity|]. now rewrite forallb_app, IHl. Qed.

Lemma existsb_flat_map : forall {A B} (g : A -> list B) (f : B -> bool) l,
  existsb f (flat_map g l) = existsb (fun x => existsb f (g x)) l.
Proof. intros. induction l; simpl; [reflexivity|]. now rewrite existsb_app, IHl. Qed.

Lemma forallb_ext_in : forall {A} (f g : A -> bool) l,
  (forall x, In x l -> f x = g x) -> forallb f l = forallb g l.
Proof.
  intros A f g l H. induction l as [|a tl IH]; simpl; [reflexivity|].
  rewrite H by (now left). rewrite IH; [reflexivity|]. intros x Hx. apply H. now right.
Qed.

Lemma existsb_ext_in : forall {A} (f g : A -> bool) l,
  (forall x, In x l -> f x = g x) -> existsb f l = existsb g l.
Proof.
  intros A f g l H. induction l as [|a tl IH]; simpl; [reflexivity|].
  rewrite H by (now left). rewrite IH; [reflexivity|]. intros x Hx. apply H. now right.
Qed.

Lemma Forall_forallb_eq : forall {A} (P : A -> Prop) (f g : A -> bool) l,
  Forall P l -> (forall x, P x -> f x = g x) -> forallb f l = forallb g l.
Proof.
  intros A P f g l HF H. induction HF as [|a tl Ha _ IH]; simpl; [reflexivity|].
  now rewrite (H a Ha), IH.
Qed.

Lemma Forall_existsb_eq : forall {A} (P : A -> Prop) (f g : A -> bool) l,
  Forall P l -> (forall x, P x -> f x = g x) -> existsb f l = existsb g l.
Proof.
  intros A P f g l HF H. induction HF as [|a tl Ha _ IH]; simpl; [reflexivity|].
  now rewrite (H a Ha), IH.
Qed.

(* the rule functions of Spec.v that only look at kinds, as functions of `kinds` *)
Definition kind_is (a : lattr) (k : kind) : bool :=
  match okl_attr k with Some b => lattr_eqb a b | None => false end.

Lemma has_attr_kinds : forall a s, has_attr a s = existsb (kind_is a) (kinds s).
Proof.
  intros a. induction s as [k kids IH] using stmt_ind'.
  simpl. unfold kind_is at 1. f_equal.
  rewrite existsb_flat_map. apply (Forall_existsb_eq _ _ _ _ IH). auto.
Qed.

Definition loop_kind_ok (k : kind) : bool :=
  match k with
  | KFor o i h => if o || i then negb (o && i) && header_ok h else true
  | _ => true
  end.

Lemma loops_ok_kinds : forall s, loops_ok s = forallb loop_kind_ok (kinds s).
Proof.
  induction s as [k kids IH] using stmt_ind'.
  simpl. f_equal.
  rewrite forallb_flat_map. apply (Forall_forallb_eq _ _ _ _ IH). auto.
Qed.
