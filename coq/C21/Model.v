(* C21/Model.v — the OpenMP reading of C20's mini-OKL (openmp.cpp: `#pragma omp parallel for` before each
   outer-most @outer loop and nowhere else; serial.cpp: inner loops stay loops, barriers become `;`,
   @exclusive / @shared / the exclusive index are declared inside the outer body).

   One task per iteration of the outer-most @outer loop nest (outer tuple b).  A task executes its body in
   program order: inside the current inner loop the inner tuples in loop order, each to the end of the loop
   body, then the next inner loop.  That is the statement machine of C20 with the block-internal choice
   determinised: the next step of task b is the next statement of the first inner tuple that has statements left,
   or, when none has, the end of the inner loop.  Everything declared inside the outer body (the block record:
   @shared arrays, @exclusive values, locals) belongs to the task; only global memory is common.
   Tasks interleave arbitrarily at statement granularity: a schedule is a list of task numbers.
   OpenMP threads are a restriction of this (a thread runs the tasks of its chunk one after the other), so
   statements over all schedules cover every thread count, chunk size and schedule kind.
   `@atomic x += v` is one step (split = false: what `#pragma omp atomic` provides) or a load step and a store
   step (split = true: the pragma is missing). *)
From Coq Require Import List ZArith Bool Arith.
From OV.C20 Require Import Util Lang Spec Model.
Import ListNotations.

Fixpoint first_busy (i : nat) (thr : list priv) : option nat :=
  match thr with
  | [] => None
  | p :: r => if is_nil (p_k p) then first_busy (S i) r else Some i
  end.

Definition next_label (b : nat) (B : blk) : label :=
  match first_busy 0 (k_thr B) with Some i => LThr b i | None => LBar b end.

Definition ostep (split : bool) (E : senv) (secs : list section) (b : nat) (s : gst) : option gst :=
  match nth_error (s_blks s) b with
  | Some B => gstep split E secs (next_label b B) s
  | None => None
  end.

Fixpoint oruns (split : bool) (E : senv) (secs : list section) (sched : list nat) (s : gst) : option gst :=
  match sched with
  | [] => Some s
  | b :: r => match ostep split E secs b s with Some s' => oruns split E secs r s' | None => None end
  end.

Definition omp_oblock (split : bool) (v : env) (ob : oblock) (sched : list nat) (G : mem) : option mem :=
  let E := mk_senv (v_args v) ob in
  match oruns split E (ob_secs ob) sched (init_gst E (v_uninit v) ob (extents (v_args v) (ob_odims ob)) G) with
  | Some s => if finished (ob_secs ob) s then Some (s_G s) else None
  | None => None
  end.

(* the parallel regions of the outer blocks run one after the other (implicit barrier at the end of each) *)
Fixpoint run_omp_gen (split : bool) (scheds : list (list nat)) (k : kernel) (v : env) (G : mem) : option mem :=
  match k, scheds with
  | [], [] => Some G
  | ob :: k', sc :: scheds' =>
    match omp_oblock split v ob sc G with
    | Some G' => run_omp_gen split scheds' k' v G'
    | None => None
    end
  | _, _ => None
  end.

Definition run_omp := run_omp_gen false.

(* a schedule produced by OpenMP threads: `assign` lists, per thread, the outer tuples it executes, in order;
   the steps of a tuple all come before the steps of the next tuple of the same thread *)
Fixpoint steps_before (a b : nat) (sched : list nat) : bool :=      (* no step of a after a step of b *)
  match sched with
  | [] => true
  | x :: r => if Nat.eqb x b then negb (existsb (Nat.eqb a) r) && steps_before a b r else steps_before a b r
  end.

Fixpoint chunk_ordered (chunk : list nat) (sched : list nat) : bool :=
  match chunk with
  | [] => true
  | a :: r => forallb (fun b => steps_before a b sched) r && chunk_ordered r sched
  end.

Definition thread_schedule (assign : list (list nat)) (sched : list nat) : bool :=
  forallb (fun chunk => chunk_ordered chunk sched) assign.

(* ------------------------------------------------------------------ what a step reads and writes (for race_free) *)
Section Reads.
  Variables (E : senv) (lo li : nat) (G Sh : mem) (ex lc : store).

  (* global cells read while evaluating e *)
  Fixpoint greads (e : expr) : list (nat * Z) :=
    match e with
    | EBin _ a b => greads a ++ greads b
    | EModP a _ => greads a
    | ERdG a i => (a, eval E lo li G Sh ex lc i) :: greads i
    | ERdOwn a d => [(a, own_idx E lo li a d)]
    | ERdSh _ i => greads i
    | _ => []
    end.
End Reads.

Definition item_exprs (it : item) : list expr :=
  match it with
  | IS (SLoc _ e) | IS (SExc _ e) | IS (SWrOwn _ _ e) | IS (SWrBlk _ _ e) | IS (SWrSh _ _ e) => [e]
  | IS (SAtom _ i e) => [i; e]
  | IS (SIf c _ _) => [c]
  | _ => []
  end.

(* the global cells the next step of thread (lo, li) reads non-atomically *)
Definition step_greads (E : senv) (lo li : nat) (G Sh : mem) (p : priv) : list (nat * Z) :=
  match p_k p with
  | it :: _ => flat_map (greads E lo li G Sh (p_ex p) (p_lo p)) (item_exprs it)
  | [] => []
  end.

Definition plain_write (act : action) : option (nat * Z) := match act with AWrG a i _ => Some (a, i) | _ => None end.
Definition atomic_update (act : action) : option (nat * Z) := match act with AAddG a i _ => Some (a, i) | _ => None end.

(* two steps race when one stores (plainly) to a global cell the other reads, stores to or updates atomically,
   or one atomically updates a cell the other reads or stores to; two atomic updates of one cell do not race *)
Definition races (r1 : list (nat * Z)) (a1 : action) (r2 : list (nat * Z)) (a2 : action) : Prop :=
  (exists c, plain_write a1 = Some c /\ (In c r2 \/ plain_write a2 = Some c \/ atomic_update a2 = Some c)) \/
  (exists c, plain_write a2 = Some c /\ (In c r1 \/ atomic_update a1 = Some c)) \/
  (exists c, atomic_update a1 = Some c /\ In c r2) \/
  (exists c, atomic_update a2 = Some c /\ In c r1).
