(* C21/Proofs.v — omp_eq_serial, existence of complete schedules, race_free. *)
From Coq Require Import List ZArith Lia Bool Arith.
From OV.C20 Require Import Util Confluence Lang Spec Model Frame Diamond SeqRun Proofs.
From OV.C21 Require Import Model Spec.
Import ListNotations.
Open Scope nat_scope.

(* every OpenMP schedule is a schedule of the launch model *)
Lemma oruns_gruns E secs : forall sched s e, oruns false E secs sched s = Some e ->
  exists gs, gruns false E secs gs s = Some e /\ length gs = length sched.
Proof.
  induction sched as [|b r IH]; simpl; intros s e H.
  - exists []. auto.
  - unfold ostep in H. destruct (nth_error (s_blks s) b) as [B|]; try discriminate.
    destruct (gstep false E secs (next_label b B) s) as [s'|] eqn:Hs; try discriminate.
    destruct (IH s' e H) as [gs [Hg Hl]]. exists (next_label b B :: gs). simpl. rewrite Hs. auto.
Qed.

Theorem omp_oblock_eq_seq v ob sched G G' :
  independent_ob ob = true -> omp_oblock false v ob sched G = Some G' -> G' = seq_oblock v G ob.
Proof.
  unfold omp_oblock. intros Hind H.
  destruct (oruns false _ _ sched _) as [e|] eqn:R; try discriminate.
  destruct (oruns_gruns _ _ _ _ _ R) as [gs [Hg _]].
  apply (launch_oblock_eq_seq v ob gs G G' Hind). unfold launch_oblock. rewrite Hg. exact H.
Qed.

Theorem omp_eq_serial : forall k v scheds G G',
  independent k = true -> run_omp scheds k v G = Some G' -> G' = run_serial k v G.
Proof.
  unfold run_omp, run_serial, run_seq, independent.
  induction k as [|ob k IH]; intros v scheds G G' Hind HL; destruct scheds as [|sc scheds]; simpl in *; try discriminate.
  - inversion HL; auto.
  - apply andb_true_iff in Hind as [H1 H2].
    destruct (omp_oblock false v ob sc G) as [G1|] eqn:HL1; try discriminate.
    apply omp_oblock_eq_seq in HL1; auto. subst G1. eapply IH; eauto.
Qed.

(* ------------------------------------------------------------------ complete OpenMP schedules exist *)

Lemma first_busy_none : forall thr i, first_busy i thr = None -> forallb (fun p => is_nil (p_k p)) thr = true.
Proof. induction thr; simpl; intros i H; auto. destruct (is_nil (p_k a)); try discriminate. simpl. eauto. Qed.

Lemma first_busy_some : forall thr i j, first_busy i thr = Some j ->
  exists p, nth_error thr (j - i) = Some p /\ p_k p <> [] /\ i <= j.
Proof.
  induction thr; simpl; intros i j H; try discriminate.
  destruct (is_nil (p_k a)) eqn:Hn.
  - destruct (IHthr (S i) j H) as [p [Hp [Hk Hle]]]. exists p. split; [|split]; auto; try lia.
    replace (j - i) with (S (j - S i)) by lia. exact Hp.
  - inversion H; subst. exists a. rewrite Nat.sub_diag. split; [reflexivity|]. split; [|lia].
    destruct (p_k a); simpl in Hn; congruence.
Qed.

Lemma tstep_some split E lo li G Sh p : p_k p <> [] -> tstep split E lo li G Sh p <> None.
Proof. unfold tstep. destruct (p_k p) as [|[s|j c n s|a i v] k]; intros H; try congruence; discriminate. Qed.

Section Progress.
  Variables (E : senv) (secs : list section).
  Hypothesis Hind : forall s, In s secs -> okS E (sec_wr s) false (sec_body s) = true.

  Lemma ostep_progress s : Inv E secs s -> finished secs s = false -> exists b s', ostep false E secs b s = Some s'.
  Proof.
    intros HI Hf. unfold finished in Hf.
    assert (Hex : exists B, In B (s_blks s) /\ Nat.eqb (k_phase B) (length secs) = false).
    { clear HI. induction (s_blks s) as [|B r IH]; simpl in Hf; try discriminate.
      destruct (Nat.eqb (k_phase B) (length secs)) eqn:HB.
      - simpl in Hf. destruct (IH Hf) as [B' [H1 H2]]. exists B'. split; auto. right; auto.
      - exists B. split; auto. left; auto. }
    destruct Hex as [B [Hin Hph]]. apply In_nth_error in Hin as [b HB]. apply Nat.eqb_neq in Hph.
    destruct (HI b B HB) as [_ [_ [_ Hle]]].
    exists b. unfold ostep. rewrite HB. unfold next_label.
    destruct (first_busy 0 (k_thr B)) as [i|] eqn:Hfb.
    - destruct (first_busy_some _ _ _ Hfb) as [p [Hp [Hk _]]]. rewrite Nat.sub_0_r in Hp.
      simpl. rewrite HB, Hp.
      destruct (tstep false E b i (s_G s) (k_sh B) p) as [[p' act]|] eqn:Ht.
      + eexists; reflexivity.
      + exfalso. eapply tstep_some; eauto.
    - apply first_busy_none in Hfb. simpl. rewrite HB.
      assert (Hlt : (k_phase B <? length secs) = true) by (apply Nat.ltb_lt; lia).
      rewrite Hlt, Hfb. simpl. eexists; reflexivity.
  Qed.

  Lemma omp_complete_from : forall n s, Inv E secs s ->
    (forall gs e, gruns false E secs gs s = Some e -> length gs <= n) ->
    exists os e, oruns false E secs os s = Some e /\ finished secs e = true.
  Proof.
    induction n; intros s HI Hb.
    - destruct (finished secs s) eqn:Hf; [exists [], s; auto|].
      destruct (ostep_progress s HI Hf) as [b [s' Hs]].
      unfold ostep in Hs. destruct (nth_error (s_blks s) b) as [B|]; try discriminate.
      specialize (Hb [next_label b B] s'). simpl in Hb. rewrite Hs in Hb. specialize (Hb eq_refl). lia.
    - destruct (finished secs s) eqn:Hf; [exists [], s; auto|].
      destruct (ostep_progress s HI Hf) as [b [s' Hs]].
      pose proof Hs as Hs0.
      unfold ostep in Hs. destruct (nth_error (s_blks s) b) as [B|] eqn:HB; try discriminate.
      destruct (IHn s') as [os [e [Ho He]]].
      + eapply Inv_step; eauto.
      + intros gs e Hg. specialize (Hb (next_label b B :: gs) e). simpl in Hb. rewrite Hs in Hb.
        specialize (Hb Hg). lia.
      + exists (b :: os), e. simpl. rewrite Hs0. auto.
  Qed.
End Progress.

Theorem omp_oblock_complete_exists v ob G : independent_ob ob = true ->
  exists sched, omp_oblock false v ob sched G = Some (seq_oblock v G ob).
Proof.
  intros Hind. destruct (seq_schedule_exists v ob G) as [gs0 H0].
  unfold launch_oblock in H0. unfold omp_oblock.
  set (E := mk_senv (v_args v) ob) in *.
  set (s0 := init_gst E (v_uninit v) ob (extents (v_args v) (ob_odims ob)) G) in *.
  pose proof (independent_ob_okS v ob Hind) as Hok. fold E in Hok.
  assert (HI : Inv E (ob_secs ob) s0) by (apply init_Inv; auto).
  destruct (gruns false E (ob_secs ob) gs0 s0) as [e0|] eqn:R0; try discriminate.
  destruct (finished (ob_secs ob) e0) eqn:F0; try discriminate.
  rewrite gruns_runs in R0.
  assert (T0 : forall l, gstep false E (ob_secs ob) l e0 = None).
  { apply finished_terminal; auto. eapply runs_Inv; eauto. intros. eapply Inv_step; eauto. }
  destruct (omp_complete_from E (ob_secs ob) Hok (length gs0) s0 HI) as [os [e [Ho He]]].
  { intros gs e Hg. rewrite gruns_runs in Hg.
    eapply (run_length_bound gst label (gstep false E (ob_secs ob)) (Inv E (ob_secs ob)) label_dec); eauto.
    - intros. eapply Inv_step; eauto.
    - intros. eapply diamond; eauto. }
  exists os. rewrite Ho, He.
  destruct (oruns_gruns _ _ _ _ _ Ho) as [gs [Hg _]]. rewrite gruns_runs in Hg.
  assert (e = e0).
  { eapply (unique_terminal gst label (gstep false E (ob_secs ob)) (Inv E (ob_secs ob)) label_dec); eauto.
    - intros. eapply Inv_step; eauto.
    - intros. eapply diamond; eauto.
    - intros l. apply finished_terminal; auto. eapply runs_Inv; eauto. intros. eapply Inv_step; eauto. }
  subst. inversion H0; auto.
Qed.

Theorem omp_complete_exists : forall k v G, independent k = true ->
  exists scheds, run_omp scheds k v G = Some (run_serial k v G).
Proof.
  unfold run_omp, run_serial, run_seq, independent. induction k as [|ob k IH]; intros v G Hind.
  - exists []. reflexivity.
  - simpl in Hind. apply andb_true_iff in Hind as [H1 H2].
    destruct (omp_oblock_complete_exists v ob G H1) as [sc Hsc]. destruct (IH v (seq_oblock v G ob) H2) as [scs Hscs].
    exists (sc :: scs). simpl. rewrite Hsc. exact Hscs.
Qed.

(* ------------------------------------------------------------------ race freedom *)

Lemma greads_readable E W lo li G Sh ex lc e a idx :
  okE E W e = true -> In (a, idx) (greads E lo li G Sh ex lc e) ->
  kind_of E a = KIn \/ exists st d, kind_of E a = KThr st /\ d < st /\ idx = own_idx E lo li a d.
Proof.
  unfold okE. induction e; simpl; intros Hok Hin; try contradiction.
  - apply andb_true_iff in Hok as [H1 H2]. apply in_app_or in Hin as [Hin|Hin]; auto.
  - auto.
  - apply andb_true_iff in Hok as [H1 H2]. destruct Hin as [Heq|Hin]; auto.
    inversion Heq; subst. left. unfold kind_of. destruct (nth a (e_kinds E) KNone); try discriminate; auto.
  - destruct Hin as [Heq|[]]. inversion Heq; subst. right. unfold kind_of.
    destruct (nth a (e_kinds E) KNone) eqn:K; try discriminate. exists st, d. repeat split; auto.
    apply Nat.ltb_lt; auto.
  - apply andb_true_iff in Hok as [H1 H2]. auto.
Qed.

Lemma step_greads_readable E W lo li G Sh p a idx :
  ok_priv E W li p -> In (a, idx) (step_greads E lo li G Sh p) ->
  kind_of E a = KIn \/ exists st d, kind_of E a = KThr st /\ d < st /\ idx = own_idx E lo li a d.
Proof.
  unfold ok_priv, step_greads. destruct (p_k p) as [|it k]; simpl; intros Hok Hin; try contradiction.
  apply andb_true_iff in Hok as [Hit _].
  apply in_flat_map in Hin as [e [He Hin]].
  assert (Hoke : okE E W e = true).
  { destruct it as [s|j c n s|b i v]; simpl in He; try contradiction.
    destruct s; simpl in He, Hit; unfold okS in Hit; simpl in Hit; try contradiction;
      repeat match goal with H : _ && _ = true |- _ => apply andb_true_iff in H as [? ?] end;
      repeat match goal with H : _ \/ _ |- _ => destruct H end; try contradiction; subst; auto. }
  eapply greads_readable; eauto.
Qed.

Lemma allowed_writes_disjoint E W W' lo li lo' li' a i v b j w :
  (lo, li) <> (lo', li') -> li < e_mi E -> li' < e_mi E ->
  allowed E W lo li (AWrG a i v) -> allowed E W' lo' li' (AWrG b j w) -> (a, i) <> (b, j).
Proof.
  intros Hne Hl Hl' H1 H2 Heq. inversion Heq; subst b j. simpl in H1, H2.
  destruct H1 as [[st [d [K [Hd Hi]]]]|[st [d [K [Hd [Hz Hi]]]]]];
  destruct H2 as [[st' [d' [K' [Hd' Hi']]]]|[st' [d' [K' [Hd' [Hz' Hi']]]]]]; try congruence.
  - assert (st' = st) by congruence. subst st'. rewrite Hi in Hi'.
    apply own_idx_inj in Hi'; rewrite ?(kind_gstride _ _ _ K); auto. destruct Hi'; subst; congruence.
  - assert (st' = st) by congruence. subst st'. rewrite Hi in Hi'.
    apply blk_idx_inj in Hi'; rewrite ?(kind_gstride_b _ _ _ K); auto. subst; congruence.
Qed.

Lemma no_race E W W' lo li lo' li' G Sh Sh' p q a1 a2 :
  (lo, li) <> (lo', li') -> li < e_mi E -> li' < e_mi E ->
  ok_priv E W li p -> ok_priv E W' li' q ->
  allowed E W lo li a1 -> allowed E W' lo' li' a2 ->
  ~ races (step_greads E lo li G Sh p) a1 (step_greads E lo' li' G Sh' q) a2.
Proof.
  intros Hne Hl Hl' Hp Hq H1 H2 Hr.
  assert (Hne' : (lo', li') <> (lo, li)) by congruence.
  (* a plain store of one thread never hits a cell the other thread reads *)
  assert (Hwr : forall lo1 li1 lo2 li2 W1 W2 S2 (r : priv) a i v, (lo1, li1) <> (lo2, li2) -> li1 < e_mi E -> li2 < e_mi E ->
            allowed E W1 lo1 li1 (AWrG a i v) -> ok_priv E W2 li2 r -> ~ In (a, i) (step_greads E lo2 li2 G S2 r)).
  { intros lo1 li1 lo2 li2 W1 W2 S2 r a i v Hn Hl1 Hl2 Hal Hok Hin.
    destruct (step_greads_readable _ _ _ _ _ _ _ _ _ Hok Hin) as [K|[st [d [K [Hd Hi]]]]]; simpl in Hal.
    - destruct Hal as [[st' [d' [K' _]]]|[st' [d' [K' _]]]]; congruence.
    - destruct Hal as [[st' [d' [K' [Hd' Hi']]]]|[st' [d' [K' _]]]]; try congruence.
      assert (st' = st) by congruence. subst st'. rewrite Hi in Hi'.
      apply own_idx_inj in Hi'; rewrite ?(kind_gstride _ _ _ K); auto. destruct Hi'; subst; congruence. }
  (* an atomic update never hits a cell that is read *)
  assert (Hat : forall lo2 li2 W2 S2 (r : priv) a i, kind_of E a = KAtom -> ok_priv E W2 li2 r ->
            ~ In (a, i) (step_greads E lo2 li2 G S2 r)).
  { intros lo2 li2 W2 S2 r a i K Hok Hin.
    destruct (step_greads_readable _ _ _ _ _ _ _ _ _ Hok Hin) as [K'|[st [d [K' _]]]]; congruence. }
  destruct Hr as [[c [Hw Hc]]|[[c [Hw Hc]]|[[c [Hu Hin]]|[c [Hu Hin]]]]].
  - destruct a1 as [|a i v|a i v|s i v]; simpl in Hw; try discriminate. inversion Hw; subst c.
    destruct Hc as [Hin|[Hw2|Hu2]].
    + exact (Hwr lo li lo' li' W W' Sh' q a i v Hne Hl Hl' H1 Hq Hin).
    + destruct a2 as [|b j w|b j w|s j w]; simpl in Hw2; try discriminate. inversion Hw2; subst.
      eapply (allowed_writes_disjoint E W W' lo li lo' li'); [exact Hne|exact Hl|exact Hl'|exact H1|exact H2|reflexivity].
    + destruct a2 as [|b j w|b j w|s j w]; simpl in Hu2; try discriminate. inversion Hu2; subst.
      simpl in H1, H2. destruct H1 as [[st [d [K _]]]|[st [d [K _]]]]; congruence.
  - destruct a2 as [|a i v|a i v|s i v]; simpl in Hw; try discriminate. inversion Hw; subst c.
    destruct Hc as [Hin|Hu1].
    + exact (Hwr lo' li' lo li W' W Sh p a i v Hne' Hl' Hl H2 Hp Hin).
    + destruct a1 as [|b j w|b j w|s j w]; simpl in Hu1; try discriminate. inversion Hu1; subst.
      simpl in H1, H2. destruct H2 as [[st [d [K _]]]|[st [d [K _]]]]; congruence.
  - destruct a1 as [|a i v|a i v|s i v]; simpl in Hu; try discriminate. inversion Hu; subst c.
    exact (Hat lo' li' W' Sh' q a i H1 Hq Hin).
  - destruct a2 as [|a i v|a i v|s i v]; simpl in Hu; try discriminate. inversion Hu; subst c.
    exact (Hat lo li W Sh p a i H2 Hp Hin).
Qed.

(* a step of task b leaves the records of the other tasks alone: what is declared inside the outer body
   (@shared arrays, @exclusive values, locals, the exclusive index) is private to the iteration *)
Lemma ostep_private E secs b s s' : ostep false E secs b s = Some s' ->
  forall c, c <> b -> nth_error (s_blks s') c = nth_error (s_blks s) c.
Proof.
  unfold ostep. intros H c Hc. destruct (nth_error (s_blks s) b) as [B|] eqn:HB; try discriminate.
  unfold next_label in H. destruct (first_busy 0 (k_thr B)) as [i|].
  - apply thr_inv in H as [B' [p [p' [act [_ [_ [_ ->]]]]]]]. simpl. apply nth_error_upd_neq. auto.
  - apply bar_inv in H as [B' [_ [_ [_ ->]]]]. simpl. apply nth_error_upd_neq. auto.
Qed.
