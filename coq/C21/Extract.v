(* Extraction of the executable OpenMP model and the Serial reference (ExtrOcamlBasic only). *)
From Coq Require Import Extraction ExtrOcamlBasic.
From OV.C20 Require Import Util Lang Spec Model.
From OV.C21 Require Import Model Spec.
Extraction Language OCaml.
Extraction "../_work/extract/C21/model.ml"
  run_seq run_serial in_bounds independent ostep gstep init_gst finished mk_senv extents omp_oblock run_omp thread_schedule.
