(* C21/Spec.v — the reference: the Serial translation's reading of the kernel is C20's sequential reading. *)
From Coq Require Import List ZArith.
From OV.C20 Require Import Util Lang Spec.

Definition run_serial (k : kernel) (v : env) (G : mem) : mem := run_seq k v G.

(* an array that every outer block of the kernel only updates with @atomic += *)
Definition atomic_array (k : kernel) (a : nat) : Prop := forall ob, In ob k -> nth a (ob_kinds ob) KNone = KAtom.
