(* C21 — OpenMP kernels are deterministic for every thread count and schedule: the OpenMP reading of the
   mini-OKL (C21/Model.v) against the Serial reading (C20/Spec.v run_seq). *)
From Coq Require Import List ZArith Bool Arith.
From OV.C20 Require Import Util Confluence Lang Spec Model Frame Diamond SeqRun Proofs Examples.
From OV.C21 Require Import Model Spec Proofs.
Import ListNotations.

(* omp_eq_serial.  For every kernel that passes the independence check and EVERY complete schedule (per parallel
   region, any sequence of "task b executes its next statement" that ends with all tasks finished: any
   distribution of the outer iterations over any number of threads, interleaved at statement granularity),
   the final global memory is the Serial one. *)
Theorem omp_eq_serial : forall (k : kernel) (v : env) (scheds : list (list nat)) (G G' : mem),
  independent k = true -> run_omp scheds k v G = Some G' -> G' = run_serial k v G.
Proof. exact Proofs.omp_eq_serial. Qed.
Print Assumptions omp_eq_serial.

Theorem omp_complete_exists : forall (k : kernel) (v : env) (G : mem), independent k = true ->
  exists scheds, run_omp scheds k v G = Some (run_serial k v G).
Proof. exact Proofs.omp_complete_exists. Qed.
Print Assumptions omp_complete_exists.

(* every OpenMP schedule is one of the schedules of C20's launch model *)
Theorem omp_schedule_is_launch_schedule : forall E secs sched s e,
  oruns false E secs sched s = Some e -> exists gs, gruns false E secs gs s = Some e /\ length gs = length sched.
Proof. exact Proofs.oruns_gruns. Qed.
Print Assumptions omp_schedule_is_launch_schedule.

(* race_free.  In every reachable state, the next steps of two different (outer tuple, inner tuple) pairs — in
   particular of two different tasks b <> c — do not race on global memory: neither stores to a cell the other
   reads, stores to, or updates atomically, and an atomically updated cell is never read or plainly stored to. *)
Theorem race_free : forall (v : env) (ob : oblock) (s : gst) (b i c j : nat) (B C : blk) (p q p' q' : priv) (a1 a2 : action),
  let E := mk_senv (v_args v) ob in
  independent_ob ob = true -> Inv E (ob_secs ob) s -> (b, i) <> (c, j) ->
  nth_error (s_blks s) b = Some B -> nth_error (s_blks s) c = Some C ->
  nth_error (k_thr B) i = Some p -> nth_error (k_thr C) j = Some q ->
  tstep false E b i (s_G s) (k_sh B) p = Some (p', a1) ->
  tstep false E c j (s_G s) (k_sh C) q = Some (q', a2) ->
  ~ races (step_greads E b i (s_G s) (k_sh B) p) a1 (step_greads E c j (s_G s) (k_sh C) q) a2.
Proof.
  intros v ob s b i c j B C p q p' q' a1 a2 E Hind HI Hne HB HC Hp Hq H1 H2.
  pose proof (independent_ob_okS v ob Hind) as Hok. fold E in Hok.
  destruct (HI b B HB) as [_ [HokB _]]. destruct (HI c C HC) as [_ [HokC _]].
  destruct (tstep_ok _ _ _ _ _ _ _ _ _ (HokB i p Hp) H1) as [_ Hal1].
  destruct (tstep_ok _ _ _ _ _ _ _ _ _ (HokC j q Hq) H2) as [_ Hal2].
  eapply no_race; eauto.
  - exact (thr_lt E (ob_secs ob) s b B i p HI HB Hp).
  - exact (thr_lt E (ob_secs ob) s c C j q HI HC Hq).
Qed.
Print Assumptions race_free.

(* privacy: a step of task b changes global memory and the record of b only (its @shared arrays, the @exclusive
   values and locals of its inner tuples); the records of all other tasks are untouched *)
Theorem task_state_is_private : forall E secs b s s', ostep false E secs b s = Some s' ->
  forall c, c <> b -> nth_error (s_blks s') c = nth_error (s_blks s) c.
Proof. exact Proofs.ostep_private. Qed.
Print Assumptions task_state_is_private.

(* atomic_not_lost.  With `#pragma omp atomic` (one indivisible step) every @atomic update arrives: whatever the
   schedule, every cell — in particular the cells of arrays that are only updated atomically — ends with the value
   the Serial run gives it, i.e. the initial value plus every update exactly once. *)
Theorem atomic_not_lost : forall (k : kernel) (v : env) (scheds : list (list nat)) (G G' : mem) (a : nat) (i : Z),
  independent k = true -> atomic_array k a -> run_omp scheds k v G = Some G' ->
  rd2 G' a i = rd2 (run_serial k v G) a i.
Proof. intros. erewrite (Proofs.omp_eq_serial k v scheds G G'); eauto. Qed.
Print Assumptions atomic_not_lost.

(* ------------------------------------------------------------------ concrete schedules *)

(* four tasks add 5, 6, 7, 8 into one cell; tasks interleaved 3,0,2,1 *)
Definition at4_ob : oblock :=
  {| ob_odims := [BConst 4]; ob_idims := [BConst 1]; ob_kinds := [KAtom]; ob_shared := [];
     ob_secs := [ {| sec_wr := []; sec_body := SAtom 0 (EConst 0) (EBin OAdd (EOut 0) (EConst 5)) |} ] |}.
Definition no_args : env := {| v_args := []; v_uninit := 0%Z |}.

Example atomic_sum_any_order :
  run_omp [[3; 0; 2; 1; 1; 2; 0; 3]] [at4_ob] no_args [[100]]%Z = Some [[126]]%Z /\ run_serial [at4_ob] no_args [[100]]%Z = [[126]]%Z.
Proof. vm_compute. auto. Qed.

(* the same kernel when the pragma is missing (`x += v` = load step, store step): task 1 loads, task 0 runs
   completely, task 1 stores: the update of task 0 is lost.  This is the structural premise tools/C21_emit.py
   checks on every emitted OpenMP source. *)
Example missing_omp_atomic_loses_update :
  run_omp_gen true [[1; 0; 0; 0; 1; 1; 2; 2; 2; 3; 3; 3]] [at4_ob] no_args [[100]]%Z = Some [[121]]%Z.
Proof. vm_compute. reflexivity. Qed.

(* a two-thread run: thread 0 executes tasks 0 then 1, thread 1 executes tasks 2 then 3, steps alternating *)
Example two_thread_schedule :
  thread_schedule [[0; 1]; [2; 3]] [0; 2; 0; 2; 1; 3; 1; 3] = true /\
  thread_schedule [[0; 1]; [2; 3]] [1; 0; 0; 1; 2; 2; 3; 3] = false /\
  run_omp [[0; 2; 0; 2; 1; 3; 1; 3]] [at4_ob] no_args [[100]]%Z = Some [[126]]%Z.
Proof. vm_compute. auto. Qed.

(* round-robin over the tasks that still have a step *)
Fixpoint rr_sched (fuel : nat) (E : senv) (secs : list section) (n cur : nat) (s : gst) : list nat :=
  match fuel with
  | O => []
  | S f =>
    match find (fun b => match ostep false E secs b s with Some _ => true | None => false end)
               (map (fun d => Nat.modulo (cur + d) n) (seq 0 n)) with
    | Some b => match ostep false E secs b s with
                | Some s' => b :: rr_sched f E secs n (S b) s'
                | None => []
                end
    | None => []
    end
  end.

(* an @outer body with @shared, @exclusive and a barrier (C20's example kernel), the two tasks alternating *)
Definition ex_osched := rr_sched 200 ex_E (ob_secs ex_ob) 2 1 (init_gst ex_E 0 ex_ob 2 ex_G).

Example omp_shared_exclusive_example :
  firstn 6 ex_osched = [1; 0; 1; 0; 1; 0] /\
  run_omp [ex_osched] [ex_ob] ex_env ex_G = Some (run_serial [ex_ob] ex_env ex_G).
Proof. vm_compute. auto. Qed.
