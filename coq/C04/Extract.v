(* C04 runs the same extracted model as C03 (see coq/C03/Extract.v); extracted again under its own
   directory so that the C04 check is self-contained. *)
From Coq Require Import Extraction ExtrOcamlBasic.
From OV.C03 Require Import Model Spec.
Extraction Language OCaml.
Extraction "../_work/extract/C04/model.ml"
  fixed pinned state0 step run read find_res pool_destroy
  p_align p_size p_reserved p_res p_gen p_oob p_tie d_alloc d_max r_id r_off r_sz
  sstate0 s_step s_read s_find s_live s_fam union_size round_out.
