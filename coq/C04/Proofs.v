(* C04 from the invariant of coq/C03. *)
From Coq Require Import List ZArith Bool Lia Sorting.Sorted.
From OV.C03 Require Import Model Spec Statements Arith Count Lists Inv Proofs.
From OV.C04 Require Import Spec.
Import ListNotations.
Local Open Scope Z_scope.

Section FromInv.
  Variables (ops : list op).
  Hypothesis Hok : ops_ok ops.
  Let s := run fixed state0 ops.
  Let p := snd s.
  Let sp := s_run sstate0 (map sop_of ops).

  Lemma the_inv : Inv p sp /\ 0 <= p_size p.
  Proof. exact (run_inv ops Hok). Qed.

  Lemma reserved_union : p_reserved p = expected_reserved (p_align p) (p_res p).
  Proof. destruct the_inv as [I _]. exact (i_reserved _ _ I). Qed.

  Lemma num_live : length (p_res p) = length (s_live sp).
  Proof.
    destruct the_inv as [I _].
    rewrite <- (map_length r_id (p_res p)), <- (map_length s_id (s_live sp)).
    apply Nat.le_antisymm; apply NoDup_incl_length.
    - apply (i_nd _ _ I).
    - intros id Hin. apply in_map_iff in Hin. destruct Hin as (r & <- & Hr).
      destruct (i_link _ _ I r Hr) as (e & Hl & _). destruct (link_in _ _ _ Hl) as [He Hid].
      rewrite <- Hid. apply in_map. assumption.
    - apply (i_snd _ _ I).
    - intros id Hin. apply in_map_iff in Hin. destruct Hin as (e & <- & He).
      destruct (i_back _ _ I e He) as (r & Hr & Hid). rewrite <- Hid. apply in_map. assumption.
  Qed.

  Lemma size_ge : p_reserved p <= p_size p.
  Proof.
    destruct the_inv as [I Hs]. rewrite (i_reserved _ _ I). unfold union_size.
    pose proof (max_end_nonneg (ivs (p_align p) (p_res p))) as Hn.
    pose proof (count_bounds (covered (ivs (p_align p) (p_res p))) 0 _ Hn) as Hc.
    assert (max_end (ivs (p_align p) (p_res p)) <= p_size p).
    { apply max_end_le; [assumption|]. intros iv Hin. apply in_map_iff in Hin.
      destruct Hin as (r & <- & Hr). cbn. apply (i_bounds _ _ I r Hr). }
    lia.
  Qed.

  Lemma all_released : s_live sp = [] -> p_reserved p = 0.
  Proof.
    intros E. destruct the_inv as [I _].
    assert (p_res p = []).
    { destruct (p_res p) as [|r tl] eqn:El; [reflexivity|].
      destruct (i_link _ _ I r ltac:(rewrite El; left; reflexivity)) as (e & Hl & _).
      destruct (link_in _ _ _ Hl) as [He _]. rewrite E in He. destruct He. }
    rewrite (i_reserved _ _ I), H. reflexivity.
  Qed.

  Lemma resize_below : forall b, b < p_reserved p -> step fixed s (OResize b) = (s, Err).
  Proof.
    intros b Hb. unfold p in Hb. destruct s as [d q] eqn:Es. cbn [snd] in Hb. cbn [step].
    unfold resize. destruct (Z.gtb_spec (p_reserved q) b); [reflexivity|lia].
  Qed.
End FromInv.
