(* C04 — what the accounting must be, in terms of the live reservations only.
   union_size / round_out / count are defined in coq/C03/Spec.v (the measure of a union of
   integer intervals is the number of integers that lie in at least one of them). *)
From Coq Require Import List ZArith.
From OV.C03 Require Export Spec.
From OV.C03 Require Import Model.
Import ListNotations.
Local Open Scope Z_scope.

(* reserved() must be: the size of the union of the live ranges, each rounded out to the alignment *)
Definition expected_reserved (a : Z) (live : list res) : Z :=
  union_size (map (fun r => round_out a (r_off r) (r_sz r)) live).
