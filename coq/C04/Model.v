(* C04 uses the pool model of C03 (coq/C03/Model.v): same functions, same variants. *)
From OV.C03 Require Export Model.
