(* C04 — memory-pool accounting matches its live reservations.
   Same model and reference semantics as C03 (coq/C03); Model.fixed is the source after
   fixes/C03-1..4 and fixes/C04-1. *)
From Coq Require Import List ZArith Bool Lia.
From OV.C03 Require Import Model Statements.
From OV.C04 Require Import Spec Proofs.
Import ListNotations.
Local Open Scope Z_scope.

(* after every operation of every history: reserved() is the number of byte positions covered by
   the live ranges once each is rounded out to the alignment *)
Theorem reserved_is_union : forall ops, ops_ok ops ->
  let p := snd (run fixed state0 ops) in
  p_reserved p = expected_reserved (p_align p) (p_res p).
Proof. intros ops H. exact (reserved_union ops H). Qed.
Print Assumptions reserved_is_union.

(* numReservations() (the size of the set) is the number of live handles *)
Theorem num_reservations : forall ops, ops_ok ops ->
  length (p_res (snd (run fixed state0 ops))) = length (s_live (s_run sstate0 (map sop_of ops))).
Proof. intros ops H. exact (num_live ops H). Qed.
Print Assumptions num_reservations.

Theorem size_ge_reserved : forall ops, ops_ok ops ->
  p_reserved (snd (run fixed state0 ops)) <= p_size (snd (run fixed state0 ops)).
Proof. intros ops H. exact (size_ge ops H). Qed.
Print Assumptions size_ge_reserved.

(* once every handle is released, reserved() is 0 again *)
Theorem release_all_zero : forall ops, ops_ok ops ->
  s_live (s_run sstate0 (map sop_of ops)) = [] -> p_reserved (snd (run fixed state0 ops)) = 0.
Proof. intros ops H. exact (all_released ops H). Qed.
Print Assumptions release_all_zero.

(* resizing below reserved() raises an error and changes nothing *)
Theorem resize_below_reserved_errors : forall ops b, ops_ok ops ->
  b < p_reserved (snd (run fixed state0 ops)) ->
  step fixed (run fixed state0 ops) (OResize b) = (run fixed state0 ops, Err).
Proof. intros ops b H. exact (resize_below ops b). Qed.
Print Assumptions resize_below_reserved_errors.

(* non-vacuity *)
Definition demo : list op :=
  [OReserve 1 512; OSlice 2 1 130 10; OSlice 3 1 300 40; OFree 1; OAlign 16; OReserve 4 100; OFree 2].
Example demo_ok : ops_ok demo.
Proof. repeat constructor; cbn; discriminate. Qed.
Example demo_counters :
  let p := snd (run fixed state0 demo) in
  (p_reserved p, p_size p, length (p_res p), expected_reserved (p_align p) (p_res p)) = (160, 176, 2%nat, 160).
Proof. vm_compute. reflexivity. Qed.

(* ------------------------------------------------------------------ the unrepaired source *)
Definition without_sub : variant := mkVariant true true true true false.   (* fixes/C04-1 missing *)
Definition without_fit : variant := mkVariant true true false true true.   (* fixes/C03-3 missing *)

(* reserve 512, slice(130,10), release the parent: the loop narrows [0,512) to its intersection
   with the slice's rounded range [128,256) and gives back 128 instead of 384 *)
Definition inter : list op := [OReserve 1 512; OSlice 2 1 130 10; OFree 1].
Theorem reserved_intersection_refuted :
  ops_ok inter /\
  let p := snd (run without_sub state0 inter) in
  p_reserved p = 384 /\ expected_reserved (p_align p) (p_res p) = 128.
Proof. split; [repeat constructor; cbn; discriminate|]. vm_compute. split; reflexivity. Qed.
Print Assumptions reserved_intersection_refuted.

(* ... and never returns to 0 *)
Theorem reserved_not_zero_refuted :
  let ops := inter ++ [OFree 2] in
  ops_ok ops /\ s_live (s_run sstate0 (map sop_of ops)) = [] /\
  p_reserved (snd (run without_sub state0 ops)) = 256.
Proof. split; [repeat constructor; cbn; discriminate|]. vm_compute. split; reflexivity. Qed.
Print Assumptions reserved_not_zero_refuted.

(* setAlignment on an empty pool keeps the 128-byte buffer; reserve(100) then fits by its raw size
   but is accounted with its aligned extent: reserved() = 256 > size() = 128 *)
Definition realign : list op := [OReserve 1 100; OFree 1; OAlign 256; OReserve 2 100].
Theorem size_below_reserved_refuted :
  ops_ok realign /\
  let p := snd (run without_fit state0 realign) in p_reserved p = 256 /\ p_size p = 128.
Proof. split; [repeat constructor; cbn; discriminate|]. vm_compute. split; reflexivity. Qed.
Print Assumptions size_below_reserved_refuted.
