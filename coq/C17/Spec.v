(* C17 — reference semantics: the iterator values the original sequential loop takes (Loop.seq_values:
   the `for` statement run with its test and update, operands evaluated in the run-time environment),
   and for a nest of loops whose headers do not depend on each other, the iterator tuples of the
   nested sequential loops in execution order.  Written without reference to the translators. *)
From Coq Require Import List ZArith Bool.
From OV.C17 Require Import Expr Loop.
Import ListNotations.
Local Open Scope Z_scope.

Definition spec_values (rho : env) (h : header) : option (list Z) := seq_values rho h.

Fixpoint spec_nest (rho : env) (hs : list header) : option (list (list Z)) :=
  match hs with
  | [] => Some [[]]
  | h :: t =>
      match seq_values rho h, spec_nest rho t with
      | Some l, Some r => Some (flat_map (fun x => map (cons x) r) l)
      | _, _ => None
      end
  end.

(* A translator may refuse a loop at translation time when its update moves away from the bound, or
   when all its operands are literals and it has no iterations ("OKL for loop range is empty or
   infinite").  Every other loop of the OKL header grammar has to be translated. *)
Definition spec_may_reject (h : header) : bool :=
  negb (direction_ok h) ||
  match vars (h_init h) ++ vars (h_bound h) ++
        match update_value (h_upd h) with Some s => vars s | None => [] end with
  | [] => match seq_values (fun _ => 0) h with Some [] => true | Some _ => false | None => true end
  | _ => false
  end.
