(* C17 — reference semantics: the iterator values the original sequential loop takes (Loop.seq_values:
   the `for` statement run with its test and update, operands evaluated in the run-time environment),
   and for a nest of loops whose headers do not depend on each other, the iterator tuples of the
   nested sequential loops in execution order.  Written without reference to the translators. *)
From Coq Require Import List ZArith Bool.
From OV.C17 Require Import Expr Loop.
Import ListNotations.
Local Open Scope Z_scope.

Definition spec_values (rho : env) (h : header) : option (list Z) := seq_values rho h.

Fixpoint spec_nest (rho : env) (hs : list header) : option (list (list Z)) :=
  match hs with
  | [] => Some [[]]
  | h :: t =>
      match seq_values rho h, spec_nest rho t with
      | Some l, Some r => Some (flat_map (fun x => map (cons x) r) l)
      | _, _ => None
      end
  end.
