(* C17 — proofs.  The count and index trees the fixed code builds have the same TEXT as trees a C
   parser produces (left-associated, every operand in parentheses), so reading the text back gives
   those trees (ExprProofs.parse_print); their values are the signed distance / ceiling quotient and
   init +- step * k; LoopProofs.seq_values_progression gives the same progression for the sequential
   loop. *)
From Coq Require Import List ZArith Bool Lia.
From OV.C17 Require Import Expr ExprProofs Loop LoopProofs Model Spec.
Import ListNotations.
Local Open Scope Z_scope.

(* ---- well-formedness plumbing ---- *)
Lemma wf_operand_safe : forall e, wf_operand e = true -> safe e = true.
Proof. unfold wf_operand. intros e H. apply andb_prop in H. tauto. Qed.

Lemma wf_operand_fresh : forall e m, wf_operand e = true -> m < 0 -> ~ In m (vars e).
Proof.
  unfold wf_operand, closed_under. intros e m H Hm Hin. apply andb_prop in H as [_ H].
  rewrite forallb_forall in H. specialize (H m Hin). unfold user_var in H.
  apply Z.leb_le in H. lia.
Qed.

Lemma wf_header_parts : forall h, wf_header h = true ->
  wf_operand (h_init h) = true /\ wf_operand (h_bound h) = true /\
  (forall s, update_value (h_upd h) = Some s -> wf_operand s = true).
Proof.
  unfold wf_header. intros h H. apply andb_prop in H as [H Hs]. apply andb_prop in H as [Hi Hb].
  repeat split; try assumption. intros s E. rewrite E in Hs. exact Hs.
Qed.

Lemma safe_wrapped : forall e, safe e = true -> safe (wrap e) = true.
Proof. intros. rewrite safe_wrap. assumption. Qed.

(* ---- the launch count ---- *)
(* the left-associated tree with the same text as count_tree fixed *)
Definition base_norm (h : header) : expr :=
  let positive := positive_update (h_upd h) in
  let smaller := if positive then wrap (h_init h) else wrap (h_bound h) in
  let larger := if positive then wrap (h_bound h) else wrap (h_init h) in
  if inclusive (h_cmp h) then Bin Sub (Bin Add (Num 1) larger) smaller else Bin Sub larger smaller.

Definition count_norm (h : header) : expr :=
  match update_value (h_upd h) with
  | None => base_norm h
  | Some s => Bin Div (Paren (Bin Sub (Bin Add (base_norm h) (wrap s)) (Num 1))) (wrap s)
  end.

Lemma print_count_norm : forall h, print (count_tree fixed h) = print (count_norm h).
Proof.
  intros h. unfold count_tree, count_norm, base_norm. cbn [v_bound_parens fixed].
  destruct (update_value (h_upd h)) as [s|];
    destruct (inclusive (h_cmp h)); destruct (positive_update (h_upd h));
    cbn [print wrap app]; repeat rewrite <- app_assoc; cbn [app]; reflexivity.
Qed.

Lemma safe_count_norm : forall h, wf_header h = true -> safe (count_norm h) = true.
Proof.
  intros h H. destruct (wf_header_parts h H) as [Hi [Hb Hs]].
  apply wf_operand_safe in Hi. apply wf_operand_safe in Hb.
  assert (Sb : safe (base_norm h) = true /\ eprec (base_norm h) = 10%nat).
  { unfold base_norm.
    destruct (inclusive (h_cmp h)); destruct (positive_update (h_upd h));
      cbn [safe eprec bprec]; rewrite ?eprec_wrap, ?safe_wrap, ?Hi, ?Hb; split; reflexivity. }
  destruct Sb as [Sb Pb].
  unfold count_norm. destruct (update_value (h_upd h)) as [s|] eqn:E; [|exact Sb].
  specialize (Hs s eq_refl). apply wf_operand_safe in Hs.
  cbn [safe eprec bprec]. rewrite ?eprec_wrap, ?safe_wrap, Sb, Pb, Hs. reflexivity.
Qed.

Lemma reread_count : forall h, wf_header h = true ->
  reread (count_tree fixed h) = Some (count_norm h).
Proof.
  intros h H. rewrite (reread_same_text _ (count_norm h)) by apply print_count_norm.
  apply reread_safe. apply safe_count_norm. exact H.
Qed.

Lemma eval_base_norm : forall rho h,
  eval rho (base_norm h) =
  distance (h_cmp h) (h_upd h) (eval rho (h_init h)) (eval rho (h_bound h)).
Proof.
  intros rho h. unfold base_norm, distance, dir.
  destruct (inclusive (h_cmp h)); destruct (positive_update (h_upd h));
    cbn [eval bin_sem]; rewrite ?eval_wrap; lia.
Qed.

Lemma eval_count_norm : forall rho h,
  eval rho (count_norm h) =
  cdiv_count (distance (h_cmp h) (h_upd h) (eval rho (h_init h)) (eval rho (h_bound h)))
             (step_val rho (h_upd h)).
Proof.
  intros rho h. unfold count_norm, step_val, cdiv_count.
  destruct (update_value (h_upd h)) as [s|].
  - cbn [eval bin_sem]. rewrite ?eval_wrap, eval_base_norm. reflexivity.
  - rewrite eval_base_norm. rewrite Z.quot_1_r. lia.
Qed.

(* ---- the index declaration ---- *)
Lemma safe_value_tree : forall h m, wf_header h = true -> safe (value_tree h (Var m)) = true.
Proof.
  intros h m H. destruct (wf_header_parts h H) as [Hi [_ Hs]]. apply wf_operand_safe in Hi.
  unfold value_tree. destruct (update_value (h_upd h)) as [s|] eqn:E.
  - specialize (Hs s eq_refl). apply wf_operand_safe in Hs.
    destruct (positive_update (h_upd h)); cbn [safe eprec bprec wrap];
      rewrite ?eprec_wrap, ?safe_wrap, Hi, Hs; reflexivity.
  - destruct (positive_update (h_upd h)); cbn [safe eprec bprec wrap];
      rewrite ?eprec_wrap, ?safe_wrap, Hi; reflexivity.
Qed.

Lemma eval_value_tree : forall rho h m k, wf_header h = true -> m < 0 ->
  eval (upd_env rho m k) (value_tree h (Var m)) =
  eval rho (h_init h) + k * (dir (h_upd h) * step_val rho (h_upd h)).
Proof.
  intros rho h m k H Hm. destruct (wf_header_parts h H) as [Hi [_ Hs]].
  assert (Em : upd_env rho m k m = k) by (unfold upd_env; rewrite Z.eqb_refl; reflexivity).
  unfold value_tree, step_val, dir.
  destruct (update_value (h_upd h)) as [s|] eqn:E.
  - specialize (Hs s eq_refl).
    destruct (positive_update (h_upd h)); cbn [eval bin_sem wrap]; rewrite ?eval_wrap, Em;
      rewrite !eval_upd_fresh by (apply wf_operand_fresh; assumption); lia.
  - destruct (positive_update (h_upd h)); cbn [eval bin_sem wrap]; rewrite ?eval_wrap, Em;
      rewrite !eval_upd_fresh by (apply wf_operand_fresh; assumption); lia.
Qed.

(* ---- launch ---- *)
Lemma launch_blocks_fixed : forall n, launch_blocks fixed n = Z.to_nat n.
Proof.
  intros n. unfold launch_blocks. cbn [v_noop_negative fixed negb]. rewrite andb_false_r.
  destruct (Z.leb_spec n 0); [|reflexivity]. lia.
Qed.

Lemma launch_blocks_negative : forall v n,
  v_noop_negative v = false -> - two64 < n < 0 -> (0 < launch_blocks v n)%nat.
Proof.
  intros v n Hv Hn. unfold launch_blocks. rewrite Hv.
  destruct (Z.leb_spec n 0); [|lia]. destruct (Z.ltb_spec n 0); [|lia]. cbn [negb andb].
  unfold two64 in *. lia.
Qed.

Lemma values_gpu_nonempty : forall v rho h m c d,
  reread (count_tree v h) = Some c -> reread (value_tree h (Var m)) = Some d ->
  v_noop_negative v = false -> - two64 < eval rho c < 0 ->
  values_gpu v rho h m <> Some [].
Proof.
  intros v rho h m c d Ec Ed Hv Hn. unfold values_gpu. rewrite Ec, Ed.
  pose proof (launch_blocks_negative v (eval rho c) Hv Hn) as L.
  remember (launch_blocks v (eval rho c)) as n eqn:En. clear En.
  destruct n as [|n]; [lia|]. cbn [seq map]. discriminate.
Qed.

Lemma accepted_direction : forall h, accepted fixed h = true -> direction_ok h = true.
Proof. unfold accepted. cbn [v_reject_mismatch fixed]. intros h H. apply andb_prop in H. tauto. Qed.

(* ---- main theorem, one loop ---- *)
Theorem gpu_visits_seq : forall rho h magic,
  wf_header h = true -> accepted fixed h = true -> step_positive rho h -> magic < 0 ->
  values_gpu fixed rho h magic = spec_values rho h.
Proof.
  intros rho h m Hwf Hacc Hstep Hm.
  unfold spec_values. rewrite seq_values_progression by (auto using accepted_direction).
  unfold values_gpu. rewrite reread_count by exact Hwf.
  rewrite reread_safe by (apply safe_value_tree; exact Hwf).
  rewrite launch_blocks_fixed, eval_count_norm. f_equal. unfold progression.
  apply map_ext. intros k. rewrite eval_value_tree by assumption. reflexivity.
Qed.

(* ---- all_some ---- *)
Lemma all_some_map_some : forall (A B : Type) (f : A -> option B) (g : A -> B) l,
  (forall x, In x l -> f x = Some (g x)) -> all_some (map f l) = Some (map g l).
Proof.
  intros A B f g l. induction l as [|a t IH]; intros H; cbn [map all_some]; [reflexivity|].
  rewrite (H a (or_introl eq_refl)). rewrite IH by (intros; apply H; right; assumption).
  reflexivity.
Qed.

(* in 32-bit C arithmetic: whenever the emitted count and index computations are all defined, the
   launch visits the values of the sequential loop *)
Lemma all_some_sound : forall (l : list (option Z)) (l' : list Z) r,
  all_some l = Some r -> Forall2 (fun o x => forall y, o = Some y -> x = y) l l' -> r = l'.
Proof.
  induction l as [|o t IH]; intros l' r H F; inversion F as [|o' x' t' l'' Hox Ftl]; subst;
    cbn [all_some] in H.
  - congruence.
  - destruct o as [v|]; [|discriminate]. destruct (all_some t) as [r'|] eqn:E; [|discriminate].
    injection H as <-. f_equal; [symmetry; auto|]. apply IH; auto.
Qed.

Theorem gpu_visits_seq_int32 : forall rho h magic l,
  wf_header h = true -> accepted fixed h = true -> step_positive rho h -> magic < 0 ->
  values_gpu_c fixed rho h magic = Some l -> spec_values rho h = Some l.
Proof.
  intros rho h m l Hwf Hacc Hstep Hm H.
  rewrite <- (gpu_visits_seq rho h m Hwf Hacc Hstep Hm).
  unfold values_gpu_c, values_gpu in *.
  destruct (reread (count_tree fixed h)) as [c|]; [|discriminate].
  destruct (reread (value_tree h (Var m))) as [d|]; [|discriminate].
  destruct (evalc rho c) as [n|] eqn:En; [|discriminate].
  rewrite (evalc_sound _ _ _ En). f_equal. symmetry.
  eapply all_some_sound; [exact H|].
  generalize (seq 0 (launch_blocks fixed n)). intros ks.
  induction ks as [|k t IH]; cbn [map]; constructor; [|exact IH].
  intros y Hy. apply evalc_sound in Hy. exact Hy.
Qed.

(* ---- several loops: the dimension written for a loop is the one its thread index ranges over ---- *)
Lemma nth_set_nth_same : forall n x l, (n < length l)%nat -> nth n (set_nth n x l) 1 = x.
Proof.
  induction n; intros x l H; destruct l as [|y t]; cbn [length] in H; try lia; cbn [set_nth nth].
  - reflexivity.
  - apply IHn. lia.
Qed.

Lemma nth_set_nth_other : forall n m x l, n <> m -> (n < length l)%nat ->
  nth m (set_nth n x l) 1 = nth m l 1.
Proof.
  induction n; intros m x l Hnm H; destruct l as [|y t]; cbn [length] in H; try lia;
    destruct m as [|m']; try lia; cbn [set_nth nth]; try reflexivity.
  apply IHn; lia.
Qed.

Lemma length_set_nth : forall n x l, (n < length l)%nat -> length (set_nth n x l) = length l.
Proof.
  induction n; intros x l H; destruct l as [|y t]; cbn [length] in H; try lia; cbn [set_nth length].
  - reflexivity.
  - rewrite IHn by lia. reflexivity.
Qed.

Lemma write_dims_read : forall counts D d0 dims j,
  length dims = D -> (d0 + length counts = D)%nat -> (d0 <= j < D)%nat ->
  nth (axis_of D j) (write_dims D d0 counts dims) 1 = nth (j - d0) counts 1.
Proof.
  induction counts as [|c t IH]; intros D d0 dims j HL HD Hj; cbn [length] in HD; [lia|].
  cbn [write_dims].
  assert (Hax : forall d, (d < D)%nat -> (axis_of D d < D)%nat) by (unfold axis_of; lia).
  destruct (Nat.eq_dec j d0) as [->|Hne].
  - replace (d0 - d0)%nat with O by lia. cbn [nth].
    (* later writes go to other axes *)
    clear IH. revert dims HL.
    assert (G : forall t' d1 dims', length dims' = D -> (d0 < d1)%nat -> (d1 + length t' = D)%nat ->
                nth (axis_of D d0) (write_dims D d1 t' dims') 1 = nth (axis_of D d0) dims' 1).
    { induction t' as [|c' t' IH']; intros d1 dims' HL' Hlt HD'; cbn [write_dims length] in *;
        [reflexivity|].
      rewrite IH'; try lia.
      - apply nth_set_nth_other; [unfold axis_of; lia | rewrite HL'; apply Hax; lia].
      - rewrite length_set_nth; [assumption | rewrite HL'; apply Hax; lia]. }
    intros dims HL. destruct t as [|c' t'].
    + cbn [write_dims]. apply nth_set_nth_same. rewrite HL. apply Hax. lia.
    + rewrite G; try lia.
      * apply nth_set_nth_same. rewrite HL. apply Hax. lia.
      * rewrite length_set_nth; [assumption | rewrite HL; apply Hax; lia].
  - rewrite IH; try lia.
    + replace (j - d0)%nat with (S (j - S d0)) by lia. reflexivity.
    + rewrite length_set_nth; [assumption | rewrite HL; apply Hax; lia].
Qed.

Theorem dim_read_back : forall counts d, (d < length counts)%nat ->
  nth (axis_of (length counts) d) (launch_dims counts) 1 = nth d counts 1.
Proof.
  intros counts d H. unfold launch_dims.
  rewrite write_dims_read; try lia.
  - replace (d - 0)%nat with d by lia. reflexivity.
  - apply repeat_length.
Qed.

(* ---- main theorem, a nest of loops of one kind ---- *)
Lemma all_some_ext : forall (A B : Type) (f g : A -> option B) l,
  (forall x, In x l -> f x = g x) -> all_some (map f l) = all_some (map g l).
Proof.
  intros A B f g l H. rewrite (map_ext_in f g l H). reflexivity.
Qed.

Lemma spec_nest_cart : forall rho hs ls,
  all_some (map (seq_values rho) hs) = Some ls -> spec_nest rho hs = Some (cart ls).
Proof.
  intros rho hs. induction hs as [|h t IH]; intros ls H; cbn [map all_some spec_nest] in *.
  - injection H as <-. reflexivity.
  - destruct (seq_values rho h) as [l|]; [|discriminate].
    destruct (all_some (map (seq_values rho) t)) as [r|] eqn:E; [|discriminate].
    injection H as <-. rewrite (IH r eq_refl). reflexivity.
Qed.

Lemma combine_seq_nth : forall (hs : list header) d0 d h,
  In (d, h) (combine (seq d0 (length hs)) hs) ->
  (d0 <= d < d0 + length hs)%nat /\ nth_error hs (d - d0) = Some h.
Proof.
  induction hs as [|a t IH]; intros d0 d h H; cbn [length seq combine] in H; [contradiction|].
  destruct H as [H|H].
  - injection H as <- <-. replace (d0 - d0)%nat with O by lia. cbn. split; [lia|reflexivity].
  - apply IH in H. destruct H as [H1 H2]. split; [cbn [length]; lia|].
    replace (d - d0)%nat with (S (d - S d0)) by lia. exact H2.
Qed.

Lemma nest_lists : forall rho hs,
  (forall x, In x hs -> wf_header x = true /\ accepted fixed x = true /\ step_positive rho x) ->
  all_some
    (map (fun dh : nat * header =>
            match reread (value_tree (snd dh) (Var (magic_of (axis_of (length hs) (fst dh))))) with
            | Some t =>
                Some (map (fun k => eval (upd_env rho (magic_of (axis_of (length hs) (fst dh)))
                                                  (Z.of_nat k)) t)
                          (seq 0 (launch_blocks fixed
                                    (nth (axis_of (length hs) (fst dh))
                                         (launch_dims (map (eval rho) (map count_norm hs))) 1))))
            | None => None
            end) (combine (seq 0 (length hs)) hs))
  = all_some (map (seq_values rho) hs).
Proof.
  intros rho hs HF.
  transitivity (all_some (map (fun dh : nat * header => seq_values rho (snd dh))
                              (combine (seq 0 (length hs)) hs))).
  - apply all_some_ext. intros [d h] Hin. cbn [fst snd].
    apply combine_seq_nth in Hin. destruct Hin as [Hd Hn].
    replace (d - 0)%nat with d in Hn by lia.
    assert (Hin : In h hs) by (eapply nth_error_In; exact Hn).
    destruct (HF h Hin) as [Hwf [Hacc Hstep]].
    assert (Hm : magic_of (axis_of (length hs) d) < 0) by (unfold magic_of; lia).
    change (seq_values rho h) with (spec_values rho h).
    rewrite <- (gpu_visits_seq rho h _ Hwf Hacc Hstep Hm).
    unfold values_gpu. rewrite reread_count by exact Hwf.
    destruct (reread (value_tree h (Var (magic_of (axis_of (length hs) d))))) as [t|]; [|reflexivity].
    do 3 f_equal.
    (* the dimension read at this loop's axis is this loop's count *)
    assert (HD : length hs = length (map (eval rho) (map count_norm hs)))
      by (rewrite !map_length; reflexivity).
    rewrite HD at 1. rewrite dim_read_back by (rewrite <- HD; lia).
    rewrite map_map.
    rewrite (nth_indep _ 1 (eval rho (count_norm h))) by (rewrite map_length; lia).
    rewrite (map_nth (fun x => eval rho (count_norm x)) hs h d).
    rewrite (nth_error_nth hs d h Hn). reflexivity.
  - f_equal. generalize 0%nat.
    induction hs as [|h t IH]; intros d0; cbn [length seq combine map]; [reflexivity|].
    rewrite IH; [reflexivity|]. intros; apply HF; right; assumption.
Qed.

Theorem nest_gpu_visits_seq : forall rho hs,
  Forall (fun h => wf_header h = true /\ accepted fixed h = true /\ step_positive rho h) hs ->
  nest_gpu fixed rho hs = spec_nest rho hs.
Proof.
  intros rho hs HF. rewrite Forall_forall in HF.
  unfold nest_gpu. cbv zeta.
  rewrite (all_some_map_some _ _ (fun h => reread (count_tree fixed h)) count_norm)
    by (intros h Hin; apply reread_count; apply HF; exact Hin).
  rewrite (nest_lists rho hs HF).
  destruct (all_some (map (seq_values rho) hs)) as [ls|] eqn:E.
  - symmetry. apply spec_nest_cart. exact E.
  - symmetry. clear -E. revert E. induction hs as [|h t IH]; cbn [map all_some spec_nest]; intro E.
    + discriminate.
    + destruct (seq_values rho h); [|reflexivity].
      destruct (all_some (map (seq_values rho) t)) eqn:E'; [discriminate|].
      rewrite (IH eq_refl). reflexivity.
Qed.

(* ---- loop trees: getOklLoopIndex = the dimension setKernelLaunch writes for the loop's depth ---- *)
Lemma ltree_ind2 : forall P : ltree -> Prop,
  (forall k cs, Forall P cs -> P (LNode k cs)) -> forall t, P t.
Proof.
  intros P H. fix F 1. intros [k cs]. apply H.
  induction cs as [|c r IHr]; constructor; [apply F | exact IHr].
Qed.

Lemma same_below_unfold : forall k k' cs,
  same_below k (LNode k' cs) = ((if Bool.eqb k k' then 1 else 0) + max_below k cs)%nat.
Proof.
  intros k k' cs. cbn [same_below]. f_equal.
Qed.

Lemma uniform_unfold : forall k n k' cs,
  uniform k n (LNode k' cs) <->
  (let own := if Bool.eqb k k' then 1%nat else O in
   match cs with
   | [] => n = own
   | _ => exists m, n = (own + m)%nat /\ Forall (uniform k m) cs
   end).
Proof.
  intros k n k' cs. cbn [uniform]. destruct cs as [|c r]; [tauto|].
  assert (E : forall m l, (fix all (l : list ltree) : Prop :=
                             match l with [] => True | c :: r => uniform k m c /\ all r end) l
                          <-> Forall (uniform k m) l).
  { intros m l. induction l as [|a t IH]; split; intro H.
    - constructor.
    - exact I.
    - destruct H as [H1 H2]. constructor; [exact H1|apply IH; exact H2].
    - inversion H; subst. split; [assumption|apply IH; assumption]. }
  split; intros [m [Hn Ha]]; exists m; (split; [exact Hn|]).
  - apply (proj1 (E m (c :: r))). exact Ha.
  - apply (proj2 (E m (c :: r))). exact Ha.
Qed.

Lemma same_below_uniform : forall k t n, uniform k n t -> same_below k t = n.
Proof.
  intros k t. induction t as [k' cs IH] using ltree_ind2. intros n H.
  rewrite same_below_unfold. apply uniform_unfold in H. cbv zeta in H.
  destruct cs as [|c r]; [cbn [max_below fold_right]; lia|].
  destruct H as [m [-> Hall]]. f_equal.
  assert (G : forall l, Forall (fun t => forall n, uniform k n t -> same_below k t = n) l ->
                        Forall (uniform k m) l -> l <> [] -> max_below k l = m).
  { induction l as [|a t IHl]; intros HI HU Hne; [contradiction|].
    inversion HI; subst. inversion HU; subst. cbn [max_below fold_right].
    rewrite (H1 m H3). destruct t as [|b t'].
    - cbn [fold_right]. lia.
    - fold (max_below k (b :: t')). rewrite IHl; try assumption; [lia|discriminate]. }
  apply G; [exact IH|exact Hall|discriminate].
Qed.

(* in a valid kernel every path below a loop holds the same number of loops of its kind: the index the
   device code reads is that number minus the loop itself, i.e. D - 1 - d for the d-th of D loops *)
Theorem loop_index_uniform : forall k cs n,
  uniform k n (LNode k cs) -> loop_index (LNode k cs) = (n - 1)%nat.
Proof.
  intros k cs n H. pose proof (same_below_uniform _ _ _ H) as E.
  rewrite same_below_unfold, Bool.eqb_reflx in E. cbn [loop_index]. lia.
Qed.
