(* Shared by C17, C18, C19 — facts about Expr.v:
   parse_print : a tree that a C parser can produce ([safe]) is read back unchanged from its printed
                 text (so a rewrite that keeps its operands in parentheses nodes means what its tree
                 says);  the proof is by induction on the tree with the fuel made explicit ([need]).
   evalc_sound : whenever the 32-bit evaluation is defined it agrees with the value in Z. *)
From Coq Require Import List ZArith Bool Lia Arith.
From OV.C17 Require Import Expr.
Import ListNotations.

(* one-step unfoldings of the mutual fixpoint *)
Lemma p_expr_S : forall f minp ts,
  p_expr (S f) minp ts =
  match p_unary f ts with Some (lhs, r) => p_loop f minp lhs r | None => None end.
Proof. reflexivity. Qed.

Lemma p_loop_S : forall f minp lhs ts,
  p_loop (S f) minp lhs ts =
  match ts with
  | KBin o :: r =>
      if (minp <=? bprec o)%nat then
        match p_expr f (S (bprec o)) r with
        | Some (rhs, r') => p_loop f minp (Bin o lhs rhs) r'
        | None => None
        end
      else Some (lhs, ts)
  | KQ :: r =>
      if (minp <=? 1)%nat then
        match p_expr f 1%nat r with
        | Some (a, KColon :: r') =>
            match p_expr f 1%nat r' with
            | Some (b, r'') => Some (Tern lhs a b, r'')
            | None => None
            end
        | _ => None
        end
      else Some (lhs, ts)
  | _ => Some (lhs, ts)
  end.
Proof. reflexivity. Qed.

Lemma p_unary_S : forall f ts,
  p_unary (S f) ts =
  match ts with
  | KNum n :: r => Some (Num n, r)
  | KId x :: r => Some (Var x, r)
  | KLP :: r =>
      match p_expr f 1%nat r with
      | Some (e, KRP :: r') => Some (Paren e, r')
      | _ => None
      end
  | KBin Sub :: r =>
      match p_unary f r with Some (e, r') => Some (Un Neg e, r') | None => None end
  | KNot :: r =>
      match p_unary f r with Some (e, r') => Some (Un LNot e, r') | None => None end
  | KTilde :: r =>
      match p_unary f r with Some (e, r') => Some (Un BNot e, r') | None => None end
  | _ => None
  end.
Proof. reflexivity. Qed.

(* the loop stops in front of anything that binds more weakly than minp *)
Lemma p_loop_stop : forall f minp lhs rest,
  (hp rest < minp)%nat -> p_loop (S f) minp lhs rest = Some (lhs, rest).
Proof.
  intros f minp lhs rest H. rewrite p_loop_S.
  destruct rest as [|t r]; [reflexivity|].
  destruct t; try reflexivity; cbn [hp] in H.
  - destruct (Nat.leb_spec minp (bprec o)); [lia|reflexivity].
  - destruct (Nat.leb_spec minp 1); [lia|reflexivity].
Qed.

(* fuel that suffices to read the text of e *)
Fixpoint need (e : expr) : nat :=
  match e with
  | Num _ | Var _ => 2
  | Un _ a => S (need a)
  | Paren a => need a + 3
  | Bin _ l r => need l + need r + 2
  | Tern c a b => need c + need a + need b + 2
  end.

Lemma need_pos : forall e, (2 <= need e)%nat.
Proof. induction e; cbn [need]; lia. Qed.

Lemma need_le_length : forall e, (need e <= 4 * length (print e))%nat.
Proof.
  induction e; cbn [need print length]; repeat (rewrite app_length; cbn [length]); lia.
Qed.

(* what may follow e without being swallowed by e's right spine *)
Definition rp (e : expr) : nat :=
  match e with
  | Bin o _ _ => bprec o
  | Tern _ _ _ => 0
  | _ => 13
  end.

Lemma bprec_range : forall o, (2 <= bprec o <= 11)%nat.
Proof. destruct o; cbn; lia. Qed.

Lemma eprec_pos : forall e, (1 <= eprec e)%nat.
Proof. destruct e; cbn [eprec]; try lia. pose proof (bprec_range o). lia. Qed.

Lemma rp_ge_eprec : forall e, (2 <= eprec e)%nat -> (eprec e <= rp e)%nat.
Proof. destruct e; cbn [eprec rp]; lia. Qed.

Lemma untok_unary : forall o f r,
  p_unary (S f) (untok o :: r) =
  match p_unary f r with Some (e, r') => Some (Un o e, r') | None => None end.
Proof. intros o f r. rewrite p_unary_S. destruct o; reflexivity. Qed.

Lemma roundtrip_gen : forall e, safe e = true ->
  (forall minp rest res n,
      (1 <= minp)%nat -> (minp <= eprec e)%nat -> (hp rest <= rp e)%nat ->
      (forall f, (n <= f)%nat -> p_loop f minp e rest = Some res) ->
      forall f, (n + need e <= f)%nat -> p_expr f minp (print e ++ rest) = Some res)
  /\ ((12 <= eprec e)%nat ->
      forall rest f, (need e <= S f)%nat -> p_unary f (print e ++ rest) = Some (e, rest)).
Proof.
  (* P follows from U for operands of unary level *)
  assert (PfromU : forall e,
    (forall rest f, (need e <= S f)%nat -> p_unary f (print e ++ rest) = Some (e, rest)) ->
    forall minp rest res n,
      (forall f, (n <= f)%nat -> p_loop f minp e rest = Some res) ->
      forall f, (n + need e <= f)%nat -> p_expr f minp (print e ++ rest) = Some res).
  { intros e U minp rest res n HL f Hf.
    pose proof (need_pos e). destruct f as [|f']; [lia|].
    rewrite p_expr_S, (U rest f') by lia. apply HL. lia. }
  induction e as [n0|x|o l IHl r IHr|o a IHa|c IHc a IHa b IHb|a IHa]; intro Hs; cbn [safe] in Hs.
  - (* Num *)
    assert (U : forall rest f, (need (Num n0) <= S f)%nat ->
                p_unary f (print (Num n0) ++ rest) = Some (Num n0, rest)).
    { intros rest f Hf. cbn [need] in Hf. destruct f as [|f']; [lia|]. reflexivity. }
    split; [intros minp rest res n _ _ _; apply PfromU; exact U | intros _; exact U].
  - (* Var *)
    assert (U : forall rest f, (need (Var x) <= S f)%nat ->
                p_unary f (print (Var x) ++ rest) = Some (Var x, rest)).
    { intros rest f Hf. cbn [need] in Hf. destruct f as [|f']; [lia|]. reflexivity. }
    split; [intros minp rest res n _ _ _; apply PfromU; exact U | intros _; exact U].
  - (* Bin *)
    apply andb_prop in Hs as [Hs Hr2]. apply andb_prop in Hs as [Hs Hl2].
    apply andb_prop in Hs as [Hsl Hsr].
    apply Nat.leb_le in Hl2. apply Nat.leb_le in Hr2.
    destruct (IHl Hsl) as [Pl _]. destruct (IHr Hsr) as [Pr _].
    pose proof (bprec_range o) as Ho.
    split; [|cbn [eprec]; lia].
    intros minp rest res n Hm1 Hm Hhp HL f Hf. cbn [eprec rp] in *.
    cbn [print need] in *. rewrite <- app_assoc, <- app_comm_cons.
    apply (Pl minp (KBin o :: print r ++ rest) res (n + need r + 2)%nat); try lia.
    + cbn [hp]. pose proof (rp_ge_eprec l). lia.
    + intros g Hg. destruct g as [|g']; [lia|].
      rewrite p_loop_S.
      destruct (Nat.leb_spec minp (bprec o)); [|lia].
      rewrite (Pr (S (bprec o)) rest (r, rest) 1%nat); try lia.
      * apply HL. lia.
      * pose proof (rp_ge_eprec r). lia.
      * intros h Hh. destruct h as [|h']; [lia|]. apply p_loop_stop. lia.
  - (* Un *)
    apply andb_prop in Hs as [Hsa Ha2]. apply Nat.leb_le in Ha2.
    destruct (IHa Hsa) as [_ Ua]. specialize (Ua Ha2).
    assert (U : forall rest f, (need (Un o a) <= S f)%nat ->
                p_unary f (print (Un o a) ++ rest) = Some (Un o a, rest)).
    { intros rest f Hf. cbn [need print] in *. pose proof (need_pos a).
      destruct f as [|f']; [lia|].
      rewrite <- app_comm_cons, untok_unary, Ua by lia. reflexivity. }
    split; [intros minp rest res n _ _ _; apply PfromU; exact U | intros _; exact U].
  - (* Tern *)
    apply andb_prop in Hs as [Hs Hc2]. apply andb_prop in Hs as [Hs Hsb].
    apply andb_prop in Hs as [Hsc Hsa]. apply Nat.leb_le in Hc2.
    destruct (IHc Hsc) as [Pc _]. destruct (IHa Hsa) as [Pa _]. destruct (IHb Hsb) as [Pb _].
    split; [|cbn [eprec]; lia].
    intros minp rest res n Hm1 Hm Hhp HL f Hf. cbn [eprec rp] in *.
    assert (Hres : res = (Tern c a b, rest)).
    { specialize (HL (S n) (Nat.le_succ_diag_r n)). rewrite p_loop_stop in HL by lia. congruence. }
    subst res. cbn [print need] in *.
    rewrite <- app_assoc, <- app_comm_cons, <- app_assoc, <- app_comm_cons.
    apply (Pc minp (KQ :: print a ++ KColon :: print b ++ rest) (Tern c a b, rest)
              (need a + need b + 2)%nat); try lia.
    + cbn [hp]. pose proof (rp_ge_eprec c). lia.
    + intros g Hg. destruct g as [|g']; [lia|].
      rewrite p_loop_S.
      destruct (Nat.leb_spec minp 1); [|lia].
      rewrite (Pa 1%nat (KColon :: print b ++ rest) (a, KColon :: print b ++ rest) 1%nat); try lia.
      * rewrite (Pb 1%nat rest (b, rest) 1%nat); try lia.
        -- reflexivity.
        -- apply eprec_pos.
        -- intros h Hh. destruct h as [|h']; [lia|]. apply p_loop_stop. lia.
      * apply eprec_pos.
      * cbn [hp]. lia.
      * intros h Hh. destruct h as [|h']; [lia|]. reflexivity.
  - (* Paren *)
    destruct (IHa Hs) as [Pa _].
    assert (U : forall rest f, (need (Paren a) <= S f)%nat ->
                p_unary f (print (Paren a) ++ rest) = Some (Paren a, rest)).
    { intros rest f Hf. cbn [need print] in *.
      destruct f as [|f']; [lia|].
      rewrite <- app_comm_cons, p_unary_S, <- app_assoc. cbn [app].
      rewrite (Pa 1%nat (KRP :: rest) (a, KRP :: rest) 1%nat); try lia.
      * reflexivity.
      * apply eprec_pos.
      * cbn [hp]. lia.
      * intros h Hh. destruct h as [|h']; [lia|]. reflexivity. }
    split; [intros minp rest res n _ _ _; apply PfromU; exact U | intros _; exact U].
Qed.

Theorem parse_print : forall e, safe e = true -> parse (print e) = Some e.
Proof.
  intros e Hs. unfold parse, parse_fuel.
  destruct (roundtrip_gen e Hs) as [P _].
  rewrite <- (app_nil_r (print e)) at 2.
  rewrite (P 1%nat [] (e, []) 1%nat); try lia.
  - reflexivity.
  - apply eprec_pos.
  - cbn [hp]. lia.
  - intros h Hh. destruct h as [|h']; [lia|]. reflexivity.
  - pose proof (need_le_length e). lia.
Qed.

Corollary reread_safe : forall e, safe e = true -> reread e = Some e.
Proof. intros; apply parse_print; assumption. Qed.

(* two trees with the same text are read the same way *)
Lemma reread_same_text : forall e e', print e = print e' -> reread e = reread e'.
Proof. intros e e' H. unfold reread. rewrite H. reflexivity. Qed.

(* ---- wrapInParentheses ---- *)
Lemma eprec_wrap : forall e, eprec (wrap e) = 13%nat.
Proof. destruct e; reflexivity. Qed.

Lemma safe_wrap : forall e, safe (wrap e) = safe e.
Proof. destruct e; reflexivity. Qed.

Lemma eval_wrap : forall rho e, eval rho (wrap e) = eval rho e.
Proof. destruct e; reflexivity. Qed.

Lemma vars_wrap : forall e, vars (wrap e) = vars e.
Proof. destruct e; reflexivity. Qed.

(* ---- values ---- *)
Local Open Scope Z_scope.

Lemma chk_some : forall x v, chk x = Some v -> v = x.
Proof. unfold chk. intros x v H. destruct (fits x); congruence. Qed.

Lemma binc_some : forall o x y v, binc o x y = Some v -> v = bin_sem o x y.
Proof.
  intros o x y v H. destruct o; cbn [binc] in H;
    try (apply chk_some in H; exact H);
    repeat match type of H with
           | (if ?c then _ else _) = _ => destruct c
           end; try discriminate; try (apply chk_some in H; exact H); congruence.
Qed.

Theorem evalc_sound : forall rho e v, evalc rho e = Some v -> eval rho e = v.
Proof.
  intros rho e. induction e as [n|x|o l IHl r IHr|o a IHa|c IHc a IHa b IHb|a IHa]; intros v H.
  - cbn in *. apply chk_some in H. congruence.
  - cbn in *. apply chk_some in H. congruence.
  - cbn [eval].
    assert (G : forall x y, evalc rho l = Some x -> evalc rho r = Some y -> binc o x y = Some v ->
                            bin_sem o (eval rho l) (eval rho r) = v).
    { intros x y Hx Hy Hb. rewrite (IHl _ Hx), (IHr _ Hy). apply binc_some in Hb. congruence. }
    destruct o;
      try (cbn [evalc] in H; destruct (evalc rho l) as [x|] eqn:El; [|discriminate];
           destruct (evalc rho r) as [y|] eqn:Er; [|discriminate]; eapply G; eauto; fail).
    + (* LAnd *)
      cbn [evalc] in H. destruct (evalc rho l) as [x|] eqn:El; [|discriminate].
      rewrite (IHl _ eq_refl). cbn [bin_sem].
      destruct (truthy x) eqn:Tx.
      * destruct (evalc rho r) as [y|] eqn:Er; [|discriminate]. rewrite (IHr _ eq_refl).
        cbn. congruence.
      * cbn. congruence.
    + (* LOr *)
      cbn [evalc] in H. destruct (evalc rho l) as [x|] eqn:El; [|discriminate].
      rewrite (IHl _ eq_refl). cbn [bin_sem].
      destruct (truthy x) eqn:Tx.
      * cbn. congruence.
      * destruct (evalc rho r) as [y|] eqn:Er; [|discriminate]. rewrite (IHr _ eq_refl).
        cbn. congruence.
  - cbn [evalc eval] in *. destruct (evalc rho a) as [x|] eqn:Ea; [|discriminate].
    rewrite (IHa _ eq_refl). apply chk_some in H. congruence.
  - cbn [evalc eval] in *. destruct (evalc rho c) as [x|] eqn:Ec; [|discriminate].
    rewrite (IHc _ eq_refl). destruct (truthy x); auto.
  - cbn [evalc eval] in *. auto.
Qed.

(* values do not depend on variables that do not occur *)
Lemma eval_ext : forall rho rho' e,
  (forall x, In x (vars e) -> rho x = rho' x) -> eval rho e = eval rho' e.
Proof.
  intros rho rho' e. induction e; intros H; cbn [eval vars] in *.
  - reflexivity.
  - apply H. left. reflexivity.
  - rewrite IHe1, IHe2; auto; intros; apply H; apply in_or_app; auto.
  - rewrite IHe; auto.
  - rewrite IHe1, IHe2, IHe3; auto; intros; apply H; apply in_or_app; auto;
      right; apply in_or_app; auto.
  - auto.
Qed.

Lemma eval_upd_fresh : forall rho x v e, ~ In x (vars e) -> eval (upd_env rho x v) e = eval rho e.
Proof.
  intros rho x v e H. apply eval_ext. intros y Hy. unfold upd_env.
  destruct (Z.eqb_spec y x); [subst; contradiction|reflexivity].
Qed.
