(* Shared by C17, C18 (and later C23) — OKL loop headers and the meaning of the sequential `for`.

   A header is what okl::oklForStatement extracts from
       for (T it = INIT; it CMP BOUND  |  BOUND CMP it;  ++it | it++ | --it | it-- | it += S | it -= S)
   (oklForStatement.cpp:77 hasValidInit, :142 hasValidCheck, :189 hasValidUpdate).
   The operands INIT, BOUND, S are expression trees that do not mention the iterator.
   No proofs in this file. *)
From Coq Require Import List ZArith Bool Lia.
From OV.C17 Require Import Expr.
Import ListNotations.
Local Open Scope Z_scope.

Inductive cmp : Type := CLt | CLe | CGt | CGe.

Inductive upd : Type :=
| UInc                 (* ++it, it++ *)
| UDec                 (* --it, it-- *)
| UAdd (s : expr)      (* it += s *)
| USub (s : expr).     (* it -= s *)

Record header : Type := mkHeader {
  h_init : expr;
  h_cmp : cmp;
  h_left : bool;        (* the iterator is the left operand of the comparison (checkValueOnRight) *)
  h_bound : expr;
  h_upd : upd
}.

(* the attributes oklForStatement computes *)
Definition inclusive (c : cmp) : bool := match c with CLe | CGe => true | _ => false end.
Definition positive_update (u : upd) : bool := match u with UInc | UAdd _ => true | _ => false end.
Definition update_value (u : upd) : option expr :=
  match u with UAdd s | USub s => Some s | _ => None end.

(* x c y *)
Definition cmp_holds (c : cmp) (x y : Z) : bool :=
  match c with
  | CLt => x <? y
  | CLe => x <=? y
  | CGt => y <? x
  | CGe => y <=? x
  end.

(* the loop test for iterator value i and bound value b *)
Definition test (c : cmp) (left : bool) (i b : Z) : bool :=
  if left then cmp_holds c i b else cmp_holds c b i.

(* the comparison says that the iterator stays below the bound: i < b, i <= b, b > i, b >= i *)
Definition is_lt (c : cmp) : bool := match c with CLt | CLe => true | _ => false end.
Definition ascending (c : cmp) (left : bool) : bool := Bool.eqb (is_lt c) left.

(* the update moves the iterator towards the bound *)
Definition direction_ok (h : header) : bool :=
  Bool.eqb (ascending (h_cmp h) (h_left h)) (positive_update (h_upd h)).

Definition step_val (rho : env) (u : upd) : Z :=
  match update_value u with Some s => eval rho s | None => 1 end.

Definition next (rho : env) (u : upd) (i : Z) : Z :=
  if positive_update u then i + step_val rho u else i - step_val rho u.

(* for (i = i0; tst i; i = nxt i) visit i   — None when the fuel runs out *)
Fixpoint run_for (fuel : nat) (i : Z) (tst : Z -> bool) (nxt : Z -> Z) : option (list Z) :=
  match fuel with
  | O => None
  | S f =>
      if tst i then
        match run_for f (nxt i) tst nxt with
        | Some l => Some (i :: l)
        | None => None
        end
      else Some []
  end.

(* fuel that is enough for every loop whose update moves towards the bound by at least 1 *)
Definition seq_fuel (i0 b : Z) : nat := Z.to_nat (Z.abs (b - i0) + 2).

(* iterator values of the sequential loop, in order *)
Definition seq_values (rho : env) (h : header) : option (list Z) :=
  let b := eval rho (h_bound h) in
  let i0 := eval rho (h_init h) in
  run_for (seq_fuel i0 b) i0 (fun i => test (h_cmp h) (h_left h) i b) (next rho (h_upd h)).

(* operands a parser can produce, over program variables only (ids >= 0; negative ids name the
   thread-index identifiers that the translators introduce) *)
Definition user_var (x : Z) : bool := 0 <=? x.
Definition wf_operand (e : expr) : bool := safe e && closed_under user_var e.

Definition wf_header (h : header) : bool :=
  wf_operand (h_init h) && wf_operand (h_bound h) &&
  match update_value (h_upd h) with Some s => wf_operand s | None => true end.

(* the run-time condition under which the sequential loop makes progress *)
Definition step_positive (rho : env) (h : header) : Prop := 0 < step_val rho (h_upd h).
