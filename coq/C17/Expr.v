(* Shared by C17, C18, C19 — expression trees as the OKL translator builds and prints them, and the
   way a C/C++ compiler reads the printed text back.

   * [expr]   : the node kinds of src/occa/internal/lang/expr that the loop / tile / dim rewrites
                create or receive: primitive, identifier/variable, binaryOpNode, leftUnaryOpNode,
                ternaryOpNode, parenthesesNode.
   * [print]  : exprNode::print for those kinds (binaryOpNode.cpp:119 `l op r`, leftUnaryOpNode.cpp:64
                `op value`, ternaryOpNode.cpp:88 `c ? a : b`, parenthesesNode.cpp:60 `( value )`) as a
                token list.  Printing never adds parentheses: a tree that was assembled without
                parenthesesNodes prints as a flat operator sequence.
   * [wrap]   : exprNode::wrapInParentheses (exprNode.cpp:146 clone for leaves and parentheses nodes,
                exprOpNode.cpp:27 new parenthesesNode for every operator node).
   * [parse]  : a precedence-climbing reader of the token list with the C/C++ operator precedences and
                associativities (what the compiler that receives the emitted text does).
   * [eval]   : value in Z;  [evalc] : value in 32-bit `int` arithmetic, None on undefined behaviour.
   No proofs in this file. *)
From Coq Require Import List ZArith Bool Lia.
Import ListNotations.
Local Open Scope Z_scope.

Inductive binop : Type :=
| Mul | Div | Mod | Add | Sub | Shl | Shr | OLt | OLe | OGt | OGe | OEq | ONe
| BAnd | BXor | BOr | LAnd | LOr.

Inductive unop : Type := Neg | LNot | BNot.

Inductive expr : Type :=
| Num (n : Z)                 (* primitiveNode holding a non-negative integer literal *)
| Var (x : Z)                 (* identifierNode / variableNode; the id names the identifier *)
| Bin (o : binop) (l r : expr)
| Un (o : unop) (e : expr)
| Tern (c a b : expr)
| Paren (e : expr).

(* binding strength, larger binds tighter:  1 ?:   2 ||   3 &&   4 |   5 ^   6 &   7 == !=
   8 < <= > >=   9 << >>   10 + -   11 * / %   12 prefix operators   13 primary *)
Definition bprec (o : binop) : nat :=
  match o with
  | Mul | Div | Mod => 11
  | Add | Sub => 10
  | Shl | Shr => 9
  | OLt | OLe | OGt | OGe => 8
  | OEq | ONe => 7
  | BAnd => 6
  | BXor => 5
  | BOr => 4
  | LAnd => 3
  | LOr => 2
  end%nat.

Definition eprec (e : expr) : nat :=
  match e with
  | Num _ | Var _ | Paren _ => 13
  | Un _ _ => 12
  | Bin o _ _ => bprec o
  | Tern _ _ _ => 1
  end%nat.

(* ---- tokens and printing ---- *)
Inductive tok : Type :=
| KNum (n : Z) | KId (x : Z) | KBin (o : binop) | KNot | KTilde | KQ | KColon | KLP | KRP.

Definition untok (o : unop) : tok :=
  match o with Neg => KBin Sub | LNot => KNot | BNot => KTilde end.

Fixpoint print (e : expr) : list tok :=
  match e with
  | Num n => [KNum n]
  | Var x => [KId x]
  | Bin o l r => print l ++ KBin o :: print r
  | Un o a => untok o :: print a
  | Tern c a b => print c ++ KQ :: print a ++ KColon :: print b
  | Paren a => KLP :: print a ++ [KRP]
  end.

(* exprNode::wrapInParentheses *)
Definition wrap (e : expr) : expr :=
  match e with
  | Bin _ _ _ | Un _ _ | Tern _ _ _ => Paren e
  | _ => e
  end.

(* ---- reading the text back with C precedence ---- *)
Definition hp (ts : list tok) : nat :=
  match ts with
  | KBin o :: _ => bprec o
  | KQ :: _ => 1
  | _ => 0
  end%nat.

Fixpoint p_expr (f : nat) (minp : nat) (ts : list tok) {struct f} : option (expr * list tok) :=
  match f with
  | O => None
  | S f' =>
      match p_unary f' ts with
      | Some (lhs, r) => p_loop f' minp lhs r
      | None => None
      end
  end
with p_loop (f : nat) (minp : nat) (lhs : expr) (ts : list tok) {struct f} : option (expr * list tok) :=
  match f with
  | O => None
  | S f' =>
      match ts with
      | KBin o :: r =>
          if (minp <=? bprec o)%nat then
            match p_expr f' (S (bprec o)) r with
            | Some (rhs, r') => p_loop f' minp (Bin o lhs rhs) r'
            | None => None
            end
          else Some (lhs, ts)
      | KQ :: r =>
          if (minp <=? 1)%nat then
            match p_expr f' 1%nat r with
            | Some (a, KColon :: r') =>
                match p_expr f' 1%nat r' with
                | Some (b, r'') => Some (Tern lhs a b, r'')
                | None => None
                end
            | _ => None
            end
          else Some (lhs, ts)
      | _ => Some (lhs, ts)
      end
  end
with p_unary (f : nat) (ts : list tok) {struct f} : option (expr * list tok) :=
  match f with
  | O => None
  | S f' =>
      match ts with
      | KNum n :: r => Some (Num n, r)
      | KId x :: r => Some (Var x, r)
      | KLP :: r =>
          match p_expr f' 1%nat r with
          | Some (e, KRP :: r') => Some (Paren e, r')
          | _ => None
          end
      | KBin Sub :: r =>
          match p_unary f' r with Some (e, r') => Some (Un Neg e, r') | None => None end
      | KNot :: r =>
          match p_unary f' r with Some (e, r') => Some (Un LNot e, r') | None => None end
      | KTilde :: r =>
          match p_unary f' r with Some (e, r') => Some (Un BNot e, r') | None => None end
      | _ => None
      end
  end.

Definition parse_fuel (ts : list tok) : nat := (4 * length ts + 4)%nat.

Definition parse (ts : list tok) : option expr :=
  match p_expr (parse_fuel ts) 1%nat ts with
  | Some (e, []) => Some e
  | _ => None
  end.

(* the tree a compiler sees when it is handed the text printed for [e] *)
Definition reread (e : expr) : option expr := parse (print e).

(* ---- trees that a C parser can produce (every operand binds at least as tightly as its
        position requires): exactly the trees for which printing loses nothing ---- *)
Fixpoint safe (e : expr) : bool :=
  match e with
  | Num n => 0 <=? n
  | Var _ => true
  | Bin o l r => safe l && safe r && (bprec o <=? eprec l)%nat && (S (bprec o) <=? eprec r)%nat
  | Un _ a => safe a && (12 <=? eprec a)%nat
  | Tern c a b => safe c && safe a && safe b && (2 <=? eprec c)%nat
  | Paren a => safe a
  end.

(* ---- values ---- *)
Definition b2z (b : bool) : Z := if b then 1 else 0.
Definition truthy (x : Z) : bool := negb (x =? 0).

Definition bin_sem (o : binop) (x y : Z) : Z :=
  match o with
  | Mul => x * y
  | Div => Z.quot x y
  | Mod => Z.rem x y
  | Add => x + y
  | Sub => x - y
  | Shl => Z.shiftl x y
  | Shr => Z.shiftr x y
  | OLt => b2z (x <? y)
  | OLe => b2z (x <=? y)
  | OGt => b2z (y <? x)
  | OGe => b2z (y <=? x)
  | OEq => b2z (x =? y)
  | ONe => b2z (negb (x =? y))
  | BAnd => Z.land x y
  | BXor => Z.lxor x y
  | BOr => Z.lor x y
  | LAnd => b2z (truthy x && truthy y)
  | LOr => b2z (truthy x || truthy y)
  end.

Definition un_sem (o : unop) (x : Z) : Z :=
  match o with
  | Neg => - x
  | LNot => b2z (x =? 0)
  | BNot => Z.lnot x
  end.

Definition env := Z -> Z.

Fixpoint eval (rho : env) (e : expr) : Z :=
  match e with
  | Num n => n
  | Var x => rho x
  | Bin o l r => bin_sem o (eval rho l) (eval rho r)
  | Un o a => un_sem o (eval rho a)
  | Tern c a b => if truthy (eval rho c) then eval rho a else eval rho b
  | Paren a => eval rho a
  end.

Definition upd_env (rho : env) (x v : Z) : env := fun y => if y =? x then v else rho y.

(* 32-bit `int` arithmetic as C++17 defines it; None = undefined behaviour (overflow, division by
   zero, shift count outside [0,31], left shift of a negative value or out of range).  && || ?:
   evaluate lazily. *)
Definition int_min : Z := - 2147483648.
Definition int_max : Z := 2147483647.
Definition fits (x : Z) : bool := (int_min <=? x) && (x <=? int_max).
Definition chk (x : Z) : option Z := if fits x then Some x else None.

Definition binc (o : binop) (x y : Z) : option Z :=
  match o with
  | Div | Mod => if (y =? 0) || ((x =? int_min) && (y =? -1)) then None else Some (bin_sem o x y)
  | Shl => if (0 <=? x) && (0 <=? y) && (y <? 32) then chk (bin_sem o x y) else None
  | Shr => if (0 <=? y) && (y <? 32) then Some (bin_sem o x y) else None
  | _ => chk (bin_sem o x y)
  end.

Fixpoint evalc (rho : env) (e : expr) : option Z :=
  match e with
  | Num n => chk n
  | Var x => chk (rho x)
  | Bin LAnd l r =>
      match evalc rho l with
      | Some x => if truthy x then
                    match evalc rho r with Some y => Some (b2z (truthy y)) | None => None end
                  else Some 0
      | None => None
      end
  | Bin LOr l r =>
      match evalc rho l with
      | Some x => if truthy x then Some 1 else
                    match evalc rho r with Some y => Some (b2z (truthy y)) | None => None end
      | None => None
      end
  | Bin o l r =>
      match evalc rho l, evalc rho r with
      | Some x, Some y => binc o x y
      | _, _ => None
      end
  | Un o a => match evalc rho a with Some x => chk (un_sem o x) | None => None end
  | Tern c a b =>
      match evalc rho c with
      | Some x => if truthy x then evalc rho a else evalc rho b
      | None => None
      end
  | Paren a => evalc rho a
  end.

(* variables of an expression *)
Fixpoint vars (e : expr) : list Z :=
  match e with
  | Num _ => []
  | Var x => [x]
  | Bin _ l r => vars l ++ vars r
  | Un _ a => vars a
  | Tern c a b => vars c ++ vars a ++ vars b
  | Paren a => vars a
  end.

Definition closed_under (p : Z -> bool) (e : expr) : bool := forallb p (vars e).
