(* C17 — every backend visits exactly the iterations of each OKL loop.  Statements only; proofs are in
   ExprProofs.v, LoopProofs.v, Proofs.v.  Vocabulary: Expr.v (trees, print, reread, eval), Loop.v
   (headers, sequential loop), Model.v (count_tree, value_tree, launch), Spec.v. *)
From Coq Require Import List ZArith Bool Lia.
From OV.C17 Require Import Expr ExprProofs Loop LoopProofs Model Spec Proofs.
Import ListNotations.
Local Open Scope Z_scope.

(* The text printed for a tree that a C parser can produce is read back as that tree. *)
Theorem parse_print_roundtrip : forall e, safe e = true -> parse (print e) = Some e.
Proof. exact ExprProofs.parse_print. Qed.
Print Assumptions parse_print_roundtrip.

(* The sequential loop never runs out of the fuel the specification gives it. *)
Theorem seq_fuel_suffices : forall rho h,
  direction_ok h = true -> step_positive rho h -> spec_values rho h <> None.
Proof. exact LoopProofs.seq_fuel_sufficient. Qed.
Print Assumptions seq_fuel_suffices.

(* Main theorem (launcher back ends: CUDA, HIP, OpenCL, Metal, DPC++).  For every header with
   operands a C parser can produce, accepted by the translator, and every run-time environment in
   which the step is positive: launching  count  threads along the loop's axis, where count is the
   value of the emitted launch-size TEXT, and giving thread k the iterator value of the emitted
   declaration TEXT, visits exactly the values of the sequential loop, each once, in order;
   both sides are empty for run-time-empty loops. *)
Theorem gpu_visits_seq : forall rho h magic,
  wf_header h = true -> accepted fixed h = true -> step_positive rho h -> magic < 0 ->
  values_gpu fixed rho h magic = spec_values rho h.
Proof. exact Proofs.gpu_visits_seq. Qed.
Print Assumptions gpu_visits_seq.

(* The same in 32-bit `int` arithmetic: if the emitted expressions evaluate without undefined
   behaviour (no overflow), their values are the sequential loop's. *)
Theorem gpu_visits_seq_int32 : forall rho h magic l,
  wf_header h = true -> accepted fixed h = true -> step_positive rho h -> magic < 0 ->
  values_gpu_c fixed rho h magic = Some l -> spec_values rho h = Some l.
Proof. exact Proofs.gpu_visits_seq_int32. Qed.
Print Assumptions gpu_visits_seq_int32.

(* Several nested loops of one kind: the launch dimension the launcher writes for a loop is the one
   the loop's thread index ranges over, and the visited iterator tuples are those of the nested
   sequential loops. *)
Theorem dim_read_back : forall counts d, (d < length counts)%nat ->
  nth (axis_of (length counts) d) (launch_dims counts) 1 = nth d counts 1.
Proof. exact Proofs.dim_read_back. Qed.
Print Assumptions dim_read_back.

Theorem nest_gpu_visits_seq : forall rho hs,
  Forall (fun h => wf_header h = true /\ accepted fixed h = true /\ step_positive rho h) hs ->
  nest_gpu fixed rho hs = spec_nest rho hs.
Proof. exact Proofs.nest_gpu_visits_seq. Qed.
Print Assumptions nest_gpu_visits_seq.

(* Loop trees (a loop may hold several sibling loops of its own kind).  In a kernel that
   kernelHasValidOklLoops accepts every path below a loop holds the same number n of loops of the loop's
   kind (the loop included); getOklLoopIndex — the largest such number over the paths below, the loop
   excluded — is then n - 1 = D - 1 - d for the d-th of D loops: the dimension setKernelLaunch wrote. *)
Theorem loop_index_uniform : forall k cs n,
  uniform k n (LNode k cs) -> loop_index (LNode k cs) = (n - 1)%nat.
Proof. exact Proofs.loop_index_uniform. Qed.
Print Assumptions loop_index_uniform.

(* @outer o { @inner a { @inner b {} @inner c {} } }: a reads component 1, b and c component 0;
   counting every nested @inner loop instead (seeded variant) would give 2 for a *)
Example ex_siblings :
  let t := forked [true; false; false] 2 in
  t = [LNode true [LNode false [LNode false []; LNode false []]]] /\
  index_at t 0 = 0%nat /\ index_at t 1 = 1%nat /\ index_at t 2 = 0%nat /\
  index_at (forked [true; true; true; false] 1) 0 = 2%nat /\
  index_at (forked [true; true; true; false] 1) 1 = 1%nat.
Proof. repeat split; reflexivity. Qed.

(* Serial / OpenMP keep the loop statement: its values are the specification's by definition; that the
   emitted header is the written one is checked syntactically by the tie. *)
Theorem kept_loop_same : forall rho h, spec_values rho (kept_header h) = spec_values rho h.
Proof. reflexivity. Qed.
Print Assumptions kept_loop_same.

(* ---- the pinned source: each of the three differences breaks the property ---- *)
Definition N : expr := Var 0.
Definition M : expr := Var 1.
Definition rho52 : env := fun x => if x =? 0 then 5 else 2.

(* for (o = 1 + (N - 1); o >= M + 1; --o): the bound is not parenthesised, the emitted count
   `1 + (1 + (N - 1)) - M + 1` is 5 for N = 5, M = 2, the loop has 3 iterations *)
Theorem bound_parens_refuted : exists h rho magic,
  wf_header h = true /\ accepted (mkVariant false true true) h = true /\ step_positive rho h /\
  magic < 0 /\ values_gpu (mkVariant false true true) rho h magic <> spec_values rho h.
Proof.
  exists (mkHeader (Bin Add (Num 1) (Paren (Bin Sub N (Num 1)))) CGe true (Bin Add M (Num 1)) UDec),
         rho52, (-1).
  split; [reflexivity|]. split; [reflexivity|]. split; [reflexivity|]. split; [reflexivity|].
  vm_compute. discriminate.
Qed.
Print Assumptions bound_parens_refuted.

(* for (o = 0; o > N; ++o): accepted, launches N - 0 threads, the loop is empty *)
Theorem direction_mismatch_refuted : exists h rho magic,
  wf_header h = true /\ accepted (mkVariant true false true) h = true /\ step_positive rho h /\
  magic < 0 /\ spec_values rho h = Some [] /\
  values_gpu (mkVariant true false true) rho h magic = Some [0; 1; 2; 3; 4].
Proof.
  exists (mkHeader (Num 0) CGt true N UInc), rho52, (-1).
  repeat split; reflexivity.
Qed.
Print Assumptions direction_mismatch_refuted.

(* for (i = 10; i < N; i += 4) with N = 2: the count (N - 10 + 4 - 1) / 4 is -1, which the launcher
   stores in an unsigned dimension: 2^64 - 1 blocks instead of none *)
Theorem negative_count_refuted : exists h rho magic,
  wf_header h = true /\ accepted (mkVariant true true false) h = true /\ step_positive rho h /\
  magic < 0 /\ spec_values rho h = Some [] /\
  values_gpu (mkVariant true true false) rho h magic <> Some [].
Proof.
  exists (mkHeader (Num 10) CLt true M (UAdd (Num 4))), rho52, (-1).
  split; [reflexivity|]. split; [reflexivity|]. split; [reflexivity|]. split; [reflexivity|].
  split; [reflexivity|].
  eapply (Proofs.values_gpu_nonempty _ _ _ _
            (Bin Div (Paren (Bin Sub (Bin Add (Bin Sub M (Num 10)) (Num 4)) (Num 1))) (Num 4))).
  - vm_compute. reflexivity.
  - vm_compute. reflexivity.
  - reflexivity.
  - assert (En : eval rho52 (Bin Div (Paren (Bin Sub (Bin Add (Bin Sub M (Num 10)) (Num 4)) (Num 1)))
                                     (Num 4)) = -1) by reflexivity.
    rewrite En. unfold two64. lia.
Qed.
Print Assumptions negative_count_refuted.

(* ---- non-vacuity ---- *)
(* for (i = 3; i < N << 1; i += 2) with N = 5: the fixed count text `((N << 1) - 3 + 2 - 1) / 2` *)
Example ex_shift_bound :
  let h := mkHeader (Num 3) CLt true (Bin Shl N (Num 1)) (UAdd (Num 2)) in
  wf_header h = true /\ accepted fixed h = true /\ step_positive rho52 h /\
  values_gpu fixed rho52 h (-1) = Some [3; 5; 7; 9] /\ spec_values rho52 h = Some [3; 5; 7; 9] /\
  (* pinned text `(N << 1 - 3 + 2 - 1) / 2`: a shift by -1 (undefined in C; 1 in Z) *)
  option_map (eval rho52) (reread (count_tree pinned h)) = Some 1 /\
  option_map (evalc rho52) (reread (count_tree pinned h)) = Some None.
Proof. repeat split; reflexivity. Qed.

(* a run-time-empty loop: for (i = 10; M >= i; i++) with M = 2 *)
Example ex_empty :
  let h := mkHeader (Num 10) CGe false M UInc in
  wf_header h = true /\ accepted fixed h = true /\ step_positive rho52 h /\
  values_gpu fixed rho52 h (-1) = Some [] /\ spec_values rho52 h = Some [].
Proof. repeat split; reflexivity. Qed.

(* two nested @outer loops *)
Example ex_nest :
  let h1 := mkHeader (Num 0) CLt true (Num 2) UInc in
  let h2 := mkHeader M CGt true (Num 0) UDec in
  nest_gpu fixed rho52 [h1; h2] = Some [[0; 2]; [0; 1]; [1; 2]; [1; 1]].
Proof. reflexivity. Qed.
