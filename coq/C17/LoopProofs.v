(* Shared by C17, C18 — the sequential `for` of a header whose update moves towards the bound visits
   an arithmetic progression:  i0, i0 + d, ..., i0 + (n-1) d  with  n = ceil (D / s)  (0 if D <= 0),
   D the signed distance from the initial value to the bound (+1 for <=, >=), d = +-s. *)
From Coq Require Import List ZArith Bool Lia.
From OV.C17 Require Import Expr Loop.
Import ListNotations.
Local Open Scope Z_scope.

Lemma run_for_ext : forall f i tst tst' nxt nxt',
  (forall x, tst x = tst' x) -> (forall x, nxt x = nxt' x) ->
  run_for f i tst nxt = run_for f i tst' nxt'.
Proof.
  induction f; intros i tst tst' nxt nxt' Ht Hn; cbn [run_for]; [reflexivity|].
  rewrite <- Ht, <- Hn. rewrite (IHf _ tst tst' nxt nxt' Ht Hn). reflexivity.
Qed.

Definition progression (i0 d : Z) (n : nat) : list Z :=
  map (fun k => i0 + Z.of_nat k * d) (seq 0 n).

Lemma progression_S : forall i0 d n, progression i0 d (S n) = i0 :: progression (i0 + d) d n.
Proof.
  intros. unfold progression. cbn [seq map]. f_equal; [lia|].
  rewrite <- seq_shift, map_map. apply map_ext. intros k. lia.
Qed.

Lemma run_for_progression : forall n i0 d tst fuel,
  (forall k, (k < n)%nat -> tst (i0 + Z.of_nat k * d) = true) ->
  tst (i0 + Z.of_nat n * d) = false ->
  (n < fuel)%nat ->
  run_for fuel i0 tst (fun i => i + d) = Some (progression i0 d n).
Proof.
  induction n; intros i0 d tst fuel Ht Hf Hfuel; (destruct fuel as [|f]; [lia|]); cbn [run_for].
  - replace (i0 + Z.of_nat 0 * d) with i0 in Hf by lia. rewrite Hf. reflexivity.
  - pose proof (Ht 0%nat ltac:(lia)) as H0. replace (i0 + Z.of_nat 0 * d) with i0 in H0 by lia.
    rewrite H0. rewrite (IHn (i0 + d) d tst f).
    + rewrite progression_S. reflexivity.
    + intros k Hk. specialize (Ht (S k) ltac:(lia)).
      replace (i0 + d + Z.of_nat k * d) with (i0 + Z.of_nat (S k) * d) by lia. exact Ht.
    + replace (i0 + d + Z.of_nat n * d) with (i0 + Z.of_nat (S n) * d) by lia. exact Hf.
    + lia.
Qed.

(* direction: +1 for ++ and +=, -1 for -- and -= *)
Definition dir (u : upd) : Z := if positive_update u then 1 else -1.

Lemma dir_sq : forall u, dir u * dir u = 1.
Proof. intros u. unfold dir. destruct (positive_update u); lia. Qed.

(* signed distance from the initial value to the first value that fails the test *)
Definition distance (c : cmp) (u : upd) (i0 b : Z) : Z :=
  dir u * (b - i0) + (if inclusive c then 1 else 0).

(* the C expression  (D + s - 1) / s  and the number of launched/visited iterations *)
Definition cdiv_count (D s : Z) : Z := Z.quot (D + s - 1) s.

Lemma test_dir : forall h i b,
  direction_ok h = true ->
  test (h_cmp h) (h_left h) i b =
  (dir (h_upd h) * (i - b) + (if inclusive (h_cmp h) then 0 else 1) <=? 0).
Proof.
  intros [i0 c l bd u] i b H. unfold direction_ok, ascending in H. cbn [h_cmp h_left h_upd] in *.
  unfold test, dir.
  destruct c, l, (positive_update u); cbn in H; try discriminate; cbn [cmp_holds inclusive];
    repeat match goal with |- context [?x <? ?y] => destruct (Z.ltb_spec x y) end;
    repeat match goal with |- context [?x <=? ?y] => destruct (Z.leb_spec x y) end;
    try reflexivity; lia.
Qed.

Lemma cdiv_count_spec : forall D s k,
  0 < s -> 0 <= k ->
  (k < cdiv_count D s <-> k * s < D).
Proof.
  intros D s k Hs Hk. unfold cdiv_count.
  destruct (Z_lt_le_dec (D + s - 1) 0) as [Hneg|Hpos].
  - assert (Z.quot (D + s - 1) s <= 0).
    { rewrite <- (Z.quot_small (s - 1) s) by lia. apply Z.quot_le_mono; lia. }
    split; intros; nia.
  - rewrite Z.quot_div_nonneg by lia.
    pose proof (Z.div_mod (D + s - 1) s ltac:(lia)) as E.
    pose proof (Z.mod_pos_bound (D + s - 1) s Hs) as B.
    split; intros; nia.
Qed.

Lemma cdiv_count_le : forall D s, 0 < s -> cdiv_count D s <= Z.max 0 D.
Proof.
  intros D s Hs.
  destruct (Z_lt_le_dec (Z.max 0 D) (cdiv_count D s)) as [H|H]; [|lia].
  exfalso. apply (cdiv_count_spec D s (Z.max 0 D) Hs ltac:(lia)) in H. nia.
Qed.

(* the sequential loop as an arithmetic progression *)
Theorem seq_values_progression : forall rho h,
  direction_ok h = true -> step_positive rho h ->
  let i0 := eval rho (h_init h) in
  let b := eval rho (h_bound h) in
  let s := step_val rho (h_upd h) in
  seq_values rho h =
  Some (progression i0 (dir (h_upd h) * s)
          (Z.to_nat (cdiv_count (distance (h_cmp h) (h_upd h) i0 b) s))).
Proof.
  intros rho h Hd Hs i0 b s. unfold seq_values. fold i0 b.
  unfold step_positive in Hs. fold s in Hs.
  set (D := distance (h_cmp h) (h_upd h) i0 b).
  set (n := Z.to_nat (cdiv_count D s)).
  rewrite (run_for_ext _ _ _ (fun i => test (h_cmp h) (h_left h) i b) _
             (fun i => i + dir (h_upd h) * s)).
  2: reflexivity.
  2: { intros x. unfold next, dir. fold s. destruct (positive_update (h_upd h)); lia. }
  assert (Htest : forall k, 0 <= k ->
            test (h_cmp h) (h_left h) (i0 + k * (dir (h_upd h) * s)) b = (k * s <? D)).
  { intros k Hk. rewrite test_dir by exact Hd. unfold D, distance.
    pose proof (dir_sq (h_upd h)) as Q.
    destruct (inclusive (h_cmp h));
      destruct (Z.leb_spec (dir (h_upd h) * (i0 + k * (dir (h_upd h) * s) - b) + 0) 0);
      destruct (Z.leb_spec (dir (h_upd h) * (i0 + k * (dir (h_upd h) * s) - b) + 1) 0);
      destruct (Z.ltb_spec (k * s) (dir (h_upd h) * (b - i0) + 1));
      destruct (Z.ltb_spec (k * s) (dir (h_upd h) * (b - i0) + 0));
      try reflexivity; nia. }
  apply run_for_progression.
  - intros k Hk. rewrite Htest by lia. apply Z.ltb_lt.
    apply (cdiv_count_spec D s (Z.of_nat k) Hs ltac:(lia)). unfold n in Hk. lia.
  - rewrite Htest by lia. apply Z.ltb_ge.
    destruct (Z_lt_le_dec (Z.of_nat n * s) D) as [H|H]; [|exact H].
    apply (cdiv_count_spec D s (Z.of_nat n) Hs ltac:(lia)) in H. unfold n in H. lia.
  - unfold seq_fuel. pose proof (cdiv_count_le D s Hs) as L.
    assert (Z.max 0 D <= Z.abs (b - i0) + 1).
    { unfold D, distance, dir. destruct (positive_update (h_upd h)), (inclusive (h_cmp h)); lia. }
    unfold n. lia.
Qed.

Corollary seq_fuel_sufficient : forall rho h,
  direction_ok h = true -> step_positive rho h -> seq_values rho h <> None.
Proof. intros rho h Hd Hs. rewrite seq_values_progression by assumption. discriminate. Qed.
