(* Extraction of the executable model and specification (ExtrOcamlBasic only; Z, nat stay the
   extracted inductives).  coqc runs from /verif/coq. *)
From Coq Require Import Extraction ExtrOcamlBasic.
From OV.C17 Require Import Expr Loop Model Spec.
Extraction Language OCaml.
Extraction "../_work/extract/C17/model.ml"
  parse print safe wrap eval evalc upd_env
  wf_header direction_ok step_val
  current fixed pinned accepted count_tree value_tree magic_of axis_of
  nest_counts_c nest_gpu_c launch_blocks forked index_at loop_index
  spec_values spec_nest spec_may_reject.
