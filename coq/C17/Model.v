(* C17 — executable model of how the launcher-based OKL translators (CUDA, HIP, OpenCL, Metal, DPC++)
   replace an @outer/@inner loop, transcribed from
     src/occa/internal/lang/modes/oklForStatement.cpp
        :11-59   constructor (validity, compile-time empty-range rejection)
        :301-363 getIterationCount          -> [count_tree]
        :365-394 makeDeclarationValue       -> [value_tree]
        :408-445 getOklLoopIndex            -> [axis_of]
     src/occa/internal/lang/modes/withLauncher.cpp
        :180-287 setKernelLaunch / :361-376 setDim   (outer[axis] = count, inner[axis] = count)
        :589-630 replaceOccaFor             (T it = value(thread index of axis))
     src/core/kernel.cpp:171 kernel::run + src/occa/internal/core/kernel.cpp:133 isNoop
                                            -> [launch_blocks]
   and, for Serial/OpenMP, of the fact that the loop statement is kept as written ([kept_header]).

   The trees are built exactly as the code builds them and are then PRINTED (Expr.print) and READ BACK
   with C precedence (Expr.reread): the values below are values of the re-read text.

   Three places of the pinned source differ from the code modelled as current; each is a field of
   [variant] so that the pinned behaviour stays expressible (Properties_C17: *_refuted):
     v_bound_parens     the bound operand is wrapped in parentheses like the other operands
     v_reject_mismatch  a header whose update moves away from the bound is rejected
     v_noop_negative    a launch with a negative dimension is an empty launch
   No proofs in this file. *)
From Coq Require Import List ZArith Bool Lia.
From OV.C17 Require Import Expr Loop.
Import ListNotations.
Local Open Scope Z_scope.

Record variant : Type := mkVariant {
  v_bound_parens : bool;
  v_reject_mismatch : bool;
  v_noop_negative : bool
}.

Definition fixed : variant := mkVariant true true true.
Definition pinned : variant := mkVariant false false false.
(* the code in the tree the check runs against (fixes/C17-1..3 applied) *)
Definition current : variant := fixed.

(* oklForStatement::getIterationCount *)
Definition count_tree (v : variant) (h : header) : expr :=
  let initInParen := wrap (h_init h) in
  let checkValue := if v_bound_parens v then wrap (h_bound h) else h_bound h in
  let positive := positive_update (h_upd h) in
  let smaller := if positive then initInParen else checkValue in
  let larger := if positive then checkValue else initInParen in
  let count := Bin Sub larger smaller in
  let count := if inclusive (h_cmp h) then Bin Add (Num 1) count else count in
  match update_value (h_upd h) with
  | None => count
  | Some s =>
      let updateInParen := wrap s in
      let countPlusUpdateMinusOne := Bin Sub (Bin Add count updateInParen) (Num 1) in
      Bin Div (wrap countPlusUpdateMinusOne) updateInParen
  end.

(* oklForStatement::makeDeclarationValue(magicIterator) *)
Definition value_tree (h : header) (magic : expr) : expr :=
  let blockValue := wrap magic in
  let blockValue :=
    match update_value (h_upd h) with
    | Some s => wrap (Bin Mul (wrap s) blockValue)
    | None => blockValue
    end in
  Bin (if positive_update (h_upd h) then Add else Sub) (wrap (h_init h)) blockValue.

(* canEvaluate / evaluate of a tree without identifiers (the tree, not its text) *)
Definition const_val (e : expr) : option Z :=
  match vars e with
  | [] => evalc (fun _ => 0) e
  | _ => None
  end.

(* oklForStatement constructor: `valid` for a header that already has the three syntactic forms *)
Definition accepted (v : variant) (h : header) : bool :=
  (if v_reject_mismatch v then direction_ok h else true) &&
  match const_val (count_tree v h) with
  | Some c => 0 <? c
  | None => true
  end.

(* the launcher stores the `int` count in an occa::dim entry (udim_t, 64 bit unsigned);
   kernel::run returns early when isNoop() *)
Definition two64 : Z := 18446744073709551616.

Definition launch_blocks (v : variant) (n : Z) : nat :=
  if n <=? 0 then
    if (n <? 0) && negb (v_noop_negative v) then Z.to_nat (two64 + n) else O
  else Z.to_nat n.

(* the iterator values a launch visits along one axis: thread index k = 0 .. blocks-1 *)
Definition values_gpu (v : variant) (rho : env) (h : header) (magic : Z) : option (list Z) :=
  match reread (count_tree v h), reread (value_tree h (Var magic)) with
  | Some c, Some d =>
      Some (map (fun k => eval (upd_env rho magic (Z.of_nat k)) d)
                (seq 0 (launch_blocks v (eval rho c))))
  | _, _ => None
  end.

(* the same with 32-bit C arithmetic: None as soon as the count or any index computation is
   undefined behaviour *)
Fixpoint all_some {A : Type} (l : list (option A)) : option (list A) :=
  match l with
  | [] => Some []
  | Some x :: t => match all_some t with Some r => Some (x :: r) | None => None end
  | None :: _ => None
  end.

Definition values_gpu_c (v : variant) (rho : env) (h : header) (magic : Z) : option (list Z) :=
  match reread (count_tree v h), reread (value_tree h (Var magic)) with
  | Some c, Some d =>
      match evalc rho c with
      | Some n =>
          all_some (map (fun k => evalc (upd_env rho magic (Z.of_nat k)) d)
                        (seq 0 (launch_blocks v n)))
      | None => None
      end
  | _, _ => None
  end.

(* Serial / OpenMP: serial.cpp and openmp.cpp leave the for statement as written *)
Definition kept_header (h : header) : header := h.

(* ---- several loops of the same kind: which launch dimension belongs to which loop ---- *)
(* getOklLoopIndex: the number of loops of the same kind nested inside; D loops, d-th from outside *)
Definition axis_of (D d : nat) : nat := (D - 1 - d)%nat.

Fixpoint set_nth (n : nat) (x : Z) (l : list Z) : list Z :=
  match n, l with
  | O, _ :: t => x :: t
  | O, [] => [x]
  | S m, y :: t => y :: set_nth m x t
  | S m, [] => 1 :: set_nth m x []
  end.

(* setKernelLaunch: occa::dim starts as (1,1,1); outer[axis_of D d] = count_d for d = 0 .. D-1 *)
Fixpoint write_dims (D : nat) (d : nat) (counts : list Z) (dims : list Z) : list Z :=
  match counts with
  | [] => dims
  | c :: t => write_dims D (S d) t (set_nth (axis_of D d) c dims)
  end.

Definition launch_dims (counts : list Z) : list Z :=
  write_dims (length counts) 0 counts (repeat 1 (length counts)).

(* all combinations, first component slowest *)
Fixpoint cart (ls : list (list Z)) : list (list Z) :=
  match ls with
  | [] => [[]]
  | l :: t => flat_map (fun x => map (cons x) (cart t)) l
  end.

(* magic identifier of the thread index along an axis (negative ids; see tools/C17_emit.py) *)
Definition magic_of (axis : nat) : Z := - 1 - Z.of_nat axis.

(* iterator tuples visited by a launch of D nested loops of one kind: loop d reads the thread index
   of axis_of D d, whose range is what the launcher wrote at that position *)
Definition nest_gpu (v : variant) (rho : env) (hs : list header) : option (list (list Z)) :=
  let D := length hs in
  match all_some (map (fun h => reread (count_tree v h)) hs) with
  | None => None
  | Some cs =>
      let dims := launch_dims (map (eval rho) cs) in
      match all_some
              (map (fun dh =>
                      let d := fst dh in let h := snd dh in
                      let a := axis_of D d in
                      match reread (value_tree h (Var (magic_of a))) with
                      | Some t =>
                          Some (map (fun k => eval (upd_env rho (magic_of a) (Z.of_nat k)) t)
                                    (seq 0 (launch_blocks v (nth a dims 1))))
                      | None => None
                      end)
                   (combine (seq 0 D) hs)) with
      | Some ls => Some (cart ls)
      | None => None
      end
  end.

(* ---- the same launch in 32-bit C arithmetic (used by the correspondence run; None = undefined
        behaviour somewhere in the emitted expressions) ---- *)
Definition nest_counts_c (v : variant) (rho : env) (hs : list header) : option (list Z) :=
  let D := length hs in
  match all_some (map (fun h => match reread (count_tree v h) with
                                | Some c => evalc rho c
                                | None => None
                                end) hs) with
  | Some cs =>
      let dims := launch_dims cs in
      Some (map (fun d => nth (axis_of D d) dims 1) (seq 0 D))
  | None => None
  end.

Definition nest_gpu_c (v : variant) (rho : env) (hs : list header) : option (list (list Z)) :=
  let D := length hs in
  match nest_counts_c v rho hs with
  | None => None
  | Some ns =>
      match all_some
              (map (fun dhn =>
                      let d := fst (fst dhn) in let h := snd (fst dhn) in let n := snd dhn in
                      let a := axis_of D d in
                      match reread (value_tree h (Var (magic_of a))) with
                      | Some t =>
                          all_some (map (fun k => evalc (upd_env rho (magic_of a) (Z.of_nat k)) t)
                                        (seq 0 (launch_blocks v n)))
                      | None => None
                      end)
                   (combine (combine (seq 0 D) hs) ns)) with
      | Some ls => Some (cart ls)
      | None => None
      end
  end.

(* a header all of whose operands are literals *)
Definition const_header (h : header) : bool :=
  match vars (h_init h) ++ vars (h_bound h) ++
        match update_value (h_upd h) with Some s => vars s | None => [] end with
  | [] => true
  | _ => false
  end.

(* ---- loop trees: oklForStatement::getOklLoopIndex on kernels whose loops have siblings ---- *)
(* an OKL loop (true = @outer, false = @inner) with the OKL loops directly nested in it *)
Inductive ltree : Type := LNode (outer : bool) (children : list ltree).

(* the largest number of loops of kind k on a path that starts at t (t included) *)
Fixpoint same_below (k : bool) (t : ltree) : nat :=
  match t with
  | LNode k' cs =>
      ((if Bool.eqb k k' then 1 else 0) +
       (fix go (l : list ltree) : nat :=
          match l with [] => O | c :: r => Nat.max (same_below k c) (go r) end) cs)%nat
  end.

Definition max_below (k : bool) (cs : list ltree) : nat :=
  fold_right (fun c m => Nat.max (same_below k c) m) O cs.

(* getOklLoopIndex: the maximum, over the paths below the loop, of the number of loops of its own kind *)
Definition loop_index (t : ltree) : nat :=
  match t with LNode k cs => max_below k cs end.

(* every path from t to a leaf holds exactly n loops of kind k (what kernelHasValidOklLoops demands
   below one outer-most @outer loop) *)
Fixpoint uniform (k : bool) (n : nat) (t : ltree) : Prop :=
  match t with
  | LNode k' cs =>
      let own := if Bool.eqb k k' then 1%nat else O in
      match cs with
      | [] => n = own
      | _ => exists m, n = (own + m)%nat /\
                       (fix all (l : list ltree) : Prop :=
                          match l with [] => True | c :: r => uniform k m c /\ all r end) cs
      end
  end.

(* a chain of loops (kinds listed outermost first) whose last [length ks - p] loops are duplicated as
   two sibling chains below loop p-1 (p = 0 or p >= length: no fork) *)
Fixpoint chain (ks : list bool) : list ltree :=
  match ks with
  | [] => []
  | k :: r => [LNode k (chain r)]
  end.

Fixpoint forked (ks : list bool) (p : nat) : list ltree :=
  match ks, p with
  | [], _ => []
  | k :: r, S O => match r with
                   | [] => [LNode k []]
                   | _ => [LNode k (chain r ++ chain r)]
                   end
  | k :: r, S q => [LNode k (forked r q)]
  | _, O => chain ks
  end.

(* index of the d-th loop (from outside) on the left-most path *)
Fixpoint index_at (ts : list ltree) (d : nat) : nat :=
  match ts with
  | [] => O
  | t :: _ =>
      match d with
      | O => loop_index t
      | S d' => match t with LNode _ cs => index_at cs d' end
      end
  end.
