(* C25 — the hidden storage of a json value is unobservable: the model on values with all their members
   (HModel.v) simulates the model on visible values (Model.v) through `vis`, for every history.
   Each lemma on a path walker uses the walker's `type == object_` guard exactly where the visible model
   says "not an object"; without a guard the stale `value_.object` of a scalar would be consulted and the
   statement would be false (seeded/C25-b). *)
From Coq Require Import List NArith ZArith Bool Lia.
From OV.C24 Require Import Model PBytes.
From OV.C24 Require Proofs.
From OV.C25 Require Import Model Spec Proofs HModel.
Import ListNotations.
Local Open Scope N_scope.

Section Hidden.
  Variables F32 F64 : Type.
  Notation json := (json F32 F64).
  Notation hj := (hj F32 F64).
  Notation vis := (vis F32 F64).
  Notation clean_of := (clean_of F32 F64).
  Notation fv := (fun kv : bytes * hj => let '(k, x) := kv in (k, vis x)).
  Notation fc := (fun kv : bytes * json => let '(k, x) := kv in (k, clean_of x)).

  (* every undefined (none) node has an empty object member: none nodes are born clean (json(), the entry
     std::map::operator[] inserts) and the only way back to none is the end of operator[] on a node that
     was none a moment before *)
  Fixpoint wfh (h : hj) : bool :=
    match h with
    | HJ _ _ t _ _ _ o =>
        match t with TNone => match o with [] => true | _ => false end | _ => true end
        && forallb (fun kv => wfh (snd kv)) o
    end.

  Definition mres_map {A B : Type} (f : A -> B) (r : mres A) : mres B :=
    match r with MOk a => MOk (f a) | MErr => MErr | MFuel => MFuel end.

  (* ---------------------------------------------------------------- finite maps under vis *)
  Lemma find_vis : forall k o, obj_find F32 F64 k (map fv o) = option_map vis (afind k o).
  Proof.
    induction o as [|[k' x] o IH]; [reflexivity|].
    cbn [map afind obj_find]. destruct (bytes_eqb k k'); [reflexivity | exact IH].
  Qed.

  Lemma set_vis : forall k x o, map fv (aset k x o) = obj_set F32 F64 k (vis x) (map fv o).
  Proof.
    induction o as [|[k' x'] o IH]; [reflexivity|].
    cbn [map aset obj_set]. destruct (bytes_ltb k k'); [reflexivity|].
    destruct (bytes_eqb k k'); [reflexivity|]. cbn [map]. now rewrite IH.
  Qed.

  Lemma erase_vis : forall k o, map fv (aerase k o) = obj_erase F32 F64 k (map fv o).
  Proof.
    induction o as [|[k' x'] o IH]; [reflexivity|].
    cbn [map aerase obj_erase]. destruct (bytes_eqb k k'); [reflexivity|]. cbn [map]. now rewrite IH.
  Qed.

  Lemma vis_clean : forall v, vis (clean_of v) = v.
  Proof.
    induction v as [| |p s|s|l IHl|m IHm] using (Proofs.json_ind' F32 F64); try reflexivity.
    - cbn [HModel.clean_of HModel.vis]. f_equal. rewrite map_map.
      induction l as [|x t IHt]; [reflexivity|]. inversion IHl as [|? ? Hx Ht]; subst.
      cbn [map]. now rewrite Hx, (IHt Ht).
    - cbn [HModel.clean_of HModel.vis]. f_equal. rewrite map_map.
      induction m as [|[k x] t IHt]; [reflexivity|]. inversion IHm as [|? ? Hx Ht]; subst.
      cbn [map snd] in *. now rewrite Hx, (IHt Ht).
  Qed.

  Lemma vis_clean_list : forall l, map vis (map clean_of l) = l.
  Proof. induction l as [|x t IH]; [reflexivity|]. cbn [map]. now rewrite vis_clean, IH. Qed.

  Lemma vis_clean_obj : forall m, map fv (map fc m) = m.
  Proof. induction m as [|[k x] t IH]; [reflexivity|]. cbn [map]. now rewrite vis_clean, IH. Qed.

  Lemma wfh_clean : forall v, wfh (clean_of v) = true.
  Proof.
    induction v as [| |p s|s|l IHl|m IHm] using (Proofs.json_ind' F32 F64); try reflexivity.
    cbn [HModel.clean_of wfh andb].
    induction m as [|[k x] t IHt]; [reflexivity|]. inversion IHm as [|? ? Hx Ht]; subst.
    cbn [map forallb snd] in *. now rewrite Hx, (IHt Ht).
  Qed.

  Lemma wfh_children : forall h, wfh h = true -> forallb (fun kv => wfh (snd kv)) (h_obj F32 F64 h) = true.
  Proof. intros [t n s a o] H. cbn [wfh h_obj] in *. now apply andb_true_iff in H as [_ H]. Qed.

  Lemma wfh_find : forall h k x, wfh h = true -> afind k (h_obj F32 F64 h) = Some x -> wfh x = true.
  Proof.
    intros h k x H. apply wfh_children in H. revert H.
    induction (h_obj F32 F64 h) as [|[k' x'] o IH]; intros H E; [discriminate|].
    cbn [forallb snd afind] in *. apply andb_true_iff in H as [H1 H2].
    destruct (bytes_eqb k k'); [now injection E as <- | now apply IH].
  Qed.

  Lemma wfh_none_obj : forall h, wfh h = true -> h_ty F32 F64 h = TNone -> h_obj F32 F64 h = [].
  Proof.
    intros [t n s a o] H E. cbn [h_ty h_obj wfh] in *. subst t.
    apply andb_true_iff in H as [H _]. now destruct o.
  Qed.

  Lemma forallb_aset : forall k (x : hj) o, wfh x = true ->
    forallb (fun kv => wfh (snd kv)) o = true -> forallb (fun kv => wfh (snd kv)) (aset k x o) = true.
  Proof.
    induction o as [|[k' x'] o IH]; intros Hx Ho; cbn [aset forallb snd] in *; [now rewrite Hx|].
    apply andb_true_iff in Ho as [H1 H2].
    destruct (bytes_ltb k k'); [cbn [forallb snd]; now rewrite Hx, H1, H2|].
    destruct (bytes_eqb k k'); cbn [forallb snd]; [now rewrite Hx, H2|]. now rewrite H1, IH.
  Qed.

  Lemma forallb_aerase : forall k o,
    forallb (fun kv : bytes * hj => wfh (snd kv)) o = true -> forallb (fun kv => wfh (snd kv)) (aerase k o) = true.
  Proof.
    induction o as [|[k' x'] o IH]; intros Ho; [reflexivity|]. cbn [aerase forallb snd] in *.
    apply andb_true_iff in Ho as [H1 H2].
    destruct (bytes_eqb k k'); [exact H2|]. cbn [forallb snd]. now rewrite H1, IH.
  Qed.

  (* replacing the object member of an object node *)
  Lemma wfh_set_obj : forall h o, h_ty F32 F64 h = TObj ->
    forallb (fun kv => wfh (snd kv)) o = true -> wfh (set_obj F32 F64 o h) = true.
  Proof. intros [t n s a o'] o E H. cbn [h_ty set_obj wfh] in *. subst t. exact H. Qed.

  Lemma vis_obj : forall h, h_ty F32 F64 h = TObj -> vis h = JObj (map fv (h_obj F32 F64 h)).
  Proof. intros [t n s a o] E. cbn [h_ty] in E. subst t. reflexivity. Qed.

  Lemma vis_not_obj : forall h, h_ty F32 F64 h <> TObj -> forall m, vis h <> JObj m.
  Proof. intros [t n s a o] E m. cbn [h_ty] in E. destruct t; try discriminate; congruence. Qed.

  Lemma is_tobj_spec : forall h, is_tobj F32 F64 h = true <-> h_ty F32 F64 h = TObj.
  Proof. intros h. unfold is_tobj. destruct (h_ty F32 F64 h); cbn; split; congruence. Qed.

  Lemma is_tnone_spec : forall h, is_tnone F32 F64 h = true <-> h_ty F32 F64 h = TNone.
  Proof. intros h. unfold is_tnone. destruct (h_ty F32 F64 h); cbn; split; congruence. Qed.

  Lemma is_tnone_vis : forall h, is_tnone F32 F64 h = is_none F32 F64 (vis h).
  Proof. intros [t n s a o]. destruct t; reflexivity. Qed.

  Lemma vis_set_obj : forall h o, h_ty F32 F64 h = TObj -> vis (set_obj F32 F64 o h) = JObj (map fv o).
  Proof. intros [t n s a o'] o E. cbn [h_ty] in E. subst t. reflexivity. Qed.

  Lemma ty_set_obj : forall h o, h_ty F32 F64 (set_obj F32 F64 o h) = h_ty F32 F64 h.
  Proof. intros [t n s a o'] o. reflexivity. Qed.

  (* ---------------------------------------------------------------- reads *)
  Section Flags.
  Variables mhp gne : bool.
  Notation hm_has := (hm_has F32 F64).
  Notation hm_cget := (hm_cget F32 F64).
  Notation hm_getpath := (hm_getpath F32 F64 gne).
  Notation hm_nc := (hm_nc F32 F64).
  Notation hm_remove := (hm_remove F32 F64).
  Notation hm_merge := (hm_merge F32 F64 mhp).
  Notation hm_pluseq := (hm_pluseq F32 F64 mhp).

  (* a walker step on a node that is not an object: the visible model gives up, and so does the guard *)
  Ltac not_obj j Ht :=
    let E := fresh "E" in
    destruct (vis j) eqn:E;
    try reflexivity;
    exfalso; apply (vis_not_obj j); [intros Habs; apply is_tobj_spec in Habs; congruence | eassumption].

  Lemma has_hidden : forall fuel c j, hm_has fuel c j = m_has F32 F64 fuel c (vis j).
  Proof.
    induction fuel as [|fuel IH]; intros c j; [reflexivity|].
    cbn [HModel.hm_has Model.m_has]. destruct (at_end c); [reflexivity|].
    destruct (is_tobj F32 F64 j) eqn:Ht.
    - apply is_tobj_spec in Ht. rewrite (vis_obj j Ht). destruct (next_key true c) as [key c'].
      rewrite find_vis. destruct (afind key (h_obj F32 F64 j)); cbn [option_map]; [apply IH | reflexivity].
    - assert (Hn : forall m, vis j <> JObj m).
      { apply vis_not_obj. intros Habs. apply is_tobj_spec in Habs. congruence. }
      destruct (vis j); try reflexivity. now elim (Hn m).
  Qed.

  Lemma cget_hidden : forall fuel c j, mres_map vis (hm_cget fuel c j) = m_cget F32 F64 fuel c (vis j).
  Proof.
    induction fuel as [|fuel IH]; intros c j; [reflexivity|].
    cbn [HModel.hm_cget Model.m_cget]. destruct (at_end c); [reflexivity|].
    destruct (is_tobj F32 F64 j) eqn:Ht.
    - apply is_tobj_spec in Ht. rewrite (vis_obj j Ht). destruct (next_key true c) as [key c'].
      rewrite find_vis. destruct (afind key (h_obj F32 F64 j)); cbn [option_map]; [apply IH | reflexivity].
    - assert (Hn : forall m, vis j <> JObj m).
      { apply vis_not_obj. intros Habs. apply is_tobj_spec in Habs. congruence. }
      destruct (vis j); try reflexivity. now elim (Hn m).
  Qed.

  Lemma getpath_hidden : forall fuel c j, mres_map vis (hm_getpath fuel c j) = m_getpath F32 F64 gne fuel c (vis j).
  Proof.
    induction fuel as [|fuel IH]; intros c j; [reflexivity|].
    cbn [HModel.hm_getpath Model.m_getpath]. destruct (at_end c); [reflexivity|].
    destruct (is_tobj F32 F64 j) eqn:Ht.
    - apply is_tobj_spec in Ht. rewrite (vis_obj j Ht). destruct (next_key (negb gne) c) as [key c'].
      rewrite find_vis. destruct (afind key (h_obj F32 F64 j)); cbn [option_map]; [apply IH | reflexivity].
    - assert (Hn : forall m, vis j <> JObj m).
      { apply vis_not_obj. intros Habs. apply is_tobj_spec in Habs. congruence. }
      destruct (vis j); try reflexivity. now elim (Hn m).
  Qed.

  Lemma size_hidden : forall j, hm_size F32 F64 j = m_size F32 F64 (vis j).
  Proof. intros [t n s a o]. destruct t; cbn [hm_size h_ty h_str h_arr h_obj HModel.vis m_size]; try reflexivity; now rewrite map_length. Qed.

  (* ---------------------------------------------------------------- the non-const operator[] *)
  (* the node the walker stands on: any well-formed node, or an object it has just made out of a none *)
  Definition hinv (ex : bool) (j : hj) : Prop :=
    wfh j = true /\ (ex = false -> h_ty F32 F64 j = TObj /\ h_obj F32 F64 j = []).

  Definition vis_node (ex : bool) (j : hj) : json := if ex then vis j else JObj [].

  Lemma nc_hidden : forall fuel c j ex (k : hj -> mres hj) (k' : json -> mres json),
    hinv ex j -> (ex = true -> h_ty F32 F64 j <> TNone) ->
    (forall node, wfh node = true -> mres_map vis (k node) = k' (vis node)) ->
    mres_map vis (hm_nc fuel c j ex k) = m_nc F32 F64 fuel c (vis_node ex j) ex k'.
  Proof.
    induction fuel as [|fuel IH]; intros c j ex k k' [Hwf Hex] Hnn Hk; [reflexivity|].
    cbn [HModel.hm_nc Model.m_nc]. destruct (at_end c).
    - destruct ex; cbn [vis_node]; [now apply Hk|].
      destruct (Hex eq_refl) as [Ht Ho].
      assert (Hj : set_ty F32 F64 TNone j = HJ F32 F64 TNone (h_num F32 F64 j) (h_str F32 F64 j) (h_arr F32 F64 j) [])
        by (destruct j as [t n s a o]; cbn [h_obj] in Ho; subst o; reflexivity).
      rewrite (Hk (set_ty F32 F64 TNone j)) by (rewrite Hj; reflexivity).
      now rewrite Hj.
    - destruct (is_tobj F32 F64 j) eqn:Ht.
      + apply is_tobj_spec in Ht.
        assert (Hv : vis_node ex j = JObj (map fv (h_obj F32 F64 j))).
        { destruct ex; cbn [vis_node]; [now apply vis_obj|]. destruct (Hex eq_refl) as [_ ->]. reflexivity. }
        rewrite Hv. destruct (next_key true c) as [key c']. rewrite find_vis.
        set (child := match afind key (h_obj F32 F64 j) with Some x => x | None => hnone F32 F64 end).
        assert (Hcw : wfh child = true).
        { subst child. destruct (afind key (h_obj F32 F64 j)) eqn:Ef; [eapply wfh_find; eassumption | reflexivity]. }
        assert (Hcv : match option_map vis (afind key (h_obj F32 F64 j)) with Some x => x | None => JNone end = vis child).
        { subst child. destruct (afind key (h_obj F32 F64 j)); reflexivity. }
        rewrite Hcv.
        destruct (is_tnone F32 F64 child) eqn:Hcn.
        * (* a none entry: it becomes an (empty) object, exists = false *)
          apply is_tnone_spec in Hcn. pose proof (wfh_none_obj child Hcw Hcn) as Hco.
          assert (Hvc : vis child = JNone) by (destruct child as [t n s a o]; cbn [h_ty] in Hcn; subst t; reflexivity).
          rewrite Hvc.
          assert (Hinv' : hinv false (set_ty F32 F64 TObj child)).
          { destruct child as [t n s a o]; cbn [h_ty h_obj] in *; subst. split; [reflexivity | intros _; split; reflexivity]. }
          specialize (IH c' (set_ty F32 F64 TObj child) false k k' Hinv' ltac:(discriminate) Hk).
          cbn [vis_node] in IH. rewrite <- IH.
          destruct (hm_nc fuel c' (set_ty F32 F64 TObj child) false k) as [ch| |]; cbn [mres_map]; try reflexivity.
          rewrite (vis_set_obj j _ Ht). now rewrite set_vis.
        * assert (Hcnn : h_ty F32 F64 child <> TNone).
          { intros Habs. apply is_tnone_spec in Habs. congruence. }
          assert (Hinv' : hinv true child) by (split; [exact Hcw | discriminate]).
          (* the walker goes on with the flag it had; its own node was real only if the flag says so *)
          destruct ex.
          -- specialize (IH c' child true k k' Hinv' (fun _ => Hcnn) Hk). cbn [vis_node] in IH.
             assert (Hm : (match vis child with JNone => (JObj [], false) | _ => (vis child, true) end) = (vis child, true)).
             { destruct child as [t n s a o]; cbn [h_ty] in Hcnn; destruct t; try reflexivity; congruence. }
             rewrite Hm, <- IH.
             destruct (hm_nc fuel c' child true k) as [ch| |]; cbn [mres_map]; try reflexivity.
             rewrite (vis_set_obj j _ Ht). now rewrite set_vis.
          -- (* exists = false and a real child: impossible, the node has no entries *)
             destruct (Hex eq_refl) as [_ Ho]. subst child. rewrite Ho in Hcn. discriminate.
      + (* not an object: OCCA_ERROR on both sides *)
        destruct ex; cbn [vis_node].
        * assert (Hn : forall m, vis j <> JObj m).
          { apply vis_not_obj. intros Habs. apply is_tobj_spec in Habs. congruence. }
          destruct (vis j); try reflexivity. now elim (Hn m).
        * destruct (Hex eq_refl) as [Hty _]. apply is_tobj_spec in Hty. congruence.
  Qed.

  Lemma index_hidden : forall fuel c j (k : hj -> mres hj) (k' : json -> mres json),
    wfh j = true ->
    (forall node, wfh node = true -> mres_map vis (k node) = k' (vis node)) ->
    mres_map vis (hm_index F32 F64 fuel c j k) = m_index F32 F64 fuel c (vis j) k'.
  Proof.
    intros fuel c j k k' Hwf Hk. unfold hm_index, m_index.
    destruct (is_tnone F32 F64 j) eqn:Hn.
    - apply is_tnone_spec in Hn. pose proof (wfh_none_obj j Hwf Hn) as Ho.
      assert (Hv : vis j = JNone) by (destruct j as [t n s a o]; cbn [h_ty] in Hn; subst t; reflexivity).
      rewrite Hv.
      assert (Hinv : hinv false (set_ty F32 F64 TObj j)).
      { destruct j as [t n s a o]; cbn [h_ty h_obj] in *; subst. split; [reflexivity | intros _; split; reflexivity]. }
      exact (nc_hidden fuel c (set_ty F32 F64 TObj j) false k k' Hinv ltac:(discriminate) Hk).
    - assert (Hnn : h_ty F32 F64 j <> TNone) by (intros Habs; apply is_tnone_spec in Habs; congruence).
      assert (Hinv : hinv true j) by (split; [exact Hwf | discriminate]).
      pose proof (nc_hidden fuel c j true k k' Hinv (fun _ => Hnn) Hk) as H.
      cbn [vis_node] in H. rewrite H.
      destruct j as [t n s a o]; cbn [h_ty] in Hnn; destruct t; try reflexivity; congruence.
  Qed.

  (* well-formedness is kept by the walker *)
  Lemma nc_wf : forall fuel c j ex (k : hj -> mres hj),
    hinv ex j ->
    (forall node r, wfh node = true -> k node = MOk r -> wfh r = true) ->
    forall r, hm_nc fuel c j ex k = MOk r -> wfh r = true.
  Proof.
    induction fuel as [|fuel IH]; intros c j ex k [Hwf Hex] Hk r H; [discriminate|].
    cbn [HModel.hm_nc] in H. destruct (at_end c).
    - destruct ex; [eapply Hk; eassumption|].
      destruct (Hex eq_refl) as [Ht Ho].
      eapply Hk; [|exact H]. destruct j as [t n s a o]; cbn [h_obj] in Ho; subst o; reflexivity.
    - destruct (is_tobj F32 F64 j) eqn:Ht; [|discriminate]. apply is_tobj_spec in Ht.
      destruct (next_key true c) as [key c'].
      set (child := match afind key (h_obj F32 F64 j) with Some x => x | None => hnone F32 F64 end) in *.
      assert (Hcw : wfh child = true).
      { subst child. destruct (afind key (h_obj F32 F64 j)) eqn:Ef; [eapply wfh_find; eassumption | reflexivity]. }
      destruct (is_tnone F32 F64 child) eqn:Hcn.
      + apply is_tnone_spec in Hcn. pose proof (wfh_none_obj child Hcw Hcn) as Hco.
        assert (Hinv' : hinv false (set_ty F32 F64 TObj child)).
        { destruct child as [t n s a o]; cbn [h_ty h_obj] in *; subst. split; [reflexivity | intros _; split; reflexivity]. }
        destruct (hm_nc fuel c' (set_ty F32 F64 TObj child) false k) as [ch| |] eqn:E; try discriminate.
        injection H as <-. apply wfh_set_obj; [exact Ht|]. apply forallb_aset; [|now apply wfh_children].
        exact (IH c' _ false k Hinv' Hk ch E).
      + destruct (hm_nc fuel c' child ex k) as [ch| |] eqn:E; try discriminate.
        injection H as <-. apply wfh_set_obj; [exact Ht|]. apply forallb_aset; [|now apply wfh_children].
        assert (Hinv' : hinv ex child).
        { split; [exact Hcw|]. intros ->. destruct (Hex eq_refl) as [_ Ho]. subst child. rewrite Ho in Hcn. discriminate. }
        exact (IH c' child ex k Hinv' Hk ch E).
  Qed.

  Lemma index_wf : forall fuel c j (k : hj -> mres hj), wfh j = true ->
    (forall node r, wfh node = true -> k node = MOk r -> wfh r = true) ->
    forall r, hm_index F32 F64 fuel c j k = MOk r -> wfh r = true.
  Proof.
    intros fuel c j k Hwf Hk r H. unfold hm_index in H. destruct (is_tnone F32 F64 j) eqn:Hn.
    - apply is_tnone_spec in Hn. pose proof (wfh_none_obj j Hwf Hn) as Ho.
      eapply nc_wf; [| exact Hk | exact H].
      destruct j as [t n s a o]; cbn [h_ty h_obj] in *; subst. split; [reflexivity | intros _; split; reflexivity].
    - eapply nc_wf; [| exact Hk | exact H]. split; [exact Hwf | discriminate].
  Qed.

  (* ---------------------------------------------------------------- remove *)
  Lemma remove_hidden : forall fuel c j, mres_map vis (hm_remove fuel c j) = m_remove F32 F64 fuel c (vis j).
  Proof.
    induction fuel as [|fuel IH]; intros c j; [reflexivity|].
    cbn [HModel.hm_remove Model.m_remove]. destruct (at_end c); [reflexivity|].
    destruct (is_tobj F32 F64 j) eqn:Ht.
    - apply is_tobj_spec in Ht. rewrite (vis_obj j Ht). destruct (next_key true c) as [key c'].
      destruct (at_end c').
      + cbn [mres_map]. rewrite (vis_set_obj j _ Ht). now rewrite erase_vis.
      + rewrite find_vis. destruct (afind key (h_obj F32 F64 j)) as [ch|]; cbn [option_map mres_map].
        * rewrite <- IH. destruct (hm_remove fuel c' ch) as [ch'| |]; cbn [mres_map]; try reflexivity.
          rewrite (vis_set_obj j _ Ht). now rewrite set_vis.
        * now rewrite (vis_obj j Ht).
    - assert (Hn : forall m, vis j <> JObj m).
      { apply vis_not_obj. intros Habs. apply is_tobj_spec in Habs. congruence. }
      cbn [mres_map]. destruct (vis j); try reflexivity. now elim (Hn m).
  Qed.

  Lemma remove_wf : forall fuel c j r, wfh j = true -> hm_remove fuel c j = MOk r -> wfh r = true.
  Proof.
    induction fuel as [|fuel IH]; intros c j r Hwf H; [discriminate|].
    cbn [HModel.hm_remove] in H. destruct (at_end c); [now injection H as <-|].
    destruct (is_tobj F32 F64 j) eqn:Ht; [|now injection H as <-]. apply is_tobj_spec in Ht.
    destruct (next_key true c) as [key c']. destruct (at_end c').
    - injection H as <-. apply wfh_set_obj; [exact Ht|]. apply forallb_aerase. now apply wfh_children.
    - destruct (afind key (h_obj F32 F64 j)) as [ch|] eqn:Ef; [|now injection H as <-].
      destruct (hm_remove fuel c' ch) as [ch'| |] eqn:E; try discriminate. injection H as <-.
      apply wfh_set_obj; [exact Ht|]. apply forallb_aset; [|now apply wfh_children].
      eapply IH; [|exact E]. eapply wfh_find; eassumption.
  Qed.

  End Flags.

  (* ---------------------------------------------------------------- merge (repaired lookup) *)
  Notation hm_merge := (hm_merge F32 F64 false).
  Notation hm_pluseq := (hm_pluseq F32 F64 false).

  Fixpoint hgo (bm : list (bytes * json)) (am : list (bytes * hj)) {struct bm} : list (bytes * hj) :=
    match bm with
    | [] => am
    | (key, val) :: t =>
        let present := match afind key am with Some _ => true | None => false end in
        let am' :=
          if is_obj F32 F64 val && present then
            match afind key am with
            | Some old => if is_tobj F32 F64 old then aset key (hm_merge old val) am
                          else aset key (clean_of val) am
            | None => aset key (clean_of val) am
            end
          else aset key (clean_of val) am in
        hgo t am'
    end.

  Lemma hm_merge_obj : forall a bm, hm_merge a (JObj bm) = set_obj F32 F64 (hgo bm (h_obj F32 F64 a)) a.
  Proof. intros a bm. cbn [HModel.hm_merge]. reflexivity. Qed.

  Lemma merge_hidden : forall b a, h_ty F32 F64 a = TObj ->
    vis (hm_merge a b) = m_merge F32 F64 false (vis a) b /\
    (wfh a = true -> wfh (hm_merge a b) = true).
  Proof.
    induction b as [| |p s|s|l IHl|bm IHm] using (Proofs.json_ind' F32 F64); intros a Ha;
      try (cbn [HModel.hm_merge]; rewrite (vis_obj a Ha); split; [reflexivity | intros H; exact H]).
    rewrite hm_merge_obj, (vis_obj a Ha), m_merge_obj.
    assert (Hgo : forall am, map fv (hgo bm am) = mgo F32 F64 bm (map fv am) /\
                   (forallb (fun kv => wfh (snd kv)) am = true -> forallb (fun kv => wfh (snd kv)) (hgo bm am) = true)).
    { clear a Ha. induction bm as [|[key val] t IHt]; intros am; [split; [reflexivity | auto]|].
      inversion IHm as [|? ? Hval Ht]; subst. cbn [snd] in Hval.
      cbn [hgo mgo]. rewrite find_vis.
      set (am' := if is_obj F32 F64 val && match afind key am with Some _ => true | None => false end
                  then match afind key am with
                       | Some old => if is_tobj F32 F64 old then aset key (hm_merge old val) am else aset key (clean_of val) am
                       | None => aset key (clean_of val) am
                       end
                  else aset key (clean_of val) am).
      assert (Ham : map fv am' =
                    (if is_obj F32 F64 val && match option_map vis (afind key am) with Some _ => true | None => false end
                     then match option_map vis (afind key am) with
                          | Some (JObj om) => obj_set F32 F64 key (m_merge F32 F64 false (JObj om) val) (map fv am)
                          | _ => obj_set F32 F64 key val (map fv am)
                          end
                     else obj_set F32 F64 key val (map fv am)) /\
                    (forallb (fun kv => wfh (snd kv)) am = true -> forallb (fun kv => wfh (snd kv)) am' = true)).
      { subst am'. destruct (afind key am) as [old|] eqn:Ef; cbn [option_map].
        - destruct (is_obj F32 F64 val) eqn:Hv; cbn [andb].
          + destruct (is_tobj F32 F64 old) eqn:Ho.
            * apply is_tobj_spec in Ho. destruct (Hval old Ho) as [Hm Hw].
              rewrite (vis_obj old Ho) in *. split; [now rewrite set_vis, Hm|].
              intros Hall. apply forallb_aset; [|exact Hall]. apply Hw.
              clear - Ef Hall. induction am as [|[k' x'] am IH]; [discriminate|].
              cbn [afind forallb snd] in *. apply andb_true_iff in Hall as [H1 H2].
              destruct (bytes_eqb key k'); [now injection Ef as <- | now apply IH].
            * assert (Hn : forall m, vis old <> JObj m).
              { apply vis_not_obj. intros Habs. apply is_tobj_spec in Habs. congruence. }
              split; [|intros Hall; apply forallb_aset; [apply wfh_clean | exact Hall]].
              rewrite set_vis, vis_clean. destruct (vis old); try reflexivity. now elim (Hn m).
          + split; [now rewrite set_vis, vis_clean | intros Hall; apply forallb_aset; [apply wfh_clean | exact Hall]].
        - rewrite andb_false_r. split; [now rewrite set_vis, vis_clean|].
          intros Hall; apply forallb_aset; [apply wfh_clean | exact Hall]. }
      destruct Ham as [Ham1 Ham2]. destruct (IHt Ht am') as [G1 G2].
      split; [rewrite G1, Ham1; reflexivity | intros Hall; apply G2, Ham2, Hall]. }
    destruct (Hgo (h_obj F32 F64 a)) as [G1 G2]. split.
    - rewrite (vis_set_obj a _ Ha). now rewrite G1.
    - intros Hw. apply wfh_set_obj; [exact Ha|]. apply G2. now apply wfh_children.
  Qed.

  Lemma pluseq_hidden : forall a b, wfh a = true ->
    mres_map vis (hm_pluseq a b) = m_pluseq F32 F64 false (vis a) b /\
    (forall r, hm_pluseq a b = MOk r -> wfh r = true).
  Proof.
    intros a b Hw. destruct b as [| |p s|s|l|bm]; cbn [HModel.hm_pluseq Model.m_pluseq];
      try (split; [destruct (vis a); reflexivity | discriminate]).
    - split; [reflexivity | intros r H; now injection H as <-].
    - destruct a as [t n s a o]. destruct t; cbn [h_ty HModel.vis mres_map]; try (split; [reflexivity | discriminate]).
      + (* none: it becomes an object first *)
        pose proof (wfh_none_obj _ Hw eq_refl) as Ho. cbn [h_obj] in Ho. subst o.
        destruct (merge_hidden (JObj bm) (HJ F32 F64 TObj n s a []) eq_refl) as [Hm Hwm].
        split; [cbn [set_ty]; now rewrite Hm | intros r H; injection H as <-; now apply Hwm].
      + split; [cbn [set_arr h_arr HModel.vis]; rewrite map_app; cbn [map]; now rewrite (vis_clean (JObj bm)) | intros r H; now injection H as <-].
      + destruct (merge_hidden (JObj bm) (HJ F32 F64 TObj n s a o) eq_refl) as [Hm Hwm].
        split; [now rewrite Hm | intros r H; injection H as <-; now apply Hwm].
  Qed.

  (* ---------------------------------------------------------------- typed assignment and set *)
  Lemma assign_typed_vis : forall t node, vis (assign_typed F32 F64 t node) = tval_json F32 F64 t.
  Proof.
    intros t [ty n s a o]. destruct t; cbn [assign_typed HModel.vis tval_json fst snd]; try reflexivity.
    - now rewrite vis_clean_list.
    - now rewrite vis_clean_obj.
  Qed.

  Lemma assign_typed_wf : forall t node, wfh node = true -> wfh (assign_typed F32 F64 t node) = true.
  Proof.
    intros t [ty n s a o] H. cbn [wfh] in H. apply andb_true_iff in H as [_ H].
    destruct t; cbn [assign_typed wfh andb]; try exact H.
    clear. induction m as [|[k x] m IH]; [reflexivity|]. cbn [map forallb snd]. now rewrite wfh_clean, IH.
  Qed.

  Lemma setkey_hidden : forall nc key (assign : hj -> hj) v j, wfh j = true ->
    (nc = false \/ set_safe F32 F64 j = true) ->
    (forall e, vis (assign e) = v) -> (forall e, wfh e = true -> wfh (assign e) = true) ->
    vis (hm_setkey F32 F64 nc key assign j) = m_setkey F32 F64 key v (vis j) /\
    wfh (hm_setkey F32 F64 nc key assign j) = true.
  Proof.
    intros nc key assign v j Hw Hsafe Ha Haw. unfold hm_setkey, m_setkey.
    set (j1 := if nc || is_tobj F32 F64 j || is_tnone F32 F64 j then set_ty F32 F64 TObj j
               else HJ F32 F64 TObj (num0 F32 F64) [] [] []).
    assert (H1 : h_ty F32 F64 j1 = TObj /\ wfh j1 = true /\
                 map fv (h_obj F32 F64 j1) = match vis j with JObj m => m | _ => [] end).
    { subst j1. destruct j as [t n s a o]. cbn [wfh] in Hw. apply andb_true_iff in Hw as [Hw1 Hw2].
      unfold is_tobj, is_tnone, set_safe in *. cbn [h_ty h_obj] in *.
      destruct t; cbn [jty_eqb orb] in *;
        try (destruct nc; cbn [orb set_ty h_ty h_obj wfh andb HModel.vis map];
             [destruct Hsafe as [Hs|Hs]; [discriminate|]; destruct o; [repeat split; reflexivity | discriminate]
             | repeat split; reflexivity]).
      - rewrite !orb_true_r. cbn [set_ty h_ty h_obj wfh andb HModel.vis]. destruct o; [repeat split; reflexivity | discriminate].
      - rewrite orb_true_r. cbn [orb set_ty h_ty h_obj wfh andb HModel.vis]. repeat split. exact Hw2. }
    destruct H1 as (Ht & Hw1 & Hm).
    set (entry := match afind key (h_obj F32 F64 j1) with Some x => x | None => hnone F32 F64 end).
    assert (Hew : wfh entry = true).
    { subst entry. destruct (afind key (h_obj F32 F64 j1)) eqn:Ef; [eapply wfh_find; eassumption | reflexivity]. }
    split.
    - rewrite (vis_set_obj j1 _ Ht), set_vis, Ha, Hm. reflexivity.
    - apply wfh_set_obj; [exact Ht|]. apply forallb_aset; [now apply Haw | now apply wfh_children].
  Qed.

  (* ---------------------------------------------------------------- steps and histories *)
  Notation hm_step := (hm_step F32 F64 false false).
  Notation m_step := (m_step F32 F64 false false).

  Lemma hupd_vis : forall j r r', mres_map vis r = r' ->
    let '(j', x) := hupd F32 F64 j r in upd F32 F64 (vis j) r' = (vis j', vis_obs F32 F64 x).
  Proof. intros j r r' <-. destruct r; reflexivity. Qed.

  Lemma hupd_wf : forall j r, wfh j = true -> (forall x, r = MOk x -> wfh x = true) -> wfh (fst (hupd F32 F64 j r)) = true.
  Proof. intros j r Hw H. destruct r; cbn [hupd fst]; [now apply H | exact Hw | exact Hw]. Qed.

  Theorem step_hidden : forall nc j o, wfh j = true -> step_safe F32 F64 nc j o = true ->
    let '(j', x) := hm_step nc j o in
    m_step (vis j) (op_vis F32 F64 o) = (vis j', vis_obs F32 F64 x) /\ wfh j' = true.
  Proof.
    intros nc j o Hw Hs.
    destruct o as [o|p t|k t].
    - destruct o; cbn [HModel.hm_step Model.m_step op_vis].
      + rewrite <- cget_hidden. destruct (hm_cget F32 F64 (pfuel p) (cstr p) j); cbn [mres_map vis_obs]; auto.
      + unfold hm_get, m_get. rewrite <- getpath_hidden.
        destruct (hm_getpath F32 F64 false (pfuel p) (cstr p) j) as [v| |]; cbn [mres_map vis_obs]; auto.
        rewrite is_tnone_vis. destruct (is_none F32 F64 (vis v)); [now rewrite vis_clean | auto].
      + rewrite has_hidden. destruct (m_has F32 F64 (pfuel p) (cstr p) (vis j)); cbn [vis_obs]; auto.
      + cbn [vis_obs]. now rewrite size_hidden.
      + rewrite <- cget_hidden. destruct (hm_cget F32 F64 (pfuel p) (cstr p) j) as [v| |]; cbn [mres_map vis_obs]; auto.
        now rewrite size_hidden.
      + pose proof (index_hidden (pfuel p) (cstr p) j (fun _ => MOk (clean_of v)) (fun _ => MOk v) Hw
                      ltac:(intros node _; cbn [mres_map]; now rewrite vis_clean)) as H.
        pose proof (hupd_vis j _ _ H) as Hu.
        pose proof (hupd_wf j (hm_index F32 F64 (pfuel p) (cstr p) j (fun _ => MOk (clean_of v))) Hw
                      ltac:(intros x Hx; eapply index_wf; [exact Hw | | exact Hx];
                            intros node r _ Hr; injection Hr as <-; apply wfh_clean)) as Hwf.
        destruct (hupd F32 F64 j _) as [j' x]. cbn [fst] in Hwf. auto.
      + cbn [step_safe] in Hs.
        destruct (setkey_hidden nc k (fun _ => clean_of v) v j Hw
                    ltac:(destruct nc; [right; exact Hs | now left])
                    ltac:(intros; apply vis_clean) ltac:(intros; apply wfh_clean)) as [Hv Hwf].
        rewrite Hv. auto.
      + pose proof (remove_hidden (pfuel p) (cstr p) j) as H. pose proof (hupd_vis j _ _ H) as Hu.
        pose proof (hupd_wf j (hm_remove F32 F64 (pfuel p) (cstr p) j) Hw
                      ltac:(intros x Hx; eapply remove_wf; eassumption)) as Hwf.
        destruct (hupd F32 F64 j _) as [j' x]. cbn [fst] in Hwf. auto.
      + destruct (pluseq_hidden j v Hw) as [H Hwp]. pose proof (hupd_vis j _ _ H) as Hu.
        pose proof (hupd_wf j (hm_pluseq j v) Hw Hwp) as Hwf.
        destruct (hupd F32 F64 j _) as [j' x]. cbn [fst] in Hwf. auto.
      + pose proof (index_hidden (pfuel p) (cstr p) j (fun node => hm_pluseq node v) (fun node => m_pluseq F32 F64 false node v) Hw
                      ltac:(intros node Hn; now destruct (pluseq_hidden node v Hn))) as H.
        pose proof (hupd_vis j _ _ H) as Hu.
        pose proof (hupd_wf j (hm_index F32 F64 (pfuel p) (cstr p) j (fun node => hm_pluseq node v)) Hw
                      ltac:(intros x Hx; eapply index_wf; [exact Hw | | exact Hx];
                            intros node r Hn Hr; destruct (pluseq_hidden node v Hn) as [_ Hq]; now apply Hq)) as Hwf.
        destruct (hupd F32 F64 j _) as [j' x]. cbn [fst] in Hwf. auto.
      + pose proof (index_hidden (pfuel p) (cstr p) j (fun node => MOk node) (fun node => MOk node) Hw
                      ltac:(intros node _; reflexivity)) as H.
        pose proof (hupd_vis j _ _ H) as Hu.
        pose proof (hupd_wf j (hm_index F32 F64 (pfuel p) (cstr p) j (fun node => MOk node)) Hw
                      ltac:(intros x Hx; eapply index_wf; [exact Hw | | exact Hx];
                            intros node r Hn Hr; now injection Hr as <-)) as Hwf.
        destruct (hupd F32 F64 j _) as [j' x]. cbn [fst] in Hwf. auto.
    - cbn [HModel.hm_step Model.m_step op_vis].
      pose proof (index_hidden (pfuel p) (cstr p) j (fun node => MOk (assign_typed F32 F64 t node))
                    (fun _ => MOk (tval_json F32 F64 t)) Hw
                    ltac:(intros node _; cbn [mres_map]; now rewrite assign_typed_vis)) as H.
      pose proof (hupd_vis j _ _ H) as Hu.
      pose proof (hupd_wf j (hm_index F32 F64 (pfuel p) (cstr p) j (fun node => MOk (assign_typed F32 F64 t node))) Hw
                    ltac:(intros x Hx; eapply index_wf; [exact Hw | | exact Hx];
                          intros node r Hn Hr; injection Hr as <-; now apply assign_typed_wf)) as Hwf.
      destruct (hupd F32 F64 j _) as [j' x]. cbn [fst] in Hwf. auto.
    - cbn [HModel.hm_step Model.m_step op_vis]. cbn [step_safe] in Hs.
      destruct (setkey_hidden nc k (assign_typed F32 F64 t) (tval_json F32 F64 t) j Hw
                  ltac:(destruct nc; [right; exact Hs | now left])
                  ltac:(intros; apply assign_typed_vis) ltac:(intros; now apply assign_typed_wf)) as [Hv Hwf].
      rewrite Hv. auto.
  Qed.

  Theorem run_hidden : forall nc ops j, wfh j = true -> run_safe F32 F64 false false nc j ops = true ->
    let '(j', xs) := hm_run F32 F64 false false nc j ops in
    m_run F32 F64 false false (vis j) (map (op_vis F32 F64) ops) = (vis j', map (vis_obs F32 F64) xs).
  Proof.
    intros nc ops. induction ops as [|o t IH]; intros j Hw Hs; [reflexivity|].
    cbn [run_safe] in Hs. apply andb_true_iff in Hs as [Hs1 Hs2].
    cbn [HModel.hm_run Model.m_run map]. pose proof (step_hidden nc j o Hw Hs1) as Hstep.
    destruct (hm_step nc j o) as [j1 x]. destruct Hstep as [Hstep Hw1]. rewrite Hstep.
    cbn [fst] in Hs2. specialize (IH j1 Hw1 Hs2).
    destruct (hm_run F32 F64 false false nc j1 t) as [j2 xs]. rewrite IH. reflexivity.
  Qed.

End Hidden.
