(* C25 — JSON path access and merging follow nested-dictionary semantics.  Statements only; proofs
   are in Proofs.v.  Vocabulary: Model.v (the transcribed path functions: m_step / m_run over the
   operations `op`) and Spec.v (nested dictionaries `dict`, `split_path`, d_get / d_has / d_write /
   d_remove / d_merge, s_step / s_run, `abs`).

   The model's two flags are `false` for the repaired source (fixes/C25-1.patch: mergeWithObject looks
   keys up as keys; fixes/C25-2.patch: getPathValue honours the backslash escape); the pinned variants
   (`true`) are refuted below. *)
From Coq Require Import List NArith ZArith Bool.
From OV.C24 Require Import Model.
From OV.C25 Require Import Model Spec Proofs HModel HProofs.
Import ListNotations.
Local Open Scope N_scope.

Section Statements.
  Variables F32 F64 : Type.
  Notation json := (json F32 F64).
  Notation op := (op F32 F64).

  (* MAIN (refinement over all histories): starting from a default-constructed json, for every finite
     history of operations over arbitrary paths and values, the model produces exactly the observations
     of the nested-dictionary specification, its final value is the specification's final dictionary,
     and the model never runs out of fuel (a `VFuel` observation would be mapped to `SFuel`, which the
     specification never emits). *)
  Theorem refines_nested_dict : forall (ops : list op),
    let '(j', xs) := m_run F32 F64 false false JNone ops in
    s_run F32 F64 (DUndef F32 F64) ops = (abs F32 F64 j', map (abs_obs F32 F64) xs).
  Proof. intros ops. exact (run_refines F32 F64 ops JNone). Qed.

  (* the same from any value, and step by step (the simulation diagram) *)
  Theorem refines_from_any_state : forall (ops : list op) (j : json),
    let '(j', xs) := m_run F32 F64 false false j ops in
    s_run F32 F64 (abs F32 F64 j) ops = (abs F32 F64 j', map (abs_obs F32 F64) xs).
  Proof. exact (run_refines F32 F64). Qed.

  Theorem step_simulation : forall (j : json) (o : op),
    let '(j', x) := m_step F32 F64 false false j o in
    s_step F32 F64 (abs F32 F64 j) o = (abs F32 F64 j', abs_obs F32 F64 x).
  Proof. exact (step_refines F32 F64). Qed.

  (* reads (const operator[], get with default, has, size) leave the value as it is, whatever the path:
     reading a missing path creates nothing *)
  Definition is_read (o : op) : bool :=
    match o with
    | OGet _ _ _ | OGetD _ _ _ _ | OHas _ _ _ | OSize _ _ | OSizeAt _ _ _ => true
    | _ => false
    end.

  Theorem reads_are_pure : forall (b1 b2 : bool) (j : json) (o : op),
    is_read o = true -> fst (m_step F32 F64 b1 b2 j o) = j.
  Proof. intros b1 b2 j o H. destruct o; try discriminate; reflexivity. Qed.

  (* a refused write (a defined non-object value is in the way) changes nothing *)
  Theorem refused_write_changes_nothing : forall (b1 b2 : bool) (j : json) (o : op),
    snd (m_step F32 F64 b1 b2 j o) = VErr F32 F64 -> fst (m_step F32 F64 b1 b2 j o) = j.
  Proof.
    intros b1 b2 j o H. destruct o; cbn [m_step fst snd] in *; try discriminate; try reflexivity;
      try (destruct (m_cget F32 F64 _ _ _); discriminate || reflexivity);
      match goal with |- fst (upd _ _ _ ?r) = _ => destruct r; cbn [upd fst snd] in *; try discriminate; reflexivity end.
  Qed.

  (* ---- values with their hidden storage (HModel.v): a json keeps value_.object / .array / .string when a
     typed assignment (j = 5, j = "s", j = jsonArray, j = jsonObject, also through set(key, scalar) and
     j[path] = scalar) changes its type.  `hop` adds these assignments to the operations. *)
  Notation hop := (hop F32 F64).

  (* MAIN, hidden storage included (repaired json::set: set_no_clear = false): for every history, starting
     from a default-constructed json, the model that carries all members of every value produces the
     observations and the final dictionary of the specification; stale members are never observable.
     The proof (HProofs.v) uses the `type == object_` guard of every walker. *)
  Theorem refines_nested_dict_hidden : forall (ops : list hop),
    let '(h', xs) := hm_run F32 F64 false false false (hnone F32 F64) ops in
    s_run F32 F64 (DUndef F32 F64) (map (op_vis F32 F64) ops)
      = (abs F32 F64 (vis F32 F64 h'), map (abs_obs F32 F64) (map (vis_obs F32 F64) xs)).
  Proof.
    intros ops.
    assert (Hsafe : forall ops h, run_safe F32 F64 false false false h ops = true).
    { induction ops0 as [|o t IH]; intros h; [reflexivity|]. cbn [run_safe]. rewrite IH.
      destruct o as [[]| |]; reflexivity. }
    pose proof (run_hidden F32 F64 false ops (hnone F32 F64) eq_refl (Hsafe ops _)) as H.
    destruct (hm_run F32 F64 false false false (hnone F32 F64) ops) as [h' xs].
    pose proof (run_refines F32 F64 (map (op_vis F32 F64) ops) JNone) as R.
    change (vis F32 F64 (hnone F32 F64)) with (@JNone F32 F64) in H. rewrite H in R. exact R.
  Qed.

  (* The pinned json::set (`type = object_` without clearing; set_no_clear = true).  FULL STATEMENT (false, see
     set_resurrects_stale_entries_refuted): the same as above with `true` for the last flag.
     Proved under the exact guard `run_safe`: every set(key, v) of the history is applied to a value that is an
     object, or undefined, or has no old entries. *)
  Theorem refines_nested_dict_hidden_partial : forall (ops : list hop),
    run_safe F32 F64 false false true (hnone F32 F64) ops = true ->
    let '(h', xs) := hm_run F32 F64 false false true (hnone F32 F64) ops in
    s_run F32 F64 (DUndef F32 F64) (map (op_vis F32 F64) ops)
      = (abs F32 F64 (vis F32 F64 h'), map (abs_obs F32 F64) (map (vis_obs F32 F64) xs)).
  Proof.
    intros ops Hs.
    pose proof (run_hidden F32 F64 true ops (hnone F32 F64) eq_refl Hs) as H.
    destruct (hm_run F32 F64 false false true (hnone F32 F64) ops) as [h' xs].
    pose proof (run_refines F32 F64 (map (op_vis F32 F64) ops) JNone) as R.
    change (vis F32 F64 (hnone F32 F64)) with (@JNone F32 F64) in H. rewrite H in R. exact R.
  Qed.

  (* the simulation itself, from any well-formed value: hidden model = visible model through `vis` *)
  Theorem hidden_storage_unobservable : forall (nc : bool) (ops : list hop) (h : hj F32 F64),
    wfh F32 F64 h = true -> run_safe F32 F64 false false nc h ops = true ->
    let '(h', xs) := hm_run F32 F64 false false nc h ops in
    m_run F32 F64 false false (vis F32 F64 h) (map (op_vis F32 F64) ops)
      = (vis F32 F64 h', map (vis_obs F32 F64) xs).
  Proof. exact (run_hidden F32 F64). Qed.

End Statements.

Print Assumptions refines_nested_dict_hidden.
Print Assumptions refines_nested_dict_hidden_partial.
Print Assumptions hidden_storage_unobservable.
Print Assumptions refines_nested_dict.
Print Assumptions refines_from_any_state.
Print Assumptions step_simulation.
Print Assumptions reads_are_pure.
Print Assumptions refused_write_changes_nothing.

(* ================================================================== witnesses *)
Notation tjson := (json unit unit).
Notation top := (op unit unit).
Definition I_ (z : Z) : tjson := JNum (PInt KI32 z) [].
Definition run_fixed (ops : list top) := m_run unit unit false false JNone ops.
Definition run_spec (ops : list top) := s_run unit unit (DUndef unit unit) ops.

(* a history that goes through every case of the proof: creation of intermediates, a refused write,
   reads of missing paths, remove, recursive merge with conflicting kinds, touch *)
Definition sample : list top :=
  [ OSet _ _ [97; 47; 98; 47; 99] (I_ 1);            (* j["a/b/c"] = 1 *)
    OGet _ _ [97; 47; 98];                            (* {"c": 1} *)
    OGet _ _ [97; 47; 120; 47; 121];                  (* missing: undefined, nothing created *)
    OHas _ _ [97; 47; 120];
    OSet _ _ [97; 47; 98; 47; 99; 47; 100] (I_ 2);    (* refused: a/b/c is a number *)
    OMerge _ _ (JObj [([97], JObj [([98], JObj [([100], I_ 3)]); ([101], I_ 4)])]);
    OMerge _ _ (JObj [([97], JObj [([98], I_ 5)])]);  (* conflicting kinds: the right-hand side wins *)
    OTouch _ _ [120; 47; 121];
    OHas _ _ [120]; OSize _ _;
    ORemove _ _ [97; 47; 101];
    OGetD _ _ [97; 47; 101] (I_ 9);
    OSizeAt _ _ [97] ].

Example sample_refines :
  run_spec sample = (abs unit unit (fst (run_fixed sample)), map (abs_obs unit unit) (snd (run_fixed sample))) /\
  snd (run_spec sample) =
    [ SUnit _ _; SVal _ _ (DObj _ _ [([99], DVal _ _ (I_ 1))]); SVal _ _ (DUndef _ _); SBool _ _ false; SErr _ _;
      SUnit _ _; SUnit _ _; SUnit _ _; SBool _ _ true; SInt _ _ 2%Z; SUnit _ _; SVal _ _ (DVal _ _ (I_ 9)); SInt _ _ 1%Z ].
Proof. split; vm_compute; reflexivity. Qed.

(* ---- DESIGN section 8 #29: the non-const operator[] creates what it names.  It is specified as a write
   (touch); this is what the decision amounts to on the confirmed example: j["a/b"]; then has("a"),
   size() and the value itself show the new entries, while the same path read through the const
   operator[] shows nothing. *)
Example touch_creates_a_placeholder :
  run_fixed [OTouch _ _ [97; 47; 98]; OHas _ _ [97]; OSize _ _]
    = (JObj [([97], JObj [([98], JNone)])], [VUnit _ _; VBool _ _ true; VInt _ _ 1%Z]) /\
  run_fixed [OGet _ _ [97; 47; 98]; OHas _ _ [97]; OSize _ _]
    = (JNone, [VVal _ _ JNone; VBool _ _ false; VInt _ _ 0%Z]).
Proof. split; vm_compute; reflexivity. Qed.

(* ---- the pinned mergeWithObject (has(key) parses the key as a path) loses the old entries of an object
   whose key contains '/' : {"a/b": {"x": 1}} += {"a/b": {"y": 2}} *)
Definition slash_history : list top :=
  [ OSetKey _ _ [97; 47; 98] (JObj [([120], I_ 1)]);
    OMerge _ _ (JObj [([97; 47; 98], JObj [([121], I_ 2)])]) ].

Theorem merge_key_as_path_refuted :
  abs unit unit (fst (m_run unit unit true false JNone slash_history)) <> fst (run_spec slash_history) /\
  fst (m_run unit unit true false JNone slash_history) = JObj [([97; 47; 98], JObj [([121], I_ 2)])] /\
  fst (run_fixed slash_history) = JObj [([97; 47; 98], JObj [([120], I_ 1); ([121], I_ 2)])].
Proof. split; [vm_compute; discriminate|]. split; vm_compute; reflexivity. Qed.

(* ---- the pinned getPathValue (no backslash escape): a value written through j["a\\/b"] is not found by
   j.get("a\\/b", 9) *)
Definition escape_history : list top :=
  [ OSet _ _ [97; 92; 47; 98] (I_ 1); OGet _ _ [97; 92; 47; 98]; OGetD _ _ [97; 92; 47; 98] (I_ 9) ].

Theorem get_without_escape_refuted :
  map (abs_obs unit unit) (snd (m_run unit unit false true JNone escape_history)) <> snd (run_spec escape_history) /\
  snd (m_run unit unit false true JNone escape_history) = [VUnit _ _; VVal _ _ (I_ 1); VVal _ _ (I_ 9)] /\
  snd (run_fixed escape_history) = [VUnit _ _; VVal _ _ (I_ 1); VVal _ _ (I_ 1)].
Proof. split; [vm_compute; discriminate|]. split; vm_compute; reflexivity. Qed.

(* ---- hidden storage.  j["a/b/c"] = 1; j["a/b"] = 5 (typed): the number at a/b still carries the entry c *)
Notation thop := (hop unit unit).
Definition stale_history : list thop :=
  [ HOp _ _ (OSet _ _ [97; 47; 98; 47; 99] (I_ 1));
    HSetT _ _ [97; 47; 98] (TVNum _ _ (PInt KI32 5));
    HOp _ _ (OHas _ _ [97; 47; 98; 47; 99]);
    HOp _ _ (OGet _ _ [97; 47; 98; 47; 99]);
    HOp _ _ (OSizeAt _ _ [97; 47; 98]) ].

Example stale_entries_are_kept_and_hidden :
  let '(h, xs) := hm_run unit unit false false false (hnone unit unit) stale_history in
  (* the hidden member is there ... *)
  (exists n s a, hm_cget unit unit 10 (cstr [97; 47; 98]) h
                 = MOk (HJ unit unit TNum n s a [([99], clean_of unit unit (I_ 1))])) /\
  (* ... and nothing shows it *)
  map (vis_obs unit unit) xs = [VUnit _ _; VUnit _ _; VBool _ _ false; VVal _ _ JNone; VInt _ _ 0%Z].
Proof. vm_compute. split; [eexists _, _, _; reflexivity | reflexivity]. Qed.

(* what the guard of json::has is for: the same walker without `if (j->type != object_) return false`
   (seeded/C25-b) answers true below the number *)
Example has_needs_its_type_guard :
  let h := fst (hm_run unit unit false false false (hnone unit unit) stale_history) in
  hm_has unit unit 10 (cstr [97; 47; 98; 47; 99]) h = MOk false /\
  hm_has_noguard unit unit 10 (cstr [97; 47; 98; 47; 99]) h = MOk true.
Proof. vm_compute. split; reflexivity. Qed.

(* the pinned json::set brings stale entries back: j["a"] = 1; j = "s" (typed, the root); j.set("k", 2) *)
Definition resurrect_history : list thop :=
  [ HOp _ _ (OSet _ _ [97] (I_ 1)); HSetT _ _ [] (TVStr _ _ [115]); HOp _ _ (OSetKey _ _ [107] (I_ 2)) ].

Theorem set_resurrects_stale_entries_refuted :
  vis unit unit (fst (hm_run unit unit false false true (hnone unit unit) resurrect_history))
    = JObj [([97], I_ 1); ([107], I_ 2)] /\
  fst (run_spec (map (op_vis unit unit) resurrect_history)) = DObj _ _ [([107], DVal _ _ (I_ 2))] /\
  run_safe unit unit false false true (hnone unit unit) resurrect_history = false /\
  vis unit unit (fst (hm_run unit unit false false false (hnone unit unit) resurrect_history)) = JObj [([107], I_ 2)].
Proof. repeat split; vm_compute; reflexivity. Qed.

(* the path syntax on a few shapes *)
Example split_path_examples :
  split_path true [97; 47; 98; 47; 99] = [[97]; [98]; [99]] /\          (* a/b/c *)
  split_path true [97; 47] = [[97]] /\                                    (* a/   : a trailing slash adds nothing *)
  split_path true [97; 47; 47; 98] = [[97]; []; [98]] /\                  (* a//b : an empty component *)
  split_path true [] = [] /\                                              (* the empty path is the value itself *)
  split_path true [97; 92; 47; 98] = [[97; 92; 47; 98]] /\                (* a\/b : one key, backslash kept *)
  split_path false [97; 92; 47; 98] = [[97; 92]; [98]] /\
  split_path true [97; 0; 47; 98] = [[97]].                               (* a C string ends at the NUL *)
Proof. repeat split; vm_compute; reflexivity. Qed.

Print Assumptions merge_key_as_path_refuted.
Print Assumptions get_without_escape_refuted.
Print Assumptions set_resurrects_stale_entries_refuted.
