(* Extraction of the executable models and specification of C25 (ExtrOcamlBasic only). *)
From Coq Require Import Extraction ExtrOcamlBasic NArith ZArith.
From OV.C24 Require Import Model.
From OV.C25 Require Import Model Spec HModel.
Extraction Language OCaml.
Extraction "../_work/extract/C25/model.ml"
  Z.add Z.mul Z.opp Z.of_N N.add N.mul dec_of_Z
  m_step m_run s_step s_run abs abs_obs split_path
  hm_run hm_step vis vis_obs op_vis clean_of hnone run_safe.
