(* C25 — the reference semantics: a json value seen as a nested dictionary.

     dict ::= DUndef                      an undefined value (what reads of missing paths return; also the
                                          placeholder that a non-const `j[path]` leaves at a path it creates)
            | DVal v                      any defined value that is not an object
            | DObj (finite map key -> dict)

   Paths are lists of keys (`split_path` is the path syntax: components separated by '/', a backslash
   takes the next byte literally, a trailing '/' adds nothing).  All operations are structural recursions
   on the key list; none of them mentions cursors, flags or std::map::operator[] side effects.

     d_get     read: undefined as soon as a component is missing or the value is not an object; pure
     d_has     every component exists (the empty path always does)
     d_write   the one write primitive: walk the path, creating a missing (or undefined) component as an
               object, fail on a defined non-object, apply `leaf` at the end
                 set    = d_write (fun _ => Some v)
                 touch  = d_write Some                  (non-const operator[] used as an expression)
                 +=     = d_write (fun d => d_pluseq d v)
     d_remove  erase the last component if the way to it exists
     d_merge   recursive merge of two objects, the right-hand side wins

   Decision recorded here (DESIGN section 8 #29): the non-const `j[path]` is *write access* — the
   documented way of building nested values is `j["a"]["b"]["c"] = x`, which only works if `j["a"]`
   creates the entry — so the specification treats it as a write (`touch`), and the "reads" of the
   property statement are the const operator[], get() , has() and size(), which `reads_are_pure` shows
   to change nothing.  See docs/notes/C25.md. *)
From Coq Require Import List NArith ZArith Bool.
From OV.C24 Require Import Model.
From OV.C25 Require Import Model.
Import ListNotations.
Local Open Scope N_scope.

(* ------------------------------------------------------------------ finite maps as association lists *)
Section AMap.
  Variable A : Type.
  Fixpoint afind (k : bytes) (m : list (bytes * A)) : option A :=
    match m with
    | [] => None
    | (k', v) :: m' => if bytes_eqb k k' then Some v else afind k m'
    end.
  Fixpoint aset (k : bytes) (v : A) (m : list (bytes * A)) : list (bytes * A) :=
    match m with
    | [] => [(k, v)]
    | (k', v') :: m' =>
        if bytes_ltb k k' then (k, v) :: m
        else if bytes_eqb k k' then (k, v) :: m'
        else (k', v') :: aset k v m'
    end.
  Fixpoint aerase (k : bytes) (m : list (bytes * A)) : list (bytes * A) :=
    match m with
    | [] => []
    | (k', v') :: m' => if bytes_eqb k k' then m' else (k', v') :: aerase k m'
    end.
End AMap.
Arguments afind {A} k m.
Arguments aset {A} k v m.
Arguments aerase {A} k m.

(* ------------------------------------------------------------------ path syntax *)
(* the bytes of a C string up to its terminator *)
Fixpoint until_nul (p : bytes) : bytes :=
  match p with
  | [] => []
  | x :: t => if x =? 0 then [] else x :: until_nul t
  end.

(* acc = the component being read (None: none is open, i.e. we are at the start or just after a '/') *)
Fixpoint split_go (esc : bool) (c : bytes) (acc : option bytes) : list bytes :=
  match c with
  | [] => match acc with Some k => [k] | None => [] end
  | x :: t =>
      let k := match acc with Some k => k | None => [] end in
      if x =? 47 then k :: split_go esc t None
      else if esc && (x =? 92) then
        match t with
        | y :: t' => split_go esc t' (Some (k ++ [x; y]))
        | [] => [k ++ [x]]
        end
      else split_go esc t (Some (k ++ [x]))
  end.

Definition split_path (esc : bool) (p : bytes) : list bytes := split_go esc (until_nul p) None.

Section WithFloats.
  Variables F32 F64 : Type.
  Notation json := (json F32 F64).

  Inductive dict :=
  | DUndef
  | DVal (v : json)
  | DObj (m : list (bytes * dict)).

  Fixpoint abs (j : json) : dict :=
    match j with
    | JNone => DUndef
    | JObj m => DObj (map (fun kv => let '(k, x) := kv in (k, abs x)) m)
    | v => DVal v
    end.

  Fixpoint d_get (ks : list bytes) (d : dict) : dict :=
    match ks with
    | [] => d
    | k :: ks' =>
        match d with
        | DObj m => match afind k m with Some d' => d_get ks' d' | None => DUndef end
        | _ => DUndef
        end
    end.

  Fixpoint d_has (ks : list bytes) (d : dict) : bool :=
    match ks with
    | [] => true
    | k :: ks' =>
        match d with
        | DObj m => match afind k m with Some d' => d_has ks' d' | None => false end
        | _ => false
        end
    end.

  Definition leaf_size (v : json) : Z :=
    match v with
    | JStr s => Z.of_nat (length s)
    | JArr l => Z.of_nat (length l)
    | _ => 0%Z
    end.

  Definition d_size (d : dict) : Z :=
    match d with
    | DObj m => Z.of_nat (length m)
    | DVal v => leaf_size v
    | DUndef => 0%Z
    end.

  (* None = the write is refused (a defined value that is not an object is in the way) *)
  Fixpoint d_write (leaf : dict -> option dict) (ks : list bytes) (d : dict) : option dict :=
    match ks with
    | [] => leaf d
    | k :: ks' =>
        match d with
        | DVal _ => None
        | DUndef =>
            match d_write leaf ks' DUndef with
            | Some c => Some (DObj [(k, c)])
            | None => None
            end
        | DObj m =>
            let child := match afind k m with Some c => c | None => DUndef end in
            match d_write leaf ks' child with
            | Some c => Some (DObj (aset k c m))
            | None => None
            end
        end
    end.

  Fixpoint d_remove (ks : list bytes) (d : dict) : dict :=
    match ks with
    | [] => d
    | k :: ks' =>
        match d with
        | DObj m =>
            match ks' with
            | [] => DObj (aerase k m)
            | _ => match afind k m with
                   | Some c => DObj (aset k (d_remove ks' c) m)
                   | None => d
                   end
            end
        | _ => d
        end
    end.

  (* recursive merge of objects, right-hand side wins *)
  Fixpoint d_merge (a b : dict) {struct b} : dict :=
    match a, b with
    | DObj am, DObj bm =>
        DObj ((fix go (bm am : list (bytes * dict)) {struct bm} : list (bytes * dict) :=
                 match bm with
                 | [] => am
                 | (k, bv) :: t =>
                     let am' := match bv, afind k am with
                                | DObj _, Some (DObj om) => aset k (d_merge (DObj om) bv) am
                                | _, _ => aset k bv am
                                end in
                     go t am'
                 end) bm am)
    | _, _ => a
    end.

  (* `a += b` for b an object or an undefined value; appending to an array is what the library does
     when the left-hand side is an array.  None = refused. *)
  Definition d_pluseq (a : dict) (b : json) : option dict :=
    match b with
    | JNone => Some a
    | JObj _ =>
        match a with
        | DUndef => Some (d_merge (DObj []) (abs b))
        | DObj _ => Some (d_merge a (abs b))
        | DVal (JArr l) => Some (DVal (JArr (l ++ [b])))
        | DVal _ => None
        end
    | _ => None
    end.

  (* ---------------------------------------------------------------- histories *)
  Inductive sobs :=
  | SVal (d : dict)
  | SBool (b : bool)
  | SInt (z : Z)
  | SUnit
  | SErr
  | SFuel.

  Definition supd (d : dict) (r : option dict) : dict * sobs :=
    match r with
    | Some d' => (d', SUnit)
    | None => (d, SErr)           (* a refused write changes nothing *)
    end.

  Notation op := (op F32 F64).

  Definition s_step (d : dict) (o : op) : dict * sobs :=
    match o with
    | OGet _ _ p => (d, SVal (d_get (split_path true p) d))
    | OGetD _ _ p dflt =>
        (d, SVal (match d_get (split_path true p) d with DUndef => abs dflt | r => r end))
    | OHas _ _ p => (d, SBool (d_has (split_path true p) d))
    | OSize _ _ => (d, SInt (d_size d))
    | OSizeAt _ _ p => (d, SInt (d_size (d_get (split_path true p) d)))
    | OSet _ _ p v => supd d (d_write (fun _ => Some (abs v)) (split_path true p) d)
    | OSetKey _ _ k v => (DObj (aset k (abs v) (match d with DObj m => m | _ => [] end)), SUnit)
    | ORemove _ _ p => (d_remove (split_path true p) d, SUnit)
    | OMerge _ _ v => supd d (d_pluseq d v)
    | OMergeAt _ _ p v => supd d (d_write (fun x => d_pluseq x v) (split_path true p) d)
    | OTouch _ _ p => supd d (d_write (fun x => Some x) (split_path true p) d)
    end.

  Fixpoint s_run (d : dict) (ops : list op) : dict * list sobs :=
    match ops with
    | [] => (d, [])
    | o :: t => let '(d', x) := s_step d o in
                let '(d'', xs) := s_run d' t in (d'', x :: xs)
    end.

  (* how an observation of the model is read in the specification's vocabulary *)
  Definition abs_obs (x : obs F32 F64) : sobs :=
    match x with
    | VVal _ _ v => SVal (abs v)
    | VBool _ _ b => SBool b
    | VInt _ _ z => SInt z
    | VUnit _ _ => SUnit
    | VErr _ _ => SErr
    | VFuel _ _ => SFuel
    end.

End WithFloats.
