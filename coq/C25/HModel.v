(* C25 — the path operations of occa::json on values WITH THEIR HIDDEN STORAGE.

   An occa::json is `type` + a struct value_ {number; string; array; object} whose four members all
   exist at the same time; `type` only says which one is meant.  The inline assignment operators of
   json.hpp for scalars, strings, jsonArray and jsonObject (`j = 5`, `j = "s"`, `j = someMap`, also reached
   through `set(key, scalar)` and `j["a/b"] = 5`) set `type` and ONE member and leave the other three
   as they were: a value that used to be an object and is now a number still carries its old children.
   What clears them: clear(), load(), the as*() conversions when the type changes, and
   `operator=(const json&)` / the copy constructor (they copy the whole value_ of the right-hand side).

   This file transcribes the same functions as Model.v on the record `hj` that keeps all members, plus the
   typed assignments.  Every function of json.cpp that walks a path guards each step with
   `type == object_` — HProofs.v shows that with these guards the hidden storage is unobservable (the
   model on hidden values simulates Model.v on visible values), and the proof needs every one of them.

   Flag set_no_clear (true = pinned source): json::set(key, v) does `type = object_` without clearing, so
   on a non-object it resurrects the stale entries (fixes/C25-3.patch: asObject()).
   The `number` member is kept but never observable here: no modelled operation makes a value a number
   without assigning it.  No proofs in this file. *)
From Coq Require Import List NArith ZArith Bool.
From OV.C24 Require Import Model.
From OV.C25 Require Import Model Spec.
Import ListNotations.
Local Open Scope N_scope.

Inductive jty := TNone | TNull | TNum | TStr | TArr | TObj.

Definition jty_eqb (a b : jty) : bool :=
  match a, b with
  | TNone, TNone | TNull, TNull | TNum, TNum | TStr, TStr | TArr, TArr | TObj, TObj => true
  | _, _ => false
  end.

Section WithFloats.
  Variables F32 F64 : Type.
  Notation json := (json F32 F64).
  Notation prim := (prim F32 F64).

  (* json: type, value_.number (+ its source text), value_.string, value_.array, value_.object *)
  Inductive hj :=
  | HJ (ty : jty) (num : prim * bytes) (str : bytes) (arr : list hj) (obj : list (bytes * hj)).

  Definition h_ty (h : hj) : jty := match h with HJ t _ _ _ _ => t end.
  Definition h_num (h : hj) : prim * bytes := match h with HJ _ n _ _ _ => n end.
  Definition h_str (h : hj) : bytes := match h with HJ _ _ s _ _ => s end.
  Definition h_arr (h : hj) : list hj := match h with HJ _ _ _ a _ => a end.
  Definition h_obj (h : hj) : list (bytes * hj) := match h with HJ _ _ _ _ o => o end.
  Definition set_ty (t : jty) (h : hj) : hj := match h with HJ _ n s a o => HJ t n s a o end.
  Definition set_obj (o : list (bytes * hj)) (h : hj) : hj := match h with HJ t n s a _ => HJ t n s a o end.
  Definition set_arr (a : list hj) (h : hj) : hj := match h with HJ t n s _ o => HJ t n s a o end.

  (* clear(): value_.number = 0 *)
  Definition num0 : prim * bytes := (PInt KI32 0%Z, []).
  Definition hnone : hj := HJ TNone num0 [] [] [].          (* json() *)

  (* a value built clean (constructors, operator=(const json&) from a clean value, parse) *)
  Fixpoint clean_of (v : json) : hj :=
    match v with
    | JNone => hnone
    | JNull => HJ TNull num0 [] [] []
    | JNum p s => HJ TNum (p, s) [] [] []
    | JStr s => HJ TStr num0 s [] []
    | JArr l => HJ TArr num0 [] (map clean_of l) []
    | JObj m => HJ TObj num0 [] [] (map (fun kv => let '(k, x) := kv in (k, clean_of x)) m)
    end.

  (* what the value means: the member that `type` selects *)
  Fixpoint vis (h : hj) : json :=
    match h with
    | HJ TNone _ _ _ _ => JNone
    | HJ TNull _ _ _ _ => JNull
    | HJ TNum n _ _ _ => JNum (fst n) (snd n)
    | HJ TStr _ s _ _ => JStr s
    | HJ TArr _ _ a _ => JArr (map vis a)
    | HJ TObj _ _ _ o => JObj (map (fun kv => let '(k, x) := kv in (k, vis x)) o)
    end.

  (* the right-hand side of a typed assignment *)
  Inductive tval :=
  | TVNum (p : prim)                        (* j = true, j = (int32_t) 5, ...: type = number_; value_.number = v *)
  | TVStr (s : bytes)                       (* j = "s": type = string_; value_.string = s *)
  | TVArr (l : list json)                   (* j = jsonArray: type = array_; value_.array = l *)
  | TVObj (m : list (bytes * json)).        (* j = jsonObject: type = object_; value_.object = m *)

  Definition tval_json (t : tval) : json :=
    match t with
    | TVNum p => JNum p []
    | TVStr s => JStr s
    | TVArr l => JArr l
    | TVObj m => JObj m
    end.

  (* json::operator=(T): the type and one member; the other members stay *)
  Definition assign_typed (t : tval) (h : hj) : hj :=
    match h with
    | HJ _ n s a o =>
        match t with
        | TVNum p => HJ TNum (p, []) s a o
        | TVStr s' => HJ TStr n s' a o
        | TVArr l => HJ TArr n s (map clean_of l) o
        | TVObj m => HJ TObj n s a (map (fun kv => let '(k, x) := kv in (k, clean_of x)) m)
        end
    end.

  Variable merge_has_path : bool.
  Variable get_no_escape : bool.
  Variable set_no_clear : bool.

  Definition is_tobj (h : hj) : bool := jty_eqb (h_ty h) TObj.
  Definition is_tnone (h : hj) : bool := jty_eqb (h_ty h) TNone.

  (* bool json::has(const std::string &s) const *)
  Fixpoint hm_has (fuel : nat) (c : bytes) (j : hj) : mres bool :=
    match fuel with
    | O => MFuel
    | S f =>
        if at_end c then MOk true
        else if is_tobj j then                                  (* if (j->type != object_) return false; *)
               let '(key, c') := next_key true c in
               match afind key (h_obj j) with
               | Some j' => hm_has f c' j'
               | None => MOk false
               end
             else MOk false
    end.

  (* const json& json::operator[](const char *c) const *)
  Fixpoint hm_cget (fuel : nat) (c : bytes) (j : hj) : mres hj :=
    match fuel with
    | O => MFuel
    | S f =>
        if at_end c then MOk j
        else if is_tobj j then
               let '(key, c') := next_key true c in
               match afind key (h_obj j) with
               | Some j' => hm_cget f c' j'
               | None => MOk hnone
               end
             else MOk hnone
    end.

  (* json json::getPathValue(const char *key) const *)
  Fixpoint hm_getpath (fuel : nat) (c : bytes) (j : hj) : mres hj :=
    match fuel with
    | O => MFuel
    | S f =>
        if at_end c then MOk j
        else if is_tobj j then
               let '(key, c') := next_key (negb get_no_escape) c in
               match afind key (h_obj j) with
               | Some j' => hm_getpath f c' j'
               | None => MOk hnone
               end
             else MOk hnone
    end.

  Definition hm_get (fuel : nat) (c : bytes) (dflt : json) (j : hj) : mres hj :=
    match hm_getpath fuel c j with
    | MOk v => MOk (if is_tnone v then clean_of dflt else v)
    | MErr => MErr | MFuel => MFuel
    end.

  (* the loop of json& json::operator[](const char *c) *)
  Fixpoint hm_nc (fuel : nat) (c : bytes) (j : hj) (exists_ : bool) (k : hj -> mres hj) : mres hj :=
    match fuel with
    | O => MFuel
    | S f =>
        if at_end c then k (if exists_ then j else set_ty TNone j)      (* if (!exists) j->type = none_ *)
        else if is_tobj j then                                          (* OCCA_ERROR(..., j->type == object_) *)
               let '(key, c') := next_key true c in
               let child := match afind key (h_obj j) with Some x => x | None => hnone end in
               let '(child', ex') := if is_tnone child then (set_ty TObj child, false)   (* j->type = object_ *)
                                      else (child, exists_) in
               match hm_nc f c' child' ex' k with
               | MOk child'' => MOk (set_obj (aset key child'' (h_obj j)) j)
               | MErr => MErr | MFuel => MFuel
               end
             else MErr
    end.

  Definition hm_index (fuel : nat) (c : bytes) (j : hj) (k : hj -> mres hj) : mres hj :=
    if is_tnone j then hm_nc fuel c (set_ty TObj j) false k       (* type = object_; exists = false *)
    else hm_nc fuel c j true k.

  (* json& json::remove(const char *c) *)
  Fixpoint hm_remove (fuel : nat) (c : bytes) (j : hj) : mres hj :=
    match fuel with
    | O => MFuel
    | S f =>
        if at_end c then MOk j
        else if is_tobj j then
               let '(key, c') := next_key true c in
               if at_end c' then MOk (set_obj (aerase key (h_obj j)) j)
               else match afind key (h_obj j) with
                    | None => MOk j
                    | Some ch =>
                        match hm_remove f c' ch with
                        | MOk ch' => MOk (set_obj (aset key ch' (h_obj j)) j)
                        | MErr => MErr | MFuel => MFuel
                        end
                    end
             else MOk j
    end.

  (* int json::size() const: a switch on the type *)
  Definition hm_size (j : hj) : Z :=
    match h_ty j with
    | TStr => Z.of_nat (length (h_str j))
    | TArr => Z.of_nat (length (h_arr j))
    | TObj => Z.of_nat (length (h_obj j))
    | _ => 0%Z
    end.

  (* json& json::set(const char *key, const T &value): `type = object_; value_.object[key] = value;`
     `assign` is what operator= does to the entry (a copy for T = json, a typed assignment otherwise) *)
  Definition hm_setkey (key : bytes) (assign : hj -> hj) (j : hj) : hj :=
    let j1 := if set_no_clear || is_tobj j || is_tnone j then set_ty TObj j
              else HJ TObj num0 [] [] [] in                        (* asObject(): clear() first *)
    let entry := match afind key (h_obj j1) with Some x => x | None => hnone end in
    set_obj (aset key (assign entry) (h_obj j1)) j1.

  Definition hhas_key (key : bytes) (j : hj) : bool :=
    match hm_has (S (S (length key))) (key ++ [0]) j with
    | MOk b => b
    | _ => false
    end.

  (* void json::mergeWithObject(const jsonObject &obj) on *this = a (an object); the right-hand side is a
     clean value, so `= val` copies a clean value *)
  Fixpoint hm_merge (a : hj) (b : json) {struct b} : hj :=
    match b with
    | JObj bm =>
        set_obj ((fix go (bm : list (bytes * json)) (am : list (bytes * hj)) {struct bm} : list (bytes * hj) :=
                    match bm with
                    | [] => am
                    | (key, val) :: t =>
                        let present := if merge_has_path then hhas_key key (set_obj am a)
                                       else match afind key am with Some _ => true | None => false end in
                        let am' :=
                          if is_obj F32 F64 val && present then
                            match afind key am with
                            | Some old => if is_tobj old then aset key (hm_merge old val) am     (* oldVal += val *)
                                          else aset key (clean_of val) am                         (* oldVal = val *)
                            | None => aset key (clean_of val) am
                            end
                          else aset key (clean_of val) am in
                        go t am'
                    end) bm (h_obj a)) a
    | _ => a
    end.

  (* json& json::operator+=(const json &j) for j an object or none *)
  Definition hm_pluseq (a : hj) (b : json) : mres hj :=
    match b with
    | JNone => MOk a
    | JObj _ =>
        match h_ty a with
        | TNone => MOk (hm_merge (set_ty TObj a) b)          (* type = j.type *)
        | TObj => MOk (hm_merge a b)
        | TArr => MOk (set_arr (h_arr a ++ [clean_of b]) a)   (* value_.array.push_back(j) *)
        | _ => MErr
        end
    | _ => MErr
    end.

  (* ---------------------------------------------------------------- histories *)
  Inductive hop :=
  | HOp (o : op F32 F64)                    (* the operations of Model.v; OSet / OSetKey assign a json (a copy) *)
  | HSetT (p : bytes) (t : tval)            (* j[p] = <scalar | string | jsonArray | jsonObject> *)
  | HSetKeyT (k : bytes) (t : tval).        (* j.set(k, <scalar | string | ...>) *)

  (* the same history for a reader who only sees values: a typed assignment assigns that value *)
  Definition op_vis (o : hop) : op F32 F64 :=
    match o with
    | HOp o => o
    | HSetT p t => OSet F32 F64 p (tval_json t)
    | HSetKeyT k t => OSetKey F32 F64 k (tval_json t)
    end.

  Inductive hobs :=
  | HVal (v : hj) | HBool (b : bool) | HInt (z : Z) | HUnit | HErr | HFuel.

  Definition hupd (j : hj) (r : mres hj) : hj * hobs :=
    match r with
    | MOk j' => (j', HUnit)
    | MErr => (j, HErr)
    | MFuel => (j, HFuel)
    end.

  Definition hm_step (j : hj) (o : hop) : hj * hobs :=
    match o with
    | HOp (OGet _ _ p) => (j, match hm_cget (pfuel p) (cstr p) j with MOk v => HVal v | MErr => HErr | MFuel => HFuel end)
    | HOp (OGetD _ _ p d) => (j, match hm_get (pfuel p) (cstr p) d j with MOk v => HVal v | MErr => HErr | MFuel => HFuel end)
    | HOp (OHas _ _ p) => (j, match hm_has (pfuel p) (cstr p) j with MOk b => HBool b | MErr => HErr | MFuel => HFuel end)
    | HOp (OSize _ _) => (j, HInt (hm_size j))
    | HOp (OSizeAt _ _ p) => (j, match hm_cget (pfuel p) (cstr p) j with MOk v => HInt (hm_size v) | MErr => HErr | MFuel => HFuel end)
    | HOp (OSet _ _ p v) => hupd j (hm_index (pfuel p) (cstr p) j (fun _ => MOk (clean_of v)))
    | HOp (OSetKey _ _ k v) => (hm_setkey k (fun _ => clean_of v) j, HUnit)
    | HOp (ORemove _ _ p) => hupd j (hm_remove (pfuel p) (cstr p) j)
    | HOp (OMerge _ _ v) => hupd j (hm_pluseq j v)
    | HOp (OMergeAt _ _ p v) => hupd j (hm_index (pfuel p) (cstr p) j (fun node => hm_pluseq node v))
    | HOp (OTouch _ _ p) => hupd j (hm_index (pfuel p) (cstr p) j (fun node => MOk node))
    | HSetT p t => hupd j (hm_index (pfuel p) (cstr p) j (fun node => MOk (assign_typed t node)))
    | HSetKeyT k t => (hm_setkey k (assign_typed t) j, HUnit)
    end.

  Fixpoint hm_run (j : hj) (ops : list hop) : hj * list hobs :=
    match ops with
    | [] => (j, [])
    | o :: t => let '(j', x) := hm_step j o in
                let '(j'', xs) := hm_run j' t in (j'', x :: xs)
    end.

  (* what an observation shows *)
  Definition vis_obs (x : hobs) : obs F32 F64 :=
    match x with
    | HVal v => VVal F32 F64 (vis v)
    | HBool b => VBool F32 F64 b
    | HInt z => VInt F32 F64 z
    | HUnit => VUnit F32 F64
    | HErr => VErr F32 F64
    | HFuel => VFuel F32 F64
    end.

  (* json::has with its per-step `type == object_` test removed (seeded/C25-b): NOT part of the model, only
     here so that Properties_C25.v can show what the guard is for *)
  Fixpoint hm_has_noguard (fuel : nat) (c : bytes) (j : hj) : mres bool :=
    match fuel with
    | O => MFuel
    | S f =>
        if at_end c then MOk true
        else let '(key, c') := next_key true c in
             match afind key (h_obj j) with
             | Some j' => hm_has_noguard f c' j'
             | None => MOk false
             end
    end.

  (* json::set(key, v) meets no stale entries: the value is an object or none, or has no old entries *)
  Definition set_safe (j : hj) : bool :=
    is_tobj j || is_tnone j || match h_obj j with [] => true | _ => false end.

  Definition step_safe (j : hj) (o : hop) : bool :=
    match o with
    | HOp (OSetKey _ _ _ _) | HSetKeyT _ _ => negb set_no_clear || set_safe j
    | _ => true
    end.

  Fixpoint run_safe (j : hj) (ops : list hop) : bool :=
    match ops with
    | [] => true
    | o :: t => step_safe j o && run_safe (fst (hm_step j o)) t
    end.

End WithFloats.
