(* C25 — refinement: the cursor-walking path functions of the model compute what the nested-dictionary
   specification computes on the list of keys of the path. *)
From Coq Require Import List NArith ZArith Bool Lia.
From OV.C24 Require Import Model PBytes.
From OV.C24 Require Proofs.
From OV.C25 Require Import Model Spec.
Import ListNotations.
Local Open Scope N_scope.

(* ------------------------------------------------------------------ path syntax *)
Definition keys (esc : bool) (c : bytes) : list bytes := split_go esc (until_nul c) None.

Lemma split_go_open : forall esc c, c <> [] -> split_go esc c None = split_go esc c (Some []).
Proof. intros esc [|x t] H; [congruence | reflexivity]. Qed.

Lemma at_end_keys : forall esc c, at_end c = true -> keys esc c = [].
Proof.
  intros esc [|x t] H; [reflexivity|]. cbn [at_end] in H. unfold keys. cbn [until_nul]. now rewrite H.
Qed.

Lemma until_nul_cstr : forall p, until_nul (p ++ [0]) = until_nul p.
Proof.
  induction p as [|x t IH]; [reflexivity|]. cbn [app until_nul]. destruct (x =? 0); [reflexivity | now rewrite IH].
Qed.

Lemma span_to_esc_len : forall c k r, span_to_esc 47 92 c = (k, r) -> (length k + length r = length c)%nat.
Proof.
  intros c. induction c as [c IH] using (induction_ltof1 _ (@length N)); unfold ltof in IH. intros k r H.
  destruct c as [|x t]; cbn [span_to_esc] in H.
  - injection H as <- <-; reflexivity.
  - destruct (x =? 0); [injection H as <- <-; reflexivity|].
    destruct (x =? 92).
    + destruct t as [|c1 t1]; [injection H as <- <-; reflexivity|].
      destruct (c1 =? 0); [injection H as <- <-; reflexivity|].
      destruct (span_to_esc 47 92 t1) as [k1 r1] eqn:E. injection H as <- <-.
      cbn [length] in *. specialize (IH t1 ltac:(lia) k1 r1 E). lia.
    + destruct (x =? 47); [injection H as <- <-; reflexivity|].
      destruct (span_to_esc 47 92 t) as [k1 r1] eqn:E. injection H as <- <-.
      cbn [length] in *. specialize (IH t ltac:(lia) k1 r1 E). lia.
Qed.

Lemma span_to_len : forall p c k r, span_to p c = (k, r) -> (length k + length r = length c)%nat.
Proof.
  intros p c. induction c as [|x t IH]; intros k r H; cbn [span_to] in H.
  - injection H as <- <-; reflexivity.
  - destruct ((x =? 0) || p x); [injection H as <- <-; reflexivity|].
    destruct (span_to p t) as [k1 r1] eqn:E. injection H as <- <-.
    cbn [length]. specialize (IH k1 r1 eq_refl). lia.
Qed.

(* what remains to be split once the component `acc` is open *)
Definition after_key (esc : bool) (r : bytes) : list bytes :=
  match r with x :: r' => if x =? 47 then keys esc r' else [] | [] => [] end.

Lemma split_esc_span : forall c acc,
  split_go true (until_nul c) (Some acc) =
    let '(k, r) := span_to_esc 47 92 c in (acc ++ k) :: after_key true r.
Proof.
  intros c. induction c as [c IH] using (induction_ltof1 _ (@length N)); unfold ltof in IH. intros acc.
  destruct c as [|x t]; cbn [span_to_esc until_nul].
  - cbn. now rewrite app_nil_r.
  - destruct (N.eqb_spec x 0) as [->|Hx0].
    + cbn. now rewrite app_nil_r.
    + destruct (N.eqb_spec x 92) as [->|Hx92].
      * destruct t as [|c1 t1].
        -- cbn. reflexivity.
        -- cbn [until_nul]. destruct (N.eqb_spec c1 0) as [->|Hc1].
           ++ cbn. reflexivity.
           ++ cbn [split_go]. change (92 =? 47) with false. cbn [andb]. change (92 =? 92) with true. cbv iota.
              rewrite (IH t1 ltac:(cbn [length]; lia)).
              destruct (span_to_esc 47 92 t1) as [k1 r1]. now rewrite <- app_assoc.
      * destruct (N.eqb_spec x 47) as [->|Hx47].
        -- cbn [split_go]. change (47 =? 47) with true. cbv iota. cbn [after_key]. change (47 =? 47) with true.
           cbv iota. now rewrite app_nil_r.
        -- cbn [split_go]. apply N.eqb_neq in Hx47, Hx92. rewrite Hx47, Hx92. cbn [andb].
           rewrite (IH t ltac:(cbn [length]; lia)).
           destruct (span_to_esc 47 92 t) as [k1 r1]. now rewrite <- app_assoc.
Qed.

Lemma split_noesc_span : forall c acc,
  split_go false (until_nul c) (Some acc) =
    let '(k, r) := span_to (fun x => x =? 47) c in (acc ++ k) :: after_key false r.
Proof.
  induction c as [|x t IH]; intros acc; cbn [span_to until_nul].
  - cbn. now rewrite app_nil_r.
  - destruct (N.eqb_spec x 0) as [->|Hx0].
    + cbn. now rewrite app_nil_r.
    + cbn [orb]. destruct (N.eqb_spec x 47) as [->|Hx47].
      * cbn [split_go]. change (47 =? 47) with true. cbv iota. cbn [after_key]. change (47 =? 47) with true.
        cbv iota. now rewrite app_nil_r.
      * cbn [split_go]. apply N.eqb_neq in Hx47. rewrite Hx47. cbn [andb].
        rewrite IH. destruct (span_to (fun x0 => x0 =? 47) t) as [k1 r1]. now rewrite <- app_assoc.
Qed.

(* one iteration of the loops: the component read and the cursor after it *)
Lemma next_key_keys : forall esc c, at_end c = false ->
  let '(k, c') := next_key esc c in
  keys esc c = k :: keys esc c' /\ (length c' < length c)%nat.
Proof.
  intros esc c H.
  assert (Hne : until_nul c <> []).
  { destruct c as [|x t]; [discriminate|]. cbn [at_end] in H. cbn [until_nul]. rewrite H. discriminate. }
  unfold keys at 1. rewrite split_go_open by exact Hne.
  unfold next_key. destruct esc.
  - rewrite split_esc_span. destruct (span_to_esc 47 92 c) as [k r] eqn:E.
    pose proof (span_to_esc_len c k r E) as Hl. cbn [app]. split.
    + f_equal. unfold after_key. destruct r as [|x r']; [reflexivity|].
      destruct (N.eqb_spec x 47); [reflexivity|].
      (* the scan stopped on a byte that is not '/': it is the terminator *)
      symmetry. apply at_end_keys.
      clear - E n. revert k E.
      induction c as [c IH] using (induction_ltof1 _ (@length N)); unfold ltof in IH. intros k E.
      destruct c as [|y t]; cbn [span_to_esc] in E; [discriminate|].
      destruct (N.eqb_spec y 0) as [->|Hy0]; [injection E as _ <- <-; reflexivity|].
      destruct (y =? 92).
      * destruct t as [|c1 t1]; [discriminate|].
        destruct (N.eqb_spec c1 0) as [->|Hc1]; [injection E as _ <- <-; reflexivity|].
        destruct (span_to_esc 47 92 t1) as [k1 r1] eqn:E1. injection E as _ Er. subst r1.
        exact (IH t1 ltac:(cbn [length]; lia) k1 E1).
      * destruct (N.eqb_spec y 47) as [->|Hy47]; [injection E as _ <- <-; congruence|].
        destruct (span_to_esc 47 92 t) as [k1 r1] eqn:E1. injection E as _ Er. subst r1.
        exact (IH t ltac:(cbn [length]; lia) k1 E1).
    + destruct r as [|x r'].
      * destruct c as [|y t]; [discriminate|]. cbn [length] in *. destruct k; cbn [length] in Hl; lia.
      * destruct (N.eqb_spec x 47) as [->|Hx]; [cbn [length] in *; lia|].
        (* r starts with the terminator and c does not: k is not empty *)
        destruct k as [|a k']; [|cbn [length] in *; lia].
        cbn [length] in Hl. assert (length (x :: r') = length c) by (cbn [length]; lia).
        exfalso. destruct c as [|y t]; [discriminate|]. cbn [span_to_esc] in E. cbn [at_end] in H. rewrite H in E.
        destruct (y =? 92).
        -- destruct t as [|c1 t1]; [discriminate|]. destruct (c1 =? 0); [discriminate|].
           destruct (span_to_esc 47 92 t1); discriminate.
        -- destruct (N.eqb_spec y 47) as [->|Hy]; [injection E as <- _; congruence|].
           destruct (span_to_esc 47 92 t); discriminate.
  - rewrite split_noesc_span. destruct (span_to (fun x => x =? 47) c) as [k r] eqn:E.
    pose proof (span_to_len _ c k r E) as Hl. cbn [app]. split.
    + f_equal. unfold after_key. destruct r as [|x r']; [reflexivity|].
      destruct (N.eqb_spec x 47); [reflexivity|].
      symmetry. apply at_end_keys.
      clear - E n. revert k E. induction c as [|y t IH]; intros k E; cbn [span_to] in E; [discriminate|].
      destruct (N.eqb_spec y 0) as [->|Hy0]; [injection E as _ <- <-; reflexivity|].
      cbn [orb] in E. destruct (N.eqb_spec y 47) as [->|Hy47]; [injection E as _ <- <-; congruence|].
      destruct (span_to (fun x0 => x0 =? 47) t) as [k1 r1] eqn:E1. injection E as _ Er. subst r1.
      exact (IH k1 eq_refl).
    + destruct r as [|x r'].
      * destruct c as [|y t]; [discriminate|]. cbn [length] in *. destruct k; cbn [length] in Hl; lia.
      * destruct (N.eqb_spec x 47) as [->|Hx]; [cbn [length] in *; lia|].
        destruct k as [|a k']; [|cbn [length] in *; lia].
        exfalso. destruct c as [|y t]; [discriminate|]. cbn [span_to] in E. cbn [at_end] in H. rewrite H in E.
        cbn [orb] in E. destruct (N.eqb_spec y 47) as [->|Hy]; [injection E as <- _; congruence|].
        destruct (span_to (fun x0 => x0 =? 47) t); discriminate.
Qed.

Lemma keys_cstr : forall esc p, keys esc (cstr p) = split_path esc p.
Proof. intros; unfold keys, cstr, split_path. now rewrite until_nul_cstr. Qed.

Lemma not_at_end_keys : forall esc c, at_end c = false -> keys esc c <> [].
Proof.
  intros esc c H. pose proof (next_key_keys esc c H) as N.
  destruct (next_key esc c) as [k c']. destruct N as [-> _]. discriminate.
Qed.

(* ------------------------------------------------------------------ abs and the finite maps *)
Section Refine.
  Variables F32 F64 : Type.
  Notation json := (json F32 F64).
  Notation dict := (dict F32 F64).
  Notation abs := (abs F32 F64).
  Notation f := (fun kv : bytes * json => let '(k, x) := kv in (k, abs x)).

  Lemma afind_abs : forall k m, afind k (map f m) = option_map abs (obj_find F32 F64 k m).
  Proof.
    induction m as [|[k' v] m IH]; [reflexivity|].
    cbn [map afind obj_find]. destruct (bytes_eqb k k'); [reflexivity | exact IH].
  Qed.

  Lemma aset_abs : forall k v m, map f (obj_set F32 F64 k v m) = aset k (abs v) (map f m).
  Proof.
    induction m as [|[k' v'] m IH]; [reflexivity|].
    cbn [map aset obj_set]. destruct (bytes_ltb k k'); [reflexivity|].
    destruct (bytes_eqb k k'); [reflexivity|]. cbn [map]. now rewrite IH.
  Qed.

  Lemma aerase_abs : forall k m, map f (obj_erase F32 F64 k m) = aerase k (map f m).
  Proof.
    induction m as [|[k' v'] m IH]; [reflexivity|].
    cbn [map aerase obj_erase]. destruct (bytes_eqb k k'); [reflexivity|]. cbn [map]. now rewrite IH.
  Qed.

  Lemma abs_undef : forall j, abs j = DUndef F32 F64 <-> j = JNone.
  Proof. intros j; split; [destruct j; discriminate || reflexivity | intros ->; reflexivity]. Qed.

  Notation m_has := (m_has F32 F64).
  Notation m_cget := (m_cget F32 F64).
  Notation m_getpath := (m_getpath F32 F64 false).
  Notation m_nc := (m_nc F32 F64).
  Notation m_index := (m_index F32 F64).
  Notation m_remove := (m_remove F32 F64).
  Notation m_merge := (m_merge F32 F64 false).
  Notation m_pluseq := (m_pluseq F32 F64 false).

  (* ---------------------------------------------------------------- reads *)
  Lemma has_refines : forall fuel c j, (length c < fuel)%nat ->
    m_has fuel c j = MOk (d_has F32 F64 (keys true c) (abs j)).
  Proof.
    induction fuel as [|fuel IH]; intros c j Hf; [lia|].
    cbn [Model.m_has]. destruct (at_end c) eqn:He.
    - now rewrite at_end_keys.
    - pose proof (next_key_keys true c He) as N. destruct (next_key true c) as [k c']. destruct N as [-> Hl].
      destruct j; cbn [Spec.abs d_has]; try reflexivity.
      rewrite afind_abs. destruct (obj_find F32 F64 k m) as [j'|]; cbn [option_map]; [|reflexivity].
      apply IH; lia.
  Qed.

  Lemma cget_refines : forall fuel c j, (length c < fuel)%nat ->
    exists v, m_cget fuel c j = MOk v /\ abs v = d_get F32 F64 (keys true c) (abs j).
  Proof.
    induction fuel as [|fuel IH]; intros c j Hf; [lia|].
    cbn [Model.m_cget]. destruct (at_end c) eqn:He.
    - rewrite at_end_keys by exact He. now exists j.
    - pose proof (next_key_keys true c He) as N. destruct (next_key true c) as [k c']. destruct N as [-> Hl].
      destruct j; cbn [Spec.abs d_get]; try (exists JNone; split; reflexivity).
      rewrite afind_abs. destruct (obj_find F32 F64 k m) as [j'|]; cbn [option_map]; [|exists JNone; split; reflexivity].
      apply IH; lia.
  Qed.

  Lemma getpath_refines : forall fuel c j, (length c < fuel)%nat ->
    exists v, m_getpath fuel c j = MOk v /\ abs v = d_get F32 F64 (keys true c) (abs j).
  Proof.
    induction fuel as [|fuel IH]; intros c j Hf; [lia|].
    cbn [Model.m_getpath negb]. destruct (at_end c) eqn:He.
    - rewrite at_end_keys by exact He. now exists j.
    - pose proof (next_key_keys true c He) as N. destruct (next_key true c) as [k c']. destruct N as [-> Hl].
      destruct j; cbn [Spec.abs d_get]; try (exists JNone; split; reflexivity).
      rewrite afind_abs. destruct (obj_find F32 F64 k m) as [j'|]; cbn [option_map]; [|exists JNone; split; reflexivity].
      apply IH; lia.
  Qed.

  (* ---------------------------------------------------------------- writes *)
  Definition krel (r : mres json) (o : option dict) : Prop :=
    match r, o with
    | MOk j', Some d' => abs j' = d'
    | MErr, None => True
    | _, _ => False
    end.

  (* the node the non-const operator[] stands on: a real one, or an object it has just created *)
  Definition inv (ex : bool) (j : json) : Prop := if ex then j <> JNone else j = JObj [].
  Definition node_abs (ex : bool) (j : json) : dict := if ex then abs j else DUndef F32 F64.

  Lemma nc_refines : forall fuel c j ex k leaf, (length c < fuel)%nat -> inv ex j ->
    (forall node, krel (k node) (leaf (abs node))) ->
    krel (m_nc fuel c j ex k) (d_write F32 F64 leaf (keys true c) (node_abs ex j)).
  Proof.
    induction fuel as [|fuel IH]; intros c j ex k leaf Hf Hinv Hk; [lia|].
    cbn [Model.m_nc]. destruct (at_end c) eqn:He.
    - rewrite at_end_keys by exact He. cbn [d_write].
      destruct ex; cbn [node_abs]; [apply Hk | apply (Hk JNone)].
    - pose proof (next_key_keys true c He) as N. destruct (next_key true c) as [key c']. destruct N as [-> Hl].
      assert (Hf' : (length c' < fuel)%nat) by lia.
      destruct ex; cbn [inv node_abs] in *.
      + destruct j as [| |p s|s|l|m]; cbn [Spec.abs d_write krel]; try exact I; [congruence|].
        rewrite afind_abs.
        destruct (obj_find F32 F64 key m) as [x|] eqn:Ef; cbn [option_map].
        * destruct x as [| |p s|s|l|m'].
          -- (* a none entry: it becomes an object *)
             specialize (IH c' (JObj []) false k leaf Hf' eq_refl Hk). cbn [node_abs] in IH. cbn [Spec.abs].
             destruct (m_nc fuel c' (JObj []) false k) as [ch| |]; destruct (d_write F32 F64 leaf (keys true c') (DUndef F32 F64));
               cbn [krel] in *; try contradiction; try exact I.
             cbn [Spec.abs]. now rewrite aset_abs, IH.
          -- specialize (IH c' JNull true k leaf Hf' ltac:(discriminate) Hk). cbn [node_abs] in IH.
             destruct (m_nc fuel c' JNull true k) as [ch| |]; destruct (d_write F32 F64 leaf (keys true c') (abs JNull));
               cbn [krel] in *; try contradiction; try exact I.
             cbn [Spec.abs]. now rewrite aset_abs, IH.
          -- specialize (IH c' (JNum p s) true k leaf Hf' ltac:(discriminate) Hk). cbn [node_abs] in IH.
             destruct (m_nc fuel c' (JNum p s) true k) as [ch| |]; destruct (d_write F32 F64 leaf (keys true c') (abs (JNum p s)));
               cbn [krel] in *; try contradiction; try exact I.
             cbn [Spec.abs]. now rewrite aset_abs, IH.
          -- specialize (IH c' (JStr s) true k leaf Hf' ltac:(discriminate) Hk). cbn [node_abs] in IH.
             destruct (m_nc fuel c' (JStr s) true k) as [ch| |]; destruct (d_write F32 F64 leaf (keys true c') (abs (JStr s)));
               cbn [krel] in *; try contradiction; try exact I.
             cbn [Spec.abs]. now rewrite aset_abs, IH.
          -- specialize (IH c' (JArr l) true k leaf Hf' ltac:(discriminate) Hk). cbn [node_abs] in IH.
             destruct (m_nc fuel c' (JArr l) true k) as [ch| |]; destruct (d_write F32 F64 leaf (keys true c') (abs (JArr l)));
               cbn [krel] in *; try contradiction; try exact I.
             cbn [Spec.abs]. now rewrite aset_abs, IH.
          -- specialize (IH c' (JObj m') true k leaf Hf' ltac:(discriminate) Hk). cbn [node_abs] in IH.
             destruct (m_nc fuel c' (JObj m') true k) as [ch| |]; destruct (d_write F32 F64 leaf (keys true c') (abs (JObj m')));
               cbn [krel] in *; try contradiction; try exact I.
             cbn [Spec.abs]. now rewrite aset_abs, IH.
        * (* a missing entry: std::map::operator[] inserts a none value, which becomes an object *)
          specialize (IH c' (JObj []) false k leaf Hf' eq_refl Hk). cbn [node_abs] in IH.
          destruct (m_nc fuel c' (JObj []) false k) as [ch| |]; destruct (d_write F32 F64 leaf (keys true c') (DUndef F32 F64));
            cbn [krel] in *; try contradiction; try exact I.
          cbn [Spec.abs]. now rewrite aset_abs, IH.
      + subst j. cbn [obj_find d_write].
        specialize (IH c' (JObj []) false k leaf Hf' eq_refl Hk). cbn [node_abs] in IH.
        destruct (m_nc fuel c' (JObj []) false k) as [ch| |]; destruct (d_write F32 F64 leaf (keys true c') (DUndef F32 F64));
          cbn [krel] in *; try contradiction; try exact I.
        cbn [obj_set Spec.abs map]. now rewrite IH.
  Qed.

  Lemma index_refines : forall p j k leaf,
    (forall node, krel (k node) (leaf (abs node))) ->
    krel (m_index (pfuel p) (cstr p) j k) (d_write F32 F64 leaf (split_path true p) (abs j)).
  Proof.
    intros p j k leaf Hk. rewrite <- keys_cstr.
    assert (Hf : (length (cstr p) < pfuel p)%nat) by (unfold cstr, pfuel; rewrite app_length; cbn; lia).
    unfold Model.m_index. destruct j.
    - exact (nc_refines (pfuel p) (cstr p) (JObj []) false k leaf Hf eq_refl Hk).
    - exact (nc_refines (pfuel p) (cstr p) JNull true k leaf Hf ltac:(discriminate) Hk).
    - exact (nc_refines (pfuel p) (cstr p) (JNum p0 src) true k leaf Hf ltac:(discriminate) Hk).
    - exact (nc_refines (pfuel p) (cstr p) (JStr s) true k leaf Hf ltac:(discriminate) Hk).
    - exact (nc_refines (pfuel p) (cstr p) (JArr l) true k leaf Hf ltac:(discriminate) Hk).
    - exact (nc_refines (pfuel p) (cstr p) (JObj m) true k leaf Hf ltac:(discriminate) Hk).
  Qed.

  Lemma remove_refines : forall fuel c j, (length c < fuel)%nat ->
    exists j', m_remove fuel c j = MOk j' /\ abs j' = d_remove F32 F64 (keys true c) (abs j).
  Proof.
    induction fuel as [|fuel IH]; intros c j Hf; [lia|].
    cbn [Model.m_remove]. destruct (at_end c) eqn:He.
    - rewrite at_end_keys by exact He. now exists j.
    - pose proof (next_key_keys true c He) as N. destruct (next_key true c) as [key c']. destruct N as [-> Hl].
      destruct j as [| |p s|s|l|m]; cbn [Spec.abs d_remove]; try (eexists; split; reflexivity).
      destruct (at_end c') eqn:He'.
      + rewrite (at_end_keys true c' He'). eexists; split; [reflexivity|]. cbn [Spec.abs]. now rewrite aerase_abs.
      + pose proof (not_at_end_keys true c' He') as Hne.
        destruct (keys true c') as [|k2 ks2] eqn:Ek; [congruence|].
        rewrite afind_abs. destruct (obj_find F32 F64 key m) as [ch|] eqn:Ef; cbn [option_map].
        * destruct (IH c' ch ltac:(lia)) as (ch' & E & A).
          rewrite E. eexists; split; [reflexivity|]. cbn [Spec.abs]. rewrite aset_abs, A. now rewrite Ek.
        * eexists; split; reflexivity.
  Qed.

  (* ---------------------------------------------------------------- merge *)
  (* the entry loops of mergeWithObject / d_merge as named functions *)
  Fixpoint mgo (bm am : list (bytes * json)) {struct bm} : list (bytes * json) :=
    match bm with
    | [] => am
    | (key, val) :: t =>
        let present := match obj_find F32 F64 key am with Some _ => true | None => false end in
        let am' :=
          if is_obj F32 F64 val && present then
            match obj_find F32 F64 key am with
            | Some (JObj om) => obj_set F32 F64 key (m_merge (JObj om) val) am
            | _ => obj_set F32 F64 key val am
            end
          else obj_set F32 F64 key val am in
        mgo t am'
    end.

  Fixpoint dgo (bm am : list (bytes * dict)) {struct bm} : list (bytes * dict) :=
    match bm with
    | [] => am
    | (k, bv) :: t =>
        let am' := match bv, afind k am with
                   | DObj _ _ _, Some (DObj _ _ om) => aset k (d_merge F32 F64 (DObj F32 F64 om) bv) am
                   | _, _ => aset k bv am
                   end in
        dgo t am'
    end.

  Lemma m_merge_obj : forall bm am, m_merge (JObj am) (JObj bm) = JObj (mgo bm am).
  Proof.
    intros bm am. cbn [Model.m_merge]. reflexivity.
  Qed.

  Lemma d_merge_obj : forall bm am, d_merge F32 F64 (DObj F32 F64 am) (DObj F32 F64 bm) = DObj F32 F64 (dgo bm am).
  Proof.
    intros bm am. cbn [d_merge]. reflexivity.
  Qed.

  Lemma merge_refines : forall b a, abs (m_merge a b) = d_merge F32 F64 (abs a) (abs b).
  Proof.
    induction b as [| |p src|s|l IHl|bm IHm] using (Proofs.json_ind' F32 F64); intros a;
      try (destruct a; reflexivity).
    destruct a as [| |p s|s|l|am]; try reflexivity.
    rewrite m_merge_obj. cbn [Spec.abs]. rewrite d_merge_obj. f_equal.
    revert am. induction bm as [|[key val] t IHt]; intros am; [reflexivity|].
    inversion IHm as [|? ? Hval Ht]; subst. cbn [snd] in Hval.
    cbn [map mgo dgo]. rewrite (IHt Ht). f_equal.
    (* one entry *)
    rewrite afind_abs.
    destruct val as [| |p s|s|l|vm]; cbn [is_obj andb Spec.abs]; try (now rewrite aset_abs);
      try (destruct (obj_find F32 F64 key am) as [[| | | | |]|]; cbn [option_map Spec.abs]; now rewrite aset_abs).
    destruct (obj_find F32 F64 key am) as [old|] eqn:Ef; cbn [option_map andb].
    - destruct old as [| |p s|s|l|om]; cbn [Spec.abs]; try (now rewrite aset_abs).
      rewrite aset_abs. f_equal. exact (Hval (JObj om)).
    - now rewrite aset_abs.
  Qed.

  Lemma pluseq_refines : forall a b, krel (m_pluseq a b) (d_pluseq F32 F64 (abs a) b).
  Proof.
    intros a b. destruct b as [| |p s|s|l|bm]; cbn [Model.m_pluseq d_pluseq krel]; try exact I.
    - reflexivity.
    - destruct a as [| |p s|s|l|am]; cbn [Spec.abs krel]; try exact I.
      + exact (merge_refines (JObj bm) (JObj [])).
      + reflexivity.
      + exact (merge_refines (JObj bm) (JObj am)).
  Qed.

  (* ---------------------------------------------------------------- steps and histories *)
  Notation m_step := (m_step F32 F64 false false).
  Notation m_run := (m_run F32 F64 false false).
  Notation s_step := (s_step F32 F64).
  Notation s_run := (s_run F32 F64).

  Lemma upd_refines : forall j r o, krel r o ->
    let '(j', x) := upd F32 F64 j r in supd F32 F64 (abs j) o = (abs j', abs_obs F32 F64 x).
  Proof.
    intros j r o H. destruct r as [j'| |], o as [d'|]; cbn [krel] in H; try contradiction; cbn [upd supd].
    - now subst.
    - reflexivity.
  Qed.

  Lemma size_refines : forall j, m_size F32 F64 j = d_size F32 F64 (abs j).
  Proof. destruct j; cbn [m_size Spec.abs d_size leaf_size]; try reflexivity. now rewrite map_length. Qed.

  Theorem step_refines : forall j o,
    let '(j', x) := m_step j o in s_step (abs j) o = (abs j', abs_obs F32 F64 x).
  Proof.
    intros j o.
    assert (Hf : forall p, (length (cstr p) < pfuel p)%nat) by (intros; unfold cstr, pfuel; rewrite app_length; cbn; lia).
    destruct o; cbn [Model.m_step Spec.s_step].
    - destruct (cget_refines (pfuel p) (cstr p) j (Hf p)) as (v & E & A). rewrite E, keys_cstr in *.
      cbn [abs_obs]. now rewrite A.
    - unfold m_get. destruct (getpath_refines (pfuel p) (cstr p) j (Hf p)) as (v & E & A).
      rewrite E, keys_cstr in *. cbn [abs_obs]. rewrite <- A.
      destruct v; reflexivity.
    - rewrite has_refines, keys_cstr by apply Hf. reflexivity.
    - cbn [abs_obs]. now rewrite size_refines.
    - destruct (cget_refines (pfuel p) (cstr p) j (Hf p)) as (v & E & A). rewrite E, keys_cstr in *.
      cbn [abs_obs]. now rewrite size_refines, A.
    - apply upd_refines. apply index_refines. intros node. reflexivity.
    - cbn [abs_obs]. unfold m_setkey. cbn [Spec.abs]. rewrite aset_abs. destruct j; reflexivity.
    - destruct (remove_refines (pfuel p) (cstr p) j (Hf p)) as (j' & E & A). rewrite E, keys_cstr in *.
      cbn [upd abs_obs]. now rewrite A.
    - apply upd_refines. apply pluseq_refines.
    - apply upd_refines. apply index_refines. intros node. apply pluseq_refines.
    - apply upd_refines. apply index_refines. intros node. reflexivity.
  Qed.

  Theorem run_refines : forall ops j,
    let '(j', xs) := m_run j ops in s_run (abs j) ops = (abs j', map (abs_obs F32 F64) xs).
  Proof.
    induction ops as [|o t IH]; intros j; [reflexivity|].
    cbn [Model.m_run Spec.s_run]. pose proof (step_refines j o) as Hs.
    destruct (m_step j o) as [j1 x]. rewrite Hs. specialize (IH j1).
    destruct (m_run j1 t) as [j2 xs]. rewrite IH. reflexivity.
  Qed.

End Refine.
