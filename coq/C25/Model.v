(* C25 — executable model of the path operations of occa::json (src/types/json.cpp,
   include/occa/types/json.hpp, include/occa/types/json.tpp), transcribed branch for branch, on the
   JSON tree of coq/C24/Model.v:

     has, operator[] const, getPathValue / get, operator[] (non-const), remove, size, set,
     operator+= / mergeWithObject.

   A path is a C string: the cursor `const char *c` is the list of remaining bytes including the
   terminating NUL (as in C24).  Every loop `while ( *c != '\0')` consumes at least one byte per
   iteration; the model gives it a fuel argument, and Proofs.v shows that the length of the path
   is enough.

   The model has two parameters that name the two repaired spots (true = pinned source):
     merge_has_path : mergeWithObject asks `has(key)`, which parses the key as a '/'-path, instead
                      of looking the key up (fixes/C25-1.patch);
     get_no_escape  : getPathValue splits with skipTo(c, '/') — no backslash escape — while every
                      other path function uses skipTo(c, '/', '\\') (fixes/C25-2.patch).

   Not modelled: the members of value_ that the current type does not select (a json keeps its old
   string/array/object members when only `type` changes; every value in the histories is built
   clean, see docs/notes/C25.md), operator+= with a right-hand side that is not an object or none.
   No proofs in this file. *)
From Coq Require Import List NArith ZArith Bool.
From OV.C24 Require Import Model.
Import ListNotations.
Local Open Scope N_scope.

Inductive mres (A : Type) : Type :=
| MOk (a : A)
| MErr          (* occa::exception *)
| MFuel.        (* model artefact; excluded by the theorems *)
Arguments MOk {A} a.
Arguments MErr {A}.
Arguments MFuel {A}.

(* `*c == '\0'` (a cursor is never moved past the terminator by the path functions) *)
Definition at_end (c : bytes) : bool := match c with [] => true | x :: _ => x =? 0 end.

(* lex::skipTo(c, '/', '\\') [esc] or lex::skipTo(c, '/') [no esc];
   std::string key(cStart, c - cStart); if ( *c == '/') ++c; *)
Definition next_key (esc : bool) (c : bytes) : bytes * bytes :=
  let '(k, r) := if esc then span_to_esc 47 92 c else span_to (fun x => x =? 47) c in
  (k, match r with x :: r' => if x =? 47 then r' else r | [] => r end).

Section WithFloats.
  Variables F32 F64 : Type.
  Notation json := (json F32 F64).
  Notation jobj := (list (bytes * json)).
  Notation obj_find := (obj_find F32 F64).
  Notation obj_set := (obj_set F32 F64).
  Notation obj_erase := (obj_erase F32 F64).

  Variable merge_has_path : bool.
  Variable get_no_escape : bool.

  Definition is_obj (j : json) : bool := match j with JObj _ => true | _ => false end.
  Definition is_none (j : json) : bool := match j with JNone => true | _ => false end.

  (* bool json::has(const std::string &s) const *)
  Fixpoint m_has (fuel : nat) (c : bytes) (j : json) : mres bool :=
    match fuel with
    | O => MFuel
    | S f =>
        if at_end c then MOk true
        else match j with
             | JObj m =>
                 let '(key, c') := next_key true c in
                 match obj_find key m with
                 | Some j' => m_has f c' j'
                 | None => MOk false
                 end
             | _ => MOk false
             end
    end.

  (* const json& json::operator[](const char *c) const; default_ is a none value *)
  Fixpoint m_cget (fuel : nat) (c : bytes) (j : json) : mres json :=
    match fuel with
    | O => MFuel
    | S f =>
        if at_end c then MOk j
        else match j with
             | JObj m =>
                 let '(key, c') := next_key true c in
                 match obj_find key m with
                 | Some j' => m_cget f c' j'
                 | None => MOk JNone
                 end
             | _ => MOk JNone
             end
    end.

  (* json json::getPathValue(const char *key) const *)
  Fixpoint m_getpath (fuel : nat) (c : bytes) (j : json) : mres json :=
    match fuel with
    | O => MFuel
    | S f =>
        if at_end c then MOk j
        else match j with
             | JObj m =>
                 let '(key, c') := next_key (negb get_no_escape) c in
                 match obj_find key m with
                 | Some j' => m_getpath f c' j'
                 | None => MOk JNone
                 end
             | _ => MOk JNone
             end
    end.

  (* T json::get(const char *key, const T &default_) const   with T = json *)
  Definition m_get (fuel : nat) (c : bytes) (dflt : json) (j : json) : mres json :=
    match m_getpath fuel c j with
    | MOk v => MOk (if is_none v then dflt else v)     (* value.isInitialized() *)
    | MErr => MErr | MFuel => MFuel
    end.

  (* The loop of json& json::operator[](const char *c): `j` is the node reached so far, `exists_`
     the flag, `k` what the caller does with the reference it gets (assign, +=, nothing).  The
     result is the node `j` after the whole statement. *)
  Fixpoint m_nc (fuel : nat) (c : bytes) (j : json) (exists_ : bool) (k : json -> mres json) : mres json :=
    match fuel with
    | O => MFuel
    | S f =>
        if at_end c then k (if exists_ then j else JNone)         (* if (!exists) j->type = none_ *)
        else match j with
             | JObj m =>
                 let '(key, c') := next_key true c in
                 (* j = &(j->value_.object[key]): std::map::operator[] inserts a none json *)
                 let child := match obj_find key m with Some x => x | None => JNone end in
                 let '(child', ex') := match child with
                                        | JNone => (JObj [], false)        (* j->type = object_; exists = false *)
                                        | _ => (child, exists_)
                                        end in
                 match m_nc f c' child' ex' k with
                 | MOk child'' => MOk (JObj (obj_set key child'' m))
                 | MErr => MErr | MFuel => MFuel
                 end
             | _ => MErr                                            (* "Path ... is not an object" *)
             end
    end.

  Definition m_index (fuel : nat) (c : bytes) (j : json) (k : json -> mres json) : mres json :=
    (* if (type == none_) { type = object_; exists = false; } *)
    match j with
    | JNone => m_nc fuel c (JObj []) false k
    | _ => m_nc fuel c j true k
    end.

  (* json& json::remove(const char *c) *)
  Fixpoint m_remove (fuel : nat) (c : bytes) (j : json) : mres json :=
    match fuel with
    | O => MFuel
    | S f =>
        if at_end c then MOk j
        else match j with
             | JObj m =>
                 let '(key, c') := next_key true c in
                 if at_end c' then MOk (JObj (obj_erase key m))
                 else match obj_find key m with
                      | None => MOk j
                      | Some ch =>
                          match m_remove f c' ch with
                          | MOk ch' => MOk (JObj (obj_set key ch' m))
                          | MErr => MErr | MFuel => MFuel
                          end
                      end
             | _ => MOk j
             end
    end.

  (* int json::size() const *)
  Definition m_size (j : json) : Z :=
    match j with
    | JStr s => Z.of_nat (length s)
    | JArr l => Z.of_nat (length l)
    | JObj m => Z.of_nat (length m)
    | _ => 0%Z
    end.

  (* json& json::set(const char *key, const T &value): type = object_; value_.object[key] = value *)
  Definition m_setkey (key : bytes) (v : json) (j : json) : json :=
    JObj (obj_set key v (match j with JObj m => m | _ => [] end)).

  (* `has(key)` as mergeWithObject calls it: the key goes through the path parser *)
  Definition has_key (key : bytes) (j : json) : bool :=
    match m_has (S (S (length key))) (key ++ [0]) j with
    | MOk b => b
    | _ => false
    end.

  (* void json::mergeWithObject(const jsonObject &obj), with `oldVal += val` on two objects inlined
     (it is mergeWithObject again).  a and b are objects. *)
  Fixpoint m_merge (a : json) (b : json) {struct b} : json :=
    match a, b with
    | JObj am, JObj bm =>
        JObj ((fix go (bm : jobj) (am : jobj) {struct bm} : jobj :=
                 match bm with
                 | [] => am
                 | (key, val) :: t =>
                     let present := if merge_has_path then has_key key (JObj am)
                                    else match obj_find key am with Some _ => true | None => false end in
                     let am' :=
                       if is_obj val && present then
                         match obj_find key am with
                         | Some (JObj om) => obj_set key (m_merge (JObj om) val) am    (* oldVal += val *)
                         | _ => obj_set key val am                                      (* oldVal = val *)
                         end
                       else obj_set key val am in
                     go t am'
                 end) bm am)
    | _, _ => a
    end.

  (* json& json::operator+=(const json &j) for j an object or none *)
  Definition m_pluseq (a b : json) : mres json :=
    match b with
    | JNone => MOk a
    | JObj _ =>
        match a with
        | JNone => MOk (m_merge (JObj []) b)      (* type = j.type *)
        | JObj _ => MOk (m_merge a b)
        | JArr l => MOk (JArr (l ++ [b]))           (* value_.array.push_back(j) *)
        | _ => MErr                                 (* "Cannot apply operator + with different JSON types" *)
        end
    | _ => MErr                                     (* not modelled: see the header *)
    end.

  (* ---------------------------------------------------------------- histories *)
  Inductive op :=
  | OGet (p : bytes)                       (* ((const json&) j)[p] *)
  | OGetD (p : bytes) (dflt : json)        (* j.get<json>(p, dflt) *)
  | OHas (p : bytes)                       (* j.has(p) *)
  | OSize                                  (* j.size() *)
  | OSizeAt (p : bytes)                    (* ((const json&) j)[p].size() *)
  | OSet (p : bytes) (v : json)            (* j[p] = v *)
  | OSetKey (k : bytes) (v : json)         (* j.set(k, v) *)
  | ORemove (p : bytes)                    (* j.remove(p) *)
  | OMerge (v : json)                      (* j += v *)
  | OMergeAt (p : bytes) (v : json)        (* j[p] += v *)
  | OTouch (p : bytes).                    (* j[p]; *)

  Inductive obs :=
  | VVal (v : json)
  | VBool (b : bool)
  | VInt (z : Z)
  | VUnit
  | VErr
  | VFuel.

  Definition cstr (p : bytes) : bytes := p ++ [0].
  Definition pfuel (p : bytes) : nat := S (S (length p)).      (* one more than the length of the C string *)

  Definition upd (j : json) (r : mres json) : json * obs :=
    match r with
    | MOk j' => (j', VUnit)
    | MErr => (j, VErr)            (* the exception leaves the value as it was: see Proofs.v *)
    | MFuel => (j, VFuel)
    end.

  Definition m_step (j : json) (o : op) : json * obs :=
    match o with
    | OGet p => (j, match m_cget (pfuel p) (cstr p) j with MOk v => VVal v | MErr => VErr | MFuel => VFuel end)
    | OGetD p d => (j, match m_get (pfuel p) (cstr p) d j with MOk v => VVal v | MErr => VErr | MFuel => VFuel end)
    | OHas p => (j, match m_has (pfuel p) (cstr p) j with MOk b => VBool b | MErr => VErr | MFuel => VFuel end)
    | OSize => (j, VInt (m_size j))
    | OSizeAt p => (j, match m_cget (pfuel p) (cstr p) j with MOk v => VInt (m_size v) | MErr => VErr | MFuel => VFuel end)
    | OSet p v => upd j (m_index (pfuel p) (cstr p) j (fun _ => MOk v))
    | OSetKey k v => (m_setkey k v j, VUnit)
    | ORemove p => upd j (m_remove (pfuel p) (cstr p) j)
    | OMerge v => upd j (m_pluseq j v)
    | OMergeAt p v => upd j (m_index (pfuel p) (cstr p) j (fun node => m_pluseq node v))
    | OTouch p => upd j (m_index (pfuel p) (cstr p) j (fun node => MOk node))
    end.

  Fixpoint m_run (j : json) (ops : list op) : json * list obs :=
    match ops with
    | [] => (j, [])
    | o :: t => let '(j', x) := m_step j o in
                let '(j'', xs) := m_run j' t in (j'', x :: xs)
    end.

End WithFloats.
