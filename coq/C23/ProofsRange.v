(* C23 — range::length and the index -> value map against the sequential loop. *)
From Coq Require Import List ZArith Bool Lia Arith.
From OV.C23 Require Import Model Spec Menu ProofsLoops ProofsMap.
Import ListNotations.
Local Open Scope Z_scope.

Lemma iota_cons : forall c, 0 <= c -> iota (1 + c) = 0 :: map (fun j => j + 1) (iota c).
Proof.
  intros c Hc. unfold iota. replace (Z.to_nat (1 + c)) with (S (Z.to_nat c)) by lia.
  cbn [seq map]. f_equal. rewrite <- seq_shift, !map_map. apply map_ext. intros j. lia.
Qed.

Definition up_count (a e st : Z) : Z := if a <? e then (e - a - 1) / st + 1 else 0.

Lemma up_count_nonneg : forall a e st, 0 < st -> 0 <= up_count a e st.
Proof.
  intros a e st Hst. unfold up_count. destruct (a <? e) eqn:E; [|lia].
  apply Z.ltb_lt in E. assert (0 <= (e - a - 1) / st) by (apply Z.div_pos; lia). lia.
Qed.

Lemma ups_closed : forall e st, 0 < st -> forall a,
  ups a e st = map (fun j => a + st * j) (iota (up_count a e st)).
Proof.
  intros e st Hst.
  apply (up_ind e st (fun a => ups a e st = map (fun j => a + st * j) (iota (up_count a e st))) Hst).
  - intros a G. rewrite ups_ge by lia. unfold up_count.
    replace (a <? e) with false by (symmetry; apply Z.ltb_ge; lia). reflexivity.
  - intros a L IH. rewrite ups_lt by lia. rewrite IH.
    assert (E : up_count a e st = 1 + up_count (a + st) e st).
    { unfold up_count. replace (a <? e) with true by (symmetry; apply Z.ltb_lt; lia).
      destruct (a + st <? e) eqn:E2.
      - apply Z.ltb_lt in E2. replace (e - a - 1) with ((e - (a + st) - 1) + 1 * st) by lia.
        rewrite Z.div_add by lia. lia.
      - apply Z.ltb_ge in E2. rewrite Z.div_small by lia. lia. }
    rewrite E, iota_cons by (apply up_count_nonneg; assumption).
    cbn [map]. f_equal; [lia|]. rewrite map_map. apply map_ext. intros j. lia.
Qed.

(* the specification's walk is the model's loop *)
Lemma walk_ups : forall e st, 0 < st -> forall fuel a, (Z.to_nat (e - a) < fuel)%nat ->
  walk fuel a (fun x => x <? e) st = ups a e st.
Proof.
  intros e st Hst. induction fuel as [|f IH]; intros a Hf; [lia|].
  cbn [walk]. destruct (a <? e) eqn:E.
  - apply Z.ltb_lt in E. rewrite ups_lt by lia. f_equal. apply IH. lia.
  - apply Z.ltb_ge in E. rewrite ups_ge by lia. reflexivity.
Qed.

Lemma walk_opp : forall e st fuel a,
  walk fuel a (fun x => e <? x) st = map Z.opp (walk fuel (- a) (fun x => x <? - e) (- st)).
Proof.
  intros e st. induction fuel as [|f IH]; intros a; [reflexivity|].
  cbn [walk]. replace (- a <? - e) with (e <? a).
  - destruct (e <? a); [|reflexivity]. cbn [map]. f_equal; [lia|].
    rewrite IH. f_equal. f_equal. lia.
  - destruct (e <? a) eqn:E1, (- a <? - e) eqn:E2; try reflexivity;
      [apply Z.ltb_lt in E1; apply Z.ltb_ge in E2; lia | apply Z.ltb_ge in E1; apply Z.ltb_lt in E2; lia].
Qed.

Lemma s_range_values_up : forall s e st, 0 < st -> s_range_values s e st = ups s e st.
Proof.
  intros s e st Hst. unfold s_range_values.
  replace (0 <? st) with true by (symmetry; apply Z.ltb_lt; assumption).
  apply walk_ups; [assumption|]. lia.
Qed.

Lemma s_range_values_down : forall s e st, st < 0 -> s_range_values s e st = downs s e (- st).
Proof.
  intros s e st Hst. unfold s_range_values, downs.
  replace (0 <? st) with false by (symmetry; apply Z.ltb_ge; lia).
  rewrite walk_opp. f_equal. apply walk_ups; lia.
Qed.

Theorem range_length_values : forall s e st, st <> 0 ->
  map (range_value (mkRange s e st)) (iota (range_length (mkRange s e st))) = s_range_values s e st.
Proof.
  intros s e st Hst. unfold range_length, range_value. cbn [r_start r_end r_step].
  destruct (Z_lt_ge_dec 0 st) as [P|N].
  - rewrite s_range_values_up, ups_closed by assumption.
    replace (st <=? 0) with false by (symmetry; apply Z.leb_gt; lia).
    replace (0 <=? st) with true by (symmetry; apply Z.leb_le; lia).
    replace (0 <? st) with true by (symmetry; apply Z.ltb_lt; lia).
    rewrite andb_false_r, andb_true_r. cbn [orb]. unfold up_count.
    destruct (e <? s) eqn:E1.
    + apply Z.ltb_lt in E1. replace (s <? e) with false by (symmetry; apply Z.ltb_ge; lia). reflexivity.
    + apply Z.ltb_ge in E1. destruct (s <? e) eqn:E2.
      * apply Z.ltb_lt in E2. rewrite Z.quot_div_nonneg by lia.
        replace (e - s + st - 1) with ((e - s - 1) + 1 * st) by lia. rewrite Z.div_add by lia. reflexivity.
      * apply Z.ltb_ge in E2. assert (s = e) by lia. subst.
        replace (e - e + st - 1) with (st - 1) by lia. rewrite Z.quot_small by lia. reflexivity.
  - assert (Hn : st < 0) by lia. rewrite s_range_values_down by assumption.
    unfold downs. rewrite ups_closed by lia. rewrite map_map.
    replace (st <=? 0) with true by (symmetry; apply Z.leb_le; lia).
    replace (0 <=? st) with false by (symmetry; apply Z.leb_gt; lia).
    replace (0 <? st) with false by (symmetry; apply Z.ltb_ge; lia).
    rewrite andb_true_r, andb_false_r, orb_false_r. unfold up_count.
    destruct (s <? e) eqn:E1.
    + apply Z.ltb_lt in E1. replace (- s <? - e) with false by (symmetry; apply Z.ltb_ge; lia). reflexivity.
    + apply Z.ltb_ge in E1. destruct (- s <? - e) eqn:E2.
      * apply Z.ltb_lt in E2.
        assert (Q : Z.quot (e - s + st + 1) st = (- e - - s - 1) / - st + 1).
        { transitivity (Z.quot (- ((s - e - 1) + 1 * (- st))) (- (- st))); [f_equal; lia|].
          rewrite Z.quot_opp_opp by lia. rewrite Z.quot_div_nonneg by lia. rewrite Z.div_add by lia.
          f_equal. f_equal. lia. }
        rewrite Q. apply map_ext. intros j. lia.
      * apply Z.ltb_ge in E2. assert (s = e) by lia. subst.
        assert (Q : Z.quot (e - e + st + 1) st = 0).
        { transitivity (Z.quot (- (- st - 1)) (- (- st))); [f_equal; lia|].
          rewrite Z.quot_opp_opp by lia. apply Z.quot_small. lia. }
        rewrite Q. reflexivity.
Qed.

(* the constructors never produce step 0 *)
Lemma range_ctor_step : forall a b c,
  r_step (range1 a) <> 0 /\ r_step (range2 a b) <> 0 /\ r_step (range3 a b c) <> 0.
Proof.
  intros a b c. unfold range1, range2, range3. cbn [r_step].
  destruct (0 <=? a), (a <=? b), (c =? 0) eqn:E; repeat split; try lia;
    apply Z.eqb_neq in E; exact E.
Qed.
