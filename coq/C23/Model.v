(* C23 — executable model of the functional layer on the CPU modes (Serial, OpenMP):

     include/occa/functional/typelessArray.hpp
        :32-38    setupReturnMemoryArray      [setup_ret]
        :53-63    getMapArrayScope (clamping) [safe_tile]
        :238-253  buildCpuMapTiledForLoops + the @tile expansion of
                  src/occa/internal/lang/builtins/attributes/tile.cpp :172-298   [cpu_map_visits]
        :396-471  typelessEvery / FindIndex / ForEach / Map / MapTo              [run_every ...]
        :485-515  typelessCpuReduce (128 blocks)                                  [cpu_reduce_blocks]
     include/occa/functional/utils.hpp :56-113 hostReduction                      [host_reduce]
     src/functional/range.cpp :9-50 constructors, :112-122 length, :82-100 index -> value
     src/loops/iteration.cpp  :43-149 buildForLoop / buildRangeForLoop / buildIndexForLoop
     src/loops/typelessForLoop.cpp :25-110 loop nest (outer loops, then inner loops)

   The loop nests are the ones the translator prints for Serial/OpenMP (Serial runs them in
   this order; OpenMP distributes the outermost loop over threads).  Integers are mathematical
   (no 32-bit wrap: see the assumptions of the check).

   Places where the pinned source differs from the code modelled as current:
     v_tile_step    fixes/C18-1  @tile inner bound is xT +- (block step) instead of xT +- TILE
     v_empty_guard  fixes/C23-1  empty arrays return before any kernel is set up
     v_ret_exact    fixes/C23-2  the return buffer is reallocated unless it has exactly the
                                 requested byte size (pinned: `bytes > returnMemory.size()`
                                 compares bytes with entries)
     v_step_abs     fixes/C23-3  forLoop passes |step| to a loop that counts down with `-=`
   No proofs in this file. *)
From Coq Require Import List ZArith Bool Lia.
Import ListNotations.
Local Open Scope Z_scope.

Inductive res (A : Type) : Type :=
| Ok (a : A)
| Crash          (* integer division by zero: SIGFPE *)
| Diverge.       (* a loop that does not reach its bound (fuel exhausted) *)
Arguments Ok {A} a.
Arguments Crash {A}.
Arguments Diverge {A}.

Record variant : Type := mkVariant {
  v_tile_step : bool;
  v_empty_guard : bool;
  v_ret_exact : bool;
  v_step_abs : bool
}.
Definition fixed : variant := mkVariant true true true true.
Definition pinned : variant := mkVariant false false false false.

(* ---------------------------------------------------------------- sequential for loops *)

(* for (i = i0; tst i; i = nxt i) visit i *)
Fixpoint run_for (fuel : nat) (i : Z) (tst : Z -> bool) (nxt : Z -> Z) : option (list Z) :=
  match fuel with
  | O => None
  | S f =>
      if tst i then
        match run_for f (nxt i) tst nxt with
        | Some l => Some (i :: l)
        | None => None
        end
      else Some []
  end.

Definition fuel_for (i0 b : Z) : nat := S (Z.to_nat (Z.abs (b - i0))).

(* for (i = i0; i < b; i += s)   and   for (i = i0; i > b; i -= s) *)
Definition loop_up (i0 b s : Z) : option (list Z) :=
  run_for (fuel_for i0 b) i0 (fun i => i <? b) (fun i => i + s).
Definition loop_down (i0 b s : Z) : option (list Z) :=
  run_for (fuel_for i0 b) i0 (fun i => b <? i) (fun i => i - s).

Fixpoint collect {A : Type} (l : list (option (list A))) : option (list A) :=
  match l with
  | [] => Some []
  | Some x :: t => match collect t with Some r => Some (x ++ r) | None => None end
  | None :: _ => None
  end.

Definition nest {A : Type} (outer : option (list Z)) (body : Z -> option (list A)) : option (list A) :=
  match outer with
  | Some l => collect (map body l)
  | None => None
  end.

Definition iota (n : Z) : list Z := map Z.of_nat (seq 0 (Z.to_nat n)).
(* [a, b) *)
Definition zrange (a b : Z) : list Z := map (fun j => a + Z.of_nat j) (seq 0 (Z.to_nat (b - a))).

(* ---------------------------------------------------------------- map kernels *)

(* C++ integer division: truncation, SIGFPE on a zero divisor *)
Definition cdiv (a b : Z) : res Z := if b =? 0 then Crash else Ok (Z.quot a b).

(* getMapArrayScope :54-63, ts/ti are the members tileSize/tileIterations (-1 when unset) *)
Definition safe_tile (len ts ti : Z) : res (Z * Z) :=
  let sts := Z.min (Z.max 1 ts) len in
  match cdiv (len + sts - 1) sts with
  | Ok q => Ok (sts, Z.min (Z.max 1 ti) q)
  | Crash => Crash
  | Diverge => Diverge
  end.

(* buildCpuMapTiledForLoops after @tile(TS * TI, @outer, @inner, check=false):
     for (B = 0; B < len; B += ((TS * TI) * (TI)))
       for (tileIndex = B; tileIndex < (B + [(TS * TI) * TI | TS * TI]); tileIndex += TI)
         for (i = tileIndex; i < tileIndex + TI; ++i)
           if (i < len) BODY(i)                                                          *)
Definition cpu_map_visits (v : variant) (len sts sti : Z) : option (list Z) :=
  let T := sts * sti in
  let bstep := T * sti in
  nest (loop_up 0 len bstep) (fun B =>
    nest (loop_up B (B + (if v_tile_step v then bstep else T)) sti) (fun t =>
      match loop_up t (t + sti) 1 with
      | Some l => Some (filter (fun i => i <? len) l)
      | None => None
      end)).

(* the indices for which a map-style kernel runs its body, in Serial order *)
Definition map_engine (v : variant) (ts ti len : Z) : res (list Z) :=
  if v_empty_guard v && (len =? 0) then Ok []
  else
    match safe_tile len ts ti with
    | Ok (sts, sti) =>
        match cpu_map_visits v len sts sti with
        | Some l => Ok l
        | None => Diverge
        end
    | Crash => Crash
    | Diverge => Diverge
    end.

(* kernel bodies, applied along the visits (p, g: the user function at an index) *)
Definition run_every (p : Z -> bool) (vis : list Z) : bool :=
  fold_left (fun r i => if p i then r else false) vis true.
(* occa_array_return[0] = i: on Serial the last store wins *)
Definition run_findIndex (p : Z -> bool) (vis : list Z) : Z :=
  fold_left (fun r i => if p i then i else r) vis (-1).

Fixpoint upd_nth (l : list Z) (n : nat) (f : Z -> Z) : list Z :=
  match l, n with
  | [], _ => []
  | x :: t, O => f x :: t
  | x :: t, S m => x :: upd_nth t m f
  end.
Definition run_counts (n : Z) (vis : list Z) : list Z :=
  fold_left (fun c i => upd_nth c (Z.to_nat i) (fun x => x + 1)) vis (repeat 0 (Z.to_nat n)).
Definition run_mapTo (g : Z -> Z) (out : list Z) (vis : list Z) : list Z :=
  fold_left (fun o i => upd_nth o (Z.to_nat i) (fun _ => g i)) vis out.

Definition res_map {A B : Type} (f : A -> B) (r : res A) : res B :=
  match r with Ok a => Ok (f a) | Crash => Crash | Diverge => Diverge end.

(* typelessEvery, typelessFindIndex, typelessSome, typelessForEach (body: counts[i] += 1),
   typelessMap (junk: the content of the freshly allocated output) *)
Definition m_every (v : variant) (ts ti len : Z) (p : Z -> bool) : res bool :=
  res_map (run_every p) (map_engine v ts ti len).
Definition m_findIndex (v : variant) (ts ti len : Z) (p : Z -> bool) : res Z :=
  res_map (run_findIndex p) (map_engine v ts ti len).
Definition m_some (v : variant) (ts ti len : Z) (p : Z -> bool) : res bool :=
  res_map (fun r => 0 <=? r) (m_findIndex v ts ti len p).
Definition m_counts (v : variant) (ts ti len : Z) : res (list Z) :=
  res_map (run_counts len) (map_engine v ts ti len).
Definition m_mapTo (v : variant) (ts ti len : Z) (g : Z -> Z) (out : list Z) : res (list Z) :=
  res_map (run_mapTo g out) (map_engine v ts ti len).
Definition m_map (v : variant) (ts ti len : Z) (g : Z -> Z) (junk : Z) : res (list Z) :=
  m_mapTo v ts ti len g (repeat junk (Z.to_nat len)).

(* ---------------------------------------------------------------- reductions *)

(* the return buffer: byte size of the allocation and byte size of its current dtype
   (no allocation: 0 bytes) *)
Record retbuf : Type := mkRet { rb_bytes : Z; rb_elem : Z }.
Definition rb_none : retbuf := mkRet 0 1.
(* memory::size() = memory::length() = entries of the current dtype *)
Definition rb_entries (rb : retbuf) : Z := Z.quot (rb_bytes rb) (rb_elem rb).

(* setupReturnMemoryArray<T>(count), sizeof(T) = elem *)
Definition setup_ret (v : variant) (rb : retbuf) (elem count : Z) : retbuf :=
  let bytes := elem * count in
  let realloc := if v_ret_exact v then negb (bytes =? rb_bytes rb) else rb_entries rb <? bytes in
  if realloc then mkRet bytes elem else mkRet (rb_bytes rb) elem.

Definition omp_blocks : Z := 128.

(* typelessCpuReduce: block ompIndex covers [startIndex, endIndex) *)
Definition block_range (len k : Z) : Z * Z :=
  let bs := Z.quot (len + omp_blocks - 1) omp_blocks in
  let s := k * bs in
  let ue := s + bs in
  (s, if len <? ue then len else ue).

Definition cpu_reduce_blocks {A : Type} (f : A -> Z -> A) (init : A) (len : Z) : list A :=
  map (fun k => let '(s, e) := block_range len k in fold_left f (zrange s e) init) (iota omp_blocks).

(* hostReduction: values[0] combined with values[1..] *)
Definition host_reduce {A : Type} (op : A -> A -> A) (vals : list A) (dflt : A) : A :=
  match vals with
  | [] => dflt
  | v0 :: t => fold_left op t v0
  end.

(* the entries hostReduction reads: the 128 block results followed by whatever the buffer
   holds beyond them (old data, all represented by [stale]) *)
Definition cpu_reduce {A : Type} (v : variant) (rb : retbuf) (elem : Z)
           (f : A -> Z -> A) (op : A -> A -> A) (init : A) (len : Z) (stale : A) : retbuf * A :=
  let rb' := setup_ret v rb elem omp_blocks in
  let vals := cpu_reduce_blocks f init len
              ++ repeat stale (Z.to_nat (rb_entries rb' - omp_blocks)) in
  (rb', host_reduce op vals init).

(* ---------------------------------------------------------------- ranges *)

Record range : Type := mkRange { r_start : Z; r_end : Z; r_step : Z }.
(* range(end), range(start, end), range(start, end, step) *)
Definition range1 (e : Z) : range := mkRange 0 e (if 0 <=? e then 1 else -1).
Definition range2 (s e : Z) : range := mkRange s e (if s <=? e then 1 else -1).
Definition range3 (s e st : Z) : range := mkRange s e (if st =? 0 then 1 else st).

Definition range_length (r : range) : Z :=
  let s := r_start r in let e := r_end r in let st := r_step r in
  if ((s <? e) && (st <=? 0)) || ((e <? s) && (0 <=? st)) then 0
  else if 0 <? st then Z.quot (e - s + st - 1) st
       else Z.quot (e - s + st + 1) st.

(* OCCA_ARRAY_FUNCTION_CALL(INDEX): occa_range_start + (occa_range_step * INDEX) *)
Definition range_value (r : range) (i : Z) : Z := r_start r + r_step r * i.

(* ---------------------------------------------------------------- forLoop *)

(* an occa::iteration: a range or an index array, with tileSize (0: not tiled) *)
Inductive iter : Type :=
| IRange (r : range) (tile : Z)
| IArray (idx : list Z) (tile : Z).

(* the loop(s) buildRangeForLoop prints, @tile(T, @outer, @inner) expanded (check = true):
     for (X = start; X < end; X += S)            step > 0
     for (X = start; X > end; X -= S)            otherwise;  S = step (pinned) or |step|    *)
Definition range_loop_values (v : variant) (r : range) (tile : Z) : option (list Z) :=
  let s := r_start r in let e := r_end r in
  let up := 0 <? r_step r in
  let S := if v_step_abs v then Z.abs (r_step r) else r_step r in
  if tile =? 0 then (if up then loop_up s e S else loop_down s e S)
  else
    let bstep := tile * S in
    let ib := if v_tile_step v then bstep else tile in
    if up then
      nest (loop_up s e bstep) (fun xT =>
        match loop_up xT (xT + ib) S with
        | Some l => Some (filter (fun x => x <? e) l)
        | None => None
        end)
    else
      nest (loop_down s e bstep) (fun xT =>
        match loop_down xT (xT - ib) S with
        | Some l => Some (filter (fun x => e <? x) l)
        | None => None
        end).

(* buildIndexForLoop: for (k = 0; k < length; ++k) { X = ptr[k]; ... } ; ++k tiles in blocks of T *)
Definition index_loop_values (idx : list Z) (tile : Z) : option (list Z) :=
  let n := Z.of_nat (length idx) in
  let ks :=
    if tile =? 0 then loop_up 0 n 1
    else nest (loop_up 0 n tile) (fun kT =>
           match loop_up kT (kT + tile) 1 with
           | Some l => Some (filter (fun k => k <? n) l)
           | None => None
           end) in
  match ks with
  | Some l => Some (map (fun k => nth (Z.to_nat k) idx 0) l)
  | None => None
  end.

Definition iter_values (v : variant) (it : iter) : option (list Z) :=
  match it with
  | IRange r t => range_loop_values v r t
  | IArray idx t => index_loop_values idx t
  end.

(* the nest: loops in the order given, the body runs with the tuple of iterator values *)
Fixpoint nest_tuples (ls : list (list Z)) : list (list Z) :=
  match ls with
  | [] => [[]]
  | l :: rest => flat_map (fun x => map (cons x) (nest_tuples rest)) l
  end.

Fixpoint all_some {A : Type} (l : list (option A)) : option (list A) :=
  match l with
  | [] => Some []
  | Some x :: t => match all_some t with Some r => Some (x :: r) | None => None end
  | None :: _ => None
  end.

(* typelessForLoop::getForLoopScope: outer loops first, then inner loops; the tuples for which
   OCCA_LOOP_FUNCTION runs, in Serial order *)
Definition forloop_tuples (v : variant) (outer inner : list iter) : res (list (list Z)) :=
  match all_some (map (iter_values v) (outer ++ inner)) with
  | Some ls => Ok (nest_tuples ls)
  | None => Diverge
  end.
