(* C23 — forLoop: the emitted nest (ranges of both directions, index arrays, @tile) runs the body
   once per tuple of the product of its iterations' values. *)
From Coq Require Import List ZArith Bool Lia Arith.
From OV.C23 Require Import Model Spec Menu ProofsLoops ProofsMap ProofsRange.
Import ListNotations.
Local Open Scope Z_scope.

Definition wf_iter (it : iter) : Prop :=
  match it with
  | IRange r t => r_step r <> 0 /\ 0 <= t
  | IArray _ t => 0 <= t
  end.

Lemma range_loop_values_fixed : forall r t, r_step r <> 0 -> 0 <= t ->
  range_loop_values fixed r t = Some (s_range_values (r_start r) (r_end r) (r_step r)).
Proof.
  intros [s e st] t Hst Ht. cbn [r_start r_end r_step] in *. unfold range_loop_values.
  cbn [r_start r_end r_step v_step_abs v_tile_step fixed].
  destruct (Z_lt_ge_dec 0 st) as [P|N].
  - replace (0 <? st) with true by (symmetry; apply Z.ltb_lt; lia).
    rewrite s_range_values_up by assumption. rewrite Z.abs_eq by lia.
    destruct (t =? 0) eqn:E.
    + apply loop_up_ups. assumption.
    + apply Z.eqb_neq in E. assert (HT : 0 < t) by lia.
      rewrite loop_up_ups by nia.
      rewrite (nest_some _ _ _ (fun xT => filter (fun x => x <? e) (ups xT (xT + t * st) st))).
      * f_equal. apply tiled_up; assumption.
      * intros xT _. rewrite loop_up_ups by assumption. reflexivity.
  - assert (Hn : st < 0) by lia.
    replace (0 <? st) with false by (symmetry; apply Z.ltb_ge; lia).
    rewrite s_range_values_down by assumption. rewrite Z.abs_neq by lia.
    destruct (t =? 0) eqn:E.
    + apply loop_down_downs. lia.
    + apply Z.eqb_neq in E. assert (HT : 0 < t) by lia.
      rewrite loop_down_downs by nia.
      rewrite (nest_some _ _ _ (fun xT => filter (fun x => e <? x) (downs xT (xT - t * - st) (- st)))).
      * f_equal. apply tiled_down; lia.
      * intros xT _. rewrite loop_down_downs by lia. reflexivity.
Qed.

Lemma map_nth_iota : forall idx : list Z,
  map (fun k => nth (Z.to_nat k) idx 0) (iota (Z.of_nat (length idx))) = idx.
Proof.
  intros idx. unfold iota. rewrite Nat2Z.id, map_map.
  erewrite map_ext. 2:{ intros j. rewrite Nat2Z.id. reflexivity. }
  induction idx as [|x idx IH]; [reflexivity|].
  cbn [length seq map nth]. f_equal. rewrite <- seq_shift, map_map. exact IH.
Qed.

Lemma index_loop_values_fixed : forall idx t, 0 <= t -> index_loop_values idx t = Some idx.
Proof.
  intros idx t Ht. unfold index_loop_values. set (n := Z.of_nat (length idx)).
  assert (E : (if t =? 0 then loop_up 0 n 1
               else nest (loop_up 0 n t) (fun kT =>
                      match loop_up kT (kT + t) 1 with
                      | Some l => Some (filter (fun k => k <? n) l)
                      | None => None
                      end)) = Some (iota n)).
  { destruct (t =? 0) eqn:E0.
    - rewrite loop_up_ups, ups_1, iota_zrange by lia. reflexivity.
    - apply Z.eqb_neq in E0. assert (HT : 0 < t) by lia.
      rewrite loop_up_ups by lia.
      rewrite (nest_some _ _ _ (fun kT => filter (fun k => k <? n) (ups kT (kT + t) 1))).
      + f_equal. pose proof (tiled_up n 1 t ltac:(lia) HT 0) as H. rewrite !Z.mul_1_r in H.
        rewrite H, ups_1, iota_zrange. reflexivity.
      + intros kT _. rewrite loop_up_ups by lia. reflexivity. }
  rewrite E. f_equal. apply map_nth_iota.
Qed.

Lemma iter_values_fixed : forall it, wf_iter it -> iter_values fixed it = Some (spec_iter_values it).
Proof.
  intros [r t|idx t] H; cbn [iter_values spec_iter_values wf_iter] in *.
  - destruct H as [H1 H2]. apply range_loop_values_fixed; assumption.
  - apply index_loop_values_fixed. exact H.
Qed.

Lemma all_some_fixed : forall its, Forall wf_iter its ->
  all_some (map (iter_values fixed) its) = Some (map spec_iter_values its).
Proof.
  induction its as [|it its IH]; intros H; [reflexivity|].
  inversion H as [|? ? H1 H2]; subst. cbn [map all_some].
  rewrite (iter_values_fixed it H1), (IH H2). reflexivity.
Qed.

Lemma nest_tuples_spec : forall ls, nest_tuples ls = s_tuples ls.
Proof.
  induction ls as [|l ls IH]; [reflexivity|]. cbn [nest_tuples s_tuples].
  apply flat_map_ext. intros x. rewrite IH. reflexivity.
Qed.

Theorem forloop_tuples_fixed : forall outer inner, Forall wf_iter (outer ++ inner) ->
  forloop_tuples fixed outer inner = Ok (spec_forloop outer inner).
Proof.
  intros outer inner H. unfold forloop_tuples, spec_forloop.
  rewrite all_some_fixed by assumption. rewrite nest_tuples_spec. reflexivity.
Qed.

(* ---- how often a tuple occurs in the product ---- *)
Definition tuple_eq_dec : forall a b : list Z, {a = b} + {a <> b} := list_eq_dec Z.eq_dec.

Lemma count_occ_app_nat : forall (l1 l2 : list (list Z)) t,
  count_occ tuple_eq_dec (l1 ++ l2) t = (count_occ tuple_eq_dec l1 t + count_occ tuple_eq_dec l2 t)%nat.
Proof. intros. apply count_occ_app. Qed.

Lemma count_occ_map_cons : forall (x : Z) (L : list (list Z)) (t : list Z),
  count_occ tuple_eq_dec (map (cons x) L) t =
  match t with
  | [] => 0%nat
  | y :: t' => if Z.eq_dec x y then count_occ tuple_eq_dec L t' else 0%nat
  end.
Proof.
  intros x. induction L as [|u L IH]; intros t.
  - cbn. destruct t as [|y t']; [reflexivity|]. destruct (Z.eq_dec x y); reflexivity.
  - cbn [map count_occ]. rewrite IH. destruct t as [|y t'].
    + destruct (tuple_eq_dec (x :: u) []); [discriminate|reflexivity].
    + destruct (Z.eq_dec x y) as [->|Ne].
      * destruct (tuple_eq_dec (y :: u) (y :: t')) as [E|N], (tuple_eq_dec u t') as [E'|N']; try reflexivity.
        -- injection E as E. contradiction.
        -- subst. contradiction.
      * destruct (tuple_eq_dec (x :: u) (y :: t')) as [E|N]; [injection E as E1 E2; contradiction|reflexivity].
Qed.

Theorem tuples_count : forall ls t, count_occ tuple_eq_dec (s_tuples ls) t = count_tuple t ls.
Proof.
  induction ls as [|l ls IH]; intros t.
  - cbn [s_tuples count_occ]. destruct t as [|y t'].
    + destruct (tuple_eq_dec [] []); [reflexivity|contradiction].
    + destruct (tuple_eq_dec [] (y :: t')); [discriminate|reflexivity].
  - cbn [s_tuples]. induction l as [|x l IHl].
    + cbn. destruct t; reflexivity.
    + cbn [flat_map]. rewrite count_occ_app_nat, IHl, count_occ_map_cons. destruct t as [|y t'].
      * reflexivity.
      * cbn [count_tuple count_occ]. rewrite IH. destruct (Z.eq_dec x y); lia.
Qed.
