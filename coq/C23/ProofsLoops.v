(* C23 — the sequential for loop of Model.v as a list: unfolding, closed form, tiling. *)
From Coq Require Import List ZArith Bool Lia Arith.
From OV.C23 Require Import Model.
Import ListNotations.
Local Open Scope Z_scope.

(* ---- run_for does not depend on the fuel once it is enough ---- *)
Lemma run_for_det : forall tst nxt f1 f2 i l1 l2,
  run_for f1 i tst nxt = Some l1 -> run_for f2 i tst nxt = Some l2 -> l1 = l2.
Proof.
  induction f1 as [|f1 IH]; intros f2 i l1 l2 H1 H2; [discriminate|].
  destruct f2 as [|f2]; [discriminate|].
  cbn [run_for] in *. destruct (tst i).
  - destruct (run_for f1 (nxt i) tst nxt) eqn:E1; [|discriminate].
    destruct (run_for f2 (nxt i) tst nxt) eqn:E2; [|discriminate].
    injection H1 as <-. injection H2 as <-. f_equal. eapply IH; eauto.
  - congruence.
Qed.

(* ---- upward loops: for (i = a; i < b; i += s), s > 0 ---- *)
Lemma run_up_enough : forall b s, 0 < s -> forall fuel a,
  (Z.to_nat (b - a) < fuel)%nat ->
  exists l, run_for fuel a (fun i => i <? b) (fun i => i + s) = Some l.
Proof.
  intros b s Hs. induction fuel as [|f IH]; intros a Hf; [lia|].
  cbn [run_for]. destruct (a <? b) eqn:E.
  - apply Z.ltb_lt in E. destruct (IH (a + s)) as [l Hl]; [lia|]. rewrite Hl. eauto.
  - eauto.
Qed.

Lemma loop_up_total : forall a b s, 0 < s -> exists l, loop_up a b s = Some l.
Proof.
  intros a b s Hs. unfold loop_up, fuel_for. apply run_up_enough; [assumption|]. lia.
Qed.

Lemma loop_up_unfold : forall a b s, 0 < s ->
  loop_up a b s =
  if a <? b then match loop_up (a + s) b s with Some l => Some (a :: l) | None => None end
  else Some [].
Proof.
  intros a b s Hs. destruct (loop_up_total (a + s) b s Hs) as [l Hl]. rewrite Hl.
  unfold loop_up at 1, fuel_for. cbn [run_for]. destruct (a <? b) eqn:E; [|reflexivity].
  apply Z.ltb_lt in E.
  destruct (run_up_enough b s Hs (Z.to_nat (Z.abs (b - a))) (a + s)) as [l' Hl']; [lia|].
  rewrite Hl'. f_equal. f_equal. unfold loop_up in Hl. eapply run_for_det; eauto.
Qed.

(* the loop as a total list *)
Definition ups (a b s : Z) : list Z :=
  match loop_up a b s with Some l => l | None => [] end.

Lemma loop_up_ups : forall a b s, 0 < s -> loop_up a b s = Some (ups a b s).
Proof. intros a b s Hs. unfold ups. destruct (loop_up_total a b s Hs) as [l ->]. reflexivity. Qed.

Lemma ups_lt : forall a b s, 0 < s -> a < b -> ups a b s = a :: ups (a + s) b s.
Proof.
  intros a b s Hs Hab. unfold ups at 1. rewrite loop_up_unfold by assumption.
  apply Z.ltb_lt in Hab. rewrite Hab. rewrite (loop_up_ups (a + s) b s Hs). reflexivity.
Qed.

Lemma ups_ge : forall a b s, 0 < s -> b <= a -> ups a b s = [].
Proof.
  intros a b s Hs Hab. unfold ups. rewrite loop_up_unfold by assumption.
  apply Z.ltb_ge in Hab. rewrite Hab. reflexivity.
Qed.

(* measure induction for loops running up to b *)
Lemma up_ind : forall (b s : Z) (P : Z -> Prop), 0 < s ->
  (forall a, b <= a -> P a) ->
  (forall a, a < b -> P (a + s) -> P a) ->
  forall a, P a.
Proof.
  intros b s P Hs Hge Hlt.
  assert (H : forall n a, (Z.to_nat (b - a) <= n)%nat -> P a).
  { induction n as [|n IH]; intros a Hn.
    - apply Hge. lia.
    - destruct (Z_lt_ge_dec a b) as [L|G]; [|apply Hge; lia].
      apply Hlt; [assumption|]. apply IH. lia. }
  intros a. apply (H (Z.to_nat (b - a))). lia.
Qed.

Lemma ups_bounds : forall a b s, 0 < s -> forall x, In x (ups a b s) -> a <= x < b.
Proof.
  intros a b s Hs. revert a. apply (up_ind b s (fun a => forall x, In x (ups a b s) -> a <= x < b) Hs).
  - intros a G x Hx. rewrite ups_ge in Hx by assumption. destruct Hx.
  - intros a L IH x Hx. rewrite ups_lt in Hx by assumption. destruct Hx as [<-|Hx]; [lia|].
    apply IH in Hx. lia.
Qed.

(* step 1: the interval *)
Lemma zrange_nil : forall a b, b <= a -> zrange a b = [].
Proof. intros a b H. unfold zrange. replace (Z.to_nat (b - a)) with 0%nat by lia. reflexivity. Qed.

Lemma zrange_cons : forall a b, a < b -> zrange a b = a :: zrange (a + 1) b.
Proof.
  intros a b H. unfold zrange. replace (Z.to_nat (b - a)) with (S (Z.to_nat (b - (a + 1)))) by lia.
  cbn [seq map]. f_equal; [lia|]. rewrite <- seq_shift, map_map. apply map_ext. intros j. lia.
Qed.

Lemma ups_1 : forall a b, ups a b 1 = zrange a b.
Proof.
  intros a b. revert a. apply (up_ind b 1 (fun a => ups a b 1 = zrange a b)); [lia| |].
  - intros a G. rewrite ups_ge, zrange_nil by lia. reflexivity.
  - intros a L IH. rewrite ups_lt, zrange_cons by lia. f_equal. exact IH.
Qed.

Lemma zrange_app : forall a b c, a <= b -> b <= c -> zrange a b ++ zrange b c = zrange a c.
Proof.
  intros a b c Hab Hbc. revert a Hab.
  apply (up_ind b 1 (fun a => a <= b -> zrange a b ++ zrange b c = zrange a c)); [lia| |].
  - intros a G Hab. assert (a = b) by lia. subst. rewrite zrange_nil by lia. reflexivity.
  - intros a L IH _. rewrite (zrange_cons a b), (zrange_cons a c) by lia. cbn [app]. f_equal. apply IH. lia.
Qed.

Lemma zrange_bounds : forall a b x, In x (zrange a b) -> a <= x < b.
Proof. intros a b x H. rewrite <- ups_1 in H. apply ups_bounds in H; lia. Qed.

Lemma iota_zrange : forall n, iota n = zrange 0 n.
Proof. intros n. unfold iota, zrange. rewrite Z.sub_0_r. apply map_ext. intros j. lia. Qed.

Lemma filter_all : forall (A : Type) (P : A -> bool) l, (forall x, In x l -> P x = true) -> filter P l = l.
Proof.
  intros A P. induction l as [|x l IH]; intros H; [reflexivity|].
  cbn [filter]. rewrite (H x) by (left; reflexivity). f_equal. apply IH. intros y Hy. apply H. right. exact Hy.
Qed.

Lemma filter_none : forall (A : Type) (P : A -> bool) l, (forall x, In x l -> P x = false) -> filter P l = [].
Proof.
  intros A P. induction l as [|x l IH]; intros H; [reflexivity|].
  cbn [filter]. rewrite (H x) by (left; reflexivity). apply IH. intros y Hy. apply H. right. exact Hy.
Qed.

(* filter (< e) on an interval *)
Lemma filter_lt_zrange : forall a b e, a <= b ->
  filter (fun i => i <? e) (zrange a b) = zrange a (Z.max a (Z.min b e)).
Proof.
  intros a b e Hab. destruct (Z_le_gt_dec e a) as [L|G].
  - rewrite filter_none. { rewrite zrange_nil by lia. reflexivity. }
    intros x Hx. apply zrange_bounds in Hx. apply Z.ltb_ge. lia.
  - destruct (Z_le_gt_dec b e) as [L2|G2].
    + rewrite filter_all. { f_equal. lia. }
      intros x Hx. apply zrange_bounds in Hx. apply Z.ltb_lt. lia.
    + rewrite <- (zrange_app a e b) by lia. rewrite filter_app.
      rewrite filter_all, filter_none.
      * rewrite app_nil_r. f_equal. lia.
      * intros x Hx. apply zrange_bounds in Hx. apply Z.ltb_ge. lia.
      * intros x Hx. apply zrange_bounds in Hx. apply Z.ltb_lt. lia.
Qed.

(* ---- nest / collect over total bodies ---- *)
Lemma collect_somes : forall (A : Type) (l : list (list A)), collect (map Some l) = Some (concat l).
Proof.
  intros A. induction l as [|x l IH]; [reflexivity|]. cbn [map collect concat]. rewrite IH. reflexivity.
Qed.

Lemma nest_some : forall (A : Type) (l : list Z) (body : Z -> option (list A)) (g : Z -> list A),
  (forall x, In x l -> body x = Some (g x)) ->
  nest (Some l) body = Some (flat_map g l).
Proof.
  intros A l body g H. unfold nest. rewrite flat_map_concat_map, <- collect_somes, map_map.
  f_equal. apply map_ext_in. exact H.
Qed.

(* ---- tiling: blocks of T steps of size s, the inner loop cut at the bound e ---- *)
Lemma ups_split : forall e s, 0 < s -> forall (m : nat) a,
  ups a e s = filter (fun x => x <? e) (ups a (a + Z.of_nat m * s) s) ++ ups (a + Z.of_nat m * s) e s.
Proof.
  intros e s Hs. induction m as [|m IH]; intros a.
  - replace (a + Z.of_nat 0 * s) with a by lia. rewrite (ups_ge a a) by lia. reflexivity.
  - destruct (Z_lt_ge_dec a e) as [L|G].
    + rewrite (ups_lt a e) by lia. rewrite (ups_lt a (a + Z.of_nat (S m) * s)) by nia.
      cbn [filter]. assert (E : (a <? e) = true) by (apply Z.ltb_lt; lia). rewrite E.
      cbn [app]. f_equal. rewrite (IH (a + s)).
      replace (a + s + Z.of_nat m * s) with (a + Z.of_nat (S m) * s) by lia. reflexivity.
    + rewrite (ups_ge a e) by lia. rewrite (ups_ge (a + Z.of_nat (S m) * s) e) by nia.
      rewrite filter_none; [reflexivity|]. intros x Hx. apply ups_bounds in Hx; [|assumption].
      apply Z.ltb_ge. lia.
Qed.

(* for (xT = a; xT < e; xT += T * s) for (x = xT; x < xT + T * s; x += s) if (x < e) *)
Lemma tiled_up : forall e s T, 0 < s -> 0 < T -> forall a,
  flat_map (fun xT => filter (fun x => x <? e) (ups xT (xT + T * s) s)) (ups a e (T * s)) = ups a e s.
Proof.
  intros e s T Hs HT.
  apply (up_ind e (T * s) (fun a =>
    flat_map (fun xT => filter (fun x => x <? e) (ups xT (xT + T * s) s)) (ups a e (T * s)) = ups a e s)); [nia| |].
  - intros a G. rewrite !ups_ge by nia. reflexivity.
  - intros a L IH. rewrite (ups_lt a e (T * s)) by nia. cbn [flat_map]. rewrite IH.
    rewrite (ups_split e s Hs (Z.to_nat T) a). rewrite Z2Nat.id by lia. reflexivity.
Qed.

(* ---- downward loops by symmetry ---- *)
Lemma run_for_conj : forall (phi : Z -> Z) tst1 nxt1 tst2 nxt2,
  (forall i, tst2 (phi i) = tst1 i) -> (forall i, nxt2 (phi i) = phi (nxt1 i)) ->
  forall fuel a,
  run_for fuel (phi a) tst2 nxt2 =
  match run_for fuel a tst1 nxt1 with Some l => Some (map phi l) | None => None end.
Proof.
  intros phi tst1 nxt1 tst2 nxt2 Ht Hn. induction fuel as [|f IH]; intros a; [reflexivity|].
  cbn [run_for]. rewrite Ht. destruct (tst1 a); [|reflexivity].
  rewrite Hn, IH. destruct (run_for f (nxt1 a) tst1 nxt1); reflexivity.
Qed.

Lemma loop_down_up : forall a b s,
  loop_down a b s = match loop_up (- a) (- b) s with Some l => Some (map Z.opp l) | None => None end.
Proof.
  intros a b s. unfold loop_down, loop_up.
  replace (fuel_for (- a) (- b)) with (fuel_for a b) by (unfold fuel_for; f_equal; lia).
  assert (H1 : forall i, (fun i => b <? i) (- i) = (fun i => i <? - b) i).
  { intros i. cbv beta. destruct (b <? - i) eqn:E1, (i <? - b) eqn:E2; try reflexivity;
      [apply Z.ltb_lt in E1; apply Z.ltb_ge in E2; lia | apply Z.ltb_ge in E1; apply Z.ltb_lt in E2; lia]. }
  assert (H2 : forall i, (fun i => i - s) (- i) = - (fun i => i + s) i) by (intros i; cbv beta; lia).
  pose proof (run_for_conj Z.opp _ _ _ _ H1 H2 (fuel_for a b) (- a)) as H.
  rewrite Z.opp_involutive in H. exact H.
Qed.

Definition downs (a b s : Z) : list Z := map Z.opp (ups (- a) (- b) s).

Lemma loop_down_downs : forall a b s, 0 < s -> loop_down a b s = Some (downs a b s).
Proof. intros a b s Hs. rewrite loop_down_up, loop_up_ups by assumption. reflexivity. Qed.

Lemma filter_map_opp : forall e l,
  filter (fun x => e <? x) (map Z.opp l) = map Z.opp (filter (fun x => x <? - e) l).
Proof.
  intros e. induction l as [|x l IH]; [reflexivity|]. cbn [map filter].
  replace (e <? - x) with (x <? - e).
  - destruct (x <? - e); cbn [map]; rewrite IH; reflexivity.
  - destruct (x <? - e) eqn:E1, (e <? - x) eqn:E2; try reflexivity;
      [apply Z.ltb_lt in E1; apply Z.ltb_ge in E2; lia | apply Z.ltb_ge in E1; apply Z.ltb_lt in E2; lia].
Qed.

Lemma flat_map_map : forall (A B C : Type) (f : A -> B) (g : B -> list C) l,
  flat_map g (map f l) = flat_map (fun x => g (f x)) l.
Proof. intros A B C f g. induction l as [|x l IH]; [reflexivity|]. cbn [map flat_map]. rewrite IH. reflexivity. Qed.

Lemma map_flat_map : forall (A B C : Type) (f : B -> C) (g : A -> list B) l,
  map f (flat_map g l) = flat_map (fun x => map f (g x)) l.
Proof.
  intros A B C f g. induction l as [|x l IH]; [reflexivity|]. cbn [flat_map]. rewrite map_app, IH. reflexivity.
Qed.

(* for (xT = a; xT > e; xT -= T * s) for (x = xT; x > xT - T * s; x -= s) if (x > e) *)
Lemma tiled_down : forall e s T, 0 < s -> 0 < T -> forall a,
  flat_map (fun xT => filter (fun x => e <? x) (downs xT (xT - T * s) s)) (downs a e (T * s)) = downs a e s.
Proof.
  intros e s T Hs HT a. unfold downs. rewrite flat_map_map.
  rewrite <- (tiled_up (- e) s T Hs HT (- a)). rewrite map_flat_map.
  apply flat_map_ext. intros xT. rewrite filter_map_opp.
  replace (- - xT) with xT by lia. replace (- (- xT - T * s)) with (xT + T * s) by lia. reflexivity.
Qed.
