(* C23 — functional arrays, ranges and forLoop match sequential semantics: the statements.
   Vocabulary: Model.v (the loop nests the translator emits for the CPU modes, the clamping of the
   tile setting, the 128-block reduction and hostReduction, the return buffer, range::length,
   forLoop's nest), Spec.v (std::all_of / any_of / find_if / for_each / transform / accumulate over
   lists, the sequential range loop, the cartesian product), Menu.v (nthz, zlen, the case language).
   Every proof is in Proofs*.v; this file states, cites and prints assumptions.
   `fixed` is the code with fixes/C18-1 and fixes/C23-1..3 applied (the code modelled as current);
   Proofs.no_tile_step / no_empty_guard / no_ret_exact / no_step_abs differ from it in the one
   place the respective patch changes. *)
From Coq Require Import List ZArith Bool.
From OV.C23 Require Import Model Spec Menu.
From OV.C23 Require Proofs ProofsRange ProofsForLoop.
Import ListNotations.
Local Open Scope Z_scope.

(* ---------------------------------------------------------------- map kernels *)

(* For every length, every tileSize and tileIterations member (unset = -1, zero, negative, larger
   than the array, ...) the CPU map template after the @tile expansion runs its body for the
   indices 0, 1, ..., len-1: each exactly once, in this order on Serial; no division by zero and
   every loop terminates. *)
Theorem map_covers_all : forall ts ti len, 0 <= len ->
  map_engine fixed ts ti len = Ok (iota len).
Proof. exact Proofs.map_covers_all. Qed.
Print Assumptions map_covers_all.

(* Hence every / some / forEach / map / mapTo return what std::all_of / any_of / for_each /
   transform return, for every user function p, g of (value, index) (closures capture the array),
   whatever the fresh output memory holds (junk) or the output array held before (out). *)
Theorem map_ops_sequential :
  forall ts ti xs (p : Z -> Z -> bool) (g : Z -> Z -> Z) (junk : Z) (out : list Z),
  length out = length xs ->
  m_every fixed ts ti (zlen xs) (fun i => p (nthz xs i) i) = Ok (s_every p xs) /\
  m_some fixed ts ti (zlen xs) (fun i => p (nthz xs i) i) = Ok (s_some p xs) /\
  m_counts fixed ts ti (zlen xs) = Ok (s_counts xs) /\
  m_map fixed ts ti (zlen xs) (fun i => g (nthz xs i) i) junk = Ok (s_map g xs) /\
  m_mapTo fixed ts ti (zlen xs) (fun i => g (nthz xs i) i) out = Ok (s_map g xs).
Proof. exact Proofs.map_ops_sequential. Qed.
Print Assumptions map_ops_sequential.

(* findIndex.  Full statement (std::find_if returns the FIRST match):
     forall ts ti xs p, m_findIndex fixed ts ti (zlen xs) (fun i => p (nthz xs i) i)
                        = Ok (s_findIndex p xs)
   It is false (findindex_last_refuted, known finding findindex_several_matches): the kernel stores
   every matching index into one cell, so Serial returns the last match.  What holds is the
   statement restricted to arrays with at most one matching index. *)
Theorem findindex_first_partial : forall ts ti xs (p : Z -> Z -> bool),
  (forall i j, 0 <= i < zlen xs -> 0 <= j < zlen xs ->
               p (nthz xs i) i = true -> p (nthz xs j) j = true -> i = j) ->
  m_findIndex fixed ts ti (zlen xs) (fun i => p (nthz xs i) i) = Ok (s_findIndex p xs).
Proof. exact ProofsMap.findIndex_unique. Qed.
Print Assumptions findindex_first_partial.

Theorem findindex_last_refuted :
  m_findIndex fixed (-1) (-1) 3 (fun i => nthz [1; 1; 1] i =? 1) = Ok 2 /\
  s_findIndex (fun x _ => x =? 1) [1; 1; 1] = 0.
Proof. exact Proofs.findindex_last_refuted. Qed.
Print Assumptions findindex_last_refuted.

(* the pinned @tile inner bound (xT + TILE): setTileSize(2, 2) on 10 entries skips 4..7 *)
Theorem tile_iterations_gap_refuted :
  map_engine Proofs.no_tile_step 2 2 10 = Ok [0; 1; 2; 3; 8; 9].
Proof. exact Proofs.tile_iterations_gap_refuted. Qed.
Print Assumptions tile_iterations_gap_refuted.

(* without the early return for empty arrays: safeTileSize = min(max(1, ts), 0) = 0 divides *)
Theorem empty_array_div_zero_refuted : forall ts ti,
  map_engine Proofs.no_empty_guard ts ti 0 = Crash.
Proof. exact Proofs.empty_array_div_zero_refuted. Qed.
Print Assumptions empty_array_div_zero_refuted.

(* ---------------------------------------------------------------- reductions *)

(* The 128 block accumulators followed by hostReduction equal the sequential fold
   std::accumulate(first, last, init, f), for every earlier use of the return buffer (rb), every
   sizeof(T2) and whatever old entries of the buffer hold (stale), when op is associative, init is
   its identity and f combines the accumulator with a function of the index (of the element).
   (Commutativity is not needed: blocks are contiguous and combined in order.) *)
Theorem reduce_blocks : forall (A : Type) (op : A -> A -> A) (h : Z -> A) (init : A),
  (forall a b c, op a (op b c) = op (op a b) c) ->
  (forall a, op a init = a) -> (forall a, op init a = a) ->
  forall rb elem len stale, 0 <= len -> 0 < elem ->
  snd (cpu_reduce fixed rb elem (fun a i => op a (h i)) op init len stale)
  = fold_left (fun a i => op a (h i)) (iota len) init.
Proof. exact Proofs.reduce_blocks. Qed.
Print Assumptions reduce_blocks.

(* the same for ANY initial value when op is associative, commutative and idempotent (bitOr,
   bitAnd, boolOr, boolAnd, min, max; covers the init `occa_array_ptr[0]` / `occa_range_start`) *)
Theorem reduce_blocks_idem : forall (A : Type) (op : A -> A -> A) (h : Z -> A) (init : A),
  (forall a b c, op a (op b c) = op (op a b) c) ->
  (forall a b, op a b = op b a) -> (forall a, op a a = a) ->
  forall rb elem len stale, 0 <= len -> 0 < elem ->
  snd (cpu_reduce fixed rb elem (fun a i => op a (h i)) op init len stale)
  = fold_left (fun a i => op a (h i)) (iota len) init.
Proof. exact Proofs.reduce_blocks_idem. Qed.
Print Assumptions reduce_blocks_idem.

(* the general form: custom functions f that are compatible with op *)
Theorem reduce_blocks_compat : forall (A : Type) (f : A -> Z -> A) (op : A -> A -> A) (init : A),
  (forall a, op init a = op a init) -> op init init = init ->
  (forall a b i, f (op a b) i = op a (f b i)) ->
  forall rb elem len stale, 0 <= len -> 0 < elem ->
  snd (cpu_reduce fixed rb elem f op init len stale) = fold_left f (iota len) init.
Proof. exact Proofs.reduce_blocks_compat. Qed.
Print Assumptions reduce_blocks_compat.

(* instances over lists: sum, max(), min() and the function array::indexOf passes *)
Theorem reduce_instances : forall xs c rb elem stale, 0 < elem ->
  snd (cpu_reduce fixed rb elem (fun a i => a + nthz xs i) Z.add 0 (zlen xs) stale)
    = s_reduce (fun a x _ => a + x) 0 xs /\
  snd (cpu_reduce fixed rb elem (fun a i => Z.max a (nthz xs i)) Z.max (nthz xs 0) (zlen xs) stale)
    = s_reduce (fun a x _ => Z.max a x) (nthz xs 0) xs /\
  snd (cpu_reduce fixed rb elem (fun a i => Z.min a (nthz xs i)) Z.min (nthz xs 0) (zlen xs) stale)
    = s_reduce (fun a x _ => Z.min a x) (nthz xs 0) xs /\
  snd (cpu_reduce fixed rb 4
         (fun acc i => if negb (nthz xs i =? c) || (acc <=? i) then acc else i)
         Z.min (zlen xs) (zlen xs) stale)
    = s_reduce (fun acc x i => if negb (x =? c) || (acc <=? i) then acc else i) (zlen xs) xs.
Proof.
  intros xs c rb elem stale He. repeat split.
  - apply Proofs.sum_sequential; assumption.
  - apply Proofs.max_sequential; assumption.
  - apply Proofs.min_sequential; assumption.
  - apply Proofs.indexOf_blocks.
Qed.
Print Assumptions reduce_instances.

(* hostReduction reads every entry of the return buffer: it holds exactly the requested entries *)
Theorem return_buffer_exact : forall rb elem count, 0 < elem ->
  rb_entries (setup_ret fixed rb elem count) = count.
Proof. exact Proofs.return_buffer_exact. Qed.
Print Assumptions return_buffer_exact.

(* pinned `bytes > returnMemory.size()`: after a.max() (128 ints) a.reduce<bool>(boolOr, ...)
   keeps the buffer, reads 512 entries, and a non-zero old byte makes the result true *)
Theorem stale_return_buffer_refuted :
  let xs := [100; 101; 102] in
  let f := fun (a : Z) (i : Z) => b2z (nz a || (nthz xs i =? 5)) in
  let rb1 := fst (cpu_reduce Proofs.no_ret_exact rb_none 4 (fun a i => Z.max a (nthz xs i)) Z.max 100 3 0) in
  rb_entries (setup_ret Proofs.no_ret_exact rb1 1 omp_blocks) = 512 /\
  snd (cpu_reduce Proofs.no_ret_exact rb1 1 f (host_op KLor) 0 3 100) = 1 /\
  fold_left f (iota 3) 0 = 0.
Proof. exact Proofs.stale_return_buffer_refuted. Qed.
Print Assumptions stale_return_buffer_refuted.

(* a localInit that is not an identity is applied once per block: known finding
   reduce_nonidentity_init (std::accumulate(.., 5, +) over 1 2 3 is 11) *)
Theorem reduce_nonidentity_init_refuted :
  snd (cpu_reduce fixed rb_none 8 (fun a i => a + nthz [1; 2; 3] i) Z.add 5 3 0) = 646 /\
  s_reduce (fun a x _ => a + x) 5 [1; 2; 3] = 11.
Proof. exact Proofs.reduce_nonidentity_init_refuted. Qed.
Print Assumptions reduce_nonidentity_init_refuted.

(* ---------------------------------------------------------------- ranges *)

(* range::length and the kernels' index -> value map enumerate exactly the values of
   for (x = start; step > 0 ? x < end : x > end; x += step), in order, for steps of both signs *)
Theorem range_length : forall s e st, st <> 0 ->
  map (range_value (mkRange s e st)) (iota (range_length (mkRange s e st))) = s_range_values s e st.
Proof. exact ProofsRange.range_length_values. Qed.
Print Assumptions range_length.

(* the three constructors never store step 0 *)
Theorem range_ctor_step : forall a b c,
  r_step (range1 a) <> 0 /\ r_step (range2 a b) <> 0 /\ r_step (range3 a b c) <> 0.
Proof. exact ProofsRange.range_ctor_step. Qed.
Print Assumptions range_ctor_step.

Theorem range_ops_sequential :
  forall s e st ts ti (p : Z -> bool) (g : Z -> Z) (junk : Z), st <> 0 ->
  let r := mkRange s e st in
  let xs := s_range_values s e st in
  Model.range_length r = zlen xs /\
  m_every fixed ts ti (Model.range_length r) (fun i => p (range_value r i)) = Ok (forallb p xs) /\
  m_some fixed ts ti (Model.range_length r) (fun i => p (range_value r i)) = Ok (existsb p xs) /\
  m_map fixed ts ti (Model.range_length r) (fun i => g (range_value r i)) junk = Ok (map g xs).
Proof. exact Proofs.range_ops_sequential. Qed.
Print Assumptions range_ops_sequential.

(* ---------------------------------------------------------------- forLoop *)

(* For every list of outer and inner iterations (ranges with a non-zero step, index arrays with
   arbitrary entries, each untiled (0) or tiled with a positive size) the emitted nest terminates
   and runs OCCA_LOOP_FUNCTION for the tuples of the cartesian product of the iterations' values,
   in lexicographic order ... *)
Theorem forloop_tuples : forall outer inner,
  Forall ProofsForLoop.wf_iter (outer ++ inner) ->
  Model.forloop_tuples fixed outer inner = Ok (spec_forloop outer inner).
Proof. exact ProofsForLoop.forloop_tuples_fixed. Qed.
Print Assumptions forloop_tuples.

(* ... which contains every tuple as often as its components occur in the iterations: exactly once
   per index tuple when no iteration repeats a value, never for a tuple outside the product *)
Theorem forloop_body_count : forall ls t,
  count_occ ProofsForLoop.tuple_eq_dec (s_tuples ls) t = count_tuple t ls.
Proof. exact ProofsForLoop.tuples_count. Qed.
Print Assumptions forloop_body_count.

(* pinned `X -= step` with the signed step: a range that counts down never reaches its end *)
Theorem forloop_negative_step_refuted :
  Model.forloop_tuples Proofs.no_step_abs [IRange (range3 10 0 (-2)) 0] [] = Diverge /\
  spec_forloop [IRange (range3 10 0 (-2)) 0] [] = [[10]; [8]; [6]; [4]; [2]].
Proof. exact Proofs.forloop_negative_step_refuted. Qed.
Print Assumptions forloop_negative_step_refuted.

(* pinned @tile inner bound on a stepped range: tile({range(0, 20, 2), 4}) *)
Theorem forloop_tile_step_refuted :
  Model.forloop_tuples Proofs.no_tile_step [IRange (range3 0 20 2) 4] [] = Ok [[0]; [2]; [8]; [10]; [16]; [18]] /\
  spec_forloop [IRange (range3 0 20 2) 4] [] = [[0]; [2]; [4]; [6]; [8]; [10]; [12]; [14]; [16]; [18]].
Proof. exact Proofs.forloop_tile_step_refuted. Qed.
Print Assumptions forloop_tile_step_refuted.

(* ---------------------------------------------------------------- non-vacuity *)

(* 67 entries, setTileSize(4, 3): blocks of 36 indices, the last one cut at 67 *)
Example ex_map_67 : map_engine fixed 4 3 67 = Ok (iota 67).
Proof. vm_compute. reflexivity. Qed.

(* the tile setting is clamped: tile size 1000 on 5 entries *)
Example ex_clamp : safe_tile 5 1000 7 = Ok (5, 1) /\ safe_tile 10 3 9 = Ok (3, 4) /\ safe_tile 10 (-1) (-1) = Ok (1, 1).
Proof. repeat split. Qed.

(* 300 entries: blocks of 3, blocks 100..127 are empty *)
Example ex_blocks : block_range 300 0 = (0, 3) /\ block_range 300 99 = (297, 300) /\ block_range 300 127 = (381, 300).
Proof. repeat split. Qed.

Example ex_sum_300 :
  snd (cpu_reduce fixed rb_none 8 (fun a i => a + i * i) Z.add 0 300 0) = fold_left (fun a i => a + i * i) (iota 300) 0.
Proof. vm_compute. reflexivity. Qed.

Example ex_range :
  Model.range_length (range3 10 0 (-3)) = 4 /\ s_range_values 10 0 (-3) = [10; 7; 4; 1] /\
  Model.range_length (range3 (-7) 8 4) = 4 /\ s_range_values (-7) 8 4 = [-7; -3; 1; 5] /\
  Model.range_length (range2 3 (-3)) = 6 /\ Model.range_length (range3 0 10 (-1)) = 0.
Proof. repeat split. Qed.

(* two outer iterations (one tiled, counting down) and an index array with a repeated entry *)
Example ex_forloop :
  Model.forloop_tuples fixed [IRange (range3 9 0 (-4)) 2; IArray [5; 5] 0] [IRange (range1 2) 0]
  = Ok [[9; 5; 0]; [9; 5; 1]; [9; 5; 0]; [9; 5; 1]; [5; 5; 0]; [5; 5; 1]; [5; 5; 0]; [5; 5; 1];
        [1; 5; 0]; [1; 5; 1]; [1; 5; 0]; [1; 5; 1]] /\
  count_tuple [5; 5; 1] [[9; 5; 1]; [5; 5]; [0; 1]] = 2%nat.
Proof. split; vm_compute; reflexivity. Qed.
