(* C23 — reference semantics: the sequential std:: computations the functional layer stands for,
   written over lists, independently of Model.v (no tiles, no blocks, no buffers).

     every      std::all_of          some       std::any_of
     findIndex  std::find_if - begin (or -1)   forEach    std::for_each
     map/mapTo  std::transform       reduce     std::accumulate(first, last, init, fn)
     range      for (x = start; step > 0 ? x < end : x > end; x += step)
     forLoop    the body once per tuple of the cartesian product of its iterations' values
   A user function of an array sees (value, index); closures capture the whole array where the
   C++ lambda takes the values pointer.  No proofs in this file. *)
From Coq Require Import List ZArith Bool Lia.
Import ListNotations.
Local Open Scope Z_scope.

Fixpoint indexed_from (i : Z) (xs : list Z) : list (Z * Z) :=
  match xs with
  | [] => []
  | x :: t => (i, x) :: indexed_from (i + 1) t
  end.
Definition indexed (xs : list Z) : list (Z * Z) := indexed_from 0 xs.

Definition s_every (p : Z -> Z -> bool) (xs : list Z) : bool :=
  forallb (fun ix => p (snd ix) (fst ix)) (indexed xs).
Definition s_some (p : Z -> Z -> bool) (xs : list Z) : bool :=
  existsb (fun ix => p (snd ix) (fst ix)) (indexed xs).

Fixpoint find_from (p : Z -> Z -> bool) (i : Z) (xs : list Z) : Z :=
  match xs with
  | [] => -1
  | x :: t => if p x i then i else find_from p (i + 1) t
  end.
Definition s_findIndex (p : Z -> Z -> bool) (xs : list Z) : Z := find_from p 0 xs.

(* forEach with the body `counts[index] += 1` *)
Definition s_counts (xs : list Z) : list Z := map (fun _ => 1) xs.

Definition s_map (g : Z -> Z -> Z) (xs : list Z) : list Z :=
  map (fun ix => g (snd ix) (fst ix)) (indexed xs).

Definition s_reduce {A : Type} (f : A -> Z -> Z -> A) (init : A) (xs : list Z) : A :=
  fold_left (fun a ix => f a (snd ix) (fst ix)) (indexed xs) init.

(* ---- ranges ---- *)
Fixpoint walk (fuel : nat) (x : Z) (continue : Z -> bool) (step : Z) : list Z :=
  match fuel with
  | O => []
  | S f => if continue x then x :: walk f (x + step) continue step else []
  end.

(* the values of  for (x = start; step > 0 ? x < end : x > end; x += step), step <> 0 *)
Definition s_range_values (start stop step : Z) : list Z :=
  walk (S (Z.to_nat (Z.abs (stop - start)))) start
       (fun x => if 0 <? step then x <? stop else stop <? x) step.

(* ---- forLoop ---- *)
Fixpoint s_tuples (ls : list (list Z)) : list (list Z) :=
  match ls with
  | [] => [[]]
  | l :: rest => flat_map (fun x => map (fun t => x :: t) (s_tuples rest)) l
  end.

(* how often the body has to run for tuple t *)
Fixpoint count_tuple (t : list Z) (ls : list (list Z)) : nat :=
  match t, ls with
  | [], [] => 1
  | x :: t', l :: ls' => count_occ Z.eq_dec l x * count_tuple t' ls'
  | _, _ => 0
  end.
