(* C23 — the statements of Properties_C23.v, assembled from ProofsLoops / ProofsMap / ProofsReduce /
   ProofsRange / ProofsForLoop, and the witnesses for the pinned variants. *)
From Coq Require Import List ZArith Bool Lia Arith.
From OV.C23 Require Import Model Spec Menu ProofsLoops ProofsMap ProofsReduce ProofsRange ProofsForLoop.
Import ListNotations.
Local Open Scope Z_scope.

(* variants that differ from the current code in one place *)
Definition no_tile_step : variant := mkVariant false true true true.
Definition no_empty_guard : variant := mkVariant true false true true.
Definition no_ret_exact : variant := mkVariant true true false true.
Definition no_step_abs : variant := mkVariant true true true false.

(* ---- map kernels ---- *)
Lemma map_covers_all : forall ts ti len, 0 <= len -> map_engine fixed ts ti len = Ok (iota len).
Proof. exact map_engine_fixed. Qed.

Lemma map_ops_sequential : forall ts ti xs (p : Z -> Z -> bool) (g : Z -> Z -> Z) (junk : Z) (out : list Z),
  length out = length xs ->
  m_every fixed ts ti (zlen xs) (fun i => p (nthz xs i) i) = Ok (s_every p xs) /\
  m_some fixed ts ti (zlen xs) (fun i => p (nthz xs i) i) = Ok (s_some p xs) /\
  m_counts fixed ts ti (zlen xs) = Ok (s_counts xs) /\
  m_map fixed ts ti (zlen xs) (fun i => g (nthz xs i) i) junk = Ok (s_map g xs) /\
  m_mapTo fixed ts ti (zlen xs) (fun i => g (nthz xs i) i) out = Ok (s_map g xs).
Proof.
  intros. repeat split.
  - apply every_sequential.
  - apply some_sequential.
  - apply counts_sequential.
  - apply map_sequential.
  - apply mapTo_sequential. assumption.
Qed.

Lemma findindex_last_refuted :
  m_findIndex fixed (-1) (-1) 3 (fun i => nthz [1; 1; 1] i =? 1) = Ok 2 /\
  s_findIndex (fun x _ => x =? 1) [1; 1; 1] = 0.
Proof. split; reflexivity. Qed.

Lemma tile_iterations_gap_refuted :
  map_engine no_tile_step 2 2 10 = Ok [0; 1; 2; 3; 8; 9].
Proof. reflexivity. Qed.

Lemma empty_array_div_zero_refuted : forall ts ti, map_engine no_empty_guard ts ti 0 = Crash.
Proof.
  intros ts ti. unfold map_engine, safe_tile, cdiv. cbn [v_empty_guard no_empty_guard andb].
  replace (Z.min (Z.max 1 ts) 0) with 0 by lia. reflexivity.
Qed.

(* ---- reductions ---- *)
Lemma reduce_blocks_compat : forall (A : Type) (f : A -> Z -> A) (op : A -> A -> A) (init : A),
  (forall a, op init a = op a init) -> op init init = init ->
  (forall a b i, f (op a b) i = op a (f b i)) ->
  forall rb elem len stale, 0 <= len -> 0 < elem ->
  snd (cpu_reduce fixed rb elem f op init len stale) = fold_left f (iota len) init.
Proof. intros A f op init H1 H2 H3 rb elem len stale. apply cpu_reduce_fold; assumption. Qed.

Lemma reduce_blocks : forall (A : Type) (op : A -> A -> A) (h : Z -> A) (init : A),
  (forall a b c, op a (op b c) = op (op a b) c) ->
  (forall a, op a init = a) -> (forall a, op init a = a) ->
  forall rb elem len stale, 0 <= len -> 0 < elem ->
  snd (cpu_reduce fixed rb elem (fun a i => op a (h i)) op init len stale)
  = fold_left (fun a i => op a (h i)) (iota len) init.
Proof.
  intros A op h init Hassoc Hr Hl rb elem len stale. apply cpu_reduce_fold.
  - intros a. rewrite Hr, Hl. reflexivity.
  - apply Hr.
  - intros a b i. symmetry. apply Hassoc.
Qed.

Lemma reduce_blocks_idem : forall (A : Type) (op : A -> A -> A) (h : Z -> A) (init : A),
  (forall a b c, op a (op b c) = op (op a b) c) ->
  (forall a b, op a b = op b a) -> (forall a, op a a = a) ->
  forall rb elem len stale, 0 <= len -> 0 < elem ->
  snd (cpu_reduce fixed rb elem (fun a i => op a (h i)) op init len stale)
  = fold_left (fun a i => op a (h i)) (iota len) init.
Proof.
  intros A op h init Hassoc Hcomm Hidem rb elem len stale. apply cpu_reduce_fold.
  - intros a. apply Hcomm.
  - apply Hidem.
  - intros a b i. symmetry. apply Hassoc.
Qed.

Lemma return_buffer_exact : forall rb elem count, 0 < elem ->
  rb_entries (setup_ret fixed rb elem count) = count.
Proof. exact setup_ret_exact. Qed.

(* instances *)
Lemma sum_sequential : forall xs rb elem stale, 0 < elem ->
  snd (cpu_reduce fixed rb elem (fun a i => a + nthz xs i) Z.add 0 (zlen xs) stale)
  = s_reduce (fun a x _ => a + x) 0 xs.
Proof.
  intros xs rb elem stale He. rewrite s_reduce_iota.
  apply (reduce_blocks Z Z.add (nthz xs) 0); try assumption; try (unfold zlen; lia); intros; lia.
Qed.

Lemma max_sequential : forall xs rb elem stale, 0 < elem ->
  snd (cpu_reduce fixed rb elem (fun a i => Z.max a (nthz xs i)) Z.max (nthz xs 0) (zlen xs) stale)
  = s_reduce (fun a x _ => Z.max a x) (nthz xs 0) xs.
Proof.
  intros xs rb elem stale He. rewrite s_reduce_iota.
  apply (reduce_blocks_idem Z Z.max (nthz xs) (nthz xs 0)); try assumption; try (unfold zlen; lia); intros; lia.
Qed.

Lemma min_sequential : forall xs rb elem stale, 0 < elem ->
  snd (cpu_reduce fixed rb elem (fun a i => Z.min a (nthz xs i)) Z.min (nthz xs 0) (zlen xs) stale)
  = s_reduce (fun a x _ => Z.min a x) (nthz xs 0) xs.
Proof.
  intros xs rb elem stale He. rewrite s_reduce_iota.
  apply (reduce_blocks_idem Z Z.min (nthz xs) (nthz xs 0)); try assumption; try (unfold zlen; lia); intros; lia.
Qed.

(* array::indexOf: min-reduction with localInit = length and a function that is not of the form
   op a (h i) *)
Lemma indexOf_blocks : forall xs c rb stale,
  snd (cpu_reduce fixed rb 4
         (fun acc i => if negb (nthz xs i =? c) || (acc <=? i) then acc else i)
         Z.min (zlen xs) (zlen xs) stale)
  = s_reduce (fun acc x i => if negb (x =? c) || (acc <=? i) then acc else i) (zlen xs) xs.
Proof.
  intros xs c rb stale. rewrite s_reduce_iota.
  apply cpu_reduce_fold; [intros a; lia | lia | | unfold zlen; lia | lia].
  intros a b i. destruct (negb (nthz xs i =? c)); cbn [orb]; [reflexivity|].
  destruct (Z.min a b <=? i) eqn:E1, (b <=? i) eqn:E2;
    try apply Z.leb_le in E1; try apply Z.leb_gt in E1; try apply Z.leb_le in E2; try apply Z.leb_gt in E2; lia.
Qed.

Lemma reduce_nonidentity_init_refuted :
  snd (cpu_reduce fixed rb_none 8 (fun a i => a + nthz [1; 2; 3] i) Z.add 5 3 0) = 646 /\
  s_reduce (fun a x _ => a + x) 5 [1; 2; 3] = 11.
Proof. split; vm_compute; reflexivity. Qed.

(* reduce<int> (max) and then reduce<bool> (boolOr) on the same array: the pinned test
   `bytes > returnMemory.size()` keeps the 512-byte buffer for 128 bool entries, and hostReduction
   reads 512 of them *)
Lemma stale_return_buffer_refuted :
  let xs := [100; 101; 102] in
  let f := fun (a : Z) (i : Z) => b2z (nz a || (nthz xs i =? 5)) in
  let rb1 := fst (cpu_reduce no_ret_exact rb_none 4 (fun a i => Z.max a (nthz xs i)) Z.max 100 3 0) in
  rb_entries (setup_ret no_ret_exact rb1 1 omp_blocks) = 512 /\
  snd (cpu_reduce no_ret_exact rb1 1 f (host_op KLor) 0 3 100) = 1 /\
  fold_left f (iota 3) 0 = 0.
Proof. repeat split; vm_compute; reflexivity. Qed.

(* ---- ranges ---- *)
Lemma range_length_nonneg : forall s e st, st <> 0 -> 0 <= range_length (mkRange s e st).
Proof.
  intros s e st Hst. unfold range_length. cbn [r_start r_end r_step].
  destruct ((s <? e) && (st <=? 0) || (e <? s) && (0 <=? st)) eqn:G; [lia|].
  apply orb_false_iff in G. destruct G as [G1 G2].
  apply andb_false_iff in G1. apply andb_false_iff in G2.
  destruct (0 <? st) eqn:P.
  - apply Z.ltb_lt in P. apply Z.quot_pos; [|lia].
    destruct G2 as [G2|G2]; [apply Z.ltb_ge in G2; lia | apply Z.leb_gt in G2; lia].
  - apply Z.ltb_ge in P. assert (st < 0) by lia.
    replace (e - s + st + 1) with (- (s - e - st - 1)) by lia.
    replace st with (- (- st)) at 2 by lia. rewrite Z.quot_opp_opp by lia.
    apply Z.quot_pos; [|lia].
    destruct G1 as [G1|G1]; [apply Z.ltb_ge in G1; lia | apply Z.leb_gt in G1; lia].
Qed.

Lemma range_ops_sequential : forall s e st ts ti (p : Z -> bool) (g : Z -> Z) (junk : Z), st <> 0 ->
  let r := mkRange s e st in
  let xs := s_range_values s e st in
  range_length r = zlen xs /\
  m_every fixed ts ti (range_length r) (fun i => p (range_value r i)) = Ok (forallb p xs) /\
  m_some fixed ts ti (range_length r) (fun i => p (range_value r i)) = Ok (existsb p xs) /\
  m_map fixed ts ti (range_length r) (fun i => g (range_value r i)) junk = Ok (map g xs).
Proof.
  intros s e st ts ti p g junk Hst r xs.
  pose proof (range_length_values s e st Hst) as HV. fold r in HV. fold xs in HV.
  pose proof (range_length_nonneg s e st Hst) as Hn. fold r in Hn.
  set (n := range_length r) in *.
  assert (Hlen : n = zlen xs).
  { unfold zlen. rewrite <- HV, map_length. unfold iota. rewrite map_length, seq_length. lia. }
  split; [exact Hlen|].
  unfold m_every, m_some, m_findIndex, m_map, m_mapTo.
  rewrite map_engine_fixed by assumption. cbn [res_map]. repeat split.
  - f_equal. rewrite run_every_forallb, <- HV, forallb_map. reflexivity.
  - f_equal. unfold run_findIndex. rewrite run_find_nonneg.
    + cbn [Z.leb Z.compare orb]. rewrite <- HV, existsb_map. reflexivity.
    + intros x Hx. rewrite iota_zrange in Hx. apply zrange_bounds in Hx. lia.
  - f_equal. unfold run_mapTo.
    replace n with (Z.of_nat (Z.to_nat n)) at 1 by lia.
    rewrite mapTo_prefix by (rewrite repeat_length; lia).
    rewrite skipn_all2 by (rewrite repeat_length; lia). rewrite app_nil_r.
    rewrite Z2Nat.id by lia. rewrite <- HV, map_map. reflexivity.
Qed.

(* ---- forLoop ---- *)
Lemma forloop_negative_step_refuted :
  forloop_tuples no_step_abs [IRange (range3 10 0 (-2)) 0] [] = Diverge /\
  spec_forloop [IRange (range3 10 0 (-2)) 0] [] = [[10]; [8]; [6]; [4]; [2]].
Proof. split; vm_compute; reflexivity. Qed.

Lemma forloop_tile_step_refuted :
  forloop_tuples no_tile_step [IRange (range3 0 20 2) 4] [] = Ok [[0]; [2]; [8]; [10]; [16]; [18]] /\
  spec_forloop [IRange (range3 0 20 2) 4] [] = [[0]; [2]; [4]; [6]; [8]; [10]; [12]; [14]; [16]; [18]].
Proof. split; vm_compute; reflexivity. Qed.
