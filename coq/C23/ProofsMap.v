(* C23 — the CPU map template visits 0..len-1 once, in order; the kernel bodies along these
   visits are the sequential computations of Spec.v. *)
From Coq Require Import List ZArith Bool Lia Arith.
From OV.C23 Require Import Model Spec Menu ProofsLoops.
Import ListNotations.
Local Open Scope Z_scope.

Lemma blocks_exact : forall s, 0 < s -> forall (m : nat) a,
  flat_map (fun t => zrange t (t + s)) (ups a (a + Z.of_nat m * s) s) = zrange a (a + Z.of_nat m * s).
Proof.
  intros s Hs. induction m as [|m IH]; intros a.
  - replace (a + Z.of_nat 0 * s) with a by lia. rewrite ups_ge, zrange_nil by lia. reflexivity.
  - rewrite ups_lt by nia. cbn [flat_map].
    replace (a + Z.of_nat (S m) * s) with ((a + s) + Z.of_nat m * s) by lia.
    rewrite IH. apply zrange_app; nia.
Qed.

Lemma filter_flat_map : forall (A B : Type) (P : B -> bool) (g : A -> list B) l,
  filter P (flat_map g l) = flat_map (fun x => filter P (g x)) l.
Proof.
  intros A B P g. induction l as [|x l IH]; [reflexivity|]. cbn [flat_map]. rewrite filter_app, IH. reflexivity.
Qed.

Lemma cpu_map_visits_fixed : forall len sts sti, 0 < sts -> 0 < sti ->
  cpu_map_visits fixed len sts sti = Some (zrange 0 len).
Proof.
  intros len sts sti Hts Hti. unfold cpu_map_visits. cbn [v_tile_step fixed].
  set (T := sts * sti). set (bstep := T * sti).
  assert (HT : 0 < T) by (unfold T; nia). assert (Hb : 0 < bstep) by (unfold bstep; nia).
  rewrite (loop_up_ups 0 len bstep Hb).
  rewrite (nest_some _ _ _ (fun B => filter (fun i => i <? len) (zrange B (B + bstep)))).
  - f_equal. pose proof (tiled_up len 1 bstep ltac:(lia) Hb 0) as H.
    rewrite Z.mul_1_r in H. rewrite ups_1 in H. rewrite <- H.
    apply flat_map_ext. intros B. rewrite ups_1. reflexivity.
  - intros B _. rewrite (loop_up_ups B (B + bstep) sti Hti).
    rewrite (nest_some _ _ _ (fun t => filter (fun i => i <? len) (zrange t (t + sti)))).
    + f_equal. rewrite <- filter_flat_map. f_equal.
      pose proof (blocks_exact sti Hti (Z.to_nat T) B) as H. rewrite Z2Nat.id in H by lia. exact H.
    + intros t _. rewrite (loop_up_ups t (t + sti) 1) by lia. rewrite ups_1. reflexivity.
Qed.

Lemma safe_tile_pos : forall len ts ti, 0 < len ->
  exists sts sti, safe_tile len ts ti = Ok (sts, sti) /\ 0 < sts /\ 0 < sti.
Proof.
  intros len ts ti Hlen. unfold safe_tile, cdiv.
  set (sts := Z.min (Z.max 1 ts) len). assert (Hs : 0 < sts) by (unfold sts; lia).
  destruct (sts =? 0) eqn:E; [apply Z.eqb_eq in E; lia|].
  exists sts, (Z.min (Z.max 1 ti) (Z.quot (len + sts - 1) sts)). split; [reflexivity|]. split; [assumption|].
  assert (1 <= Z.quot (len + sts - 1) sts).
  { rewrite Z.quot_div_nonneg by lia. apply Z.div_le_lower_bound; lia. }
  lia.
Qed.

Lemma map_engine_fixed : forall ts ti len, 0 <= len -> map_engine fixed ts ti len = Ok (iota len).
Proof.
  intros ts ti len Hlen. unfold map_engine. cbn [v_empty_guard fixed andb].
  destruct (len =? 0) eqn:E.
  - apply Z.eqb_eq in E. subst. reflexivity.
  - apply Z.eqb_neq in E. destruct (safe_tile_pos len ts ti ltac:(lia)) as (sts & sti & -> & Hs & Hi).
    rewrite cpu_map_visits_fixed by assumption. rewrite iota_zrange. reflexivity.
Qed.

(* ---- lists and indices ---- *)
Lemma iota_S : forall n : nat, iota (Z.of_nat (S n)) = iota (Z.of_nat n) ++ [Z.of_nat n].
Proof. intros n. unfold iota. rewrite !Nat2Z.id, seq_S, map_app. reflexivity. Qed.

Lemma iota_len : forall n : nat, length (iota (Z.of_nat n)) = n.
Proof. intros n. unfold iota. rewrite map_length, seq_length, Nat2Z.id. reflexivity. Qed.

Lemma indexed_from_spec : forall xs a,
  indexed_from a xs = map (fun j => (a + Z.of_nat j, nth j xs 0)) (seq 0 (length xs)).
Proof.
  induction xs as [|x xs IH]; intros a; [reflexivity|].
  cbn [indexed_from length seq map nth]. f_equal; [f_equal; lia|].
  rewrite IH, <- seq_shift, map_map. apply map_ext. intros j. cbn [nth]. f_equal. lia.
Qed.

Lemma indexed_spec : forall xs, indexed xs = map (fun i => (i, nthz xs i)) (iota (zlen xs)).
Proof.
  intros xs. unfold indexed, iota, zlen. rewrite indexed_from_spec, Nat2Z.id, map_map.
  apply map_ext. intros j. unfold nthz. rewrite Nat2Z.id. reflexivity.
Qed.

(* ---- every ---- *)
Lemma run_every_forallb : forall p l, run_every p l = forallb p l.
Proof.
  intros p l. unfold run_every.
  assert (H : forall r, fold_left (fun r i => if p i then r else false) l r = r && forallb p l).
  { induction l as [|x l IH]; intros r; cbn [fold_left forallb]; [rewrite andb_true_r; reflexivity|].
    rewrite IH. destruct (p x), r; reflexivity. }
  rewrite H. reflexivity.
Qed.


Lemma forallb_map : forall (A B : Type) (f : A -> B) (P : B -> bool) l,
  forallb P (map f l) = forallb (fun x => P (f x)) l.
Proof. intros A B f P. induction l as [|x l IH]; [reflexivity|]. cbn [map forallb]. rewrite IH. reflexivity. Qed.

Lemma existsb_map : forall (A B : Type) (f : A -> B) (P : B -> bool) l,
  existsb P (map f l) = existsb (fun x => P (f x)) l.
Proof. intros A B f P. induction l as [|x l IH]; [reflexivity|]. cbn [map existsb]. rewrite IH. reflexivity. Qed.

Lemma every_sequential : forall ts ti xs (p : Z -> Z -> bool),
  m_every fixed ts ti (zlen xs) (fun i => p (nthz xs i) i) = Ok (s_every p xs).
Proof.
  intros ts ti xs p. unfold m_every. rewrite map_engine_fixed by (unfold zlen; lia). cbn [res_map].
  f_equal. rewrite run_every_forallb. unfold s_every. rewrite indexed_spec, forallb_map. reflexivity.
Qed.

(* ---- findIndex / some ---- *)
Lemma run_find_none : forall (p : Z -> bool) l (r : Z), (forall x, In x l -> p x = false) ->
  fold_left (fun r i => if p i then i else r) l r = r.
Proof.
  intros p. induction l as [|x l IH]; intros r H; [reflexivity|]. cbn [fold_left].
  rewrite (H x) by (left; reflexivity). apply IH. intros y Hy. apply H. right. exact Hy.
Qed.

Lemma run_find_last : forall (p : Z -> bool) l1 m l2 (r : Z), p m = true -> (forall x, In x l2 -> p x = false) ->
  fold_left (fun r i => if p i then i else r) (l1 ++ m :: l2) r = m.
Proof.
  intros p l1 m l2 r Hm H2. rewrite fold_left_app. cbn [fold_left]. rewrite Hm. apply run_find_none. exact H2.
Qed.

Lemma find_from_spec : forall (q : Z -> Z -> bool) xs a,
  find_from q a xs =
  match find (fun ix => q (snd ix) (fst ix)) (indexed_from a xs) with
  | Some ix => fst ix
  | None => -1
  end.
Proof.
  intros q. induction xs as [|x xs IH]; intros a; [reflexivity|].
  cbn [find_from indexed_from find fst snd]. destruct (q x a); [reflexivity|]. apply IH.
Qed.

Lemma find_first : forall (A : Type) (P : A -> bool) l1 m l2, P m = true -> (forall x, In x l1 -> P x = false) ->
  find P (l1 ++ m :: l2) = Some m.
Proof.
  intros A P. induction l1 as [|x l1 IH]; intros m l2 Hm H1; cbn [app find].
  - rewrite Hm. reflexivity.
  - rewrite (H1 x) by (left; reflexivity). apply IH; [assumption|]. intros y Hy. apply H1. right. exact Hy.
Qed.

Lemma find_none_all : forall (A : Type) (P : A -> bool) l, (forall x, In x l -> P x = false) -> find P l = None.
Proof.
  intros A P. induction l as [|x l IH]; intros H; [reflexivity|]. cbn [find].
  rewrite (H x) by (left; reflexivity). apply IH. intros y Hy. apply H. right. exact Hy.
Qed.

Lemma iota_split : forall n m, 0 <= m < n -> iota n = zrange 0 m ++ m :: zrange (m + 1) n.
Proof.
  intros n m H. rewrite iota_zrange, <- (zrange_app 0 m n) by lia. f_equal. apply zrange_cons. lia.
Qed.

(* at most one index satisfies p: the last store is the first match *)
Lemma findIndex_unique : forall ts ti xs (p : Z -> Z -> bool),
  (forall i j, 0 <= i < zlen xs -> 0 <= j < zlen xs ->
               p (nthz xs i) i = true -> p (nthz xs j) j = true -> i = j) ->
  m_findIndex fixed ts ti (zlen xs) (fun i => p (nthz xs i) i) = Ok (s_findIndex p xs).
Proof.
  intros ts ti xs p Hu. unfold m_findIndex. rewrite map_engine_fixed by (unfold zlen; lia). cbn [res_map].
  f_equal. unfold run_findIndex, s_findIndex. rewrite find_from_spec. fold (indexed xs). rewrite indexed_spec.
  set (n := zlen xs) in *. set (P := fun i => p (nthz xs i) i).
  destruct (existsb P (iota n)) eqn:E.
  - apply existsb_exists in E. destruct E as (m & Hin & Hm).
    rewrite iota_zrange in Hin. apply zrange_bounds in Hin.
    assert (Hoth : forall x, 0 <= x < n -> x <> m -> P x = false).
    { intros x Hx Hne. destruct (P x) eqn:Ex; [|reflexivity]. exfalso. apply Hne. apply Hu; assumption. }
    rewrite (iota_split n m) by lia.
    rewrite (run_find_last P); [|exact Hm|].
    2:{ intros x Hx. apply zrange_bounds in Hx. apply Hoth; lia. }
    rewrite map_app. cbn [map].
    rewrite (find_first _ (fun ix => p (snd ix) (fst ix))); [reflexivity|exact Hm|].
    intros ix Hix. apply in_map_iff in Hix. destruct Hix as (x & <- & Hx). cbn [fst snd].
    apply zrange_bounds in Hx. apply (Hoth x); lia.
  - assert (Hno : forall x, In x (iota n) -> P x = false).
    { intros x Hx. destruct (P x) eqn:Ex; [|reflexivity].
      assert (existsb P (iota n) = true) by (apply existsb_exists; eauto). congruence. }
    rewrite run_find_none by exact Hno.
    rewrite find_none_all; [reflexivity|].
    intros ix Hix. apply in_map_iff in Hix. destruct Hix as (x & <- & Hx). cbn [fst snd]. apply Hno. exact Hx.
Qed.

Lemma run_find_nonneg : forall (p : Z -> bool) l (r : Z), (forall x, In x l -> 0 <= x) ->
  (0 <=? fold_left (fun r i => if p i then i else r) l r) = (0 <=? r) || existsb p l.
Proof.
  intros p. induction l as [|x l IH]; intros r H; cbn [fold_left existsb]; [rewrite orb_false_r; reflexivity|].
  rewrite IH by (intros y Hy; apply H; right; exact Hy).
  destruct (p x) eqn:E; cbn [orb].
  - assert (0 <= x) by (apply H; left; reflexivity).
    replace (0 <=? x) with true by (symmetry; apply Z.leb_le; assumption). rewrite orb_true_r. reflexivity.
  - reflexivity.
Qed.

Lemma some_sequential : forall ts ti xs (p : Z -> Z -> bool),
  m_some fixed ts ti (zlen xs) (fun i => p (nthz xs i) i) = Ok (s_some p xs).
Proof.
  intros ts ti xs p. unfold m_some, m_findIndex. rewrite map_engine_fixed by (unfold zlen; lia). cbn [res_map].
  f_equal. unfold run_findIndex. rewrite run_find_nonneg.
  - cbn [Z.leb Z.compare orb]. unfold s_some. rewrite indexed_spec, existsb_map. reflexivity.
  - intros x Hx. rewrite iota_zrange in Hx. apply zrange_bounds in Hx. lia.
Qed.

(* ---- forEach counts, mapTo, map ---- *)
Lemma upd_nth_app : forall l1 x l2 f, upd_nth (l1 ++ x :: l2) (length l1) f = l1 ++ f x :: l2.
Proof. induction l1 as [|y l1 IH]; intros x l2 f; cbn [app length upd_nth]; [reflexivity|]. rewrite IH. reflexivity. Qed.

Lemma repeat_shift : forall (A : Type) (a : A) k R, repeat a k ++ a :: R = (a :: repeat a k) ++ R.
Proof.
  intros A a. induction k as [|k IH]; intros R; [reflexivity|].
  cbn [repeat app]. f_equal. rewrite IH. reflexivity.
Qed.

Lemma counts_prefix : forall (n k : nat), (k <= n)%nat ->
  fold_left (fun c i => upd_nth c (Z.to_nat i) (fun x => x + 1)) (iota (Z.of_nat k)) (repeat 0 n)
  = repeat 1 k ++ repeat 0 (n - k).
Proof.
  intros n. induction k as [|k IH]; intros Hk.
  - cbn. rewrite Nat.sub_0_r. reflexivity.
  - rewrite iota_S, fold_left_app, IH by lia. cbn [fold_left]. rewrite Nat2Z.id.
    replace (n - k)%nat with (S (n - S k)) by lia. cbn [repeat].
    pose proof (upd_nth_app (repeat 1 k) 0 (repeat 0 (n - S k)) (fun x => x + 1)) as H.
    rewrite repeat_length in H. rewrite H. cbn [Z.add].
    apply repeat_shift.
Qed.

Lemma counts_sequential : forall ts ti xs, m_counts fixed ts ti (zlen xs) = Ok (s_counts xs).
Proof.
  intros ts ti xs. unfold m_counts. rewrite map_engine_fixed by (unfold zlen; lia). cbn [res_map].
  f_equal. unfold run_counts, zlen. rewrite Nat2Z.id, counts_prefix by lia.
  rewrite Nat.sub_diag, app_nil_r. unfold s_counts. clear.
  induction xs as [|x xs IH]; [reflexivity|]. cbn [length repeat map]. rewrite IH. reflexivity.
Qed.

Lemma mapTo_prefix : forall (g : Z -> Z) (out : list Z) (k : nat), (k <= length out)%nat ->
  fold_left (fun o i => upd_nth o (Z.to_nat i) (fun _ => g i)) (iota (Z.of_nat k)) out
  = map g (iota (Z.of_nat k)) ++ skipn k out.
Proof.
  intros g out. induction k as [|k IH]; intros Hk.
  - reflexivity.
  - rewrite iota_S, fold_left_app, IH by lia. cbn [fold_left]. rewrite Nat2Z.id.
    assert (Hsk : exists y rest, skipn k out = y :: rest /\ skipn (S k) out = rest).
    { clear IH. revert k Hk. induction out as [|o out IHo]; intros k Hk; [cbn in Hk; lia|].
      destruct k as [|k]; [cbn; eauto|]. cbn [skipn]. apply IHo. cbn in Hk. lia. }
    destruct Hsk as (y & rest & E1 & E2). rewrite E1, E2.
    pose proof (upd_nth_app (map g (iota (Z.of_nat k))) y rest (fun _ => g (Z.of_nat k))) as H.
    rewrite map_length, iota_len in H. rewrite H, map_app. cbn [map]. rewrite <- app_assoc. reflexivity.
Qed.

Lemma mapTo_sequential : forall ts ti xs (g : Z -> Z -> Z) (out : list Z),
  length out = length xs ->
  m_mapTo fixed ts ti (zlen xs) (fun i => g (nthz xs i) i) out = Ok (s_map g xs).
Proof.
  intros ts ti xs g out Hout. unfold m_mapTo. rewrite map_engine_fixed by (unfold zlen; lia). cbn [res_map].
  f_equal. unfold run_mapTo, zlen. rewrite mapTo_prefix by lia.
  assert (E : skipn (length xs) out = []) by (rewrite <- Hout; apply skipn_all).
  rewrite E, app_nil_r. unfold s_map. fold (zlen xs). rewrite indexed_spec, map_map. reflexivity.
Qed.

Lemma map_sequential : forall ts ti xs (g : Z -> Z -> Z) (junk : Z),
  m_map fixed ts ti (zlen xs) (fun i => g (nthz xs i) i) junk = Ok (s_map g xs).
Proof.
  intros ts ti xs g junk. unfold m_map. apply mapTo_sequential. rewrite repeat_length. unfold zlen. lia.
Qed.
