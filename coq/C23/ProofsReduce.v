(* C23 — the 128-block CPU reduction followed by hostReduction is the sequential fold. *)
From Coq Require Import List ZArith Bool Lia Arith.
From OV.C23 Require Import Model Spec Menu ProofsLoops ProofsMap.
Import ListNotations.
Local Open Scope Z_scope.

(* ---- the return buffer holds exactly the requested entries ---- *)
Lemma setup_ret_exact : forall rb elem count, 0 < elem ->
  rb_entries (setup_ret fixed rb elem count) = count.
Proof.
  intros rb elem count He. unfold setup_ret, rb_entries. cbn [v_ret_exact fixed].
  destruct (elem * count =? rb_bytes rb) eqn:E; cbn [negb rb_bytes rb_elem].
  - apply Z.eqb_eq in E. rewrite <- E. rewrite Z.mul_comm. apply Z.quot_mul. lia.
  - rewrite Z.mul_comm. apply Z.quot_mul. lia.
Qed.

(* ---- the blocks partition [0, len) ---- *)
Lemma blocks_concat : forall len bs, 0 <= len -> 0 <= bs -> forall m : nat,
  flat_map (fun k => zrange (k * bs) (Z.min len (k * bs + bs))) (iota (Z.of_nat m))
  = zrange 0 (Z.min len (Z.of_nat m * bs)).
Proof.
  intros len bs Hlen Hbs. induction m as [|m IH].
  - cbn. rewrite zrange_nil by lia. reflexivity.
  - rewrite iota_S, flat_map_app, IH. cbn [flat_map]. rewrite app_nil_r.
    destruct (Z_le_gt_dec (Z.of_nat m * bs) len) as [L|G].
    + replace (Z.min len (Z.of_nat m * bs)) with (Z.of_nat m * bs) by lia.
      rewrite zrange_app by nia. f_equal. nia.
    + rewrite (zrange_nil (Z.of_nat m * bs)) by lia. rewrite app_nil_r. f_equal. nia.
Qed.

Lemma block_range_min : forall len k,
  block_range len k =
  (k * Z.quot (len + omp_blocks - 1) omp_blocks,
   Z.min len (k * Z.quot (len + omp_blocks - 1) omp_blocks + Z.quot (len + omp_blocks - 1) omp_blocks)).
Proof.
  intros len k. unfold block_range. f_equal.
  destruct (len <? _) eqn:E; [apply Z.ltb_lt in E|apply Z.ltb_ge in E]; lia.
Qed.

Lemma blocks_cover : forall len, 0 <= len ->
  flat_map (fun k => zrange (fst (block_range len k)) (snd (block_range len k))) (iota omp_blocks) = iota len.
Proof.
  intros len Hlen. set (bs := Z.quot (len + omp_blocks - 1) omp_blocks).
  assert (Hbs : 0 <= bs /\ len <= omp_blocks * bs).
  { unfold bs, omp_blocks. rewrite Z.quot_div_nonneg by lia.
    pose proof (Z.div_mod (len + 128 - 1) 128 ltac:(lia)). pose proof (Z.mod_pos_bound (len + 128 - 1) 128 ltac:(lia)).
    split; [apply Z.div_pos; lia | lia]. }
  erewrite flat_map_ext.
  2:{ intros k. rewrite block_range_min. cbn [fst snd]. fold bs. reflexivity. }
  replace omp_blocks with (Z.of_nat 128) at 1 by reflexivity.
  rewrite (blocks_concat len bs Hlen (proj1 Hbs) 128).
  rewrite iota_zrange. f_equal. change (Z.of_nat 128) with omp_blocks. lia.
Qed.

(* ---- folding block by block ---- *)
Section Fold.
  Context {A : Type}.
  Variables (f : A -> Z -> A) (op : A -> A -> A) (init : A).
  Hypothesis Hcomm_init : forall a, op init a = op a init.
  Hypothesis Hinit : op init init = init.
  Hypothesis Hcompat : forall a b i, f (op a b) i = op a (f b i).

  Definition Good (a : A) : Prop := op a init = a.

  Lemma fold_compat : forall xs a b, fold_left f xs (op a b) = op a (fold_left f xs b).
  Proof. induction xs as [|x xs IH]; intros a b; [reflexivity|]. cbn [fold_left]. rewrite Hcompat. apply IH. Qed.

  Lemma good_step : forall a i, Good a -> Good (f a i).
  Proof.
    unfold Good. intros a i Ha. rewrite <- Hcomm_init, <- Hcompat, Hcomm_init, Ha. reflexivity.
  Qed.

  Lemma good_fold : forall xs a, Good a -> Good (fold_left f xs a).
  Proof. induction xs as [|x xs IH]; intros a Ha; [exact Ha|]. cbn [fold_left]. apply IH, good_step, Ha. Qed.

  Lemma blocks_fold : forall (bl : list (list Z)) a, Good a ->
    fold_left op (map (fun b => fold_left f b init) bl) a = fold_left f (concat bl) a.
  Proof.
    induction bl as [|b bl IH]; intros a Ha; [reflexivity|].
    cbn [map fold_left concat]. rewrite fold_left_app.
    assert (E : op a (fold_left f b init) = fold_left f b a).
    { rewrite <- fold_compat. unfold Good in Ha. rewrite Ha. reflexivity. }
    rewrite E. apply IH. apply good_fold, Ha.
  Qed.

  Lemma host_blocks_fold : forall (b0 : list Z) (bl : list (list Z)) d,
    host_reduce op (map (fun b => fold_left f b init) (b0 :: bl)) d = fold_left f (concat (b0 :: bl)) init.
  Proof.
    intros b0 bl d. cbn [map host_reduce concat]. rewrite fold_left_app.
    apply blocks_fold. apply good_fold. exact Hinit.
  Qed.

  Theorem cpu_reduce_fold : forall rb elem len stale, 0 <= len -> 0 < elem ->
    snd (cpu_reduce fixed rb elem f op init len stale) = fold_left f (iota len) init.
  Proof.
    intros rb elem len stale Hlen He. unfold cpu_reduce. cbn [snd].
    rewrite setup_ret_exact by assumption. rewrite Z.sub_diag. cbn [Z.to_nat repeat]. rewrite app_nil_r.
    unfold cpu_reduce_blocks.
    erewrite map_ext.
    2:{ intros k. rewrite (surjective_pairing (block_range len k)). reflexivity. }
    rewrite <- (map_map (fun k => zrange (fst (block_range len k)) (snd (block_range len k)))
                        (fun b => fold_left f b init)).
    rewrite <- (blocks_cover len Hlen). rewrite flat_map_concat_map.
    assert (E : iota omp_blocks = 0 :: zrange 1 omp_blocks).
    { rewrite iota_zrange. apply zrange_cons. unfold omp_blocks. lia. }
    rewrite E. cbn [map]. apply host_blocks_fold.
  Qed.
End Fold.

(* ---- the sequential fold over the list ---- *)
Lemma s_reduce_iota : forall (A : Type) (f : A -> Z -> Z -> A) init xs,
  s_reduce f init xs = fold_left (fun a i => f a (nthz xs i) i) (iota (zlen xs)) init.
Proof.
  intros A f init xs. unfold s_reduce. rewrite indexed_spec.
  generalize (iota (zlen xs)). intros l. revert init.
  induction l as [|i l IH]; intros init; [reflexivity|]. cbn [map fold_left fst snd]. apply IH.
Qed.
